#!/usr/bin/env python3
"""c04_delete.py -- tie (T) of property C04: re-extract, from /repo's CURRENT sources, the delete dispatcher
cg_delete_node (src/cgnslib.c) and the "overwrite by name" loops of the cg_*_write functions, and write
coq/Gen_C04.v.

What is read (token level; comments dropped, `#if 0 / #else / #endif` evaluated, nothing else macro-expanded):

  src/cgnslib.c  cg_delete_node
      * the preamble: the order of the calls that decide whether and what is deleted (mode test, cgi_posit_id,
        cgio_get_node_id by NAME, cgio_get_label, the refusal test, cgi_delete_node, the dispatch)   -> `preamble`
      * the "Nodes that can't be deleted" condition: one row per (parent label, node label | node name) -> `not_deletable`
      * the dispatch: one DBlock per `if (strcmp(posit->label, ..)==0 || ..)` arm with the struct type posit->posit is
        cast to, and one DRow per inner `if / else if` arm: its tests (node_label == L | node_name == N |
        node_name == N && parent->FIELD | posit->label == P && node_name == N) and what it does:
            Shift cnt arr free custom      CGNS_DELETE_SHIFT(cnt, arr, free)  (custom = the hand-expanded copy of the
                                           macro; every column of the expansion must agree, else Unparsed)
            Child ptr free custom          CGNS_DELETE_CHILD(ptr, free)       (custom = hand-expanded)
            Scalar [fields]                assignments to plain fields of the parent (enum reset, ordinal, rind, Nindex)
            GuardedShift cnt arr free      a shift behind a run-time refusal (InterpolantsDonor of a CellListDonor)
            (an arm is a LIST of these: ParentData frees two children, SimulationType resets two fields)
            + `extra`: the side tables touched together with the shift (zonemap / pzonemap)
        Whatever does not fit is an Unparsed row / block: the forallb obligation in Properties_C04.v is then false.
  src/cgns_header.h  CGNS_DELETE_SHIFT / CGNS_DELETE_CHILD   normalised token text of the two macros -> `macro_shift`,
        `macro_child` (the Gallina transcription in Mirror.v is pinned to these texts)
  src/cgns_internals.c  every `void cgi_free_X(cgns_Y *p)`  -> `free_sigs` (free function -> struct type it frees)
  src/cgnslib.c  every node-context writer: the fields of the (possibly re-used) slot it sets -> `reinit_rows`
  src/cgns_internals.c  every qsort call, the comparator sort_childnode_names and the callers of cgi_sort_names
        -> `sort_calls`, `sort_comparator`, `sort_names_callers` (which arrays are ordered by name when a file is read)
  src/cgnslib.c  every cg_*_write with an explicit overwrite loop  -> `write_table`: one WRow per loop with a column
        for EVERY use of the count / array / parent variable in the template (loop bound, name compared, id deleted,
        slot re-used, slot freed, `index == count` test, allocation, slot appended, count incremented, returned index)

The struct declarations and the goto table are NOT re-extracted here: Gen_C11.v (translators/c11_goto.py) has them,
and Properties_C04.v cross-checks the two generated files against each other.
"""
import os, re, sys

ROOT = os.path.dirname(os.path.dirname(os.path.abspath(__file__)))
sys.path.insert(0, ROOT)
from translators.c11_goto import strip_comments_pp, tokenize, match_close, functions, vals, Fail, Cur, split_args  # noqa: E402


# ----------------------------------------------------------------------------- tiny preprocessor: #if 0 / #if 1
def eval_if0(text):
    out, stack = [], []          # stack of [kind, keeping]  kind: 'lit' (literal 0/1) or 'other'
    for l in text.split("\n"):
        s = l.strip()
        m = re.match(r"#\s*(if|ifdef|ifndef|else|elif|endif)\b\s*(.*)", s)
        keep = all(k for _, k in stack)
        if m:
            d, rest = m.group(1), m.group(2).strip()
            rest = re.sub(r"/\*.*?\*/", "", rest).strip()
            if d == "if" and rest in ("0", "1"):
                stack.append(["lit", rest == "1"])
            elif d in ("if", "ifdef", "ifndef"):
                stack.append(["other", True])
            elif d == "else" and stack:
                if stack[-1][0] == "lit":
                    stack[-1][1] = not stack[-1][1]
            elif d == "elif" and stack:
                stack[-1] = ["other", True]
            elif d == "endif" and stack:
                stack.pop()
            out.append("")
            continue
        out.append(l if keep else "")
    return "\n".join(out)


def load(repo, rel):
    text = open(os.path.join(repo, "src", rel), errors="replace").read()
    return tokenize(strip_comments_pp(eval_if0(text)))


# ----------------------------------------------------------------------------- Coq printing
def cs(s):
    return '"' + s.replace('"', '""') + '"'


def clist(xs, sep="; "):
    return "[" + sep.join(xs) + "]"


def cbool(b):
    return "true" if b else "false"


def txt(toks, a, b, limit=90):
    s = " ".join(vals(toks[a:b]))
    return s if len(s) <= limit else s[:limit] + "..."


# ----------------------------------------------------------------------------- conditions
def parse_tests(toks, i):
    """toks[i] == '(' of an if: a disjunction of  strcmp(node_label,"L")==0 | strcmp(node_name,"N")==0 |
    strcmp(posit->label,"P")==0 && strcmp(node_name,"N")==0   -> (list of test strings, index after ')')"""
    j = match_close(toks, i)
    cur = Cur(toks, i + 1, j)
    tests = []

    def atom(c):
        for var, key in (("node_label", "L"), ("node_name", "N")):
            if cur.try_eat("strcmp ( %s , @s ) == 0" % var, c) or cur.try_eat("0 == strcmp ( %s , @s )" % var, c) \
                    or cur.try_eat("! strcmp ( %s , @s )" % var, c):
                return key
        if cur.try_eat("strcmp ( posit -> label , @s ) == 0", c) or cur.try_eat("0 == strcmp ( posit -> label , @s )", c):
            return "P"
        return None

    def disj(end):
        while True:
            if cur.peek() == "(":
                k = match_close(toks, cur.i)
                cur.i += 1
                disj(k)
                cur.eat(")")
            else:
                c = {}
                k1 = atom(c)
                if k1 is None:
                    raise Fail("line %d: not a label/name comparison: %s" % (cur.line(), txt(toks, cur.i, min(end, cur.i + 12))))
                if k1 == "P":
                    cur.eat("&&")
                    c2 = {}
                    k2 = atom(c2)
                    if k2 != "N":
                        raise Fail("line %d: posit->label test not followed by a node_name test" % cur.line())
                    tests.append("TPLabelName %s %s" % (cs(c["@s"]), cs(c2["@s"])))
                elif k1 == "L":
                    tests.append("TLabel " + cs(c["@s"]))
                else:
                    c3 = {}
                    if cur.try_eat("&& parent -> $f", c3):          # the name counts only while that single child exists
                        tests.append("TNameIf %s %s" % (cs(c["@s"]), cs(c3["$f"])))
                    else:
                        tests.append("TName " + cs(c["@s"]))
            if cur.i == end:
                return
            cur.eat("||")
    disj(j)
    return tests, j + 1


def parse_plabels(toks, i):
    """toks[i] == '(' : a disjunction of strcmp(posit->label,"P")==0 -> (labels, index after ')') or None"""
    j = match_close(toks, i)
    cur = Cur(toks, i + 1, j)
    labels = []
    try:
        while True:
            c = {}
            if not (cur.try_eat("strcmp ( posit -> label , @s ) == 0", c) or cur.try_eat("0 == strcmp ( posit -> label , @s )", c)):
                return None
            labels.append(c["@s"])
            if cur.i == j:
                return labels, j + 1
            cur.eat("||")
    except Fail:
        return None


# ----------------------------------------------------------------------------- actions
def stmt_end(toks, i):
    """index after the statement starting at i"""
    v = toks[i][1]
    if v == "{":
        return match_close(toks, i) + 1
    if toks[i][0] == "id" and v in ("CGNS_DELETE_SHIFT", "CGNS_DELETE_CHILD") and toks[i + 1][1] == "(":
        j = match_close(toks, i + 1) + 1
        if j < len(toks) and toks[j][1] == ";":
            j += 1
        return j
    if v == "if":
        j = stmt_end(toks, match_close(toks, i + 1) + 1)
        if j < len(toks) and toks[j][1] == "else":
            j = stmt_end(toks, j + 1)
        return j
    if v == "for":
        return stmt_end(toks, match_close(toks, i + 1) + 1)
    d, j = 0, i
    while j < len(toks):
        w = toks[j][1]
        if w in "([{":
            d += 1
        elif w in ")]}":
            d -= 1
        elif w == ";" and d == 0:
            return j + 1
        j += 1
    return j


SHIFT_TEMPLATE = ("for ( n = 0 ; n < parent -> $c && strcmp ( parent -> $a [ n ] . name , node_name ) ; n ++ ) ; "
                  "if ( n == parent -> $c ) { cgi_error ( @m , node_name ) ; return $r ; } ")
SHIFT_TAIL = ("$f ( & parent -> $a [ n ] ) ; "
              "for ( m = n + 1 ; m < parent -> $c ; m ++ ) parent -> $a [ m - 1 ] = parent -> $a [ m ] ; "
              "if ( -- parent -> $c == 0 ) { free ( parent -> $a ) ; parent -> $a = 0 ; }")
RIND_TEMPLATE = ("if ( posit_base && posit_zone ) { index_dim = cg -> base [ posit_base - 1 ] . zone [ posit_zone - 1 ] . index_dim ; } "
                 "else { cgi_error ( @m ) ; return CG_NO_INDEX_DIM ; } "
                 "for ( n = 0 ; n < 2 * index_dim ; n ++ ) parent -> $f [ n ] = 0 ;")


def parse_action(toks, a, b):
    """the statement toks[a:b] of an inner arm -> (Coq term of type dact, extra list)"""
    cur = Cur(toks, a, b)
    braces = False
    if cur.peek() == "{" and match_close(toks, a) == b - 1:
        cur = Cur(toks, a + 1, b - 1)
        braces = True
    acts, extra = [], []
    while cur.i < cur.end:
        c = {}
        if cur.peek() == ";":
            cur.i += 1
        elif cur.try_eat("CGNS_DELETE_SHIFT ( $c , $a , $f )", c):
            acts.append("Shift %s %s %s false" % (cs(c["$c"]), cs(c["$a"]), cs(c["$f"])))
        elif cur.try_eat("CGNS_DELETE_CHILD ( $p , $f )", c):
            acts.append("Child %s %s false" % (cs(c["$p"]), cs(c["$f"])))
        elif cur.try_eat(SHIFT_TEMPLATE, c):
            # optional: un-share the point set before the slot is freed (BC_t / BCDataSet_t)
            pre = {}
            if cur.try_eat("if ( parent -> $a [ n ] . ptset == parent -> ptset ) parent -> $a [ n ] . ptset = 0 ;", pre):
                if pre["$a"] != c["$a"]:
                    return clist(["UnparsedAct " + cs("hand-expanded shift un-shares %s, shifts %s" % (pre["$a"], c["$a"]))]), []
                extra.append("unshare_ptset")
            cur.eat(SHIFT_TAIL, c)
            acts.append("Shift %s %s %s true" % (cs(c["$c"]), cs(c["$a"]), cs(c["$f"])))
        elif cur.try_eat("if ( parent -> $m ) { if ( cgi_map_contains ( parent -> $m , node_name ) == 1 ) "
                         "{ cgi_map_del_shift_item ( parent -> $m , node_name ) ; } }", c):
            extra.append(c["$m"])
        elif cur.try_eat("if ( parent -> active_zconn > n + 1 ) parent -> active_zconn -- ; "
                         "else if ( parent -> active_zconn == n + 1 ) parent -> active_zconn = 0 ;", c):
            # after CGNS_DELETE_SHIFT (n = the index the deleted container had): the CURRENT container stays current
            extra.append("active_zconn")
        elif cur.try_eat(RIND_TEMPLATE, c):
            acts.append("Scalar [%s]" % cs(c["$f"]))
        elif cur.try_eat("if ( parent -> $p ) { if ( parent -> $p -> $d ) free ( parent -> $p -> $d ) ; "
                         "$f ( parent -> $p ) ; free ( parent -> $p ) ; } parent -> $p = 0 ;", c):
            acts.append("Child %s %s true" % (cs(c["$p"]), cs(c["$f"])))
        elif cur.try_eat("if ( parent -> $p ) free ( parent -> $p ) ; parent -> $p = 0 ;", c):
            acts.append("Scalar [%s]" % cs(c["$p"]))
        elif cur.try_eat("if ( parent -> dptset . type == CGNS_ENUMV ( CellListDonor ) ) { cgi_error ( @m , node_name , posit -> label ) ; "
                         "return CG_ERROR ; } else { CGNS_DELETE_SHIFT ( $c , $a , $f ) }", c):
            acts.append("GuardedShift %s %s %s" % (cs(c["$c"]), cs(c["$a"]), cs(c["$f"])))
        elif cur.peek() == "parent" and cur.peek(1) == "->":
            # parent->field = <expr without calls> ;   |   parent->field[0] = '\0' ;
            e = stmt_end(toks, cur.i)
            seg = vals(toks[cur.i:e])
            fld = seg[2]
            k = 3
            if seg[k:k + 3] == ["[", "0", "]"]:
                k += 3
            rhs = seg[k + 1:-1]
            ok = seg[k] == "=" and seg[-1] == ";" and "parent" not in rhs and "->" not in rhs and \
                not any(t == "(" and i2 > 0 and rhs[i2 - 1] not in ("CGNS_ENUMV",) and re.match(r"[A-Za-z_]", rhs[i2 - 1] or "")
                        for i2, t in enumerate(rhs))
            if not ok:
                return clist(["UnparsedAct " + cs("line %d: %s" % (cur.line(), txt(toks, cur.i, e)))]), []
            acts.append("Scalar [%s]" % cs(fld))
            cur.i = e
        else:
            return clist(["UnparsedAct " + cs("line %d: %s" % (cur.line(), txt(toks, cur.i, min(cur.end, cur.i + 14))))]), []
    if not acts:
        return clist(["UnparsedAct " + cs("line %d: empty arm" % toks[a][2])]), []
    return clist(acts), extra


def parse_block_rows(toks, a, b):
    """toks[a:b] = the statements of one posit->label block after the `T *parent = (T *)posit->posit;` line:
    one if / else-if chain"""
    rows = []
    i = a
    first = True
    while i < b:
        if first:
            if toks[i][1] != "if":
                rows.append("DUnparsedRow " + cs("line %d: expected if, found %s" % (toks[i][2], txt(toks, i, min(b, i + 8)))))
                return rows
            i += 1
        else:
            if toks[i][1] != "else" or toks[i + 1][1] != "if":
                rows.append("DUnparsedRow " + cs("line %d: expected else if, found %s" % (toks[i][2], txt(toks, i, min(b, i + 8)))))
                return rows
            i += 2
        first = False
        try:
            tests, j = parse_tests(toks, i)
        except (Fail, ValueError) as e:
            rows.append("DUnparsedRow " + cs(str(e)))
            return rows
        e = stmt_end(toks, j)
        try:
            act, extra = parse_action(toks, j, e)
        except (Fail, ValueError) as ex:
            act, extra = clist(["UnparsedAct " + cs(str(ex))]), []
        rows.append("DRow %s %s %s" % (clist(tests), act, clist([cs(x) for x in extra])))
        i = e
    return rows


def parse_delete(toks, fb):
    b0, b1 = fb
    v = vals(toks)
    pre, nd, blocks = [], [], []
    i = b0 + 1
    # ---- preamble: a fixed order of recognisable statements up to the dispatch
    seen_refuse = False
    dispatch_at = None
    while i < b1:
        t = v[i]
        if t == "CHECK_FILE_OPEN":
            pre.append("CHECK_FILE_OPEN"); i += 1; continue
        if t == "if":
            j = match_close(toks, i + 1)
            cond = v[i + 2:j]
            e = stmt_end(toks, i)
            body = v[j + 1:e]
            if cond == ["cg", "->", "mode", "!=", "CG_MODE_MODIFY"] and "return" in body and "CG_ERROR" in body:
                pre.append("mode_is_modify")
            elif cond == ["cgi_posit_id", "(", "&", "posit_id", ")"] and body[:2] == ["return", "CG_ERROR"]:
                pre.append("cgi_posit_id")
            elif cond == ["cgio_get_node_id", "(", "cg", "->", "cgio", ",", "posit_id", ",", "node_name", ",", "&", "node_id", ")"] \
                    and "return" in body:
                pre.append("cgio_get_node_id(posit_id,node_name)")
            elif cond == ["cgio_get_label", "(", "cg", "->", "cgio", ",", "node_id", ",", "node_label", ")"] and "return" in body:
                pre.append("cgio_get_label(node_id)")
            elif cond == ["cgi_delete_node", "(", "posit_id", ",", "node_id", ")"] and "return" in body and "CG_ERROR" in body:
                pre.append("cgi_delete_node(posit_id,node_id)")
            elif not seen_refuse and "node_name" in cond and "cgi_error" in body and "CG_ERROR" in body and \
                    "CGNS_DELETE_SHIFT" not in body and parse_plabels(toks, i + 1) is None:
                seen_refuse = True
                pre.append("refuse")
                nd = parse_refuse(toks, i + 1)
            elif parse_plabels(toks, i + 1) is not None:
                pre.append("dispatch")
                dispatch_at = i
                break
            else:
                pre.append("UNPARSED line %d: %s" % (toks[i][2], txt(toks, i, min(e, i + 14))))
            i = e
            continue
        # declarations
        e = stmt_end(toks, i)
        seg = v[i:e]
        if seg and seg[0] in ("int", "double", "char_33", "char"):
            i = e; continue
        pre.append("UNPARSED line %d: %s" % (toks[i][2], txt(toks, i, min(e, i + 14))))
        i = e
    if dispatch_at is None:
        return pre, nd, ["DUnparsedBlock " + cs("no dispatch on posit->label found")], "UNPARSED"
    # ---- the dispatch chain
    i = dispatch_at
    tail = "UNPARSED"
    first = True
    while i < b1:
        if first:
            i += 1
        elif v[i] == "else" and v[i + 1] == "if":
            i += 2
        elif v[i] == "else" and v[i + 1] == "{":
            e = match_close(toks, i + 1)
            body = v[i + 2:e]
            if body[:1] == ["cgi_error"] and body[-3:] == ["return", "CG_ERROR", ";"]:
                tail = "error"
            i = e + 1
            continue
        elif v[i] == "return" and v[i + 1] == "CG_OK":
            pre.append("return CG_OK")
            i += 3
            continue
        else:
            blocks.append("DUnparsedBlock " + cs("line %d: %s" % (toks[i][2], txt(toks, i, min(b1, i + 10)))))
            break
        first = False
        r = parse_plabels(toks, i)
        if r is None:
            blocks.append("DUnparsedBlock " + cs("line %d: not a posit->label disjunction: %s" % (toks[i][2], txt(toks, i, i + 14))))
            i = stmt_end(toks, match_close(toks, i) + 1)
            continue
        labels, j = r
        if v[j] != "{":
            blocks.append("DUnparsedBlock " + cs("line %d: block of %s is not braced" % (toks[j][2], labels[0])))
            i = stmt_end(toks, j)
            continue
        e = match_close(toks, j)
        cur = Cur(toks, j + 1, e)
        c = {}
        if not cur.try_eat("$T * parent = ( $T * ) posit -> posit ;", c):
            blocks.append("DUnparsedBlock " + cs("line %d: block of %s does not start with the cast of posit->posit" % (toks[j][2], labels[0])))
            i = e + 1
            continue
        rows = parse_block_rows(toks, cur.i, e)
        blocks.append("DBlock %s %s [\n      %s]" % (clist([cs(l) for l in labels]), cs(c["$T"]), ";\n      ".join(rows)))
        i = e + 1
    return pre, nd, blocks, tail


def parse_refuse(toks, i):
    """the condition of "Nodes that can't be deleted": a disjunction of (posit->label == P && (tests)) groups"""
    j = match_close(toks, i)
    cur = Cur(toks, i + 1, j)
    rows = []
    try:
        while cur.i < j:
            cur.eat("(")
            c = {}
            cur.eat("strcmp ( posit -> label , @p ) == 0 &&", c)
            sub = []
            if cur.peek() == "(":
                k = match_close(toks, cur.i)
                tests, nxt = parse_tests(toks, cur.i)
                cur.i = nxt
                sub = tests
            else:
                # a single comparison up to the closing parenthesis of the group: wrap it
                k = cur.i
                d = 0
                while True:
                    w = toks[k][1]
                    if w == "(":
                        d += 1
                    elif w == ")":
                        if d == 0:
                            break
                        d -= 1
                    k += 1
                fake = [("op", "(", 0)] + toks[cur.i:k] + [("op", ")", 0)]
                tests, _ = parse_tests(fake, 0)
                cur.i = k
                sub = tests
            cur.eat(")")
            for t in sub:
                rows.append("ND %s (%s)" % (cs(c["@p"]), t))
            if cur.i < j:
                cur.eat("||")
    except (Fail, ValueError) as e:
        rows.append("NDUnparsed " + cs(str(e)))
    return rows


# ----------------------------------------------------------------------------- free functions, macros
def parse_free_sigs(itoks):
    res = []
    v = vals(itoks)
    for i in range(len(v) - 7):
        if v[i] == "void" and v[i + 1].startswith("cgi_free_") and v[i + 2] == "(" and v[i + 4] == "*" and v[i + 6] == ")" \
                and v[i + 7] == "{":
            res.append((v[i + 1], v[i + 3]))
    return sorted(set(res))


def macro_text(repo, name):
    text = open(os.path.join(repo, "src", "cgns_header.h"), errors="replace").read()
    m = re.search(r"#define\s+" + name + r"\s*\(([^)]*)\)\s*((?:.*\\\n)*.*)", text)
    if not m:
        return "MISSING"
    body = m.group(2).replace("\\\n", " ")
    toks = tokenize(strip_comments_pp(body))
    return "(" + ",".join(a.strip() for a in m.group(1).split(",")) + ") " + " ".join(vals(toks))


# ----------------------------------------------------------------------------- overwrite loops of the writers
def _strcmp_name(cur, c, arr_key):
    """strcmp($name, $P->ARR[index].name)==0 in its three spellings (argument order as written in the C text)"""
    pats = ["strcmp ( $name , $P -> %s [ index ] . name ) == 0", "0 == strcmp ( $name , $P -> %s [ index ] . name )",
            "! strcmp ( $name , $P -> %s [ index ] . name )", "strcmp ( $P -> %s [ index ] . name , $name ) == 0"]
    for p in pats:
        if cur.try_eat(p % arr_key, c):
            return True
    return False


def _stmt(cur, pat, c):
    """pat, optionally wrapped in braces"""
    if cur.try_eat("{ " + pat + " }", c):
        return
    cur.eat(pat, c)


def parse_writer_loop(toks, k, b1):
    """the overwrite-by-name template starting at the `for (index = 0;` at k -> WRow text (raises Fail)"""
    cur = Cur(toks, k, b1)
    c = {}
    cur.eat("for ( index = 0 ; index < $P -> $c1 ; index ++ ) { if (", c)
    if not _strcmp_name(cur, c, "$a1"):
        raise Fail("line %d: name comparison not recognised" % cur.line())
    cur.eat(") {", c)
    cur.eat("if ( cg -> mode == CG_MODE_WRITE ) { cgi_error ( @m , $name ) ; return $r ; }", c)
    _stmt(cur, "if ( cgi_delete_node ( $P -> id , $P -> $a2 [ index ] . id ) ) return $r ;", c)
    if c["$r"] not in ("CG_ERROR", "NULL"):
        raise Fail("unexpected error value " + c["$r"])
    if not cur.try_eat("$x = & ( $P -> $a3 [ index ] ) ;", c):
        cur.eat("$x = & $P -> $a3 [ index ] ;", c)
    if cur.try_eat("$f ( $x ) ;", c):
        free = c["$f"]
    else:
        free = ""
    cur.eat("break ; } }", c)
    if not cur.try_eat("if ( index == $P -> $c2 ) {", c):
        cur.eat("if ( $P -> $c2 == index ) {", c)
    if not cur.try_eat("if ( $P -> $c3 == 0 )", c):
        cur.eat("if ( 0 == $P -> $c3 )", c)
    c4 = {}
    d = dict(c)
    if cur.try_eat("{ $P -> $a4 = CGNS_NEW ( $T , 1 ) ; }", d) or cur.try_eat("$P -> $a4 = CGNS_NEW ( $T , 1 ) ;", d):
        c.update(d); c["$c4"] = c["$c3"]
    else:
        _stmt(cur, "$P -> $a4 = CGNS_NEW ( $T , $P -> $c4 + 1 ) ;", c)
    cur.eat("else", c)
    _stmt(cur, "$P -> $a5 = CGNS_RENEW ( $T , $P -> $c5 + 1 , $P -> $a6 ) ;", c)
    if not cur.try_eat("$x = & ( $P -> $a7 [ $P -> $c6 ] ) ;", c):
        cur.eat("$x = & $P -> $a7 [ $P -> $c6 ] ;", c)
    cur.eat("$P -> $c7 ++ ; }", c)
    ret = cur.try_eat("( * $S ) = index + 1 ;", c) or cur.try_eat("* $S = index + 1 ;", c)
    cnts = [c["$c%d" % n] for n in range(1, 8)]
    arrs = [c["$a%d" % n] for n in range(1, 8)]
    made = creation_site(toks, cur.i, b1, c["$x"], c["$name"], c["$P"])
    return "WRow %s %s %s %s %s %s %s %s" % (cs("@FN@"), cs(c["$P"]), clist([cs(x) for x in cnts]), clist([cs(x) for x in arrs]),
                                           cs(free), cs(c["$T"]), cbool(bool(ret)), cs(made))


def creation_site(toks, a, b, x, name, parent):
    """how the rest of the function creates the database node of slot x: "slot" when it calls
    cgi_new_node(<parent>->id, x->name | <name>, "<label>", &x->id, ...) or a cgi_write_* helper with (<parent>->id, x);
    otherwise the offending text"""
    v = vals(toks)
    i = a
    while i < b:
        if toks[i][0] == "id" and v[i + 1] == "(" and (v[i] in ("cgi_new_node", "cgi_new_node_partial") or v[i].startswith("cgi_write_")):
            args, nxt = split_args(toks, i + 1)
            av = [vals(t) for t in args]
            if v[i].startswith("cgi_write_"):
                if len(av) >= 2 and av[1] == [x]:
                    return "slot" if av[0] == [parent, "->", "id"] else "parent: " + " ".join(av[0])
            elif len(av) >= 4 and (av[1] == [x, "->", "name"] or av[1] == [name]):
                if av[0] != [parent, "->", "id"]:
                    return "parent: " + " ".join(av[0])
                return "slot" if av[3] == ["&", x, "->", "id"] else "id: " + " ".join(av[3])
            i = nxt
        else:
            i += 1
    return "no creation call found"


def parse_writers(toks):
    """every cg_* function that calls cgi_delete_node inside a `for (index = 0; ...` loop: the overwrite-by-name template
    (WRow, one column per use of the count / array) or WOther with the reason"""
    rows = []
    v = vals(toks)
    fns = functions(toks)
    for fname, (b0, b1) in sorted(fns.items(), key=lambda kv: kv[1][0]):
        if fname == "cg_delete_node":
            continue
        i = b0
        while i < b1:
            if v[i] == "for" and v[i + 1:i + 5] == ["(", "index", "=", "0"]:
                e = stmt_end(toks, i)
                if "cgi_delete_node" in v[i:e]:
                    try:
                        rows.append(parse_writer_loop(toks, i, b1).replace("@FN@", fname))
                    except (Fail, ValueError) as ex:
                        rows.append("WOther %s %s" % (cs(fname), cs(str(ex))))
                i = e
            else:
                i += 1
    return rows


# ----------------------------------------------------------------------------- overwrite tails of the node-context resolvers
def parse_addr_tails(itoks):
    """cgns_T *cgi_X_address(...) { ... if (parent_id) { if (cgi_delete_node(parent_id, V->id)) {...} [FREE(V);] } return V; }
    -> ATail fn T V FREE   (the node deleted in the file, the struct freed and the struct returned must be the same one)"""
    rows = []
    v = vals(itoks)
    fns = functions(itoks)
    for fname, (b0, b1) in sorted(fns.items(), key=lambda kv: kv[1][0]):
        if not (fname.startswith("cgi_") and fname.endswith("_address")):
            continue
        # return type: tokens before the name
        k = b0
        while k > 0 and v[k] != fname:
            k -= 1
        rty = v[k - 2] if v[k - 1] == "*" else "?"
        i = b0
        found = False
        while i < b1:
            if v[i] == "if" and v[i + 1:i + 3] == ["(", "parent_id"] and v[match_close(itoks, i + 1) + 1] == "{" and \
                    v[i + 3:match_close(itoks, i + 1)] in ([], ["&&", "!", "allow_dup"]):
                e = match_close(itoks, match_close(itoks, i + 1) + 1)
                if "cgi_delete_node" in v[i:e]:
                    found = True
                    cur = Cur(itoks, i, b1)
                    c = {}
                    try:
                        if not cur.try_eat("if ( parent_id ) {", c):
                            cur.eat("if ( parent_id && ! allow_dup ) {", c)
                        cur.eat("if ( cgi_delete_node ( parent_id , $x -> id ) ) { ( * ier ) = CG_ERROR ; return CG_OK ; }", c)
                        free = ""
                        if cur.try_eat("$f ( $x ) ;", c):
                            free = c["$f"]
                        cur.eat("} return $x ;", c)
                        rows.append("ATail %s %s %s %s" % (cs(fname), cs(rty), cs(c["$x"]), cs(free)))
                    except Fail as ex:
                        rows.append("ATailOther %s %s" % (cs(fname), cs(str(ex))))
                i = e + 1
            else:
                i += 1
    return rows


# ----------------------------------------------------------------------------- node-context writers
def parse_ctx_writers(toks):
    """every `X = cgi_Y_address(CG_MODE_WRITE, ...)` in cgnslib.c: the first creation of the node X describes --
    cgi_new_node(posit_id | <id>, X->name | <a name argument>, "<label>", &IDARG, ...) or cgi_write_*(posit_id, X) --
    -> NRow fn resolver var how   (how = "slot" | "helper" | "id: <text>" | "none")"""
    rows = []
    v = vals(toks)
    fns = functions(toks)
    for fname, (b0, b1) in sorted(fns.items(), key=lambda kv: kv[1][0]):
        i = b0
        while i < b1:
            if toks[i][0] == "id" and v[i].startswith("cgi_") and v[i].endswith("_address") and v[i + 1] == "(" \
                    and v[i + 2] == "CG_MODE_WRITE" and v[i - 1] == "=" and toks[i - 2][0] == "id":
                x = v[i - 2]
                args, nxt = split_args(toks, i + 1)
                names = [vals(t)[0] for t in args[1:] if len(t) == 1 and t[0][0] == "id"]
                how = "none"
                j = nxt
                while j < b1:
                    if toks[j][0] == "id" and v[j + 1] == "(" and (v[j] in ("cgi_new_node", "cgi_new_node_partial") or v[j].startswith("cgi_write_")):
                        cargs, cn = split_args(toks, j + 1)
                        av = [vals(t) for t in cargs]
                        if v[j].startswith("cgi_write_"):
                            if len(av) >= 2 and (av[1] == [x] or av[1] == ["*", x]):
                                how = "helper"; break
                        elif len(av) >= 4 and (av[1] == [x, "->", "name"] or (len(av[1]) == 1 and av[1][0] in names)):
                            how = "slot" if av[3] == ["&", x, "->", "id"] else "id: " + " ".join(av[3])
                            break
                        j = cn
                    else:
                        j += 1
                rows.append("NRow %s %s %s %s" % (cs(fname), cs(v[i]), cs(x), cs(how)))
                i = nxt
            else:
                i += 1
    return rows


# ----------------------------------------------------------------------------- re-initialisation of re-used slots
def parse_reinit(ltoks, itoks):
    """every `X = cgi_Y_address(CG_MODE_WRITE, ...)` writer of cgnslib.c: the struct type the resolver returns and the fields of
    *X the writer sets afterwards (X->f = ..., X->f[..] = ..., strcpy/snprintf/memcpy(X->f ...), &X->id handed to
    cgi_new_node, or memset(X ...)).  On overwrite the resolver hands back the OLD slot (freed, not cleared), so a field the
    writer does not set keeps the value of the entity that was replaced.  -> RRow fn resolver type memset [fields]"""
    iv = vals(itoks)
    rty = {}
    for f, (b0, b1) in functions(itoks).items():
        if f.startswith("cgi_") and f.endswith("_address"):
            k = b0
            while k > 0 and iv[k] != f:
                k -= 1
            rty[f] = iv[k - 2] if iv[k - 1] == "*" and itoks[k - 2][0] == "id" else "?"
    v = vals(ltoks)
    rows = []
    for fname, (b0, b1) in sorted(functions(ltoks).items(), key=lambda kv: kv[1][0]):
        i = b0
        while i < b1:
            if ltoks[i][0] == "id" and v[i].startswith("cgi_") and v[i].endswith("_address") and v[i + 1] == "(" \
                    and v[i + 2] == "CG_MODE_WRITE" and v[i - 1] == "=" and ltoks[i - 2][0] == "id":
                x = v[i - 2]
                assigned, memset = [], False
                for j in range(i, b1):
                    if v[j] == x and v[j + 1] == "->" and v[j + 3] in ("=", "["):
                        assigned.append(v[j + 2])
                    if v[j] in ("strcpy", "strncpy", "snprintf", "memcpy") and v[j + 1] == "(" and v[j + 2] == x and v[j + 3] == "->":
                        assigned.append(v[j + 4])
                    if v[j] == "memset" and v[j + 1] == "(" and v[j + 2] == x and v[j + 3] == ",":
                        memset = True
                    if v[j] in ("cgi_new_node", "cgi_new_node_partial") and v[j + 1] == "(":
                        args, _ = split_args(ltoks, j + 1)
                        if len(args) > 3 and vals(args[3]) == ["&", x, "->", "id"]:
                            assigned.append("id")
                seen = []
                for f in assigned:
                    if f not in seen:
                        seen.append(f)
                rows.append("RRow %s %s %s %s %s" % (cs(fname), cs(v[i]), cs(rty.get(v[i], "?")), cbool(memset), clist([cs(f) for f in seen])))
                break
            i += 1
    return rows


# ----------------------------------------------------------------------------- under which NAME is a child kind created?
def parse_child_names(repo, ltoks, itoks):
    """per (parent label, child label): the names under which the library's writers create such a node.
    The cgi_new_node rows come from translators/c01_templates.py (function, parent label, name literal | not a literal,
    label); a name that is not a literal is resolved here, inside the writer: `X->name` with strcpy(X->name, "lit") in the
    same function -> that literal; the strcpy-label-and-cut-two-characters idiom of cg_model_write -> the label without
    "_t"; a name copied into ->name by the cgi_*_address resolver the writer calls -> those literals; a parameter, or
    strcpy(X->name, parameter) -> USER-CHOSEN.  Rows of cgi_write_* / cgi_read_* that pass a struct's name replay what a
    writer stored and define nothing.  -> [CNames parent label (Some [names]) | CNames parent label None]"""
    from translators import c01_templates
    text, _ = c01_templates.translate(repo)
    rows = re.findall(r'WRow \(s "([^"]+)"\) \(s "([^"]+)"\) (None|\(Some \(s "([^"]+)"\)\)) \(s "((?:[^"]|"")+)"\)', text)
    fl, fi = functions(ltoks), functions(itoks)
    vl, vi = vals(ltoks), vals(itoks)

    def body(fn):
        if fn in fl:
            return ltoks, vl, fl[fn]
        if fn in fi:
            return itoks, vi, fi[fn]
        return None

    def name_copies(toks, v, b0, b1):
        """(target expression text, source) for every strcpy / strncpy / snprintf into an expression ending in ->name"""
        out = []
        for j in range(b0, b1):
            if v[j] in ("strcpy", "strncpy", "snprintf") and v[j + 1] == "(":
                args, _ = split_args(toks, j + 1)
                av = [vals(x) for x in args]
                if av and av[0][-2:] == ["->", "name"]:
                    src = av[-1] if v[j] == "snprintf" else av[1]
                    out.append((" ".join(av[0]), src))
        return out

    def resolve(fn, label):
        b = body(fn)
        if b is None:
            return None
        toks, v, (b0, b1) = b
        copies = name_copies(toks, v, b0, b1)
        stem = any(v[j] == "strlen" and v[j + 4:j + 7] == ["-", "2", "]"] for j in range(b0, b1))     # N[strlen(L)-2] = 0
        # the creation call(s) of this label in the function
        exprs = []
        for j in range(b0, b1):
            if v[j] in ("cgi_new_node", "cgi_new_node_partial") and v[j + 1] == "(":
                args, _ = split_args(toks, j + 1)
                av = [vals(x) for x in args]
                if len(av) > 2 and (av[2] == ['"%s"' % label] or (len(av[2]) == 1 and toks[j][0] == "id" and not av[2][0].startswith('"'))):
                    exprs.append(av[1])
        lits, user = set(), False
        for e in exprs:
            if len(e) == 1 and e[0].startswith('"'):
                lits.add(e[0][1:-1]); continue
            if len(e) == 1:
                user = True; continue                              # a plain identifier: the caller's name
            tgt = " ".join(e)
            mine = [src for t, src in copies if t == tgt]
            if not mine:                                             # set by the resolver the writer calls?
                got = False
                for j in range(b0, b1):
                    if v[j].startswith("cgi_") and v[j].endswith("_address") and v[j] in fi:
                        r0, r1 = fi[v[j]]
                        for _, src in name_copies(itoks, vi, r0, r1):
                            got = True
                            if len(src) == 1 and src[0].startswith('"'):
                                lits.add(src[0][1:-1])
                            else:
                                user = True
                if got:
                    continue
                mine = [src for _, src in copies]                    # an alias (bcdata = dataset->dirichlet): every copy in the function
            for src in mine:
                if len(src) == 1 and src[0].startswith('"'):
                    lits.add(src[0][1:-1])
                elif stem:
                    lits.add(label[:-2] if label.endswith("_t") else label)
                else:
                    user = True
        if not exprs:
            # created through a cgi_write_* helper: the struct's name as the writer stored it
            for _, src in copies:
                if len(src) == 1 and src[0].startswith('"'):
                    lits.add(src[0][1:-1])
                elif stem:
                    lits.add(label[:-2] if label.endswith("_t") else label)
                else:
                    user = True
            if not copies:
                return None
        if user or not lits:
            return None if not user else "USER"
        return sorted(lits)

    table = {}
    for fn, pl, nm, lit, label in rows:
        label = label.replace('""', '"')
        key = (pl, label)
        if nm != "None":
            table.setdefault(key, {"lits": set(), "user": False, "by": set()})["lits"].add(lit)
            continue
        if fn.startswith("cgi_write_") or fn.startswith("cgi_read_") or fn.startswith("cgi_get_"):
            continue                                                 # replays a stored name
        r = resolve(fn, label)
        e = table.setdefault(key, {"lits": set(), "user": False, "by": set()})
        if r is None or r == "USER":
            e["user"] = True; e["by"].add(fn)
        else:
            e["lits"].update(r)
    out = []
    for (pl, label), e in sorted(table.items()):
        if e["user"]:
            out.append("CNames %s %s None" % (cs(pl), cs(label)))
        else:
            out.append("CNames %s %s (Some %s)" % (cs(pl), cs(label), clist([cs(x) for x in sorted(e["lits"])])))
    return out


def parse_reader_name_tests(itoks):
    """the string literals a cgi_read_* function compares a node NAME with (strcmp(name-ish, "lit") / strcmp("lit", name-ish)):
    children the reader itself tells apart by name (NormDefinitions, ReferenceStateDescription, ParentElements ...)"""
    v = vals(itoks)
    out = set()
    for f, (b0, b1) in functions(itoks).items():
        if not f.startswith("cgi_read_"):
            continue
        for j in range(b0, b1):
            if v[j] in ("strcmp", "strncmp") and v[j + 1] == "(":
                args, _ = split_args(itoks, j + 1)
                av = [vals(x) for x in args[:2]]
                for k in (0, 1):
                    if len(av) == 2 and len(av[k]) == 1 and av[k][0].startswith('"') and "name" in " ".join(av[1 - k]).lower():
                        out.add(av[k][0][1:-1])
    return sorted(out)


# ----------------------------------------------------------------------------- what is sorted on read
def parse_sorting(itoks, ltoks):
    """every qsort call of cgns_internals.c as "function: count expression / comparator", the return expression of the
    comparator, and the call sites of cgi_sort_names (an insertion sort that is defined but -- now -- never called)"""
    v = vals(itoks)
    fns = functions(itoks)
    calls = []
    for fname, (b0, b1) in sorted(fns.items(), key=lambda kv: kv[1][0]):
        for i in range(b0, b1):
            if v[i] == "qsort" and v[i + 1] == "(":
                args, _ = split_args(itoks, i + 1)
                av = [" ".join(vals(t)) for t in args]
                calls.append("%s: %s / %s" % (fname, av[1] if len(av) > 1 else "?", av[3] if len(av) > 3 else "?"))
    cmp_text = "MISSING"
    if "sort_childnode_names" in fns:
        b0, b1 = fns["sort_childnode_names"]
        for i in range(b0, b1):
            if v[i] == "return":
                j = i
                while v[j] != ";":
                    j += 1
                cmp_text = " ".join(v[i:j])
    callers = []
    for toks in (itoks, ltoks):
        vv = vals(toks)
        ff = functions(toks)
        for fname, (b0, b1) in ff.items():
            if fname == "cgi_sort_names":
                continue
            if any(vv[i] == "cgi_sort_names" and vv[i + 1] == "(" for i in range(b0, b1)):
                callers.append(fname)
    return calls, cmp_text, sorted(callers)


# ----------------------------------------------------------------------------- links
def parse_link_writer(ltoks):
    """cg_link_write: the labels its white list accepts as the current position, every function it calls (in order of first
    occurrence) and every lvalue it changes -- it creates the link node in the file and touches no array of the mirror"""
    v = vals(ltoks)
    fns = functions(ltoks)
    if "cg_link_write" not in fns:
        raise Fail("cg_link_write not found")
    b0, b1 = fns["cg_link_write"]
    parents, calls, assigns = [], [], []
    kw = {"if", "while", "for", "switch", "return", "sizeof"}
    for i in range(b0, b1):
        if v[i] == "strcmp" and v[i + 1] == "(":
            args, _ = split_args(ltoks, i + 1)
            a0 = " ".join(vals(args[0])) if args else ""
            if a0 == "posit -> label" and len(args) == 2 and len(args[1]) == 1 and args[1][0][1].startswith('"'):
                parents.append(args[1][0][1].strip('"'))
            else:
                parents.append("UNPARSED " + " ".join(vals(args[1] if len(args) > 1 else []))[:40])
        if ltoks[i][0] == "id" and v[i + 1] == "(" and v[i] not in kw and v[i] not in calls:
            calls.append(v[i])
        if v[i] in ("++", "--"):
            j = i - 1
            if v[j] == ")":
                k = j
                d = 0
                while True:
                    if v[k] == ")":
                        d += 1
                    elif v[k] == "(":
                        d -= 1
                        if d == 0:
                            break
                    k -= 1
                assigns.append(" ".join(v[k:i + 1]))
            else:
                assigns.append(" ".join(v[max(b0, i - 3):i + 1]))
        if v[i] in ("=", "+=", "-=", "|=", "&=") :
            j = i - 1
            while j > b0 and v[j] not in (";", "{", "}", "(", ","):
                j -= 1
            assigns.append(" ".join(v[j + 1:i + 1]))
    return parents, calls, assigns


def parse_bexp(tv):
    """a C condition over plain identifiers: || && ! ( ) x == 0, x != 0, x  -> Coq term of type Mirror.bexp"""
    pos = [0]

    def peek():
        return tv[pos[0]] if pos[0] < len(tv) else None

    def eat(x=None):
        t = peek()
        if t is None or (x is not None and t != x):
            raise Fail("condition: expected %s at %s" % (x, " ".join(tv[pos[0]:pos[0] + 4])))
        pos[0] += 1
        return t

    def p_or():
        a = p_and()
        while peek() == "||":
            eat(); a = "(BOr %s %s)" % (a, p_and())
        return a

    def p_and():
        a = p_not()
        while peek() == "&&":
            eat(); a = "(BAnd %s %s)" % (a, p_not())
        return a

    def p_not():
        if peek() == "!":
            eat(); return "(BNot %s)" % p_not()
        return p_atom()

    def p_atom():
        if peek() == "(":
            eat(); a = p_or(); eat(")"); return a
        x = eat()
        if not re.match(r"[A-Za-z_]\w*$", x):
            raise Fail("condition: not an identifier: " + x)
        if peek() in ("==", "!="):
            o = eat(); z = eat()
            if z != "0":
                raise Fail("condition: comparison with " + z)
            return "(%s %s)" % ("BEq0" if o == "==" else "BNe0", cs(x))
        return "(BNe0 %s)" % cs(x)
    a = p_or()
    if pos[0] != len(tv):
        raise Fail("condition: trailing " + " ".join(tv[pos[0]:pos[0] + 4]))
    return a


def parse_copy_rule(repo):
    """src/cgns_io.c: recurse_nodes (the tree copy behind cgio_compress_file and cgio_copy_file) -- the condition under which
    a child that is a link is created again AS A LINK, what the recursion passes on as follow_links, and the follow_links
    argument of every caller"""
    toks = load(repo, "cgns_io.c")
    v = vals(toks)
    fns = functions(toks)
    if "recurse_nodes" not in fns:
        raise Fail("recurse_nodes not found")
    b0, b1 = fns["recurse_nodes"]
    guards = []
    for i in range(b0, b1):
        if v[i] == "if" and v[i + 1] == "(":
            c1 = match_close(toks, i + 1)
            if v[c1 + 1] == "{":
                e = match_close(toks, c1 + 1)
                if "cgio_create_link" in v[c1 + 1:e]:
                    has_else = v[e + 1] == "else"
                    other = []
                    if has_else and v[e + 2] == "{":
                        e2 = match_close(toks, e + 2)
                        other = v[e + 2:e2]
                    guards.append((v[i + 2:c1], "cgio_create_node" in other and "recurse_nodes" in other))
    if len(guards) != 1:
        raise Fail("recurse_nodes: %d guarded cgio_create_link blocks" % len(guards))
    guard = parse_bexp(guards[0][0])
    callers = []
    for fname, (a, b) in sorted(fns.items(), key=lambda kv: kv[1][0]):
        for i in range(a, b):
            if v[i] == "recurse_nodes" and v[i + 1] == "(":
                args, _ = split_args(toks, i + 1)
                callers.append("%s: %s" % (fname, " ".join(vals(args[4])) if len(args) == 6 else "?"))
    return guard, guards[0][1], callers


def parse_data_size(repo):
    """src/cgns_io.c cgio_compute_data_size (the element size the node copy of compress-on-close allocates and moves): the
    switch over the first letter of the data type as rows "<letters><digit>: <returned expression>" """
    toks = load(repo, "cgns_io.c")
    v = vals(toks)
    fns = functions(toks)
    if "cgio_compute_data_size" not in fns:
        raise Fail("cgio_compute_data_size not found")
    b0, b1 = fns["cgio_compute_data_size"]
    i = b0
    while i < b1 and v[i] != "switch":
        i += 1
    if i >= b1:
        raise Fail("no switch")
    rows, letters = [], []
    j = v.index("{", i)
    e = match_close(toks, j)
    k = j + 1
    while k < e:
        if v[k] == "case":
            letters.append(v[k + 1].strip("'")); k += 3; continue
        if v[k] == "return":
            q = k
            while v[q] != ";":
                q += 1
            rows.append("%s: %s" % ("".join(letters), " ".join(v[k + 1:q]))); k = q + 1; letters = []; continue
        if v[k] == "if" and v[k + 1] == "(":
            c = match_close(toks, k + 1)
            cond = v[k + 2:c]
            if len(cond) == 6 and cond[:4] == ["data_type", "[", "1", "]"] and cond[4] == "==" and v[c + 1] == "return":
                q = c + 1
                while v[q] != ";":
                    q += 1
                rows.append("%s%s: %s" % ("".join(letters), cond[5].strip("'"), " ".join(v[c + 2:q]))); k = q + 1; continue
            raise Fail("condition " + " ".join(cond))
        if v[k] == "break":
            letters = []; k += 2; continue
        raise Fail("statement at " + " ".join(v[k:k + 5]))
    tail = []
    q = e + 1
    while q < b1 and v[q] != "return":
        q += 1
    if q < b1:
        z = q
        while v[z] != ";":
            z += 1
        rows.append("otherwise: " + " ".join(v[q + 1:z]))
    return rows


def parse_general_write_cache(itoks):
    """cgi_array_general_write: does the branch that rewrites an existing DataArray_t node in place mention array->data (the
    copy cgi_read_array loads for most parents) at all?"""
    v = vals(itoks)
    fns = functions(itoks)
    if "cgi_array_general_write" not in fns:
        raise Fail("cgi_array_general_write not found")
    b0, b1 = fns["cgi_array_general_write"]
    return any(v[i:i + 3] == ["array", "->", "data"] for i in range(b0, b1 - 3))


# ----------------------------------------------------------------------------- output
def guarded(f, fallback):
    """a parser that meets text it cannot even tokenise / bracket-match must not abort the run: its table becomes one
    unparsed row, which falsifies the obligation"""
    try:
        return f()
    except Exception as e:                                   # noqa: BLE001
        return fallback("%s: %s" % (type(e).__name__, e))


def translate(repo):
    ltoks = load(repo, "cgnslib.c")
    itoks = load(repo, "cgns_internals.c")
    fns = functions(ltoks)
    out = []
    out.append("(* GENERATED on every run by translators/c04_delete.py from the current src/cgnslib.c, src/cgns_internals.c and\n"
               "   src/cgns_header.h.  Never edit, never commit. *)")
    out.append("From Coq Require Import ZArith List String.")
    out.append("From CgnsV Require Import Mirror.")
    out.append("Import ListNotations.")
    out.append("Local Open Scope string_scope.")
    out.append("")
    if "cg_delete_node" not in fns:
        pre, nd, blocks, tail = ["UNPARSED cg_delete_node not found"], [], ["DUnparsedBlock " + cs("cg_delete_node not found")], "UNPARSED"
    else:
        pre, nd, blocks, tail = guarded(lambda: parse_delete(ltoks, fns["cg_delete_node"]),
                                        lambda w: (["UNPARSED " + w], [], ["DUnparsedBlock " + cs(w)], "UNPARSED"))
    out.append("Definition preamble : list string := %s." % clist([cs(p) for p in pre], ";\n  "))
    out.append("")
    out.append("Definition dispatch_tail : string := %s." % cs(tail))
    out.append("")
    out.append("Definition not_deletable : list ndrow := [\n  %s\n]." % ";\n  ".join(nd))
    out.append("")
    out.append("Definition delete_table : list dblock := [\n  %s\n]." % ";\n  ".join(blocks))
    out.append("")
    out.append("Definition free_sigs : list (string * string) := [\n  %s\n]." %
               ";\n  ".join("(%s, %s)" % (cs(a), cs(b)) for a, b in guarded(lambda: parse_free_sigs(itoks), lambda w: [])))
    out.append("")
    out.append("Definition macro_shift : string := %s." % cs(macro_text(repo, "CGNS_DELETE_SHIFT")))
    out.append("Definition macro_child : string := %s." % cs(macro_text(repo, "CGNS_DELETE_CHILD")))
    out.append("")
    out.append("Definition write_table : list wrow := [\n  %s\n]." % ";\n  ".join(guarded(lambda: parse_writers(ltoks), lambda w: ["WOther " + cs("?") + " " + cs(w)])))
    out.append("")
    out.append("Definition addr_tails : list atail := [\n  %s\n]." % ";\n  ".join(guarded(lambda: parse_addr_tails(itoks), lambda w: ["ATailOther " + cs("?") + " " + cs(w)])))
    out.append("")
    out.append("Definition ctx_writers : list nrow := [\n  %s\n]." % ";\n  ".join(guarded(lambda: parse_ctx_writers(ltoks), lambda w: ["NRow " + cs("?") + " " + cs("?") + " " + cs("?") + " " + cs(w)])))
    out.append("")
    out.append("Definition reinit_rows : list rrow := [\n  %s\n]." % ";\n  ".join(
        guarded(lambda: parse_reinit(ltoks, itoks), lambda w: ["RRow " + cs("?") + " " + cs("?") + " " + cs(w) + " false []"])))
    out.append("")
    out.append("Definition child_names : list cnames := [\n  %s\n]." % ";\n  ".join(
        guarded(lambda: parse_child_names(repo, ltoks, itoks), lambda w: ["CNamesUnparsed " + cs(w)])))
    out.append("")
    out.append("Definition reader_name_tests : list string := %s." % clist(
        [cs(x) for x in guarded(lambda: parse_reader_name_tests(itoks), lambda w: [])], ";\n  "))
    out.append("")
    calls, cmp_text, callers = guarded(lambda: parse_sorting(itoks, ltoks), lambda w: ([w], "UNPARSED", []))
    out.append("Definition sort_calls : list string := %s." % clist([cs(c) for c in calls]))
    out.append("Definition sort_comparator : string := %s." % cs(cmp_text))
    out.append("Definition sort_names_callers : list string := %s." % clist([cs(c) for c in callers]))
    out.append("")
    lp, lc, la = guarded(lambda: parse_link_writer(ltoks), lambda w: (["UNPARSED " + w], [], []))
    out.append("Definition link_parents : list string := %s." % clist([cs(c) for c in lp], ";\n  "))
    out.append("Definition link_calls : list string := %s." % clist([cs(c) for c in lc]))
    out.append("Definition link_assigns : list string := %s." % clist([cs(c) for c in la]))
    out.append("")
    g, els, cl = guarded(lambda: parse_copy_rule(repo), lambda w: ("(BUnparsed %s)" % cs(w), False, []))
    out.append("Definition copy_link_guard : bexp := %s." % g)
    out.append("Definition copy_else_recurses : bool := %s." % cbool(els))
    out.append("Definition copy_callers : list string := %s." % clist([cs(c) for c in cl]))
    out.append("")
    out.append("Definition data_size_rows : list string := %s." % clist(
        [cs(c) for c in guarded(lambda: parse_data_size(repo), lambda w: ["UNPARSED " + w])], ";\n  "))
    out.append("")
    out.append("Definition general_write_mentions_cache : bool := %s." % cbool(guarded(lambda: parse_general_write_cache(itoks), lambda w: False)))
    out.append("")
    return "\n".join(out)


def write_gen(repo=None, out=None):
    repo = repo or os.environ.get("VERIF_REPO", "/repo")
    out = out or os.path.join(ROOT, "coq", "Gen_C04.v")
    text = translate(repo)
    if not os.path.exists(out) or open(out).read() != text:
        open(out, "w").write(text)
        return True
    return False


if __name__ == "__main__":
    if len(sys.argv) > 1 and sys.argv[1] == "-":
        sys.stdout.write(translate(os.environ.get("VERIF_REPO", "/repo")))
    else:
        print("changed" if write_gen() else "unchanged")
