#!/usr/bin/env python3
"""c07_gates.py -- tie (T) of properties C07 and C12: re-extract, from /repo's CURRENT sources, the EVENT SKELETON of
every function defined in src/cgnslib.c, src/cgns_internals.c and src/cgns_io.c, the table of index getters of
cgns_internals.c and the prototype table of the public API, and write coq/Gen_C07.v (+ a JSON side file used by the
harness generators of checks/C07.py and checks/C12.py).

Method: `clang -fsyntax-only -Xclang -ast-dump=json` with the include paths of the verification build; the JSON is
streamed top-level declaration by top-level declaration (only FunctionDecls are parsed), so the 800 MB of output never
sit in memory.  Each function body is walked in source order; the walk emits one EVENT per library call, inline
argument check, store through the in-memory tree, error-message call, return and goto:

  GetFile            cgi_get_file(fn) / get_cgnsio(n, 0)              (handle validation)
  CheckOpen          CHECK_FILE_OPEN  (if (cg == NULL) {error; return})
  CheckMode m        cgi_check_mode(.., CG_MODE_READ|WRITE|MODIFY), get_cgnsio(n, 1), and the explicit tests
                     `if (cg->mode != CG_MODE_MODIFY) {error; return}` (cg_delete_node) ...
  Validate k         cgi_check_strlen (name), index getters cgi_get_base/zone/... (index), INVALID_ENUM (enum), inline
                     `if (<test on arguments / state>) { cgi_error(..); return CG_ERROR; }` (range / null / state)
  Call g             any other call of a function that is not in the libc white list
  Mirror             a store through a pointer into the in-memory tree (cgns_* structures): assignment, ++/--,
                     strcpy/memcpy/memset/free/... whose destination is such a pointer
  Err                cgi_error / cg_io_error / set_error
  Ret r why          a return: Ok / Err / Var / Call / Void, and for failing returns where the message comes from
  Jump               goto

Every event carries:  cond (it sits inside an if/loop/switch/?:/&&-rhs, i.e. it may be skipped),  rf ("returns on
failure": the call/check is the condition of an `if` whose then-branch always returns, or its result variable is
tested that way in a later `if`, or it is the operand of `return`),  mg ("mode guarded": it sits inside
`if (.. X->mode == CG_MODE_MODIFY|WRITE ..)` or in the else-arm of `if (X->mode == CG_MODE_READ)`, i.e. it cannot run
on a read-mode file).

Nothing is decided here: classification of callees into effects, the call-graph fixpoints and the predicates are
Gallina (coq/Gates.v) evaluated by the kernel on the regenerated table.  A function whose body uses a construct the
walker does not know (statement kinds outside the list below, indirect calls) gets an `Unparsed` event, which makes
every obligation about it false.
"""
import bisect, hashlib, json, os, re, subprocess, sys

ROOT = os.path.dirname(os.path.dirname(os.path.abspath(__file__)))
FILES = ["cgnslib.c", "cgns_internals.c", "cgns_io.c", "cgns_error.c"]
VERSION = "10"

ERR_FUNCS = {"cgi_error", "cg_io_error", "set_error"}
# libc / compiler calls that neither touch the file nor (unless their destination is a tree pointer) the tree
LIBC = {"strlen", "strcmp", "strncmp", "strcpy", "strncpy", "strcat", "strncat", "strchr", "strrchr", "strstr", "strtok",
        "memcpy", "memset", "memmove", "memcmp", "sprintf", "snprintf", "vsnprintf", "vsprintf", "printf", "fprintf",
        "sscanf", "malloc", "calloc", "realloc", "free", "getenv", "atoi", "atof", "abs", "labs", "fabs", "exit", "abort",
        "toupper", "tolower", "isspace", "isdigit", "isalpha", "fflush", "fputs", "fputc", "puts", "putc", "strtol",
        "strtod", "qsort", "va_start", "va_end", "va_arg", "__builtin_va_start", "__builtin_va_end", "__builtin_va_arg",
        "__builtin_expect", "__builtin_object_size", "__builtin___memcpy_chk", "__builtin___strcpy_chk", "pow", "sqrt",
        "floor", "ceil", "strdup", "getcwd", "sizeof", "assert", "__assert_fail", "time", "ctime", "strerror", "access",
        "cgi_malloc", "cgi_realloc", "__ctype_b_loc", "__ctype_toupper_loc", "__ctype_tolower_loc", "__errno_location",
        "stat", "fopen", "fclose", "fread", "fgets", "open", "close", "read", "unlink", "rename", "remove", "getpid",
        "lseek", "fseek", "ftell", "fwrite", "write", "strncasecmp", "strcasecmp", "vfprintf", "signal", "longjmp",
        "setjmp", "_setjmp", "log10", "__builtin_bswap32", "__builtin_bswap64", "__builtin_unreachable", "fstat", "mkstemp"}
LIBC_DEST = {"strcpy", "strncpy", "strcat", "strncat", "memcpy", "memset", "memmove", "sprintf", "snprintf", "free",
             "realloc", "cgi_realloc", "vsnprintf", "vsprintf", "__builtin___memcpy_chk", "__builtin___strcpy_chk"}
# file-system calls that write: kept as calls so that Coq sees them (classified there)
FS_WRITERS = {"unlink", "rename", "remove", "fwrite", "write", "fputs", "fputc", "mkstemp"}
MIRROR_T = re.compile(r"\b(?:struct\s+)?cgns_(?!posit\b|io\b|io_ctx_t\b)\w+\s*\*")
KNOWN_STMTS = {"CompoundStmt", "IfStmt", "ForStmt", "WhileStmt", "DoStmt", "SwitchStmt", "CaseStmt", "DefaultStmt",
               "BreakStmt", "ContinueStmt", "ReturnStmt", "GotoStmt", "LabelStmt", "DeclStmt", "NullStmt"}


def clang_cmd(repo, impl, fname):
    return ["clang", "-fsyntax-only", "-Xclang", "-ast-dump=json", "-DCGNS_VERIF", "-w",
            "-I" + os.path.join(impl, "src"), "-I" + os.path.join(repo, "src"), "-I" + os.path.join(repo, "src", "adf"),
            "-I" + os.path.join(repo, "src", "adfh"), "-I/usr/include/hdf5/serial", os.path.join(repo, "src", fname)]


def stream_functions(repo, impl, fname):
    """yield the JSON of every FunctionDecl of the translation unit (top-level declarations only)"""
    p = subprocess.Popen(clang_cmd(repo, impl, fname), stdout=subprocess.PIPE, stderr=subprocess.PIPE, text=True,
                         errors="replace", bufsize=1 << 20)
    chunk = None
    for line in p.stdout:
        if chunk is None:
            if line == "    {\n":
                chunk = [line]
        else:
            chunk.append(line)
            if line == "    },\n" or line == "    }\n":
                if '"kind": "FunctionDecl"' in "".join(chunk[:4]):
                    yield json.loads("".join(chunk).rstrip().rstrip(","))
                chunk = None
    err = p.stderr.read()
    if p.wait() != 0:
        raise RuntimeError("clang failed on %s: %s" % (fname, err[-1500:]))


# ------------------------------------------------------------------------------------------------ AST helpers
def kids(n):
    return [c for c in n.get("inner", []) if c]


def strip(n):
    while n.get("kind") in ("ParenExpr", "ImplicitCastExpr", "CStyleCastExpr") and kids(n):
        n = kids(n)[-1]
    return n


def loc_off(l):
    if not l:
        return None
    if "expansionLoc" in l:
        e = l["expansionLoc"]
        return e.get("offset"), e.get("tokLen", 1)
    if "offset" in l:
        return l["offset"], l.get("tokLen", 1)
    return None


def qual(n):
    return (n.get("type") or {}).get("qualType", "")


def callee_name(call):
    k = kids(call)
    if not k:
        return None
    c = strip(k[0])
    if c.get("kind") == "DeclRefExpr":
        return c["referencedDecl"]["name"]
    return None


def int_value(n):
    n = strip(n)
    if n.get("kind") == "IntegerLiteral":
        return int(n["value"])
    if n.get("kind") == "UnaryOperator" and n.get("opcode") == "-":
        v = int_value(kids(n)[0])
        return -v if v is not None else None
    if n.get("kind") == "CharacterLiteral":
        return int(n["value"])
    return None


def declrefs(n, out=None):
    out = [] if out is None else out
    if n.get("kind") == "DeclRefExpr":
        out.append(n["referencedDecl"]["name"])
    for c in kids(n):
        declrefs(c, out)
    return out


def has_call(n):
    if n.get("kind") == "CallExpr":
        return True
    return any(has_call(c) for c in kids(n))


def always_returns(s):
    """the statement ends in a return on every path that reaches its end (syntactic: last statement is a return,
    or an if/else whose both arms always return)"""
    k = s.get("kind")
    if k == "ReturnStmt":
        return True
    if k == "CompoundStmt":
        ks = kids(s)
        return bool(ks) and always_returns(ks[-1])
    if k == "IfStmt" and s.get("hasElse"):
        ks = kids(s)
        return len(ks) >= 3 and always_returns(ks[1]) and always_returns(ks[2])
    return False


def and_chain(n):
    n0 = strip(n)
    if n0.get("kind") == "BinaryOperator" and n0.get("opcode") == "&&":
        a, b = kids(n0)
        return and_chain(a) + and_chain(b)
    return [n0]


def mode_test(n):
    """(op, value) if n is  <expr>->mode ==|!= <literal>  else None"""
    n = strip(n)
    if n.get("kind") == "BinaryOperator" and n.get("opcode") in ("==", "!="):
        a, b = [strip(x) for x in kids(n)]
        for x, y in ((a, b), (b, a)):
            if x.get("kind") == "MemberExpr" and x.get("name") == "mode" and int_value(y) is not None:
                return n["opcode"], int_value(y)
    return None



def cond_guards(cond, lm_param, vg):
    """(lm_then, mg_then, mg_else) of an if-condition: which arms can run only with local_mode == CG_MODE_WRITE /
    only on a file that is not in read mode.  vg: guards of 0-initialised locals all of whose assignments are guarded."""
    lm_then = mg_then = mg_else = False
    chain = and_chain(cond)
    for c in chain:
        m = mode_test(c)
        if m in (("==", 2), ("==", 1), ("!=", 0)):
            mg_then = True
        oc = or_chain(c)
        if len(oc) > 1 and all(mode_test(x) in (("==", 2), ("==", 1)) for x in oc):
            mg_then = True
        c0 = strip(c)
        if lm_param and c0.get("kind") == "BinaryOperator" and c0.get("opcode") == "==":
            a, b = [strip(x) for x in kids(c0)]
            if a.get("kind") == "DeclRefExpr" and a["referencedDecl"]["name"] == lm_param and int_value(b) == 1:
                lm_then = True
        v = None
        if c0.get("kind") == "DeclRefExpr":
            v = c0["referencedDecl"]["name"]
        elif c0.get("kind") == "BinaryOperator" and c0.get("opcode") in ("!=", ">"):
            a, b = [strip(x) for x in kids(c0)]
            if a.get("kind") == "DeclRefExpr" and int_value(b) == 0:
                v = a["referencedDecl"]["name"]
        if v is not None and v in vg:
            lm_then = lm_then or vg[v][0]
            mg_then = mg_then or vg[v][1]
    if len(chain) == 1 and mode_test(cond) == ("==", 0):
        mg_else = True
    return lm_then, mg_then, mg_else


def var_guards(body, lm_param):
    """locals initialised to 0 whose every later assignment sits under a local_mode==WRITE / mode guard (their address
    is never taken): a test `if (v)` inherits the guards.  Flow-insensitive, hence sound for any order of execution."""
    init_zero, addr, assigns = set(), set(), {}

    def walk(n, lm, mg):
        k = n.get("kind")
        if k == "IfStmt":
            ks = kids(n)
            walk(ks[0], lm, mg)
            l, m, me = cond_guards(ks[0], lm_param, {})
            walk(ks[1], lm or l, mg or m)
            if n.get("hasElse") and len(ks) > 2:
                walk(ks[2], lm, mg or me)
            return
        if k == "VarDecl":
            ks = kids(n)
            if ks and int_value(ks[-1]) == 0 or (ks and strip(ks[-1]).get("kind") == "FloatingLiteral" and float(strip(ks[-1]).get("value", "1")) == 0.0):
                init_zero.add(n["name"])
        if k in ("BinaryOperator", "CompoundAssignOperator") and (n.get("opcode") == "=" or k == "CompoundAssignOperator"):
            a = strip(kids(n)[0])
            if a.get("kind") == "DeclRefExpr":
                assigns.setdefault(a["referencedDecl"]["name"], []).append((lm, mg))
        if k == "UnaryOperator" and n.get("opcode") in ("++", "--", "&"):
            a = strip(kids(n)[0])
            if a.get("kind") == "DeclRefExpr":
                if n["opcode"] == "&":
                    addr.add(a["referencedDecl"]["name"])
                else:
                    assigns.setdefault(a["referencedDecl"]["name"], []).append((lm, mg))
        for c in kids(n):
            walk(c, lm, mg)
    walk(body, False, False)
    vg = {}
    for v in init_zero - addr:
        a = assigns.get(v, [])
        if a:
            g = (all(x[0] for x in a), all(x[1] for x in a))
            if g[0] or g[1]:
                vg[v] = g
    return vg


class Walker:
    def __init__(self, fn, src, lines, getters, fname):
        self.fn, self.src, self.lines, self.getters, self.fname = fn, src, lines, getters, fname
        self.name = fn["name"]
        t = qual(fn)
        self.ret = t.split("(")[0].strip()
        self.ret_ptr = self.ret.endswith("*")
        self.ret_void = self.ret == "void"
        self.ev = []
        self.var_ev, self.addr_ev = {}, {}
        self.blk_err = [False]
        self.unparsed = []
        ps = [p.get("name") for p in kids(fn) if p.get("kind") == "ParmVarDecl"]
        self.lm_param = "local_mode" if "local_mode" in ps else None
        if self.lm_param and ps[0] != "local_mode":
            self.unparsed.append("local_mode is not the first parameter")
        self.lm = False
        self.vg = {}
        self.mptr = set()       # local pointers of plain type (int *, char *, double *) that alias the tree

    # ---- source text
    def text(self, n):
        r = n.get("range") or {}
        b, e = loc_off(r.get("begin")), loc_off(r.get("end"))
        if not b or not e or b[0] is None or e[0] is None:
            return ""
        return re.sub(r"\s+", " ", self.src[b[0]:e[0] + e[1]])[:160]

    def line(self, n):
        r = n.get("range") or {}
        b = loc_off(r.get("begin"))
        if not b or b[0] is None:
            return 0
        return bisect.bisect_right(self.lines, b[0])

    def emit(self, k, name, n, depth, mg, rf=False, **kw):
        e = dict(k=k, n=name, c=depth > 0, rf=rf, mg=mg, lm=self.lm, line=self.line(n) if n else 0)
        e.update(kw)
        self.ev.append(e)
        if k == "Err":
            self.blk_err[-1] = True
        return len(self.ev) - 1

    # ---- mirror destination?
    def is_mirror_lvalue(self, n):
        n = strip(n)
        k = n.get("kind")
        if k == "ArraySubscriptExpr":
            b0 = strip(kids(n)[0])
            if b0.get("kind") == "DeclRefExpr" and b0["referencedDecl"]["name"] in self.mptr:
                return True         # p[i] with p a local that aliases the tree
            return self.is_mirror_lvalue(kids(n)[0])
        if k == "MemberExpr":
            base = kids(n)[0]
            if n.get("isArrow"):
                if MIRROR_T.search(qual(strip(base)) + " ") or MIRROR_T.search(qual(base) + " "):
                    return True
                return self.is_mirror_lvalue(base)
            return self.is_mirror_lvalue(base)
        if k == "UnaryOperator" and n.get("opcode") == "*":
            return self.is_mirror_ptr(kids(n)[0])
        return False

    def is_mirror_ptr(self, n):
        """an expression of pointer type that points into the tree: a cgns_* pointer, or a member reached through one"""
        n0 = strip(n)
        if MIRROR_T.search(qual(n0) + " "):
            # a parameter/local of tree type points into the tree; function-local temporaries are over-approximated
            return True
        k = n0.get("kind")
        if k == "DeclRefExpr" and n0["referencedDecl"]["name"] in self.mptr:
            return True
        if k == "CallExpr" and re.match(r"cgi_\w+_address$|cgi_get_\w+$", callee_name(n0) or ""):
            return True
        if k == "MemberExpr":
            return self.is_mirror_lvalue(n0)
        if k == "UnaryOperator" and n0.get("opcode") == "&":
            return self.is_mirror_lvalue(kids(n0)[0])
        if k == "ArraySubscriptExpr":
            return self.is_mirror_lvalue(n0)
        if k == "BinaryOperator" and n0.get("opcode") in ("+", "-"):
            return self.is_mirror_ptr(kids(n0)[0])
        return False

    # ---- expressions
    def expr(self, n, depth, mg):
        k = n.get("kind")
        if k == "CallExpr":
            return self.call(n, depth, mg)
        if k == "BinaryOperator" or k == "CompoundAssignOperator":
            op = n.get("opcode")
            a, b = kids(n)
            if op in ("&&", "||"):
                self.expr(a, depth, mg)
                self.expr(b, depth + 1, mg)
                return
            if op == "=" or k == "CompoundAssignOperator":
                n0 = len(self.ev)
                self.expr(b, depth, mg)
                self.expr(a, depth, mg)
                la = strip(a)
                if la.get("kind") == "DeclRefExpr" and op == "=" and qual(la).strip().endswith("*") and \
                        la["referencedDecl"].get("kind") == "VarDecl":
                    if self.is_mirror_ptr(b):
                        self.mptr.add(la["referencedDecl"]["name"])
                    else:
                        self.mptr.discard(la["referencedDecl"]["name"])
                if la.get("kind") == "DeclRefExpr":
                    evs = [i for i in range(n0, len(self.ev)) if self.ev[i]["k"] in ("GetFile", "CheckMode", "Validate", "Call")]
                    if evs:
                        self.var_ev[la["referencedDecl"]["name"]] = evs[-1:]
                    elif op == "=":
                        self.var_ev.pop(la["referencedDecl"]["name"], None)
                if self.is_mirror_lvalue(a):
                    self.emit("Mirror", self.text(a)[:60], n, depth, mg)
                if la.get("kind") == "DeclRefExpr" and la["referencedDecl"]["name"] == "last_err" and int_value(b) != 0:
                    self.emit("Err", "last_err=", n, depth, mg)
                return
        if k == "UnaryOperator" and n.get("opcode") in ("++", "--"):
            for c in kids(n):
                self.expr(c, depth, mg)
            if self.is_mirror_lvalue(kids(n)[0]):
                self.emit("Mirror", self.text(kids(n)[0])[:60], n, depth, mg)
            return
        if k == "ConditionalOperator":
            c, a, b = kids(n)
            self.expr(c, depth, mg)
            self.expr(a, depth + 1, mg)
            self.expr(b, depth + 1, mg)
            return
        if k in ("StmtExpr",):
            self.unparsed.append("StmtExpr")
        if k == "VarDecl":
            ks = kids(n)
            if ks:
                n0 = len(self.ev)
                for c in ks:
                    self.expr(c, depth, mg)
                evs = [i for i in range(n0, len(self.ev)) if self.ev[i]["k"] in ("GetFile", "CheckMode", "Validate", "Call")]
                if evs:
                    self.var_ev[n["name"]] = evs[-1:]
            return
        for c in kids(n):
            self.expr(c, depth, mg)

    def call(self, n, depth, mg):
        name = callee_name(n)
        args = kids(n)[1:]
        for a in args:
            self.expr(a, depth, mg)
        if name is None and "cgns_error_handler" in declrefs(kids(n)[0]):
            name = "cgns_error_handler"       # the user's error callback (assumed not to call the library)
        if name is None:
            self.unparsed.append("indirect call: " + self.text(n)[:50])
            idx = self.emit("Call", "<indirect>", n, depth, mg)
        elif name in ERR_FUNCS:
            idx = self.emit("Err", name, n, depth, mg)
        elif name == "cgi_get_file":
            idx = self.emit("GetFile", name, n, depth, mg)
        elif name == "get_cgnsio":
            w = int_value(args[1]) if len(args) > 1 else None
            if w == 1:
                idx = self.emit("CheckMode", name, n, depth, mg, mode="W")
            elif w == 0:
                idx = self.emit("GetFile", name, n, depth, mg)
            else:
                idx = self.emit("Validate", name, n, depth, mg, vk="State")
        elif name == "cgi_check_mode":
            w = int_value(args[2]) if len(args) > 2 else None
            if w in (0, 1, 2):
                idx = self.emit("CheckMode", name, n, depth, mg, mode="RWM"[w])
            else:
                idx = self.emit("Validate", name, n, depth, mg, vk="State")
        elif name in ("cgi_check_strlen", "cgi_check_strlen_x2"):
            idx = self.emit("Validate", name, n, depth, mg, vk="Name")
        elif name in self.getters:
            idx = self.emit("Validate", name, n, depth, mg, vk="Index")
        elif name in LIBC and name not in FS_WRITERS:
            if name in LIBC_DEST and args and self.is_mirror_ptr(args[0]):
                self.emit("Mirror", name + "(" + self.text(args[0])[:40] + ")", n, depth, mg)
            return
        else:
            idx = self.emit("Call", name, n, depth, mg)
        if args:
            a0 = strip(args[0])
            v = int_value(a0)
            if a0.get("kind") == "DeclRefExpr" and a0["referencedDecl"]["name"] == self.lm_param:
                self.ev[idx]["arg0"] = "P"
            elif v in (0, 1):
                self.ev[idx]["arg0"] = "RW"[v]
        self.ev[idx]["callee"] = True
        for a in args:
            a0 = strip(a)
            if a0.get("kind") == "UnaryOperator" and a0.get("opcode") == "&":
                t = strip(kids(a0)[0])
                if t.get("kind") == "DeclRefExpr" and re.fullmatch(r"ier\w*|err\w*|status|ierr\w*|error\w*", t["referencedDecl"]["name"]):
                    self.addr_ev[t["referencedDecl"]["name"]] = [idx]

    # ---- statements
    def stmt(self, s, depth, mg, guard):
        k = s.get("kind")
        if k == "CompoundStmt":
            self.blk_err.append(False)
            for c in kids(s):
                self.stmt(c, depth, mg, guard)
            self.blk_err.pop()
        elif k == "IfStmt":
            self.if_stmt(s, depth, mg, guard)
        elif k in ("ForStmt", "WhileStmt"):
            ks = s.get("inner", [])
            body = ks[-1]
            for c in ks[:-1]:
                if c:
                    (self.stmt if c.get("kind") in KNOWN_STMTS else self.expr)(c, *((depth + 1, mg, guard) if c.get("kind") in KNOWN_STMTS else (depth + 1, mg)))
            if body:
                self.stmt(body, depth + 1, mg, guard)
        elif k == "DoStmt":
            ks = kids(s)
            self.stmt(ks[0], depth + 1, mg, guard)
            self.expr(ks[1], depth + 1, mg)
        elif k == "SwitchStmt":
            ks = kids(s)
            self.expr(ks[0], depth, mg)
            for c in ks[1:]:
                self.stmt(c, depth + 1, mg, guard)
        elif k in ("CaseStmt", "DefaultStmt", "LabelStmt"):
            for c in kids(s):
                if c.get("kind") in KNOWN_STMTS:
                    self.stmt(c, depth, mg, guard)
                elif c.get("kind") not in ("ConstantExpr", "IntegerLiteral"):
                    self.stmt(c, depth, mg, guard)
        elif k in ("BreakStmt", "ContinueStmt", "NullStmt"):
            pass
        elif k == "GotoStmt":
            self.emit("Jump", "goto", s, depth, mg)
        elif k == "DeclStmt":
            for c in kids(s):
                self.expr(c, depth, mg)
        elif k == "ReturnStmt":
            self.ret_stmt(s, depth, mg, guard)
        elif k.endswith("Stmt") and k not in KNOWN_STMTS:
            self.unparsed.append("statement kind " + k)
        else:
            self.expr(s, depth, mg)

    def linked(self, cond, n0):
        """events whose failure the condition tests: calls inside it, and calls whose result variable it mentions"""
        evs = [i for i in range(n0, len(self.ev)) if self.ev[i]["k"] in ("GetFile", "CheckMode", "Validate", "Call")]
        for v in declrefs(cond):
            for i in self.var_ev.get(v, []) + self.addr_ev.get(v, []):
                if i not in evs:
                    evs.append(i)
        return evs

    def classify_cond(self, cond, txt):
        if "INVALID_ENUM" in txt:
            return "Enum"
        c0 = strip(cond)
        refs = set(declrefs(cond))
        params = {p["name"]: qual(p) for p in kids(self.fn) if p.get("kind") == "ParmVarDecl" and "name" in p}
        used = refs & set(params)
        if re.search(r"strlen|\[0\]\s*==\s*'\\0'|\[0\]\s*==\s*0|strcmp|strchr", txt) and used:
            return "Name"
        if used:
            if any(params[p].strip().endswith("*") for p in used) and re.search(r"==\s*(NULL|0)\b|!\s*\w+\s*(\)|$|\|)", txt) and not re.search(r"[<>]", txt):
                return "Null"
            if any("enum" in params[p] or re.search(r"_t\b", params[p]) and "cgsize_t" not in params[p] and "*" not in params[p] for p in used) \
                    and not re.search(r"[<>]", txt):
                return "Enum"
            return "Range"
        return "State"

    def if_stmt(self, s, depth, mg, guard):
        ks = kids(s)
        cond, then = ks[0], ks[1]
        els = ks[2] if s.get("hasElse") and len(ks) > 2 else None
        txt = self.text(cond)
        n0 = len(self.ev)
        then_ret = always_returns(then)
        if then_ret:
            # `if (A || B || C) return ..;` : whoever continues past the if has evaluated every disjunct, and a true
            # disjunct returns at once -- the disjuncts are sequential checks, not conditional ones
            for c in or_chain(cond):
                self.expr(c, depth, mg)
        else:
            self.expr(cond, depth, mg)
        new_guard = guard
        c0 = strip(cond)
        mt = mode_test(cond)
        is_open_check = (c0.get("kind") == "BinaryOperator" and c0.get("opcode") == "==" and
                         strip(kids(c0)[0]).get("kind") == "DeclRefExpr" and
                         strip(kids(c0)[0])["referencedDecl"]["name"] == "cg" and int_value(kids(c0)[1]) == 0 and
                         "cg" not in self.var_ev)
        if then_ret:
            ln = self.linked(cond, n0)
            fails = self.then_fails(then)
            if is_open_check and fails:
                i = self.emit("CheckOpen", "CHECK_FILE_OPEN", s, depth, mg, rf=True)
                new_guard = [i]
            elif mt and not has_call(cond) and fails:
                op, v = mt
                # the branch taken is the rejecting one: which open modes are rejected?
                rej = {("==", 0): "W", ("!=", 2): "M", ("==", 1): "R"}.get((op, v), "other")
                if rej in ("W", "M", "R") and len(and_chain(cond)) == 1:
                    i = self.emit("CheckMode", "mode-test", s, depth, mg, rf=True, mode=rej)
                else:
                    i = self.emit("Validate", txt[:70], s, depth, mg, rf=True, vk="State")
                new_guard = [i]
            elif ln:
                for i in ln:
                    if fails:
                        self.ev[i]["rf"] = True
                new_guard = ln
            elif fails:
                i = self.emit("Validate", txt[:70], s, depth, mg, rf=True, vk=self.classify_cond(cond, txt))
                new_guard = [i]
        # guards: arms that run only on a file that is not in read mode / only with local_mode == CG_MODE_WRITE
        l_then, m_then, m_else = cond_guards(cond, self.lm_param, self.vg)
        save = self.lm
        self.lm = save or l_then
        self.stmt(then, depth + 1, mg or m_then, new_guard if then_ret else guard)
        self.lm = save
        if els is not None:
            self.stmt(els, depth + 1, mg or m_else, guard)

    def then_fails(self, then):
        """the always-returning arm returns a failure status (anything but literal success)"""
        last = then
        while last.get("kind") == "CompoundStmt":
            last = kids(last)[-1]
        if last.get("kind") == "IfStmt":
            ks = kids(last)
            return self.then_fails(ks[1]) or self.then_fails(ks[2])
        r = self.ret_class(last)
        return r in ("Err", "Var", "Call")

    def ret_class(self, s):
        ks = kids(s)
        if not ks:
            return "Void"
        e = strip(ks[0])
        v = int_value(e)
        if not self.ret_ptr and self.ret != "int":
            return "Ok"                      # sizes, enumerations ...: no status convention
        if v is not None:
            if self.ret_ptr:
                return "Err" if v == 0 else "Ok"
            return "Ok" if v == 0 else "Err"
        if e.get("kind") == "CallExpr":
            nm = callee_name(e)
            if nm == "set_error":
                a = kids(e)[1:]
                v = int_value(a[0]) if a else None
                return "Ok" if v == 0 else "Err"
            return "Call"
        if self.ret_ptr and e.get("kind") != "DeclRefExpr":
            return "Ok"                      # &x->y[i], x->y ... : a non-null element
        return "Var"

    def ret_stmt(self, s, depth, mg, guard):
        ks = kids(s)
        n0 = len(self.ev)
        for c in ks:
            self.expr(c, depth, mg)
        r = self.ret_class(s)
        why, who = "None", []
        if r == "Call":
            evs = [i for i in range(n0, len(self.ev)) if self.ev[i]["k"] in ("GetFile", "CheckMode", "Validate", "Call")]
            for i in evs[-1:]:
                self.ev[i]["rf"] = True
                who = [i]
            why = "Callee" if who else "None"
        elif r in ("Err", "Var"):
            if self.blk_err[-1]:
                why = "Msg"
            elif r == "Var":
                e = strip(ks[0])
                v = e["referencedDecl"]["name"] if e.get("kind") == "DeclRefExpr" else None
                who = list(self.var_ev.get(v, [])) + list(self.addr_ev.get(v, []))
                if self.var_ev.get(v) and max(self.var_ev[v]) == len(self.ev) - 1 and depth == 0:
                    for i in self.var_ev[v]:
                        self.ev[i]["rf"] = True       # `status = f(..); return status;` with nothing in between
                if not who and guard:
                    who = list(guard)
                why = "Callee" if who else "None"
            elif guard:
                why, who = "Callee", list(guard)
        if r == "Var" and guard is None and (self.ret_ptr or self.ret != "int"):
            r = "Ok"                        # value-returning function / pointer found by the function: not a status
        if guard is not None and r == "Var":
            r = "Err"                       # the always-returning arm of a failed check: `return ier;` is a failure
        self.emit("Ret", r, s, depth, mg, why=why, who=who, text=self.text(s)[:60])

    def run(self):
        body = [c for c in kids(self.fn) if c.get("kind") == "CompoundStmt"][0]
        self.vg = var_guards(body, self.lm_param)
        self.stmt(body, 0, False, None)
        for u in self.unparsed:
            self.ev.append(dict(k="Unparsed", n=u, c=False, rf=False, mg=False, lm=False, line=0))
        return self.ev


# ------------------------------------------------------------------------------------------------ getters (C12)
def cmp_of(n, params):
    """(op, lhs text-class, rhs) of a comparison node: lhs must be a parameter"""
    n = strip(n)
    if n.get("kind") != "BinaryOperator" or n.get("opcode") not in ("<", "<=", ">", ">=", "==", "!="):
        return None
    a, b = [strip(x) for x in kids(n)]
    return n["opcode"], a, b


def member_path(n):
    """'base->nzones' style text of a member chain, or None"""
    n = strip(n)
    if n.get("kind") == "MemberExpr":
        b = member_path(kids(n)[0])
        return (b + ("->" if n.get("isArrow") else ".") if b else "") + n["name"]
    if n.get("kind") == "DeclRefExpr":
        return n["referencedDecl"]["name"]
    if n.get("kind") == "UnaryOperator" and n.get("opcode") in ("*", "&"):
        return member_path(kids(n)[0])
    if n.get("kind") == "ArraySubscriptExpr":
        a, b = kids(n)
        pa = member_path(a)
        return pa + "[]" if pa else None
    return None


def or_chain(n):
    n0 = strip(n)
    if n0.get("kind") == "BinaryOperator" and n0.get("opcode") == "||":
        a, b = kids(n0)
        return or_chain(a) + or_chain(b)
    return [n0]


NEG = {">": "<=", "<=": ">", ">=": "<", "<": ">=", "==": "!=", "!=": "=="}
FLIP = {"<": ">", "<=": ">=", ">": "<", ">=": "<=", "==": "==", "!=": "!="}


def getter_rows(fn, w):
    """one row per non-null return of an index getter: how the returned element is selected and which test guards it.
    Tests are collected in REJECT form: `if (i > n || i <= 0) return NULL;` as written, an enclosing accepting
    `if (i > 0 && i <= n) { return &a[i-1]; }` negated, an enclosing `for (i = 0; i < n; i++)` as a loop bound."""
    rows = []
    params = [p["name"] for p in kids(fn) if p.get("kind") == "ParmVarDecl" and "name" in p]

    def cmps(nodes, negate):
        cs = []
        for c in nodes:
            cm = cmp_of(c, params)
            if cm:
                op, a, b = cm
                pa, pb = member_path(a), member_path(b)
                va, vb = int_value(a), int_value(b)
                if negate:
                    op = NEG[op]
                cs.append((op, pa if pa else va, pb if pb else vb))
            else:
                cs.append(("?", w.text(c)[:40], None))
        return cs

    def scan(s, checks, loops):
        k = s.get("kind")
        if k == "CompoundStmt":
            checks = list(checks)
            for c in kids(s):
                scan(c, checks, loops)
                if c.get("kind") == "IfStmt":
                    ks = kids(c)
                    if always_returns(ks[1]) and not c.get("hasElse"):
                        checks.append(cmps(or_chain(ks[0]), False))        # later statements run only if every disjunct is false
            return
        if k == "IfStmt":
            ks = kids(s)
            scan(ks[1], checks + [[x] for x in cmps(and_chain(ks[0]), True)], loops)    # inside: every conjunct holds
            if s.get("hasElse") and len(ks) > 2:
                scan(ks[2], checks + ([cmps(or_chain(ks[0]), False)] if True else []), loops)
            return
        if k == "ForStmt":
            ks = s.get("inner", [])
            lv = None
            cond = ks[2] if len(ks) > 2 else None
            if cond:
                cm = cmp_of(cond, params)
                if cm and cm[0] == "<":
                    a, b2 = member_path(cm[1]), member_path(cm[2])
                    init = ks[0]
                    iv = None
                    if init and strip(init).get("kind") == "BinaryOperator" and strip(init).get("opcode") == "=":
                        x, y = kids(strip(init))
                        if member_path(x) == a and int_value(y) == 0:
                            iv = 0
                    if a and b2 and iv == 0:
                        lv = (a, b2)
            body = ks[-1]
            if body:
                scan(body, checks, loops + ([lv] if lv else []))
            return
        if k == "ReturnStmt":
            ks = kids(s)
            if ks:
                e = strip(ks[0])
                if int_value(e) is None:
                    rows.append((w.line(s), e, [c for c in checks], list(loops)))
            return
        for c in kids(s):
            scan(c, checks, loops)
    body = [c for c in kids(fn) if c.get("kind") == "CompoundStmt"][0]
    scan(body, [], [])
    out = []
    for line, e, cks, loops in rows:
        e0 = e
        if e0.get("kind") == "UnaryOperator" and e0.get("opcode") == "&":
            e0 = strip(kids(e0)[0])
        if e0.get("kind") == "ArraySubscriptExpr":
            a, b = kids(e0)
            arr = member_path(a)
            b0 = strip(b)
            idx, sub = None, None
            if b0.get("kind") == "BinaryOperator" and b0.get("opcode") in ("-", "+"):
                x, y = kids(b0)
                idx, sub = member_path(x), int_value(y)
                if sub is not None and b0["opcode"] == "-":
                    sub = -sub
            else:
                idx, sub = member_path(b0), 0
            if idx is None or sub is None or arr is None or "->" not in arr:
                out.append(dict(kind="Other", getter=fn["name"], line=line, text=w.text(e)[:60]))
                continue
            parent, arrf = arr.rsplit("->", 1)
            lp = [l for l in loops if l[0] == idx and l[1].startswith(parent + "->")]
            if lp and sub == 0:
                out.append(dict(kind="Loop", getter=fn["name"], line=line, idx=idx, parent=parent, arr=arrf, cnt=lp[-1][1].rsplit("->", 1)[1]))
                continue
            hi = lo = None
            for cs in cks:
                if len(cs) > 2:
                    continue
                for op, a_, b_ in cs:
                    if a_ == idx and isinstance(b_, str) and b_.startswith(parent + "->"):
                        hi = (op, b_.rsplit("->", 1)[1])
                    elif a_ == idx and isinstance(b_, int) and not isinstance(b_, bool):
                        lo = (op, b_)
                    elif b_ == idx and isinstance(a_, str) and a_.startswith(parent + "->"):
                        hi = (FLIP[op], a_.rsplit("->", 1)[1])
                    elif b_ == idx and isinstance(a_, int):
                        lo = (FLIP[op], a_)
            if hi is None or lo is None or hi[0] == "?" or lo[0] == "?":
                out.append(dict(kind="Other", getter=fn["name"], line=line, text="unchecked index: " + w.text(e)[:50]))
                continue
            out.append(dict(kind="Idx", getter=fn["name"], line=line, idx=idx, parent=parent, arr=arrf, cnt=hi[1],
                            hi_op=hi[0], lo_op=lo[0], lo_val=lo[1], sub=sub))
        elif e0.get("kind") == "MemberExpr":
            p = member_path(e0)
            ok = any(any((a_ == p and b_ == 0 and op == "==") for op, a_, b_ in cs) for cs in cks)
            out.append(dict(kind="Single", getter=fn["name"], line=line, field=p, checked=ok))
        elif e0.get("kind") == "DeclRefExpr":
            out.append(dict(kind="Var", getter=fn["name"], line=line, var=e0["referencedDecl"]["name"]))
        else:
            out.append(dict(kind="Other", getter=fn["name"], line=line, text=w.text(e)[:60]))
    return out


ALLOC_RE = re.compile(r"(\w+(?:\[\w+\])?)\s*(?:->|\.)\s*(\w+)\s*=\s*CGNS_NEW\s*\(\s*\w+\s*,\s*(\w+(?:\[\w+\])?)\s*(?:->|\.)\s*(\w+)\s*\)")


def alloc_pairs(src):
    """(count field, array field) pairs taken from where the arrays get their size:
       X->arr = CGNS_NEW(type, X->cnt)                       allocation by the readers
       X->arr = CGNS_RENEW(type, X->cnt+1, X->arr)            growth by the writers
       cgi_read_xxx(.., &X->cnt, &X->arr)                     readers that allocate through (int *n, T **a)"""
    s = set()
    for m in ALLOC_RE.finditer(src):
        if m.group(1) == m.group(3):
            s.add((m.group(4), m.group(2)))
    for m in re.finditer(r"(\w+)\s*->\s*(\w+)\s*=\s*CGNS_RENEW\s*\(\s*\w+\s*,\s*(\w+)\s*->\s*(\w+)\s*\+\s*1\s*,\s*(\w+)\s*->\s*(\w+)\s*\)", src):
        if m.group(1) == m.group(3) == m.group(5) and m.group(2) == m.group(6):
            s.add((m.group(4), m.group(2)))
    for m in re.finditer(r"&\s*(\w+)\s*->\s*(n\w+)\s*,\s*&\s*(\w+)\s*->\s*(\w+)\s*\)", src):
        if m.group(1) == m.group(3):
            s.add((m.group(2), m.group(4)))
    return sorted(s)


# ------------------------------------------------------------------------------------------------ API / doc classes
def api_names(repo):
    h = open(os.path.join(repo, "src", "cgnslib.h"), errors="replace").read()
    h = re.sub(r"/\*.*?\*/", " ", h, flags=re.S)
    cg = re.findall(r"CGNSDLL\s+[\w\s\*]+?\b(cg_\w+)\s*\(", h)
    io = open(os.path.join(repo, "src", "cgns_io.h"), errors="replace").read()
    io = re.sub(r"/\*.*?\*/", " ", io, flags=re.S)
    cgio = re.findall(r"CGEXTERN\s+[\w\s\*]+?\b(cgio_\w+)\s*\(", io)
    return sorted(set(cg)), sorted(set(cgio))


def doc_class(name):
    """what the documentation/naming says the entry point is: Write (documented mutator), File (open/close/save/
    configuration of the library, not a call on file content), Read (everything else: must be pure)"""
    if name in ("cg_open", "cg_close", "cg_save_as", "cgio_open_file", "cgio_close_file", "cgio_compress_file",
                "cgio_copy_file", "cgio_flush_to_disk", "cgio_cleanup"):
        return "File"
    if re.search(r"_write($|_)|_partial_write|^cg_delete_node$|^cg_link_write$|^cg_section_initialize$", name):
        return "Write"
    if re.match(r"cgio_(create_node|new_node|delete_node|move_node|copy_node|create_link|set_name|set_label|"
                r"set_dimensions|write_\w+)$", name):
        return "Write"
    return "Read"


# ------------------------------------------------------------------------------------------------ driver
def src_hash(repo):
    h = hashlib.sha1(VERSION.encode())
    h.update(open(os.path.abspath(__file__), "rb").read())
    for f in FILES + ["cgnslib.h", "cgns_io.h", "cgns_header.h"]:
        h.update(open(os.path.join(repo, "src", f), "rb").read())
    return h.hexdigest()


def analyse(repo, impl):
    """-> dict(functions=[...], getters=[...], alloc_pairs=[...], protos={...}, api=[...])"""
    cg_api, cgio_api = api_names(repo)
    funcs, protos = [], {}
    srcs = {f: open(os.path.join(repo, "src", f), errors="replace").read() for f in FILES}
    # names of the index getters: pointer-returning cgi_get_* of cgns_internals.c (pre-scan of the source)
    getters = set(re.findall(r"^cgns_\w+\s*\*\s*(cgi_get_\w+)\s*\(", srcs["cgns_internals.c"], re.M)) - {"cgi_get_file"}
    getter_tab = []
    for f in FILES:
        src = srcs[f]
        raw = open(os.path.join(repo, "src", f), "rb").read()
        # clang offsets are byte offsets; the sources are ASCII/latin-1: decode bytewise so that offsets agree
        src = raw.decode("latin-1")
        lines = [m.start() for m in re.finditer("\n", src)]
        for fn in stream_functions(repo, impl, f):
            name = fn.get("name")
            params = [(p.get("name", ""), qual(p)) for p in kids(fn) if p.get("kind") == "ParmVarDecl"]
            if name and (name.startswith("cg_") or name.startswith("cgio_")) and name not in protos:
                protos[name] = dict(ret=qual(fn).split("(")[0].strip(), params=params, variadic="..." in qual(fn))
            if not any(c.get("kind") == "CompoundStmt" for c in kids(fn)):
                continue
            if not re.search(r"\b%s\s*\(" % re.escape(name), src):
                continue                                  # an inline function of a header
            w = Walker(fn, src, lines, getters, f)
            try:
                ev = w.run()
            except Exception as ex:                       # whatever the walker chokes on is reported, never skipped
                ev = [dict(k="Unparsed", n="walker: %r" % (ex,), c=False, rf=False, mg=False, lm=False, line=0)]
            protos.setdefault(name, dict(ret=qual(fn).split("(")[0].strip(), params=params, variadic="..." in qual(fn)))
            funcs.append(dict(name=name, file=f, static=fn.get("storageClass") == "static", line=w.line(fn),
                              ret=w.ret, events=ev, params=params, lm_param=bool(w.lm_param)))
            if name in getters:
                try:
                    getter_tab += getter_rows(fn, w)
                except Exception as ex:
                    getter_tab.append(dict(kind="Other", getter=name, line=0, text="walker: %r" % (ex,)))
    defined = {f["name"] for f in funcs}
    api = []
    for n in cg_api + cgio_api:
        api.append(dict(name=n, doc=doc_class(n), defined=n in defined))
    return dict(functions=funcs, getters=getter_tab, alloc_pairs=alloc_pairs(srcs["cgns_internals.c"] + srcs["cgnslib.c"]),
                protos=protos, api=api, getter_names=sorted(getters))


# ------------------------------------------------------------------------------------------------ Coq output
def cs(s):
    s = "".join(ch if 32 <= ord(ch) < 127 else "?" for ch in s)
    return '"' + s.replace('"', '""') + '"'


def cb(b):
    return "true" if b else "false"


def coq_gen(d):
    fid = {}
    for f in d["functions"]:
        if f["name"] not in fid:
            fid[f["name"]] = len(fid) + 2          # 1 = "no callee"
    ext = {}

    def ident(name):
        if name in fid:
            return fid[name]
        if name not in ext:
            ext[name] = len(fid) + len(ext) + 2
        return ext[name]

    out = ["(* GENERATED by translators/c07_gates.py from the current sources of /repo -- do not edit, not committed *)",
           "From Coq Require Import List String ZArith.", "From CgnsV Require Import Gates.", "Import ListNotations.",
           "Open Scope string_scope.", "Open Scope positive_scope.", ""]
    rows = []
    seen = set()
    for f in d["functions"]:
        if f["name"] in seen:
            continue
        seen.add(f["name"])
        evs = []
        for e in f["events"]:
            k = e["k"]
            fl = "%s %s %s %s" % (cb(e["c"]), cb(e["rf"]), cb(e["mg"]), cb(e.get("lm", False)))
            if k == "GetFile":
                evs.append("Ev KGetFile %d %s" % (ident(e["n"]), fl))
            elif k == "CheckOpen":
                evs.append("Ev KCheckOpen 1 %s" % fl)
            elif k == "CheckMode":
                evs.append("Ev (KCheckMode M%s) %d %s" % ({"R": "Read", "W": "Write", "M": "Modify"}[e["mode"]],
                                                         ident(e["n"]) if e.get("callee") else 1, fl))
            elif k == "Validate":
                evs.append("Ev (KValidate V%s) %d %s" % (e["vk"], ident(e["n"]) if e.get("callee") else 1, fl))
            elif k == "Call":
                evs.append("Ev (KCall %s) %d %s" % ({"R": "ARead", "W": "AWrite", "P": "APass"}.get(e.get("arg0"), "ANone"), ident(e["n"]), fl))
            elif k == "Mirror":
                x = "Ev KMirror 1 %s" % fl
                if not evs or evs[-1] != x:            # runs of identical stores are one event
                    evs.append(x)
            elif k == "Err":
                evs.append("Ev KErr 1 %s" % fl)
            elif k == "Jump":
                evs.append("Ev KJump 1 %s" % fl)
            elif k == "Unparsed":
                evs.append("Ev KUnparsed 1 %s" % fl)
            elif k == "Ret":
                who = "[" + "; ".join(str(ident(f["events"][i]["n"])) if f["events"][i].get("callee") and f["events"][i]["k"] != "Err"
                                      else "1" for i in e["who"]) + "]"
                why = {"Msg": "WMsg", "None": "WNone", "Callee": "(WCallee %s)" % who}[e["why"]]
                evs.append("Ev (KRet R%s %s) 1 %s" % (e["n"], why, fl))
        rows.append((f, evs))
    api = {a["name"]: a for a in d["api"]}
    out.append("Definition table : list frow := [")
    lines = []
    for f, evs in rows:
        a = api.get(f["name"])
        vis = ("(Api Doc%s)" % a["doc"]) if a and not f["static"] else "Internal"
        src = {"cgnslib.c": "FMll", "cgns_internals.c": "FInt", "cgns_io.c": "FIo", "cgns_error.c": "FInt"}[f["file"]]
        lines.append(" mkRow %d %s %s %s\n  [%s]" % (fid[f["name"]], cs(f["name"]), vis, src, ";\n   ".join(evs)))
    out.append(";\n".join(lines))
    out.append("].")
    out.append("")
    out.append("(* callees that are not defined in the three files: id, name (classified by name in Gates.v) *)")
    out.append("Definition externs : list (positive * string) := [")
    out.append(";\n".join(" (%d, %s)" % (i, cs(n)) for n, i in sorted(ext.items(), key=lambda x: x[1])))
    out.append("].")
    out.append("")
    out.append("(* public entry points declared in cgnslib.h / cgns_io.h without a definition in the three files *)")
    out.append("Definition api_undefined : list string := [%s]." % "; ".join(cs(a["name"]) for a in d["api"] if not a["defined"]))
    out.append("")
    out.append("Close Scope positive_scope.")
    out.append("Open Scope Z_scope.")
    out.append("Definition getters : list grow := [")
    g = []
    opn = {">": "OGt", ">=": "OGe", "<": "OLt", "<=": "OLe", "==": "OEq", "!=": "ONe"}
    for r in d["getters"]:
        if r["kind"] == "Idx":
            g.append(" GIdx %s %s %s %s %s %s %s (%d) (%d)" % (cs(r["getter"]), cs(r["idx"]), cs(r["parent"]), cs(r["cnt"]),
                                                            cs(r["arr"]), opn[r["hi_op"]], opn[r["lo_op"]], r["lo_val"], r["sub"]))
        elif r["kind"] == "Loop":
            g.append(" GLoop %s %s %s %s" % (cs(r["getter"]), cs(r["parent"]), cs(r["cnt"]), cs(r["arr"])))
        elif r["kind"] == "Single":
            g.append(" GSingle %s %s %s" % (cs(r["getter"]), cs(r["field"]), cb(r["checked"])))
        elif r["kind"] == "Var":
            g.append(" GVar %s %s" % (cs(r["getter"]), cs(r["var"])))
        else:
            g.append(" GOther %s %s" % (cs(r["getter"]), cs(r["text"])))
    out.append(";\n".join(g))
    out.append("].")
    out.append("")
    out.append("Definition alloc_pairs : list (string * string) := [%s]." % "; ".join("(%s, %s)" % (cs(a), cs(b)) for a, b in d["alloc_pairs"]))
    out.append("Definition getter_names : list string := [%s]." % "; ".join(cs(n) for n in d["getter_names"]))
    return "\n".join(out) + "\n", fid, ext


def write_gen(repo="/repo", impl=None, force=False):
    """regenerate coq/Gen_C07.v (only rewritten when its content changes); the analysis is cached by the SHA-1 of the
    sources + this file under .build/c07_cache"""
    impl = impl or os.path.join(ROOT, ".build", "cgns")
    h = src_hash(repo)
    cdir = os.path.join(ROOT, ".build", "c07_cache")
    os.makedirs(cdir, exist_ok=True)
    cf = os.path.join(cdir, h + ".json")
    d = None
    if os.path.exists(cf) and not force:
        try:
            d = json.load(open(cf))
        except Exception:
            d = None
    cached = d is not None
    if d is None:
        d = analyse(repo, impl)
        tmp = cf + ".%d.tmp" % os.getpid()
        json.dump(d, open(tmp, "w"))
        os.replace(tmp, cf)
        for old in sorted((os.path.join(cdir, x) for x in os.listdir(cdir) if x.endswith(".json")), key=os.path.getmtime)[:-6]:
            try:
                os.unlink(old)
            except OSError:
                pass
    txt, fid, ext = coq_gen(d)
    p = os.path.join(ROOT, "coq", "Gen_C07.v")
    if not os.path.exists(p) or open(p).read() != txt:
        open(p, "w").write(txt)
    nun = sum(1 for f in d["functions"] if any(e["k"] == "Unparsed" for e in f["events"]))
    info = dict(files=FILES, functions=len(d["functions"]), unparsed=nun, api=len(d["api"]),
                api_defined=sum(1 for a in d["api"] if a["defined"]), events=sum(len(f["events"]) for f in d["functions"]),
                getter_rows=len(d["getters"]), gen_sha1=hashlib.sha1(txt.encode()).hexdigest(), cached=cached, src_sha1=h)
    d["fid"], d["ext"] = fid, ext
    return info, d


if __name__ == "__main__":
    import time
    t = time.time()
    repo = os.environ.get("VERIF_REPO", "/repo")
    info, d = write_gen(repo=repo, force="--force" in sys.argv)
    print(json.dumps(info, indent=1), "%.1fs" % (time.time() - t))
    for a in sys.argv[1:]:
        for f in d["functions"]:
            if f["name"] == a:
                print(f["name"], f["file"], f["line"])
                for e in f["events"]:
                    print("   ", {k: v for k, v in e.items() if v not in (False, None, [], "")})
