(* GotoProofs.v -- lemmas about the goto model (Goto.v) for property C11.

   Everything is proved for ANY table satisfying the decidable predicate [table_ok] (re-evaluated by the kernel on
   the table regenerated from the current sources), ANY mirror satisfying the local well-formedness hypotheses
   below, ANY position, ANY path.  No axioms. *)
From Coq Require Import ZArith List String Bool Ascii Lia.
From CgnsV Require Import Goto.
Import ListNotations.
Local Open Scope string_scope.
Local Open Scope Z_scope.
Local Open Scope list_scope.

(* ------------------------------------------------------------------------------------------------ small facts *)
Lemma mem_In s l : mem s l = true <-> In s l.
Proof.
  unfold mem. rewrite existsb_exists. split.
  - intros [x [Hx He]]. apply String.eqb_eq in He. now subst.
  - intros H. exists s. split; auto. apply String.eqb_refl.
Qed.

Lemma mem_false_notIn s l : mem s l = false -> ~ In s l.
Proof. intros H Hin. apply mem_In in Hin. congruence. Qed.

Lemma nodupb_NoDup l : nodupb l = true -> NoDup l.
Proof.
  induction l as [|x t IH]; simpl; intros H; constructor.
  - apply andb_prop in H as [H _]. apply negb_true_iff in H. now apply mem_false_notIn.
  - apply IH. now apply andb_prop in H as [_ H].
Qed.

Lemma NoDup_app_disjoint {A} (l1 l2 : list A) x : NoDup (l1 ++ l2) -> In x l1 -> In x l2 -> False.
Proof.
  induction l1 as [|a t IH]; simpl; intros Hnd H1 H2; [easy|].
  inversion Hnd as [|? ? Hn Hnd']; subst. destruct H1 as [->|H1].
  - apply Hn. apply in_or_app. now right.
  - now apply IH.
Qed.

Lemma NoDup_app_r {A} (l1 l2 : list A) : NoDup (l1 ++ l2) -> NoDup l2.
Proof. induction l1; simpl; auto. intros H. inversion H; auto. Qed.

(* the first element whose key list contains k is THE element containing k, when all keys are distinct *)
Lemma find_unique {A} (key : A -> list string) (l : list A) (x : A) (k : string) :
  NoDup (List.concat (map key l)) -> In x l -> In k (key x) ->
  find (fun y => mem k (key y)) l = Some x.
Proof.
  induction l as [|y t IH]; simpl; intros Hnd Hin Hk; [easy|].
  destruct (mem k (key y)) eqn:E.
  - destruct Hin as [->|Hin]; [reflexivity|]. exfalso.
    apply mem_In in E. eapply NoDup_app_disjoint; eauto.
    apply in_concat. exists (key x). split; auto. now apply in_map.
  - destruct Hin as [->|Hin].
    + apply mem_In in Hk. congruence.
    + apply IH; auto. eapply NoDup_app_r; eauto.
Qed.

Lemma nth_opt_Some {A} (l : list A) i : 0 <= i < lenZ l -> exists c, nth_opt l i = Some c.
Proof.
  unfold nth_opt, lenZ. intros Hr. destruct (Z.ltb_spec i 0); [lia|].
  destruct (nth_error l (Z.to_nat i)) eqn:E; eauto.
  apply nth_error_None in E. lia.
Qed.

Lemma nth_opt_In {A} (l : list A) i c : nth_opt l i = Some c -> In c l.
Proof. unfold nth_opt. destruct (i <? 0); [easy|]. apply nth_error_In. Qed.

Lemma nth_opt_range {A} (l : list A) i c : nth_opt l i = Some c -> 0 <= i < lenZ l.
Proof.
  unfold nth_opt, lenZ. destruct (Z.ltb_spec i 0) as [Hlt|Hge]; [easy|]. intros Hn.
  assert (Z.to_nat i < List.length l)%nat by (apply nth_error_Some; congruence). lia.
Qed.

Lemma nth_opt_0 {A} (l : list A) c t : l = c :: t -> nth_opt l 0 = Some c.
Proof. intros ->. reflexivity. Qed.

Lemma deref_app n a b : deref n (a ++ b) = match deref n a with Some m => deref m b | None => None end.
Proof.
  revert n. induction a as [|[f i] a IH]; intros n; simpl; [reflexivity|].
  destruct (get_ptr n f); [|reflexivity]. destruct (nth_opt l i); [|reflexivity]. apply IH.
Qed.

Lemma deref_step n a f i p l c :
  deref n a = Some p -> get_ptr p f = Some l -> nth_opt l i = Some c -> deref n (a ++ [(f, i)]) = Some c.
Proof. intros H1 H2 H3. rewrite deref_app, H1. simpl. now rewrite H2, H3. Qed.

Lemma all_same_eq l x y : all_same l = true -> In x l -> In y l -> x = y.
Proof.
  destruct l as [|a t]; simpl; [easy|]. intros H Hx Hy.
  rewrite forallb_forall in H.
  assert (forall z, In z (a :: t) -> z = a) as Hz.
  { intros z [<-|Hz]; auto. apply H in Hz. apply String.eqb_eq in Hz. now subst. }
  rewrite (Hz x), (Hz y); simpl; auto.
Qed.

(* the name loop never reads past an array it is given the length of *)
Lemma name_loop_total l k n name : (k <= List.length l)%nat -> name_loop l k n name <> None.
Proof.
  revert l n. induction k as [|k IH]; intros l n H; simpl; [easy|].
  destruct l as [|c t]; simpl in H; [lia|].
  destruct (String.eqb (m_name c) name); [easy|]. apply IH. lia.
Qed.

Lemma name_loop_found l k n name m :
  name_loop l k n name = Some (Some m) ->
  n <= m < n + Z.of_nat k /\ exists c, nth_opt l (m - n) = Some c /\ m_name c = name /\
  forall j cj, 0 <= j < m - n -> nth_opt l j = Some cj -> m_name cj <> name.
Proof.
  revert l n. induction k as [|k IH]; intros l n; simpl; [easy|].
  destruct l as [|c t]; [easy|].
  destruct (String.eqb (m_name c) name) eqn:E.
  - intros H. inversion H; subst m. split; [lia|]. exists c. rewrite Z.sub_diag. repeat split; auto.
    + now apply String.eqb_eq.
    + intros; lia.
  - intros H. apply IH in H as [Hr [c' [Hn [Hm Hj]]]]. split; [lia|]. exists c'. repeat split; auto.
    + unfold nth_opt in *. destruct (Z.ltb_spec (m - (n + 1)) 0); [easy|]. destruct (Z.ltb_spec (m - n) 0); [lia|].
      replace (Z.to_nat (m - n)) with (S (Z.to_nat (m - (n + 1)))) by lia. exact Hn.
    + intros j cj Hjr Hjn. destruct (Z.eq_dec j 0) as [->|Hj0].
      * simpl in Hjn. inversion Hjn; subst cj. now apply String.eqb_neq.
      * apply (Hj (j - 1) cj); [lia|]. unfold nth_opt in *. destruct (Z.ltb_spec j 0); [easy|].
        destruct (Z.ltb_spec (j - 1) 0); [lia|]. replace (Z.to_nat j) with (S (Z.to_nat (j - 1))) in Hjn by lia. exact Hjn.
Qed.

Lemma name_loop_notfound l k n name :
  name_loop l k n name = Some None -> forall j cj, 0 <= j < Z.of_nat k -> nth_opt l j = Some cj -> m_name cj <> name.
Proof.
  revert l n. induction k as [|k IH]; intros l n; simpl; [intros; lia|].
  destruct l as [|c t]; [easy|].
  destruct (String.eqb (m_name c) name) eqn:E; [easy|]. intros H j cj Hj Hn.
  destruct (Z.eq_dec j 0) as [->|Hj0].
  - simpl in Hn. inversion Hn; subst. now apply String.eqb_neq.
  - apply (IH _ _ H (j - 1) cj); [lia|]. unfold nth_opt in *. destruct (Z.ltb_spec j 0); [easy|].
    destruct (Z.ltb_spec (j - 1) 0); [lia|]. replace (Z.to_nat j) with (S (Z.to_nat (j - 1))) in Hn by lia. exact Hn.
Qed.

(* the first element with a given name, when it is at position i *)
Lemma name_loop_finds l k n name i c :
  nth_opt l i = Some c -> m_name c = name -> i < Z.of_nat k ->
  (forall j cj, 0 <= j < i -> nth_opt l j = Some cj -> m_name cj <> name) ->
  name_loop l k n name = Some (Some (n + i)).
Proof.
  revert l n i. induction k as [|k IH]; intros l n i Hn Hm Hk Hfirst.
  - apply nth_opt_range in Hn. lia.
  - simpl. destruct l as [|c0 t]; [apply nth_opt_range in Hn; unfold lenZ in Hn; simpl in Hn; lia|].
    destruct (Z.eq_dec i 0) as [->|Hi0].
    + simpl in Hn. inversion Hn; subst c0. rewrite Hm, String.eqb_refl. now rewrite Z.add_0_r.
    + pose proof (nth_opt_range _ _ _ Hn) as Hr.
      destruct (String.eqb (m_name c0) name) eqn:E.
      * exfalso. apply (Hfirst 0 c0); [lia|reflexivity|now apply String.eqb_eq].
      * replace (n + i) with ((n + 1) + (i - 1)) by lia. apply IH; auto; try lia.
        -- unfold nth_opt in *. destruct (Z.ltb_spec i 0); [easy|]. destruct (Z.ltb_spec (i - 1) 0); [lia|].
           replace (Z.to_nat i) with (S (Z.to_nat (i - 1))) in Hn by lia. exact Hn.
        -- intros j cj Hj Hnj. apply (Hfirst (j + 1) cj); [lia|]. unfold nth_opt in *.
           destruct (Z.ltb_spec j 0); [easy|]. destruct (Z.ltb_spec (j + 1) 0); [lia|].
           replace (Z.to_nat (j + 1)) with (S (Z.to_nat j)) by lia. exact Hnj.
Qed.

(* ------------------------------------------------------------------------------------------------ failures clear the position *)
(* every exit of the loop of cgi_update_posit with a non-zero status has set posit = 0, whatever the table *)
Lemma upd_loop_fail tbl root fdb items : forall stack zone c p z,
  upd_loop tbl root fdb items stack zone = (c, p, z) -> c <> CG_OK -> p = None.
Proof.
  induction items as [|[lab idx] rest IH]; intros stack zone c p z H Hc; simpl in H.
  - inversion H; subst. congruence.
  - destruct (32 <? strlenZ lab); [now inversion H|].
    assert (Hstep : forall l nm,
      match stack with
      | [] => (UB, None, zone)
      | top :: _ =>
          match next_posit tbl root top l idx nm with
          | NPush e z0 =>
              let zone' := match z0 with Some v => v | None => zone end in
              if lenZ stack =? MAX_DEPTH then (CG_ERROR, None, zone')
              else upd_loop tbl root fdb rest (e :: stack) zone'
          | NErr c0 => (c0, None, zone)
          end
      end = (c, p, z) -> p = None).
    { intros l nm H0. destruct stack as [|top t]; [now inversion H0|].
      destruct (next_posit tbl root top l idx nm); [|now inversion H0].
      cbv zeta in H0. destruct (lenZ (top :: t) =? MAX_DEPTH); [now inversion H0|]. eapply IH; eauto. }
    destruct (0 <? idx); [eapply Hstep; eauto|].
    destruct (String.eqb lab "."); [eapply IH; eauto|].
    destruct (String.eqb lab "..").
    + destruct stack as [|top [|e2 t]]; try (now inversion H). eapply IH; eauto.
    + destruct stack as [|top t]; [now inversion H|].
      destruct (fdb (pe_id top) lab) as [[i fl]|]; [|now inversion H]. eapply Hstep; eauto.
Qed.

Lemma upd_loop_ok tbl root fdb items : forall stack zone c p z,
  upd_loop tbl root fdb items stack zone = (c, p, z) -> c = CG_OK -> p <> None.
Proof.
  induction items as [|[lab idx] rest IH]; intros stack zone c p z H Hc; simpl in H.
  - inversion H; subst. congruence.
  - subst c. destruct (32 <? strlenZ lab); [now inversion H|].
    assert (Hstep : forall l nm,
      match stack with
      | [] => (UB, None, zone)
      | top :: _ =>
          match next_posit tbl root top l idx nm with
          | NPush e z0 =>
              let zone' := match z0 with Some v => v | None => zone end in
              if lenZ stack =? MAX_DEPTH then (CG_ERROR, None, zone')
              else upd_loop tbl root fdb rest (e :: stack) zone'
          | NErr c0 => (c0, None, zone)
          end
      end = (CG_OK, p, z) -> p <> None).
    { intros l nm H0. destruct stack as [|top t]; [now inversion H0|].
      destruct (next_posit tbl root top l idx nm) eqn:En.
      - cbv zeta in H0. destruct (lenZ (top :: t) =? MAX_DEPTH); [now inversion H0|]. eapply IH; eauto.
      - inversion H0; subst. unfold next_posit in En.
        (* a returned error code is never CG_OK: by inspection of every error exit *)
        exfalso.
        destruct (find_block tbl (pe_label top)) as [[ps pty arms|w]|]; try (inversion En; discriminate).
        destruct (find_arm arms l) as [[cs alts|w1 w2]|]; try (inversion En; discriminate).
        destruct (deref root (pe_addr top)) as [pn|]; try (inversion En; discriminate).
        clear - En. revert En. generalize idx. induction alts as [|a alts IHa]; intros i En; simpl in En.
        + inversion En.
        + destruct (run_alt pn (pe_addr top) l nm a i) as [r|i'] eqn:Er.
          * subst r. unfold run_alt in Er. destruct a.
            -- repeat match type of Er with
                 | context [match ?x with _ => _ end] => destruct x; try discriminate
                 end.
            -- repeat match type of Er with
                 | context [match ?x with _ => _ end] => destruct x; try discriminate
                 end.
          * eapply IHa; eauto. }
    destruct (0 <? idx); [eapply Hstep; eauto|].
    destruct (String.eqb lab "."); [eapply IH; eauto|].
    destruct (String.eqb lab "..").
    + destruct stack as [|top [|e2 t]]; try (now inversion H). eapply IH; eauto.
    + destruct stack as [|top t]; [now inversion H|].
      destruct (fdb (pe_id top) lab) as [[i fl]|]; [|now inversion H]. eapply Hstep; eauto.
Qed.

Lemma update_posit_fail tbl root fdb items st c st' :
  update_posit tbl root fdb items st = (c, st') -> c <> CG_OK -> ps_posit st' = None.
Proof.
  unfold update_posit. destruct (ps_posit st) eqn:E.
  - destruct (upd_loop tbl root fdb items l (ps_zone st)) as [[c0 p] z] eqn:Eu. intros H Hc. inversion H; subst.
    simpl. eapply upd_loop_fail; eauto.
  - intros H _. inversion H; subst. exact E.
Qed.

Lemma set_posit_fail tbl w fn B items c st' :
  set_posit tbl w fn B items = (c, st') -> c <> CG_OK -> ps_posit st' = None.
Proof.
  unfold set_posit. destruct (get_file w fn) as [[root fdb]|]; [|intros H _; now inversion H].
  destruct (get_int root "nbases"); [|intros H _; now inversion H].
  destruct (get_ptr root "base"); [|intros H _; now inversion H].
  destruct ((z <? B) || (B <=? 0)); [intros H _; now inversion H|].
  destruct (nth_opt l (B - 1)); [|intros H _; now inversion H].
  apply update_posit_fail.
Qed.

(* C11_failure_clears: a failing navigation has cleared the position, except under the enumerated entry conditions
   (early_reject) where the call is refused before the position is touched and the state is exactly unchanged.
   Status UB marks the exits where the C text has undefined behaviour (label/index arrays shorter than depth, the
   file of the current position closed behind the library's back); no_ub below excludes them for navigation. *)
Lemma path_rel_fail tbl fuel p st1 root fdb c st' :
  match path_loop fuel p 0 with
  | inl _ => (CG_ERROR, with_posit st1 None)
  | inr items => update_posit tbl root fdb items st1
  end = (c, st') -> c <> CG_OK -> ps_posit st' = None.
Proof.
  destruct (path_loop fuel p 0).
  - intros H _. now inversion H.
  - apply update_posit_fail.
Qed.

Theorem failure_clears tbl w o st c st' :
  run_op tbl w o st = (c, st') -> c <> CG_OK -> c <> UB ->
  ps_posit st' = None \/ (st' = st /\ early_reject o st = true).
Proof.
  assert (Hgolist : forall fn B depth items,
    golist tbl w fn B depth items st = (c, st') -> c <> CG_OK -> c <> UB ->
    ps_posit st' = None \/ (st' = st /\ (MAX_DEPTH <=? depth) = true)).
  { intros fn B depth items H Hc Hu. unfold golist in H. destruct (MAX_DEPTH <=? depth); [right; now inversion H|].
    destruct (lenZ items <? depth); [inversion H; congruence|]. left. eapply set_posit_fail; eauto. }
  destruct o as [fn B items|fn items|fn B depth items|fn path|]; simpl; intros H Hc Hu.
  - left. unfold goto in H. destruct (get_file w fn); [eapply set_posit_fail; eauto|]. now inversion H.
  - unfold gorel in H. destruct (ps_posit st) eqn:Ep; [|right; now inversion H].
    destruct (fn =? ps_file st); cbn [negb] in H; [|right; now inversion H].
    destruct (get_file w (ps_file st)) as [[root fdb]|]; [|inversion H; congruence].
    left. eapply update_posit_fail; eauto.
  - eapply Hgolist; eauto.
  - unfold gopath in H. destruct path as [|c0 rest]; [right; now inversion H|].
    destruct (Ascii.eqb c0 slash) eqn:Ec.
    + left. destruct (skip_sl (String c0 rest)) eqn:Es; [now inversion H|]. rewrite <- Es in H.
      destruct (take_seg (skip_sl (String c0 rest))) as [seg rst].
      destruct (32 <? strlenZ seg); [now inversion H|].
      destruct (get_file w fn) as [[root fdb]|]; [|now inversion H].
      destruct (get_int root "nbases"); [|now inversion H].
      destruct (get_ptr root "base"); [|now inversion H].
      destruct (find_base l (Z.to_nat z) 0 seg) as [[B|]|]; try (now inversion H).
      destruct (set_posit tbl w fn B []) as [c1 st1] eqn:Esp.
      destruct (c1 =? CG_OK) eqn:Ec1; cbn [negb] in H.
      * eapply path_rel_fail; eauto.
      * inversion H; subst. eapply set_posit_fail; eauto.
    + destruct (ps_posit st) eqn:Ep; [|right; now inversion H].
      destruct (fn =? ps_file st); cbn [negb] in H; [|right; now inversion H].
      destruct (get_file w (ps_file st)) as [[root fdb]|]; [|inversion H; congruence].
      left. eapply path_rel_fail; eauto.
  - destruct (where_ st) as [[[fn B] items]|] eqn:Ew; [|right; now inversion H].
    eapply Hgolist; eauto.
Qed.

(* ================================================================================================ the generic development *)
Section Generic.
Variable ss : structs_t.
Variable tbl : list brow.
Hypothesis Htbl : table_ok ss tbl = true.
Variable root : mnode.

(* local well-formedness of one struct of the mirror: it has the fields its C type declares; the elements of a
   pointer field have the declared element type; a count declared next to an array holds the array's length *)
Definition node_ok (n : mnode) : Prop :=
  (forall f t, ptr_type ss (m_ty n) f = Some t -> exists l, get_ptr n f = Some l /\ forall c, In c l -> m_ty c = t) /\
  (forall c a, adjacent (struct_fields ss (m_ty n)) c a = true ->
               exists l, get_ptr n a = Some l /\ get_int n c = Some (lenZ l)).

Definition mirror_ok : Prop := forall a n, deref root a = Some n -> node_ok n.
Hypothesis Hmirror : mirror_ok.

(* a stack entry is sound: its pointer designates a struct of the mirror, its id is that struct's id, and the
   struct has the type every user of the entry's label casts to *)
Definition entry_ok (e : pentry) : Prop :=
  exists n, deref root (pe_addr e) = Some n /\ m_id n = pe_id e /\ In (m_ty n) (label_types ss tbl (pe_label e)).

(* ---- facts extracted from table_ok *)
Lemma tbl_block_ok b : In b tbl -> block_ok ss b = true.
Proof.
  unfold table_ok in Htbl. repeat (apply andb_prop in Htbl as [Htbl ?]).
  rewrite forallb_forall in Htbl. apply Htbl.
Qed.

Lemma tbl_parents_nodup : NoDup (List.concat (map block_parents tbl)).
Proof. unfold table_ok in Htbl. repeat (apply andb_prop in Htbl as [Htbl ?]). now apply nodupb_NoDup. Qed.

Lemma tbl_types L : In L (all_labels tbl) -> all_same (label_types ss tbl L) = true.
Proof.
  unfold table_ok in Htbl. repeat (apply andb_prop in Htbl as [Htbl ?]).
  unfold types_ok in *. match goal with H : forallb _ (all_labels tbl) = true |- _ => rewrite forallb_forall in H; apply H end.
Qed.

Lemma find_block_In L b : find_block tbl L = Some b -> In b tbl /\ block_matches L b = true.
Proof. apply find_some. Qed.

Lemma parent_in_all_labels ps pty arms L : In (Block ps pty arms) tbl -> In L ps -> In L (all_labels tbl).
Proof.
  intros Hb HL. unfold all_labels. right. apply in_concat.
  eexists. split; [apply in_map with (f := fun b => match b with Block ps _ arms => _ | _ => _ end); exact Hb|].
  simpl. apply in_or_app. now left.
Qed.

Lemma block_type_in ps pty arms L : In (Block ps pty arms) tbl -> In L ps -> In pty (label_types ss tbl L).
Proof.
  intros Hb HL. unfold label_types. apply in_or_app. right. apply in_concat.
  exists (block_pushes ss L (Block ps pty arms)). split; [now apply in_map|].
  simpl. apply in_or_app. left. apply mem_In in HL. rewrite HL. now left.
Qed.

Lemma block_type ps pty arms L t :
  In (Block ps pty arms) tbl -> In L ps -> In t (label_types ss tbl L) -> t = pty.
Proof.
  intros Hb HL Ht. eapply all_same_eq; [apply tbl_types; eapply parent_in_all_labels; eauto|exact Ht|].
  eapply block_type_in; eauto.
Qed.

Definition alt_labels (cs : list string) (a : alt) : list string :=
  match alt_plabel a with Some l => [l] | None => cs end.

Lemma pushed_in_label_types ps pty arms cs alts a L t :
  In (Block ps pty arms) tbl -> In (Arm cs alts) arms -> In a alts -> In L (alt_labels cs a) ->
  ptr_type ss pty (alt_field a) = Some t -> In t (label_types ss tbl L).
Proof.
  intros Hb Ha Hx HL Ht. unfold label_types. apply in_or_app. right. apply in_concat.
  exists (block_pushes ss L (Block ps pty arms)). split; [now apply in_map|].
  simpl. apply in_or_app. right. apply in_concat.
  exists (arm_pushes ss pty L (Arm cs alts)). split; [now apply in_map|].
  simpl. apply in_concat. exists (alt_pushes ss pty cs L a). split; [now apply in_map|].
  unfold alt_pushes. unfold alt_labels in HL. apply mem_In in HL. rewrite HL, Ht. now left.
Qed.

Lemma pushed_label_in cs a label :
  plabel_ok (alt_plabel a) cs = true -> In label cs -> In (pushed_label (alt_plabel a) label) (alt_labels cs a)
  /\ In (pushed_label (alt_plabel a) label) cs.
Proof.
  unfold plabel_ok, pushed_label, alt_labels. destruct (alt_plabel a) as [l|]; intros H Hl.
  - apply andb_prop in H as [H _]. apply mem_In in H. split; auto. now left.
  - split; auto.
Qed.

(* ---- one alternative: never UB; what it pushes is a child of p through the alternative's field *)
Definition push_spec (p : mnode) (paddr : addr) (pty : string) (label : string) (index : Z) (name : string)
                     (a : alt) (e : pentry) (z : option Z) : Prop :=
  exists i l c,
    pe_addr e = paddr ++ [(alt_field a, i)] /\ get_ptr p (alt_field a) = Some l /\ nth_opt l i = Some c /\
    pe_id e = m_id c /\ ptr_type ss pty (alt_field a) = Some (m_ty c) /\
    pe_label e = pushed_label (alt_plabel a) label /\
    match a with
    | AMulti _ _ _ _ _ _ _ _ sz _ _ => pe_index e = i + 1 /\ z = (if sz then Some (i + 1) else None) /\
                                       (0 < index -> i = index - 1) /\
                                       (index <= 0 -> m_name c = name /\
                                          forall j cj, 0 <= j < i -> nth_opt l j = Some cj -> m_name cj <> name)
    | ASingle _ _ _ _ it _ _ => pe_index e = it /\ i = 0 /\ z = None /\ (index = it \/ m_name c = name)
    end.

Lemma alt_ok_multi pty cs cl al lo hi cb ap ai k sz za pl :
  alt_ok ss pty cs (AMulti cl al lo hi cb ap ai k sz za pl) = true ->
  cb = cl /\ ap = al /\ ai = al /\ lo = 0 /\ hi = false /\ k = 1 /\ (sz = true -> za = 1) /\
  plabel_ok pl cs = true /\ adjacent (struct_fields ss pty) cl al = true /\ exists t, ptr_type ss pty al = Some t.
Proof.
  simpl. intros H. repeat (apply andb_prop in H as [H ?]).
  apply String.eqb_eq in H. repeat match goal with Hx : String.eqb _ _ = true |- _ => apply String.eqb_eq in Hx end.
  repeat match goal with Hx : (_ =? _) = true |- _ => apply Z.eqb_eq in Hx end.
  match goal with Hx : negb hi = true |- _ => apply negb_true_iff in Hx end. subst.
  repeat split; auto.
  - intros Hsz. match goal with Hx : (if sz then _ else _) = true |- _ => rewrite Hsz in Hx; now apply Z.eqb_eq in Hx end.
  - destruct (ptr_type ss pty ai); [eauto|discriminate].
Qed.

Lemma alt_ok_single pty cs pt pn pp pi it ip pl :
  alt_ok ss pty cs (ASingle pt pn pp pi it ip pl) = true ->
  pn = pt /\ pp = pt /\ pi = pt /\ ip = it /\ 1 <= it /\ plabel_ok pl cs = true /\ exists t, ptr_type ss pty pt = Some t.
Proof.
  simpl. intros H. repeat (apply andb_prop in H as [H ?]).
  apply String.eqb_eq in H. repeat match goal with Hx : String.eqb _ _ = true |- _ => apply String.eqb_eq in Hx end.
  match goal with Hx : (it =? ip) = true |- _ => apply Z.eqb_eq in Hx end.
  match goal with Hx : (1 <=? it) = true |- _ => apply Z.leb_le in Hx end.
  subst. repeat split; auto. destruct (ptr_type ss pty pi); [eauto|discriminate].
Qed.

Lemma run_alt_sound p paddr label name a index cs pty :
  alt_ok ss pty cs a = true -> node_ok p -> m_ty p = pty ->
  match run_alt p paddr label name a index with
  | inl (NErr _) => False
  | inl (NPush e z) => push_spec p paddr pty label index name a e z
  | inr _ => True
  end.
Proof.
  intros Hok [Hptr Hcnt] Hty. destruct a as [cl al lo hi cb ap ai k sz za pl|pt pn pp pi it ip pl].
  - apply alt_ok_multi in Hok as (-> & -> & -> & -> & -> & -> & Hza & Hpl & Hadj & [t Ht]).
    rewrite <- Hty in Hadj, Ht. destruct (Hcnt _ _ Hadj) as [l [Hl Hc]]. destruct (Hptr _ _ Ht) as [l' [Hl' Htys]].
    rewrite Hl in Hl'. inversion Hl'; subst l'. clear Hl'.
    unfold run_alt. rewrite Hc, Hl.
    set (after := if index - 1 <? 0 then _ else _).
    assert (Ha : exists i2, after = Some i2).
    { unfold after. destruct (index - 1 <? 0); [|eauto].
      destruct (name_loop l (Z.to_nat (lenZ l)) 0 name) as [[n|]|] eqn:En; eauto.
      exfalso. eapply name_loop_total; [|exact En]. unfold lenZ. lia. }
    assert (Hrel : forall i2, after = Some i2 ->
              (0 < index -> i2 = index - 1) /\
              (index <= 0 -> 0 <= i2 -> forall c, nth_opt l i2 = Some c -> m_name c = name /\
                 forall j cj, 0 <= j < i2 -> nth_opt l j = Some cj -> m_name cj <> name)).
    { intros i2 Hi2. unfold after in Hi2. destruct (Z.ltb_spec (index - 1) 0) as [Hlt|Hge].
      - split; [lia|]. intros _ Hpos c Hc2.
        destruct (name_loop l (Z.to_nat (lenZ l)) 0 name) as [[n|]|] eqn:En; inversion Hi2; subst; [|lia].
        apply name_loop_found in En as (Hr & c' & Hn' & Hm & Hj). rewrite Z.sub_0_r in *.
        rewrite Hc2 in Hn'. inversion Hn'; subst c'. split; auto.
      - inversion Hi2; subst. split; [auto|lia]. }
    destruct Ha as [i2 Hafter]. rewrite Hafter. specialize (Hrel _ Hafter). simpl.
    destruct (0 <=? i2) eqn:E0; simpl; [|exact I]. destruct (i2 <? lenZ l) eqn:E1; [|exact I].
    apply Z.leb_le in E0. apply Z.ltb_lt in E1.
    destruct (nth_opt_Some l i2) as [c Hn]; [lia|]. rewrite Hn.
    exists i2, l, c. simpl. repeat split; auto.
    + rewrite Hty in Ht. rewrite Ht. f_equal. symmetry. apply Htys. eapply nth_opt_In; eauto.
    + destruct sz; auto. rewrite Hza; auto.
    + tauto.
    + destruct Hrel as [_ Hrel]. now apply (Hrel ltac:(assumption) E0 c Hn).
    + destruct Hrel as [_ Hrel]. now apply (Hrel ltac:(assumption) E0 c Hn).
  - apply alt_ok_single in Hok as (-> & -> & -> & -> & Hit & Hpl & [t Ht]).
    rewrite <- Hty in Ht. destruct (Hptr _ _ Ht) as [l [Hl Htys]].
    unfold run_alt. rewrite Hl. destruct l as [|c l']; [exact I|].
    assert (Hpush : (index = it \/ m_name c = name) ->
              push_spec p paddr pty label index name (ASingle pt pt pt pt it it pl)
              {| pe_addr := paddr ++ [(pt, 0)]; pe_label := pushed_label pl label; pe_index := it; pe_id := m_id c |} None).
    { intros Hw. exists 0, (c :: l'), c. simpl. repeat split; auto. rewrite Hty in Ht. rewrite Ht. f_equal. symmetry. apply Htys. now left. }
    destruct (Z.eqb_spec index it); [apply Hpush; auto|].
    destruct (String.eqb_spec (m_name c) name); [apply Hpush; auto|exact I].
Qed.

Lemma run_alts_sound p paddr label name cs pty : forall alts index,
  forallb (alt_ok ss pty cs) alts = true -> node_ok p -> m_ty p = pty ->
  match run_alts p paddr label name alts index with
  | NErr c => c = CG_NODE_NOT_FOUND
  | NPush e z => exists a index', In a alts /\ push_spec p paddr pty label index' name a e z
  end.
Proof.
  induction alts as [|a alts IH]; intros index Hall Hn Hty; simpl; [reflexivity|].
  simpl in Hall. apply andb_prop in Hall as [Ha Hall].
  pose proof (run_alt_sound p paddr label name a index cs pty Ha Hn Hty) as Hs.
  destruct (run_alt p paddr label name a index) as [[e z|c]|i'].
  - exists a, index. split; [now left|exact Hs].
  - easy.
  - specialize (IH i' Hall Hn Hty). destruct (run_alts p paddr label name alts i').
    + destruct IH as [a' [ix [Hin Hp]]]. exists a', ix. split; [now right|exact Hp].
    + exact IH.
Qed.

(* ---- one step of cgi_next_posit from a sound entry: never UB; a pushed entry is sound and designates a child *)
Lemma arm_of_block ps pty arms cs alts :
  In (Block ps pty arms) tbl -> In (Arm cs alts) arms ->
  forallb (alt_ok ss pty cs) alts = true /\ alts_shape_ok alts = true /\ cs <> [] /\
  NoDup (List.concat (map arm_children arms)).
Proof.
  intros Hb Ha. apply tbl_block_ok in Hb. simpl in Hb. repeat (apply andb_prop in Hb as [Hb ?]).
  rewrite forallb_forall in H1. specialize (H1 _ Ha). simpl in H1. repeat (apply andb_prop in H1 as [H1 ?]).
  repeat split; auto.
  - intros ->. discriminate.
  - now apply nodupb_NoDup.
Qed.

Lemma top_type e p ps pty arms :
  entry_ok e -> deref root (pe_addr e) = Some p -> In (Block ps pty arms) tbl -> In (pe_label e) ps -> m_ty p = pty.
Proof.
  intros [n [Hd [_ Ht]]] Hp Hb HL. rewrite Hp in Hd. inversion Hd; subst n. eapply block_type; eauto.
Qed.

Theorem step_sound top label index name :
  entry_ok top ->
  match next_posit tbl root top label index name with
  | NErr c => c = CG_INCORRECT_PATH \/ c = CG_NODE_NOT_FOUND
  | NPush e z => entry_ok e /\ (exists f i, pe_addr e = pe_addr top ++ [(f, i)]) /\
                 (forall n, deref root (pe_addr e) = Some n -> pe_id e = m_id n)
  end.
Proof.
  intros Htop. unfold next_posit.
  destruct (find_block tbl (pe_label top)) as [[ps pty arms|w]|] eqn:Eb; auto.
  apply find_block_In in Eb as [Hb Hm]. simpl in Hm. apply mem_In in Hm.
  destruct (find_arm arms label) as [[cs alts|w1 w2]|] eqn:Ea; auto.
  apply find_some in Ea as [Ha Hma]. simpl in Hma. apply mem_In in Hma.
  destruct Htop as [p [Hd [Hid Hty]]]. rewrite Hd.
  assert (Htyp : m_ty p = pty) by (eapply block_type; eauto).
  destruct (arm_of_block _ _ _ _ _ Hb Ha) as (Hall & Hshape & Hcs & Hnd).
  pose proof (run_alts_sound p (pe_addr top) label name cs pty alts index Hall (Hmirror _ _ Hd) Htyp) as Hs.
  destruct (run_alts p (pe_addr top) label name alts index) as [e z|c]; [|now right].
  destruct Hs as [a [ix [Hin (i & l & c & Haddr & Hl & Hn & Hide & Hpt & Hlab & _)]]].
  assert (Hde : deref root (pe_addr e) = Some c) by (rewrite Haddr; eapply deref_step; eauto).
  split; [|split].
  - exists c. repeat split; auto. rewrite Hlab.
    rewrite forallb_forall in Hall. specialize (Hall _ Hin).
    assert (Hpl : plabel_ok (alt_plabel a) cs = true).
    { destruct a; [apply alt_ok_multi in Hall|apply alt_ok_single in Hall]; simpl; tauto. }
    eapply pushed_in_label_types with (a := a); eauto. exact (proj1 (pushed_label_in _ _ _ Hpl Hma)).
  - eauto.
  - intros n Hn'. rewrite Hde in Hn'. inversion Hn'; subst. exact Hide.
Qed.

(* ---- the invariant of the position stack *)
Fixpoint chain (s : list pentry) : Prop :=
  match s with
  | e :: ((e' :: _) as t) => (exists f i, pe_addr e = pe_addr e' ++ [(f, i)]) /\ chain t
  | _ => True
  end.

Definition stack_ok (s : list pentry) : Prop := s <> [] /\ Forall entry_ok s /\ chain s.

Lemma stack_ok_push top t e :
  stack_ok (top :: t) -> entry_ok e -> (exists f i, pe_addr e = pe_addr top ++ [(f, i)]) -> stack_ok (e :: top :: t).
Proof. intros (Hn & Hf & Hc) He Hch. repeat split; [easy|constructor; auto|auto|auto]. Qed.

Lemma stack_ok_pop top e2 t : stack_ok (top :: e2 :: t) -> stack_ok (e2 :: t).
Proof. intros (Hn & Hf & Hc). inversion Hf; subst. simpl in Hc. repeat split; [easy|auto|tauto]. Qed.

Variable fdb : fdb_t.

(* the loop of cgi_update_posit from a sound stack: never UB, and the stack it leaves is sound -- for ANY items
   (valid or not) *)
Theorem upd_loop_inv items : forall s z c p z',
  stack_ok s -> upd_loop tbl root fdb items s z = (c, p, z') ->
  c <> UB /\ forall s', p = Some s' -> stack_ok s'.
Proof.
  induction items as [|[lab idx] rest IH]; intros s z c p z' Hs H; simpl in H.
  - inversion H; subst. split; [discriminate|]. intros s' Hs'. now inversion Hs'; subst.
  - destruct (32 <? strlenZ lab); [inversion H; subst; split; [discriminate|easy]|].
    destruct s as [|top t]; [now destruct Hs|].
    assert (Hstep : forall l nm,
          match next_posit tbl root top l idx nm with
          | NPush e z0 =>
              let zone' := match z0 with Some v => v | None => z end in
              if lenZ (top :: t) =? MAX_DEPTH then (CG_ERROR, None, zone')
              else upd_loop tbl root fdb rest (e :: top :: t) zone'
          | NErr c0 => (c0, None, z)
          end = (c, p, z') -> c <> UB /\ forall s', p = Some s' -> stack_ok s').
    { intros l nm H0. assert (Htop : entry_ok top) by (destruct Hs as (_ & Hf & _); now inversion Hf).
      pose proof (step_sound top l idx nm Htop) as Hst.
      destruct (next_posit tbl root top l idx nm) as [e z0|c0].
      - cbv zeta in H0. destruct (lenZ (top :: t) =? MAX_DEPTH); [inversion H0; subst; split; [discriminate|easy]|].
        destruct Hst as (He & Hch & _). eapply IH; [|exact H0]. now apply stack_ok_push.
      - inversion H0; subst. split; [destruct Hst as [->| ->]; discriminate|easy]. }
    destruct (0 <? idx); [eapply Hstep; eauto|].
    destruct (String.eqb lab "."); [eapply IH; eauto|].
    destruct (String.eqb lab "..").
    + destruct t as [|e2 t']; [inversion H; subst; split; [discriminate|easy]|].
      eapply IH; [|exact H]. eapply stack_ok_pop; eauto.
    + destruct (fdb (pe_id top) lab) as [[i fl]|]; [eapply Hstep; eauto|].
      inversion H; subst; split; [discriminate|easy].
Qed.

(* ---- node-context resolvers: the cast is type-correct and the result is a child of the position's node *)
Theorem context_acts_here at_ fn labels pty uses top :
  addr_table_ok ss tbl at_ = true -> In (ARow fn labels pty uses) at_ -> pty <> "" ->
  entry_ok top -> In (pe_label top) labels ->
  exists p, deref root (pe_addr top) = Some p /\ m_id p = pe_id top /\ m_ty p = pty /\
    forall u, In u uses ->
      match u with
      | UMultiple cnt arr cty =>
          exists l, get_ptr p arr = Some l /\ get_int p cnt = Some (lenZ l) /\
          forall given_no,
            match resolve_multiple root top cnt arr given_no with
            | inl c => c = CG_NODE_NOT_FOUND /\ ~ (1 <= given_no <= lenZ l)
            | inr a => a = pe_addr top ++ [(arr, given_no - 1)] /\ 1 <= given_no <= lenZ l /\
                       exists c, nth_opt l (given_no - 1) = Some c /\ deref root a = Some c /\ m_ty c = cty
            end
      | USingle f cty =>
          exists l, get_ptr p f = Some l /\
          forall c, nth_opt l 0 = Some c -> deref root (resolve_single top f) = Some c /\ m_ty c = cty
      | UShift cnt arr => exists l, get_ptr p arr = Some l /\ get_int p cnt = Some (lenZ l)
      | UChild f => exists l, get_ptr p f = Some l
      | UCount c => exists t, assoc c (struct_fields ss pty) = Some t
      | UField f => exists t, assoc f (struct_fields ss pty) = Some t
      end.
Proof.
  intros Hat Hin Hpty (p & Hd & Hid & Hty) HL.
  unfold addr_table_ok in Hat. rewrite forallb_forall in Hat. specialize (Hat _ Hin). simpl in Hat.
  destruct (String.eqb_spec pty ""); [contradiction|]. apply andb_prop in Hat as [Hlab Huses].
  rewrite forallb_forall in Hlab. specialize (Hlab _ HL). rewrite forallb_forall in Hlab.
  specialize (Hlab _ Hty). apply String.eqb_eq in Hlab.
  exists p. repeat split; auto. intros u Hu. rewrite forallb_forall in Huses. specialize (Huses _ Hu).
  destruct (Hmirror _ _ Hd) as [Hptr Hcnt]. rewrite <- Hlab in Hptr, Hcnt.
  destruct u as [cnt arr cty|f|f cty|c|cnt arr|f]; simpl in Huses.
  - apply andb_prop in Huses as [Hadj Hpt]. destruct (ptr_type ss pty arr) as [t|] eqn:Et; [|discriminate].
    apply String.eqb_eq in Hpt. subst t. destruct (Hcnt _ _ Hadj) as [l [Hl Hc]]. destruct (Hptr _ _ Et) as [l' [Hl' Htys]].
    rewrite Hl in Hl'. inversion Hl'; subst l'. exists l. repeat split; auto. intros g.
    unfold resolve_multiple. rewrite Hd, Hc.
    destruct (Z.ltb_spec (lenZ l) g); simpl; [split; [reflexivity|lia]|].
    destruct (Z.leb_spec g 0); simpl; [split; [reflexivity|lia]|].
    split; [reflexivity|]. split; [lia|]. destruct (nth_opt_Some l (g - 1)) as [c Hn]; [lia|].
    exists c. repeat split; auto. + eapply deref_step; eauto. + apply Htys. eapply nth_opt_In; eauto.
  - destruct (assoc f (struct_fields ss pty)); [eauto|discriminate].
  - destruct (ptr_type ss pty f) as [t|] eqn:Et; [|discriminate]. apply String.eqb_eq in Huses. subst t.
    destruct (Hptr _ _ Et) as [l [Hl Htys]]. exists l. split; auto. intros c Hn. split.
    + unfold resolve_single. eapply deref_step; eauto. + apply Htys. eapply nth_opt_In; eauto.
  - destruct (assoc c (struct_fields ss pty)) as [[]|]; try discriminate. eauto.
  - destruct (Hcnt _ _ Huses) as [l [Hl Hc]]. eauto.
  - destruct (ptr_type ss pty f) as [t|] eqn:Et; [|discriminate]. destruct (Hptr _ _ Et) as [l [Hl _]]. eauto.
Qed.
End Generic.

(* ================================================================================================ agreement of the spellings *)
Lemma find_ext' {A} (f g : A -> bool) l : (forall x, f x = g x) -> find f l = find g l.
Proof. intros H. induction l as [|x t IH]; simpl; auto. rewrite H, IH. reflexivity. Qed.

Lemma run_alt_single_inr p paddr label name pt pn pp pi it ip pl index i' :
  run_alt p paddr label name (ASingle pt pn pp pi it ip pl) index = inr i' -> i' = index.
Proof.
  unfold run_alt. destruct (get_ptr p pt) as [[|c l]|]; try discriminate; [intros H; now inversion H|].
  destruct (index =? it); [discriminate|]. destruct (get_ptr p pn) as [[|c2 l2]|]; try discriminate.
  destruct (String.eqb (m_name c2) name); [discriminate|]. intros H; now inversion H.
Qed.

Section Agree.
Variable ss : structs_t.
Variable tbl : list brow.
Hypothesis Htbl : table_ok ss tbl = true.
Variable root : mnode.
Hypothesis Hmirror : mirror_ok ss root.
Variable fdb : fdb_t.

Definition name_valid (s : string) : Prop := s <> "" /\ s <> "." /\ s <> ".." /\ strlenZ s <= 32.

(* sibling names are valid and distinct (the children of a node of the file have distinct names) *)
Definition names_ok : Prop := forall a p, deref root a = Some p ->
  forall f1 l1 i1 c1 f2 l2 i2 c2,
    get_ptr p f1 = Some l1 -> nth_opt l1 i1 = Some c1 -> get_ptr p f2 = Some l2 -> nth_opt l2 i2 = Some c2 ->
    name_valid (m_name c1) /\ (m_name c1 = m_name c2 -> f1 = f2 /\ i1 = i2).
(* the elements of the array an arm descends into carry a label that arm accepts *)
Definition labels_ok : Prop := forall a p, deref root a = Some p ->
  forall ps arms cs alts x l c,
    In (Block ps (m_ty p) arms) tbl -> In (Arm cs alts) arms -> In x alts ->
    get_ptr p (alt_field x) = Some l -> In c l -> In (m_label c) cs.
(* the file agrees with the mirror: cgio_get_node_id + cgio_get_label of a child's name give that child *)
Definition file_sync : Prop := forall a p, deref root a = Some p ->
  forall f l i c, get_ptr p f = Some l -> nth_opt l i = Some c -> fdb (m_id p) (m_name c) = Some (m_id c, m_label c).

Hypothesis Hnames : names_ok.
Hypothesis Hlabels : labels_ok.
Hypothesis Hsync : file_sync.

Notation entry_ok := (entry_ok ss tbl root).
Notation stack_ok := (stack_ok ss tbl root).

(* ---- the requested label matters only through the arm it selects *)
Lemma pushed_label_indep pl cs L L2 : plabel_ok pl cs = true -> In L cs -> In L2 cs -> pushed_label pl L = pushed_label pl L2.
Proof.
  unfold plabel_ok, pushed_label. destruct pl; auto. destruct cs as [|x [|y t]]; try discriminate.
  intros _ [<-|[]] [<-|[]]. reflexivity.
Qed.

Lemma run_alt_label_indep p paddr name a idx cs L L2 :
  plabel_ok (alt_plabel a) cs = true -> In L cs -> In L2 cs ->
  run_alt p paddr L name a idx = run_alt p paddr L2 name a idx.
Proof.
  intros Hpl H1 H2. destruct a; simpl in Hpl; unfold run_alt; rewrite (pushed_label_indep _ _ _ _ Hpl H1 H2); reflexivity.
Qed.

Lemma alt_ok_plabel pty cs a : alt_ok ss pty cs a = true -> plabel_ok (alt_plabel a) cs = true.
Proof. intros H. destruct a; [apply alt_ok_multi in H|apply alt_ok_single in H]; simpl; tauto. Qed.

Lemma run_alts_label_indep p paddr name pty cs L L2 : forall alts idx,
  forallb (alt_ok ss pty cs) alts = true -> In L cs -> In L2 cs ->
  run_alts p paddr L name alts idx = run_alts p paddr L2 name alts idx.
Proof.
  induction alts as [|a alts IH]; intros idx Hall H1 H2; simpl; auto.
  simpl in Hall. apply andb_prop in Hall as [Ha Hall].
  rewrite (run_alt_label_indep p paddr name a idx cs L L2 (alt_ok_plabel _ _ _ Ha) H1 H2).
  destruct (run_alt p paddr L2 name a idx); auto.
Qed.

Lemma find_arm_unique ps pty arms cs alts L :
  In (Block ps pty arms) tbl -> In (Arm cs alts) arms -> In L cs -> find_arm arms L = Some (Arm cs alts).
Proof.
  intros Hb Ha HL. destruct (arm_of_block ss tbl Htbl _ _ _ _ _ Hb Ha) as (_ & _ & _ & Hnd).
  unfold find_arm. rewrite (find_ext' (arm_matches L) (fun y => mem L (arm_children y))).
  - apply find_unique; auto.
  - intros [c a|c w]; reflexivity.
Qed.

Lemma next_posit_label_indep top ps pty arms cs alts L L2 idx name :
  find_block tbl (pe_label top) = Some (Block ps pty arms) -> In (Arm cs alts) arms -> In L cs -> In L2 cs ->
  next_posit tbl root top L idx name = next_posit tbl root top L2 idx name.
Proof.
  intros Hfb Ha H1 H2. unfold next_posit. rewrite Hfb.
  apply find_some in Hfb as [Hb _].
  rewrite (find_arm_unique _ _ _ _ _ L Hb Ha H1), (find_arm_unique _ _ _ _ _ L2 Hb Ha H2).
  destruct (deref root (pe_addr top)); auto.
  destruct (arm_of_block ss tbl Htbl _ _ _ _ _ Hb Ha) as (Hall & _).
  eapply run_alts_label_indep; eauto.
Qed.

(* ---- what a successful step looks like *)
Lemma run_alts_singles_spec p paddr label name cs pty (Hn : node_ok ss p) (Hty : m_ty p = pty) : forall alts index e z,
  forallb alt_is_single alts = true -> forallb (alt_ok ss pty cs) alts = true ->
  run_alts p paddr label name alts index = NPush e z ->
  exists a, In a alts /\ push_spec ss p paddr pty label index name a e z.
Proof.
  induction alts as [|a alts IH]; intros index e z Hs Hall Hrun; simpl in *; [discriminate|].
  apply andb_prop in Hs as [Hs1 Hs]. apply andb_prop in Hall as [Ha Hall].
  pose proof (run_alt_sound ss p paddr label name a index cs pty Ha Hn Hty) as Hsound.
  destruct (run_alt p paddr label name a index) as [[e0 z0|c0]|i'] eqn:Er.
  - inversion Hrun; subst. exists a. split; [now left|exact Hsound].
  - easy.
  - destruct a; [discriminate Hs1|]. apply run_alt_single_inr in Er. subst i'.
    destruct (IH index e z Hs Hall Hrun) as [a' [Hin Hp]]. exists a'. split; [now right|exact Hp].
Qed.

Lemma run_alts_spec p paddr label name cs pty alts index e z :
  alts_shape_ok alts = true -> forallb (alt_ok ss pty cs) alts = true -> node_ok ss p -> m_ty p = pty ->
  run_alts p paddr label name alts index = NPush e z ->
  exists a, In a alts /\ push_spec ss p paddr pty label index name a e z.
Proof.
  intros Hshape Hall Hn Hty Hrun.
  destruct alts as [|a [|a2 rest]].
  - discriminate.
  - simpl in Hrun. simpl in Hall. apply andb_prop in Hall as [Ha _].
    pose proof (run_alt_sound ss p paddr label name a index cs pty Ha Hn Hty) as Hs.
    destruct (run_alt p paddr label name a index) as [[e0 z0|c0]|i']; try discriminate.
    inversion Hrun; subst. exists a. split; [now left|exact Hs].
  - assert (Hsing : forallb alt_is_single (a :: a2 :: rest) = true).
    { unfold alts_shape_ok in Hshape. destruct a; apply andb_prop in Hshape as [Hshape _]; apply andb_prop in Hshape as [Hs _]; exact Hs. }
    eapply run_alts_singles_spec; eauto.
Qed.

Lemma step_facts top L idx name e zo :
  entry_ok top -> next_posit tbl root top L idx name = NPush e zo ->
  exists ps pty arms cs alts a p,
    find_block tbl (pe_label top) = Some (Block ps pty arms) /\ In (Block ps pty arms) tbl /\
    In (Arm cs alts) arms /\ In L cs /\ In a alts /\
    deref root (pe_addr top) = Some p /\ m_ty p = pty /\ m_id p = pe_id top /\ node_ok ss p /\
    alts_shape_ok alts = true /\ forallb (alt_ok ss pty cs) alts = true /\
    run_alts p (pe_addr top) L name alts idx = NPush e zo /\
    push_spec ss p (pe_addr top) pty L idx name a e zo.
Proof.
  intros Htop Hnp. unfold next_posit in Hnp.
  destruct (find_block tbl (pe_label top)) as [[ps pty arms|w]|] eqn:Eb; try discriminate.
  pose proof Eb as Eb'. apply find_some in Eb as [Hb Hm]. simpl in Hm. apply mem_In in Hm.
  destruct (find_arm arms L) as [[cs alts|w1 w2]|] eqn:Ea; try discriminate.
  apply find_some in Ea as [Ha Hma]. simpl in Hma. apply mem_In in Hma.
  destruct Htop as [p [Hd [Hid Hty]]]. rewrite Hd in Hnp.
  assert (Htyp : m_ty p = pty) by (eapply block_type; eauto).
  destruct (arm_of_block ss tbl Htbl _ _ _ _ _ Hb Ha) as (Hall & Hshape & Hcs & Hnd).
  destruct (run_alts_spec p (pe_addr top) L name cs pty alts idx e zo Hshape Hall (Hmirror _ _ Hd) Htyp Hnp) as [a [Hin Hp]].
  exists ps, pty, arms, cs, alts, a, p. repeat split; auto. apply (Hmirror _ _ Hd). apply (Hmirror _ _ Hd).
Qed.

(* a step by (label, index > 0) records exactly that index *)
Lemma index_reproduced top L idx e zo :
  entry_ok top -> 0 < idx -> next_posit tbl root top L idx "" = NPush e zo -> pe_index e = idx.
Proof.
  intros Htop Hidx Hnp.
  destruct (step_facts _ _ _ _ _ _ Htop Hnp) as (ps & pty & arms & cs & alts & a & p & _ & _ & _ & _ & _ & Hd & _ & _ & _ & _ & _ & _ & Hspec).
  destruct Hspec as (i & l & c & Haddr & Hl & Hn & Hid & Hpt & Hlab & Hrest).
  destruct a.
  - destruct Hrest as (Hi & _ & Hrel & _). rewrite Hi, (Hrel Hidx). lia.
  - destruct Hrest as (Hi & _ & _ & [Heq|Hnm]); [congruence|].
    exfalso. destruct (Hnames _ _ Hd _ _ _ _ _ _ _ _ Hl Hn Hl Hn) as [[Hne _] _]. now apply Hne.
Qed.

(* replaying what cg_where reports for a step (the pushed label and index) repeats the step *)
Lemma where_step top L idx e zo :
  entry_ok top -> 0 < idx -> next_posit tbl root top L idx "" = NPush e zo ->
  next_posit tbl root top (pe_label e) (pe_index e) "" = NPush e zo.
Proof.
  intros Htop Hidx Hnp. rewrite (index_reproduced _ _ _ _ _ Htop Hidx Hnp).
  destruct (step_facts _ _ _ _ _ _ Htop Hnp) as (ps & pty & arms & cs & alts & a & p & Hfb & Hb & Ha & HL & Hin & Hd & _ & _ & _ & _ & Hall & _ & Hspec).
  destruct Hspec as (i & l & c & _ & _ & _ & _ & _ & Hlab & _). rewrite <- Hnp, Hlab.
  eapply next_posit_label_indep; eauto.
  rewrite forallb_forall in Hall. apply (pushed_label_in cs a L (alt_ok_plabel _ _ _ (Hall _ Hin)) HL).
Qed.

Lemma app_last_inj {A} (a : list A) x y : a ++ [x] = a ++ [y] -> x = y.
Proof. intros H. apply app_inv_head in H. now inversion H. Qed.

(* ---- by name: the multiple template *)
Lemma run_alt_multi_name p paddr L pty cs cl al lo hi cb ap ai k sz za pl idx idx0 e zo :
  alt_ok ss pty cs (AMulti cl al lo hi cb ap ai k sz za pl) = true -> node_ok ss p -> m_ty p = pty ->
  (forall l i j ci cj, get_ptr p al = Some l -> nth_opt l i = Some ci -> nth_opt l j = Some cj ->
                       m_name ci = m_name cj -> i = j) ->
  0 < idx -> idx0 <= 0 ->
  run_alt p paddr L "" (AMulti cl al lo hi cb ap ai k sz za pl) idx = inl (NPush e zo) ->
  exists l c, get_ptr p al = Some l /\ nth_opt l (idx - 1) = Some c /\ pe_addr e = paddr ++ [(al, idx - 1)] /\
    run_alt p paddr L (m_name c) (AMulti cl al lo hi cb ap ai k sz za pl) idx0 = inl (NPush e zo).
Proof.
  intros Hok [Hptr Hcnt] Hty Huniq Hidx Hidx0 Hrun.
  apply alt_ok_multi in Hok as (-> & -> & -> & -> & -> & -> & Hza & Hpl & Hadj & [t Ht]).
  rewrite <- Hty in Hadj. destruct (Hcnt _ _ Hadj) as [l [Hl Hc]].
  unfold run_alt in Hrun |- *. rewrite Hc, Hl in Hrun. rewrite Hc, Hl.
  destruct (Z.ltb_spec (idx - 1) 0) as [Hlt|Hge]; [lia|].
  destruct (Z.ltb_spec (idx0 - 1) 0) as [Hlt0|Hge0]; [|lia].
  simpl in Hrun.
  destruct (0 <=? idx - 1) eqn:E0; simpl in Hrun; [|discriminate].
  destruct (idx - 1 <? lenZ l) eqn:E1; [|discriminate].
  destruct (nth_opt l (idx - 1)) as [c|] eqn:En; [|discriminate].
  exists l, c. repeat split; auto.
  - inversion Hrun; subst. reflexivity.
  - assert (Hloop : name_loop l (Z.to_nat (lenZ l)) 0 (m_name c) = Some (Some (0 + (idx - 1)))).
    { apply name_loop_finds with (c := c); auto.
      - apply Z.ltb_lt in E1. unfold lenZ in *. lia.
      - intros j cj Hj Hnj Heq. assert (j = idx - 1) by (eapply Huniq; eauto). lia. }
    rewrite Z.add_0_l in Hloop. rewrite Hloop. simpl. rewrite E0, E1. simpl. rewrite En. exact Hrun.
Qed.

(* ---- by name: a list of single alternatives *)
Lemma run_alts_singles_name p paddr L pty cs (Hn : node_ok ss p) (Hty : m_ty p = pty)
  (Hnm : forall f1 l1 i1 c1 f2 l2 i2 c2,
      get_ptr p f1 = Some l1 -> nth_opt l1 i1 = Some c1 -> get_ptr p f2 = Some l2 -> nth_opt l2 i2 = Some c2 ->
      name_valid (m_name c1) /\ (m_name c1 = m_name c2 -> f1 = f2 /\ i1 = i2)) :
  forall alts idx idx0 e zo,
  forallb alt_is_single alts = true -> forallb (alt_ok ss pty cs) alts = true -> nodupb (map alt_field alts) = true ->
  0 < idx -> idx0 <= 0 ->
  run_alts p paddr L "" alts idx = NPush e zo ->
  exists f c l', pe_addr e = paddr ++ [(f, 0)] /\ get_ptr p f = Some (c :: l') /\
    run_alts p paddr L (m_name c) alts idx0 = NPush e zo.
Proof.
  induction alts as [|y rest IH]; intros idx idx0 e zo Hs Hall Hnd Hidx Hidx0 Hrun; simpl in Hrun; [discriminate|].
  simpl in Hs, Hall, Hnd. apply andb_prop in Hs as [Hs1 Hs]. apply andb_prop in Hall as [Hy Hall].
  apply andb_prop in Hnd as [Hnotin Hnd]. apply negb_true_iff in Hnotin.
  destruct y as [|pt pn pp pi it ip pl]; [discriminate|].
  pose proof Hy as Hy'. apply alt_ok_single in Hy' as (-> & -> & -> & -> & Hit & Hpl & [t Ht]).
  destruct Hn as [Hptr Hcnt]. rewrite <- Hty in Ht. destruct (Hptr _ _ Ht) as [ly [Hly _]].
  simpl. unfold run_alt in Hrun |- *. rewrite Hly in *.
  destruct ly as [|cy ly'].
  - (* NULL pointer: both fall through *)
    destruct (IH idx idx0 e zo Hs Hall Hnd Hidx Hidx0 Hrun) as (f & c & l' & Ha & Hg & Hr). exists f, c, l'. auto.
  - destruct (Z.eqb_spec idx0 it) as [Heq|Hne]; [lia|].
    destruct (Z.eqb_spec idx it) as [Heq|Hne2].
    + (* selected by its index: by name it is selected as well *)
      exists pt, cy, ly'. inversion Hrun; subst. simpl. repeat split; auto.
      rewrite String.eqb_refl. reflexivity.
    + destruct (Hnm _ _ _ _ _ _ _ _ Hly (nth_opt_0 _ _ _ eq_refl) Hly (nth_opt_0 _ _ _ eq_refl)) as [[Hne0 _] _].
      destruct (String.eqb_spec (m_name cy) ""); [contradiction|].
      destruct (IH idx idx0 e zo Hs Hall Hnd Hidx Hidx0 Hrun) as (f & c & l' & Ha & Hg & Hr).
      exists f, c, l'. repeat split; auto.
      destruct (String.eqb_spec (m_name cy) (m_name c)) as [Heqn|]; [|exact Hr].
      exfalso. destruct (Hnm _ _ _ _ _ _ _ _ Hly (nth_opt_0 _ _ _ eq_refl) Hg (nth_opt_0 _ _ _ eq_refl)) as [_ Hu].
      destruct (Hu Heqn) as [Hf _]. subst f.
      (* the pushing alternative of rest has field pt, which is not among the fields of rest *)
      assert (Hin : In pt (map alt_field rest)).
      { destruct (run_alts_singles_spec p paddr L "" cs pty (conj Hptr Hcnt) Hty rest idx e zo Hs Hall Hrun) as [a' [Hina (i' & l2 & c2 & Haddr & _)]].
        rewrite Ha in Haddr. apply app_last_inj in Haddr. inversion Haddr. apply in_map_iff. exists a'. split; auto. }
      apply mem_In in Hin. simpl in Hnotin. congruence.
Qed.

(* ---- by name: one step *)
Lemma name_step top L idx e zo idx0 :
  entry_ok top -> 0 < idx -> idx0 <= 0 -> next_posit tbl root top L idx "" = NPush e zo ->
  exists c, deref root (pe_addr e) = Some c /\ name_valid (m_name c) /\
    fdb (pe_id top) (m_name c) = Some (m_id c, m_label c) /\
    next_posit tbl root top (m_label c) idx0 (m_name c) = NPush e zo.
Proof.
  intros Htop Hidx Hidx0 Hnp.
  destruct (step_facts _ _ _ _ _ _ Htop Hnp) as (ps & pty & arms & cs & alts & a & p & Hfb & Hb & Ha & HL & Hin & Hd & Hty & Hidp & Hnode & Hshape & Hall & Hrun & Hspec).
  assert (Hgoal : exists f i l c, pe_addr e = pe_addr top ++ [(f, i)] /\ get_ptr p f = Some l /\ nth_opt l i = Some c /\
             (exists x, In x alts /\ alt_field x = f) /\
             run_alts p (pe_addr top) L (m_name c) alts idx0 = NPush e zo).
  { destruct alts as [|a1 [|a2 rest]].
    - discriminate.
    - destruct a1 as [cl al lo hi cb ap ai k sz za pl|].
      + cbn [run_alts] in Hrun. destruct (run_alt p (pe_addr top) L "" (AMulti cl al lo hi cb ap ai k sz za pl) idx) as [[e0 z0|c0]|i'] eqn:Er; try discriminate.
        inversion Hrun; subst e0 z0. simpl in Hall. apply andb_prop in Hall as [Hok _].
        pose proof Hok as Hok'. apply alt_ok_multi in Hok' as (_ & Hap & _).
        destruct (run_alt_multi_name p (pe_addr top) L pty cs _ _ _ _ _ _ _ _ _ _ _ idx idx0 e zo Hok Hnode Hty) as (l & c & Hl & Hn & Haddr & Hr); auto.
        { intros l i j ci cj Hl Hi Hj Heq. destruct (Hnames _ _ Hd _ _ _ _ _ _ _ _ Hl Hi Hl Hj) as [_ Hu]. now destruct (Hu Heq). }
        exists al, (idx - 1), l, c. repeat split; auto.
        * exists (AMulti cl al lo hi cb ap ai k sz za pl). split; [now left|]. simpl. exact Hap.
        * cbn [run_alts]. rewrite Hr. reflexivity.
      + assert (Hs : forallb alt_is_single [ASingle p_test p_name p_push p_id idx_test idx_push plabel] = true) by reflexivity.
        destruct (run_alts_singles_name p (pe_addr top) L pty cs Hnode Hty (Hnames _ _ Hd) _ idx idx0 e zo Hs Hall) as (f & c & l' & Haddr & Hg & Hr); auto.
        exists f, 0, (c :: l'), c. repeat split; auto.
        destruct (run_alts_singles_spec p (pe_addr top) L "" cs pty Hnode Hty _ idx e zo Hs Hall Hrun) as [a' [Hina (i' & l2 & c2 & Haddr2 & _)]].
        rewrite Haddr in Haddr2. apply app_last_inj in Haddr2. inversion Haddr2. exists a'. split; auto.
    - assert (Hsh := Hshape). unfold alts_shape_ok in Hsh.
      assert (Hs : forallb alt_is_single (a1 :: a2 :: rest) = true /\ nodupb (map alt_field (a1 :: a2 :: rest)) = true).
      { destruct a1; apply andb_prop in Hsh as [Hsh Hnd]; apply andb_prop in Hsh as [Hsh _]; auto. }
      destruct Hs as [Hs Hnd].
      destruct (run_alts_singles_name p (pe_addr top) L pty cs Hnode Hty (Hnames _ _ Hd) _ idx idx0 e zo Hs Hall Hnd) as (f & c & l' & Haddr & Hg & Hr); auto.
      exists f, 0, (c :: l'), c. repeat split; auto.
      destruct (run_alts_singles_spec p (pe_addr top) L "" cs pty Hnode Hty _ idx e zo Hs Hall Hrun) as [a' [Hina (i' & l2 & c2 & Haddr2 & _)]].
      rewrite Haddr in Haddr2. apply app_last_inj in Haddr2. inversion Haddr2. exists a'. split; auto. }
  destruct Hgoal as (f & i & l & c & Haddr & Hl & Hn & [x [Hx Hxf]] & Hr).
  exists c. split; [rewrite Haddr; eapply deref_step; eauto|].
  split; [apply (Hnames _ _ Hd _ _ _ _ _ _ _ _ Hl Hn Hl Hn)|].
  split; [rewrite <- Hidp; eapply Hsync; eauto|].
  assert (Hlab : In (m_label c) cs).
  { rewrite <- Hty in Hb. eapply (Hlabels _ _ Hd _ _ _ _ x l c Hb Ha Hx); [rewrite Hxf; exact Hl|eapply nth_opt_In; eauto]. }
  rewrite (next_posit_label_indep top ps pty arms cs alts (m_label c) L idx0 (m_name c) Hfb Ha Hlab HL).
  unfold next_posit. rewrite Hfb. rewrite (find_arm_unique _ _ _ _ _ L Hb Ha HL). rewrite Hd. exact Hr.
Qed.

(* ---- whole paths *)
Definition item_step (top : pentry) (it : string * Z) : nres :=
  if 0 <? snd it then next_posit tbl root top (fst it) (snd it) ""
  else match fdb (pe_id top) (fst it) with
       | None => NErr CG_NODE_NOT_FOUND
       | Some (_, fl) => next_posit tbl root top fl (snd it) (fst it)
       end.

Definition plain_item (it : string * Z) : Prop :=
  strlenZ (fst it) <= 32 /\ (snd it <= 0 -> fst it <> "." /\ fst it <> "..").

Lemma upd_loop_plain lab idx rest top t z :
  plain_item (lab, idx) ->
  upd_loop tbl root fdb ((lab, idx) :: rest) (top :: t) z =
  match item_step top (lab, idx) with
  | NPush e zo =>
      let zone' := match zo with Some v => v | None => z end in
      if lenZ (top :: t) =? MAX_DEPTH then (CG_ERROR, None, zone')
      else upd_loop tbl root fdb rest (e :: top :: t) zone'
  | NErr c => (c, None, z)
  end.
Proof.
  intros [Hlen Hdots]. simpl in Hlen, Hdots. cbn [upd_loop]. unfold item_step. cbn [fst snd].
  destruct (Z.ltb_spec 32 (strlenZ lab)); [lia|].
  destruct (Z.ltb_spec 0 idx); [reflexivity|].
  destruct (Hdots ltac:(lia)) as [H1 H2].
  destruct (String.eqb_spec lab "."); [contradiction|]. destruct (String.eqb_spec lab ".."); [contradiction|].
  destruct (fdb (pe_id top) lab) as [[i fl]|]; reflexivity.
Qed.

(* a spelling assigns to every pushed entry an item that repeats the step which pushed it *)
Definition spelling_ok (spell : pentry -> string * Z) : Prop :=
  forall top e zo L idx, entry_ok top -> 0 < idx -> strlenZ L <= 32 -> next_posit tbl root top L idx "" = NPush e zo ->
    plain_item (spell e) /\ item_step top (spell e) = NPush e zo.

Definition idx_items (items : list (string * Z)) : Prop :=
  Forall (fun it => 0 < snd it /\ strlenZ (fst it) <= 32) items.

Lemma agree_gen spell (Hspell : spelling_ok spell) : forall items s z s' z',
  stack_ok s -> idx_items items -> upd_loop tbl root fdb items s z = (CG_OK, Some s', z') ->
  exists new, s' = new ++ s /\ List.length new = List.length items /\
    upd_loop tbl root fdb (map spell (rev new)) s z = (CG_OK, Some s', z').
Proof.
  induction items as [|[L idx] rest IH]; intros s z s' z' Hs Hit H.
  - simpl in H. inversion H; subst. exists []. simpl. auto.
  - inversion Hit as [|? ? [Hpos Hlen] Hit']; subst. simpl in Hpos, Hlen.
    destruct s as [|top t]; [now destruct Hs|].
    assert (Htop : entry_ok top) by (destruct Hs as (_ & Hf & _); now inversion Hf).
    rewrite upd_loop_plain in H by (split; simpl; [lia|lia]).
    unfold item_step in H. cbn [fst snd] in H. destruct (Z.ltb_spec 0 idx); [|lia].
    destruct (next_posit tbl root top L idx "") as [e zo|c] eqn:Enp; [|inversion H; subst; discriminate].
    cbv zeta in H. destruct (lenZ (top :: t) =? MAX_DEPTH) eqn:Ed; [inversion H|].
    pose proof (step_sound ss tbl Htbl root Hmirror top L idx "" Htop) as Hst. rewrite Enp in Hst.
    destruct Hst as (He & Hch & _).
    assert (Hs2 : stack_ok (e :: top :: t)) by (now apply stack_ok_push).
    destruct (IH _ _ _ _ Hs2 Hit' H) as (new & Hnew & Hlen' & Hrun).
    exists (new ++ [e]). split; [rewrite <- app_assoc; exact Hnew|]. split; [rewrite app_length; simpl; lia|].
    rewrite rev_app_distr. change (rev [e] ++ rev new) with (e :: rev new). rewrite map_cons.
    destruct (Hspell _ _ _ _ _ Htop Hpos Hlen Enp) as [Hplain Hstep].
    destruct (spell e) as [lab2 idx2] eqn:Esp. rewrite upd_loop_plain by exact Hplain.
    rewrite Hstep. cbv zeta. rewrite Ed. exact Hrun.
Qed.

(* the two spellings *)
Definition spell_where (e : pentry) : string * Z := (pe_label e, pe_index e).
Definition entry_name (e : pentry) : string :=
  match deref root (pe_addr e) with Some n => m_name n | None => "" end.
Definition spell_name (e : pentry) : string * Z := (entry_name e, 0).

Lemma pushed_label_len top L idx name e zo :
  entry_ok top -> strlenZ L <= 32 -> next_posit tbl root top L idx name = NPush e zo -> strlenZ (pe_label e) <= 32.
Proof.
  intros Htop Hlen Hnp.
  destruct (step_facts _ _ _ _ _ _ Htop Hnp) as (ps & pty & arms & cs & alts & a & p & _ & _ & _ & _ & Hin & _ & _ & _ & _ & _ & Hall & _ & Hspec).
  destruct Hspec as (i & l & c & _ & _ & _ & _ & _ & Hlab & _). rewrite Hlab.
  rewrite forallb_forall in Hall. pose proof (alt_ok_plabel _ _ _ (Hall _ Hin)) as Hpl.
  unfold plabel_ok, pushed_label in *. destruct (alt_plabel a); auto.
  apply andb_prop in Hpl as [_ Hpl]. now apply Z.leb_le in Hpl.
Qed.

Lemma spelling_name_ok : spelling_ok spell_name.
Proof.
  intros top e zo L idx Htop Hidx _ Hnp.
  destruct (name_step top L idx e zo 0 Htop Hidx ltac:(lia) Hnp) as (c & Hd & (Hv1 & Hv2 & Hv3 & Hv4) & Hf & Hn).
  unfold spell_name, entry_name. rewrite Hd. split.
  - split; simpl; auto.
  - unfold item_step. cbn [fst snd]. simpl. rewrite Hf. exact Hn.
Qed.

Lemma spelling_where_ok : spelling_ok spell_where.
Proof.
  intros top e zo L idx Htop Hidx Hlen Hnp. unfold spell_where.
  pose proof (index_reproduced _ _ _ _ _ Htop Hidx Hnp) as Hi.
  split.
  - split; simpl; [eapply pushed_label_len; eauto|lia].
  - unfold item_step. cbn [fst snd]. destruct (Z.ltb_spec 0 (pe_index e)); [|lia].
    now apply where_step with (L := L) (idx := idx).
Qed.

(* ---- depth *)
Lemma upd_loop_depth items : forall s z c s' z',
  lenZ s <= MAX_DEPTH -> upd_loop tbl root fdb items s z = (c, Some s', z') -> lenZ s' <= MAX_DEPTH.
Proof.
  induction items as [|[lab idx] rest IH]; intros s z c s' z' Hd H; simpl in H.
  - inversion H; subst. exact Hd.
  - destruct (32 <? strlenZ lab); [discriminate|].
    assert (Hstep : forall l nm,
      match s with
      | [] => (UB, None, z)
      | top :: _ =>
          match next_posit tbl root top l idx nm with
          | NPush e z0 =>
              let zone' := match z0 with Some v => v | None => z end in
              if lenZ s =? MAX_DEPTH then (CG_ERROR, None, zone')
              else upd_loop tbl root fdb rest (e :: s) zone'
          | NErr c0 => (c0, None, z)
          end
      end = (c, Some s', z') -> lenZ s' <= MAX_DEPTH).
    { intros l nm H0. destruct s as [|top t]; [discriminate|].
      destruct (next_posit tbl root top l idx nm); [|discriminate]. cbv zeta in H0.
      destruct (Z.eqb_spec (lenZ (top :: t)) MAX_DEPTH); [discriminate|].
      eapply IH; [|exact H0]. unfold lenZ in *. simpl List.length in *. lia. }
    destruct (0 <? idx); [eapply Hstep; eauto|].
    destruct (String.eqb lab "."); [eapply IH; eauto|].
    destruct (String.eqb lab "..").
    + destruct s as [|top [|e2 t]]; try discriminate. eapply IH; [|exact H]. unfold lenZ in *. simpl List.length in *. lia.
    + destruct s as [|top t]; [discriminate|].
      destruct (fdb (pe_id top) lab) as [[i fl]|]; [eapply Hstep; eauto|discriminate].
Qed.

(* ---- cgi_set_posit: every spelling of a label+index path sets the same state *)
Hypothesis Hroot_ty : m_ty root = "cgns_file".

Lemma base_entry_ok B b bases :
  get_ptr root "base" = Some bases -> nth_opt bases (B - 1) = Some b ->
  entry_ok {| pe_addr := [("base", B - 1)]; pe_label := "CGNSBase_t"; pe_index := B; pe_id := m_id b |}.
Proof.
  intros Hb Hn. exists b. simpl. rewrite Hb, Hn. repeat split; auto.
  unfold label_types. simpl. left.
  destruct (Hmirror [] root eq_refl) as [Hptr _]. rewrite Hroot_ty in Hptr.
  unfold table_ok in Htbl. repeat (apply andb_prop in Htbl as [Htbl ?]).
  destruct (ptr_type ss "cgns_file" "base") as [t|] eqn:Et; [|discriminate].
  match goal with Hx : String.eqb t "cgns_base" = true |- _ => apply String.eqb_eq in Hx; subst t end.
  destruct (Hptr _ _ Et) as [l [Hl Htys]]. rewrite Hb in Hl. inversion Hl; subst l.
  symmetry. apply Htys. eapply nth_opt_In; eauto.
Qed.

Theorem set_posit_agree spell (Hspell : spelling_ok spell) w fn B items st' :
  get_file w fn = Some (root, fdb) -> idx_items items ->
  set_posit tbl w fn B items = (CG_OK, st') ->
  exists new base_e,
    ps_posit st' = Some (new ++ [base_e]) /\ stack_ok (new ++ [base_e]) /\ lenZ (new ++ [base_e]) <= MAX_DEPTH /\
    List.length new = List.length items /\ ps_file st' = fn /\ ps_base st' = B /\
    pe_label base_e = "CGNSBase_t" /\ pe_index base_e = B /\
    set_posit tbl w fn B (map spell (rev new)) = (CG_OK, st').
Proof.
  intros Hf Hit H. unfold set_posit in *. rewrite Hf in *.
  destruct (get_int root "nbases") as [nb|]; [|discriminate].
  destruct (get_ptr root "base") as [bases|] eqn:Hb; [|discriminate].
  destruct ((nb <? B) || (B <=? 0)); [discriminate|].
  destruct (nth_opt bases (B - 1)) as [b|] eqn:Hn; [|discriminate].
  set (e := {| pe_addr := [("base", B - 1)]; pe_label := "CGNSBase_t"; pe_index := B; pe_id := m_id b |}) in *.
  unfold update_posit in *. cbn [ps_posit ps_zone ps_file ps_base] in *.
  destruct (upd_loop tbl root fdb items [e] 0) as [[c p] z] eqn:Eu. inversion H; subst c st'. clear H.
  assert (He : entry_ok e) by (eapply base_entry_ok; eauto).
  assert (Hs : stack_ok [e]).
  { split; [easy|]. split; [constructor; auto|exact I]. }
  destruct p as [s'|]; [|exfalso; eapply upd_loop_ok; eauto].
  destruct (agree_gen spell Hspell items [e] 0 s' z Hs Hit Eu) as (new & Hnew & Hlen & Hrun).
  destruct (upd_loop_inv ss tbl Htbl root Hmirror fdb items [e] 0 _ _ _ Hs Eu) as [_ Hok].
  exists new, e. subst s'. cbn [ps_posit ps_file ps_base].
  split; [reflexivity|]. split; [apply Hok; reflexivity|].
  split; [eapply upd_loop_depth; [|exact Eu]; unfold lenZ, MAX_DEPTH; simpl; lia|].
  split; [exact Hlen|]. do 4 (split; [reflexivity|]). rewrite Hrun. reflexivity.
Qed.

Lemma golist_all w fn B (l : list (string * Z)) st :
  lenZ l < MAX_DEPTH -> golist tbl w fn B (lenZ l) l st = set_posit tbl w fn B l.
Proof.
  intros H. unfold golist. destruct (Z.leb_spec MAX_DEPTH (lenZ l)); [lia|].
  destruct (Z.ltb_spec (lenZ l) (lenZ l)); [lia|]. unfold lenZ. rewrite Nat2Z.id, firstn_all. reflexivity.
Qed.

(* C11_nav_agree, entry-point level: a successful cg_goto by labels and indices leaves a sound stack (every pointer
   designates a struct of the mirror whose id is the recorded id and whose type is the one every user of the label
   casts to; every entry is a child of the entry below), and the same call spelled with the node NAMES (index 0),
   and the replay of what cg_where reports, end in exactly the same state. *)
Theorem nav_agree w fn B items st st' :
  get_file w fn = Some (root, fdb) -> idx_items items -> goto_args 20 items = items ->
  goto tbl w fn B items st = (CG_OK, st') ->
  exists new base_e,
    ps_posit st' = Some (new ++ [base_e]) /\ stack_ok (new ++ [base_e]) /\ List.length new = List.length items /\
    where_ st' = Some (fn, B, map spell_where (rev new)) /\
    (forall st2, golist tbl w fn B (lenZ new) (map spell_name (rev new)) st2 = (CG_OK, st')) /\
    (forall st2, golist tbl w fn B (lenZ new) (map spell_where (rev new)) st2 = (CG_OK, st')) /\
    run_op tbl w OWhereReplay st' = (CG_OK, st').
Proof.
  intros Hf Hit Hargs H. unfold goto in H. rewrite Hf, Hargs in H.
  destruct (set_posit_agree spell_name spelling_name_ok w fn B items st' Hf Hit H)
    as (new & e & Hp & Hs & Hd & Hlen & Hfile & Hbase & Hl & Hi & Hn).
  destruct (set_posit_agree spell_where spelling_where_ok w fn B items st' Hf Hit H)
    as (new2 & e2 & Hp2 & _ & _ & _ & _ & _ & _ & _ & Hw).
  rewrite Hp in Hp2. inversion Hp2 as [Heq]. apply app_inj_tail in Heq as [<- <-].
  assert (Hlt : lenZ new < MAX_DEPTH).
  { unfold lenZ in *. rewrite app_length in Hd. simpl in Hd. lia. }
  assert (Hwhere : where_ st' = Some (fn, B, map spell_where (rev new))).
  { unfold where_. rewrite Hp, Hfile, Hbase. rewrite rev_app_distr. reflexivity. }
  assert (Hg : forall (sp : pentry -> string * Z) st2, set_posit tbl w fn B (map sp (rev new)) = (CG_OK, st') ->
               golist tbl w fn B (lenZ new) (map sp (rev new)) st2 = (CG_OK, st')).
  { intros sp st2 Hsp. assert (Hl2 : lenZ (map sp (rev new)) = lenZ new) by (unfold lenZ; now rewrite map_length, rev_length).
    rewrite <- Hl2. rewrite golist_all; [exact Hsp|lia]. }
  exists new, e. repeat split; auto.
  - apply Hs. - apply Hs. - apply Hs.
  - simpl. rewrite Hwhere. assert (Hl2 : lenZ (map spell_where (rev new)) = lenZ new) by (unfold lenZ; now rewrite map_length, rev_length).
    rewrite Hl2. apply Hg. exact Hw.
Qed.

(* ---- relative navigation: `..` pops exactly one level, `.` stays; afterwards any spelling continues as from
   an absolute navigation to the common ancestor *)
Lemma upd_loop_dotdot k : forall extra s z rest,
  List.length extra = k -> s <> [] ->
  exists z2, upd_loop tbl root fdb (repeat ("..", 0) k ++ rest) (extra ++ s) z = upd_loop tbl root fdb rest s z2.
Proof.
  induction k as [|k IH]; intros extra s z rest Hlen Hs.
  - destruct extra; [|discriminate]. simpl. eauto.
  - destruct extra as [|top extra']; [discriminate|]. simpl in Hlen. inversion Hlen as [Hlen'].
    cbn [repeat app]. cbn [upd_loop]. change (32 <? strlenZ "..") with false. change (0 <? 0) with false.
    change (String.eqb ".." ".") with false. change (String.eqb ".." "..") with true. cbv iota.
    destruct (extra' ++ s) as [|e2 t] eqn:E.
    + exfalso. apply app_eq_nil in E as [_ E]. contradiction.
    + rewrite <- E. rewrite Hlen'. apply IH; auto.
Qed.

Lemma upd_loop_dot rest s z :
  upd_loop tbl root fdb ((".", 0) :: rest) s z = upd_loop tbl root fdb rest s z.
Proof. reflexivity. Qed.

(* the position part of the result does not depend on posit_zone *)
Lemma upd_loop_zone_indep items : forall s z1 z2,
  fst (fst (upd_loop tbl root fdb items s z1)) = fst (fst (upd_loop tbl root fdb items s z2)) /\
  snd (fst (upd_loop tbl root fdb items s z1)) = snd (fst (upd_loop tbl root fdb items s z2)).
Proof.
  induction items as [|[lab idx] rest IH]; intros s z1 z2; simpl; [auto|].
  destruct (32 <? strlenZ lab); [auto|].
  assert (Hstep : forall l nm,
    let r z := match s with
      | [] => (UB, None, z)
      | top :: _ =>
          match next_posit tbl root top l idx nm with
          | NPush e z0 =>
              let zone' := match z0 with Some v => v | None => z end in
              if lenZ s =? MAX_DEPTH then (CG_ERROR, None, zone')
              else upd_loop tbl root fdb rest (e :: s) zone'
          | NErr c0 => (c0, None, z)
          end
      end in
    fst (fst (r z1)) = fst (fst (r z2)) /\ snd (fst (r z1)) = snd (fst (r z2))).
  { intros l nm. cbv zeta. destruct s as [|top t]; [auto|].
    destruct (next_posit tbl root top l idx nm) as [e z0|c0]; [|auto].
    destruct (lenZ (top :: t) =? MAX_DEPTH); [auto|]. apply IH. }
  destruct (0 <? idx); [apply Hstep|].
  destruct (String.eqb lab "."); [apply IH|].
  destruct (String.eqb lab "..").
  - destruct s as [|top [|e2 t]]; auto.
  - destruct s as [|top t]; [auto|]. destruct (fdb (pe_id top) lab) as [[i fl]|]; [apply Hstep|auto].
Qed.

(* from a position [extra ++ s] (|extra| levels below the stack s), `..` x |extra|, then `.`, then items: the same
   status and the same position stack as items from s *)
Theorem relative_agree extra s z z0 items :
  s <> [] ->
  let r1 := upd_loop tbl root fdb (repeat ("..", 0) (List.length extra) ++ (".", 0) :: items) (extra ++ s) z in
  let r2 := upd_loop tbl root fdb items s z0 in
  fst (fst r1) = fst (fst r2) /\ snd (fst r1) = snd (fst r2).
Proof.
  intros Hs. cbv zeta.
  destruct (upd_loop_dotdot (List.length extra) extra s z ((".", 0) :: items) eq_refl Hs) as [z2 ->].
  rewrite upd_loop_dot. apply upd_loop_zone_indep.
Qed.
End Agree.

(* ------------------------------------------------------------------------------------------------ selector arms *)
Lemma selector_addresses_goto_child tbl t :
  sel_table_ok tbl t = true ->
  forall fn P L f, In (fn, P, L, f) t -> goto_field tbl P L = Some f.
Proof.
  unfold sel_table_ok. intros H fn P L f Hin.
  apply andb_prop in H as [_ H]. rewrite forallb_forall in H. specialize (H _ Hin).
  unfold sel_row_ok in H. destruct (goto_field tbl P L) as [g|]; [|discriminate].
  apply String.eqb_eq in H. now subst.
Qed.

