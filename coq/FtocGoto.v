(* FtocGoto.v -- C20f: where does a go-to path END?  Definitions only, no proofs.

   cg_goto / cg_gorel (cgnslib.c, vcg_goto / vcg_gorel) read (label, index) pairs until
        label == NULL || label[0] == 0 || strcmp("end",label)==0 || strcmp("END",label)==0 .
   The Fortran module procedures cg_goto_f / cg_gorel_f hand every pair, as TRIM(name)//C_NULL_CHAR, to cg_goto_fc1 /
   cg_gorel_fc1 (cg_ftoc.c), which decide with their own test whether the pair is "no pair" (n = 0: the position is
   left where it is) or a step (n = 1).  That test is transcribed here AS IT IS IN THE C TEXT, parameterised by what
   translators/c20f_iface.py finds in the current source (Gen_C20f.goto_fc1_term, gorel_fc1_term):
        t_blank : the disjunct  c_label[0][0] == ' '
        t_empty : a disjunct    c_label[0][0] == 0
        t_cmp   : CmpPrefix3 = strncmp(c_label[0],"end",3)==0 || strncmp(c_label[0],"END",3)==0
                  CmpExact   = strcmp (c_label[0],"end")==0   || strcmp (c_label[0],"END")==0
   A C string is the list of its bytes before the NUL. *)
From Coq Require Import ZArith List Bool String.
Import ListNotations.
Local Open Scope Z_scope.

Inductive cmpk := CmpPrefix3 | CmpExact | CmpUnknown.
Record termtest := { t_cmp : cmpk; t_blank : bool; t_empty : bool }.

Definition s_end : list Z := [101; 110; 100].
Definition s_END : list Z := [69; 78; 68].
Fixpoint bytes_eqb (a b : list Z) : bool :=
  match a, b with
  | [], [] => true
  | x :: ar, y :: br => (x =? y) && bytes_eqb ar br
  | _, _ => false
  end.
(* strncmp(l, p, 3) == 0 for a 3-byte p without NUL: the first three bytes of l are p (a shorter l differs at its NUL) *)
Definition prefix3 (l p : list Z) : bool := bytes_eqb (firstn 3 l) p.

(* cg_goto / cg_gorel: is this label the end of the path? *)
Definition c_is_term (l : list Z) : bool :=
  match l with [] => true | _ => bytes_eqb l s_end || bytes_eqb l s_END end.

(* cg_goto_fc1 / cg_gorel_fc1: n = 0 ? *)
Definition fc1_is_term (t : termtest) (l : list Z) : bool :=
  (t_blank t && match l with x :: _ => x =? 32 | [] => false end) ||
  (t_empty t && match l with [] => true | _ => false end) ||
  match t_cmp t with
  | CmpPrefix3 => prefix3 l s_end || prefix3 l s_END
  | CmpExact => bytes_eqb l s_end || bytes_eqb l s_END
  | CmpUnknown => false
  end.

(* the shape under which the two tests agree on EVERY string (FtocGotoProofs.term_ok_sound) *)
Definition term_ok (t : termtest) : bool :=
  match t_cmp t with CmpExact => true | _ => false end && t_empty t && negb (t_blank t).

(* the test of the code before the repair notes/C20-fixes/01-goto-fc1-terminator.diff (bbec569) *)
Definition term_old : termtest := {| t_cmp := CmpPrefix3; t_blank := true; t_empty := false |}.
Definition cmpk_eqb (a b : cmpk) : bool :=
  match a, b with CmpPrefix3, CmpPrefix3 | CmpExact, CmpExact | CmpUnknown, CmpUnknown => true | _, _ => false end.
Definition term_eqb (a b : termtest) : bool :=
  cmpk_eqb (t_cmp a) (t_cmp b) && Bool.eqb (t_blank a) (t_blank b) && Bool.eqb (t_empty a) (t_empty b).
(* shapes of the CURRENT code known to violate term_ok.  Empty since bbec569 (the repair of notes/C20-fixes/
   01-goto-fc1-terminator.diff is in /repo): if the prefix test, the leading-blank disjunct or the missing empty-string case
   comes back, C20f_goto_terminators_checked fails.  term_old stays as the refuted model of the old code. *)
Definition term_known : list termtest := [ ].
Definition terms_checked (ts : list termtest) : bool :=
  forallb (fun t => term_ok t || existsb (term_eqb t) term_known) ts.

(* witnesses: "endwall", "ENDPLATE", "" (an all-blank Fortran label after TRIM), " lead" *)
Definition w_endwall : list Z := [101; 110; 100; 119; 97; 108; 108].
Definition w_ENDPLATE : list Z := [69; 78; 68; 80; 76; 65; 84; 69].
Definition w_empty : list Z := [].
Definition w_lead : list Z := [32; 108; 101; 97; 100].

(* ------------------------------------------------------------------------------------------------------------------
   The twenty look-alike blocks of the module procedures cg_goto_f / cg_gorel_f (cgns_f.F90): statement by statement as
   translators/c20f_iface.py reads them (Gen_C20f.goto_f_stmts, gorel_f_stmts).  Block k must be guarded by PRESENT(i_k) and
   forward UserDataName_k and i_k -- a block that forwards i_5 in the sixth position is a different list. *)
Inductive gcallee := CGoto | CGorel.
Inductive gstmt :=
  | GIfPresent (k : Z)                        (* IF (PRESENT(i_k)) THEN *)
  | GIfNotPresent (k : Z)                     (* IF (.NOT. PRESENT(i_k)) THEN *)
  | GElse | GEndIf | GReturn
  | GRetIfErr                                 (* IF (ier .NE. 0) RETURN *)
  | GCall (c : gcallee) (name idx : Z)        (* ier = INT(cg_goto_fc1 / cg_gorel_fc1(INT(fn,C_INT) [, INT(B,C_INT)],
                                                 TRIM(UserDataName_name)//C_NULL_CHAR, INT(i_idx,C_INT) | 0_C_INT));  idx = 0: the literal *)
  | GOther (text : string).

Definition gcallee_eqb (a b : gcallee) : bool := match a, b with CGoto, CGoto | CGorel, CGorel => true | _, _ => false end.
Definition gstmt_eqb (a b : gstmt) : bool :=
  match a, b with
  | GIfPresent x, GIfPresent y | GIfNotPresent x, GIfNotPresent y => x =? y
  | GElse, GElse | GEndIf, GEndIf | GReturn, GReturn | GRetIfErr, GRetIfErr => true
  | GCall c n i, GCall d m j => gcallee_eqb c d && (n =? m) && (i =? j)
  | _, _ => false                              (* GOther never equals anything *)
  end.
Fixpoint gstmts_eqb (a b : list gstmt) : bool :=
  match a, b with
  | [], [] => true
  | x :: ar, y :: br => gstmt_eqb x y && gstmts_eqb ar br
  | _, _ => false
  end.

(* block k >= 2 of either procedure *)
Definition block (k : Z) : list gstmt := [GIfPresent k; GCall CGorel k k; GRetIfErr; GEndIf].
Definition blocks_from_2 : list gstmt := flat_map block (map Z.of_nat (seq 2 19)).
Definition expected_goto : list gstmt :=
  [GIfNotPresent 1; GCall CGoto 1 0; GReturn; GElse; GCall CGoto 1 1; GRetIfErr; GEndIf] ++ blocks_from_2.
Definition expected_gorel : list gstmt :=
  [GIfPresent 1; GCall CGorel 1 1; GRetIfErr; GElse; GCall CGorel 1 0; GReturn; GEndIf] ++ blocks_from_2.
Definition goto_blocks_ok (g r : list gstmt) : bool := gstmts_eqb g expected_goto && gstmts_eqb r expected_gorel.

(* what a forwarding call may look like: the k-th name with the k-th index, or the first name with the literal 0 *)
Definition call_forwards_own_pair (s : gstmt) : bool :=
  match s with GCall _ n i => (i =? n) || ((n =? 1) && (i =? 0)) | _ => true end.
