(* Properties_C05.v -- exported theorems for C05 (partial and reshaped array I/O touches exactly the addressed
   elements).  Only statements, each closed by [exact] of a lemma of HyperslabProofs.v, each followed by Print
   Assumptions.  Model: Hyperslab.v (transcription of ADFI_count_total_array_points, ADFI_increment_array, the
   element loops of ADF_Read_Data / ADF_Write_Data, ADFH's hyperslab triples, cgi_array_general_verify_range
   and its two callers).

   Guards.  [sel_ok ds]: rank 1..12, every dimension 1 <= start <= end <= dim, stride >= 1, fewer than 2^63
   elements (so that no cgulong_t expression of the code wraps).  [arrays_ok sd md]: stored rank 1..12, stored
   extents >= 1, both arrays with fewer than 2^63 elements.
   [transfers dst dst' src dpos spos]: dst' has the length of dst, dst'[dpos_k] = src[spos_k] for every k, and
   dst'[j] = dst[j] for every j that is not in dpos -- "the addressed elements and nothing else". *)
From Coq Require Import ZArith List.
From CgnsV Require Import ListX Hyperslab HyperslabProofs.
Import ListNotations.
Local Open Scope Z_scope.

(* The ADF element loop visits exactly the linear positions of the strided sub-box, first index fastest:
   for ALL ranks 1..12, dims, ranges and strides. *)
Theorem C05_adf_walk : forall ds, sel_ok ds ->
  adf_walk w64 ds = inr (map (lin (dims_of ds)) (box ds)).
Proof. exact adf_walk_ok. Qed.
Print Assumptions C05_adf_walk.

(* ADFI_count_total_array_points returns the number of points of the box. *)
Theorem C05_adf_count : forall ds, sel_ok ds ->
  exists off, count_total w64 ds = inr (Z.of_nat (length (box ds)), off).
Proof. exact adf_count_ok. Qed.
Print Assumptions C05_adf_count.

(* The addressed positions are pairwise distinct, lie inside the array, and there are prod(counts) of them. *)
Theorem C05_positions_distinct : forall ds, valid ds -> NoDup (spec_positions ds).
Proof. exact spec_positions_NoDup. Qed.
Print Assumptions C05_positions_distinct.

Theorem C05_positions_in_array : forall ds, valid ds ->
  Forall (fun p => 0 <= p < prodZ (dims_of ds)) (spec_positions ds).
Proof. exact spec_positions_range. Qed.
Print Assumptions C05_positions_in_array.

(* lin is the Fortran-order offset: injective on index vectors inside the array. *)
Theorem C05_lin_injective : forall dims i1 i2, in_dims dims i1 -> in_dims dims i2 ->
  linH dims i1 = linH dims i2 -> i1 = i2.
Proof. exact linH_inj. Qed.
Print Assumptions C05_lin_injective.

(* PAIRING + FRAME, write (cgio_write_data), ADF and the current ADFH, ALL strides >= 1: for any two ranks /
   shapes / strides with equal point counts the k-th addressed file element receives the k-th addressed memory
   element and every other file element is unchanged.  [current b] = b <> ADFH_OLD. *)
Theorem C05_frame_pairing_write : forall b file mem sds mds,
  current b -> sel_ok sds -> sel_ok mds ->
  lenZ file = prodZ (dims_of sds) -> prodZ (counts sds) = prodZ (counts mds) ->
  exists file', xfer_write b file mem sds mds = inr file' /\
                transfers file file' mem (spec_positions sds) (spec_positions mds).
Proof. exact lo_write_cur. Qed.
Print Assumptions C05_frame_pairing_write.

(* PAIRING + FRAME, read (cgio_read_data_type): memory outside the memory selection is unchanged. *)
Theorem C05_frame_pairing_read : forall b file mem sds mds,
  current b -> sel_ok sds -> sel_ok mds ->
  lenZ mem = prodZ (dims_of mds) -> prodZ (counts sds) = prodZ (counts mds) ->
  exists mem', xfer_read b file mem sds mds = inr mem' /\
               transfers mem mem' file (spec_positions mds) (spec_positions sds).
Proof. exact lo_read_cur. Qed.
Print Assumptions C05_frame_pairing_read.

(* Low-level rejection (ADF): a rank outside 1..12 or a range that leaves the array (either side), or unequal
   point counts, is an error; an error transfers nothing (either back end). *)
Theorem C05_lo_invalid_rejected : forall sds mds,
  ~ (rank_ok sds /\ valid sds) \/ ~ (rank_ok mds /\ valid (map mem_dsel mds)) ->
  exists e, lo_pairs ADF sds mds = inl e.
Proof. exact lo_invalid_adf. Qed.
Print Assumptions C05_lo_invalid_rejected.

Theorem C05_lo_unequal_rejected : forall b sds mds,
  current b -> sel_ok sds -> sel_ok mds ->
  prodZ (counts sds) <> prodZ (counts mds) -> lo_pairs b sds mds = inl UnequalDims.
Proof. exact lo_unequal_cur. Qed.
Print Assumptions C05_lo_unequal_rejected.

(* ADFH (either variant) rejects every selection that is not inside the array *)
Theorem C05_adfh_invalid_rejected : forall v u ds, Forall (fun d => 0 <= d_end d < W64) ds -> ~ valid ds ->
  exists e, adfh_check v u ds = Some e.
Proof. exact adfh_check_invalid. Qed.
Print Assumptions C05_lo_unequal_rejected.

Theorem C05_lo_rejected_transfers_nothing : forall b file mem sds mds e,
  lo_pairs b sds mds = inl e ->
  after file (xfer_write b file mem sds mds) = file /\ after mem (xfer_read b file mem sds mds) = mem.
Proof. exact lo_reject_nothing. Qed.
Print Assumptions C05_lo_rejected_transfers_nothing.

(* cgi_array_general_verify_range is SOUND and COMPLETE for the explicit spec [vr_spec] (start <= end, range
   inside [1, dim] for CG_CONFIG_RIND_ZERO / no rind or inside [1 - rind_lo, dim - rind_lo] for
   CG_CONFIG_RIND_CORE, memory range inside the memory array, equal point counts; reads additionally accept
   any range whose extents all equal the stored extents), and its outputs are the specified ones: storage range
   = user range + rind_lo (CORE) / unchanged (ZERO) / the whole array (read shortcut). *)
Theorem C05_verify_range_sound : forall op old sd md o,
  verify_range op old sd md = Some o -> vr_spec op old sd md /\ o = vr_expected op old sd md.
Proof. exact verify_range_sound. Qed.
Print Assumptions C05_verify_range_sound.

Theorem C05_verify_range_complete : forall op old sd md,
  vr_spec op old sd md -> verify_range op old sd md = Some (vr_expected op old sd md).
Proof. exact verify_range_complete. Qed.
Print Assumptions C05_verify_range_complete.

(* End to end at the mid level (cgi_array_general_write / _read over any back end variant, equal data types): an accepted
   request changes exactly the elements of the shifted box -- through the partial path or through the
   full-array shortcut alike -- pairing them in Fortran order with the memory box. *)
Theorem C05_mid_write : forall b old sd md file mem,
  arrays_ok sd md -> vr_spec OpWrite old sd md ->
  lenZ file = prodZ (map v_dim sd) -> prodZ (map m_dim md) <= lenZ mem ->
  exists file', mid_write b old sd md file mem = MidOk file' /\
    transfers file file' mem (spec_positions (storage_sel OpWrite old sd)) (spec_positions (m_sel md)).
Proof. exact mid_write_any. Qed.
Print Assumptions C05_mid_write.

Theorem C05_mid_read : forall b old sd md file mem,
  arrays_ok sd md -> vr_spec OpRead old sd md ->
  lenZ file = prodZ (map v_dim sd) -> lenZ mem = prodZ (map m_dim md) ->
  exists mem', mid_read b old sd md file mem = MidOk mem' /\
    transfers mem mem' file (spec_positions (m_sel md)) (spec_positions (storage_sel OpRead old sd)).
Proof. exact mid_read_any. Qed.
Print Assumptions C05_mid_read.

(* Rejected requests (outside the spec) never reach cgio: nothing is transferred, on either back end. *)
Theorem C05_mid_rejected_transfers_nothing : forall b old sd md file mem,
  (~ vr_spec OpWrite old sd md -> mid_write b old sd md file mem = MidRejected) /\
  (~ vr_spec OpRead old sd md -> mid_read b old sd md file mem = MidRejected).
Proof. exact mid_reject. Qed.
Print Assumptions C05_mid_rejected_transfers_nothing.

(* The whole array is the positions 0 .. N-1 in order (justifies the read_all / write_all shortcut). *)
Theorem C05_full_box_is_whole_array : forall ds, valid ds -> Forall dfull ds ->
  spec_positions ds = iota 0 (Z.to_nat (prodZ (dims_of ds))).
Proof. exact spec_positions_full. Qed.
Print Assumptions C05_full_box_is_whole_array.

(* The CURRENT ADFH code (commit 358f914: count = (end - start) / stride + 1, only stride < 1 rejected) asks HDF5
   for exactly the positions ADF visits, for ALL strides >= 1, once the dimension reversal is undone. *)
Theorem C05_adfh_agrees : forall u ds, sel_ok ds -> adfh_walk AdfhCur u ds = inr (spec_positions ds).
Proof. exact adfh_cur_walk_ok. Qed.
Print Assumptions C05_adfh_agrees.

(* The code before 358f914 agreed only when every stride divides its extent ... *)
Theorem C05_adfh_old_agrees_if_divisible : forall u ds, sel_ok ds ->
  Forall (fun d => (d_end d - d_start d + 1) mod d_stride d = 0) ds ->
  adfh_walk AdfhOld u ds = inr (spec_positions ds).
Proof. exact adfh_old_walk_ok. Qed.
Print Assumptions C05_adfh_old_agrees_if_divisible.

(* ... and DISAGREED otherwise (HISTORICAL witness, on the OLD variant; repaired by 358f914): 1:5:2 (3 elements
   on ADF, floor(5/2) = 2 selected, hence error 49 when read into 3 elements), 2:3:4 (one element on ADF,
   BAD_STRIDE_VALUE), and the write 2:4:2 from 1:4:3 (2 elements on ADF, 1 on old ADFH).  The current variant
   gives ADF's answers on all three. *)
Theorem C05_adfh_stride_refuted :
  sel_ok wit_s /\ sel_ok wit_m /\
  adf_walk w64 wit_s = inr [0; 2; 4] /\ adfh_walk AdfhOld true wit_s = inr [0; 2] /\
  xfer_read ADF [10; 20; 30; 40; 50] [0; 0; 0] wit_s wit_m = inr [10; 30; 50] /\
  xfer_read ADFH_OLD [10; 20; 30; 40; 50] [0; 0; 0] wit_s wit_m = inl UnequalDims /\
  xfer_read ADFH [10; 20; 30; 40; 50] [0; 0; 0] wit_s wit_m = inr [10; 30; 50] /\
  sel_ok wit_s2 /\ sel_ok wit_m2 /\
  xfer_read ADF [10; 20; 30; 40; 50] [0] wit_s2 wit_m2 = inr [20] /\
  xfer_read ADFH_OLD [10; 20; 30; 40; 50] [0] wit_s2 wit_m2 = inl BadStride /\
  xfer_read ADFH [10; 20; 30; 40; 50] [0] wit_s2 wit_m2 = inr [20] /\
  xfer_write ADF [10; 20; 30; 40; 50] [1; 2; 3; 4] [mkD 5 2 4 2] [mkD 4 1 4 3] = inr [10; 1; 30; 4; 50] /\
  xfer_write ADFH_OLD [10; 20; 30; 40; 50] [1; 2; 3; 4] [mkD 5 2 4 2] [mkD 4 1 4 3] = inr [10; 1; 30; 40; 50] /\
  xfer_write ADFH [10; 20; 30; 40; 50] [1; 2; 3; 4] [mkD 5 2 4 2] [mkD 4 1 4 3] = inr [10; 1; 30; 4; 50].
Proof. exact adfh_stride_refuted. Qed.
Print Assumptions C05_adfh_stride_refuted.

(* The strict reading "a read whose range leaves the array is rejected" is false of the faithful model: the
   undocumented full-span read shortcut accepts 101..103 on a 3-element array (the same write is rejected). *)
Theorem C05_read_outside_range_refuted :
  let sd := [mkV 3 101 103 0] in let md := [mkM 3 1 3] in
  ~ Forall (s_in_limits true) sd /\
  mid_read ADF true sd md [7; 8; 9] [0; 0; 0] = MidOk [7; 8; 9] /\
  mid_write ADF true sd md [7; 8; 9] [1; 2; 3] = MidRejected.
Proof. exact read_shortcut_accepts_outside. Qed.
Print Assumptions C05_read_outside_range_refuted.

(* non-vacuity of the guards *)
Example C05_ex_sel_ok : sel_ok ex_s /\ sel_ok ex_m /\ prodZ (counts ex_s) = prodZ (counts ex_m).
Proof. exact ex_sel_ok. Qed.
Example C05_ex_vr_spec :
  vr_spec OpWrite false [mkV 6 0 3 1; mkV 5 (-1) 2 2] [mkM 9 2 9; mkM 2 1 2] /\
  arrays_ok [mkV 6 0 3 1; mkV 5 (-1) 2 2] [mkM 9 2 9; mkM 2 1 2].
Proof. exact ex_vr_spec. Qed.
