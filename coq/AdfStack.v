(* AdfStack.v -- executable model of the ADF core's priority stack, the 50-entry cache of file headers, node
   headers, the free-chunk table and sub-node table entries (property C02, extension C02b).  Definitions only.

   Transcribed from src/adf/ADF_internals.c (line numbers of /repo def473d):
     PRISTK[MAX_STACK] and its enums (331-343), last_link_ID (277),
     ADFI_stack_control (7225-7374): INIT_STK, CLEAR_STK, CLEAR_STK_TYPE, DEL_STK_ENTRY, GET_STK, SET_STK.
   (last_link_ID is also reset at the end of ADFI_write_sub_node_table_entry since 9d19299 and set by ADFI_chase_link;
    neither is a stack call: the model carries the variable only for the reset inside the clear modes.)
   An entry is (file_index, file_block, block_offset, stack_type, priority_level, stack_data); an unused entry is
   (-1, 0, 0, -1, -1, -).  Priorities are Z (the C int would wrap after 2^31 SET calls on one untouched entry).
   malloc never fails here.  Whether the slot [file_index] is in use is an input of each step.

   Also here: the caller discipline under which a GET hit is never stale ([disciplined]), stated over traces that
   interleave the stack calls with the bytes ADFI_write_file stores (the ideal store of AdfCache.v). *)
From Coq Require Import ZArith List Bool Lia FMapPositive.
From CgnsV Require Import AdfCache.
Import ListNotations.
Local Open Scope Z_scope.

Definition MAX_STACK : nat := 50.
Definition PRISTK_NOT_FOUND : Z := 59.

Record entry := mkE { e_file : Z; e_block : Z; e_off : Z; e_type : Z; e_prio : Z; e_data : list Z }.
Definition empty_entry : entry := mkE (-1) 0 0 (-1) (-1) [].
Definition set_prio (e : entry) (p : Z) : entry := mkE (e_file e) (e_block e) (e_off e) (e_type e) p (e_data e).
Definition addr_match (e : entry) (f b o : Z) : bool := (e_file e =? f) && (e_block e =? b) && (e_off e =? o).

Record sst := mkS { stk : list entry; last_link : Z }.      (* last_link: last_link_ID, 0 = no cached link *)
Definition init_sst : sst := mkS (repeat empty_entry MAX_STACK) 0.

Inductive sop :=
| SInit
| SClear (f : Z)
| SClearType (f ty : Z)
| SDel (f b o : Z)
| SGet (f b o ty len : Z)
| SSet (f b o ty : Z) (data : list Z)
| SLink (id : Z).                 (* ADFI_chase_link remembering a resolved link: last_link_ID = id *)

Inductive sres := SOk | SFound (d : list Z) | SNotFound | SErr (e : Z).

(* ---- INIT_STK / CLEAR_STK / CLEAR_STK_TYPE: one pass over the 50 entries *)
Inductive cmode := MInit | MClear | MClearType.
Definition clear_entry (mode : cmode) (f ty : Z) (e : entry) : entry :=
  match mode with
  | MInit => empty_entry                       (* priority_level = -1 first, so nothing is freed; then cleared *)
  | MClear => if negb (f =? e_file e) && negb (f =? 0) then e else empty_entry
  | MClearType =>
      if negb (f =? e_file e) && negb (f =? 0) then e         (* "if file_index is 0 then clear all the entries!!" *)
      else if negb (ty =? e_type e) then e else empty_entry
  end.

(* ---- GET_STK: first entry at the address; a wrong type deletes the entry and the scan goes on *)
Fixpoint get_loop (l : list entry) (f b o ty len : Z) : option (list Z) * list entry :=
  match l with
  | [] => (None, [])
  | e :: r =>
      if addr_match e f b o then
        if e_type e =? ty then (Some (firstn (Z.to_nat len) (e_data e)), set_prio e 1 :: r)
        else let '(res, r') := get_loop r f b o ty len in (res, empty_entry :: r')
      else let '(res, r') := get_loop r f b o ty len in (res, e :: r')
  end.

(* ---- DEL_STK_ENTRY: the first entry at the address *)
Fixpoint del_loop (l : list entry) (f b o : Z) : list entry :=
  match l with
  | [] => []
  | e :: r => if addr_match e f b o then empty_entry :: r else e :: del_loop r f b o
  end.

(* ---- SET_STK *)
(* memcpy(PRISTK[i].stack_data, stack_data, data_length) into the EXISTING allocation *)
Definition overlay (data old : list Z) : list Z := data ++ skipn (length data) old.
(* what the loop does to one entry (independent of the search state) *)
Definition set_entry (f b o : Z) (data : list Z) (e : entry) : entry :=
  if addr_match e f b o then mkE (e_file e) (e_block e) (e_off e) (e_type e) 1 (overlay data (e_data e))
  else if e_type e >=? 0 then set_prio e (e_prio e + 1)
  else e.
(* the search state: found = 0 'f' | 1 'e' | 2 't'; low_priority; insert_index *)
Record sacc := mkA { a_found : Z; a_low : Z; a_ins : nat }.
Definition acc_entry (f b o : Z) (i : nat) (a : sacc) (e : entry) : sacc :=
  if addr_match e f b o then mkA 2 (a_low a) (a_ins a)
  else if e_type e >=? 0 then (if e_prio e >? a_low a then mkA (a_found a) (e_prio e) i else a)
  else if a_found a =? 0 then mkA 1 (Z.of_nat (MAX_STACK * MAX_STACK)) i
  else a.
Fixpoint acc_fold (f b o : Z) (l : list entry) (i : nat) (a : sacc) : sacc :=
  match l with [] => a | e :: r => acc_fold f b o r (S i) (acc_entry f b o i a e) end.

Fixpoint upd_nth {A} (l : list A) (n : nat) (v : A) : list A :=
  match l, n with
  | [], _ => []
  | _ :: t, O => v :: t
  | h :: t, S n' => h :: upd_nth t n' v
  end.

Definition key := (Z * Z * Z)%type.
Definition entry_key (e : entry) : key := (e_file e, e_block e, e_off e).

(* result, new table, the key that lost its slot (eviction) *)
Definition set_stk (l : list entry) (f b o ty : Z) (data : list Z) : list entry * option key :=
  let l1 := map (set_entry f b o data) l in
  let a := acc_fold f b o l 0%nat (mkA 0 (-1) 0%nat) in
  if a_found a =? 2 then (l1, None)
  else
    let old := nth (a_ins a) l1 empty_entry in
    (upd_nth l1 (a_ins a) (mkE f b o ty 1 data), if e_type old >=? 0 then Some (entry_key old) else None).

(* [inuse]: (int)file_index < maximum_files && ADF_file[file_index].in_use != 0 *)
Definition sstep (inuse : bool) (s : sst) (p : sop) : sres * sst * option key :=
  let closed (f : Z) := (f <? 0) || negb inuse in
  match p with
  | SInit => (SOk, mkS (map (clear_entry MInit 0 0) (stk s)) 0, None)
  | SClear f => if closed f then (SErr ADF_FILE_NOT_OPENED, s, None)
                else (SOk, mkS (map (clear_entry MClear f 0) (stk s)) 0, None)
  | SClearType f ty => if closed f then (SErr ADF_FILE_NOT_OPENED, s, None)
                       else (SOk, mkS (map (clear_entry MClearType f ty) (stk s)) 0, None)
  | SDel f b o => if closed f then (SErr ADF_FILE_NOT_OPENED, s, None)
                  else (SOk, mkS (del_loop (stk s) f b o) (last_link s), None)
  | SGet f b o ty len =>
      if closed f then (SErr ADF_FILE_NOT_OPENED, s, None)
      else let '(r, l') := get_loop (stk s) f b o ty len in
           (match r with Some d => SFound d | None => SNotFound end, mkS l' (last_link s), None)
  | SSet f b o ty data =>
      if closed f then (SErr ADF_FILE_NOT_OPENED, s, None)
      else let '(l', ev) := set_stk (stk s) f b o ty data in (SOk, mkS l' (last_link s), ev)
  | SLink id => (SOk, mkS (stk s) id, None)
  end.

(* well-formed calls: the stack types are the enum constants 1..5, blocks and offsets are unsigned *)
Definition valid_sop (p : sop) : bool :=
  match p with
  | SSet f b o ty data => (0 <=? ty)
  | _ => true
  end.

Definition live_count (l : list entry) : nat := length (filter (fun e => e_type e >=? 0) l).

(* ------------------------------------------------------------------ the abstract cache (specification) *)
Definition amap := Z -> Z -> Z -> option (Z * list Z).          (* address -> (type, data) *)
Definition amap0 : amap := fun _ _ _ => None.
Definition aupd (m : amap) (k : key) (v : option (Z * list Z)) : amap :=
  fun f b o => let '(kf, kb, ko) := k in if (f =? kf) && (b =? kb) && (o =? ko) then v else m f b o.

Definition abs (l : list entry) : amap :=
  fun f b o => match find (fun e => addr_match e f b o) l with
               | Some e => Some (e_type e, e_data e)
               | None => None
               end.

(* one call on the abstract cache; [ev] = the key the implementation chose to evict (None: nobody) *)
Definition ideal_sstep (inuse : bool) (m : amap) (p : sop) (ev : option key) : amap :=
  let closed (f : Z) := (f <? 0) || negb inuse in
  match p with
  | SInit => amap0
  | SClear f => if closed f then m else fun f' b o => if negb (f =? f') && negb (f =? 0) then m f' b o else None
  | SClearType f ty =>
      if closed f then m
      else fun f' b o => match m f' b o with
                         | Some (t, d) => if negb (f =? f') && negb (f =? 0) then Some (t, d)
                                          else if negb (ty =? t) then Some (t, d) else None
                         | None => None
                         end
  | SDel f b o => if closed f then m else aupd m (f, b, o) None
  | SGet f b o ty len =>
      if closed f then m
      else match m f b o with
           | Some (t, _) => if t =? ty then m else aupd m (f, b, o) None
           | None => m
           end
  | SSet f b o ty data =>
      if closed f then m
      else
        let m1 := match ev with Some k => aupd m k None | None => m end in
        aupd m1 (f, b, o) (Some (match m f b o with
                                 | Some (t, old) => (t, overlay data old)       (* the type is NOT updated *)
                                 | None => (ty, data)
                                 end))
  | SLink _ => m
  end.

Definition ideal_result (inuse : bool) (m : amap) (p : sop) : sres :=
  let closed (f : Z) := (f <? 0) || negb inuse in
  match p with
  | SInit | SLink _ => SOk
  | SClear f | SClearType f _ | SDel f _ _ | SSet f _ _ _ _ => if closed f then SErr ADF_FILE_NOT_OPENED else SOk
  | SGet f b o ty len =>
      if closed f then SErr ADF_FILE_NOT_OPENED
      else match m f b o with
           | Some (t, d) => if t =? ty then SFound (firstn (Z.to_nat len) d) else SNotFound
           | None => SNotFound
           end
  end.

(* a history: each call with the in_use flag of its file slot *)
Definition scall := (bool * sop)%type.
Fixpoint srun (s : sst) (h : list scall) : sst :=
  match h with [] => s | (u, p) :: r => srun (snd (fst (sstep u s p))) r end.
(* the abstract cache after a history, fed with the evictions the implementation made *)
Fixpoint ideal_srun (s : sst) (m : amap) (h : list scall) : amap :=
  match h with
  | [] => m
  | (u, p) :: r => let '(_, s', ev) := sstep u s p in ideal_srun s' (ideal_sstep u m p ev) r
  end.

(* ------------------------------------------------------------------ never stale: the caller discipline *)
(* events of a trace: a file slot taken, bytes reaching the ideal store of a file, stack calls *)
Inductive tev :=
| TOpen (f : Z) (d : disk)
| TWrite (f p : Z) (data : list Z)        (* ADFI_write_file stored [data] at byte address p of file f *)
| TStack (inuse : bool) (p : sop).

Definition bstore := PositiveMap.t bmap.                   (* file -> offset -> byte (absent = 0, as in a disk) *)
Definition bs_get (st : bstore) (f p : Z) (n : nat) : list Z :=
  match PositiveMap.find (AdfCache.key f) st with Some m => mget m p n | None => repeat 0 n end.
Definition bs_put (st : bstore) (f p : Z) (data : list Z) : bstore :=
  match PositiveMap.find (AdfCache.key f) st with
  | Some m => PositiveMap.add (AdfCache.key f) (mput m p data) st
  | None => PositiveMap.add (AdfCache.key f) (mput (PositiveMap.empty Z) p data) st
  end.

(* t_taint: addresses whose bytes in the store were overwritten since the entry there was last SET *)
Record tst := mkT { t_stk : sst; t_store : bstore; t_taint : list key }.
Definition init_tst : tst := mkT init_sst (PositiveMap.empty bmap) [].

Definition key_eqb (a b : key) : bool :=
  let '(a1, a2, a3) := a in let '(b1, b2, b3) := b in (a1 =? b1) && (a2 =? b2) && (a3 =? b3).
Definition untaint (t : list key) (k : key) : list key := filter (fun x => negb (key_eqb x k)) t.
Definition tainted (t : list key) (k : key) : bool := existsb (key_eqb k) t.

(* the live entries of file f whose cached bytes [address, address + length) meet [p, p + n) *)
Definition touches (f p n : Z) (e : entry) : bool :=
  (e_type e >=? 0) && (e_file e =? f) &&
  (e_block e * BLK + e_off e <? p + n) && (p <? e_block e * BLK + e_off e + lenZ (e_data e)).
Definition hit_keys (l : list entry) (f p n : Z) : list key := map entry_key (filter (touches f p n) l).

Definition bytes_eqb (a b : list Z) : bool := if list_eq_dec Z.eq_dec a b then true else false.
Definition cached_len (l : list entry) (f b o : Z) : option nat :=
  match find (fun e => addr_match e f b o) l with Some e => Some (length (e_data e)) | None => None end.

(* one event: the new state, and whether the callers kept the discipline at this event:
   - SET (on a slot in use) passes exactly the bytes the ideal store holds at that address, of the length
     already cached there;
   - GET asks for the cached length and never HITS an address whose bytes were overwritten since the entry was
     set (every write path must SET or DEL the entry it overwrites on disk before anybody looks it up again);
   - a file slot is taken only when no entry of that slot is left (ADFI_close_file ends with CLEAR_STK). *)
Definition tstep (t : tst) (e : tev) : tst * bool :=
  match e with
  | TOpen f d =>
      (mkT (t_stk t) (PositiveMap.add (AdfCache.key f) (dbytes d) (t_store t)) (t_taint t),
       (0 <=? f) && forallb (fun x => negb (e_file x =? f)) (stk (t_stk t)))
  | TWrite f p data =>
      (mkT (t_stk t) (bs_put (t_store t) f p data) (hit_keys (stk (t_stk t)) f p (lenZ data) ++ t_taint t),
       (0 <=? f) && (0 <=? p))
  | TStack u q =>
      let '(r, s', ev) := sstep u (t_stk t) q in
      match q with
      | SSet f b o ty data =>
          (mkT s' (t_store t) (untaint (t_taint t) (f, b, o)),
           u && valid_sop q && (0 <=? f) && (0 <=? b) && (0 <=? o) &&
           bytes_eqb data (bs_get (t_store t) f (b * BLK + o) (length data)) &&
           match cached_len (stk (t_stk t)) f b o with Some n => (n =? length data)%nat | None => true end)
      | SGet f b o ty len =>
          (mkT s' (t_store t) (t_taint t),
           match r with
           | SFound _ => negb (tainted (t_taint t) (f, b, o)) &&
                         match cached_len (stk (t_stk t)) f b o with Some n => Z.of_nat n =? len | None => true end
           | _ => true
           end)
      | _ => (mkT s' (t_store t) (t_taint t), true)
      end
  end.

Fixpoint trun (t : tst) (h : list tev) : tst :=
  match h with [] => t | e :: r => trun (fst (tstep t e)) r end.
Fixpoint disciplined (t : tst) (h : list tev) : bool :=
  match h with [] => true | e :: r => snd (tstep t e) && disciplined (fst (tstep t e)) r end.
