(* Extract_c04.v -- extraction of the C04 model (Mirror + the regenerated tables) to OCaml.  ExtrOcamlBasic only;
   Z, positive, nat, ascii, string stay extracted inductives.  No Extract Constant / Extract Inductive of our own. *)
From Coq Require Import Extraction ExtrOcamlBasic.
From CgnsV Require Import Goto Gen_C11 Mirror Gen_C04.
Extraction Language OCaml.
Set Extraction KeepSingleton.
Extraction "extracted/c04/model.ml" Mirror.empty_parent Mirror.link_at Mirror.zconn_arm_keeps_current Mirror.data_sizes_ok Gen_C04.data_size_rows Mirror.link_new Mirror.write_inplace_stale Gen_C04.general_write_mentions_cache Mirror.goto_children Mirror.link_writer_ok Mirror.bad_link_parents Mirror.copy_keeps_links Gen_C04.link_parents Gen_C04.link_calls Gen_C04.link_assigns Gen_C04.copy_link_guard Gen_C04.copy_else_recurses Gen_C04.copy_callers Mirror.write Mirror.write_inplace Mirror.delete Mirror.reopen Mirror.view_session
  Mirror.view_file Mirror.disp_of Mirror.disp_lab Mirror.sound_kinds Mirror.unsound_kinds Mirror.reserved_names
  Mirror.shadowed Mirror.positions_without_block Mirror.parents_without_block Mirror.positions_with_children Mirror.all_positions
  Mirror.candidate_kinds Mirror.delete_table_ok Mirror.write_table_ok Mirror.addr_tails_ok Mirror.bad_dblocks
  Mirror.bad_wrows Mirror.bad_nrows Mirror.bad_rrows Mirror.bad_singles Mirror.user_named_singles Mirror.shadowed_singles Mirror.unjustified_names Gen_C04.child_names Gen_C04.reader_name_tests Gen_C04.reinit_rows Mirror.cgns_sorted Mirror.sorting_ok Gen_C04.sort_calls Gen_C04.sort_comparator Gen_C04.sort_names_callers Gen_C04.ctx_writers Gen_C04.delete_table Gen_C04.not_deletable Gen_C04.free_sigs Gen_C04.preamble Gen_C04.dispatch_tail
  Gen_C04.macro_shift Gen_C04.macro_child Gen_C04.write_table Gen_C04.addr_tails Gen_C11.goto_table Gen_C11.structs.
