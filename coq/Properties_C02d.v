(* Properties_C02d.v -- exported theorems about the ADF on-disk free-space manager (AdfAlloc.v: ADFI_file_malloc as
   compiled = growth at end_of_file + block rule; ADFI_file_free = class decision, push at the head of a list or 'z'
   fill; nothing is ever taken off a free list -- the search in ADFI_file_malloc is inside "#if 0").  They complement
   Properties_C02.v (ideal tree), Properties_C02b.v (buffers, stack, sub-node tables), Properties_C02c.v (data chunks).
   Only statements closed by [exact]; Print Assumptions under each; Examples for non-vacuity.

   Vocabulary (AdfAllocProofs.v): a region is (start, bytes); [regions s] = live allocations ++ entries of the three
   free lists ++ abandoned 'z' ranges ++ tails lost behind short frees; [rdisj a b] = the two regions share no byte;
   [pairwise l] = the regions of l are pairwise [rdisj]; [in_file e r] = r is non-empty and lies in [HDR, e + 1).
   [ok_hist s h]: every malloc asks for > 0 bytes and every free hands back a live allocation FROM ITS FIRST BYTE, at most
   as many bytes as were allocated; [exact_hist]: exactly as many.  Both are boolean monitors that the correspondence
   run evaluates at every real call. *)
From Coq Require Import ZArith List Bool Permutation.
From CgnsV Require Import AdfAlloc AdfAllocProofs.
Import ListNotations.
Local Open Scope Z_scope.

(* (a) NO OVERLAP, for every history: everything the allocator knows of -- live allocations, free-list entries, dead
   and lost ranges -- is pairwise disjoint and lies between the fixed part of the file and end_of_file; in
   particular live allocations are pairwise disjoint and disjoint from every free-list entry. *)
Theorem C02_alloc_no_overlap : forall h, ok_hist init_st h = true ->
  let s := run init_st h in
  pairwise (regions s) /\
  Forall (in_file (eof s)) (regions s) /\
  pairwise (live s) /\
  (forall a b, In a (live s) -> In b (free_regions s ++ dead s ++ lost s) -> rdisj a b) /\
  (forall a, In a (live s) -> HDR <= fst a /\ fst a + snd a <= eof s + 1).
Proof. exact alloc_no_overlap. Qed.
Print Assumptions C02_alloc_no_overlap.

(* the invariant behind (a)-(c) is kept from ANY state that has it (e.g. a file written in an earlier session) *)
Theorem C02_alloc_invariant_preserved : forall s h, Inv s -> ok_hist s h = true -> Inv (run s h).
Proof. exact alloc_invariant_preserved. Qed.
Print Assumptions C02_alloc_invariant_preserved.

(* (b) FREE LISTS WELL FORMED, for every history.  small: the end TAG starts in the block the chunk starts in and
   246 < bytes <= 1024; medium: same block, 1024 < bytes <= 4099 (not 4096: see the _refuted below); large: the end tag
   starts in a later block, bytes > 246; every last_block pointer is the start of the last entry in link order (blank
   iff the list is empty); entries are pairwise disjoint and inside the file. *)
Theorem C02_alloc_free_lists_well_formed : forall h, ok_hist init_st h = true ->
  let s := run init_st h in
  fl_wf small_ok (small s) /\ fl_wf medium_ok (medium s) /\ fl_wf large_ok (large s) /\
  pairwise (free_regions s) /\
  Forall (in_file (eof s)) (free_regions s).
Proof. exact alloc_free_lists_well_formed. Qed.
Print Assumptions C02_alloc_free_lists_well_formed.

(* (d) MALLOC IS TOTAL on every state with the invariant (any size > 0): the chunk has the bytes asked for, lies
   entirely beyond the old end_of_file (so it is disjoint from everything allocated, freed or abandoned before: freed
   space is never handed out again), end_of_file becomes its last byte, and the BLOCK RULE holds: a chunk of at most
   4096 bytes never straddles a block boundary; it starts right behind the old end of file unless that would make it
   straddle, in which case it starts the next block. *)
Theorem C02_alloc_malloc_total : forall s n, Inv s -> 0 < n ->
  let s' := fst (malloc s n) in let p := snd (malloc s n) in
  Inv s' /\ In (p, n) (live s') /\ eof s < p /\ eof s' = p + n - 1 /\
  Forall (rdisj (p, n)) (regions s) /\
  (n <= BLK -> blk p = blk (p + n - 1)) /\
  (p = eof s + 1 \/ off (eof s) <> BLK - 1 /\ p = (blk (eof s) + 1) * BLK /\ n <= BLK /\ BLK <= off (eof s) + n).
Proof. exact alloc_malloc_total. Qed.
Print Assumptions C02_alloc_malloc_total.

(* (c) CONSERVATION, for every history: live + free-list + dead + lost bytes = end_of_file + 1 - 512 ... *)
Theorem C02_alloc_conservation : forall h, ok_hist init_st h = true ->
  let s := run init_st h in
  total (live s) + total (free_regions s) + total (dead s) + total (lost s) = eof s + 1 - HDR.
Proof. exact alloc_conservation. Qed.
Print Assumptions C02_alloc_conservation.

(* ... and when every free is exact nothing is lost (live + free-list + dead = end_of_file + 1 - 512) and the large
   list holds only chunks of more than a block. *)
Theorem C02_alloc_exact_histories : forall h, exact_hist init_st h = true ->
  let s := run init_st h in
  lost s = [] /\
  total (live s) + total (free_regions s) + total (dead s) = eof s + 1 - HDR /\
  Forall large_strong (fl_chunks (large s)).
Proof. exact alloc_exact_histories. Qed.
Print Assumptions C02_alloc_exact_histories.

(* FREE SPACE IS EXACTLY ACCOUNTED (push-only lists), for every history and every start state, no hypothesis: the
   entries of the three lists together with the 'z' ranges are, as a multiset, exactly the ranges handed to
   ADFI_file_free -- by callers and by ADFI_file_malloc itself (rest of a block) -- plus what was there before ... *)
Theorem C02_alloc_free_space_accounted : forall h s,
  Permutation (free_space (run s h)) (rev (handed_back s h) ++ free_space s).
Proof. exact alloc_free_space_accounted. Qed.
Print Assumptions C02_alloc_free_space_accounted.

(* ... no list ever loses or reorders an entry (new entries go to the head), dead space only grows, end_of_file never
   shrinks ... *)
Theorem C02_alloc_lists_only_grow : forall h s, ok_hist s h = true -> grows s (run s h).
Proof. exact alloc_lists_only_grow. Qed.
Print Assumptions C02_alloc_lists_only_grow.

(* ... and every range a caller hands back is the beginning of a live allocation. *)
Theorem C02_alloc_freed_ranges_were_live : forall s p n, ok_step s (OFree p n) = true ->
  exists m, In (p, m) (live s) /\ 0 < n <= m.
Proof. exact ok_free_is_live_prefix. Qed.
Print Assumptions C02_alloc_freed_ranges_were_live.

(* ---- what is NOT true of the code, by kernel-checked witness (each replayed on the library by checks/C02d.py) ---- *)

(* "medium entries are at most MEDIUM_CHUNK_MAXIMUM = 4096 bytes and inside one block": a 4098-byte chunk that starts on
   a block boundary is filed as medium; its end tag straddles into the next block. *)
Theorem C02_alloc_medium_class_bound_refuted :
  exact_hist init_st wit_medium = true /\
  fl_chunks (medium (run init_st wit_medium)) = [(4096, 8190)] /\
  csize (4096, 8190) = 4098 /\ MEDIUM_CHUNK_MAXIMUM < csize (4096, 8190) /\
  blk 4096 <> blk (4096 + 4098 - 1).
Proof. exact medium_class_bound_refuted. Qed.
Print Assumptions C02_alloc_medium_class_bound_refuted.

(* "live + free + dead = end_of_file - header" without the exactness of frees: a chunk handed back shorter than it was
   allocated (what ADF_Write_All_Data + ADFI_file_free do to a node's single data chunk) loses its tail for good. *)
Theorem C02_alloc_conservation_needs_exact_frees_refuted :
  ok_hist init_st wit_short = true /\ exact_hist init_st wit_short = false /\
  let s := run init_st wit_short in
  lost s = [(3290, 119)] /\
  total (live s) + total (free_regions s) + total (dead s) = eof s + 1 - HDR - 119.
Proof. exact conservation_needs_lost_refuted. Qed.
Print Assumptions C02_alloc_conservation_needs_exact_frees_refuted.

(* "large entries are larger than a block" without the exactness of frees *)
Theorem C02_alloc_large_class_bound_refuted :
  ok_hist init_st wit_large = true /\
  fl_chunks (large (run init_st wit_large)) = [(3000, 5016)] /\ csize (3000, 5016) = 2020.
Proof. exact large_class_bound_refuted. Qed.
Print Assumptions C02_alloc_large_class_bound_refuted.

(* freed space is never reused, on a history where a fitting free chunk exists *)
Theorem C02_alloc_freed_space_is_not_reused :
  exact_hist init_st wit_noreuse = true /\
  positions init_st wit_noreuse = [512; 758; 4096; 8192] /\
  free_regions (run init_st wit_noreuse) = [(7096, 1096); (4096, 3000); (1130, 2966)].
Proof. exact freed_space_is_not_reused. Qed.
Print Assumptions C02_alloc_freed_space_is_not_reused.

(* ---- the DISABLED free-list search (text of ADFI_file_malloc inside "#if 0", transcribed as [malloc_search]; tied to
   that text through a variant build in which it is compiled, checks/C02d.py "disabled_search_variant"): were it compiled,
   first fit + unlink + split would keep everything pairwise disjoint and conserve the bytes, for every history ... *)
Theorem C02_alloc_disabled_search_no_overlap : forall h, ok_hist_search init_st h = true ->
  let s := run_search init_st h in
  pairwise (regions s) /\ Forall (in_file (eof s)) (regions s) /\
  total (live s) + total (free_regions s) + total (dead s) + total (lost s) = eof s + 1 - HDR.
Proof. exact search_no_overlap_conservation. Qed.
Print Assumptions C02_alloc_disabled_search_no_overlap.

(* ... and it would reuse freed space: on the history of C02_alloc_freed_space_is_not_reused the last allocation gets 4096 *)
Theorem C02_alloc_disabled_search_reuses :
  ok_hist_search init_st wit_noreuse = true /\
  snd (malloc_search (run_search init_st [OMalloc 246; OMalloc 372; OMalloc 3000; OFree 4096 3000]) 3000) = 4096.
Proof. exact search_reuses. Qed.
Print Assumptions C02_alloc_disabled_search_reuses.

(* ---- non-vacuity: the hypotheses are met by a history that takes all three arms of ADFI_file_malloc and fills all
   four classes; the initial state has the invariant ---- *)
Example C02_alloc_hypotheses_satisfiable :
  exact_hist init_st wit_mixed = true /\ ok_hist init_st wit_mixed = true /\
  positions init_st wit_mixed = [512; 758; 1130; 1376; 4096; 4396; 8192; 8392; 17392; 20480] /\
  let s := run init_st wit_mixed in
  eof s = 24575 /\
  fl_chunks (small s) = [(4096, 4392); (758, 1126)] /\ fl_chunks (medium s) = [(18417, 20476); (1376, 4092)] /\
  fl_chunks (large s) = [(8392, 17388)] /\ dead s = [(512, 246); (8096, 96)] /\
  fl_last (small s) = Some 758 /\ fl_last (medium s) = Some 1376 /\ fl_last (large s) = Some 8392.
Proof. exact wit_mixed_ok. Qed.
Example C02_alloc_initial_state_has_invariant : Inv init_st.
Proof. exact Inv_init. Qed.
