(* Properties_C02d.v -- placeholder while the proofs are built *)
From Coq Require Import ZArith List Bool.
From CgnsV Require Import AdfAlloc.
