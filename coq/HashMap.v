(* HashMap.v -- executable transcription of /repo/src/cg_hashmap.c
   (CPython-style open addressing: power-of-two index table, dense entry
   array, perturbed probe, tombstones, delete-and-renumber).

   No proofs here: this file must keep compiling (and extracting) when a proof
   breaks.  Every C function of cg_hashmap.c has a definition of the same name
   (minus the cgi_ prefix).  64-bit build: map_usize_t = uint64_t.

   Conventions: bytes, hashes, sizes, indices are Z; hashes are the UNSIGNED
   view of the C map_ssize_t (the code only ever compares them for equality,
   masks them, or shifts them as size_t).  A loop that the C writes as
   for(;;) is run on fuel; running out is the outcome None, which the theorems
   of HashMapProofs.v show unreachable from well-formed states. *)
From Coq Require Import ZArith List Bool Lia.
From CgnsV Require Import Fuel ListX.
Import ListNotations.
Local Open Scope Z_scope.

Definition W : Z := 18446744073709551616.            (* 2^64 *)
Definition fnvprefix : Z := 0xcbf29ce484222325.
Definition fnvmult   : Z := 0x00000100000001B3.
Definition PERTURB_SHIFT : Z := 5.
Definition MAP_MINSIZE : Z := 8.
Definition MAPIX_EMPTY : Z := -1.
Definition MAPIX_DUMMY : Z := -2.

(* ---- cgi_hash_cstr ------------------------------------------------------- *)
Fixpoint le_value (bs : list Z) : Z :=
  match bs with [] => 0 | b :: r => b + 256 * le_value r end.

Fixpoint hash_blocks (n : nat) (p : list Z) (x : Z) : Z * list Z :=
  match n with
  | O => (x, p)
  | S n' => hash_blocks n' (skipn 8 p)
                        (Z.lxor ((fnvmult * x) mod W) (le_value (firstn 8 p)))
  end.

Fixpoint hash_rem (p : list Z) (x : Z) : Z :=
  match p with [] => x | b :: r => hash_rem r (Z.lxor ((fnvmult * x) mod W) b) end.

Definition hash_cstr (a : list Z) : Z :=
  let len := lenZ a in
  if len =? 0 then 0 else
  let rem0 := len mod 8 in
  let remainder := if rem0 =? 0 then 8 else rem0 in
  let blocks := (len - remainder) / 8 in
  let x0 := Z.lxor fnvprefix (Z.shiftl (hd 0 a) 7) in
  let '(x1, p1) := hash_blocks (Z.to_nat blocks) a x0 in
  let x2 := hash_rem p1 x1 in
  let x3 := (Z.lxor x2 len) mod W in
  if x3 =? W - 1 then W - 2 else x3.

(* ---- sizes ---------------------------------------------------------------- *)
Definition USABLE_FRACTION (n : Z) : Z := (2 * n) / 3.

Definition BitLengthTable : list Z :=
  [0;1;2;2;3;3;3;3;4;4;4;4;4;4;4;4;5;5;5;5;5;5;5;5;5;5;5;5;5;5;5;5].

(* while (d >= 32) { d_bits += 6; d >>= 6; }  -- at most 11 rounds for 64 bits *)
Fixpoint bit_length_loop (fuel : nat) (d bits : Z) : Z :=
  match fuel with
  | O => bits + nthZ BitLengthTable d 0
  | S f => if 32 <=? d then bit_length_loop f (d / 64) (bits + 6)
           else bits + nthZ BitLengthTable d 0
  end.
Definition bit_length (d : Z) : Z := bit_length_loop 12 d 0.

Definition calculate_keysize (minsize : Z) : Z :=
  let m := Z.lor minsize MAP_MINSIZE - 1 in
  Z.shiftl 1 (bit_length (Z.lor m (MAP_MINSIZE - 1))).

Definition estimate_keysize (n : Z) : Z := calculate_keysize ((n * 3 + 1) / 2).

(* ---- the object ----------------------------------------------------------- *)
Record entry := mkE { e_hash : Z; e_key : list Z; e_val : Z }.
Definition blank_entry : entry := mkE 0 [] (-1).

(* cgns_hashmap_object and its keys object flattened.  m_static = the keys
   pointer is MAP_EMPTY_KEYS (table_size 1, usable 0, 8 EMPTY index bytes). *)
Record hmap := mkM {
  m_static   : bool;
  m_size     : Z;          (* table_size *)
  m_usable   : Z;          (* map_usable: entry slots still free *)
  m_nentries : Z;          (* map_nentries: entry slots consumed *)
  m_indices  : list Z;     (* table_size slots: EMPTY, DUMMY or entry number *)
  m_entries  : list entry; (* USABLE_FRACTION(table_size) allocated entries *)
  m_used     : Z           (* ma_used: live items *)
}.

Definition empty_map : hmap :=
  mkM true 1 0 0 (repeat MAPIX_EMPTY 8) [] 0.

(* the (char)/(int16_t)/(int32_t) store of cgi_hashmap_set_index *)
Definition wrap_signed (bits x : Z) : Z :=
  let h := 2 ^ (bits - 1) in (x + h) mod (2 * h) - h.
Definition narrow (size ix : Z) : Z :=
  if size <=? 0xff then wrap_signed 8 ix
  else if size <=? 0xffff then wrap_signed 16 ix
  else if 0xffffffff <? size then ix
  else wrap_signed 32 ix.

Definition get_index (m : hmap) (i : Z) : Z := nthZ (m_indices m) i MAPIX_EMPTY.
Definition set_index (m : hmap) (i ix : Z) : hmap :=
  mkM (m_static m) (m_size m) (m_usable m) (m_nentries m)
      (updZ (m_indices m) i (narrow (m_size m) ix)) (m_entries m) (m_used m).
Definition get_entry (m : hmap) (ix : Z) : entry := nthZ (m_entries m) ix blank_entry.
Definition set_entry (m : hmap) (ix : Z) (e : entry) : hmap :=
  mkM (m_static m) (m_size m) (m_usable m) (m_nentries m)
      (m_indices m) (updZ (m_entries m) ix e) (m_used m).

Definition new_keys_object (size : Z) : hmap :=
  let usable := USABLE_FRACTION size in
  mkM false size usable 0 (repeat MAPIX_EMPTY (Z.to_nat size))
      (repeat blank_entry (Z.to_nat usable)) 0.

Definition new_hashmap : hmap := empty_map.

Definition new_presized_hashmap (minused : Z) : hmap :=
  let max_presize := 128 * 1024 in
  if minused <=? USABLE_FRACTION MAP_MINSIZE then new_hashmap
  else let newsize := if USABLE_FRACTION max_presize <? minused then max_presize
                      else estimate_keysize minused in
       new_keys_object newsize.

(* ---- probing --------------------------------------------------------------- *)
Definition mask_of (m : hmap) : Z := m_size m - 1.

(* perturb >>= PERTURB_SHIFT; i = mask & (i*5 + perturb + 1);   (size_t arithmetic) *)
Definition probe_next (mask : Z) (ip : Z * Z) : Z * Z :=
  let '(i, perturb) := ip in
  let perturb' := Z.shiftr perturb PERTURB_SHIFT in
  (Z.land mask ((i * 5 + perturb' + 1) mod W), perturb').

Definition probe_start (mask hash : Z) : Z * Z := (Z.land hash mask, hash).

Fixpoint key_eqb (a b : list Z) : bool :=
  match a, b with
  | [], [] => true
  | x :: a', y :: b' => (x =? y) && key_eqb a' b'
  | _, _ => false
  end.

(* fuel for every probe loop: table_size + 14 (13 perturbation rounds, then a
   full cycle of the LCG; see HashMapProofs.v) *)
Definition probe_fuel (m : hmap) : positive := Z.to_pos (m_size m + 14).

(* All four probe loops of the C file have the shape
     for (;;) { ix = get_index(i); if (<exit test on ix>) return ...; perturb >>= 5; i = mask & (i*5+perturb+1); }
   [probe_loop m decide hash] is that loop with the exit test [decide : slot -> option result]. *)
Definition probe_step {R} (mask : Z) (decide : Z -> option R) (ip : Z * Z) : (Z * Z) + R :=
  match decide (fst ip) with Some r => inr r | None => inl (probe_next mask ip) end.
Definition probe_loop {R} (m : hmap) (decide : Z -> option R) (hash : Z) : option R :=
  match loopP (probe_step (mask_of m) decide) (probe_fuel m) (probe_start (mask_of m) hash) with
  | inr r => Some r | inl _ => None end.

(* cgi_index_lookup: slot holding entry number [index], or EMPTY *)
Definition index_lookup_test (m : hmap) (index i : Z) : option Z :=
  let ix := get_index m i in
  if ix =? index then Some i
  else if ix =? MAPIX_EMPTY then Some MAPIX_EMPTY
  else None.
Definition index_lookup (m : hmap) (hash index : Z) : option Z :=
  probe_loop m (index_lookup_test m index) hash.

(* cgi_name_lookup: (ix, value); ix = EMPTY when absent *)
Definition name_lookup_test (m : hmap) (key : list Z) (hash i : Z) : option (Z * Z) :=
  let ix := get_index m i in
  if ix =? MAPIX_EMPTY then Some (MAPIX_EMPTY, -1)
  else if (0 <=? ix)
          && (let ep := get_entry m ix in (e_hash ep =? hash) && key_eqb (e_key ep) key)
       then Some (ix, e_val (get_entry m ix))
       else None.
Definition name_lookup (m : hmap) (key : list Z) (hash : Z) : option (Z * Z) :=
  probe_loop m (name_lookup_test m key hash) hash.

(* cgi_find_empty_slot: first slot with ix < 0 (EMPTY or DUMMY) *)
Definition find_empty_test (m : hmap) (i : Z) : option Z :=
  if get_index m i <? 0 then Some i else None.
Definition find_empty_slot (m : hmap) (hash : Z) : option Z :=
  probe_loop m (find_empty_test m) hash.

(* inner loop of cgi_build_indices: first EMPTY slot *)
Definition build_test (m : hmap) (i : Z) : option Z :=
  if get_index m i =? MAPIX_EMPTY then Some i else None.
Fixpoint build_indices (m : hmap) (eps : list entry) (ix : Z) : option hmap :=
  match eps with
  | [] => Some m
  | ep :: rest =>
      match probe_loop m (build_test m) (e_hash ep) with
      | Some i => build_indices (set_index m i ix) rest (ix + 1)
      | None => None
      end
  end.

(* ---- cgi_resize_hashmap ---------------------------------------------------- *)
Definition live (e : entry) : bool := negb (e_val e =? -1).

Definition resize (m : hmap) (newsize : Z) : option (hmap * Z) :=
  if newsize <=? 0 then Some (m, -1) else
  let numentries := m_used m in
  let nk := new_keys_object newsize in
  let moved :=
      if m_nentries m =? numentries
      then firstn (Z.to_nat numentries) (m_entries m)                 (* memcpy *)
      else firstn (Z.to_nat numentries)
                  (filter live (firstn (Z.to_nat (m_nentries m)) (m_entries m))) in
  let newentries := moved ++ skipn (length moved) (m_entries nk) in
  let nk1 := mkM false newsize (m_usable nk) 0 (m_indices nk) newentries (m_used m) in
  match build_indices nk1 moved 0 with
  | None => None
  | Some nk2 =>
      Some (mkM false newsize (m_usable nk2 - numentries) numentries
                (m_indices nk2) (m_entries nk2) (m_used m), 0)
  end.

Definition insertion_resize (m : hmap) : option (hmap * Z) :=
  resize m (calculate_keysize (m_used m * 2)).

(* ---- cgi_insert_key / cgi_insert_to_emptymap -------------------------------- *)
Definition insert_key (m : hmap) (key : list Z) (hash value : Z) : option (hmap * Z) :=
  match name_lookup m key hash with
  | None => None
  | Some (ix, old_value) =>
      if ix =? MAPIX_EMPTY then
        let grown := if m_usable m <=? 0 then insertion_resize m else Some (m, 0) in
        match grown with
        | None => None
        | Some (m1, rc) =>
            if rc <? 0 then Some (m1, -1) else
            match find_empty_slot m1 hash with
            | None => None
            | Some hashpos =>
                let m2 := set_index m1 hashpos (m_nentries m1) in
                let m3 := set_entry m2 (m_nentries m1) (mkE hash key value) in
                Some (mkM (m_static m3) (m_size m3) (m_usable m3 - 1) (m_nentries m3 + 1)
                          (m_indices m3) (m_entries m3) (m_used m3 + 1), 0)
            end
        end
      else if negb (old_value =? value)
           then Some (set_entry m ix (mkE (e_hash (get_entry m ix)) (e_key (get_entry m ix)) value), 0)
           else Some (m, 0)
  end.

Definition insert_to_emptymap (m : hmap) (key : list Z) (hash value : Z) : hmap * Z :=
  let nk := new_keys_object MAP_MINSIZE in
  let hashpos := Z.land hash (MAP_MINSIZE - 1) in
  let m1 := set_index nk hashpos 0 in
  let m2 := set_entry m1 0 (mkE hash key value) in
  (mkM false (m_size m2) (m_usable m2 - 1) (m_nentries m2 + 1)
       (m_indices m2) (m_entries m2) (m_used m + 1), 0).

(* ---- public API -------------------------------------------------------------- *)
Definition map_get_item (m : hmap) (key : list Z) : option Z :=
  match name_lookup m key (hash_cstr key) with
  | None => None
  | Some (ix, value) => Some (if ix <? 0 then -1 else value)
  end.

Definition map_set_item (m : hmap) (key : list Z) (value : Z) : option (hmap * Z) :=
  let hash := hash_cstr key in
  if m_static m then Some (insert_to_emptymap m key hash value)
  else insert_key m key hash value.

Definition map_contains (m : hmap) (key : list Z) : option Z :=
  match name_lookup m key (hash_cstr key) with
  | None => None
  | Some (ix, value) =>
      Some (if negb (ix =? MAPIX_EMPTY) && negb (value =? -1) then 1 else 0)
  end.

(* the renumbering loop "for (i = 0; i < BOUND; i++) if (ep->me_value > old) ep->me_value--"
   over the first [bound] allocated entries *)
Fixpoint shift_down (es : list entry) (bound : nat) (old_value : Z) : list entry :=
  match bound, es with
  | O, _ => es
  | _, [] => []
  | S b, e :: r =>
      (if old_value <? e_val e then mkE (e_hash e) (e_key e) (e_val e - 1) else e)
        :: shift_down r b old_value
  end.

(* _cg_del_shift_item_known_hash, parameterised by the loop bound so that the
   historical defect (bound = map_usable) stays expressible; the code as it is
   now uses map_nentries (see KNOWN_FINDINGS.txt, "fixed: property=C18"). *)
Definition del_shift_gen (bound : hmap -> Z) (m : hmap) (key : list Z) (hash : Z)
  : option (hmap * Z) :=
  match name_lookup m key hash with
  | None => None
  | Some (ix, old_value) =>
      if (ix =? MAPIX_EMPTY) || (old_value =? -1) then Some (m, -1) else
      match index_lookup m hash ix with
      | None => None
      | Some hashpos =>
          let m1 := set_index m hashpos MAPIX_DUMMY in
          let ep := get_entry m1 ix in
          let m2 := set_entry m1 ix (mkE (e_hash ep) [] (-1)) in
          Some (mkM (m_static m2) (m_size m2) (m_usable m2) (m_nentries m2) (m_indices m2)
                    (shift_down (m_entries m2) (Z.to_nat (bound m2)) old_value)
                    (m_used m2 - 1), 0)
      end
  end.

Definition map_del_shift_item (m : hmap) (key : list Z) : option (hmap * Z) :=
  del_shift_gen m_nentries m key (hash_cstr key).

Definition map_del_shift_item_old (m : hmap) (key : list Z) : option (hmap * Z) :=
  del_shift_gen m_usable m key (hash_cstr key).

Definition hashmap_clear (m : hmap) : hmap := empty_map.

(* ---- histories ---------------------------------------------------------------- *)
Inductive mop := MSet (k : list Z) (v : Z) | MGet (k : list Z) | MHas (k : list Z) | MDel (k : list Z)
               | MClear | MPresize (n : Z).

(* result of one op: new state and returned integer; None = out of fuel *)
Definition mstep (m : hmap) (o : mop) : option (hmap * Z) :=
  match o with
  | MSet k v => map_set_item m k v
  | MGet k => option_map (fun r => (m, r)) (map_get_item m k)
  | MHas k => option_map (fun r => (m, r)) (map_contains m k)
  | MDel k => map_del_shift_item m k
  | MClear => Some (hashmap_clear m, 0)
  | MPresize n => Some (new_presized_hashmap n, 0)
  end.
