(* Compact.v -- executable model of file compaction (src/cgns_io.c rewrite_file / cgio_compress_file,
   cgnslib.c cg_close compress-on-close, tools/cgnscompress.c) for property C15.  Definitions only.

   File system:  path -> absent | File content | Symlink target.   Process-kill semantics: a crash keeps the
   kernel state reached by the atomic steps executed so far (no power-loss reordering), so the reachable crash
   states are exactly the states after every PREFIX of the atom sequence of a run.

   The ordered list of effectful calls of rewrite_file is NOT written here: it is regenerated from the C
   sources by translators/c15_rewrite.py into Gen_C15.v (rows of type [gstmt] below). *)
From Coq Require Import ZArith List Bool Arith.
Import ListNotations.

(* ------------------------------------------------------------------ contents and the file system *)
Definition content := list Z.                 (* bytes *)
Definition path := nat.

Inductive node := File (c : content) | Symlink (t : path).
Definition fs := path -> option node.

Definition upd (f : fs) (p : path) (v : option node) : fs := fun q => if Nat.eqb q p then v else f q.

(* pwrite(off, bytes): zero-fill up to off when the file is shorter, then overwrite/extend *)
Fixpoint splice (c : content) (off : nat) (b : content) : content :=
  match off with
  | O => b ++ skipn (length b) c
  | S k => match c with
           | [] => 0%Z :: splice [] k b
           | x :: r => x :: splice r k b
           end
  end.

Definition wr := (nat * content)%type.        (* one write: offset, bytes *)
Definition apply_writes (ws : list wr) (c : content) : content :=
  fold_left (fun acc w => splice acc (fst w) (snd w)) ws c.

Inductive atom :=
| AUnlink (p : path)                (* unlink(2): removes the directory entry itself, never follows a link *)
| ACreate (p : path)                (* open(O_CREAT|O_TRUNC) : follows one symbolic link *)
| AWrite (p : path) (w : wr)        (* write through the descriptor opened on p (p is not renamed/unlinked
                                       while it is open in any order accepted by [safe_order]) *)
| ARename (a b : path)              (* rename(2): atomic replacement of entry b by entry a *)
| ANop.                             (* close / fsync / lstat / readlink: a crash point without effect on names or bytes *)

Definition exec1 (f : fs) (a : atom) : fs :=
  match a with
  | AUnlink p => upd f p None
  | ACreate p => match f p with
                 | Some (Symlink q) => match f q with
                                       | Some (Symlink _) => f
                                       | _ => upd f q (Some (File []))
                                       end
                 | _ => upd f p (Some (File []))
                 end
  | AWrite p w => match f p with
                  | Some (File c) => upd f p (Some (File (splice c (fst w) (snd w))))
                  | Some (Symlink q) => match f q with
                                        | Some (File c) => upd f q (Some (File (splice c (fst w) (snd w))))
                                        | _ => f
                                        end
                  | None => f
                  end
  | ARename a b => match f a with
                   | None => f
                   | Some n => upd (upd f b (Some n)) a None
                   end
  | ANop => f
  end.

Definition exec (l : list atom) (f : fs) : fs := fold_left exec1 l f.

(* what open(path) for reading reaches: follows symbolic links, at most [fuel] of them *)
Fixpoint resolve (fuel : nat) (f : fs) (p : path) : option content :=
  match f p with
  | None => None
  | Some (File c) => Some c
  | Some (Symlink q) => match fuel with O => None | S k => resolve k f q end
  end.

(* ------------------------------------------------------------------ the step language *)
Inductive role := RFile      (* the file that is replaced: filename, or the target read from the symbolic link *)
                | RTmp       (* its temporary sibling *)
                | RName.     (* the name as given when it is a symbolic link (only ever lstat'ed / readlink'ed) *)

Inductive act :=
| Unlink (r : role)
| Create (r : role)          (* the back end creates the new file (after cgio_open_file's own unlink) *)
| CopyTo                     (* recurse_nodes: reads the source, writes into the temporary *)
| CloseOut                   (* cgio_close_file(cgout): remaining writes of the temporary, then close *)
| CloseIn                    (* cgio_close_file(cginp) *)
| Flush                      (* cgio_flush_to_disk(cginp), modify-mode sources only: content preserving *)
| Stat (r : role)            (* lstat / readlink *)
| Rename (a b : role)
| Unparsed.                  (* a statement the translator could not classify *)

(* one row: the call, and what the code does when the call reports failure:
   None = status ignored (execution continues), Some l = run l then return the error *)
Record stmt := { s_act : act; s_onfail : option (list act) }.

Section Expand.
  Variables (F T L : path) (ws wc : list wr).
  Definition path_of (r : role) : path := match r with RFile => F | RTmp => T | RName => L end.
  Definition expand (a : act) : list atom :=
    match a with
    | Unlink r => [AUnlink (path_of r)]
    | Create r => [ACreate (path_of r)]
    | CopyTo => map (AWrite T) ws
    | CloseOut => map (AWrite T) wc ++ [ANop]
    | CloseIn => [ANop]
    | Flush => [ANop]
    | Stat _ => [ANop]
    | Rename a b => [ARename (path_of a) (path_of b)]
    | Unparsed => [ANop]
    end.
  (* a run in which no call fails (the C15 quantifier: the process is killed, the OS does not fail) *)
  Definition trace (prog : list stmt) : list atom := flat_map (fun s => expand (s_act s)) prog.

  (* a run in which call number [i] fails after [k] of its atoms (used for the I/O-failure remark, C14) *)
  Fixpoint trace_fail (prog : list stmt) (i k : nat) : list atom :=
    match prog with
    | [] => []
    | s :: rest =>
        match i with
        | S i' => expand (s_act s) ++ trace_fail rest i' k
        | O => firstn k (expand (s_act s)) ++
               match s_onfail s with
               | Some ex => flat_map expand ex
               | None => trace rest
               end
        end
    end.
End Expand.

(* ------------------------------------------------------------------ the decidable order predicate *)
Inductive fstate := FO | FG | FN.               (* original in place | unlinked | replaced by the copy *)
Inductive tstate := TJ | TA | TE | TC | TF.     (* unknown | absent | created, empty | copied, still open | complete and closed *)

Definition fgone (f : fstate) : bool := match f with FG => true | _ => false end.

Definition transfer (st : fstate * tstate) (a : act) : option (fstate * tstate) :=
  let '(f, t) := st in
  match a with
  | Stat _ | Flush | CloseIn => Some (f, t)
  | Unlink RTmp => if fgone f then None else Some (f, TA)
  | Create RTmp => if fgone f then None else match t with TA => Some (f, TE) | _ => None end
  | CopyTo => if fgone f then None else match t with TE => Some (f, TC) | _ => None end
  | CloseOut => if fgone f then None else match t with TC => Some (f, TF) | _ => None end
  | Unlink RFile => match t with TF => Some (FG, TF) | _ => None end
  | Rename RTmp RFile => match t with TF => Some (FN, TA) | _ => None end
  | _ => None
  end.

Fixpoint interp (prog : list stmt) (st : fstate * tstate) : option (fstate * tstate) :=
  match prog with
  | [] => Some st
  | s :: rest => match transfer st (s_act s) with
                 | Some st' => interp rest st'
                 | None => None
                 end
  end.

Definition state_eqb (a b : fstate * tstate) : bool :=
  match a, b with
  | (FN, TA), (FN, TA) => true
  | _, _ => false
  end.

(* temp complete and closed before the first step that touches the original path; nothing but
   [Unlink orig; Rename tmp orig] touches it; the run ends with the copy in place and no temporary *)
Definition safe_order (prog : list stmt) : bool :=
  match interp prog (FO, TJ) with
  | Some st => state_eqb st (FN, TA)
  | None => false
  end.

(* error exits: every exit list may only close files and unlink the temporary, and must be taken while the
   original is still in place (I/O-failure safety; NOT needed for the kill-only property) *)
Definition exit_act_ok (a : act) : bool :=
  match a with CloseOut | CloseIn | Unlink RTmp | Stat _ => true | _ => false end.

(* a call whose failure is ignored is harmless only if it cannot leave the temporary incomplete *)
Definition ignorable (a : act) : bool :=
  match a with Unlink _ | Stat _ | CloseIn | Rename _ _ => true | _ => false end.

Fixpoint fault_safe_from (prog : list stmt) (st : fstate * tstate) : bool :=
  match prog with
  | [] => true
  | s :: rest =>
      (match s_onfail s with
       | Some ex => forallb exit_act_ok ex && negb (fgone (fst st))
       | None => ignorable (s_act s)
       end) &&
      match transfer st (s_act s) with
      | Some st' => fault_safe_from rest st'
      | None => false
      end
  end.
Definition fault_safe (prog : list stmt) : bool := fault_safe_from prog (FO, TJ).

(* ------------------------------------------------------------------ rows as emitted by the translator *)
Inductive pexpr := PName | PLink | PTmp | POther.     (* filename | linkfile | tmpfile | anything else *)

Inductive gact :=
| GUnlink (p : pexpr) | GCreate (p : pexpr) | GCopy | GCloseOut | GCloseIn | GFlushIfModify
| GStat (p : pexpr) | GRename (a b : pexpr) | GUnparsed.

Record gstmt := { g_act : gact; g_onfail : option (list gact) }.

(* which C variable plays which role on each path of rewrite_file *)
Definition role_plain (p : pexpr) : option role :=
  match p with PName => Some RFile | PTmp => Some RTmp | _ => None end.
Definition role_symlink (p : pexpr) : option role :=
  match p with PLink => Some RFile | PTmp => Some RTmp | PName => Some RName | POther => None end.

Definition inst_act (rl : pexpr -> option role) (a : gact) : act :=
  match a with
  | GUnlink p => match rl p with Some r => Unlink r | None => Unparsed end
  | GCreate p => match rl p with Some r => Create r | None => Unparsed end
  | GCopy => CopyTo
  | GCloseOut => CloseOut
  | GCloseIn => CloseIn
  | GFlushIfModify => Flush
  | GStat p => match rl p with Some r => Stat r | None => Unparsed end
  | GRename a b => match rl a, rl b with Some x, Some y => Rename x y | _, _ => Unparsed end
  | GUnparsed => Unparsed
  end.

Definition inst (rl : pexpr -> option role) (g : list gstmt) : list stmt :=
  map (fun s => {| s_act := inst_act rl (g_act s); s_onfail := option_map (map (inst_act rl)) (g_onfail s) |}) g.

Definition pexpr_eqb (a b : pexpr) : bool :=
  match a, b with PName, PName | PLink, PLink | PTmp, PTmp | POther, POther => true | _, _ => false end.

(* callers (cgio_compress_file, cg_close, cgnscompress main): the sequence of file-level calls around rewrite_file *)
Inductive ccall :=
| CRewrite            (* rewrite_file (cgio_num, filename) / cgio_compress_file (cg->cgio, cg->filename) / (inpcg, outfile) *)
| CCloseOnError       (* cgio_close_file(cgio_num) on the failure path of rewrite_file *)
| CCloseElse          (* cg_close: plain cgio_close_file when compaction is not triggered *)
| COpenRead           (* cgnscompress: cgio_open_file (inpfile, 'r', ...) *)
| CStat               (* cgnscompress: stat of input / output *)
| CUnparsed.

Definition ccall_eqb (a b : ccall) : bool :=
  match a, b with
  | CRewrite, CRewrite | CCloseOnError, CCloseOnError | CCloseElse, CCloseElse
  | COpenRead, COpenRead | CStat, CStat => true
  | _, _ => false
  end.

Fixpoint clist_eqb (a b : list ccall) : bool :=
  match a, b with
  | [], [] => true
  | x :: a', y :: b' => ccall_eqb x y && clist_eqb a' b'
  | _, _ => false
  end.

(* the shapes under which the callers add nothing to the step list of rewrite_file *)
Definition callers_ok (compress_adf compress_hdf5 close_ main_ : list ccall) : bool :=
  clist_eqb compress_adf [CRewrite; CCloseOnError] && clist_eqb compress_hdf5 [CRewrite; CCloseOnError] &&
  clist_eqb close_ [CRewrite; CCloseElse] && clist_eqb main_ [CStat; COpenRead; CRewrite; CStat].

(* ------------------------------------------------------------------ what the model run prints (tie C) *)
Inductive tok := KUnlink (r : role) | KCreate (r : role) | KWrites (r : role) | KClose (r : role)
               | KSync (r : role) | KRename (a b : role) | KStat (r : role) | KBad.

(* expected path-level system-call sequence of a kill-free run; [modify] = source opened in modify mode;
   [wsrc] = the back end may write to the source at flush/close (HDF5 modify, ADF pending buffer) *)
Definition toks_of (modify : bool) (a : act) : list tok :=
  match a with
  | Unlink r => [KUnlink r]
  | Create r => [KCreate r]
  | CopyTo => [KWrites RTmp]
  | CloseOut => [KWrites RTmp; KClose RTmp]
  | CloseIn => [KClose RFile]
  | Flush => if modify then [KSync RFile] else []
  | Stat r => [KStat r]
  | Rename a b => [KRename a b]
  | Unparsed => [KBad]
  end.
Definition expected_toks (modify : bool) (prog : list stmt) : list tok :=
  flat_map (fun s => toks_of modify (s_act s)) prog.

(* abstract state after each statement: what a kill right after that statement must leave behind *)
Fixpoint states_after (prog : list stmt) (st : fstate * tstate) : list (option (fstate * tstate)) :=
  match prog with
  | [] => []
  | s :: rest => match transfer st (s_act s) with
                 | Some st' => Some st' :: states_after rest st'
                 | None => [None]
                 end
  end.
