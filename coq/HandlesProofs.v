(* HandlesProofs.v -- proofs for the second layer of C16: handles of the three real tables (MLL, cgio, ADF) resolve to the
   slot their open filled, are distinct, are rejected once closed (or: where that is false), and a close touches one slot. *)
From Coq Require Import Arith List Bool Lia Sorted.
From CgnsV Require Import Fuel ListX Refcount RefcountProofs Handles.
Import ListNotations.

(* ============================================================================================ small facts *)
Lemma in_drop_h e h l : In e (drop_h h l) <-> In e l /\ l_h e <> h.
Proof.
  unfold drop_h. rewrite filter_In. split; intros [A B]; split; auto.
  - intros E. rewrite E, Nat.eqb_refl in B. discriminate.
  - destruct (Nat.eqb_spec (l_h e) h); [contradiction|reflexivity].
Qed.

Lemma NoDup_map_filter {A B} (f : A -> B) (p : A -> bool) l : NoDup (map f l) -> NoDup (map f (filter p l)).
Proof.
  induction l as [|x r IH]; simpl; intros H; [constructor|]. inversion H; subst.
  destruct (p x); simpl; auto. constructor; auto. intros Hin. apply H2.
  apply in_map_iff in Hin. destruct Hin as (y & E & Hy). apply filter_In in Hy. apply in_map_iff. exists y. tauto.
Qed.

Lemma filter_all_true {A} (p : A -> bool) l : (forall x, In x l -> p x = true) -> filter p l = l.
Proof.
  induction l as [|x r IH]; simpl; intros H; [reflexivity|]. rewrite (H x (or_introl eq_refl)). f_equal. apply IH.
  intros y Hy. apply H. right. exact Hy.
Qed.

Lemma handles_len_nth l : forall c1 i, nth c1 l None = Some i -> 1 <= length (handles l).
Proof. intros c1 i H. destruct (handles_upd_none l c1 i H) as [_ B]. lia. Qed.

(* exactly one live slot: it is the only one *)
Lemma handles_one l : length (handles l) = 1 -> forall c1 c2 i j,
  nth c1 l None = Some i -> nth c2 l None = Some j -> c1 = c2.
Proof.
  intros L c1 c2 i j H1 H2. destruct (Nat.eq_dec c1 c2) as [|Hne]; auto. exfalso.
  destruct (handles_upd_none l c1 i H1) as [_ B].
  assert (H2' : nth c2 (upd l c1 None) None = Some j) by (rewrite nth_upd_neq by auto; exact H2).
  pose proof (handles_len_nth _ _ _ H2'). lia.
Qed.

(* ============================================================================================ MLL *)
Record MH (m : mll) (live : mlive) : Prop := mkMH {
  mh_inv : exists p, MInv m p;
  mh_1 : forall e, In e live -> l_h e = l_slot e + 1 + foffset m /\ nth (l_slot e) (files m) None = Some (l_tag e);
  mh_2 : forall i h, nth i (files m) None = Some h -> In (i + 1 + foffset m, i, h) live;
  mh_3 : NoDup (map l_slot live)
}.

Lemma cgi_get_file_spec m fn i : cgi_get_file m fn = Some i <->
  (fn = i + 1 + foffset m /\ exists h, nth i (files m) None = Some h).
Proof.
  unfold cgi_get_file. split.
  - destruct ((fn <=? foffset m) || (length (files m) <? fn - foffset m)) eqn:B; [discriminate|].
    apply orb_false_elim in B. destruct B as [B1 B2]. apply Nat.leb_gt in B1. apply Nat.ltb_ge in B2.
    destruct (nth (fn - foffset m - 1) (files m) None) as [h|] eqn:E; [|discriminate].
    intros Q. inversion Q; subst. split; [lia|eauto].
  - intros [-> (h & Hn)]. pose proof (nth_some_lt _ _ _ Hn).
    replace ((i + 1 + foffset m <=? foffset m) || (length (files m) <? i + 1 + foffset m - foffset m)) with false.
    + replace (i + 1 + foffset m - foffset m - 1) with i by lia. rewrite Hn. reflexivity.
    + symmetry. apply orb_false_intro; [apply Nat.leb_gt; lia|apply Nat.ltb_ge; lia].
Qed.

(* cg_close looks its argument up exactly as cgi_get_file does *)
Lemma cg_close_get v m fn ok : cg_close v m fn ok =
  match cgi_get_file m fn with
  | None => (m, false)
  | Some i => match nth i (files m) None with
              | Some h => if ok then (mll_release v m i h, true) else (m, false)
              | None => (m, false)
              end
  end.
Proof.
  unfold cg_close, cgi_get_file.
  destruct ((fn <=? foffset m) || (length (files m) <? fn - foffset m)); [reflexivity|].
  destruct (nth (fn - foffset m - 1) (files m) None) eqn:E; [rewrite E|]; reflexivity.
Qed.

Lemma MH_init : MH mll_init [].
Proof.
  constructor; simpl; try tauto.
  - exists []. constructor; simpl; auto. intros i h. destruct i; discriminate.
  - intros i h. destruct i; discriminate.
  - constructor.
Qed.

Lemma MH_no_live_when_idle m live : MH m live -> n_open m = 0 -> live = [].
Proof.
  intros [(p & [C Z H P]) L1 L2 L3] E. destruct (Z E) as [Zf _].
  destruct live as [|e r]; auto. exfalso. destruct (L1 e (or_introl eq_refl)) as [_ Hn].
  rewrite Zf in Hn. destruct e as [[a b] c]. unfold l_slot in Hn. simpl in Hn. destruct b; discriminate.
Qed.

Lemma mll_release_MH v m live i h :
  MH m live -> nth i (files m) None = Some h -> MH (mll_release v m i h) (drop_h (i + 1 + foffset m) live).
Proof.
  intros HM Hn. pose proof HM as [(p & MI) L1 L2 L3]. pose proof MI as [C Z H P].
  pose proof (mll_release_inv v _ _ _ _ MI Hn) as MI'.
  pose proof (nth_some_lt _ _ _ Hn) as Hlt.
  unfold mll_release in *. destruct (Nat.eqb_spec (n_open m - 1) 0) as [E|E].
  - (* the last open file: the table is reset; no other entry was live *)
    assert (One : length (handles (files m)) = 1).
    { destruct (handles_upd_none _ _ _ Hn) as [_ B]. lia. }
    assert (Emp : drop_h (i + 1 + foffset m) live = []).
    { destruct (drop_h (i + 1 + foffset m) live) as [|e r] eqn:D; auto. exfalso.
      assert (Hin : In e (drop_h (i + 1 + foffset m) live)) by (rewrite D; left; reflexivity).
      apply in_drop_h in Hin. destruct Hin as [Hin Hne]. destruct (L1 e Hin) as [Hh Hs].
      pose proof (handles_one _ One _ _ _ _ Hn Hs). lia. }
    rewrite Emp. constructor; simpl; eauto; try tauto.
    + intros i0 h0. destruct i0; discriminate.
    + constructor.
  - constructor; simpl; eauto.
    + intros e Hin. apply in_drop_h in Hin. destruct Hin as [Hin Hne]. destruct (L1 e Hin) as [Hh Hs].
      split; auto. rewrite nth_upd_neq; auto. intros E'. lia.
    + intros i0 h0 Hn0. destruct (Nat.eq_dec i0 i) as [->|Hi]; [rewrite nth_upd_eq in Hn0 by lia; discriminate|].
      rewrite nth_upd_neq in Hn0 by auto. apply in_drop_h. split; [auto|]. unfold l_h. simpl. lia.
    + unfold drop_h. apply NoDup_map_filter. exact L3.
Qed.

Lemma mh_step_MH m live o : MH m live -> let '(m1, l1, _) := mh_step MCur m live o in MH m1 l1.
Proof.
  intros HM. pose proof HM as [(p & MI) L1 L2 L3]. destruct o as [oc|fn ok]; simpl.
  - (* cg_open *)
    assert (Succ : forall sz, MH (mkmll (S (n_open m)) (files m ++ [Some (nexth m)]) sz (foffset m) (nexth m :: held m) (S (nexth m)))
                               ((length (files m ++ [Some (nexth m)]) + foffset m, length (files m), nexth m) :: live)).
    { intros sz. constructor.
      - exists ((length (files m ++ [Some (nexth m)]) + foffset m) :: p).
        pose proof MI as [C Z H P]. constructor; simpl.
        + rewrite handles_app, app_length. simpl. lia.
        + discriminate.
        + intros h. rewrite handles_app, cnt_app. simpl. rewrite H. lia.
        + intros i h Hn. destruct (Nat.lt_ge_cases i (length (files m))) as [Hi|Hi].
          * rewrite app_nth1 in Hn by lia. right. eapply P. exact Hn.
          * rewrite app_nth2 in Hn by lia. destruct (i - length (files m)) as [|[|q]] eqn:Eq; simpl in Hn; try discriminate.
            left. rewrite app_length. simpl. lia.
      - intros e [<-|Hin]; unfold l_h, l_slot, l_tag; simpl.
        + rewrite app_length. simpl. split; [lia|]. rewrite app_nth2, Nat.sub_diag by lia. reflexivity.
        + destruct (L1 e Hin) as [A B]. split; auto. rewrite app_nth1; auto. eapply nth_some_lt; eauto.
      - simpl. intros i h Hn. destruct (Nat.lt_ge_cases i (length (files m))) as [Hi|Hi].
        + rewrite app_nth1 in Hn by lia. right. auto.
        + rewrite app_nth2 in Hn by lia. destruct (i - length (files m)) as [|[|q]] eqn:Eq; simpl in Hn; try discriminate.
          inversion Hn; subst. left. rewrite app_length. simpl. f_equal. f_equal; lia.
      - simpl. constructor; auto. intros Hin. apply in_map_iff in Hin. destruct Hin as (e & E & He).
        destruct (L1 e He) as [_ Hs]. apply nth_some_lt in Hs. unfold l_slot in *. simpl in *. rewrite E in Hs. lia. }
    destruct oc; simpl; auto.
    + (* late failure: the entry is released again; no handle is handed out *)
      set (sz := if Nat.eqb (fsize m) 0 then 1 else if Nat.eqb (length (files m)) (fsize m) then 2 * fsize m else fsize m).
      pose proof (Succ sz) as S1.
      assert (Hn : nth (length (files m)) (files m ++ [Some (nexth m)]) None = Some (nexth m))
        by (rewrite app_nth2, Nat.sub_diag by lia; reflexivity).
      pose proof (mll_release_MH MCur _ _ (length (files m)) (nexth m) S1 Hn) as R.
      assert (D : drop_h (length (files m) + 1 + foffset m)
                    ((length (files m ++ [Some (nexth m)]) + foffset m, length (files m), nexth m) :: live) = live).
      { unfold drop_h. simpl. unfold l_h at 1. simpl. rewrite app_length. simpl. rewrite Nat.eqb_refl. simpl.
        apply filter_all_true. intros e He. destruct (L1 e He) as [A B].
        apply nth_some_lt in B. apply Bool.negb_true_iff. apply Nat.eqb_neq. lia. }
      cbn [files foffset] in R. rewrite D in R. exact R.
  - (* cg_close *)
    rewrite cg_close_get. destruct (cgi_get_file m fn) as [i|] eqn:G; simpl; auto.
    destruct (nth i (files m) None) as [h|] eqn:Hn; simpl; auto. destruct ok; simpl; auto.
    apply cgi_get_file_spec in G. destruct G as [-> _]. apply mll_release_MH; auto.
Qed.

Lemma mh_run_MH ops : forall m live, MH m live -> let '(m1, l1) := mh_run MCur m live ops in MH m1 l1.
Proof.
  induction ops as [|o r IH]; intros m live H; simpl; auto.
  pose proof (mh_step_MH m live o H) as S1. destruct (mh_step MCur m live o) as [[m1 l1] x]. apply IH. exact S1.
Qed.

(* (1) a handle returned by cg_open and not yet closed resolves to the entry that open filled, holding what it put there *)
Theorem mll_handle_resolves : forall ops m live, mh_run MCur mll_init [] ops = (m, live) ->
  forall e, In e live -> cgi_get_file m (l_h e) = Some (l_slot e) /\ nth (l_slot e) (files m) None = Some (l_tag e).
Proof.
  intros ops m live R e He. pose proof (mh_run_MH ops _ _ MH_init) as H. rewrite R in H.
  destruct (mh_1 _ _ H e He) as [A B]. split; auto. apply cgi_get_file_spec. eauto.
Qed.

(* (2) handles of simultaneously open files are pairwise distinct and denote distinct entries *)
Theorem mll_handles_distinct : forall ops m live, mh_run MCur mll_init [] ops = (m, live) ->
  NoDup (map l_h live) /\ NoDup (map l_slot live).
Proof.
  intros ops m live R. pose proof (mh_run_MH ops _ _ MH_init) as H. rewrite R in H.
  split; [|exact (mh_3 _ _ H)].
  pose proof (mh_3 _ _ H) as N. pose proof (mh_1 _ _ H) as L1. clear R H.
  induction live as [|e r IH]; simpl; [constructor|]. inversion N; subst. constructor.
  - intros Hin. apply H1. apply in_map_iff in Hin. destruct Hin as (e' & E & He').
    apply in_map_iff. exists e'. split; auto.
    destruct (L1 e (or_introl eq_refl)) as [A _]. destruct (L1 e' (or_intror He')) as [A' _]. lia.
  - apply IH; auto. intros e' He'. apply L1. right. exact He'.
Qed.

(* (3) a number that is not the handle of a file open NOW is rejected by cgi_get_file, and cg_close of it changes nothing *)
Theorem mll_closed_handle_rejected : forall ops m live, mh_run MCur mll_init [] ops = (m, live) ->
  forall fn, ~ In fn (map l_h live) -> cgi_get_file m fn = None /\ forall ok, cg_close MCur m fn ok = (m, false).
Proof.
  intros ops m live R fn Hn. pose proof (mh_run_MH ops _ _ MH_init) as H. rewrite R in H.
  assert (G : cgi_get_file m fn = None).
  { destruct (cgi_get_file m fn) as [i|] eqn:G; auto. exfalso. apply cgi_get_file_spec in G.
    destruct G as [-> (h & Hh)]. apply Hn. apply in_map_iff. exists (i + 1 + foffset m, i, h). split; auto.
    apply (mh_2 _ _ H). exact Hh. }
  split; auto. intros ok. rewrite cg_close_get, G. reflexivity.
Qed.

(* (4) cg_close of one file leaves every other open file's handle resolving to the same entry with the same content *)
Theorem mll_close_touches_one_slot : forall ops m live fn ok m' live' x,
  mh_run MCur mll_init [] ops = (m, live) -> mh_step MCur m live (MClose fn ok) = (m', live', x) ->
  forall e, In e live -> l_h e <> fn ->
    In e live' /\ cgi_get_file m' (l_h e) = Some (l_slot e) /\ nth (l_slot e) (files m') None = Some (l_tag e).
Proof.
  intros ops m live fn ok m' live' x R St e He Hne.
  pose proof (mh_run_MH ops _ _ MH_init) as H. rewrite R in H.
  pose proof (mh_step_MH m live (MClose fn ok) H) as H'. rewrite St in H'.
  assert (Hin : In e live').
  { simpl in St. destruct (cg_close MCur m fn ok) as [m1 r]. inversion St; subst.
    destruct r; auto. apply in_drop_h. auto. }
  split; auto. destruct (mh_1 _ _ H' e Hin) as [A B]. split; auto. apply cgi_get_file_spec. eauto.
Qed.

(* the OLD offset arithmetic (before /repo ecfdd66): cg_close ASSIGNED file_number_offset = n_cgns_files when the last file
   closed, so from the third generation of opens on numbers came back: 3 is returned by the third and by the fourth cg_open,
   and after the fourth the stale number 3 of the third resolves to the entry of the fourth *)
Definition reissue_ops : list mop :=
  [MOpen OSuccess; MClose 1 true; MOpen OSuccess; MOpen OSuccess; MClose 2 true; MClose 3 true; MOpen OSuccess].

Lemma mll_number_reissued_old :
  mh_numbers MOld mll_init [] reissue_ops = [Some 1; Some 2; Some 3; Some 3] /\
  exists m live, mh_run MOld mll_init [] reissue_ops = (m, live) /\ live = [(3, 0, 3)] /\ cgi_get_file m 3 = Some 0 /\
                 nth 0 (files m) None = Some 3.
Proof.
  split; [vm_compute; reflexivity|].
  destruct (mh_run MOld mll_init [] reissue_ops) as [m live] eqn:E. vm_compute in E. inversion E; subst. clear E.
  eexists. eexists. split; [reflexivity|]. split; [reflexivity|]. split; vm_compute; reflexivity.
Qed.

(* the CURRENT arithmetic (+=): the high-water mark file_number_offset + n_cgns_files never goes down, every number handed
   out so far is <= it, and cg_open returns high-water mark + 1 *)
Definition top (m : mll) : nat := foffset m + length (files m).

Lemma mh_step_top m live o m1 l1 x : mh_step MCur m live o = (m1, l1, x) ->
  top m <= top m1 /\ (forall oc, o = MOpen oc -> forall fn, x = Some fn -> fn = S (top m) /\ top m1 = fn).
Proof.
  destruct o as [oc|fn ok]; simpl.
  - unfold cg_open. destruct oc; simpl.
    + intros Q. inversion Q; subst. split; [lia|]. intros oc _ fn Hx. discriminate.
    + unfold mll_release. simpl. destruct (Nat.eqb (n_open m - 0) 0); intros Q; inversion Q; subst; unfold top; simpl;
        rewrite ?app_length, ?upd_length, ?app_length; simpl; (split; [lia|]; intros oc _ fn Hx; discriminate).
    + intros Q. inversion Q; subst. unfold top. simpl. rewrite app_length. simpl. split; [lia|].
      intros oc _ fn Hx. inversion Hx; subst. lia.
  - rewrite cg_close_get. destruct (cgi_get_file m fn) as [i|]; [|intros Q; inversion Q; subst; split; [lia|intros oc Ho; discriminate]].
    destruct (nth i (files m) None) as [h|]; [|intros Q; inversion Q; subst; split; [lia|intros oc Ho; discriminate]].
    destruct ok; [|intros Q; inversion Q; subst; split; [lia|intros oc Ho; discriminate]].
    unfold mll_release. destruct (Nat.eqb (n_open m - 1) 0); intros Q; inversion Q; subst; unfold top; simpl;
      rewrite ?upd_length; (split; [lia|intros oc Ho; discriminate]).
Qed.

Lemma mh_numbers_sorted ops : forall m live,
  Forall (fun x => top m < x) (somes (mh_numbers MCur m live ops)) /\ StronglySorted lt (somes (mh_numbers MCur m live ops)).
Proof.
  induction ops as [|o r IH]; intros m live; simpl; [split; constructor|].
  destruct (mh_step MCur m live o) as [[m1 l1] x] eqn:St. destruct (mh_step_top _ _ _ _ _ _ St) as [Hle Hop].
  destruct (IH m1 l1) as [F S]. destruct o as [oc|fn ok].
  - destruct x as [fn|]; simpl.
    + destruct (Hop oc eq_refl fn eq_refl) as [E1 E2]. split.
      * constructor; [lia|]. eapply Forall_impl; [|exact F]. simpl. intros a Ha. lia.
      * constructor; auto. eapply Forall_impl; [|exact F]. simpl. intros a Ha. lia.
    + split; auto. eapply Forall_impl; [|exact F]. simpl. intros a Ha. lia.
  - split; auto. eapply Forall_impl; [|exact F]. simpl. intros a Ha. lia.
Qed.

(* every number cg_open returns is greater than every number it returned before in this process: numbers are never
   issued twice, so a stale number (closed: rejected by mll_closed_handle_rejected) can never come to designate a later file *)
Theorem mll_numbers_never_reissued : forall ops, StronglySorted lt (somes (mh_numbers MCur mll_init [] ops)).
Proof. intros ops. exact (proj2 (mh_numbers_sorted ops mll_init [])). Qed.

(* the witness session of the old defect under the current arithmetic: 1, 2, 3, 4 *)
Lemma mll_reissue_witness_now : mh_numbers MCur mll_init [] reissue_ops = [Some 1; Some 2; Some 3; Some 4].
Proof. vm_compute. reflexivity. Qed.

(* ============================================================================================ ADF: what a close leaves alone *)
(* a slot is either cleared or keeps its name, links and descriptor while its count can only go down *)
Definition keeps (s s' : slot) : Prop :=
  s' = free_slot \/ (fname s' = fname s /\ links s' = links s /\ fd_open s' = fd_open s /\ in_use s' <= in_use s).

Lemma keeps_refl s : keeps s s. Proof. right. auto. Qed.

Lemma keeps_trans s s' s'' : keeps s s' -> keeps s' s'' -> keeps s s''.
Proof.
  intros [->|(A & B & C & D)] [->|(A' & B' & C' & D')]; try (left; reflexivity).
  - left. destruct s'' as [u f nm l]. simpl in *. subst. assert (u = 0) by lia. subst. reflexivity.
  - right. repeat split; try congruence. lia.
Qed.

Lemma slot_set_in_use a i k j :
  slot_at (set_in_use a i k) j = if Nat.eqb j i && (i <? length (tab a))
                                 then mkslot k (fd_open (slot_at a i)) (fname (slot_at a i)) (links (slot_at a i))
                                 else slot_at a j.
Proof.
  unfold set_in_use. destruct (Nat.eqb_spec j i) as [->|Hne]; simpl.
  - destruct (Nat.ltb_spec i (length (tab a))).
    + apply slot_set_slot_eq. auto.
    + unfold set_slot. rewrite upd_out by lia. destruct a; reflexivity.
  - apply slot_set_slot_neq. auto.
Qed.

Lemma keeps_set_in_use a i k j : k <= in_use (slot_at a i) -> keeps (slot_at a j) (slot_at (set_in_use a i k) j).
Proof.
  intros H. rewrite slot_set_in_use. destruct (Nat.eqb_spec j i) as [->|]; simpl; [|apply keeps_refl].
  destruct (i <? length (tab a)); [|apply keeps_refl]. right. simpl. auto.
Qed.

Lemma keeps_really_close a i j : keeps (slot_at a j) (slot_at (really_close a i) j).
Proof.
  destruct (Nat.eq_dec j i) as [->|Hne].
  - destruct (Nat.lt_ge_cases i (length (tab a))).
    + left. apply slot_really_close_eq. auto.
    + unfold really_close. unfold slot_at at 2. simpl. rewrite upd_out by lia. apply keeps_refl.
  - rewrite slot_really_close_neq by auto. apply keeps_refl.
Qed.

Lemma keeps_free_if_idle a j : keeps (slot_at a j) (slot_at (free_if_idle a) j).
Proof.
  unfold free_if_idle. destruct (forallb _ _); [|apply keeps_refl]. left. unfold slot_at. simpl. destruct j; reflexivity.
Qed.

Lemma cm_step_frame v m m' : cm_step v m = inl m' -> forall j, keeps (slot_at (cm_a m) j) (slot_at (cm_a m') j).
Proof.
  intros St j. unfold cm_step in St. destruct m as [a stk e]. simpl in *.
  destruct stk as [|[i|i k] rest]; [discriminate| |].
  - destruct ((length (tab a) <=? i) || Nat.eqb (in_use (slot_at a i)) 0); [inversion St; apply keeps_refl|].
    destruct v; [inversion St; apply keeps_refl|].
    destruct (Nat.eqb (in_use (slot_at a i)) 1); inversion St; simpl; [apply keeps_refl|].
    eapply keeps_trans; [|apply keeps_free_if_idle]. apply keeps_set_in_use. lia.
  - destruct (k <? length (links (slot_at a i))); [inversion St; apply keeps_refl|].
    destruct (Nat.eqb (in_use (slot_at a i)) 0); [inversion St; apply keeps_refl|].
    destruct (Nat.eqb (in_use (slot_at a i) - 1) 0); inversion St; simpl.
    + eapply keeps_trans; [|apply keeps_free_if_idle]. apply keeps_really_close.
    + eapply keeps_trans; [|apply keeps_free_if_idle]. apply keeps_set_in_use. lia.
Qed.

Lemma cm_run_frame v fuel : forall m a' e, loopN (cm_step v) fuel m = inr (a', e) ->
  forall j, keeps (slot_at (cm_a m) j) (slot_at a' j).
Proof.
  induction fuel as [|fuel IH]; intros m a' e Run j; [discriminate|].
  simpl in Run. destruct (cm_step v m) as [m'|r] eqn:St.
  - eapply keeps_trans; [eapply cm_step_frame; eauto|]. eapply IH; eauto.
  - inversion Run; subst. unfold cm_step in St. destruct (cm_stk m) as [|[i|i k] rest].
    + inversion St; subst. apply keeps_refl.
    + destruct (_ || _); [discriminate|]. destruct v; [discriminate|]. destruct (Nat.eqb _ 1); discriminate.
    + destruct (_ <? _); [discriminate|]. destruct (Nat.eqb _ 0); [discriminate|]. destruct (Nat.eqb _ 0); discriminate.
Qed.

(* ADFI_close_file, both variants, any state: every slot is cleared or keeps name, links[] and descriptor *)
Lemma close_frame v fuel a i a' e : adfi_close_file v fuel a i = Some (a', e) ->
  forall j, keeps (slot_at a j) (slot_at a' j).
Proof.
  unfold adfi_close_file. destruct (loopN _ _ _) as [|[a1 e1]] eqn:Run; [discriminate|].
  intros Q. inversion Q; subst. intros j. exact (cm_run_frame _ _ _ _ _ Run j).
Qed.

Lemma in_U_in_use w a U idx : Inv w a U [] -> In idx U -> in_use (slot_at a idx) <> 0.
Proof.
  intros H Hin. rewrite (inv_R _ _ _ _ H). unfold refs. apply cnt_pos_in in Hin. lia.
Qed.

(* the slots external references point at keep their identity through a close of another reference *)
Lemma close_keeps_referenced w U fuel a i a' e :
  Inv w a (i :: U) [] -> adfi_close_file Cur fuel a i = Some (a', e) ->
  forall idx, In idx U -> fname (slot_at a' idx) = fname (slot_at a idx) /\ links (slot_at a' idx) = links (slot_at a idx) /\
                          fd_open (slot_at a' idx) = fd_open (slot_at a idx) /\ in_use (slot_at a' idx) <> 0.
Proof.
  intros H Cl idx Hin. destruct (close_machine_ok _ _ _ _ _ _ _ H Cl) as [_ H'].
  pose proof (in_U_in_use _ _ _ _ H' Hin) as Hu.
  destruct (close_frame _ _ _ _ _ _ Cl idx) as [E|(A & B & C & D)]; [rewrite E in Hu; simpl in Hu; congruence|]. auto.
Qed.

Definition names_kept (U : list nat) (a a' : adf) : Prop :=
  forall idx, In idx U -> fname (slot_at a' idx) = fname (slot_at a idx).

Lemma adf_open_names w a U fuel n rw a1 r :
  Inv w a U [] -> adf_database_open Cur fuel w a n rw = Some (a1, r) -> names_kept U a a1.
Proof.
  intros H. unfold adf_database_open.
  assert (G : forall k,
     (let '(a1', oi) := adfi_open_file a n (if header_ok k then Some (file_attr w n) else None) (os_open_ok k rw) in
         match oi with
         | None => Some (a1', None)
         | Some i => if header_ok k then Some (a1', Some i)
                     else match adfi_close_file Cur fuel a1' i with
                          | None => None
                          | Some (a2, _) => Some (a2, None)
                          end
         end) = Some (a1, r) -> names_kept U a a1).
  { intros k. destruct (adfi_open_file a n (if header_ok k then Some (file_attr w n) else None) (os_open_ok k rw)) as [a1' [i|]] eqn:Op;
      pose proof (adfi_open_file_spec _ _ _ _ _ _ Op) as Sp; simpl in Sp.
    - destruct Sp as (Z & Li & E1 & E2 & El). pose proof (open_inv _ _ _ _ _ _ H Z E1 E2 El) as Hi.
      assert (K1 : names_kept U a a1').
      { intros idx Hin. rewrite E2; auto. intros ->. exact (in_U_in_use _ _ _ _ H Hin Z). }
      destruct (header_ok k).
      + intros Q. inversion Q; subst. exact K1.
      + destruct (adfi_close_file Cur fuel a1' i) as [[a2 e]|] eqn:Cl; [|discriminate].
        intros Q. inversion Q; subst. intros idx Hin.
        destruct (close_keeps_referenced _ _ _ _ _ _ _ Hi Cl idx Hin) as (A & _). rewrite A. apply K1. exact Hin.
    - intros Q. inversion Q; subst. destruct Sp as [_ S1]. specialize (S1 (inv_W _ _ _ _ H)).
      intros idx _. rewrite S1. reflexivity. }
  destruct (kind_of w n); try apply G. intros Q. inversion Q; subst. intros idx _. reflexivity.
Qed.

Lemma link_add_fname a f l b j : fname (slot_at (link_add a f l b) j) = fname (slot_at a j).
Proof.
  unfold link_add. destruct (Nat.eqb f l); [reflexivity|].
  destruct (existsb _ _); [reflexivity|].
  set (a1 := set_slot a f _).
  assert (F1 : forall j, fname (slot_at a1 j) = fname (slot_at a j)).
  { intros j0. unfold a1. destruct (Nat.eq_dec j0 f) as [->|Hne].
    - destruct (Nat.lt_ge_cases f (length (tab a))).
      + rewrite slot_set_slot_eq by auto. reflexivity.
      + unfold set_slot. rewrite upd_out by lia. destruct a; reflexivity.
    - rewrite slot_set_slot_neq by auto. reflexivity. }
  destruct b; [|apply F1]. rewrite slot_set_in_use.
  destruct (Nat.eqb j l && (l <? length (tab a1))) eqn:C; [|apply F1].
  apply andb_prop in C. destruct C as [C _]. apply Nat.eqb_eq in C. subst. simpl. apply F1.
Qed.

Lemma chase_names w a U fuel cur n dang a' r :
  Inv w a U [] -> chase Cur fuel w a cur n dang = Some (a', r) -> names_kept U a a'.
Proof.
  intros H. unfold chase.
  assert (Same : names_kept U a a) by (intros idx _; reflexivity).
  destruct ((length (tab a) <=? cur) || Nat.eqb (in_use (slot_at a cur)) 0); [intros Q; inversion Q; subst; exact Same|].
  destruct (fname (slot_at a cur)) as [nm|]; [|intros Q; inversion Q; subst; exact Same].
  destruct (if dang then has_dlink w nm n else has_link w nm n); simpl; [|intros Q; inversion Q; subst; exact Same].
  destruct (match lcache a with
            | Some (c, m, li) => if Nat.eqb c cur && Nat.eqb m n && negb dang then Some li else None
            | None => None
            end) as [hli|].
  { destruct ((length (tab a) <=? hli) || Nat.eqb (in_use (slot_at a hli)) 0); intros Q; inversion Q; subst; exact Same. }
  assert (G : match find_name (tab a) n with
        | Some li => let a1 := link_add a cur li true in
                     if dang then Some (a1, None) else Some (set_cache a1 (Some (cur, n, li)), Some li)
        | None => match adf_database_open Cur fuel w a n true with
                  | None => None
                  | Some (a1, None) => Some (a1, None)
                  | Some (a1, Some li) => let a2 := link_add a1 cur li false in
                                          if dang then Some (a2, None) else Some (set_cache a2 (Some (cur, n, li)), Some li)
                  end
        end = Some (a', r) -> names_kept U a a').
  { destruct (find_name (tab a) n) as [li|].
    - simpl. destruct dang; intros Q; inversion Q; subst; intros idx _; apply (link_add_fname a cur li true idx).
    - destruct (adf_database_open Cur fuel w a n true) as [[a1 [li|]]|] eqn:Op; [| |discriminate].
      + assert (K : names_kept U a (link_add a1 cur li false)).
        { intros idx Hin. rewrite link_add_fname. exact (adf_open_names _ _ _ _ _ _ _ _ H Op idx Hin). }
        simpl. destruct dang; intros Q; inversion Q; subst; exact K.
      + intros Q. inversion Q; subst. exact (adf_open_names _ _ _ _ _ _ _ _ H Op). }
  destruct (kind_of w n); try exact G; intros Q; inversion Q; subst; exact Same.
Qed.

Lemma walk_names w U fuel chain : forall a cur a' ok,
  Inv w a U [] -> walk Cur fuel w a cur chain = Some (a', ok) -> names_kept U a a'.
Proof.
  induction chain as [|[n dang] r IH]; intros a cur a' ok H; simpl.
  - intros Q. inversion Q; subst. intros idx _. reflexivity.
  - destruct (chase Cur fuel w a cur n dang) as [[a1 [li|]]|] eqn:Ch; [| |discriminate].
    + intros Q idx Hin. rewrite (IH _ _ _ _ (chase_inv _ _ _ _ _ _ _ _ _ H Ch) Q idx Hin).
      exact (chase_names _ _ _ _ _ _ _ _ _ H Ch idx Hin).
    + intros Q. inversion Q; subst. exact (chase_names _ _ _ _ _ _ _ _ _ H Ch).
Qed.

(* ============================================================================================ cgio: what open and close do to iolist *)
Lemma handles_in l idx : In idx (handles l) <-> exists c1, nth c1 l None = Some idx.
Proof.
  induction l as [|o r IH]; simpl.
  - split; [tauto|]. intros (c1 & H). destruct c1; discriminate.
  - destruct o as [i|]; simpl.
    + split.
      * intros [->|H]; [exists 0; reflexivity|]. apply IH in H. destruct H as (c1 & H). exists (S c1). exact H.
      * intros ([|c1] & H); [inversion H; auto|]. right. apply IH. eauto.
    + rewrite IH. split; intros (c1 & H); [exists (S c1); exact H|]. destruct c1; [discriminate|eauto].
Qed.

Lemma nth_app_none (l : list (option nat)) c1 : nth c1 (l ++ [None]) None = nth c1 l None.
Proof.
  destruct (Nat.lt_ge_cases c1 (length l)) as [H|H]; [apply app_nth1; auto|].
  rewrite app_nth2 by lia. rewrite (nth_overflow l) by lia. destruct (c1 - length l) as [|[|q]]; reflexivity.
Qed.

Lemma cgio_open_spec fuel w s n rw s1 r : cgio_open_file Cur fuel w s n rw = Some (s1, r) ->
  match r with
  | Some c => exists k idx, c = S k /\ adf_database_open Cur fuel w (io_adf s) n rw = Some (io_adf s1, Some idx) /\
                nth k (iol s) None = None /\ nth k (iol s1) None = Some idx /\
                (forall c1, c1 <> k -> nth c1 (iol s1) None = nth c1 (iol s) None) /\ nopen s1 = S (nopen s)
  | None => iol s1 = iol s /\ nopen s1 = nopen s /\
            (io_adf s1 = io_adf s \/ adf_database_open Cur fuel w (io_adf s) n rw = Some (io_adf s1, None))
  end.
Proof.
  unfold cgio_open_file.
  assert (G : match adf_database_open Cur fuel w (io_adf s) n rw with
         | None => None
         | Some (a1, None) => Some (mkio a1 (iol s) (nopen s), None)
         | Some (a1, Some idx) =>
             let l0 := match iol s with [] => repeat None 5 | l => l end in
             let k := first_none l0 in
             let l1 := if k <? length l0 then l0 else l0 ++ [None] in
             Some (mkio a1 (upd l1 k (Some idx)) (S (nopen s)), Some (S k))
         end = Some (s1, r) ->
    match r with
    | Some c => exists k idx, c = S k /\ adf_database_open Cur fuel w (io_adf s) n rw = Some (io_adf s1, Some idx) /\
                  nth k (iol s) None = None /\ nth k (iol s1) None = Some idx /\
                  (forall c1, c1 <> k -> nth c1 (iol s1) None = nth c1 (iol s) None) /\ nopen s1 = S (nopen s)
    | None => iol s1 = iol s /\ nopen s1 = nopen s /\
              (io_adf s1 = io_adf s \/ adf_database_open Cur fuel w (io_adf s) n rw = Some (io_adf s1, None))
    end).
  { destruct (adf_database_open Cur fuel w (io_adf s) n rw) as [[a1 [idx|]]|] eqn:Op; [| |discriminate].
    - set (l0 := match iol s with [] => repeat None 5 | l => l end).
      assert (N0 : forall c1, nth c1 l0 None = nth c1 (iol s) None).
      { intros c1. unfold l0. destruct (iol s); [rewrite nth_repeat_none; destruct c1; reflexivity|reflexivity]. }
      set (k := first_none l0). destruct (first_none_spec l0) as [K1 K2]. fold k in K1, K2.
      set (l1 := if k <? length l0 then l0 else l0 ++ [None]).
      assert (N1 : forall c1, nth c1 l1 None = nth c1 (iol s) None).
      { intros c1. unfold l1. destruct (k <? length l0); [apply N0|]. rewrite nth_app_none. apply N0. }
      assert (Kl : k < length l1).
      { unfold l1. destruct (Nat.ltb_spec k (length l0)); [auto|]. rewrite app_length. simpl. lia. }
      assert (Kn : nth k (iol s) None = None).
      { rewrite <- N0. destruct (Nat.lt_ge_cases k (length l0)); [auto|apply nth_overflow; lia]. }
      intros Q. inversion Q; subst. simpl. exists k, idx. repeat split; auto.
      + apply nth_upd_eq. exact Kl.
      + intros c1 Hne. rewrite nth_upd_neq by auto. apply N1.
    - intros Q. inversion Q; subst. simpl. auto. }
  destruct (kind_of w n); try exact G; intros Q; inversion Q; subst; auto.
Qed.

Lemma cgio_close_spec w pend fuel s c s1 r : IOInv w s pend -> cgio_close_file Cur fuel s c = Some (s1, r) ->
  (r = ROk /\ exists c1 idx, c = S c1 /\ nth c1 (iol s) None = Some idx /\
      adfi_close_file Cur fuel (io_adf s) idx = Some (io_adf s1, 0) /\
      nth c1 (iol s1) None = None /\ (forall c2, c2 <> c1 -> nth c2 (iol s1) None = nth c2 (iol s) None)) \/
  (s1 = s /\ cgio_resolve s c = None /\ (r = RBadCgio \/ r = RFileType)).
Proof.
  intros [I C Z P]. unfold cgio_close_file. destruct c as [|c1]; [intros Q; inversion Q; subst; right; auto|].
  destruct (Nat.leb_spec (length (iol s)) c1) as [Hlen|Hlen].
  { intros Q. inversion Q; subst. right. simpl. rewrite nth_overflow by lia. auto. }
  destruct (nth c1 (iol s) None) as [idx|] eqn:Hc.
  2:{ intros Q. inversion Q; subst. right. simpl. auto. }
  pose proof (handle_in_use _ _ _ _ _ I Hc) as Hu. pose proof (in_use_lt _ _ Hu) as Hlt.
  destruct (Nat.leb_spec (length (tab (io_adf s))) idx); [lia|].
  destruct (adfi_close_file Cur fuel (io_adf s) idx) as [[a1 e]|] eqn:Cl; [|discriminate].
  destruct (handles_upd_none _ _ _ Hc) as [A B].
  assert (I' : Inv w (io_adf s) (idx :: handles (upd (iol s) c1 None)) []) by (apply (Inv_U w _ (handles (iol s))); auto).
  destruct (close_machine_ok _ _ _ _ _ _ _ I' Cl) as [-> I1]. simpl.
  intros Q. inversion Q; subst. left. split; auto. exists c1, idx. simpl. repeat split; auto.
  - destruct (Nat.eqb (nopen s - 1) 0); [destruct c1; reflexivity|apply nth_upd_eq; lia].
  - intros c2 Hne. destruct (Nat.eqb_spec (nopen s - 1) 0) as [E0|E0].
    + destruct (nth c2 (iol s) None) as [j|] eqn:Hj; [|destruct c2; reflexivity].
      exfalso. apply Hne. symmetry. eapply (handles_one (iol s)); eauto. lia.
    + apply nth_upd_neq. auto.
Qed.

(* ============================================================================================ cgio / ADF sessions *)
Record HInv (w : world) (s : io) (live : mlive) : Prop := mkHInv {
  hi_io : IOInv w s (map l_h live);
  hi_1 : forall e, In e live -> exists c1, l_h e = S c1 /\ nth c1 (iol s) None = Some (l_slot e) /\
                                        fname (slot_at (io_adf s) (l_slot e)) = Some (l_tag e);
  hi_2 : forall c1 idx, nth c1 (iol s) None = Some idx -> exists n, In (S c1, idx, n) live;
  hi_3 : NoDup (map l_h live);
  hi_4 : forall c1 c2 idx, nth c1 (iol s) None = Some idx -> nth c2 (iol s) None = Some idx -> c1 = c2
}.

Lemma IOInv_pend w s p p' : (forall c1 idx, nth c1 (iol s) None = Some idx -> In (S c1) p') -> IOInv w s p -> IOInv w s p'.
Proof. intros H [I C Z P]. constructor; auto. Qed.

Lemma HInv_init w : HInv w io_init [].
Proof.
  constructor; simpl; try tauto.
  - apply IOInv_init.
  - intros c1 idx. destruct c1; discriminate.
  - constructor.
  - intros c1 c2 idx. destruct c1; discriminate.
Qed.

Lemma live_slot_in_handles w s live e : HInv w s live -> In e live -> In (l_slot e) (handles (iol s)).
Proof. intros H He. destruct (hi_1 _ _ _ H e He) as (c1 & _ & Hn & _). apply handles_in. eauto. Qed.

Lemma hstep_HInv w fuel s live o s1 l1 r :
  HInv w s live -> hstep fuel w s live o = Some (s1, l1, r) -> HInv w s1 l1.
Proof.
  intros H. pose proof H as [IO L1 L2 L3 L4]. pose proof IO as [I C Z P].
  unfold hstep. destruct (step Cur fuel w s o) as [[s' r']|] eqn:St; [|discriminate].
  pose proof (step_inv _ _ _ _ _ _ _ IO St) as IO'.
  intros Q. inversion Q; subst. clear Q.
  destruct o as [n rw|c ch|c]; simpl in St.
  - (* open *)
    destruct (cgio_open_file Cur fuel w s n rw) as [[s2 ro]|] eqn:Op; [|discriminate]. inversion St; subst.
    pose proof (cgio_open_spec _ _ _ _ _ _ _ Op) as Sp. destruct ro as [c|].
    + destruct Sp as (k & idx & -> & Ao & Kn & Kn1 & Oth & Nn). simpl. rewrite Kn1.
      destruct (adf_open_inv _ _ _ _ _ _ _ _ I Ao) as (Hi & Z0 & E1 & E2).
      assert (Fresh : forall c1 j, nth c1 (iol s) None = Some j -> c1 <> k /\ j <> idx).
      { intros c1 j Hn. split; [intros ->; congruence|]. intros ->. exact (handle_in_use _ _ _ _ _ I Hn Z0). }
      constructor.
      * simpl in IO'. exact IO'.
      * intros e [<-|He]; unfold l_h, l_slot, l_tag; simpl.
        -- exists k. rewrite E1. auto.
        -- destruct (L1 e He) as (c1 & A & B & Cn). destruct (Fresh _ _ B) as [F1 F2].
           exists c1. rewrite Oth by auto. rewrite E2 by auto. auto.
      * intros c1 j Hn. destruct (Nat.eq_dec c1 k) as [->|Hne].
        -- rewrite Kn1 in Hn. inversion Hn; subst. exists n. left. reflexivity.
        -- rewrite Oth in Hn by auto. destruct (L2 _ _ Hn) as (n0 & Hin). exists n0. right. exact Hin.
      * simpl. constructor; auto. intros Hin. apply in_map_iff in Hin. destruct Hin as (e & E & He).
        destruct (L1 e He) as (c1 & A & B & _). rewrite E in A. inversion A; subst. congruence.
      * intros c1 c2 j H1 H2.
        destruct (Nat.eq_dec c1 k) as [->|N1]; destruct (Nat.eq_dec c2 k) as [->|N2]; auto.
        -- rewrite Kn1 in H1. inversion H1; subst. rewrite Oth in H2 by auto. destruct (Fresh _ _ H2). congruence.
        -- rewrite Kn1 in H2. inversion H2; subst. rewrite Oth in H1 by auto. destruct (Fresh _ _ H1). congruence.
        -- rewrite Oth in H1, H2 by auto. eapply L4; eauto.
    + destruct Sp as (Ei & En & Ad). simpl.
      assert (K0 : forall a', (a' = io_adf s \/ adf_database_open Cur fuel w (io_adf s) n rw = Some (a', None)) ->
                             names_kept (handles (iol s)) (io_adf s) a').
      { intros a' [->|Ao]; [intros idx _; reflexivity|]. exact (adf_open_names _ _ _ _ _ _ _ _ I Ao). }
      pose proof (K0 _ Ad) as K. clear K0.
      constructor.
      * exact IO'.
      * intros e He. destruct (L1 e He) as (c1 & A & B & Cn). exists c1. rewrite Ei. split; auto. split; auto.
        rewrite K; auto. eapply live_slot_in_handles; eauto.
      * intros c1 idx. rewrite Ei. apply L2.
      * exact L3.
      * intros c1 c2 idx. rewrite Ei. apply L4.
  - (* walk *)
    destruct (cgio_walk Cur fuel w s c ch) as [[s2 ok]|] eqn:Wk; [|discriminate]. inversion St; subst. simpl.
    unfold cgio_walk in Wk. destruct c as [|c1]; [inversion Wk; subst; exact H|].
    destruct (nth c1 (iol s) None) as [idx|]; [|inversion Wk; subst; exact H].
    destruct (walk Cur fuel w (io_adf s) idx ch) as [[a1 ok']|] eqn:W; [|discriminate]. inversion Wk; subst.
    pose proof (walk_names _ _ _ _ _ _ _ _ I W) as K.
    constructor; simpl; auto.
    intros e He. destruct (L1 e He) as (c2 & A & B & Cn). exists c2. split; auto. split; auto.
    rewrite K; auto. eapply live_slot_in_handles; eauto.
  - (* close *)
    destruct (cgio_close_file Cur fuel s c) as [[s2 rc]|] eqn:Cl; [|discriminate]. inversion St; subst.
    destruct (cgio_close_spec _ _ _ _ _ _ _ IO Cl) as [(-> & c1 & idx & -> & Hc & Ac & Nc & Oth)|(-> & Rn & Rr)].
    + simpl.
      destruct (handles_upd_none _ _ _ Hc) as [A _].
      assert (I' : Inv w (io_adf s) (idx :: handles (upd (iol s) c1 None)) []) by (apply (Inv_U w _ (handles (iol s))); auto).
      assert (Keep : forall e, In e live -> l_h e <> S c1 ->
                exists c2, c2 <> c1 /\ l_h e = S c2 /\ nth c2 (iol s) None = Some (l_slot e) /\ In (l_slot e) (handles (upd (iol s) c1 None))).
      { intros e He Hne. destruct (L1 e He) as (c2 & A2 & B2 & _). exists c2.
        assert (c2 <> c1) by (intros ->; congruence). repeat split; auto.
        apply handles_in. exists c2. rewrite nth_upd_neq by auto. exact B2. }
      constructor.
      * eapply IOInv_pend; [|exact IO']. intros c2 j Hn.
        destruct (Nat.eq_dec c2 c1) as [->|Hne]; [congruence|]. rewrite Oth in Hn by auto.
        destruct (L2 _ _ Hn) as (n0 & Hin). apply in_map_iff. exists (S c2, j, n0). split; auto.
        apply in_drop_h. split; [auto|unfold l_h; simpl; lia].
      * intros e He. apply in_drop_h in He. destruct He as [He Hne].
        destruct (Keep e He Hne) as (c2 & N2 & A2 & B2 & Hin). exists c2. split; auto. split; [rewrite Oth; auto|].
        destruct (close_keeps_referenced _ _ _ _ _ _ _ I' Ac _ Hin) as (Fn & _). rewrite Fn.
        destruct (L1 e He) as (c3 & _ & _ & Cn). exact Cn.
      * intros c2 j Hn. destruct (Nat.eq_dec c2 c1) as [->|Hne]; [congruence|]. rewrite Oth in Hn by auto.
        destruct (L2 _ _ Hn) as (n0 & Hin). exists n0. apply in_drop_h. split; [auto|unfold l_h; simpl; lia].
      * unfold drop_h. apply NoDup_map_filter. exact L3.
      * intros c2 c3 j H2 H3.
        destruct (Nat.eq_dec c2 c1) as [->|N2]; [congruence|]. destruct (Nat.eq_dec c3 c1) as [->|N3]; [congruence|].
        rewrite Oth in H2, H3 by auto. eapply L4; eauto.
    + assert (El : (match rc with ROk => drop_h c live | _ => live end) = live) by (destruct Rr as [->| ->]; reflexivity).
      rewrite El. exact H.
Qed.

Lemma hrun_HInv w fuel ops : forall s live s' live', HInv w s live -> hrun fuel w s live ops = Some (s', live') -> HInv w s' live'.
Proof.
  induction ops as [|o r IH]; intros s live s' live' H; simpl.
  - intros Q. inversion Q; subst. exact H.
  - destruct (hstep fuel w s live o) as [[[s1 l1] x]|] eqn:St; [|discriminate].
    intros Q. eapply IH; [|exact Q]. eapply hstep_HInv; eauto.
Qed.

(* (1) cgio + ADF: the handle of a file opened and not yet closed still selects the iolist slot that open filled, which
   still holds the ADF file index that open obtained, and that ADF slot is in use and still holds the file that was opened *)
Theorem io_handle_resolves : forall w fuel ops s live, hrun fuel w io_init [] ops = Some (s, live) ->
  forall e, In e live ->
    get_cgnsio s (l_h e) = true /\ cgio_resolve s (l_h e) = Some (l_slot e) /\
    adf_resolve (io_adf s) (l_slot e) = Some (l_slot e) /\ fname (slot_at (io_adf s) (l_slot e)) = Some (l_tag e).
Proof.
  intros w fuel ops s live R e He. pose proof (hrun_HInv _ _ _ _ _ _ _ (HInv_init w) R) as H.
  destruct (hi_1 _ _ _ H e He) as (c1 & A & B & Cn).
  pose proof (handle_in_use _ _ _ _ _ (io_inv _ _ _ (hi_io _ _ _ H)) B) as Hu. pose proof (in_use_lt _ _ Hu) as Hlt.
  rewrite A. simpl. repeat split; auto.
  - rewrite B. rewrite andb_true_r. apply Nat.ltb_lt. eapply nth_some_lt; eauto.
  - unfold adf_resolve. destruct (Nat.ltb_spec (l_slot e) (length (tab (io_adf s)))); [|lia].
    destruct (Nat.eqb_spec (in_use (slot_at (io_adf s) (l_slot e))) 0); [contradiction|reflexivity].
Qed.

(* (2) handles of simultaneously open files are pairwise distinct, select distinct iolist slots and distinct ADF slots *)
Theorem io_handles_distinct : forall w fuel ops s live, hrun fuel w io_init [] ops = Some (s, live) ->
  NoDup (map l_h live) /\ NoDup (map l_slot live).
Proof.
  intros w fuel ops s live R. pose proof (hrun_HInv _ _ _ _ _ _ _ (HInv_init w) R) as H.
  split; [exact (hi_3 _ _ _ H)|].
  pose proof (hi_3 _ _ _ H) as N. pose proof (hi_1 _ _ _ H) as L1. pose proof (hi_4 _ _ _ H) as L4. clear R H.
  induction live as [|e r IH]; simpl; [constructor|]. simpl in N. inversion N; subst. constructor.
  - intros Hin. apply H1. apply in_map_iff in Hin. destruct Hin as (e' & E & He').
    apply in_map_iff. exists e'. split; auto.
    destruct (L1 e (or_introl eq_refl)) as (c1 & A & B & _). destruct (L1 e' (or_intror He')) as (c2 & A' & B' & _).
    rewrite E in B'. rewrite (L4 _ _ _ B' B) in A'. congruence.
  - apply IH; auto. intros e' He'. apply L1. right. exact He'.
Qed.

(* (3) a number that is not the handle of a file open NOW: every operation that looks at the slot refuses it and nothing
   changes (cgio_close_file, and cgio_get_node_id / cgio_get_label of a traversal) *)
Theorem io_closed_handle_rejected : forall w fuel ops s live, hrun fuel w io_init [] ops = Some (s, live) ->
  forall c, ~ In c (map l_h live) ->
    get_cgnsio s c = false /\ cgio_resolve s c = None /\
    cgio_close_file Cur fuel s c = Some (s, RBadCgio) /\
    forall ch, cgio_walk Cur fuel w s c ch = Some (s, false).
Proof.
  intros w fuel ops s live R c Hn. pose proof (hrun_HInv _ _ _ _ _ _ _ (HInv_init w) R) as H.
  assert (G : cgio_resolve s c = None).
  { destruct c as [|c1]; [reflexivity|]. simpl. destruct (nth c1 (iol s) None) as [idx|] eqn:E; auto. exfalso.
    destruct (hi_2 _ _ _ H _ _ E) as (n & Hin). apply Hn. apply in_map_iff. exists (S c1, idx, n). auto. }
  split; [|split; auto; split].
  - destruct c as [|c1]; [reflexivity|]. simpl in *. rewrite G. apply andb_false_r.
  - unfold cgio_close_file. destruct c as [|c1]; [reflexivity|]. simpl in G.
    destruct (length (iol s) <=? c1); [reflexivity|]. rewrite G. reflexivity.
  - intros ch. unfold cgio_walk. destruct c as [|c1]; auto. simpl in G. rewrite G. reflexivity.
Qed.

(* the getter BEFORE /repo 137980e tested the RANGE only: while another file kept the table alive a closed number was
   accepted, and cgio_get_file_type / cgio_get_root_id / cgio_release_id, which do not look at the slot's type, returned
   status 0.  (The current getter refuses it: io_closed_handle_rejected.) *)
Lemma io_closed_slot_accepted_old :
  exists s live, hrun 100 w1 io_init [] [OOpen 0 false; OOpen 1 false; OClose 2] = Some (s, live) /\
                 ~ In 2 (map l_h live) /\ cgio_resolve s 2 = None /\ get_cgnsio_old s 2 = true /\ get_cgnsio s 2 = false.
Proof.
  destruct (hrun 100 w1 io_init [] [OOpen 0 false; OOpen 1 false; OClose 2]) as [[s live]|] eqn:E; [|vm_compute in E; discriminate].
  vm_compute in E. inversion E; subst. clear E. eexists. eexists. split; [reflexivity|].
  split; [simpl; intros [Q|[]]; discriminate|]. repeat split; reflexivity.
Qed.

(* (4) closing one handle: every other open handle still selects the same iolist slot with the same ADF index, and that
   ADF slot keeps its file, its links[] and its descriptor (its use count can only have lost link references) *)
Theorem io_close_touches_one_slot : forall w fuel ops s live c s' live' r,
  hrun fuel w io_init [] ops = Some (s, live) -> hstep fuel w s live (OClose c) = Some (s', live', r) ->
  forall e, In e live -> l_h e <> c ->
    In e live' /\ cgio_resolve s' (l_h e) = Some (l_slot e) /\
    fname (slot_at (io_adf s') (l_slot e)) = fname (slot_at (io_adf s) (l_slot e)) /\
    links (slot_at (io_adf s') (l_slot e)) = links (slot_at (io_adf s) (l_slot e)) /\
    fd_open (slot_at (io_adf s') (l_slot e)) = fd_open (slot_at (io_adf s) (l_slot e)) /\
    in_use (slot_at (io_adf s') (l_slot e)) <> 0.
Proof.
  intros w fuel ops s live c s' live' r R St e He Hne.
  pose proof (hrun_HInv _ _ _ _ _ _ _ (HInv_init w) R) as H. pose proof H as [IO L1 L2 L3 L4]. pose proof IO as [I C Z P].
  pose proof (hstep_HInv _ _ _ _ _ _ _ _ H St) as H'.
  unfold hstep in St. simpl in St.
  destruct (cgio_close_file Cur fuel s c) as [[s2 rc]|] eqn:Cl; [|discriminate]. inversion St; subst. clear St.
  destruct (L1 e He) as (c2 & A2 & B2 & Cn).
  destruct (cgio_close_spec _ _ _ _ _ _ _ IO Cl) as [(-> & c1 & idx & -> & Hc & Ac & Nc & Oth)|(-> & Rn & Rr)].
  - assert (N21 : c2 <> c1) by (intros ->; congruence).
    destruct (handles_upd_none _ _ _ Hc) as [A _].
    assert (I' : Inv w (io_adf s) (idx :: handles (upd (iol s) c1 None)) []) by (apply (Inv_U w _ (handles (iol s))); auto).
    assert (Hin : In (l_slot e) (handles (upd (iol s) c1 None))).
    { apply handles_in. exists c2. rewrite nth_upd_neq by auto. exact B2. }
    destruct (close_keeps_referenced _ _ _ _ _ _ _ I' Ac _ Hin) as (F1 & F2 & F3 & F4).
    split; [apply in_drop_h; auto|]. rewrite A2. simpl. rewrite Oth by auto. auto.
  - assert (El : (match rc with ROk => drop_h c live | _ => live end) = live) by (destruct Rr as [->| ->]; reflexivity).
    rewrite El. split; auto. rewrite A2. simpl. split; auto. repeat split; auto.
    eapply handle_in_use; eauto.
Qed.

(* non-vacuity: eight files open at once, opened and closed in an interleaved order with slot reuse and table growth *)
Definition w8 : world := mkW (repeat KOk 8) [(0, 1); (2, 1)] [] [].
Definition ops8 : list op :=
  [OOpen 0 false; OOpen 1 true; OOpen 2 false; OClose 2; OOpen 3 false; OOpen 4 false; OOpen 5 true; OOpen 6 false;
   OOpen 7 false; OWalk 1 [(1, false)]; OOpen 2 false; OWalk 2 [(1, false)]; OClose 1; OOpen 0 true].

Lemma io_example8 :
  exists s live, hrun 1000 w8 io_init [] ops8 = Some (s, live) /\ length live = 8 /\ length (iol s) = 8 /\
                 map l_h live = [1; 8; 7; 6; 5; 4; 2; 3].
Proof.
  destruct (hrun 1000 w8 io_init [] ops8) as [[s live]|] eqn:E; [|vm_compute in E; discriminate].
  vm_compute in E. inversion E; subst. clear E. eexists. eexists. split; [reflexivity|]. repeat split; reflexivity.
Qed.

Definition mops8 : list mop :=
  [MOpen OSuccess; MOpen OSuccess; MOpen OLateFail; MOpen OSuccess; MClose 2 true; MOpen OCgioFail; MOpen OSuccess;
   MOpen OSuccess; MOpen OSuccess; MOpen OSuccess; MOpen OSuccess; MOpen OSuccess; MClose 1 true].

Lemma mll_example8 :
  exists m live, mh_run MCur mll_init [] mops8 = (m, live) /\ length live = 7 /\ n_open m = 7 /\ fsize m = 16 /\
                 map l_h live = [10; 9; 8; 7; 6; 5; 4].
Proof.
  destruct (mh_run MCur mll_init [] mops8) as [m live] eqn:E. vm_compute in E. inversion E; subst. clear E.
  eexists. eexists. split; [reflexivity|]. repeat split; reflexivity.
Qed.

(* ============================================================================================ statements per level *)
Lemma cgio_handle_resolves : forall w fuel ops s live, hrun fuel w io_init [] ops = Some (s, live) ->
  forall e, In e live -> get_cgnsio s (l_h e) = true /\ cgio_resolve s (l_h e) = Some (l_slot e).
Proof. intros. destruct (io_handle_resolves _ _ _ _ _ H e H0) as (A & B & _). auto. Qed.

Lemma adf_handle_resolves : forall w fuel ops s live, hrun fuel w io_init [] ops = Some (s, live) ->
  forall e, In e live -> adf_resolve (io_adf s) (l_slot e) = Some (l_slot e) /\
                         fname (slot_at (io_adf s) (l_slot e)) = Some (l_tag e).
Proof. intros. destruct (io_handle_resolves _ _ _ _ _ H e H0) as (_ & _ & C & D). auto. Qed.

(* ADF: a file index whose slot is not in use (closed, never used, beyond the table) is refused by ADFI_close_file with
   ADF_FILE_NOT_OPENED and nothing changes -- both variants, every table *)
Lemma adf_closed_index_rejected : forall v fuel a i, adf_resolve a i = None ->
  adfi_close_file v (S (S fuel)) a i = Some (a, ADF_FILE_NOT_OPENED).
Proof.
  intros v fuel a i H. unfold adfi_close_file. simpl. unfold cm_step at 1. simpl.
  assert (B : (length (tab a) <=? i) || Nat.eqb (in_use (slot_at a i)) 0 = true).
  { unfold adf_resolve in H. destruct (Nat.ltb_spec i (length (tab a))).
    - destruct (Nat.eqb (in_use (slot_at a i)) 0); [apply orb_true_r|discriminate].
    - apply orb_true_intro. left. apply Nat.leb_le. lia. }
  rewrite B. unfold cm_step. simpl. reflexivity.
Qed.

(* ============================================================================================ per-slot attributes *)
(* ADF_file[i] also holds attributes of the file (old_version = legacy layout, format / os_size letters, link separator,
   pending version update).  A close leaves them in the entry; ADFI_open_file reassigns every one of them when it hands the
   entry out again.  Invariant, for BOTH variants and every session: an entry in use that holds a valid file has exactly the
   attributes that file's OWN header determines -- whatever files lived in the entry before. *)
Record AInv (w : world) (a : adf) : Prop := mkAInv {
  ai_len : length (amem a) = length (tab a);
  ai_nw : forall j, in_use (slot_at a j) = 0 -> fname (slot_at a j) = None;
  ai_own : forall j n, in_use (slot_at a j) <> 0 -> fname (slot_at a j) = Some n -> kind_of w n = KOk ->
                       attr_at a j = file_attr w n
}.

Lemma AInv_init w : AInv w (mkadf [] [] None []).
Proof.
  constructor; simpl; auto.
  - intros j _. unfold slot_at. simpl. destruct j; reflexivity.
  - intros j n H. exfalso. apply H. unfold slot_at. simpl. destruct j; reflexivity.
Qed.

(* every slot is unchanged, or cleared, or keeps its name while in use *)
Definition sk (a a' : adf) : Prop :=
  forall j, slot_at a' j = slot_at a j \/ slot_at a' j = free_slot \/
            (fname (slot_at a' j) = fname (slot_at a j) /\ in_use (slot_at a' j) <> 0).

Lemma AInv_sk w a a' : sk a a' -> amem a' = amem a -> length (tab a') = length (tab a) -> AInv w a -> AInv w a'.
Proof.
  intros K Em El [L NW OW]. constructor.
  - rewrite Em, El. exact L.
  - intros j Hz. destruct (K j) as [E|[E|[_ E]]]; [rewrite E in *; auto|rewrite E; reflexivity|contradiction].
  - intros j n Hu Hn Hk. unfold attr_at. rewrite Em. destruct (K j) as [E|[E|[En _]]].
    + rewrite E in *. apply OW; auto.
    + rewrite E in Hu. simpl in Hu. congruence.
    + rewrite En in Hn. apply OW; auto. intros Hz. rewrite (NW j Hz) in Hn. discriminate.
Qed.

Lemma AInv_set_cache w a c : AInv w a -> AInv w (set_cache a c).
Proof. intros H. apply (AInv_sk w a); auto. intros j. left. reflexivity. Qed.

Lemma set_slot_length a i s : length (tab (set_slot a i s)) = length (tab a).
Proof. unfold set_slot. simpl. apply upd_length. Qed.

Lemma AInv_set_in_use w a i k : k <> 0 -> AInv w a -> AInv w (set_in_use a i k).
Proof.
  intros Hk H. apply (AInv_sk w a); auto; [|apply set_slot_length].
  intros j. rewrite slot_set_in_use. destruct (Nat.eqb j i && (i <? length (tab a))) eqn:C; [|left; reflexivity].
  apply andb_prop in C. destruct C as [C _]. apply Nat.eqb_eq in C. subst. right. right. simpl. auto.
Qed.

Lemma AInv_really_close w a i : AInv w a -> AInv w (really_close a i).
Proof.
  intros H. apply (AInv_sk w a); auto; [|unfold really_close; simpl; apply upd_length].
  intros j. destruct (Nat.eq_dec j i) as [->|Hne].
  - destruct (Nat.lt_ge_cases i (length (tab a))).
    + right. left. apply slot_really_close_eq. auto.
    + left. unfold really_close, slot_at. simpl. rewrite upd_out by lia. reflexivity.
  - left. apply slot_really_close_neq. auto.
Qed.

Lemma AInv_free_if_idle w a : AInv w a -> AInv w (free_if_idle a).
Proof.
  intros H. unfold free_if_idle. destruct (forallb _ _); [|exact H]. constructor; simpl; auto.
  - intros j _. unfold slot_at. simpl. destruct j; reflexivity.
  - intros j n Hu. exfalso. apply Hu. unfold slot_at. simpl. destruct j; reflexivity.
Qed.

Lemma cm_step_AInv w v m m' : AInv w (cm_a m) -> cm_step v m = inl m' -> AInv w (cm_a m').
Proof.
  intros H St. unfold cm_step in St. destruct m as [a stk e]. simpl in *.
  destruct stk as [|[i|i k] rest]; [discriminate| |].
  - destruct ((length (tab a) <=? i) || Nat.eqb (in_use (slot_at a i)) 0) eqn:B; [inversion St; exact H|].
    apply orb_false_elim in B. destruct B as [_ B]. apply Nat.eqb_neq in B.
    destruct v; [inversion St; exact H|].
    destruct (Nat.eqb_spec (in_use (slot_at a i)) 1); inversion St; simpl; [exact H|].
    apply AInv_free_if_idle. apply AInv_set_in_use; auto. lia.
  - destruct (k <? length (links (slot_at a i))); [inversion St; exact H|].
    destruct (Nat.eqb_spec (in_use (slot_at a i)) 0); [inversion St; exact H|].
    destruct (Nat.eqb_spec (in_use (slot_at a i) - 1) 0); inversion St; simpl.
    + apply AInv_free_if_idle. apply AInv_really_close. exact H.
    + apply AInv_free_if_idle. apply AInv_set_in_use; auto.
Qed.

Lemma cm_run_AInv w v fuel : forall m a' e, AInv w (cm_a m) -> loopN (cm_step v) fuel m = inr (a', e) -> AInv w a'.
Proof.
  induction fuel as [|fuel IH]; intros m a' e H Run; [discriminate|].
  simpl in Run. destruct (cm_step v m) as [m'|r] eqn:St.
  - eapply IH; [|exact Run]. eapply cm_step_AInv; eauto.
  - inversion Run; subst. unfold cm_step in St. destruct (cm_stk m) as [|[i|i k] rest].
    + inversion St; subst. exact H.
    + destruct (_ || _); [discriminate|]. destruct v; [discriminate|]. destruct (Nat.eqb _ 1); discriminate.
    + destruct (_ <? _); [discriminate|]. destruct (Nat.eqb _ 0); [discriminate|]. destruct (Nat.eqb _ 0); discriminate.
Qed.

Lemma close_AInv w v fuel a i a' e : AInv w a -> adfi_close_file v fuel a i = Some (a', e) -> AInv w a'.
Proof.
  intros H. unfold adfi_close_file. destruct (loopN _ _ _) as [|[a1 e1]] eqn:Run; [discriminate|].
  intros Q. inversion Q; subst. exact (cm_run_AInv w v fuel (mkcm a [FEnter i] 0) _ _ H Run).
Qed.

Lemma read_header_init l : read_header (Some (layout_attr l)) (reset_attr zero_attr) = layout_attr l.
Proof. destruct l; reflexivity. Qed.

Lemma nth_upd_attr (m : list fattr) i j x : nth j (upd m i x) zero_attr = if Nat.eqb j i && (i <? length m) then x else nth j m zero_attr.
Proof.
  destruct (Nat.eqb_spec j i) as [->|Hne]; simpl.
  - destruct (Nat.ltb_spec i (length m)); [apply nth_upd_eq; auto|rewrite upd_out by lia; reflexivity].
  - apply nth_upd_neq. auto.
Qed.

(* THE ENTRY HANDED OUT: whatever the table, the ledger, the cache and the attribute memory were before, the attributes of
   the entry ADFI_open_file fills are those of a reset entry updated from the file's header -- nothing of the previous
   occupant survives *)
Lemma open_slot_fields_initialised a n hdr a1 i :
  length (amem a) = length (tab a) -> adfi_open_file a n hdr true = (a1, Some i) ->
  attr_at a1 i = read_header hdr init_attr.
Proof.
  intros L. unfold adfi_open_file. destruct (find_free_spec (tab a)) as [F1 _].
  set (i0 := find_free (tab a)) in *.
  destruct (MAXIMUM_FILES <? i0); [discriminate|]. intros Q. inversion Q; subst. unfold attr_at. simpl.
  rewrite nth_upd_attr, Nat.eqb_refl. simpl.
  destruct (Nat.ltb_spec i0 (length (tab a))) as [Hlt|Hge]; simpl.
  - destruct (Nat.ltb_spec i0 (length (amem a))); [reflexivity|lia].
  - rewrite app_length, ?repeat_length. unfold ADF_FILE_INC. simpl.
    match goal with |- context [?x <? ?y] => destruct (Nat.ltb_spec x y); [reflexivity|lia] end.
Qed.

Lemma adfi_open_AInv w a n k rw a1 r : k = kind_of w n -> AInv w a ->
  adfi_open_file a n (if header_ok k then Some (file_attr w n) else None) (os_open_ok k rw) = (a1, r) -> AInv w a1.
Proof.
  intros Hk H Op. pose proof H as [L NW OW].
  pose proof (adfi_open_file_spec _ _ _ _ _ _ Op) as Sp.
  unfold adfi_open_file in Op. destruct (find_free_spec (tab a)) as [F1 _].
  set (i := find_free (tab a)) in *.
  set (grow := negb (i <? length (tab a))) in *.
  set (t1 := if grow then tab a ++ repeat free_slot ADF_FILE_INC else tab a) in *.
  set (m1 := if grow then amem a ++ repeat zero_attr ADF_FILE_INC else amem a) in *.
  assert (Lm : length m1 = length t1).
  { unfold m1, t1. destruct grow; [rewrite !app_length, !repeat_length|]; lia. }
  assert (Nm : forall j, j < length (tab a) -> nth j m1 zero_attr = nth j (amem a) zero_attr).
  { intros j Hj. unfold m1. destruct grow; [apply app_nth1; lia|reflexivity]. }
  assert (S1 : forall j led c am, slot_at (mkadf t1 led c am) j = slot_at a j).
  { intros j led c am. unfold t1. destruct grow; [|reflexivity]. rewrite slot_at_app_free. reflexivity. }
  assert (Li : i < length t1).
  { unfold t1, grow. destruct (Nat.ltb_spec i (length (tab a))); cbn [negb]; [lia|]. rewrite app_length, repeat_length. unfold ADF_FILE_INC. lia. }
  assert (Keep : forall led c (x : unit), AInv w (mkadf t1 led c m1) /\ True).
  { intros led c x. split; auto. constructor; simpl; auto.
    - intros j. rewrite S1. apply NW.
    - intros j n0 Hu Hn Hk0. rewrite S1 in Hu, Hn. unfold attr_at. simpl. rewrite Nm by (apply in_use_lt; exact Hu). apply OW; auto. }
  destruct (MAXIMUM_FILES <? i); [inversion Op; subst; apply (proj1 (Keep _ _ tt))|].
  destruct (os_open_ok k rw); inversion Op; subst; clear Op; destruct Sp as [Sp1 Sp2].
  - (* success *)
    destruct Sp2 as (Li2 & E1 & E2 & _). constructor; simpl.
    + rewrite !upd_length. exact Lm.
    + intros j Hz. destruct (Nat.eq_dec j i) as [->|Hne]; [rewrite E1 in Hz; simpl in Hz; lia|]. rewrite E2 in * by auto. auto.
    + intros j n0 Hu Hn Hk0. unfold attr_at. simpl. rewrite nth_upd_attr.
      destruct (Nat.eq_dec j i) as [->|Hne].
      * rewrite Nat.eqb_refl. destruct (Nat.ltb_spec i (length m1)); [|lia]. simpl.
        rewrite E1 in Hn. simpl in Hn. inversion Hn; subst. rewrite Hk0. simpl.
        unfold file_attr. unfold reset_attr. apply (read_header_init (nth n0 (layouts w) LNative)).
      * destruct (Nat.eqb_spec j i); [contradiction|]. simpl. rewrite E2 in Hu, Hn by auto.
        rewrite Nm by (apply in_use_lt; exact Hu). apply OW; auto.
  - (* Error_Exit *)
    constructor; simpl.
    + rewrite !upd_length. exact Lm.
    + intros j Hz. destruct (Nat.eq_dec j i) as [->|Hne]; [rewrite slot_at_upd_eq by exact Li; reflexivity|].
      rewrite slot_at_upd_neq in * by auto. rewrite S1 in *. auto.
    + intros j n0 Hu Hn Hk0. destruct (Nat.eq_dec j i) as [->|Hne]; [rewrite slot_at_upd_eq in Hu by exact Li; simpl in Hu; congruence|].
      rewrite slot_at_upd_neq in Hu, Hn by auto. rewrite S1 in Hu, Hn. unfold attr_at. simpl. rewrite nth_upd_attr.
      destruct (Nat.eqb_spec j i); [contradiction|]. simpl. rewrite Nm by (apply in_use_lt; exact Hu). apply OW; auto.
Qed.

Lemma adf_open_AInv w v fuel a n rw a1 r : AInv w a -> adf_database_open v fuel w a n rw = Some (a1, r) -> AInv w a1.
Proof.
  intros H. unfold adf_database_open.
  assert (G : forall k, k = kind_of w n ->
     (let '(a1', oi) := adfi_open_file a n (if header_ok k then Some (file_attr w n) else None) (os_open_ok k rw) in
         match oi with
         | None => Some (a1', None)
         | Some i => if header_ok k then Some (a1', Some i)
                     else match adfi_close_file v fuel a1' i with
                          | None => None
                          | Some (a2, _) => Some (a2, None)
                          end
         end) = Some (a1, r) -> AInv w a1).
  { intros k Hk. destruct (adfi_open_file a n _ (os_open_ok k rw)) as [a1' [i|]] eqn:Op;
      pose proof (adfi_open_AInv _ _ _ _ _ _ _ Hk H Op) as H1.
    - destruct (header_ok k); [intros Q; inversion Q; subst; exact H1|].
      destruct (adfi_close_file v fuel a1' i) as [[a2 e]|] eqn:Cl; [|discriminate].
      intros Q. inversion Q; subst. eapply close_AInv; eauto.
    - intros Q. inversion Q; subst. exact H1. }
  destruct (kind_of w n) eqn:K; try (apply (G _ eq_refl)). intros Q. inversion Q; subst. exact H.
Qed.

Lemma link_add_AInv w a f l b : in_use (slot_at a f) <> 0 -> AInv w a -> AInv w (link_add a f l b).
Proof.
  intros Hf H. unfold link_add. destruct (Nat.eqb f l); [exact H|]. destruct (existsb _ _); [exact H|].
  set (a1 := set_slot a f _).
  assert (H1 : AInv w a1).
  { apply (AInv_sk w a); auto; [|apply set_slot_length]. intros j. destruct (Nat.eq_dec j f) as [->|Hne].
    - destruct (Nat.lt_ge_cases f (length (tab a))).
      + right. right. unfold a1. rewrite slot_set_slot_eq by auto. simpl. auto.
      + left. unfold a1, set_slot, slot_at. simpl. rewrite upd_out by lia. reflexivity.
    - left. unfold a1. apply slot_set_slot_neq. auto. }
  destruct b; [|exact H1]. apply AInv_set_in_use; auto. lia.
Qed.

Lemma chase_AInv w v fuel a cur n dang a' r : AInv w a -> chase v fuel w a cur n dang = Some (a', r) -> AInv w a'.
Proof.
  intros H. unfold chase.
  destruct ((length (tab a) <=? cur) || Nat.eqb (in_use (slot_at a cur)) 0) eqn:Bad; [intros Q; inversion Q; subst; exact H|].
  apply orb_false_elim in Bad. destruct Bad as [_ Bu]. apply Nat.eqb_neq in Bu.
  destruct (fname (slot_at a cur)) as [nm|]; [|intros Q; inversion Q; subst; exact H].
  destruct (if dang then has_dlink w nm n else has_link w nm n); simpl; [|intros Q; inversion Q; subst; exact H].
  destruct (match lcache a with
            | Some (c, m, li) => if Nat.eqb c cur && Nat.eqb m n && negb dang then Some li else None
            | None => None
            end) as [hli|].
  { destruct ((length (tab a) <=? hli) || Nat.eqb (in_use (slot_at a hli)) 0); intros Q; inversion Q; subst; exact H. }
  assert (G : match find_name (tab a) n with
        | Some li => let a1 := link_add a cur li true in
                     if dang then Some (a1, None) else Some (set_cache a1 (Some (cur, n, li)), Some li)
        | None => match adf_database_open v fuel w a n true with
                  | None => None
                  | Some (a1, None) => Some (a1, None)
                  | Some (a1, Some li) => let a2 := link_add a1 cur li false in
                                          if dang then Some (a2, None) else Some (set_cache a2 (Some (cur, n, li)), Some li)
                  end
        end = Some (a', r) -> AInv w a').
  { destruct (find_name (tab a) n) as [li|].
    - pose proof (link_add_AInv w a cur li true Bu H) as H1.
      simpl. destruct dang; intros Q; inversion Q; subst; [exact H1|apply AInv_set_cache; exact H1].
    - destruct (adf_database_open v fuel w a n true) as [[a1 [li|]]|] eqn:Op; [| |discriminate].
      + pose proof (adf_open_AInv _ _ _ _ _ _ _ _ H Op) as H1.
        (* cur is still in use in a1: the open filled a slot that was free *)
        assert (Bu1 : in_use (slot_at a1 cur) <> 0).
        { unfold adf_database_open in Op. destruct (kind_of w n) eqn:K; try discriminate;
            (destruct (adfi_open_file a n _ _) as [a1' [i|]] eqn:Of; [|discriminate];
             pose proof (adfi_open_file_spec _ _ _ _ _ _ Of) as (Z & _ & _ & E2 & _); simpl in Op;
             first [ inversion Op; subst; rewrite E2; [exact Bu|intros ->; congruence]
                   | destruct (adfi_close_file v fuel a1' i) as [[? ?]|]; discriminate ]). }
        pose proof (link_add_AInv w a1 cur li false Bu1 H1) as H2.
        simpl. destruct dang; intros Q; inversion Q; subst; [exact H2|apply AInv_set_cache; exact H2].
      + intros Q. inversion Q; subst. exact (adf_open_AInv _ _ _ _ _ _ _ _ H Op). }
  destruct (kind_of w n); try exact G; intros Q; inversion Q; subst; exact H.
Qed.

Lemma walk_AInv w v fuel chain : forall a cur a' ok, AInv w a -> walk v fuel w a cur chain = Some (a', ok) -> AInv w a'.
Proof.
  induction chain as [|[n dang] r IH]; intros a cur a' ok H; simpl.
  - intros Q. inversion Q; subst. exact H.
  - destruct (chase v fuel w a cur n dang) as [[a1 [li|]]|] eqn:Ch; [| |discriminate].
    + intros Q. eapply IH; [|exact Q]. eapply chase_AInv; eauto.
    + intros Q. inversion Q; subst. eapply chase_AInv; eauto.
Qed.

Lemma cgio_open_AInv w v fuel s n rw s1 c : AInv w (io_adf s) -> cgio_open_file v fuel w s n rw = Some (s1, c) -> AInv w (io_adf s1).
Proof.
  intros H. unfold cgio_open_file.
  assert (G : match adf_database_open v fuel w (io_adf s) n rw with
         | None => None
         | Some (a1, None) => Some (mkio a1 (iol s) (nopen s), None)
         | Some (a1, Some idx) =>
             let l0 := match iol s with [] => repeat None 5 | l => l end in
             let k := first_none l0 in
             let l1 := if k <? length l0 then l0 else l0 ++ [None] in
             Some (mkio a1 (upd l1 k (Some idx)) (S (nopen s)), Some (S k))
         end = Some (s1, c) -> AInv w (io_adf s1)).
  { destruct (adf_database_open v fuel w (io_adf s) n rw) as [[a1 [idx|]]|] eqn:Op; [| |discriminate];
      intros Q; inversion Q; subst; simpl; eapply adf_open_AInv; eauto. }
  destruct (kind_of w n); try exact G; intros Q; inversion Q; subst; exact H.
Qed.

Lemma step_AInv w v fuel s o s' r : AInv w (io_adf s) -> step v fuel w s o = Some (s', r) -> AInv w (io_adf s').
Proof.
  intros H. destruct o as [n rw|c ch|c]; simpl.
  - destruct (cgio_open_file v fuel w s n rw) as [[s1 c]|] eqn:Op; [|discriminate].
    intros Q. inversion Q; subst. eapply cgio_open_AInv; eauto.
  - destruct (cgio_walk v fuel w s c ch) as [[s1 ok]|] eqn:Wk; [|discriminate].
    intros Q. inversion Q; subst. clear Q. revert Wk.
    unfold cgio_walk. destruct c as [|c1]; [intros Q; inversion Q; subst; exact H|].
    destruct (nth c1 (iol s) None) as [idx|]; [|intros Q; inversion Q; subst; exact H].
    destruct (walk v fuel w (io_adf s) idx ch) as [[a1 ok']|] eqn:W; [|discriminate].
    intros Q. inversion Q; subst. simpl. eapply walk_AInv; eauto.
  - destruct (cgio_close_file v fuel s c) as [[s1 rc]|] eqn:Cl; [|discriminate].
    intros Q. inversion Q; subst. clear Q. revert Cl.
    unfold cgio_close_file. destruct c as [|c1]; [intros Q; inversion Q; subst; exact H|].
    destruct (length (iol s) <=? c1); [intros Q; inversion Q; subst; exact H|].
    destruct (nth c1 (iol s) None) as [idx|]; [|intros Q; inversion Q; subst; exact H].
    destruct (length (tab (io_adf s)) <=? idx); [intros Q; inversion Q; subst; exact H|].
    destruct (adfi_close_file v fuel (io_adf s) idx) as [[a1 e]|] eqn:Cl; [|discriminate].
    pose proof (close_AInv _ _ _ _ _ _ _ H Cl) as H1.
    destruct (Nat.eqb e 0); intros Q; inversion Q; subst; exact H1.
Qed.

Lemma run_AInv w v fuel ops : forall s pend s' pend' rs,
  AInv w (io_adf s) -> run v fuel w s pend ops = Some (s', pend', rs) -> AInv w (io_adf s').
Proof.
  induction ops as [|o r IH]; intros s pend s' pend' rs H; simpl.
  - intros Q. inversion Q; subst. exact H.
  - destruct (step v fuel w s o) as [[s1 x]|] eqn:St; [|discriminate].
    destruct (run v fuel w s1 (track pend o x) r) as [[[s2 p2] xs]|] eqn:Rn; [|discriminate].
    intros Q. inversion Q; subst. eapply IH; [|exact Rn]. eapply step_AInv; eauto.
Qed.

(* every session, both variants: an entry of ADF_file[] in use that holds a valid file has the attributes of that file's
   own header *)
Theorem slot_fields_own : forall v w fuel ops s pend rs, run v fuel w io_init [] ops = Some (s, pend, rs) ->
  forall j n, in_use (slot_at (io_adf s) j) <> 0 -> fname (slot_at (io_adf s) j) = Some n -> kind_of w n = KOk ->
              attr_at (io_adf s) j = file_attr w n.
Proof.
  intros v w fuel ops s pend rs R. exact (ai_own _ _ (run_AInv w v fuel ops io_init [] _ _ _ (AInv_init w) R)).
Qed.

(* non-vacuity, the directed family of the seeded change C16-4: K (current layout) stays open; X (LEGACY layout) is opened
   into entry 1 and closed -- the entry keeps old_version = 1 --; Z (current layout) is opened into the same entry and has
   old_version = 0 *)
Definition w4 : world := mkW [KOk; KOk; KOk] [] [] [LNative; LLegacy; LBig].
Lemma layout_example :
  exists s1 s2 p1 p2 r1 r2,
    run Cur 100 w4 io_init [] [OOpen 0 false; OOpen 1 false; OClose 2] = Some (s1, p1, r1) /\
    in_use (slot_at (io_adf s1) 1) = 0 /\ a_old (attr_at (io_adf s1) 1) = true /\
    run Cur 100 w4 io_init [] [OOpen 0 false; OOpen 1 false; OClose 2; OOpen 2 true] = Some (s2, p2, r2) /\
    fname (slot_at (io_adf s2) 1) = Some 2 /\ attr_at (io_adf s2) 1 = layout_attr LBig /\ a_old (attr_at (io_adf s2) 1) = false.
Proof.
  destruct (run Cur 100 w4 io_init [] [OOpen 0 false; OOpen 1 false; OClose 2]) as [[[s1 p1] r1]|] eqn:E1; [|vm_compute in E1; discriminate].
  destruct (run Cur 100 w4 io_init [] [OOpen 0 false; OOpen 1 false; OClose 2; OOpen 2 true]) as [[[s2 p2] r2]|] eqn:E2; [|vm_compute in E2; discriminate].
  vm_compute in E1, E2. inversion E1; inversion E2; subst. clear E1 E2.
  do 6 eexists. repeat split; reflexivity.
Qed.

(* ------------------------------------------------------------------ the number a REFUSED cg_open leaves in the caller's variable *)
(* current code: whatever the table looked like, the number left by a failed cg_open does not resolve (the entry was given back
   with mode CG_MODE_CLOSED, or the whole table was released and the offset moved past the number), and cg_close of it is
   refused without touching anything *)
Theorem failed_open_number_dead : forall m oc m' fn,
  cg_open MCur m oc = (m', None) -> fn_left m oc = Some fn ->
  cgi_get_file m' fn = None /\ forall ok, cg_close MCur m' fn ok = (m', false).
Proof.
  intros m oc m' fn Op Fl. destruct oc; simpl in Fl; try discriminate; inversion Fl; subst; clear Fl.
  (* OCgioFail stores nothing, OSuccess does not return an error: OLateFail is left *)
  - unfold cg_open in Op. simpl in Op. inversion Op; subst; clear Op.
    unfold mll_release. simpl.
    destruct (Nat.eqb (n_open m - 0) 0) eqn:E.
    + assert (Q : cgi_get_file
        {| n_open := 0; files := []; fsize := 0; foffset := foffset m + length (files m ++ [Some (nexth m)]);
           held := rem1 (nexth m) (nexth m :: held m); nexth := S (nexth m) |} (length (files m) + 1 + foffset m) = None).
      { unfold cgi_get_file. simpl. rewrite app_length. simpl.
        replace (length (files m) + 1 + foffset m <=? foffset m + (length (files m) + 1)) with true; [reflexivity|].
        symmetry. apply Nat.leb_le. lia. }
      split; [exact Q|]. intros ok. unfold cg_close. simpl. rewrite app_length. simpl.
      replace (length (files m) + 1 + foffset m <=? foffset m + (length (files m) + 1)) with true; [reflexivity|].
      symmetry. apply Nat.leb_le. lia.
    + assert (N : nth (length (files m) + 1 + foffset m - foffset m - 1) (upd (files m ++ [Some (nexth m)]) (length (files m)) None) None = None).
      { replace (length (files m) + 1 + foffset m - foffset m - 1) with (length (files m)) by lia.
        apply nth_upd_eq. rewrite app_length. simpl. lia. }
      split.
      * unfold cgi_get_file. simpl.
        destruct ((length (files m) + 1 + foffset m <=? foffset m) || _); [reflexivity|]. rewrite N. reflexivity.
      * intros ok. unfold cg_close. simpl.
        destruct ((length (files m) + 1 + foffset m <=? foffset m) || _); [reflexivity|]. rewrite N. reflexivity.
Qed.

(* the code before def473d returned CG_ERROR with everything in place: the number left by the refused open resolved *)
Lemma failed_open_number_alive_old :
  exists m', cg_open MOld mll_init OLateFail = (m', None) /\ fn_left mll_init OLateFail = Some 1 /\ cgi_get_file m' 1 = Some 0.
Proof. eexists. split; [reflexivity|]. split; reflexivity. Qed.

(* ... and it stays dead for the rest of the process: "at or below the high-water mark, and its entry (while the table lives) is
   closed" is preserved by every cg_open and cg_close -- closed entries are never filled again, new ones are appended, and a
   released table moves the offset past every number it ever covered *)
Definition dead (m : mll) (fn : nat) : Prop :=
  fn <= length (files m) + foffset m /\ (foffset m < fn -> nth (fn - foffset m - 1) (files m) None = None).

Lemma dead_get m fn : dead m fn -> cgi_get_file m fn = None.
Proof.
  intros [H1 H2]. unfold cgi_get_file.
  destruct (Nat.leb_spec fn (foffset m)); simpl; [reflexivity|].
  destruct (Nat.ltb_spec (length (files m)) (fn - foffset m)); [reflexivity|].
  rewrite H2 by lia. reflexivity.
Qed.

Lemma dead_release m fn i h : dead m fn -> dead (mll_release MCur m i h) fn.
Proof.
  intros [H1 H2]. unfold mll_release. destruct (Nat.eqb (n_open m - 1) 0).
  - split; simpl; lia.
  - split; simpl.
    + rewrite upd_length. exact H1.
    + intros Hf. destruct (Nat.eq_dec i (fn - foffset m - 1)) as [->|Hne].
      * destruct (Nat.lt_ge_cases (fn - foffset m - 1) (length (files m))).
        -- apply nth_upd_eq. assumption.
        -- rewrite upd_out by lia. apply H2. exact Hf.
      * rewrite nth_upd_neq by exact Hne. apply H2. exact Hf.
Qed.

Lemma dead_append m fn x no sz hl nh :
  dead m fn -> dead (mkmll no (files m ++ [x]) sz (foffset m) hl nh) fn.
Proof.
  intros [H1 H2]. split; simpl.
  - rewrite app_length. simpl. lia.
  - intros Hf. rewrite app_nth1 by lia. apply H2. exact Hf.
Qed.

Lemma dead_cg_open m fn oc m' r : dead m fn -> cg_open MCur m oc = (m', r) -> dead m' fn.
Proof.
  intros D Op. unfold cg_open in Op. destruct oc.
  - inversion Op; subst. exact D.
  - inversion Op; subst. apply dead_release. apply dead_append. exact D.
  - inversion Op; subst. apply dead_append. exact D.
Qed.

Lemma dead_cg_close m fn c ok m' r : dead m fn -> cg_close MCur m c ok = (m', r) -> dead m' fn.
Proof.
  intros D Cl. unfold cg_close in Cl.
  destruct ((c <=? foffset m) || (length (files m) <? c - foffset m)); [inversion Cl; subst; exact D|].
  destruct (nth (c - foffset m - 1) (files m) None); [|inversion Cl; subst; exact D].
  destruct ok; inversion Cl; subst; [apply dead_release|]; exact D.
Qed.

Lemma dead_run : forall ops m live fn m' live', dead m fn -> mh_run MCur m live ops = (m', live') -> dead m' fn.
Proof.
  induction ops as [|o ops IH]; intros m live fn m' live' D R; simpl in R.
  - inversion R; subst. exact D.
  - destruct o as [oc|c ok]; simpl in R.
    + destruct (cg_open MCur m oc) as [m1 r] eqn:Op. eapply IH; [|exact R]. eapply dead_cg_open; eauto.
    + destruct (cg_close MCur m c ok) as [m1 r] eqn:Cl. eapply IH; [|exact R]. eapply dead_cg_close; eauto.
Qed.

Lemma failed_open_dead m oc m' fn : cg_open MCur m oc = (m', None) -> fn_left m oc = Some fn -> dead m' fn.
Proof.
  intros Op Fl. destruct oc; simpl in Fl; try discriminate; inversion Fl; subst; clear Fl.
  unfold cg_open in Op. simpl in Op. inversion Op; subst; clear Op.
  unfold mll_release. simpl. destruct (Nat.eqb (n_open m - 0) 0).
  - split; simpl; rewrite ?app_length; simpl; lia.
  - split; simpl.
    + rewrite upd_length, app_length. simpl. lia.
    + intros _. replace (length (files m) + 1 + foffset m - foffset m - 1) with (length (files m)) by lia.
      apply nth_upd_eq. rewrite app_length. simpl. lia.
Qed.

(* THE STATEMENT: from any table, the number a refused cg_open left behind resolves to nothing, now and after any further
   opens and closes *)
Theorem failed_open_number_never_resolves : forall m oc m' fn live ops m'' live'',
  cg_open MCur m oc = (m', None) -> fn_left m oc = Some fn ->
  mh_run MCur m' live ops = (m'', live'') -> cgi_get_file m'' fn = None.
Proof.
  intros. apply dead_get. eapply dead_run; [|eassumption]. eapply failed_open_dead; eauto.
Qed.
