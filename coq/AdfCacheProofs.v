(* AdfCacheProofs.v -- proofs about the shared block buffers (AdfCache.v): coherence with the ideal store for every
   history whose steps satisfy [safe_step], the two holes, independence of files. *)
From Coq Require Import ZArith List Bool Lia FMapPositive.
From CgnsV Require Import AdfCache.
Import ListNotations.
Local Open Scope Z_scope.

Ltac Zify.zify_post_hook ::= Z.div_mod_to_equations.

(* ------------------------------------------------------------------ maps and files *)
Lemma key_inj p q : 0 <= p -> 0 <= q -> key p = key q -> p = q.
Proof. unfold key. intros Hp Hq H. apply Z2Pos.inj in H; lia. Qed.

Lemma lenZ_nonneg {A} (l : list A) : 0 <= lenZ l.
Proof. unfold lenZ. lia. Qed.
Lemma lenZ_cons {A} (x : A) l : lenZ (x :: l) = lenZ l + 1.
Proof. unfold lenZ. simpl length. lia. Qed.
Lemma lenZ_app {A} (a b : list A) : lenZ (a ++ b) = lenZ a + lenZ b.
Proof. unfold lenZ. rewrite app_length. lia. Qed.

Lemma mfind_add_eq m p x : mfind (PositiveMap.add (key p) x m) p = x.
Proof. unfold mfind. now rewrite PositiveMap.gss. Qed.
Lemma mfind_add_neq m p q x : 0 <= p -> 0 <= q -> p <> q -> mfind (PositiveMap.add (key p) x m) q = mfind m q.
Proof.
  intros Hp Hq Hn. unfold mfind. rewrite PositiveMap.gso; auto.
  intro E. apply Hn. symmetry. now apply key_inj.
Qed.

Lemma mfind_mput l : forall m p q, 0 <= p -> 0 <= q ->
  mfind (mput m p l) q = if (p <=? q) && (q <? p + lenZ l) then nth (Z.to_nat (q - p)) l 0 else mfind m q.
Proof.
  induction l as [|x r IH]; intros m p q Hp Hq; simpl mput.
  - unfold lenZ; simpl. destruct (Z.leb_spec p q), (Z.ltb_spec q (p + 0)); simpl; auto; lia.
  - rewrite IH by lia. rewrite lenZ_cons. pose proof (lenZ_nonneg r).
    destruct (Z.eq_dec q p) as [->|Hne].
    + rewrite mfind_add_eq.
      destruct (Z.leb_spec (p + 1) p), (Z.ltb_spec p (p + 1 + lenZ r)),
               (Z.leb_spec p p), (Z.ltb_spec p (p + (lenZ r + 1))); simpl; try lia.
      all: now replace (p - p) with 0 by lia.
    + rewrite mfind_add_neq by lia.
      destruct (Z.leb_spec (p + 1) q), (Z.ltb_spec q (p + 1 + lenZ r)),
               (Z.leb_spec p q), (Z.ltb_spec q (p + (lenZ r + 1))); simpl; try lia; auto.
      replace (Z.to_nat (q - p)) with (S (Z.to_nat (q - (p + 1)))) by lia. reflexivity.
Qed.

Lemma mget_length m : forall n p, length (mget m p n) = n.
Proof. induction n; intros; simpl; auto. Qed.
Lemma nth_mget m : forall n p i, (i < n)%nat -> nth i (mget m p n) 0 = mfind m (p + Z.of_nat i).
Proof.
  induction n; intros p i H; [lia|]. destruct i; simpl.
  - f_equal. lia.
  - rewrite IHn by lia. f_equal. lia.
Qed.

Lemma pread_len d p n : lenZ (pread d p n) = Z.max 0 (Z.min n (dlen d - p)).
Proof. unfold pread, lenZ. rewrite mget_length. lia. Qed.
Lemma nth_pread d p n i : 0 <= i < lenZ (pread d p n) -> nth (Z.to_nat i) (pread d p n) 0 = dnth d (p + i).
Proof.
  intros H. rewrite pread_len in H. unfold pread, dnth. rewrite nth_mget by lia. f_equal. lia.
Qed.

Lemma pwrite_len d p data : dlen d <= dlen (pwrite d p data).
Proof. unfold pwrite. destruct data; simpl; lia. Qed.
Lemma pwrite_len_end d p data : data <> [] -> p + lenZ data <= dlen (pwrite d p data).
Proof. unfold pwrite. destruct data; simpl; [congruence|lia]. Qed.
Lemma dnth_pwrite d p data q : 0 <= p -> 0 <= q ->
  dnth (pwrite d p data) q = if (p <=? q) && (q <? p + lenZ data) then nth (Z.to_nat (q - p)) data 0 else dnth d q.
Proof.
  intros Hp Hq. unfold pwrite, dnth. destruct data as [|x r].
  - unfold lenZ; simpl. destruct (Z.leb_spec p q), (Z.ltb_spec q (p + 0)); simpl; auto; lia.
  - cbn [dbytes]. now rewrite (mfind_mput (x :: r)).
Qed.

Lemma fget_nonneg s f d : fget s f = Some d -> 0 <= f.
Proof. unfold fget. destruct (Z.ltb_spec f 0); [discriminate|lia]. Qed.
Lemma fget_fset s f d g : 0 <= f -> fget (fset s f d) g = if g =? f then Some d else fget s g.
Proof.
  intros Hf. unfold fget, fset; simpl. destruct (Z.ltb_spec g 0), (Z.eqb_spec g f); try lia; auto.
  - subst. now rewrite PositiveMap.gss.
  - rewrite PositiveMap.gso; auto. intro E. apply key_inj in E; lia.
Qed.
Lemma fget_fdel s f g : 0 <= f -> fget (fdel s f) g = if g =? f then None else fget s g.
Proof.
  intros Hf. unfold fget, fdel; simpl. destruct (Z.ltb_spec g 0), (Z.eqb_spec g f); try lia; auto.
  - subst. now rewrite PositiveMap.grs.
  - rewrite PositiveMap.gro; auto. intro E. apply key_inj in E; lia.
Qed.
Lemma fget_with_cache s c f : fget (with_cache s c) f = fget s f.
Proof. reflexivity. Qed.
Lemma c_fset s f d : c_ (fset s f d) = c_ s. Proof. reflexivity. Qed.
Lemma c_fdel s f : c_ (fdel s f) = c_ s. Proof. reflexivity. Qed.
Lemma c_with_cache s c : c_ (with_cache s c) = c. Proof. reflexivity. Qed.

(* ------------------------------------------------------------------ buffers *)
Lemma nth_skipn_ {A} (d : A) : forall n l i, nth i (skipn n l) d = nth (n + i) l d.
Proof. induction n; intros [|x l] i; simpl; auto. destruct i; auto. Qed.
Lemma nth_firstn_ {A} (d : A) : forall n l i, (i < n)%nat -> nth i (firstn n l) d = nth i l d.
Proof. induction n; intros [|x l] i H; simpl; auto; try lia. destruct i; auto. apply IHn. lia. Qed.
Lemma bufput_length buf off data : 0 <= off -> (Z.to_nat off + length data <= length buf)%nat ->
  length (bufput buf off data) = length buf.
Proof. intros. unfold bufput. rewrite !app_length, firstn_length, skipn_length. lia. Qed.

Lemma nth_bufput buf off data i : 0 <= off -> (Z.to_nat off + length data <= length buf)%nat ->
  nth i (bufput buf off data) 0 =
  if (Z.to_nat off <=? i)%nat && (i <? Z.to_nat off + length data)%nat then nth (i - Z.to_nat off) data 0 else nth i buf 0.
Proof.
  intros Ho Hl. unfold bufput.
  assert (Hf : length (firstn (Z.to_nat off) buf) = Z.to_nat off) by (rewrite firstn_length; lia).
  destruct (Nat.leb_spec (Z.to_nat off) i); simpl.
  - rewrite app_nth2 by lia. rewrite Hf.
    destruct (Nat.ltb_spec i (Z.to_nat off + length data)).
    + rewrite app_nth1 by lia. reflexivity.
    + rewrite app_nth2 by lia. rewrite nth_skipn_. f_equal. lia.
  - rewrite app_nth1 by lia. apply nth_firstn_. lia.
Qed.

Lemma bufsub_length buf off len : 0 <= off -> 0 <= len -> (Z.to_nat off + Z.to_nat len <= length buf)%nat ->
  lenZ (bufsub buf off len) = len.
Proof. intros. unfold bufsub, lenZ. rewrite firstn_length, skipn_length. lia. Qed.
Lemma nth_bufsub buf off len i : (i < Z.to_nat len)%nat -> nth i (bufsub buf off len) 0 = nth (Z.to_nat off + i) buf 0.
Proof. intros. unfold bufsub. rewrite nth_firstn_ by lia. now rewrite nth_skipn_. Qed.

(* ------------------------------------------------------------------ the invariant *)
Definition in_blk (wb p : Z) : Prop := wb * BLK <= p < wb * BLK + BLK.

Record Inv (s : st) (I : ideal) : Prop := mkInv {
  inv_open : forall f, I f = None <-> fget s f = None;
  inv_rdlen : length (rd_buf (c_ s)) = Z.to_nat BLK;
  inv_wrlen : length (wr_buf (c_ s)) = Z.to_nat BLK;
  (* every byte of the ideal store is in the pending write block or in the file *)
  inv_disk : forall f m d p v, I f = Some m -> fget s f = Some d -> m p = Some v ->
      0 <= p /\ ((flush_wr (c_ s) > 0 /\ last_wr_file (c_ s) = f /\ in_blk (last_wr_block (c_ s)) p) \/
                 (p < dlen d /\ dnth d p = v));
  (* an identified write buffer (dirty or clean) agrees with the ideal store on its block *)
  inv_wr : forall m p v, I (last_wr_file (c_ s)) = Some m -> in_blk (last_wr_block (c_ s)) p -> m p = Some v ->
      nth (Z.to_nat (p - last_wr_block (c_ s) * BLK)) (wr_buf (c_ s)) 0 = v;
  (* an identified read buffer agrees with the ideal store on its block, which has nothing beyond the fill count *)
  inv_rd : forall m p v, I (last_rd_file (c_ s)) = Some m -> in_blk (last_rd_block (c_ s)) p -> m p = Some v ->
      p - last_rd_block (c_ s) * BLK < num_in_rd (c_ s) /\
      nth (Z.to_nat (p - last_rd_block (c_ s) * BLK)) (rd_buf (c_ s)) 0 = v;
  inv_dirty : flush_wr (c_ s) > 0 -> 0 <= last_wr_file (c_ s);
  inv_wr_use : 0 <= last_wr_file (c_ s) -> fget s (last_wr_file (c_ s)) <> None /\ 0 <= last_wr_block (c_ s);
  inv_rd_use : 0 <= last_rd_file (c_ s) -> fget s (last_rd_file (c_ s)) <> None
}.

Lemma BLK_val : BLK = 4096. Proof. reflexivity. Qed.
Global Opaque BLK.

Lemma inv_open_some s I f m : Inv s I -> I f = Some m -> exists d, fget s f = Some d /\ 0 <= f.
Proof.
  intros HI Hm. destruct (fget s f) as [d|] eqn:E.
  - exists d. split; auto. eapply fget_nonneg; eauto.
  - apply (inv_open _ _ HI) in E. congruence.
Qed.
Lemma inv_closed_neg s I f : Inv s I -> f < 0 -> I f = None.
Proof. intros HI Hf. apply (inv_open _ _ HI). unfold fget. destruct (Z.ltb_spec f 0); auto; lia. Qed.

Lemma fget_init f : fget init_st f = None.
Proof. unfold fget, init_st; simpl. destruct (f <? 0); auto. apply PositiveMap.gempty. Qed.

Lemma init_inv : Inv init_st ideal0.
Proof.
  constructor; intros; try rewrite fget_init in *; simpl in *; try discriminate; try lia;
    try apply repeat_length.
  split; auto.
Qed.

(* ------------------------------------------------------------------ ADFI_write_file, step by step *)
Lemma inval_rd_inv s I f b e : Inv s I -> Inv (with_cache s (inval_rd (c_ s) f b e)) I.
Proof.
  intros HI. unfold inval_rd.
  destruct ((last_rd_file (c_ s) =? f) && (last_rd_block (c_ s) >=? b) && (last_rd_block (c_ s) <=? e)).
  2: { destruct s as [fs c]; exact HI. }
  destruct HI as [H1 H2 H3 H4 H5 H6 H7 H8 H9].
  constructor; cbn [with_cache reset_rd c_ rd_buf wr_buf last_rd_block last_rd_file num_in_rd
                    last_wr_block last_wr_file flush_wr files]; auto.
  intros m p v Hm. assert (I (-1) = None) by (apply H1; reflexivity). congruence.
Qed.

Lemma inval_rd_wr c f b e :
  wr_buf (inval_rd c f b e) = wr_buf c /\ last_wr_block (inval_rd c f b e) = last_wr_block c /\
  last_wr_file (inval_rd c f b e) = last_wr_file c /\ flush_wr (inval_rd c f b e) = flush_wr c.
Proof. unfold inval_rd. destruct (_ && _ && _); simpl; auto. Qed.

(* after the invalidation no read buffer of file f sits on a block of [b, e] *)
Lemma inval_rd_post c f b e : last_rd_file (inval_rd c f b e) = f -> 0 <= f ->
  last_rd_block (inval_rd c f b e) < b \/ e < last_rd_block (inval_rd c f b e).
Proof.
  unfold inval_rd.
  destruct (Z.eqb_spec (last_rd_file c) f), (Z.geb_spec (last_rd_block c) b), (Z.leb_spec (last_rd_block c) e);
    simpl; intros; try lia.
Qed.

Lemma wr_buf_nonempty s I : Inv s I -> wr_buf (c_ s) <> [] /\ lenZ (wr_buf (c_ s)) = BLK.
Proof.
  intros HI. pose proof (inv_wrlen _ _ HI) as H. rewrite BLK_val in *. unfold lenZ. rewrite H.
  split; [|reflexivity]. destruct (wr_buf (c_ s)); [discriminate H|congruence].
Qed.

(* writing the pending block out: the file of the buffer receives all 4096 bytes at block * 4096 *)
Lemma flush_do_inv s I dw (idreset : bool) :
  Inv s I -> flush_wr (c_ s) > 0 -> fget s (last_wr_file (c_ s)) = Some dw ->
  Inv (with_cache (fset s (last_wr_file (c_ s)) (pwrite dw (last_wr_block (c_ s) * BLK) (wr_buf (c_ s))))
                  (if idreset then set_wr_id (set_flush (c_ s) (-2)) (-2) (-2) else set_flush (c_ s) (-2))) I.
Proof.
  intros HI Hd Hw.
  pose proof (wr_buf_nonempty _ _ HI) as [Hne Hlen].
  pose proof (inv_dirty _ _ HI Hd) as Hwf.
  pose proof (inv_wr_use _ _ HI Hwf) as [_ Hwb].
  pose proof BLK_val as HB.
  assert (Hfg : forall g, fget (with_cache (fset s (last_wr_file (c_ s))
              (pwrite dw (last_wr_block (c_ s) * BLK) (wr_buf (c_ s))))
              (if idreset then set_wr_id (set_flush (c_ s) (-2)) (-2) (-2) else set_flush (c_ s) (-2))) g =
              if g =? last_wr_file (c_ s) then Some (pwrite dw (last_wr_block (c_ s) * BLK) (wr_buf (c_ s))) else fget s g).
  { intros g. rewrite fget_with_cache. now apply fget_fset. }
  constructor.
  - intros g. rewrite Hfg. rewrite (inv_open _ _ HI g). destruct (Z.eqb_spec g (last_wr_file (c_ s))).
    + subst g. rewrite Hw. split; discriminate.
    + reflexivity.
  - rewrite c_with_cache. destruct idreset; apply (inv_rdlen _ _ HI).
  - rewrite c_with_cache. destruct idreset; apply (inv_wrlen _ _ HI).
  - intros g m d p v Hm Hg Hp. rewrite Hfg in Hg.
    destruct (inv_open_some _ _ _ _ HI Hm) as (d0 & Hd0 & Hg0).
    destruct (inv_disk _ _ HI g m d0 p v Hm Hd0 Hp) as [Hp0 Hcase].
    split; auto. right.
    destruct (Z.eqb_spec g (last_wr_file (c_ s))) as [->|Hne'].
    + inversion Hg; subst d; clear Hg. rewrite Hw in Hd0. inversion Hd0; subst d0.
      rewrite dnth_pwrite by lia. rewrite Hlen.
      destruct (Z.leb_spec (last_wr_block (c_ s) * BLK) p), (Z.ltb_spec p (last_wr_block (c_ s) * BLK + BLK)); simpl.
      * split.
        -- pose proof (pwrite_len_end dw (last_wr_block (c_ s) * BLK) _ Hne). lia.
        -- apply (inv_wr _ _ HI m p v Hm); auto. unfold in_blk. lia.
      * destruct Hcase as [(_ & _ & Hb)|[Hl Hv]]; [unfold in_blk in Hb; lia|].
        split; auto. pose proof (pwrite_len dw (last_wr_block (c_ s) * BLK) (wr_buf (c_ s))). lia.
      * destruct Hcase as [(_ & _ & Hb)|[Hl Hv]]; [unfold in_blk in Hb; lia|].
        split; auto. pose proof (pwrite_len dw (last_wr_block (c_ s) * BLK) (wr_buf (c_ s))). lia.
      * lia.
    + rewrite Hg in Hd0. inversion Hd0; subst d0.
      destruct Hcase as [(_ & Hf & _)|Hc]; [congruence|auto].
  - rewrite c_with_cache. destruct idreset; cbn.
    + intros m p v Hm. assert (I (-2) = None) by (apply (inv_closed_neg _ _ _ HI); lia). congruence.
    + apply (inv_wr _ _ HI).
  - rewrite c_with_cache. destruct idreset; cbn; apply (inv_rd _ _ HI).
  - rewrite c_with_cache. destruct idreset; cbn; lia.
  - rewrite c_with_cache. destruct idreset; cbn; [lia|].
    intros H0. rewrite Hfg. rewrite Z.eqb_refl. split; [discriminate|auto].
  - rewrite c_with_cache. intros H0.
    assert (Hr : last_rd_file (if idreset then set_wr_id (set_flush (c_ s) (-2)) (-2) (-2) else set_flush (c_ s) (-2))
                 = last_rd_file (c_ s)) by (destruct idreset; reflexivity).
    rewrite Hr in *. rewrite Hfg. destruct (Z.eqb_spec (last_rd_file (c_ s)) (last_wr_file (c_ s))); [discriminate|].
    apply (inv_rd_use _ _ HI H0).
Qed.

Definition flush_trigger (c : cache) (f b o len : Z) : bool :=
  (len + o >? BLK) || negb (last_wr_block c =? b) || negb (last_wr_file c =? f) || (len =? 0).

Lemma flush_wr_buffer_spec s I f b o len e : Inv s I ->
  exists s1, flush_wr_buffer s f b o len e = Some s1 /\ Inv s1 I /\
    (forall g, fget s1 g = None <-> fget s g = None) /\
    rd_buf (c_ s1) = rd_buf (c_ s) /\ last_rd_block (c_ s1) = last_rd_block (c_ s) /\
    last_rd_file (c_ s1) = last_rd_file (c_ s) /\ num_in_rd (c_ s1) = num_in_rd (c_ s) /\
    wr_buf (c_ s1) = wr_buf (c_ s) /\
    ((flush_trigger (c_ s) f b o len && (flush_wr (c_ s) >? 0) = false /\ s1 = s) \/
     (flush_trigger (c_ s) f b o len = true /\ flush_wr (c_ s) > 0 /\ flush_wr (c_ s1) = -2 /\
      ((last_wr_file (c_ s1) = -2 /\ last_wr_block (c_ s1) = -2) \/
       (last_wr_file (c_ s1) = last_wr_file (c_ s) /\ last_wr_block (c_ s1) = last_wr_block (c_ s) /\
        ~ (last_wr_file (c_ s) = f /\ b <= last_wr_block (c_ s) <= e))))).
Proof.
  intros HI. unfold flush_wr_buffer. fold (flush_trigger (c_ s) f b o len).
  destruct (flush_trigger (c_ s) f b o len && (flush_wr (c_ s) >? 0)) eqn:E.
  2: { exists s. do 8 (split; [first [reflexivity | assumption | (intros g; reflexivity)]|]). left; split; auto. }
  apply andb_true_iff in E. destruct E as [Et Ed]. apply Z.gtb_lt in Ed.
  assert (Hd : flush_wr (c_ s) > 0) by lia.
  pose proof (inv_dirty _ _ HI Hd) as Hwf. pose proof (inv_wr_use _ _ HI Hwf) as [Hu _].
  destruct (fget s (last_wr_file (c_ s))) as [dw|] eqn:Hw; [|congruence].
  cbn [last_wr_file last_wr_block set_flush].
  set (rst := (last_wr_file (c_ s) =? f) && (last_wr_block (c_ s) >=? b) && (last_wr_block (c_ s) <=? e)).
  eexists. split; [reflexivity|].
  pose proof (flush_do_inv s I dw rst HI Hd Hw) as HI'.
  replace (if rst then set_wr_id (set_flush (c_ s) (-2)) (-2) (-2) else set_flush (c_ s) (-2))
    with (if rst then set_wr_id (set_flush (c_ s) (-2)) (-2) (-2) else set_flush (c_ s) (-2)) in HI' by reflexivity.
  split; [exact HI'|].
  split.
  { intros g. rewrite fget_with_cache, fget_fset by lia. destruct (Z.eqb_spec g (last_wr_file (c_ s))).
    - subst. rewrite Hw. split; discriminate.
    - reflexivity. }
  rewrite c_with_cache.
  repeat (split; [destruct rst; reflexivity|]).
  right. split; auto. split; auto. split; [destruct rst; reflexivity|].
  destruct rst eqn:Er; [left; split; reflexivity|right].
  split; [reflexivity|]. split; [reflexivity|].
  intros (Hf & Hb1 & Hb2). unfold rst in Er.
  destruct (Z.eqb_spec (last_wr_file (c_ s)) f), (Z.geb_spec (last_wr_block (c_ s)) b),
           (Z.leb_spec (last_wr_block (c_ s)) e); simpl in Er; try discriminate; lia.
Qed.

Lemma in_blk_overlaps wb p p0 len : in_blk wb p -> p0 <= p < p0 + len -> overlaps wb p0 len = true.
Proof.
  unfold in_blk, overlaps. intros. apply andb_true_iff. split; [apply Z.ltb_lt|apply Z.ltb_lt]; lia.
Qed.
Lemma overlaps_between wb b o len : 0 <= o -> 0 <= len -> overlaps wb (b * BLK + o) len = true ->
  b <= wb <= b + (o + len) / BLK + 1.
Proof.
  unfold overlaps. rewrite BLK_val. intros Ho Hl H. apply andb_true_iff in H. destruct H as [H1 H2].
  apply Z.ltb_lt in H1. apply Z.ltb_lt in H2. lia.
Qed.

Lemma iupd_same I f v : iupd I f v f = v.
Proof. unfold iupd. now rewrite Z.eqb_refl. Qed.
Lemma iupd_other I f v g : g <> f -> iupd I f v g = I g.
Proof. unfold iupd. intros. destruct (Z.eqb_spec g f); congruence. Qed.

(* a large piece goes straight to the file *)
Lemma large_write_inv s I f b o data d m :
  Inv s I -> fget s f = Some d -> I f = Some m -> 0 <= b -> 0 <= o -> data <> [] ->
  flush_wr (c_ s) <= 0 ->
  ~ (last_wr_file (c_ s) = f /\ overlaps (last_wr_block (c_ s)) (b * BLK + o) (lenZ data) = true) ->
  ~ (last_rd_file (c_ s) = f /\ overlaps (last_rd_block (c_ s)) (b * BLK + o) (lenZ data) = true) ->
  Inv (fset s f (pwrite d (b * BLK + o) data)) (iupd I f (Some (store_write m (b * BLK + o) data))).
Proof.
  intros HI Hd Hm Hb Ho Hne Hcl Hw Hr.
  pose proof (fget_nonneg _ _ _ Hd) as Hf. pose proof BLK_val as HB.
  set (p0 := b * BLK + o) in *. assert (Hp0 : 0 <= p0) by (unfold p0; lia).
  assert (Hfg : forall g, fget (fset s f (pwrite d p0 data)) g = if g =? f then Some (pwrite d p0 data) else fget s g)
    by (intros; now apply fget_fset).
  constructor.
  - intros g. rewrite Hfg. destruct (Z.eqb_spec g f) as [->|Hn].
    + rewrite iupd_same. split; discriminate.
    + rewrite iupd_other by auto. apply (inv_open _ _ HI).
  - apply (inv_rdlen _ _ HI).
  - apply (inv_wrlen _ _ HI).
  - intros g m' d' p v Hm' Hg Hp. rewrite Hfg in Hg. rewrite c_fset.
    destruct (Z.eqb_spec g f) as [->|Hn].
    + rewrite iupd_same in Hm'. inversion Hm'; subst m'. inversion Hg; subst d'. clear Hm' Hg.
      unfold store_write in Hp. rewrite dnth_pwrite.
      2: lia.
      2: { destruct ((p0 <=? p) && (p <? p0 + lenZ data)) eqn:E.
           - apply andb_true_iff in E. destruct E as [E _]. apply Z.leb_le in E. lia.
           - destruct (inv_disk _ _ HI f m d p v Hm Hd Hp); auto. }
      destruct ((p0 <=? p) && (p <? p0 + lenZ data)) eqn:E.
      * apply andb_true_iff in E. destruct E as [E1 E2]. apply Z.leb_le in E1. apply Z.ltb_lt in E2.
        inversion Hp; subst v. split; [lia|]. right. split; auto.
        pose proof (pwrite_len_end d p0 data Hne). lia.
      * destruct (inv_disk _ _ HI f m d p v Hm Hd Hp) as [Hp' [(Hx & _)|[Hl Hv]]]; [lia|].
        split; auto. right. split; auto. pose proof (pwrite_len d p0 data). lia.
    + rewrite iupd_other in Hm' by auto.
      destruct (inv_disk _ _ HI g m' d' p v Hm' Hg Hp) as [Hp' [(Hx & _)|Hc]]; [lia|]. split; auto.
  - rewrite c_fset. intros m' p v Hm' Hblk Hp.
    destruct (Z.eq_dec (last_wr_file (c_ s)) f) as [E|E].
    + rewrite E, iupd_same in Hm'. inversion Hm'; subst m'. unfold store_write in Hp.
      destruct ((p0 <=? p) && (p <? p0 + lenZ data)) eqn:Ein.
      * exfalso. apply Hw. split; auto. apply andb_true_iff in Ein. destruct Ein as [E1 E2].
        apply Z.leb_le in E1. apply Z.ltb_lt in E2. eapply in_blk_overlaps; eauto.
      * apply (inv_wr _ _ HI m p v); auto. now rewrite E.
    + rewrite iupd_other in Hm' by auto. apply (inv_wr _ _ HI m' p v); auto.
  - rewrite c_fset. intros m' p v Hm' Hblk Hp.
    destruct (Z.eq_dec (last_rd_file (c_ s)) f) as [E|E].
    + rewrite E, iupd_same in Hm'. inversion Hm'; subst m'. unfold store_write in Hp.
      destruct ((p0 <=? p) && (p <? p0 + lenZ data)) eqn:Ein.
      * exfalso. apply Hr. split; auto. apply andb_true_iff in Ein. destruct Ein as [E1 E2].
        apply Z.leb_le in E1. apply Z.ltb_lt in E2. eapply in_blk_overlaps; eauto.
      * apply (inv_rd _ _ HI m p v); auto. now rewrite E.
    + rewrite iupd_other in Hm' by auto. apply (inv_rd _ _ HI m' p v); auto.
  - rewrite c_fset. apply (inv_dirty _ _ HI).
  - rewrite c_fset. intros H0. destruct (inv_wr_use _ _ HI H0) as [Hu Hb']. split; auto.
    rewrite Hfg. destruct (Z.eqb_spec (last_wr_file (c_ s)) f); [discriminate|auto].
  - rewrite c_fset. intros H0. rewrite Hfg. destruct (Z.eqb_spec (last_rd_file (c_ s)) f); [discriminate|].
    apply (inv_rd_use _ _ HI H0).
Qed.

(* the write buffer takes block (b, f): from the file, blank-filled past its end *)
Lemma load_wr_buffer_inv s I f b d :
  Inv s I -> fget s f = Some d -> 0 <= b ->
  (flush_wr (c_ s) > 0 -> last_wr_block (c_ s) = b /\ last_wr_file (c_ s) = f) ->
  ~ (last_rd_block (c_ s) = b /\ last_rd_file (c_ s) = f) ->
  let s2 := load_wr_buffer s d f b in
  Inv s2 I /\ last_wr_block (c_ s2) = b /\ last_wr_file (c_ s2) = f /\ files s2 = files s /\
  flush_wr (c_ s2) = flush_wr (c_ s) /\ last_rd_block (c_ s2) = last_rd_block (c_ s) /\
  last_rd_file (c_ s2) = last_rd_file (c_ s).
Proof.
  intros HI Hd Hb Hdirty Hrd. pose proof (fget_nonneg _ _ _ Hd) as Hf. pose proof BLK_val as HB.
  unfold load_wr_buffer.
  destruct (Z.eqb_spec b (last_wr_block (c_ s))) as [Eb|Eb], (Z.eqb_spec f (last_wr_file (c_ s))) as [Ef|Ef];
    cbn [negb orb].
  1: { split; [exact HI|repeat split; auto]. }
  all: destruct (Z.eqb_spec b (last_rd_block (c_ s))) as [Rb|Rb], (Z.eqb_spec f (last_rd_file (c_ s))) as [Rf|Rf];
    cbn [andb]; try (exfalso; apply Hrd; split; congruence).
  all: assert (Hcl : flush_wr (c_ s) <= 0) by (destruct (Z_gt_le_dec (flush_wr (c_ s)) 0) as [G|G]; auto;
                                               destruct (Hdirty G); congruence).
  all: cbn [c_ with_cache set_wr_id set_wr_buf last_wr_block last_wr_file flush_wr last_rd_block last_rd_file files].
  all: split; [|repeat split; auto].
  all: set (bytes := pread d (b * BLK) BLK).
  all: set (got := bufput (wr_buf (c_ s)) 0 bytes).
  all: set (buf := if lenZ bytes <? BLK then firstn (Z.to_nat (lenZ bytes)) got ++ repeat 32 (Z.to_nat (BLK - lenZ bytes)) else got).
  all: assert (Hbl : 0 <= lenZ bytes <= BLK) by (unfold bytes; rewrite pread_len; lia).
  all: assert (Hgl : length got = Z.to_nat BLK) by
      (unfold got; rewrite bufput_length; [apply (inv_wrlen _ _ HI)|lia|rewrite (inv_wrlen _ _ HI); unfold lenZ in Hbl; simpl; lia]).
  all: assert (Hbufl : length buf = Z.to_nat BLK) by
      (unfold buf; destruct (Z.ltb_spec (lenZ bytes) BLK); auto;
       rewrite app_length, firstn_length, repeat_length; lia).
  all: assert (Hbufv : forall i, 0 <= i < lenZ bytes -> nth (Z.to_nat i) buf 0 = dnth d (b * BLK + i)) by
      (intros i Hi; unfold buf; destruct (Z.ltb_spec (lenZ bytes) BLK);
       [rewrite app_nth1 by (rewrite firstn_length; lia); rewrite nth_firstn_ by lia|];
       unfold got; rewrite nth_bufput by (try lia; rewrite (inv_wrlen _ _ HI); unfold lenZ in Hbl; simpl; lia);
       (destruct (Nat.leb_spec (Z.to_nat 0) (Z.to_nat i)); [|lia]);
       (destruct (Nat.ltb_spec (Z.to_nat i) (Z.to_nat 0 + length bytes)); [|unfold lenZ in Hi; lia]);
       cbn [andb]; replace (Z.to_nat i - Z.to_nat 0)%nat with (Z.to_nat i) by lia;
       unfold bytes; apply nth_pread; fold bytes; lia).
  all: destruct HI as [H1 H2 H3 H4 H5 H6 H7 H8 H9].
  all: constructor; cbn [c_ with_cache set_wr_id set_wr_buf last_wr_block last_wr_file flush_wr last_rd_block
                         last_rd_file rd_buf wr_buf num_in_rd files]; auto;
       try (intros g; rewrite fget_with_cache; apply H1).
  (* inv_disk, inv_wr, inv_dirty, inv_wr_use for each of the three identity cases *)
  all: try (intros g m' d' p v Hm' Hg Hp; rewrite fget_with_cache in Hg;
            destruct (H4 g m' d' p v Hm' Hg Hp) as [Hp0 [(Hx & _)|Hc]]; [lia|split; auto]).
  all: try (intros m' p v Hm' Hblk Hp; unfold in_blk in Hblk;
            destruct (H4 f m' d p v Hm' Hd Hp) as [Hp0 [(Hx & _)|[Hl Hv]]]; [lia|];
            rewrite <- Hv; replace p with (b * BLK + (p - b * BLK)) at 2 by lia;
            apply Hbufv; unfold bytes; rewrite pread_len; lia).
  all: try lia.
  all: try (intros _; rewrite fget_with_cache; split; [congruence|auto]).
Qed.

(* memcpy(&wr_block_buffer[o], data, len); flush_wr_block = 1 *)
Lemma put_wr_buffer_inv s I f b o data d m :
  Inv s I -> fget s f = Some d -> I f = Some m -> 0 <= b -> 0 <= o -> o + lenZ data <= BLK ->
  last_wr_block (c_ s) = b -> last_wr_file (c_ s) = f ->
  ~ (last_rd_block (c_ s) = b /\ last_rd_file (c_ s) = f) ->
  Inv (with_cache s (set_flush (set_wr_buf (c_ s) (bufput (wr_buf (c_ s)) o data)) 1))
      (iupd I f (Some (store_write m (b * BLK + o) data))).
Proof.
  intros HI Hd Hm Hb Ho Hfit Hwb Hwf Hrd. pose proof (fget_nonneg _ _ _ Hd) as Hf. pose proof BLK_val as HB.
  pose proof (lenZ_nonneg data) as Hl0.
  assert (Hfits : (Z.to_nat o + length data <= length (wr_buf (c_ s)))%nat)
    by (rewrite (inv_wrlen _ _ HI); unfold lenZ in *; lia).
  set (p0 := b * BLK + o) in *.
  destruct HI as [H1 H2 H3 H4 H5 H6 H7 H8 H9].
  constructor; cbn [c_ with_cache set_flush set_wr_buf last_wr_block last_wr_file flush_wr last_rd_block
                    last_rd_file rd_buf wr_buf num_in_rd files]; auto.
  - intros g. rewrite fget_with_cache. destruct (Z.eq_dec g f) as [->|Hn].
    + rewrite iupd_same, Hd. split; discriminate.
    + rewrite iupd_other by auto. apply H1.
  - rewrite bufput_length; auto.
  - intros g m' d' p v Hm' Hg Hp. rewrite fget_with_cache in Hg.
    destruct (Z.eq_dec g f) as [->|Hn].
    + rewrite iupd_same in Hm'. inversion Hm'; subst m'. rewrite Hd in Hg. inversion Hg; subst d'.
      unfold store_write in Hp.
      destruct ((p0 <=? p) && (p <? p0 + lenZ data)) eqn:E.
      * apply andb_true_iff in E. destruct E as [E1 E2]. apply Z.leb_le in E1. apply Z.ltb_lt in E2.
        split; [unfold p0 in *; lia|]. left. split; [lia|]. split; auto. unfold in_blk, p0 in *. lia.
      * destruct (H4 f m d p v Hm Hd Hp) as [Hp0 [(Hx & Hy & Hz)|Hc]].
        -- split; auto. left. split; [lia|]. split; auto.
        -- split; auto.
    + rewrite iupd_other in Hm' by auto.
      destruct (H4 g m' d' p v Hm' Hg Hp) as [Hp0 [(Hx & Hy & Hz)|Hc]]; [congruence|split; auto].
  - rewrite Hwf, iupd_same. intros m' p v Hm' Hblk Hp. inversion Hm'; subst m'.
    rewrite Hwb in *. unfold in_blk in Hblk. unfold store_write in Hp.
    rewrite nth_bufput by auto.
    destruct ((p0 <=? p) && (p <? p0 + lenZ data)) eqn:E.
    + apply andb_true_iff in E. destruct E as [E1 E2]. apply Z.leb_le in E1. apply Z.ltb_lt in E2.
      unfold p0, lenZ in *.
      destruct (Nat.leb_spec (Z.to_nat o) (Z.to_nat (p - b * BLK))); [|lia].
      destruct (Nat.ltb_spec (Z.to_nat (p - b * BLK)) (Z.to_nat o + length data)); [|lia].
      cbn [andb]. inversion Hp. f_equal. lia.
    + assert (Hout : p < p0 \/ p0 + lenZ data <= p).
      { destruct (Z.leb_spec p0 p), (Z.ltb_spec p (p0 + lenZ data)); simpl in E; try discriminate; lia. }
      assert (Hsel : (Z.to_nat o <=? Z.to_nat (p - b * BLK))%nat && (Z.to_nat (p - b * BLK) <? Z.to_nat o + length data)%nat = false).
      { unfold p0, lenZ in *.
        destruct (Nat.leb_spec (Z.to_nat o) (Z.to_nat (p - b * BLK))),
                 (Nat.ltb_spec (Z.to_nat (p - b * BLK)) (Z.to_nat o + length data)); simpl; auto; lia. }
      rewrite Hsel. apply (H5 m p v); rewrite ?Hwf, ?Hwb; auto.
  - intros m' p v Hm' Hblk Hp.
    destruct (Z.eq_dec (last_rd_file (c_ s)) f) as [E|E].
    + rewrite E, iupd_same in Hm'. inversion Hm'; subst m'. unfold store_write in Hp.
      assert (Hnb : last_rd_block (c_ s) <> b) by (intro; apply Hrd; split; auto).
      destruct ((p0 <=? p) && (p <? p0 + lenZ data)) eqn:Ein.
      * exfalso. apply andb_true_iff in Ein. destruct Ein as [E1 E2].
        apply Z.leb_le in E1. apply Z.ltb_lt in E2. unfold in_blk, p0 in *. lia.
      * apply (H6 m p v); auto. now rewrite E.
    + rewrite iupd_other in Hm' by auto. apply (H6 m' p v); auto.
  - intros _. rewrite Hwf. split; [|lia]. replace (fget _ f) with (fget s f) by reflexivity.
    rewrite Hd. discriminate.
Qed.
