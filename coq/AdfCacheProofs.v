(* AdfCacheProofs.v -- proofs about the shared block buffers (AdfCache.v): coherence with the ideal store for every
   history whose steps satisfy [safe_step], the two holes, independence of files. *)
From Coq Require Import ZArith List Bool Lia FMapPositive.
From CgnsV Require Import AdfCache.
Import ListNotations.
Local Open Scope Z_scope.

Ltac Zify.zify_post_hook ::= Z.div_mod_to_equations.

(* ------------------------------------------------------------------ maps and files *)
Lemma key_inj p q : 0 <= p -> 0 <= q -> key p = key q -> p = q.
Proof. unfold key. intros Hp Hq H. apply Z2Pos.inj in H; lia. Qed.

Lemma lenZ_nonneg {A} (l : list A) : 0 <= lenZ l.
Proof. unfold lenZ. lia. Qed.
Lemma lenZ_cons {A} (x : A) l : lenZ (x :: l) = lenZ l + 1.
Proof. unfold lenZ. simpl length. lia. Qed.
Lemma lenZ_app {A} (a b : list A) : lenZ (a ++ b) = lenZ a + lenZ b.
Proof. unfold lenZ. rewrite app_length. lia. Qed.

Lemma mfind_add_eq m p x : mfind (PositiveMap.add (key p) x m) p = x.
Proof. unfold mfind. now rewrite PositiveMap.gss. Qed.
Lemma mfind_add_neq m p q x : 0 <= p -> 0 <= q -> p <> q -> mfind (PositiveMap.add (key p) x m) q = mfind m q.
Proof.
  intros Hp Hq Hn. unfold mfind. rewrite PositiveMap.gso; auto.
  intro E. apply Hn. symmetry. now apply key_inj.
Qed.

Lemma mfind_mput l : forall m p q, 0 <= p -> 0 <= q ->
  mfind (mput m p l) q = if (p <=? q) && (q <? p + lenZ l) then nth (Z.to_nat (q - p)) l 0 else mfind m q.
Proof.
  induction l as [|x r IH]; intros m p q Hp Hq; simpl mput.
  - unfold lenZ; simpl. destruct (Z.leb_spec p q), (Z.ltb_spec q (p + 0)); simpl; auto; lia.
  - rewrite IH by lia. rewrite lenZ_cons. pose proof (lenZ_nonneg r).
    destruct (Z.eq_dec q p) as [->|Hne].
    + rewrite mfind_add_eq.
      destruct (Z.leb_spec (p + 1) p), (Z.ltb_spec p (p + 1 + lenZ r)),
               (Z.leb_spec p p), (Z.ltb_spec p (p + (lenZ r + 1))); simpl; try lia.
      all: now replace (p - p) with 0 by lia.
    + rewrite mfind_add_neq by lia.
      destruct (Z.leb_spec (p + 1) q), (Z.ltb_spec q (p + 1 + lenZ r)),
               (Z.leb_spec p q), (Z.ltb_spec q (p + (lenZ r + 1))); simpl; try lia; auto.
      replace (Z.to_nat (q - p)) with (S (Z.to_nat (q - (p + 1)))) by lia. reflexivity.
Qed.

Lemma mget_length m : forall n p, length (mget m p n) = n.
Proof. induction n; intros; simpl; auto. Qed.
Lemma nth_mget m : forall n p i, (i < n)%nat -> nth i (mget m p n) 0 = mfind m (p + Z.of_nat i).
Proof.
  induction n; intros p i H; [lia|]. destruct i; simpl.
  - f_equal. lia.
  - rewrite IHn by lia. f_equal. lia.
Qed.

Lemma pread_len d p n : lenZ (pread d p n) = Z.max 0 (Z.min n (dlen d - p)).
Proof. unfold pread, lenZ. rewrite mget_length. lia. Qed.
Lemma nth_pread d p n i : 0 <= i < lenZ (pread d p n) -> nth (Z.to_nat i) (pread d p n) 0 = dnth d (p + i).
Proof.
  intros H. rewrite pread_len in H. unfold pread, dnth. rewrite nth_mget by lia. f_equal. lia.
Qed.

Lemma pwrite_len d p data : dlen d <= dlen (pwrite d p data).
Proof. unfold pwrite. destruct data; simpl; lia. Qed.
Lemma pwrite_len_end d p data : data <> [] -> p + lenZ data <= dlen (pwrite d p data).
Proof. unfold pwrite. destruct data; simpl; [congruence|lia]. Qed.
Lemma dnth_pwrite d p data q : 0 <= p -> 0 <= q ->
  dnth (pwrite d p data) q = if (p <=? q) && (q <? p + lenZ data) then nth (Z.to_nat (q - p)) data 0 else dnth d q.
Proof.
  intros Hp Hq. unfold pwrite, dnth. destruct data as [|x r].
  - unfold lenZ; simpl. destruct (Z.leb_spec p q), (Z.ltb_spec q (p + 0)); simpl; auto; lia.
  - cbn [dbytes]. now rewrite (mfind_mput (x :: r)).
Qed.

Lemma fget_nonneg s f d : fget s f = Some d -> 0 <= f.
Proof. unfold fget. destruct (Z.ltb_spec f 0); [discriminate|lia]. Qed.
Lemma fget_fset s f d g : 0 <= f -> fget (fset s f d) g = if g =? f then Some d else fget s g.
Proof.
  intros Hf. unfold fget, fset; simpl. destruct (Z.ltb_spec g 0), (Z.eqb_spec g f); try lia; auto.
  - subst. now rewrite PositiveMap.gss.
  - rewrite PositiveMap.gso; auto. intro E. apply key_inj in E; lia.
Qed.
Lemma fget_fdel s f g : 0 <= f -> fget (fdel s f) g = if g =? f then None else fget s g.
Proof.
  intros Hf. unfold fget, fdel; simpl. destruct (Z.ltb_spec g 0), (Z.eqb_spec g f); try lia; auto.
  - subst. now rewrite PositiveMap.grs.
  - rewrite PositiveMap.gro; auto. intro E. apply key_inj in E; lia.
Qed.
Lemma fget_with_cache s c f : fget (with_cache s c) f = fget s f.
Proof. reflexivity. Qed.
Lemma c_fset s f d : c_ (fset s f d) = c_ s. Proof. reflexivity. Qed.
Lemma c_fdel s f : c_ (fdel s f) = c_ s. Proof. reflexivity. Qed.
Lemma c_with_cache s c : c_ (with_cache s c) = c. Proof. reflexivity. Qed.

(* ------------------------------------------------------------------ buffers *)
Lemma nth_skipn_ {A} (d : A) : forall n l i, nth i (skipn n l) d = nth (n + i) l d.
Proof. induction n; intros [|x l] i; simpl; auto. destruct i; auto. Qed.
Lemma nth_firstn_ {A} (d : A) : forall n l i, (i < n)%nat -> nth i (firstn n l) d = nth i l d.
Proof. induction n; intros [|x l] i H; simpl; auto; try lia. destruct i; auto. apply IHn. lia. Qed.
Lemma bufput_length buf off data : 0 <= off -> (Z.to_nat off + length data <= length buf)%nat ->
  length (bufput buf off data) = length buf.
Proof. intros. unfold bufput. rewrite !app_length, firstn_length, skipn_length. lia. Qed.

Lemma nth_bufput buf off data i : 0 <= off -> (Z.to_nat off + length data <= length buf)%nat ->
  nth i (bufput buf off data) 0 =
  if (Z.to_nat off <=? i)%nat && (i <? Z.to_nat off + length data)%nat then nth (i - Z.to_nat off) data 0 else nth i buf 0.
Proof.
  intros Ho Hl. unfold bufput.
  assert (Hf : length (firstn (Z.to_nat off) buf) = Z.to_nat off) by (rewrite firstn_length; lia).
  destruct (Nat.leb_spec (Z.to_nat off) i); simpl.
  - rewrite app_nth2 by lia. rewrite Hf.
    destruct (Nat.ltb_spec i (Z.to_nat off + length data)).
    + rewrite app_nth1 by lia. reflexivity.
    + rewrite app_nth2 by lia. rewrite nth_skipn_. f_equal. lia.
  - rewrite app_nth1 by lia. apply nth_firstn_. lia.
Qed.

Lemma bufsub_length buf off len : 0 <= off -> 0 <= len -> (Z.to_nat off + Z.to_nat len <= length buf)%nat ->
  lenZ (bufsub buf off len) = len.
Proof. intros. unfold bufsub, lenZ. rewrite firstn_length, skipn_length. lia. Qed.
Lemma nth_bufsub buf off len i : (i < Z.to_nat len)%nat -> nth i (bufsub buf off len) 0 = nth (Z.to_nat off + i) buf 0.
Proof. intros. unfold bufsub. rewrite nth_firstn_ by lia. now rewrite nth_skipn_. Qed.

(* ------------------------------------------------------------------ the invariant *)
Definition in_blk (wb p : Z) : Prop := wb * BLK <= p < wb * BLK + BLK.

Record Inv (s : st) (I : ideal) : Prop := mkInv {
  inv_open : forall f, I f = None <-> fget s f = None;
  inv_rdlen : length (rd_buf (c_ s)) = Z.to_nat BLK;
  inv_wrlen : length (wr_buf (c_ s)) = Z.to_nat BLK;
  (* every byte of the ideal store is in the pending write block or in the file *)
  inv_disk : forall f m d p v, I f = Some m -> fget s f = Some d -> m p = Some v ->
      0 <= p /\ ((flush_wr (c_ s) > 0 /\ last_wr_file (c_ s) = f /\ in_blk (last_wr_block (c_ s)) p) \/
                 (p < dlen d /\ dnth d p = v));
  (* an identified write buffer (dirty or clean) agrees with the ideal store on its block *)
  inv_wr : forall m p v, I (last_wr_file (c_ s)) = Some m -> in_blk (last_wr_block (c_ s)) p -> m p = Some v ->
      nth (Z.to_nat (p - last_wr_block (c_ s) * BLK)) (wr_buf (c_ s)) 0 = v;
  (* an identified read buffer agrees with the ideal store on its block, which has nothing beyond the fill count *)
  inv_rd : forall m p v, I (last_rd_file (c_ s)) = Some m -> in_blk (last_rd_block (c_ s)) p -> m p = Some v ->
      p - last_rd_block (c_ s) * BLK < num_in_rd (c_ s) /\
      nth (Z.to_nat (p - last_rd_block (c_ s) * BLK)) (rd_buf (c_ s)) 0 = v;
  inv_dirty : flush_wr (c_ s) > 0 -> 0 <= last_wr_file (c_ s);
  inv_wr_use : 0 <= last_wr_file (c_ s) -> fget s (last_wr_file (c_ s)) <> None /\ 0 <= last_wr_block (c_ s);
  inv_rd_use : 0 <= last_rd_file (c_ s) -> fget s (last_rd_file (c_ s)) <> None
}.

Lemma BLK_val : BLK = 4096. Proof. reflexivity. Qed.
Global Opaque BLK.

Lemma inv_open_some s I f m : Inv s I -> I f = Some m -> exists d, fget s f = Some d /\ 0 <= f.
Proof.
  intros HI Hm. destruct (fget s f) as [d|] eqn:E.
  - exists d. split; auto. eapply fget_nonneg; eauto.
  - apply (inv_open _ _ HI) in E. congruence.
Qed.
Lemma inv_closed_neg s I f : Inv s I -> f < 0 -> I f = None.
Proof. intros HI Hf. apply (inv_open _ _ HI). unfold fget. destruct (Z.ltb_spec f 0); auto; lia. Qed.

Lemma fget_init f : fget init_st f = None.
Proof. unfold fget, init_st; simpl. destruct (f <? 0); auto. apply PositiveMap.gempty. Qed.

Lemma init_inv : Inv init_st ideal0.
Proof.
  constructor; intros; try rewrite fget_init in *; simpl in *; try discriminate; try lia;
    try apply repeat_length.
  split; auto.
Qed.

(* ------------------------------------------------------------------ ADFI_write_file, step by step *)
Lemma inval_rd_inv s I f b e : Inv s I -> Inv (with_cache s (inval_rd (c_ s) f b e)) I.
Proof.
  intros HI. unfold inval_rd.
  destruct ((last_rd_file (c_ s) =? f) && (last_rd_block (c_ s) >=? b) && (last_rd_block (c_ s) <=? e)).
  2: { destruct s as [fs c]; exact HI. }
  destruct HI as [H1 H2 H3 H4 H5 H6 H7 H8 H9].
  constructor; cbn [with_cache reset_rd c_ rd_buf wr_buf last_rd_block last_rd_file num_in_rd
                    last_wr_block last_wr_file flush_wr files]; auto.
  intros m p v Hm. assert (I (-1) = None) by (apply H1; reflexivity). congruence.
Qed.

Lemma inval_rd_wr c f b e :
  wr_buf (inval_rd c f b e) = wr_buf c /\ last_wr_block (inval_rd c f b e) = last_wr_block c /\
  last_wr_file (inval_rd c f b e) = last_wr_file c /\ flush_wr (inval_rd c f b e) = flush_wr c.
Proof. unfold inval_rd. destruct (_ && _ && _); simpl; auto. Qed.

(* after the invalidation no read buffer of file f sits on a block of [b, e] *)
Lemma inval_rd_post c f b e : last_rd_file (inval_rd c f b e) = f -> 0 <= f ->
  last_rd_block (inval_rd c f b e) < b \/ e < last_rd_block (inval_rd c f b e).
Proof.
  unfold inval_rd.
  destruct (Z.eqb_spec (last_rd_file c) f), (Z.geb_spec (last_rd_block c) b), (Z.leb_spec (last_rd_block c) e);
    simpl; intros; try lia.
Qed.

Lemma wr_buf_nonempty s I : Inv s I -> wr_buf (c_ s) <> [] /\ lenZ (wr_buf (c_ s)) = BLK.
Proof.
  intros HI. pose proof (inv_wrlen _ _ HI) as H. rewrite BLK_val in *. unfold lenZ. rewrite H.
  split; [|reflexivity]. destruct (wr_buf (c_ s)); [discriminate H|congruence].
Qed.

(* writing the pending block out: the file of the buffer receives all 4096 bytes at block * 4096 *)
Lemma flush_do_inv s I dw (idreset : bool) :
  Inv s I -> flush_wr (c_ s) > 0 -> fget s (last_wr_file (c_ s)) = Some dw ->
  Inv (with_cache (fset s (last_wr_file (c_ s)) (pwrite dw (last_wr_block (c_ s) * BLK) (wr_buf (c_ s))))
                  (if idreset then set_wr_id (set_flush (c_ s) (-2)) (-2) (-2) else set_flush (c_ s) (-2))) I.
Proof.
  intros HI Hd Hw.
  pose proof (wr_buf_nonempty _ _ HI) as [Hne Hlen].
  pose proof (inv_dirty _ _ HI Hd) as Hwf.
  pose proof (inv_wr_use _ _ HI Hwf) as [_ Hwb].
  pose proof BLK_val as HB.
  assert (Hfg : forall g, fget (with_cache (fset s (last_wr_file (c_ s))
              (pwrite dw (last_wr_block (c_ s) * BLK) (wr_buf (c_ s))))
              (if idreset then set_wr_id (set_flush (c_ s) (-2)) (-2) (-2) else set_flush (c_ s) (-2))) g =
              if g =? last_wr_file (c_ s) then Some (pwrite dw (last_wr_block (c_ s) * BLK) (wr_buf (c_ s))) else fget s g).
  { intros g. rewrite fget_with_cache. now apply fget_fset. }
  constructor.
  - intros g. rewrite Hfg. rewrite (inv_open _ _ HI g). destruct (Z.eqb_spec g (last_wr_file (c_ s))).
    + subst g. rewrite Hw. split; discriminate.
    + reflexivity.
  - rewrite c_with_cache. destruct idreset; apply (inv_rdlen _ _ HI).
  - rewrite c_with_cache. destruct idreset; apply (inv_wrlen _ _ HI).
  - intros g m d p v Hm Hg Hp. rewrite Hfg in Hg.
    destruct (inv_open_some _ _ _ _ HI Hm) as (d0 & Hd0 & Hg0).
    destruct (inv_disk _ _ HI g m d0 p v Hm Hd0 Hp) as [Hp0 Hcase].
    split; auto. right.
    destruct (Z.eqb_spec g (last_wr_file (c_ s))) as [->|Hne'].
    + inversion Hg; subst d; clear Hg. rewrite Hw in Hd0. inversion Hd0; subst d0.
      rewrite dnth_pwrite by lia. rewrite Hlen.
      destruct (Z.leb_spec (last_wr_block (c_ s) * BLK) p), (Z.ltb_spec p (last_wr_block (c_ s) * BLK + BLK)); simpl.
      * split.
        -- pose proof (pwrite_len_end dw (last_wr_block (c_ s) * BLK) _ Hne). lia.
        -- apply (inv_wr _ _ HI m p v Hm); auto. unfold in_blk. lia.
      * destruct Hcase as [(_ & _ & Hb)|[Hl Hv]]; [unfold in_blk in Hb; lia|].
        split; auto. pose proof (pwrite_len dw (last_wr_block (c_ s) * BLK) (wr_buf (c_ s))). lia.
      * destruct Hcase as [(_ & _ & Hb)|[Hl Hv]]; [unfold in_blk in Hb; lia|].
        split; auto. pose proof (pwrite_len dw (last_wr_block (c_ s) * BLK) (wr_buf (c_ s))). lia.
      * lia.
    + rewrite Hg in Hd0. inversion Hd0; subst d0.
      destruct Hcase as [(_ & Hf & _)|Hc]; [congruence|auto].
  - rewrite c_with_cache. destruct idreset; cbn.
    + intros m p v Hm. assert (I (-2) = None) by (apply (inv_closed_neg _ _ _ HI); lia). congruence.
    + apply (inv_wr _ _ HI).
  - rewrite c_with_cache. destruct idreset; cbn; apply (inv_rd _ _ HI).
  - rewrite c_with_cache. destruct idreset; cbn; lia.
  - rewrite c_with_cache. destruct idreset; cbn; [lia|].
    intros H0. rewrite Hfg. rewrite Z.eqb_refl. split; [discriminate|auto].
  - rewrite c_with_cache. intros H0.
    assert (Hr : last_rd_file (if idreset then set_wr_id (set_flush (c_ s) (-2)) (-2) (-2) else set_flush (c_ s) (-2))
                 = last_rd_file (c_ s)) by (destruct idreset; reflexivity).
    rewrite Hr in *. rewrite Hfg. destruct (Z.eqb_spec (last_rd_file (c_ s)) (last_wr_file (c_ s))); [discriminate|].
    apply (inv_rd_use _ _ HI H0).
Qed.

Definition flush_trigger (c : cache) (f b o len : Z) : bool :=
  (len + o >? BLK) || negb (last_wr_block c =? b) || negb (last_wr_file c =? f) || (len =? 0).

Lemma flush_wr_buffer_spec s I f b o len e : Inv s I ->
  exists s1, flush_wr_buffer s f b o len e = Some s1 /\ Inv s1 I /\
    (forall g, fget s1 g = None <-> fget s g = None) /\
    rd_buf (c_ s1) = rd_buf (c_ s) /\ last_rd_block (c_ s1) = last_rd_block (c_ s) /\
    last_rd_file (c_ s1) = last_rd_file (c_ s) /\ num_in_rd (c_ s1) = num_in_rd (c_ s) /\
    wr_buf (c_ s1) = wr_buf (c_ s) /\
    ((flush_trigger (c_ s) f b o len && (flush_wr (c_ s) >? 0) = false /\ s1 = s) \/
     (flush_trigger (c_ s) f b o len = true /\ flush_wr (c_ s) > 0 /\ flush_wr (c_ s1) = -2 /\
      ((last_wr_file (c_ s1) = -2 /\ last_wr_block (c_ s1) = -2) \/
       (last_wr_file (c_ s1) = last_wr_file (c_ s) /\ last_wr_block (c_ s1) = last_wr_block (c_ s) /\
        ~ (last_wr_file (c_ s) = f /\ b <= last_wr_block (c_ s) <= e))))).
Proof.
  intros HI. unfold flush_wr_buffer. fold (flush_trigger (c_ s) f b o len).
  destruct (flush_trigger (c_ s) f b o len && (flush_wr (c_ s) >? 0)) eqn:E.
  2: { exists s. do 8 (split; [first [reflexivity | assumption | (intros g; reflexivity)]|]). left; split; auto. }
  apply andb_true_iff in E. destruct E as [Et Ed]. apply Z.gtb_lt in Ed.
  assert (Hd : flush_wr (c_ s) > 0) by lia.
  pose proof (inv_dirty _ _ HI Hd) as Hwf. pose proof (inv_wr_use _ _ HI Hwf) as [Hu _].
  destruct (fget s (last_wr_file (c_ s))) as [dw|] eqn:Hw; [|congruence].
  cbn [last_wr_file last_wr_block set_flush].
  set (rst := (last_wr_file (c_ s) =? f) && (last_wr_block (c_ s) >=? b) && (last_wr_block (c_ s) <=? e)).
  eexists. split; [reflexivity|].
  pose proof (flush_do_inv s I dw rst HI Hd Hw) as HI'.
  replace (if rst then set_wr_id (set_flush (c_ s) (-2)) (-2) (-2) else set_flush (c_ s) (-2))
    with (if rst then set_wr_id (set_flush (c_ s) (-2)) (-2) (-2) else set_flush (c_ s) (-2)) in HI' by reflexivity.
  split; [exact HI'|].
  split.
  { intros g. rewrite fget_with_cache, fget_fset by lia. destruct (Z.eqb_spec g (last_wr_file (c_ s))).
    - subst. rewrite Hw. split; discriminate.
    - reflexivity. }
  rewrite c_with_cache.
  repeat (split; [destruct rst; reflexivity|]).
  right. split; auto. split; auto. split; [destruct rst; reflexivity|].
  destruct rst eqn:Er; [left; split; reflexivity|right].
  split; [reflexivity|]. split; [reflexivity|].
  intros (Hf & Hb1 & Hb2). unfold rst in Er.
  destruct (Z.eqb_spec (last_wr_file (c_ s)) f), (Z.geb_spec (last_wr_block (c_ s)) b),
           (Z.leb_spec (last_wr_block (c_ s)) e); simpl in Er; try discriminate; lia.
Qed.

Lemma in_blk_overlaps wb p p0 len : in_blk wb p -> p0 <= p < p0 + len -> overlaps wb p0 len = true.
Proof.
  unfold in_blk, overlaps. intros. apply andb_true_iff. split; [apply Z.ltb_lt|apply Z.ltb_lt]; lia.
Qed.
Lemma overlaps_between wb b o len : 0 <= o -> 0 <= len -> overlaps wb (b * BLK + o) len = true ->
  b <= wb <= b + (o + len) / BLK + 1.
Proof.
  unfold overlaps. rewrite BLK_val. intros Ho Hl H. apply andb_true_iff in H. destruct H as [H1 H2].
  apply Z.ltb_lt in H1. apply Z.ltb_lt in H2. lia.
Qed.

Lemma iupd_same I f v : iupd I f v f = v.
Proof. unfold iupd. now rewrite Z.eqb_refl. Qed.
Lemma iupd_other I f v g : g <> f -> iupd I f v g = I g.
Proof. unfold iupd. intros. destruct (Z.eqb_spec g f); congruence. Qed.

(* a large piece goes straight to the file *)
Lemma large_write_inv s I f b o data d m :
  Inv s I -> fget s f = Some d -> I f = Some m -> 0 <= b -> 0 <= o -> data <> [] ->
  flush_wr (c_ s) <= 0 ->
  ~ (last_wr_file (c_ s) = f /\ overlaps (last_wr_block (c_ s)) (b * BLK + o) (lenZ data) = true) ->
  ~ (last_rd_file (c_ s) = f /\ overlaps (last_rd_block (c_ s)) (b * BLK + o) (lenZ data) = true) ->
  Inv (fset s f (pwrite d (b * BLK + o) data)) (iupd I f (Some (store_write m (b * BLK + o) data))).
Proof.
  intros HI Hd Hm Hb Ho Hne Hcl Hw Hr.
  pose proof (fget_nonneg _ _ _ Hd) as Hf. pose proof BLK_val as HB.
  set (p0 := b * BLK + o) in *. assert (Hp0 : 0 <= p0) by (unfold p0; lia).
  assert (Hfg : forall g, fget (fset s f (pwrite d p0 data)) g = if g =? f then Some (pwrite d p0 data) else fget s g)
    by (intros; now apply fget_fset).
  constructor.
  - intros g. rewrite Hfg. destruct (Z.eqb_spec g f) as [->|Hn].
    + rewrite iupd_same. split; discriminate.
    + rewrite iupd_other by auto. apply (inv_open _ _ HI).
  - apply (inv_rdlen _ _ HI).
  - apply (inv_wrlen _ _ HI).
  - intros g m' d' p v Hm' Hg Hp. rewrite Hfg in Hg. rewrite c_fset.
    destruct (Z.eqb_spec g f) as [->|Hn].
    + rewrite iupd_same in Hm'. inversion Hm'; subst m'. inversion Hg; subst d'. clear Hm' Hg.
      unfold store_write in Hp. rewrite dnth_pwrite.
      2: lia.
      2: { destruct ((p0 <=? p) && (p <? p0 + lenZ data)) eqn:E.
           - apply andb_true_iff in E. destruct E as [E _]. apply Z.leb_le in E. lia.
           - destruct (inv_disk _ _ HI f m d p v Hm Hd Hp); auto. }
      destruct ((p0 <=? p) && (p <? p0 + lenZ data)) eqn:E.
      * apply andb_true_iff in E. destruct E as [E1 E2]. apply Z.leb_le in E1. apply Z.ltb_lt in E2.
        inversion Hp; subst v. split; [lia|]. right. split; auto.
        pose proof (pwrite_len_end d p0 data Hne). lia.
      * destruct (inv_disk _ _ HI f m d p v Hm Hd Hp) as [Hp' [(Hx & _)|[Hl Hv]]]; [lia|].
        split; auto. right. split; auto. pose proof (pwrite_len d p0 data). lia.
    + rewrite iupd_other in Hm' by auto.
      destruct (inv_disk _ _ HI g m' d' p v Hm' Hg Hp) as [Hp' [(Hx & _)|Hc]]; [lia|]. split; auto.
  - rewrite c_fset. intros m' p v Hm' Hblk Hp.
    destruct (Z.eq_dec (last_wr_file (c_ s)) f) as [E|E].
    + rewrite E, iupd_same in Hm'. inversion Hm'; subst m'. unfold store_write in Hp.
      destruct ((p0 <=? p) && (p <? p0 + lenZ data)) eqn:Ein.
      * exfalso. apply Hw. split; auto. apply andb_true_iff in Ein. destruct Ein as [E1 E2].
        apply Z.leb_le in E1. apply Z.ltb_lt in E2. eapply in_blk_overlaps; eauto.
      * apply (inv_wr _ _ HI m p v); auto. now rewrite E.
    + rewrite iupd_other in Hm' by auto. apply (inv_wr _ _ HI m' p v); auto.
  - rewrite c_fset. intros m' p v Hm' Hblk Hp.
    destruct (Z.eq_dec (last_rd_file (c_ s)) f) as [E|E].
    + rewrite E, iupd_same in Hm'. inversion Hm'; subst m'. unfold store_write in Hp.
      destruct ((p0 <=? p) && (p <? p0 + lenZ data)) eqn:Ein.
      * exfalso. apply Hr. split; auto. apply andb_true_iff in Ein. destruct Ein as [E1 E2].
        apply Z.leb_le in E1. apply Z.ltb_lt in E2. eapply in_blk_overlaps; eauto.
      * apply (inv_rd _ _ HI m p v); auto. now rewrite E.
    + rewrite iupd_other in Hm' by auto. apply (inv_rd _ _ HI m' p v); auto.
  - rewrite c_fset. apply (inv_dirty _ _ HI).
  - rewrite c_fset. intros H0. destruct (inv_wr_use _ _ HI H0) as [Hu Hb']. split; auto.
    rewrite Hfg. destruct (Z.eqb_spec (last_wr_file (c_ s)) f); [discriminate|auto].
  - rewrite c_fset. intros H0. rewrite Hfg. destruct (Z.eqb_spec (last_rd_file (c_ s)) f); [discriminate|].
    apply (inv_rd_use _ _ HI H0).
Qed.

(* the write buffer takes block (b, f): from the file, blank-filled past its end *)
Lemma load_wr_buffer_inv s I f b d :
  Inv s I -> fget s f = Some d -> 0 <= b ->
  (flush_wr (c_ s) > 0 -> last_wr_block (c_ s) = b /\ last_wr_file (c_ s) = f) ->
  ~ (last_rd_block (c_ s) = b /\ last_rd_file (c_ s) = f) ->
  let s2 := load_wr_buffer s d f b in
  Inv s2 I /\ last_wr_block (c_ s2) = b /\ last_wr_file (c_ s2) = f /\ files s2 = files s /\
  flush_wr (c_ s2) = flush_wr (c_ s) /\ last_rd_block (c_ s2) = last_rd_block (c_ s) /\
  last_rd_file (c_ s2) = last_rd_file (c_ s).
Proof.
  intros HI Hd Hb Hdirty Hrd. pose proof (fget_nonneg _ _ _ Hd) as Hf. pose proof BLK_val as HB.
  unfold load_wr_buffer.
  destruct (Z.eqb_spec b (last_wr_block (c_ s))) as [Eb|Eb], (Z.eqb_spec f (last_wr_file (c_ s))) as [Ef|Ef];
    cbn [negb orb].
  1: { split; [exact HI|repeat split; auto]. }
  all: destruct (Z.eqb_spec b (last_rd_block (c_ s))) as [Rb|Rb], (Z.eqb_spec f (last_rd_file (c_ s))) as [Rf|Rf];
    cbn [andb]; try (exfalso; apply Hrd; split; congruence).
  all: assert (Hcl : flush_wr (c_ s) <= 0) by (destruct (Z_gt_le_dec (flush_wr (c_ s)) 0) as [G|G]; auto;
                                               destruct (Hdirty G); congruence).
  all: cbn [c_ with_cache set_wr_id set_wr_buf last_wr_block last_wr_file flush_wr last_rd_block last_rd_file files].
  all: split; [|repeat split; auto].
  all: set (bytes := pread d (b * BLK) BLK).
  all: set (got := bufput (wr_buf (c_ s)) 0 bytes).
  all: set (buf := if lenZ bytes <? BLK then firstn (Z.to_nat (lenZ bytes)) got ++ repeat 32 (Z.to_nat (BLK - lenZ bytes)) else got).
  all: assert (Hbl : 0 <= lenZ bytes <= BLK) by (unfold bytes; rewrite pread_len; lia).
  all: assert (Hgl : length got = Z.to_nat BLK) by
      (unfold got; rewrite bufput_length; [apply (inv_wrlen _ _ HI)|lia|rewrite (inv_wrlen _ _ HI); unfold lenZ in Hbl; simpl; lia]).
  all: assert (Hbufl : length buf = Z.to_nat BLK) by
      (unfold buf; destruct (Z.ltb_spec (lenZ bytes) BLK); auto;
       rewrite app_length, firstn_length, repeat_length; lia).
  all: assert (Hbufv : forall i, 0 <= i < lenZ bytes -> nth (Z.to_nat i) buf 0 = dnth d (b * BLK + i)) by
      (intros i Hi; unfold buf; destruct (Z.ltb_spec (lenZ bytes) BLK);
       [rewrite app_nth1 by (rewrite firstn_length; lia); rewrite nth_firstn_ by lia|];
       unfold got; rewrite nth_bufput by (try lia; rewrite (inv_wrlen _ _ HI); unfold lenZ in Hbl; simpl; lia);
       (destruct (Nat.leb_spec (Z.to_nat 0) (Z.to_nat i)); [|lia]);
       (destruct (Nat.ltb_spec (Z.to_nat i) (Z.to_nat 0 + length bytes)); [|unfold lenZ in Hi; lia]);
       cbn [andb]; replace (Z.to_nat i - Z.to_nat 0)%nat with (Z.to_nat i) by lia;
       unfold bytes; apply nth_pread; fold bytes; lia).
  all: destruct HI as [H1 H2 H3 H4 H5 H6 H7 H8 H9].
  all: constructor; cbn [c_ with_cache set_wr_id set_wr_buf last_wr_block last_wr_file flush_wr last_rd_block
                         last_rd_file rd_buf wr_buf num_in_rd files]; auto;
       try (intros g; rewrite fget_with_cache; apply H1).
  (* inv_disk, inv_wr, inv_dirty, inv_wr_use for each of the three identity cases *)
  all: try (intros g m' d' p v Hm' Hg Hp; rewrite fget_with_cache in Hg;
            destruct (H4 g m' d' p v Hm' Hg Hp) as [Hp0 [(Hx & _)|Hc]]; [lia|split; auto]).
  all: try (intros m' p v Hm' Hblk Hp; unfold in_blk in Hblk;
            destruct (H4 f m' d p v Hm' Hd Hp) as [Hp0 [(Hx & _)|[Hl Hv]]]; [lia|];
            rewrite <- Hv; replace p with (b * BLK + (p - b * BLK)) at 2 by lia;
            apply Hbufv; unfold bytes; rewrite pread_len; lia).
  all: try lia.
  all: try (intros _; rewrite fget_with_cache; split; [congruence|auto]).
Qed.

(* memcpy(&wr_block_buffer[o], data, len); flush_wr_block = 1 *)
Lemma put_wr_buffer_inv s I f b o data d m :
  Inv s I -> fget s f = Some d -> I f = Some m -> 0 <= b -> 0 <= o -> o + lenZ data <= BLK ->
  last_wr_block (c_ s) = b -> last_wr_file (c_ s) = f ->
  ~ (last_rd_block (c_ s) = b /\ last_rd_file (c_ s) = f) ->
  Inv (with_cache s (set_flush (set_wr_buf (c_ s) (bufput (wr_buf (c_ s)) o data)) 1))
      (iupd I f (Some (store_write m (b * BLK + o) data))).
Proof.
  intros HI Hd Hm Hb Ho Hfit Hwb Hwf Hrd. pose proof (fget_nonneg _ _ _ Hd) as Hf. pose proof BLK_val as HB.
  pose proof (lenZ_nonneg data) as Hl0.
  assert (Hfits : (Z.to_nat o + length data <= length (wr_buf (c_ s)))%nat)
    by (rewrite (inv_wrlen _ _ HI); unfold lenZ in *; lia).
  set (p0 := b * BLK + o) in *.
  destruct HI as [H1 H2 H3 H4 H5 H6 H7 H8 H9].
  constructor; cbn [c_ with_cache set_flush set_wr_buf last_wr_block last_wr_file flush_wr last_rd_block
                    last_rd_file rd_buf wr_buf num_in_rd files]; auto.
  - intros g. rewrite fget_with_cache. destruct (Z.eq_dec g f) as [->|Hn].
    + rewrite iupd_same, Hd. split; discriminate.
    + rewrite iupd_other by auto. apply H1.
  - rewrite bufput_length; auto.
  - intros g m' d' p v Hm' Hg Hp. rewrite fget_with_cache in Hg.
    destruct (Z.eq_dec g f) as [->|Hn].
    + rewrite iupd_same in Hm'. inversion Hm'; subst m'. rewrite Hd in Hg. inversion Hg; subst d'.
      unfold store_write in Hp.
      destruct ((p0 <=? p) && (p <? p0 + lenZ data)) eqn:E.
      * apply andb_true_iff in E. destruct E as [E1 E2]. apply Z.leb_le in E1. apply Z.ltb_lt in E2.
        split; [unfold p0 in *; lia|]. left. split; [lia|]. split; auto. unfold in_blk, p0 in *. lia.
      * destruct (H4 f m d p v Hm Hd Hp) as [Hp0 [(Hx & Hy & Hz)|Hc]].
        -- split; auto. left. split; [lia|]. split; auto.
        -- split; auto.
    + rewrite iupd_other in Hm' by auto.
      destruct (H4 g m' d' p v Hm' Hg Hp) as [Hp0 [(Hx & Hy & Hz)|Hc]]; [congruence|split; auto].
  - rewrite Hwf, iupd_same. intros m' p v Hm' Hblk Hp. inversion Hm'; subst m'.
    rewrite Hwb in *. unfold in_blk in Hblk. unfold store_write in Hp.
    rewrite nth_bufput by auto.
    destruct ((p0 <=? p) && (p <? p0 + lenZ data)) eqn:E.
    + apply andb_true_iff in E. destruct E as [E1 E2]. apply Z.leb_le in E1. apply Z.ltb_lt in E2.
      unfold p0, lenZ in *.
      destruct (Nat.leb_spec (Z.to_nat o) (Z.to_nat (p - b * BLK))); [|lia].
      destruct (Nat.ltb_spec (Z.to_nat (p - b * BLK)) (Z.to_nat o + length data)); [|lia].
      cbn [andb]. inversion Hp. f_equal. lia.
    + assert (Hout : p < p0 \/ p0 + lenZ data <= p).
      { destruct (Z.leb_spec p0 p), (Z.ltb_spec p (p0 + lenZ data)); simpl in E; try discriminate; lia. }
      assert (Hsel : (Z.to_nat o <=? Z.to_nat (p - b * BLK))%nat && (Z.to_nat (p - b * BLK) <? Z.to_nat o + length data)%nat = false).
      { unfold p0, lenZ in *.
        destruct (Nat.leb_spec (Z.to_nat o) (Z.to_nat (p - b * BLK))),
                 (Nat.ltb_spec (Z.to_nat (p - b * BLK)) (Z.to_nat o + length data)); simpl; auto; lia. }
      rewrite Hsel. apply (H5 m p v); rewrite ?Hwf, ?Hwb; auto.
  - intros m' p v Hm' Hblk Hp.
    destruct (Z.eq_dec (last_rd_file (c_ s)) f) as [E|E].
    + rewrite E, iupd_same in Hm'. inversion Hm'; subst m'. unfold store_write in Hp.
      assert (Hnb : last_rd_block (c_ s) <> b) by (intro; apply Hrd; split; auto).
      destruct ((p0 <=? p) && (p <? p0 + lenZ data)) eqn:Ein.
      * exfalso. apply andb_true_iff in Ein. destruct Ein as [E1 E2].
        apply Z.leb_le in E1. apply Z.ltb_lt in E2. unfold in_blk, p0 in *. lia.
      * apply (H6 m p v); auto. now rewrite E.
    + rewrite iupd_other in Hm' by auto. apply (H6 m' p v); auto.
  - intros _. lia.
Qed.

(* the invariant looks at the ideal store pointwise only *)
Definition ideal_eq (I J : ideal) : Prop :=
  forall g, match I g, J g with
            | Some m, Some m' => forall p, m p = m' p
            | None, None => True
            | _, _ => False
            end.
Lemma ideal_eq_refl I : ideal_eq I I.
Proof. intros g. destruct (I g); auto. Qed.
Lemma ideal_eq_sym I J : ideal_eq I J -> ideal_eq J I.
Proof. intros H g. specialize (H g). destruct (I g), (J g); auto. Qed.
Lemma ideal_eq_trans I J K : ideal_eq I J -> ideal_eq J K -> ideal_eq I K.
Proof. intros H1 H2 g. specialize (H1 g). specialize (H2 g). destruct (I g), (J g), (K g); auto; try tauto.
  intros p. now rewrite H1. Qed.

Lemma Inv_ext s I J : ideal_eq I J -> Inv s I -> Inv s J.
Proof.
  intros HE HI.
  assert (Hs : forall g m', J g = Some m' -> exists m, I g = Some m /\ forall p, m p = m' p).
  { intros g m' Hm'. specialize (HE g). rewrite Hm' in HE. destruct (I g) as [m|]; [|tauto]. eauto. }
  destruct HI as [H1 H2 H3 H4 H5 H6 H7 H8 H9]. constructor; auto.
  - intros g. rewrite <- H1. specialize (HE g). destruct (I g), (J g); try tauto; split; discriminate.
  - intros g m' d p v Hm' Hg Hp. destruct (Hs _ _ Hm') as (m & Hm & Hmm). rewrite <- Hmm in Hp. eauto.
  - intros m' p v Hm' Hb Hp. destruct (Hs _ _ Hm') as (m & Hm & Hmm). rewrite <- Hmm in Hp. eauto.
  - intros m' p v Hm' Hb Hp. destruct (Hs _ _ Hm') as (m & Hm & Hmm). rewrite <- Hmm in Hp. eauto.
Qed.

Lemma store_write_nil m p0 p : store_write m p0 [] p = m p.
Proof. unfold store_write, lenZ; simpl. destruct (Z.leb_spec p0 p), (Z.ltb_spec p (p0 + 0)); simpl; auto; lia. Qed.

Lemma reset_wr_inv s I : Inv s I -> flush_wr (c_ s) <= 0 ->
  Inv (with_cache s (set_flush (set_wr_id (c_ s) (-2) (-2)) (-2))) I.
Proof.
  intros HI Hc. destruct HI as [H1 H2 H3 H4 H5 H6 H7 H8 H9].
  constructor; cbn [c_ with_cache set_flush set_wr_id last_wr_block last_wr_file flush_wr last_rd_block
                    last_rd_file rd_buf wr_buf num_in_rd files]; auto; try lia.
  - intros g m d p v Hm Hg Hp. destruct (H4 g m d p v Hm Hg Hp) as [Hp0 [(Hx & _)|Hd]]; [lia|auto].
  - intros m p v Hm. assert (I (-2) = None) by (apply H1; reflexivity). congruence.
Qed.
Lemma reset_rd_inv s I : Inv s I -> Inv (with_cache s (reset_rd (c_ s))) I.
Proof.
  intros HI. destruct HI as [H1 H2 H3 H4 H5 H6 H7 H8 H9].
  constructor; cbn [with_cache reset_rd c_ rd_buf wr_buf last_rd_block last_rd_file num_in_rd
                    last_wr_block last_wr_file flush_wr files]; auto.
  intros m p v Hm. assert (I (-1) = None) by (apply H1; reflexivity). congruence.
Qed.

Definition write_post (I : ideal) (f : Z) (r : res) : Prop :=
  (r = RUnit /\ I f <> None) \/ (r = RErr ADF_FILE_NOT_OPENED /\ I f = None).

Lemma write_file_inv s I f b o data :
  Inv s I -> safe_step s (OWrite f b o data) = true ->
  Inv (snd (write_file s f b o data)) (ideal_step I (OWrite f b o data)) /\
  write_post I f (fst (write_file s f b o data)) /\
  (forall g, fget (snd (write_file s f b o data)) g = None <-> fget s g = None) /\
  (data = [] -> fget s f <> None -> flush_wr (c_ (snd (write_file s f b o data))) <= 0).
Proof.
  intros HI Hsafe. pose proof BLK_val as HB. pose proof (lenZ_nonneg data) as Hl0.
  cbn [safe_step] in Hsafe. apply andb_true_iff in Hsafe. destruct Hsafe as [Hsafe Hhole].
  apply andb_true_iff in Hsafe. destruct Hsafe as [Hb Ho]. apply Z.leb_le in Hb. apply Z.leb_le in Ho.
  unfold write_file. cbn [ideal_step].
  destruct (fget s f) as [d0|] eqn:Hd0.
  2: { assert (Hn : I f = None) by (now apply (inv_open _ _ HI)). rewrite Hn. cbn [fst snd].
       split; auto. split; [right; auto|]. split; [tauto|]. intros _ Hx. congruence. }
  pose proof (fget_nonneg _ _ _ Hd0) as Hf.
  destruct (I f) as [m|] eqn:Hm.
  2: { apply (inv_open _ _ HI) in Hm. congruence. }
  set (e := b + (o + lenZ data) / BLK + 1).
  assert (He : b <= e) by (unfold e; lia).
  pose proof (inval_rd_inv s I f b e HI) as HI0.
  set (s0 := with_cache s (inval_rd (c_ s) f b e)) in *.
  destruct (inval_rd_wr (c_ s) f b e) as (W1 & W2 & W3 & W4).
  destruct (flush_wr_buffer_spec s0 I f b o (lenZ data) e HI0)
    as (s1 & Hfl & HI1 & Hdom & R1 & R2 & R3 & R4 & R5 & Hcase).
  rewrite Hfl.
  assert (Hdom0 : forall g, fget s1 g = None <-> fget s g = None) by (intros g; rewrite Hdom; reflexivity).
  destruct (Z.eqb_spec (lenZ data) 0) as [Hz|Hnz].
  { (* just a buffer flush *)
    cbn [fst snd]. split.
    - eapply Inv_ext; [|exact HI1]. intros g. unfold iupd. destruct (Z.eqb_spec g f) as [->|Hn].
      + rewrite Hm. intros p. assert (data = []) as -> by (destruct data; auto; unfold lenZ in Hz; simpl in Hz; lia).
        now rewrite store_write_nil.
      + destruct (I g); auto.
    - split; [left; split; [auto|congruence]|]. split; auto. intros _ _.
      destruct Hcase as [[Hc ->]|(_ & _ & Hc & _)]; [|lia].
      unfold flush_trigger in Hc. rewrite Hz in Hc. cbn [Z.eqb] in Hc. rewrite orb_true_r in Hc. cbn [andb] in Hc.
      unfold s0 in Hc |- *. rewrite c_with_cache, W4 in *. rewrite Z.gtb_ltb in Hc. apply Z.ltb_ge in Hc. lia. }
  assert (Hne : data <> []) by (intro; subst; unfold lenZ in Hnz; simpl in Hnz; lia).
  destruct (fget s1 f) as [d|] eqn:Hd.
  2: { apply Hdom0 in Hd. congruence. }
  (* facts about the read buffer after the invalidation *)
  assert (Hrd : last_rd_file (c_ s1) = f -> last_rd_block (c_ s1) < b \/ e < last_rd_block (c_ s1)).
  { rewrite R2, R3. unfold s0. rewrite c_with_cache. intros. apply inval_rd_post; auto. }
  destruct (Z.gtb_spec (lenZ data + o) BLK) as [Hlarge|Hsmall].
  - (* large *)
    cbn [fst snd].
    assert (Hcl : flush_wr (c_ s1) <= 0).
    { destruct Hcase as [[Hc ->]|(_ & _ & Hc & _)]; [|lia].
      unfold flush_trigger in Hc. destruct (Z.gtb_spec (lenZ data + o) BLK); [|lia]. cbn [orb andb] in Hc.
      destruct (Z.gtb_spec (flush_wr (c_ s0)) 0); [discriminate|lia]. }
    split.
    + apply large_write_inv; auto.
      * intros [Hwf Hov]. pose proof (overlaps_between _ _ _ _ Ho Hl0 Hov) as Hbt. fold e in Hbt.
        destruct Hcase as [[Hc ->]|(_ & Hdirty & _ & [[Hx _]|(Hx & Hy & Hz)])].
        -- unfold s0 in Hwf, Hov, Hcl. rewrite c_with_cache, ?W2, ?W3, ?W4 in *.
           destruct (Z.gtb_spec (lenZ data + o) BLK); [|lia].
           destruct (Z.gtb_spec (flush_wr (c_ s)) 0); [lia|].
           rewrite Hwf, Z.eqb_refl, Hov in Hhole. discriminate.
        -- lia.
        -- apply Hz. rewrite <- Hx, <- Hy. auto.
      * intros [Hrf Hov]. pose proof (overlaps_between _ _ _ _ Ho Hl0 Hov) as Hbt. fold e in Hbt.
        specialize (Hrd Hrf). lia.
    + split; [left; split; [auto|congruence]|]. split; [|congruence].
      intros g. rewrite fget_fset by lia. destruct (Z.eqb_spec g f) as [->|Hn]; [|apply Hdom0].
      rewrite Hd0. split; discriminate.
  - (* small: through the write buffer *)
    cbn [fst snd].
    assert (Hdirty : flush_wr (c_ s1) > 0 -> last_wr_block (c_ s1) = b /\ last_wr_file (c_ s1) = f).
    { intros G. destruct Hcase as [[Hc ->]|(_ & _ & Hc & _)]; [|lia].
      unfold flush_trigger in Hc. destruct (Z.gtb_spec (lenZ data + o) BLK); [lia|].
      destruct (Z.eqb_spec (lenZ data) 0); [lia|].
      destruct (Z.gtb_spec (flush_wr (c_ s0)) 0); [|lia]. rewrite andb_true_r in Hc.
      destruct (Z.eqb_spec (last_wr_block (c_ s0)) b), (Z.eqb_spec (last_wr_file (c_ s0)) f);
        simpl in Hc; try discriminate. auto. }
    assert (Hrdn : ~ (last_rd_block (c_ s1) = b /\ last_rd_file (c_ s1) = f)).
    { intros [Hx Hy]. specialize (Hrd Hy). lia. }
    destruct (load_wr_buffer_inv s1 I f b d HI1 Hd Hb Hdirty Hrdn) as (HI2 & L1 & L2 & L3 & L4 & L5 & L6).
    set (s2 := load_wr_buffer s1 d f b) in *.
    assert (Hd2 : fget s2 f = Some d) by (unfold fget in *; rewrite L3; auto).
    split.
    + apply (put_wr_buffer_inv s2 I f b o data d m); auto; try lia;
        try (intros [Hx Hy]; apply Hrdn; split; congruence).
    + split; [left; split; [auto|congruence]|]. split; [|congruence].
      intros g. rewrite fget_with_cache. unfold fget. rewrite L3. apply Hdom0.
Qed.

(* ------------------------------------------------------------------ ADFI_read_file *)
Definition read_post (I : ideal) (f b o len : Z) (r : res) : Prop :=
  match r with
  | RBytes bs => I f <> None /\ lenZ bs = len /\
                 forall i v, 0 <= i < len -> ideal_at I f (b * BLK + o + i) = Some v -> nth (Z.to_nat i) bs 0 = v
  | RErr e => (I f = None /\ e = ADF_FILE_NOT_OPENED) \/
              (I f <> None /\ e = FREAD_ERROR /\
               (len = 0 \/ exists i, 0 <= i < len /\ ideal_at I f (b * BLK + o + i) = None))
  | RUnit => False
  end.

(* what a state with an identified read buffer on (b, f) answers *)
Lemma read_from_rd_buffer s I f b o len m :
  Inv s I -> I f = Some m -> last_rd_block (c_ s) = b -> last_rd_file (c_ s) = f ->
  0 <= o -> 0 <= len -> len + o <= BLK ->
  read_post I f b o len (RBytes (bufsub (rd_buf (c_ s)) o len)).
Proof.
  intros HI Hm Hb Hf Ho Hl Hfit. pose proof BLK_val as HB. cbn [read_post].
  split; [congruence|]. split.
  - apply bufsub_length; auto. rewrite (inv_rdlen _ _ HI). lia.
  - intros i v Hi Hv. unfold ideal_at in Hv. rewrite Hm in Hv.
    rewrite nth_bufsub by lia.
    assert (Hblk : in_blk (last_rd_block (c_ s)) (b * BLK + o + i)) by (unfold in_blk; lia).
    rewrite <- Hf in Hm.
    destruct (inv_rd _ _ HI m _ v Hm Hblk Hv) as [_ Hn]. rewrite <- Hn. f_equal. lia.
Qed.

Lemma bufput_nil buf : bufput buf 0 [] = buf.
Proof. unfold bufput. simpl. reflexivity. Qed.

Lemma read_file_inv s I f b o len :
  Inv s I -> safe_step s (ORead f b o len) = true ->
  Inv (snd (read_file s f b o len)) I /\ read_post I f b o len (fst (read_file s f b o len)) /\
  files (snd (read_file s f b o len)) = files s.
Proof.
  intros HI Hsafe. pose proof BLK_val as HB.
  cbn [safe_step] in Hsafe. apply andb_true_iff in Hsafe. destruct Hsafe as [Hsafe Hhole].
  apply andb_true_iff in Hsafe. destruct Hsafe as [Hsafe Hl]. apply Z.leb_le in Hl.
  apply andb_true_iff in Hsafe. destruct Hsafe as [Hb Ho]. apply Z.leb_le in Hb. apply Z.leb_le in Ho.
  unfold read_file.
  destruct (fget s f) as [d|] eqn:Hd.
  2: { assert (Hn : I f = None) by (now apply (inv_open _ _ HI)). cbn. auto. }
  pose proof (fget_nonneg _ _ _ Hd) as Hf.
  destruct (I f) as [m|] eqn:Hm.
  2: { apply (inv_open _ _ HI) in Hm. congruence. }
  set (p0 := b * BLK + o). assert (Hp0 : 0 <= p0) by (unfold p0; lia).
  (* a byte of the ideal store that is not under a dirty write block of f is in the file *)
  assert (Hondisk : forall p v, m p = Some v ->
            ~ (flush_wr (c_ s) > 0 /\ last_wr_file (c_ s) = f /\ in_blk (last_wr_block (c_ s)) p) ->
            p < dlen d /\ dnth d p = v).
  { intros p v Hp Hnd. destruct (inv_disk _ _ HI f m d p v Hm Hd Hp) as [_ [Hx|Hx]]; tauto. }
  destruct (Z.gtb_spec (len + o) BLK) as [Hlarge|Hsmall].
  - (* large: straight from the file *)
    assert (Hnodirty : forall i, 0 <= i < len ->
              ~ (flush_wr (c_ s) > 0 /\ last_wr_file (c_ s) = f /\ in_blk (last_wr_block (c_ s)) (p0 + i))).
    { intros i Hi (G & Hwf & Hblk).
      destruct (Z.gtb_spec (len + o) BLK); [|lia]. destruct (Z.gtb_spec (flush_wr (c_ s)) 0); [|lia].
      rewrite Hwf, Z.eqb_refl in Hhole. fold p0 in Hhole.
      rewrite (in_blk_overlaps _ (p0 + i) p0 len) in Hhole; [discriminate|auto|lia]. }
    pose proof (pread_len d p0 len) as Hpl.
    destruct (Z.eqb_spec (lenZ (pread d p0 len)) len) as [Hfull|Hshort]; cbn [fst snd].
    + split; auto. split; auto. cbn [read_post]. split; [congruence|]. split; auto.
      intros i v Hi Hv. unfold ideal_at in Hv. rewrite Hm in Hv. fold p0 in Hv.
      destruct (Hondisk _ _ Hv (Hnodirty i Hi)) as [_ Hv']. rewrite nth_pread by lia. auto.
    + split; auto. split; auto. cbn [read_post]. right. split; [congruence|]. split; auto.
      destruct (Z.eq_dec len 0) as [|Hnz]; [left; auto|right].
      exists (Z.max 0 (dlen d - p0)). split; [lia|].
      unfold ideal_at. rewrite Hm. fold p0. destruct (m (p0 + Z.max 0 (dlen d - p0))) as [v|] eqn:Hv; auto.
      assert (Hi : 0 <= Z.max 0 (dlen d - p0) < len) by lia.
      destruct (Hondisk _ _ Hv (Hnodirty _ Hi)). lia.
  - (* small: through the read buffer *)
    assert (Hpost : forall s', Inv s' I -> last_rd_block (c_ s') = b -> last_rd_file (c_ s') = f ->
              Inv (snd (serve_rd s' o len)) I /\ read_post I f b o len (fst (serve_rd s' o len)) /\
              files (snd (serve_rd s' o len)) = files s').
    { intros s' HI' Hb' Hf'. unfold serve_rd.
      destruct (Z.ltb_spec len 0); [lia|]. cbn [orb].
      destruct (Z.gtb_spec (o + len) (num_in_rd (c_ s'))) as [Hshort|Hfull]; cbn [fst snd].
      - (* the block has fewer bytes than asked for: the ideal store has nothing there either *)
        split; auto. split; auto. cbn [read_post]. right. split; [congruence|]. split; auto.
        destruct (Z.eq_dec len 0) as [|Hnz]; [left; auto|right].
        exists (Z.max 0 (num_in_rd (c_ s') - o)). split; [lia|].
        unfold ideal_at. rewrite Hm.
        destruct (m (b * BLK + o + Z.max 0 (num_in_rd (c_ s') - o))) as [v|] eqn:Hv; auto.
        exfalso. rewrite <- Hf' in Hm.
        assert (Hblk : in_blk (last_rd_block (c_ s')) (b * BLK + o + Z.max 0 (num_in_rd (c_ s') - o)))
          by (rewrite Hb'; unfold in_blk; lia).
        destruct (inv_rd _ _ HI' m _ v Hm Hblk Hv) as [Hlt _]. rewrite Hb' in Hlt. lia.
      - split; auto. split; auto. eapply read_from_rd_buffer; eauto; lia. }
    destruct ((num_in_rd (c_ s) <? BLK) || negb (b =? last_rd_block (c_ s)) || negb (f =? last_rd_file (c_ s))) eqn:Ecur.
    2: { (* the buffer is current *)
         apply orb_false_iff in Ecur. destruct Ecur as [Ecur E3]. apply orb_false_iff in Ecur. destruct Ecur as [E1 E2].
         apply negb_false_iff in E2, E3. apply Z.eqb_eq in E2, E3. apply Hpost; auto. }
    destruct ((b =? last_wr_block (c_ s)) && (f =? last_wr_file (c_ s))) eqn:Ewr.
    + (* served from the write buffer *)
      apply andb_true_iff in Ewr. destruct Ewr as [E1 E2]. apply Z.eqb_eq in E1, E2.
      assert (HI' : Inv (with_cache s (set_rd_id (set_rd_buf (c_ s) (wr_buf (c_ s))) b f BLK)) I).
      { destruct HI as [H1 H2 H3 H4 H5 H6 H7 H8 H9].
        constructor; cbn [c_ with_cache set_rd_id set_rd_buf last_wr_block last_wr_file flush_wr last_rd_block
                          last_rd_file rd_buf wr_buf num_in_rd files]; auto.
        - intros m' p v Hm' Hblk Hp. split; [unfold in_blk in Hblk; lia|].
          rewrite E1 in *. apply (H5 m' p v); auto. now rewrite <- E2.
        - intros _. unfold fget in *. cbn [files with_cache]. rewrite Hd. discriminate. }
      exact (Hpost _ HI' eq_refl eq_refl).
    + (* loaded from the file *)
      assert (Hnw : ~ (last_wr_block (c_ s) = b /\ last_wr_file (c_ s) = f)).
      { intros [X Y]. rewrite X, Y, !Z.eqb_refl in Ewr. discriminate. }
      set (bytes := pread d (b * BLK) BLK).
      assert (Hbl : lenZ bytes = Z.max 0 (Z.min BLK (dlen d - b * BLK))) by apply pread_len.
      assert (Hblk_disk : forall p v, m p = Some v -> in_blk b p -> p < dlen d /\ dnth d p = v).
      { intros p v Hp Hblk. apply Hondisk; auto. intros (_ & Y & Z). apply Hnw. split; auto.
        unfold in_blk in *. lia. }
      destruct (Z.leb_spec (lenZ bytes) 0) as [Hempty|Hgot]; cbn [fst snd].
      * assert (bytes = []) as Hnil by (destruct bytes; auto; unfold lenZ in Hempty; simpl in Hempty; lia).
        rewrite Hnil, bufput_nil.
        split; [destruct s as [fs c]; destruct c; exact HI|].
        split; [|reflexivity]. cbn [read_post]. right. split; [congruence|]. split; auto.
        destruct (Z.eq_dec len 0) as [|Hnz]; [left; auto|right]. exists 0. split; [lia|].
        unfold ideal_at. rewrite Hm. destruct (m (b * BLK + o + 0)) as [v|] eqn:Hv; auto.
        destruct (Hblk_disk _ _ Hv ltac:(unfold in_blk; lia)). lia.
      * assert (Hfits : (Z.to_nat 0 + length bytes <= length (rd_buf (c_ s)))%nat)
          by (rewrite (inv_rdlen _ _ HI); unfold lenZ in *; lia).
        assert (HI' : Inv (with_cache s (set_rd_id (set_rd_buf (c_ s) (bufput (rd_buf (c_ s)) 0 bytes)) b f (lenZ bytes))) I).
        { destruct HI as [H1 H2 H3 H4 H5 H6 H7 H8 H9].
          constructor; cbn [c_ with_cache set_rd_id set_rd_buf last_wr_block last_wr_file flush_wr last_rd_block
                            last_rd_file rd_buf wr_buf num_in_rd files]; auto.
          - rewrite bufput_length; auto. lia.
          - intros m' p v Hm' Hblk Hp. rewrite Hm in Hm'. inversion Hm'; subst m'.
            destruct (Hblk_disk _ _ Hp Hblk) as [Hlt Hv]. unfold in_blk in Hblk.
            split; [lia|]. rewrite nth_bufput by (auto; lia).
            destruct (Nat.leb_spec (Z.to_nat 0) (Z.to_nat (p - b * BLK))); [|lia].
            destruct (Nat.ltb_spec (Z.to_nat (p - b * BLK)) (Z.to_nat 0 + length bytes)); [|unfold lenZ in *; lia].
            cbn [andb]. replace (Z.to_nat (p - b * BLK) - Z.to_nat 0)%nat with (Z.to_nat (p - b * BLK)) by lia.
            unfold bytes. rewrite nth_pread by (fold bytes; lia). rewrite <- Hv. f_equal. lia.
          - intros _. unfold fget in *. cbn [files with_cache]. rewrite Hd. discriminate. }
        exact (Hpost _ HI' eq_refl eq_refl).
Qed.

(* EXACTLY when a read of an open file is refused, for every state (no side condition) *)
Lemma read_file_error_exact s f b o len d : fget s f = Some d ->
  (fst (read_file s f b o len) = RErr FREAD_ERROR <-> read_fails s d f b o len = true) /\
  (read_fails s d f b o len = false -> exists bs, fst (read_file s f b o len) = RBytes bs).
Proof.
  intros Hd. unfold read_file, read_fails, block_avail. rewrite Hd.
  destruct (len + o >? BLK).
  - destruct (lenZ (pread d (b * BLK + o) len) =? len); cbn [fst negb]; split; try (split; congruence); eauto; discriminate.
  - destruct ((num_in_rd (c_ s) <? BLK) || negb (b =? last_rd_block (c_ s)) || negb (f =? last_rd_file (c_ s))) eqn:Ecur.
    + destruct ((b =? last_wr_block (c_ s)) && (f =? last_wr_file (c_ s))).
      * unfold serve_rd. cbn [c_ with_cache set_rd_id num_in_rd].
        assert (E : (BLK <=? 0) = false) by (rewrite BLK_val; reflexivity). rewrite E. cbn [orb].
        destruct ((len <? 0) || (o + len >? BLK)); cbn [fst]; split; try (split; congruence); eauto; discriminate.
      * destruct (lenZ (pread d (b * BLK) BLK) <=? 0); cbn [fst orb].
        -- split; [tauto|discriminate].
        -- unfold serve_rd. cbn [c_ with_cache set_rd_id num_in_rd].
           destruct ((len <? 0) || (o + len >? lenZ (pread d (b * BLK) BLK))); cbn [fst]; split; try (split; congruence); eauto; discriminate.
    + (* a current buffer holds a full block *)
      apply orb_false_iff in Ecur. destruct Ecur as [Ecur _]. apply orb_false_iff in Ecur. destruct Ecur as [E1 _].
      apply Z.ltb_ge in E1.
      assert (E : (num_in_rd (c_ s) <=? 0) = false) by (apply Z.leb_gt; rewrite BLK_val in E1; lia). rewrite E. cbn [orb].
      unfold serve_rd.
      destruct ((len <? 0) || (o + len >? num_in_rd (c_ s))); cbn [fst]; split; try (split; congruence); eauto; discriminate.
Qed.

(* ------------------------------------------------------------------ ADFI_flush_buffers, open, close *)
Definition disk_agrees (s : st) (I : ideal) (f : Z) : Prop :=
  forall m d p v, I f = Some m -> fget s f = Some d -> m p = Some v -> 0 <= p < dlen d /\ dnth d p = v.

Lemma safe_flush_write s f : safe_step s (OWrite f MAXIMUM_32_BITS 0 []) = true.
Proof.
  cbn [safe_step]. unfold lenZ. simpl length. rewrite BLK_val. reflexivity.
Qed.

Lemma ideal_step_write_nil I f b o : ideal_eq (ideal_step I (OWrite f b o [])) I.
Proof.
  intros g. cbn [ideal_step]. destruct (I f) as [m|] eqn:Hm.
  - unfold iupd. destruct (Z.eqb_spec g f) as [->|Hn].
    + rewrite Hm. intros p. apply store_write_nil.
    + destruct (I g); auto.
  - destruct (I g); auto.
Qed.

Lemma clean_disk_agrees s I f : Inv s I -> (flush_wr (c_ s) <= 0 \/ last_wr_file (c_ s) <> f) -> disk_agrees s I f.
Proof.
  intros HI Hc m d p v Hm Hd Hp.
  destruct (inv_disk _ _ HI f m d p v Hm Hd Hp) as [Hp0 [(X & Y & _)|[Hl Hv]]]; [lia|]. split; auto.
Qed.

Lemma flush_buffers_inv s I f close : Inv s I ->
  Inv (snd (flush_buffers s f close)) I /\
  (forall g, fget (snd (flush_buffers s f close)) g = None <-> fget s g = None) /\
  ((fst (flush_buffers s f close) = RUnit /\ I f <> None /\ disk_agrees (snd (flush_buffers s f close)) I f /\
    (close = true -> last_wr_file (c_ (snd (flush_buffers s f close))) <> f /\
                     last_rd_file (c_ (snd (flush_buffers s f close))) <> f)) \/
   (fst (flush_buffers s f close) = RErr ADF_FILE_NOT_OPENED /\ I f = None /\ snd (flush_buffers s f close) = s)).
Proof.
  intros HI. unfold flush_buffers.
  destruct (fget s f) as [d|] eqn:Hd.
  2: { cbn [fst snd]. split; auto. split; [tauto|]. right. split; [reflexivity|]. split; [now apply (inv_open _ _ HI)|reflexivity]. }
  pose proof (fget_nonneg _ _ _ Hd) as Hf.
  assert (Hm : I f <> None) by (intro X; apply (inv_open _ _ HI) in X; congruence).
  (* the write-buffer half *)
  assert (Hwr : exists r1 s1,
     (let '(r, s1) := if f =? last_wr_file (c_ s)
        then let '(r, s1) := write_file s f MAXIMUM_32_BITS 0 [] in
             (r, if close then with_cache s1 (set_flush (set_wr_id (c_ s1) (-2) (-2)) (-2)) else s1)
        else (RUnit, s) in
      (r, if (f =? last_rd_file (c_ s1)) && close then with_cache s1 (reset_rd (c_ s1)) else s1)) =
     (r1, if (f =? last_rd_file (c_ s1)) && close then with_cache s1 (reset_rd (c_ s1)) else s1) /\
     r1 = RUnit /\ Inv s1 I /\ (forall g, fget s1 g = None <-> fget s g = None) /\
     (flush_wr (c_ s1) <= 0 \/ last_wr_file (c_ s1) <> f) /\
     (close = true -> last_wr_file (c_ s1) <> f)).
  { destruct (Z.eqb_spec f (last_wr_file (c_ s))) as [E|E].
    - pose proof (write_file_inv s I f MAXIMUM_32_BITS 0 [] HI (safe_flush_write s f)) as (W1 & W2 & W3 & W4).
      destruct (write_file s f MAXIMUM_32_BITS 0 []) as [r s1] eqn:Ew. cbn [fst snd] in *.
      assert (HI1 : Inv s1 I) by (eapply Inv_ext; [apply ideal_step_write_nil|exact W1]).
      assert (Hcl : flush_wr (c_ s1) <= 0) by (apply W4; [auto|congruence]).
      assert (Hr : r = RUnit) by (destruct W2 as [[X _]|[_ X]]; [auto|congruence]).
      destruct close.
      + eexists _, _. split; [reflexivity|]. split; auto.
        split; [now apply reset_wr_inv|]. split; [intros g; rewrite fget_with_cache; apply W3|].
        cbn. split; [left; lia|intros _; lia].
      + eexists _, _. split; [reflexivity|]. split; auto. split; auto. split; auto. split; [auto|discriminate].
    - eexists _, _. split; [reflexivity|]. split; auto. split; auto. split; [tauto|]. split; [right; congruence|congruence]. }
  destruct Hwr as (r1 & s1 & Heq & Hr & HI1 & Hdom & Hcl & Hcw). rewrite Heq. cbn [fst snd]. subst r1.
  destruct ((f =? last_rd_file (c_ s1)) && close) eqn:Er.
  - apply andb_true_iff in Er. destruct Er as [_ ->].
    pose proof (reset_rd_inv _ _ HI1) as HI2.
    split; auto. split; [intros g; rewrite fget_with_cache; apply Hdom|]. left. split; auto. split; auto.
    split.
    + apply clean_disk_agrees; auto.
    + intros _. cbn. split; [apply Hcw; auto|lia].
  - split; auto. split; auto. left. split; auto. split; auto. split; [apply clean_disk_agrees; auto|].
    intros ->. split; auto. rewrite andb_true_r in Er. apply Z.eqb_neq in Er. congruence.
Qed.

Lemma open_inv s I f d : Inv s I -> fget s f = None -> 0 <= f ->
  Inv (fset s f d) (iupd I f (Some (store_of_disk d))).
Proof.
  intros HI Hn Hf.
  assert (Hfg : forall g, fget (fset s f d) g = if g =? f then Some d else fget s g) by (intros; now apply fget_fset).
  assert (Hwf : last_wr_file (c_ s) <> f).
  { intros E. destruct (inv_wr_use _ _ HI ltac:(lia)) as [X _]. congruence. }
  assert (Hrf : last_rd_file (c_ s) <> f).
  { intros E. pose proof (inv_rd_use _ _ HI ltac:(lia)) as X. congruence. }
  destruct HI as [H1 H2 H3 H4 H5 H6 H7 H8 H9].
  constructor; rewrite ?c_fset; auto.
  - intros g. rewrite Hfg. destruct (Z.eqb_spec g f) as [->|Hne].
    + rewrite iupd_same. split; discriminate.
    + rewrite iupd_other by auto. apply H1.
  - intros g m d' p v Hm Hg Hp. rewrite Hfg in Hg. destruct (Z.eqb_spec g f) as [->|Hne].
    + rewrite iupd_same in Hm. inversion Hm; subst m. inversion Hg; subst d'. unfold store_of_disk in Hp.
      destruct (Z.leb_spec 0 p), (Z.ltb_spec p (dlen d)); simpl in Hp; try discriminate.
      inversion Hp. split; auto.
    + rewrite iupd_other in Hm by auto. eauto.
  - intros m p v Hm. rewrite iupd_other in Hm by auto. eauto.
  - intros m p v Hm. rewrite iupd_other in Hm by auto. eauto.
  - intros H0. destruct (H8 H0) as [X Y]. split; auto. rewrite Hfg.
    destruct (Z.eqb_spec (last_wr_file (c_ s)) f); [discriminate|auto].
  - intros H0. rewrite Hfg. destruct (Z.eqb_spec (last_rd_file (c_ s)) f); [discriminate|auto].
Qed.

Lemma close_inv s I f : Inv s I -> 0 <= f -> last_wr_file (c_ s) <> f -> last_rd_file (c_ s) <> f ->
  Inv (fdel s f) (iupd I f None).
Proof.
  intros HI Hf Hwf Hrf.
  assert (Hfg : forall g, fget (fdel s f) g = if g =? f then None else fget s g) by (intros; now apply fget_fdel).
  destruct HI as [H1 H2 H3 H4 H5 H6 H7 H8 H9].
  constructor; rewrite ?c_fdel; auto.
  - intros g. rewrite Hfg. destruct (Z.eqb_spec g f) as [->|Hne].
    + rewrite iupd_same. tauto.
    + rewrite iupd_other by auto. apply H1.
  - intros g m d' p v Hm Hg Hp. rewrite Hfg in Hg. destruct (Z.eqb_spec g f) as [->|Hne]; [discriminate|].
    rewrite iupd_other in Hm by auto. eauto.
  - intros m p v Hm. rewrite iupd_other in Hm by auto. eauto.
  - intros m p v Hm. rewrite iupd_other in Hm by auto. eauto.
  - intros H0. destruct (H8 H0) as [X Y]. split; auto. rewrite Hfg.
    destruct (Z.eqb_spec (last_wr_file (c_ s)) f); [congruence|auto].
  - intros H0. rewrite Hfg. destruct (Z.eqb_spec (last_rd_file (c_ s)) f); [congruence|auto].
Qed.

(* ------------------------------------------------------------------ one step *)
Definition good_step (I : ideal) (s : st) (p : op) (r : res) (s' : st) : Prop :=
  match p with
  | ORead f b o len => read_post I f b o len r
  | OWrite f b o data => write_post I f r
  | OFlush f | OFlushClose f =>
      (r = RUnit /\ I f <> None /\ disk_agrees s' I f) \/ (r = RErr ADF_FILE_NOT_OPENED /\ I f = None)
  | OClose f =>
      (r = RUnit /\ I f <> None /\ disk_agrees (snd (flush_buffers s f true)) I f /\
       s' = fdel (snd (flush_buffers s f true)) f) \/
      (r = RErr ADF_FILE_NOT_OPENED /\ I f = None)
  | OOpen f d => (r = RUnit /\ I f = None /\ 0 <= f) \/ (r = RErr FILE_OPEN_ERROR /\ (I f <> None \/ f < 0))
  end.

Lemma step_inv s I p : Inv s I -> safe_step s p = true ->
  Inv (snd (step s p)) (ideal_step I p) /\ good_step I s p (fst (step s p)) (snd (step s p)).
Proof.
  intros HI Hsafe. destruct p as [f d|f b o len|f b o data|f|f|f]; cbn [step ideal_step good_step].
  - (* open *)
    destruct (fget s f) as [d0|] eqn:Hd.
    + assert (Hm : I f <> None) by (intro X; apply (inv_open _ _ HI) in X; congruence).
      pose proof (fget_nonneg _ _ _ Hd). destruct (Z.ltb_spec f 0); [lia|].
      destruct (I f); [|congruence]. cbn [fst snd]. split; auto; right; split; auto; left; discriminate.
    + assert (Hm : I f = None) by (now apply (inv_open _ _ HI)).
      destruct (Z.ltb_spec f 0); cbn [fst snd].
      * split; auto.
      * rewrite Hm. split; [now apply open_inv|auto].
  - destruct (read_file_inv s I f b o len HI Hsafe) as (X & Y & _). auto.
  - destruct (write_file_inv s I f b o data HI Hsafe) as (X & Y & _). auto.
  - destruct (flush_buffers_inv s I f false HI) as (X & _ & [(Y1 & Y2 & Y3 & _)|(Y1 & Y2 & _)]); split; auto.
  - destruct (flush_buffers_inv s I f true HI) as (X & _ & [(Y1 & Y2 & Y3 & _)|(Y1 & Y2 & _)]); split; auto.
  - destruct (fget s f) as [d0|] eqn:Hd.
    + pose proof (fget_nonneg _ _ _ Hd) as Hf.
      destruct (flush_buffers_inv s I f true HI) as (X & _ & [(Y1 & Y2 & Y3 & Y4)|(Y1 & Y2 & _)]).
      * destruct (Y4 eq_refl) as [Z1 Z2].
        destruct (flush_buffers s f true) as [r s1] eqn:E. cbn [fst snd] in *. subst r.
        split; [now apply close_inv|]. left. auto.
      * apply (inv_open _ _ HI) in Y2. congruence.
    + assert (Hm : I f = None) by (now apply (inv_open _ _ HI)). cbn [fst snd]. split; [|right; auto].
      eapply Inv_ext; [|exact HI]. intros g. unfold iupd. destruct (Z.eqb_spec g f) as [->|]; [rewrite Hm; auto|].
      destruct (I g); auto.
Qed.

(* ------------------------------------------------------------------ histories *)
Lemma exec_app : forall a s b, exec s (a ++ b) = exec (exec s a) b.
Proof. induction a; intros; simpl; auto. Qed.
Lemma ideal_exec_app : forall a I b, ideal_exec I (a ++ b) = ideal_exec (ideal_exec I a) b.
Proof. induction a; intros; simpl; auto. Qed.
Lemma safe_hist_app : forall a s b, safe_hist s (a ++ b) = safe_hist s a && safe_hist (exec s a) b.
Proof. induction a; intros; simpl; auto. rewrite IHa. now rewrite andb_assoc. Qed.

Lemma hist_inv : forall ops s I, Inv s I -> safe_hist s ops = true -> Inv (exec s ops) (ideal_exec I ops).
Proof.
  induction ops as [|p r IH]; intros s I HI Hs; simpl; auto.
  simpl in Hs. apply andb_true_iff in Hs. destruct Hs as [H1 H2].
  apply IH; auto. apply step_inv; auto.
Qed.

Theorem cache_coherent : forall pre p,
  safe_hist init_st (pre ++ [p]) = true ->
  good_step (ideal_exec ideal0 pre) (exec init_st pre) p
            (fst (step (exec init_st pre) p)) (snd (step (exec init_st pre) p)).
Proof.
  intros pre p Hs. rewrite safe_hist_app in Hs. apply andb_true_iff in Hs. destruct Hs as [H1 H2].
  simpl in H2. rewrite andb_true_r in H2.
  apply step_inv; auto. apply hist_inv; auto. apply init_inv.
Qed.

(* ------------------------------------------------------------------ the two holes *)
Definition nines : list Z := repeat 9 5000.
Definition wit_hole1 : list op :=
  [OOpen 0 (disk_of_list []); OWrite 0 0 0 [7]; OFlush 0; OWrite 0 0 0 nines].
Definition wit_hole2 : list op :=
  [OOpen 0 (disk_of_list (repeat 1 5000)); OWrite 0 0 0 [7]].

Fixpoint safe_flags (s : st) (ops : list op) : list bool :=
  match ops with [] => [] | p :: r => safe_step s p :: safe_flags (snd (step s p)) r end.

Theorem cache_unsafe_refuted :
  (* hole 1: small write, flush, LARGE write over the clean but still identified buffer, small read: stale *)
  (safe_flags init_st (wit_hole1 ++ [ORead 0 0 0 1]) = [true; true; true; false; true] /\
   fst (step (exec init_st wit_hole1) (ORead 0 0 0 1)) = RBytes [7] /\
   ideal_at (ideal_exec ideal0 wit_hole1) 0 0 = Some 9) /\
  (* hole 2: small write (pending in the buffer), LARGE read of the same block: the file's old byte *)
  (safe_flags init_st (wit_hole2 ++ [ORead 0 0 0 5000]) = [true; true; false] /\
   (exists bs, fst (step (exec init_st wit_hole2) (ORead 0 0 0 5000)) = RBytes bs /\ nth 0 bs 0 = 1) /\
   ideal_at (ideal_exec ideal0 wit_hole2) 0 0 = Some 7).
Proof.
  split.
  - split; [vm_compute; reflexivity|]. split; vm_compute; reflexivity.
  - split; [vm_compute; reflexivity|]. split; [|vm_compute; reflexivity].
    eexists. split; [vm_compute; reflexivity|]. reflexivity.
Qed.

(* ------------------------------------------------------------------ files are independent *)
Definition same_at (f : Z) (I J : ideal) : Prop :=
  match I f, J f with
  | Some m, Some m' => forall p, m p = m' p
  | None, None => True
  | _, _ => False
  end.

Lemma ideal_step_same f I J p : same_at f I J -> op_file p = f -> same_at f (ideal_step I p) (ideal_step J p).
Proof.
  unfold same_at. intros H E. destruct p as [g d|g b o len|g b o data|g|g|g]; cbn [op_file] in E; subst g;
    cbn [ideal_step]; auto.
  - destruct (f <? 0); auto. destruct (I f) eqn:EI, (J f) eqn:EJ; try tauto; rewrite ?EI, ?EJ, ?iupd_same; auto.
  - destruct (I f) as [m|] eqn:EI, (J f) as [m'|] eqn:EJ; try tauto; rewrite ?EI, ?EJ, ?iupd_same; auto.
    intros p. unfold store_write. destruct (_ && _); auto.
  - now rewrite !iupd_same.
Qed.
Lemma ideal_step_other f I p : op_file p <> f -> ideal_step I p f = I f.
Proof.
  intros E. destruct p as [g d|g b o len|g b o data|g|g|g]; cbn [op_file] in E; cbn [ideal_step]; auto.
  - destruct (g <? 0); auto. destruct (I g); auto. now rewrite iupd_other by auto.
  - destruct (I g); auto. now rewrite iupd_other by auto.
  - now rewrite iupd_other by auto.
Qed.

Lemma ideal_exec_proj f : forall ops I J, same_at f I J -> same_at f (ideal_exec I ops) (ideal_exec J (proj f ops)).
Proof.
  induction ops as [|p r IH]; intros I J H; simpl; auto.
  destruct (Z.eqb_spec (op_file p) f) as [E|E]; simpl.
  - apply IH. now apply ideal_step_same.
  - apply IH. unfold same_at in *. now rewrite ideal_step_other.
Qed.

Lemma same_at_refl f I : same_at f I I.
Proof. unfold same_at. destruct (I f); auto. Qed.

Lemma same_at_ideal_at f I J p : same_at f I J -> ideal_at I f p = ideal_at J f p.
Proof. unfold same_at, ideal_at. destruct (I f), (J f); try tauto. auto. Qed.

(* what file f holds is a function of f's own sub-history; hence two safe histories with the same sub-history on f
   give every read of f the same answer wherever the ideal store defines it *)
Theorem cache_files_independent : forall f h1 h2 b o len,
  proj f h1 = proj f h2 ->
  safe_hist init_st (h1 ++ [ORead f b o len]) = true ->
  safe_hist init_st (h2 ++ [ORead f b o len]) = true ->
  (forall p, ideal_at (ideal_exec ideal0 h1) f p = ideal_at (ideal_exec ideal0 (proj f h1)) f p) /\
  read_post (ideal_exec ideal0 (proj f h1)) f b o len (fst (step (exec init_st h1) (ORead f b o len))) /\
  read_post (ideal_exec ideal0 (proj f h1)) f b o len (fst (step (exec init_st h2) (ORead f b o len))).
Proof.
  intros f h1 h2 b o len Hp S1 S2.
  pose proof (ideal_exec_proj f h1 ideal0 ideal0 (same_at_refl f ideal0)) as E1.
  pose proof (ideal_exec_proj f h2 ideal0 ideal0 (same_at_refl f ideal0)) as E2.
  rewrite <- Hp in E2.
  assert (Hpost : forall I J r, same_at f I J -> read_post I f b o len r -> read_post J f b o len r).
  { intros I J r HS. unfold read_post. pose proof (same_at_ideal_at f I J) as Hat.
    assert (Hn : I f = None <-> J f = None) by (unfold same_at in HS; destruct (I f), (J f); try tauto; split; discriminate).
    destruct r; auto.
    - intros (A & B & C). split; [tauto|]. split; auto. intros i v Hi Hv. apply C; auto. rewrite Hat; auto.
    - intros [[A B]|(A & B & C)]; [left; tauto|right]. split; [tauto|]. split; auto.
      destruct C as [C|(i & Hi & C)]; [left; auto|right]. exists i. split; auto. rewrite <- Hat; auto. }
  split; [intros p; now apply same_at_ideal_at|].
  split.
  - eapply Hpost; [exact E1|]. apply (cache_coherent h1 (ORead f b o len) S1).
  - eapply Hpost; [exact E2|]. apply (cache_coherent h2 (ORead f b o len) S2).
Qed.
