(* AdfChildTab.v -- executable model of a node's sub-node table, the on-disk child list of ADF (property C02,
   extension C02b).  Definitions only.

   Transcribed from src/adf/ADF_internals.c (line numbers of /repo def473d):
     ADFI_add_2_sub_node_table (642-778): capacity 0 -> LIST_CHUNK, else (unsigned)((float)capacity * 1.5); the old
        table is read, entries [num_sub_nodes, capacity) are blanked, the new entry goes to position num_sub_nodes;
     ADFI_delete_from_sub_node_table (2826-2919): first entry with the child's disk pointer, the rest moves up;
     ADFI_check_4_child_name (1618-1709) with ADFI_compare_node_names (1844-1884);
     the table part of ADF_Put_Name (ADF_interface.c 2530-2570): the entry found by name gets the new name in place.
   The table is the parent's header fields entries_for_sub_nodes / num_sub_nodes plus the array of
   (32-byte blank-padded name, child disk pointer).  (float)capacity is exact below 2^24 entries; above that the
   model stops ([None]); malloc never fails. *)
From Coq Require Import ZArith List Bool Lia.
Import ListNotations.
Local Open Scope Z_scope.

Definition LIST_CHUNK : Z := 8.
Definition ADF_NAME_LENGTH : nat := 32.
Definition SUB_NODE_TABLE_ENTRIES_BAD : Z := 24.
Definition FLOAT_EXACT : Z := 16777216.                     (* 2^24 *)

Definition name := list Z.                                  (* 32 bytes *)
Definition ptr := (Z * Z)%type.                             (* block, offset *)
Definition centry := (name * ptr)%type.

(* "unused entry in sub-node-table     " cut to 32 characters *)
Definition unused_name : name :=
  [117;110;117;115;101;100;32;101;110;116;114;121;32;105;110;32;115;117;98;45;110;111;100;101;45;116;97;98;108;101;32;32].

Record ctab := mkC { cap : Z; num : Z; ents : list centry }.
Definition empty_tab : ctab := mkC 0 0 [].

Definition ptr_eqb (a b : ptr) : bool := (fst a =? fst b) && (snd a =? snd b).

(* (unsigned int)((float) capacity * LIST_CHUNK_GROW_FACTOR) for capacity < 2^24 *)
Definition grow (c : Z) : Z := if c =? 0 then LIST_CHUNK else (c * 3) / 2.

Inductive cres := COk (t : ctab) | CErr (e : Z).

(* since /repo a707034: ADFI_read_node_header refuses num_sub_nodes > entries_for_sub_nodes, and
   ADFI_read_sub_node_table refuses a table whose length on disk is not entries_for_sub_nodes *)
Definition header_bad (t : ctab) : bool := num t >? cap t.
Definition table_bad (t : ctab) : bool := negb (Z.of_nat (length (ents t)) =? cap t).

(* ADFI_add_2_sub_node_table; nm = the child's header name (32 bytes); None = outside the model (2^24 entries) *)
Definition add_child (t : ctab) (nm : name) (child : ptr) : option cres :=
  if header_bad t then Some (CErr SUB_NODE_TABLE_ENTRIES_BAD)
  else if cap t <=? num t then
    if FLOAT_EXACT <=? cap t then None
    else
      let ncap := grow (cap t) in
      if ncap <=? num t then Some (CErr SUB_NODE_TABLE_ENTRIES_BAD)
      else if (0 <? cap t) && table_bad t then Some (CErr SUB_NODE_TABLE_ENTRIES_BAD)   (* the old table is read *)
      else
        (* the old table (cap entries) read into the new array, [num, ncap) blanked, then entry [num] written *)
        let kept := firstn (Z.to_nat (num t)) (ents t) in
        let blank := repeat (unused_name, (0, 4096)) (Z.to_nat (ncap - num t) - 1) in
        Some (COk (mkC ncap (num t + 1) (kept ++ (nm, child) :: blank)))
  else
    Some (COk (mkC (cap t) (num t + 1)
                   (firstn (Z.to_nat (num t)) (ents t) ++ (nm, child) :: skipn (S (Z.to_nat (num t))) (ents t)))).

(* position of the first of the first n entries with the child's pointer *)
Fixpoint find_ptr (l : list centry) (n : nat) (child : ptr) {struct n} : option nat :=
  match n, l with
  | S n', e :: r => if ptr_eqb (snd e) child then Some O
                    else match find_ptr r n' child with Some i => Some (S i) | None => None end
  | _, _ => None
  end.

(* ADFI_delete_from_sub_node_table *)
Definition del_child (t : ctab) (child : ptr) : cres :=
  if header_bad t || table_bad t then CErr SUB_NODE_TABLE_ENTRIES_BAD else
  match find_ptr (ents t) (Z.to_nat (num t)) child with
  | None => CErr SUB_NODE_TABLE_ENTRIES_BAD
  | Some i =>
      let n := Z.to_nat (num t) in
      (* entries i+1 .. n-1 move up one place, entry n-1 becomes unused (pointer 0,0), the tail stays *)
      COk (mkC (cap t) (num t - 1)
               (firstn i (ents t) ++ firstn (n - 1 - i) (skipn (S i) (ents t)) ++
                (unused_name, (0, 0)) :: skipn n (ents t)))
  end.

(* ADFI_compare_node_names: the existing 32-byte name against a C string *)
Fixpoint cmp_prefix (nm new : list Z) (k : nat) {struct k} : bool :=
  match k with
  | O => true
  | S k' => match nm, new with
            | a :: nm', b :: new' => (a =? b) && cmp_prefix nm' new' k'
            | _, _ => false
            end
  end.
Definition names_match (nm new : list Z) : bool :=
  let k := Nat.min (length new) ADF_NAME_LENGTH in
  cmp_prefix nm new k && forallb (fun c => c =? 32) (firstn (ADF_NAME_LENGTH - k) (skipn k nm)).

(* ADFI_check_4_child_name: index of the first of the first num entries whose name matches *)
Fixpoint find_name (l : list centry) (n : nat) (new : list Z) {struct n} : option nat :=
  match n, l with
  | S n', e :: r => if names_match (fst e) new then Some O
                    else match find_name r n' new with Some i => Some (S i) | None => None end
  | _, _ => None
  end.
Definition check_child (t : ctab) (new : list Z) : option (nat * centry) :=
  if header_bad t then None                       (* an error return: the caller gives up, nothing is found *)
  else if num t =? 0 then None
  else if (0 <? cap t) && table_bad t then None
  else match find_name (ents t) (Z.to_nat (num t)) new with
       | Some i => Some (i, nth i (ents t) (unused_name, (0, 0)))
       | None => None
       end.

(* the name as ADFI_write_node_header stores it: blank padded to 32 *)
Definition pad32 (new : list Z) : name := firstn ADF_NAME_LENGTH new ++ repeat 32 (ADF_NAME_LENGTH - length new).

(* ADF_Put_Name on the parent's table: the new name must be free, the entry is found by its OLD name *)
Definition rename_child (t : ctab) (old new : list Z) : cres :=
  match check_child t new with
  | Some _ => CErr 26                                        (* DUPLICATE_CHILD_NAME *)
  | None =>
      match check_child t old with
      | None => CErr 29                                      (* CHILD_NOT_OF_GIVEN_PARENT *)
      | Some (i, (_, p)) =>
          COk (mkC (cap t) (num t) (firstn i (ents t) ++ (pad32 new, p) :: skipn (S i) (ents t)))
      end
  end.

(* ------------------------------------------------------------------ histories and the ideal ordered list *)
Inductive cop :=
| CAdd (nm : list Z) (child : ptr)          (* create / move in: guarded by check_4_child_name, name stored padded *)
| CDel (child : ptr)
| CRename (old new : list Z).

(* what the public entry points do: ADF_Create and ADF_Move_Child look the name up first *)
Definition cstep (t : ctab) (p : cop) : option ctab :=
  match p with
  | CAdd nm child =>
      match check_child t nm with
      | Some _ => Some t                                     (* DUPLICATE_CHILD_NAME: nothing changes *)
      | None => match add_child t (pad32 nm) child with
                | Some (COk t') => Some t'
                | Some (CErr _) => Some t
                | None => None
                end
      end
  | CDel child => match del_child t child with COk t' => Some t' | CErr _ => Some t end
  | CRename old new => match rename_child t old new with COk t' => Some t' | CErr _ => Some t end
  end.
Fixpoint crun (t : ctab) (h : list cop) : option ctab :=
  match h with
  | [] => Some t
  | p :: r => match cstep t p with Some t' => crun t' r | None => None end
  end.

Definition children (t : ctab) : list centry := firstn (Z.to_nat (num t)) (ents t).

(* the ideal ordered list *)
Fixpoint remove_first (l : list centry) (child : ptr) : list centry :=
  match l with
  | [] => []
  | e :: r => if ptr_eqb (snd e) child then r else e :: remove_first r child
  end.
Fixpoint rename_first (l : list centry) (old new : list Z) : list centry :=
  match l with
  | [] => []
  | e :: r => if names_match (fst e) old then (pad32 new, snd e) :: r else e :: rename_first r old new
  end.
Definition has_name (l : list centry) (new : list Z) : bool := existsb (fun e => names_match (fst e) new) l.
Definition has_ptr (l : list centry) (child : ptr) : bool := existsb (fun e => ptr_eqb (snd e) child) l.

Definition ideal_cstep (l : list centry) (p : cop) : list centry :=
  match p with
  | CAdd nm child => if has_name l nm then l else l ++ [(pad32 nm, child)]
  | CDel child => remove_first l child
  | CRename old new => if has_name l new then l else rename_first l old new
  end.
Fixpoint ideal_crun (l : list centry) (h : list cop) : list centry :=
  match h with [] => l | p :: r => ideal_crun (ideal_cstep l p) r end.

(* names a caller may pass: what ADFI_check_string_length lets through, without an embedded NUL *)
Definition good_name (nm : list Z) : bool := (1 <=? length nm)%nat && (length nm <=? ADF_NAME_LENGTH)%nat.
Definition good_op (p : cop) : bool :=
  match p with
  | CAdd nm _ => good_name nm
  | CDel _ => true
  | CRename old new => good_name old && good_name new
  end.
