(* Properties_C20.v -- exported theorems for C20 (the Fortran-callable bindings behave like the C functions).
   Only statements, each closed by [exact] of a lemma of FtocProofs.v (or by evaluation of the decidable table
   predicate on the REGENERATED table Gen_C20.table), each followed by Print Assumptions. *)
From Coq Require Import ZArith List String.
From CgnsV Require Import ListX Ftoc FtocProofs Gen_C20.
Import ListNotations.
Local Open Scope Z_scope.

(* string_2_C_string / to_c_string, for ALL byte strings f, hidden lengths flen, limits max_len and buffers:
   exactly the indices 0..n are written, once each, in order, n = min(length of f without trailing blanks, max_len);
   the result is that value truncated to max_len followed by NUL; nothing beyond index n changes; no write is
   outside a buffer of max_len+1 bytes; the status is CG_OK. *)
Theorem C20_to_c_bounds : forall f flen max_len buf,
  0 <= max_len -> 0 <= flen <= lenZ f ->
  let v := fvalue f flen in
  let n := Z.min (lenZ v) max_len in
  let ws := to_c_writes f flen max_len in
  map fst ws = zrange (n + 1) /\
  to_c_ret f flen max_len = n /\
  snd (s2c false false f flen max_len) = 0 /\ fst (s2c false false f flen max_len) = ws /\
  (forall bufsize, max_len + 1 <= bufsize -> oob_writes bufsize ws = []) /\
  (n < lenZ buf ->
     let b' := apply_writes buf ws in
     lenZ b' = lenZ buf /\
     (forall i, 0 <= i < n -> nthZ b' i 0 = nthZ v i 0) /\
     nthZ b' n 1 = 0 /\
     (forall i d, n < i -> nthZ b' i d = nthZ buf i d)).
Proof. exact to_c_bounds. Qed.
Print Assumptions C20_to_c_bounds.

(* string_2_F_string / to_f_string, for ALL C strings c, lengths flen >= 0 and buffers: exactly the indices
   0..flen-1 are written, once each; byte i is c[i] below strlen(c) and a blank above; nothing at or beyond flen
   changes; the status is CG_OK. *)
Theorem C20_to_f_bounds : forall c flen buf,
  0 <= flen ->
  let s := cvalue c in
  let ws := to_f_writes c flen in
  map fst ws = zrange flen /\
  snd (s2f false false c flen) = 0 /\ fst (s2f false false c flen) = ws /\
  (forall bufsize, flen <= bufsize -> oob_writes bufsize ws = []) /\
  (flen <= lenZ buf ->
     let b' := apply_writes buf ws in
     lenZ b' = lenZ buf /\
     (forall i, 0 <= i < flen -> nthZ b' i 0 = if i <? lenZ s then nthZ s i 0 else blank) /\
     (forall i d, flen <= i -> nthZ b' i d = nthZ buf i d)).
Proof. exact to_f_bounds. Qed.
Print Assumptions C20_to_f_bounds.

(* a C string longer than the Fortran variable is cut to the variable's length and the status stays CG_OK *)
Theorem C20_to_f_truncates_silently : forall c flen buf, 0 <= flen -> flen < strlenZ c -> flen <= lenZ buf ->
  snd (s2f false false c flen) = 0 /\
  forall i, 0 <= i < flen -> nthZ (apply_writes buf (to_f_writes c flen)) i 0 = nthZ c i 0.
Proof. exact to_f_truncates. Qed.
Print Assumptions C20_to_f_truncates_silently.

(* the decidable row predicate holds of every row of the table regenerated from the current sources, except the
   rows named in Ftoc.known_rows (re-evaluated by the kernel on every run) *)
Theorem C20_table_checked : table_ok Gen_C20.table = true.
Proof. vm_compute. reflexivity. Qed.
Print Assumptions C20_table_checked.

Theorem C20_every_wrapper_parsed : forall n why, ~ In (Unparsed n why) Gen_C20.table.
Proof. intros n why. exact (table_ok_no_unparsed _ n why C20_table_checked). Qed.
Print Assumptions C20_every_wrapper_parsed.

(* for every wrapper of the current code and every Fortran string parameter of it, for ALL strings and hidden
   lengths: an input string is converted into a buffer of at least max_len+1 bytes and no write of the conversion
   leaves it; an output buffer handed to the C function has at least the documented size (or is sized by the
   library), the copy-back writes hidden-length bytes only and runs only after a zero status *)
Theorem C20_buffers_fit : forall w s,
  In (Wrapper w) Gen_C20.table -> row_known (Wrapper w) = false -> In s (r_strs w) -> str_fits w s.
Proof. intros w s. exact (buffers_fit_generic _ w s C20_table_checked). Qed.
Print Assumptions C20_buffers_fit.

(* every wrapper calls its same-named C function exactly once, stores the status in *ier (or the C function has
   none), makes only read-only queries besides, forms each argument as the prototype requires, in the order of its
   own parameter list, and has exactly one hidden length per Fortran string *)
Theorem C20_wrapper_is_call : forall w,
  In (Wrapper w) Gen_C20.table -> row_known (Wrapper w) = false -> is_call w.
Proof. intros w. exact (wrapper_is_call_generic _ w C20_table_checked). Qed.
Print Assumptions C20_wrapper_is_call.

(* the full-strength statement (no exception) is false of the current code: cg_bcdataset_info_f declares a hidden
   length for a string parameter it does not have *)
Theorem C20_known_row_refuted :
  exists r, row_name r = "cg_bcdataset_info_f"%string /\ row_ok r = false /\
            match r with
            | Wrapper w => buffers_ok w = true /\ call_ok w = true /\ args_ok w = true /\
                           r_strparams w = [] /\ r_hiddens w = ["Dataset_name"%string]
            | Unparsed _ _ => False
            end.
Proof. exact known_row_refuted. Qed.
Print Assumptions C20_known_row_refuted.

Example C20_to_c_example :
  let f := [72; 105; 32; 32; 32] in
  to_c_writes f 5 32 = [(0, 72); (1, 105); (2, 0)] /\ fvalue f 5 = [72; 105] /\
  to_c_writes f 5 1 = [(0, 72); (1, 0)] /\ to_c_writes [32; 32] 2 32 = [(0, 0)].
Proof. exact to_c_example. Qed.
Example C20_to_f_example :
  to_f_writes [72; 105; 0; 7] 4 = [(0, 72); (1, 105); (2, 32); (3, 32)] /\
  to_f_writes [72; 105; 33; 0] 2 = [(0, 72); (1, 105)] /\ to_f_writes [72; 0] 0 = [].
Proof. exact to_f_example. Qed.
