(* Properties_C11.v -- exported theorems for C11 (all ways of addressing a node agree).
   Only statements, each closed by [exact] of a lemma of GotoProofs.v (or by evaluation of a decidable predicate on
   the tables REGENERATED from the current sources, Gen_C11), each followed by Print Assumptions.

   Reading guide.  Goto.v interprets cgi_next_posit from a table whose columns are the individual uses of struct
   fields in the C text; cgi_update_posit, cgi_set_posit, vcg_goto, vcg_gorel, cg_gopath, cg_golist, cg_where are
   transcribed by hand.  The generic theorems hold for ANY table t with [table_ok ss t = true], ANY mirror that is
   locally well formed ([mirror_ok]: every struct has the fields its C type declares, a count declared next to an
   array holds the array's length), ANY file database in agreement with the mirror ([file_sync]), ANY path. *)
From Coq Require Import ZArith List String.
From CgnsV Require Import Goto GotoProofs GotoPathProofs Gen_C11.
Import ListNotations.
Local Open Scope string_scope.
Local Open Scope Z_scope.
Local Open Scope list_scope.

(* ---- the tables of the current sources ---------------------------------------------------------------------- *)
(* every arm of cgi_next_posit: all uses of a field within an arm name the same (count, array) pair, declared as
   `int cnt; T *arr;` in the struct the block casts to; lower bound 0, strict upper bound; the pushed index is
   index + 1 (multiple) resp. the index that selects the arm (single: 1, Dirichlet, Neumann); the pushed pointer and
   the pushed id come from the same field; posit_zone is set exactly by the Zone_t arm; a parent label is handled by
   one block, a child label by one arm of its block; nothing unparsed; every label is pushed with ONE struct type,
   which is the type the block handling that label casts to *)
Theorem C11_table_ok : table_ok Gen_C11.structs Gen_C11.goto_table = true.
Proof. vm_compute. reflexivity. Qed.
Print Assumptions C11_table_ok.

Theorem C11_tail_ok : Gen_C11.tail_ok = true.
Proof. vm_compute. reflexivity. Qed.
Print Assumptions C11_tail_ok.

(* every arm of every function that dispatches on posit->label (the cgi_*_address resolvers, cg_ndescriptors,
   cg_narrays, cg_nuser_data, cg_delete_node ...) casts posit->posit to the struct type the goto table pushes under
   that label, and names (count, array) pairs / pointer fields that the struct declares with that role *)
Theorem C11_addr_table_ok : addr_table_ok Gen_C11.structs Gen_C11.goto_table Gen_C11.addr_table = true.
Proof. vm_compute. reflexivity. Qed.
Print Assumptions C11_addr_table_ok.

(* the hand-transcribed functions still have the statement sequence that was transcribed; the constants agree *)
Theorem C11_shapes : shapes_ok expected_shapes Gen_C11.shapes = true /\
  Gen_C11.max_goto_depth = MAX_DEPTH /\ Gen_C11.code_ok = CG_OK /\ Gen_C11.code_error = CG_ERROR /\
  Gen_C11.code_not_found = CG_NODE_NOT_FOUND /\ Gen_C11.code_incorrect_path = CG_INCORRECT_PATH.
Proof. vm_compute. repeat split; reflexivity. Qed.
Print Assumptions C11_shapes.

(* ---- generic theorems ---------------------------------------------------------------------------------------- *)
(* one step of cgi_next_posit from a sound entry, for ANY label, index and name: never undefined behaviour (no read
   past an array, no NULL dereference, no missing field); an error is CG_INCORRECT_PATH or CG_NODE_NOT_FOUND; a
   pushed entry designates a CHILD of the current node, its id is that child's id (pointer and id belong to the same
   child) and its struct type is the one every user of the pushed label casts to *)
Theorem C11_step_sound : forall ss tbl, table_ok ss tbl = true -> forall root, mirror_ok ss root ->
  forall top label index name, entry_ok ss tbl root top ->
  match next_posit tbl root top label index name with
  | NErr c => c = CG_INCORRECT_PATH \/ c = CG_NODE_NOT_FOUND
  | NPush e z => entry_ok ss tbl root e /\ (exists f i, pe_addr e = pe_addr top ++ [(f, i)]) /\
                 (forall n, deref root (pe_addr e) = Some n -> pe_id e = m_id n)
  end.
Proof. exact step_sound. Qed.
Print Assumptions C11_step_sound.

(* the loop of cgi_update_posit from a sound stack, for ANY item list (valid or not, with `.`, `..`, names, labels):
   never UB, and whatever stack it leaves is sound again *)
Theorem C11_no_ub : forall ss tbl, table_ok ss tbl = true -> forall root, mirror_ok ss root -> forall fdb items s z c p z',
  stack_ok ss tbl root s -> upd_loop tbl root fdb items s z = (c, p, z') ->
  c <> UB /\ forall s', p = Some s' -> stack_ok ss tbl root s'.
Proof. exact upd_loop_inv. Qed.
Print Assumptions C11_no_ub.

(* C11_nav_agree: a successful cg_goto by labels and indices leaves a sound stack, and the same path spelled by node
   names (index 0; through the array entry point, which has no "end" terminator), and the replay of what cg_where
   reports (cg_golist of cg_where's output, from ANY state), end in exactly the same state *)
Theorem C11_nav_agree : forall ss tbl, table_ok ss tbl = true -> forall root, mirror_ok ss root -> forall fdb,
  names_ok root -> labels_ok tbl root -> file_sync root fdb -> m_ty root = "cgns_file" ->
  forall w fn B items st st',
  get_file w fn = Some (root, fdb) -> idx_items items -> goto_args 20 items = items ->
  goto tbl w fn B items st = (CG_OK, st') ->
  exists new base_e,
    ps_posit st' = Some (new ++ [base_e]) /\ stack_ok ss tbl root (new ++ [base_e]) /\
    List.length new = List.length items /\
    where_ st' = Some (fn, B, map spell_where (rev new)) /\
    (forall st2, golist tbl w fn B (lenZ new) (map (spell_name root) (rev new)) st2 = (CG_OK, st')) /\
    (forall st2, golist tbl w fn B (lenZ new) (map spell_where (rev new)) st2 = (CG_OK, st')) /\
    run_op tbl w OWhereReplay st' = (CG_OK, st').
Proof. exact nav_agree. Qed.
Print Assumptions C11_nav_agree.

(* ... for ANY spelling that repeats each step (the two above are instances): cgi_set_posit sets the same state *)
Theorem C11_spellings_agree : forall ss tbl, table_ok ss tbl = true -> forall root, mirror_ok ss root -> forall fdb,
  m_ty root = "cgns_file" ->
  forall spell, spelling_ok ss tbl root fdb spell -> forall w fn B items st',
  get_file w fn = Some (root, fdb) -> idx_items items ->
  set_posit tbl w fn B items = (CG_OK, st') ->
  exists new base_e,
    ps_posit st' = Some (new ++ [base_e]) /\ stack_ok ss tbl root (new ++ [base_e]) /\ lenZ (new ++ [base_e]) <= MAX_DEPTH /\
    List.length new = List.length items /\ ps_file st' = fn /\ ps_base st' = B /\
    pe_label base_e = "CGNSBase_t" /\ pe_index base_e = B /\
    set_posit tbl w fn B (map spell (rev new)) = (CG_OK, st').
Proof. intros ss tbl Ht root Hm fdb Hr spell Hs. exact (set_posit_agree ss tbl Ht root Hm fdb Hr spell Hs). Qed.
Print Assumptions C11_spellings_agree.

(* relative navigation: from a position |extra| levels below a stack s, `..` x |extra|, `.`, then any items gives
   the status and the position stack that the items give from s (whatever posit_zone was) *)
Theorem C11_relative_agree : forall tbl root fdb extra s z z0 items, s <> [] ->
  let r1 := upd_loop tbl root fdb (repeat ("..", 0) (List.length extra) ++ (".", 0) :: items) (extra ++ s) z in
  let r2 := upd_loop tbl root fdb items s z0 in
  fst (fst r1) = fst (fst r2) /\ snd (fst r1) = snd (fst r2).
Proof. exact relative_agree. Qed.
Print Assumptions C11_relative_agree.

(* C11_failure_clears: every failing navigation (cg_goto, cg_gorel, cg_golist, cg_gopath, replay of cg_where) has
   cleared the position (posit = 0: the next node-context call fails), except under the enumerated entry conditions
   -- cg_golist with depth >= 20, cg_gopath with a NULL/empty path, cg_gorel / relative cg_gopath without a position
   or with fn <> posit_file -- where the call is refused before the position is touched and the state is EXACTLY
   unchanged.  Holds for ANY table. *)
Theorem C11_failure_clears : forall tbl w o st c st',
  run_op tbl w o st = (c, st') -> c <> CG_OK -> c <> UB ->
  ps_posit st' = None \/ (st' = st /\ early_reject o st = true).
Proof. exact failure_clears. Qed.
Print Assumptions C11_failure_clears.

(* C11_context_acts_here: at a sound position whose label an address row handles, the row's cast is type-correct
   (the struct at the position HAS the row's struct type and the recorded id), and what the resolver returns is a
   child of THAT struct: ADDRESS4MULTIPLE(n) = element n-1 of the named array of the position's node (exactly when
   1 <= n <= the count, which is the array's length; CG_NODE_NOT_FOUND otherwise), ADDRESS4SINGLE = its pointer
   field; CGNS_DELETE_SHIFT's (count, array) is a declared pair of that struct *)
Theorem C11_context_acts_here : forall ss tbl root, mirror_ok ss root ->
  forall at_ fn labels pty uses top,
  addr_table_ok ss tbl at_ = true -> In (ARow fn labels pty uses) at_ -> pty <> "" ->
  entry_ok ss tbl root top -> In (pe_label top) labels ->
  exists p, deref root (pe_addr top) = Some p /\ m_id p = pe_id top /\ m_ty p = pty /\
    forall u, In u uses ->
      match u with
      | UMultiple cnt arr cty =>
          exists l, get_ptr p arr = Some l /\ get_int p cnt = Some (lenZ l) /\
          forall given_no,
            match resolve_multiple root top cnt arr given_no with
            | inl c => c = CG_NODE_NOT_FOUND /\ ~ (1 <= given_no <= lenZ l)
            | inr a => a = pe_addr top ++ [(arr, given_no - 1)] /\ 1 <= given_no <= lenZ l /\
                       exists c, nth_opt l (given_no - 1) = Some c /\ deref root a = Some c /\ m_ty c = cty
            end
      | USingle f cty =>
          exists l, get_ptr p f = Some l /\
          forall c, nth_opt l 0 = Some c -> deref root (resolve_single top f) = Some c /\ m_ty c = cty
      | UShift cnt arr => exists l, get_ptr p arr = Some l /\ get_int p cnt = Some (lenZ l)
      | UChild f => exists l, get_ptr p f = Some l
      | UCount c => exists t, assoc c (struct_fields ss pty) = Some t
      | UField f => exists t, assoc f (struct_fields ss pty) = Some t
      end.
Proof. exact context_acts_here. Qed.
Print Assumptions C11_context_acts_here.

(* the generic theorems instantiated with the tables of the CURRENT sources *)
Theorem C11_current_code_step : forall root, mirror_ok Gen_C11.structs root ->
  forall top label index name, entry_ok Gen_C11.structs Gen_C11.goto_table root top ->
  match next_posit Gen_C11.goto_table root top label index name with
  | NErr c => c = CG_INCORRECT_PATH \/ c = CG_NODE_NOT_FOUND
  | NPush e z => entry_ok Gen_C11.structs Gen_C11.goto_table root e /\
                 (exists f i, pe_addr e = pe_addr top ++ [(f, i)]) /\
                 (forall n, deref root (pe_addr e) = Some n -> pe_id e = m_id n)
  end.
Proof. exact (step_sound Gen_C11.structs Gen_C11.goto_table C11_table_ok). Qed.
Print Assumptions C11_current_code_step.

(* ---- cg_gopath: the character loop ---------------------------------------------------------------------------- *)
(* A path is SPELLED from segments: one or more '/' before each, any number of '/' at the end ([spelled]); admissible
   segments are non-empty, free of '/', at most 32 characters ([seg_ok]).  For EVERY such path: *)
(* an absolute path is cg_goto by names below the base the name search finds *)
Theorem C11_gopath_abs_is_goto : forall tbl w fn k0 base segs t st root fdb nb bases B,
  seg_ok base -> Forall (fun ks => seg_ok (snd ks)) segs -> lenZ segs <= MAX_DEPTH ->
  no_terminator (items_of segs) ->
  get_file w fn = Some (root, fdb) -> get_int root "nbases" = Some nb -> get_ptr root "base" = Some bases ->
  find_base bases (Z.to_nat nb) 0 base = Some (Some B) ->
  gopath tbl w fn (spelled ((k0, base) :: segs) t) st = goto tbl w fn B (items_of segs) st.
Proof. exact gopath_abs_is_goto. Qed.
Print Assumptions C11_gopath_abs_is_goto.

(* a relative path is cg_gorel by names *)
Theorem C11_gopath_rel_is_gorel : forall tbl w fn s0 segs t st,
  seg_ok s0 -> Forall (fun ks => seg_ok (snd ks)) segs -> 1 + lenZ segs <= MAX_DEPTH ->
  no_terminator ((s0, 0) :: items_of segs) ->
  gopath tbl w fn (append s0 (spelled segs t)) st = gorel tbl w fn ((s0, 0) :: items_of segs) st.
Proof. exact gopath_rel_is_gorel. Qed.
Print Assumptions C11_gopath_rel_is_gorel.

(* the numbers of slashes never matter *)
Theorem C11_gopath_spelling_irrelevant : forall tbl w fn st k0 k0' base segs segs' t t' root fdb nb bases B,
  seg_ok base -> Forall (fun ks => seg_ok (snd ks)) segs -> lenZ segs <= MAX_DEPTH ->
  no_terminator (items_of segs) -> map snd segs' = map snd segs ->
  get_file w fn = Some (root, fdb) -> get_int root "nbases" = Some nb -> get_ptr root "base" = Some bases ->
  find_base bases (Z.to_nat nb) 0 base = Some (Some B) ->
  gopath tbl w fn (spelled ((k0, base) :: segs) t) st = gopath tbl w fn (spelled ((k0', base) :: segs') t') st.
Proof. exact gopath_spelling_irrelevant. Qed.
Print Assumptions C11_gopath_spelling_irrelevant.

(* the loop returns exactly the segments; its two error exits *)
Theorem C11_path_loop_exact : forall segs t fuel n,
  Forall (fun ks => seg_ok (snd ks)) segs -> n + lenZ segs <= MAX_DEPTH -> (List.length segs < fuel)%nat ->
  path_loop fuel (spelled segs t) n = inr (items_of segs).
Proof. exact path_loop_spelled. Qed.
Print Assumptions C11_path_loop_exact.

Example C11_gopath_nonvacuous :
  spelled [(0%nat, "Base"); (2%nat, "Zone 1"); (0%nat, "..")] 1 = "/Base///Zone 1/../" /\
  path_loop 30 "/Base///Zone 1/../" 0 = inr [("Base", 0); ("Zone 1", 0); ("..", 0)] /\
  seg_ok "Zone 1".
Proof. exact spelled_example. Qed.

(* ---- resolvers that choose a child by a LABEL PARAMETER (cgi_model_address ...) address the child the goto table pushes
   for that label: kernel-evaluated on the regenerated tables, and what it means for any tables *)
Theorem C11_selectors_ok : sel_table_ok Gen_C11.goto_table Gen_C11.sel_table = true.
Proof. vm_compute. reflexivity. Qed.
Print Assumptions C11_selectors_ok.

Theorem C11_selector_addresses_goto_child : forall tbl t, sel_table_ok tbl t = true ->
  forall fn P L f, In (fn, P, L, f) t -> goto_field tbl P L = Some f.
Proof. exact selector_addresses_goto_child. Qed.
Print Assumptions C11_selector_addresses_goto_child.

