(* Goto.v -- executable model of the CGNS "goto" machinery (property C11: all ways of addressing a node agree).

   Transcribed from src/cgns_internals.c (cgi_add_posit, cgi_next_posit, cgi_update_posit, cgi_set_posit,
   cgi_posit_id, the ADDRESS4* resolvers of cgns_header.h) and src/cgnslib.c (vcg_goto, vcg_gorel, cg_gopath,
   cg_golist, cg_where) at /repo commit 8893bef.

   cgi_next_posit is NOT transcribed by hand: its ~140 arms are data.  [next_posit] interprets a table of arms whose
   columns are the individual USES of struct fields in the C text (count used by the name loop, array used by the
   name loop, count used by the bound check, array whose element address is pushed, array whose .id is pushed, the
   pushed index expression ...).  The table for the current sources is regenerated on every run by
   translators/c11_goto.py into Gen_C11.v.  Everything here is executable (extracted to OCaml for the
   correspondence runs); no proofs in this file.

   The in-memory tree of the library is abstracted by a MIRROR: [mnode] = struct type, label, name, id, the int
   fields (counts) and the pointer fields (arrays of children; a single pointer is an array of length <= 1, NULL is
   the empty array).  A C pointer into the tree is an ADDRESS: the list of (field, element index) steps from the file
   structure.  Reading an array element outside the array, a field the struct does not have, or through a NULL
   pointer is the distinguished outcome UB (code 99), which the theorems exclude.

   The FILE (ADF/HDF5 database) is a separate object: [fdb id name] answers cgio_get_node_id + cgio_get_label, i.e.
   the (id, label) of the child called [name] of the node [id].  That the file and the mirror agree is a hypothesis
   of the theorems ([file_sync], GotoProofs.v), not something this model decides. *)
From Coq Require Import ZArith List String Bool Ascii.
Import ListNotations.
Local Open Scope string_scope.
Local Open Scope Z_scope.
Local Open Scope list_scope.

(* ------------------------------------------------------------------------------------------------ status codes *)
Definition CG_OK : Z := 0.
Definition CG_ERROR : Z := 1.
Definition CG_NODE_NOT_FOUND : Z := 2.
Definition CG_INCORRECT_PATH : Z := 3.
Definition UB : Z := 99.                      (* undefined behaviour in the C text: excluded by the theorems *)
Definition MAX_DEPTH : Z := 20.               (* CG_MAX_GOTO_DEPTH *)

(* ------------------------------------------------------------------------------------------------ the tables *)
Inductive ftype := FInt | FPtr (ty : string) | FOther.

(* one alternative of an arm body; every column is one USE of a field in the C text *)
Inductive alt :=
| AMulti (cnt_loop arr_loop : string) (lo : Z) (hi_incl : bool) (cnt_bound arr_push arr_id : string)
         (idx_add : Z) (setzone : bool) (zone_add : Z) (plabel : option string)
| ASingle (p_test p_name p_push p_id : string) (idx_test idx_push : Z) (plabel : option string).

Inductive arm := Arm (children : list string) (alts : list alt) | UnparsedArm (child why : string).
Inductive brow := Block (parents : list string) (pty : string) (arms : list arm) | UnparsedBlock (why : string).

(* one arm of a function that dispatches on posit->label (cgi_*_address, cg_ndescriptors, cg_delete_node ...) *)
Inductive ause :=
| UMultiple (cnt arr cty : string)      (* ADDRESS4MULTIPLE(parent_type, cnt, arr, cty) *)
| UField (f : string)                   (* ADDRESS4SINGLE_ALLOC(parent_type, f) *)
| USingle (f cty : string)              (* ADDRESS4SINGLE(parent_type, f, cty, size) *)
| UCount (c : string)                   (* NDESCRIPTOR(parent_type) *)
| UShift (cnt arr : string)             (* CGNS_DELETE_SHIFT(cnt, arr, free) *)
| UChild (f : string).                  (* CGNS_DELETE_CHILD(f, free) *)
Inductive arow := ARow (fn : string) (labels : list string) (pty : string) (uses : list ause)
                | AUnparsed (w why : string).

Definition structs_t := list (string * list (string * ftype)).

(* ------------------------------------------------------------------------------------------------ the mirror *)
Inductive mnode :=
  MNode (ty label name : string) (id : Z) (ints : list (string * Z)) (ptrs : list (string * list mnode)).

Definition m_ty (n : mnode) := let 'MNode t _ _ _ _ _ := n in t.
Definition m_label (n : mnode) := let 'MNode _ l _ _ _ _ := n in l.
Definition m_name (n : mnode) := let 'MNode _ _ x _ _ _ := n in x.
Definition m_id (n : mnode) := let 'MNode _ _ _ i _ _ := n in i.
Definition m_ints (n : mnode) := let 'MNode _ _ _ _ i _ := n in i.
Definition m_ptrs (n : mnode) := let 'MNode _ _ _ _ _ p := n in p.

Fixpoint assoc {A} (k : string) (l : list (string * A)) : option A :=
  match l with
  | [] => None
  | (k', v) :: t => if String.eqb k k' then Some v else assoc k t
  end.

Definition get_int (n : mnode) (f : string) : option Z := assoc f (m_ints n).
Definition get_ptr (n : mnode) (f : string) : option (list mnode) := assoc f (m_ptrs n).

Definition nth_opt {A} (l : list A) (i : Z) : option A :=
  if i <? 0 then None else nth_error l (Z.to_nat i).

Definition addr := list (string * Z).

Fixpoint deref (n : mnode) (a : addr) : option mnode :=
  match a with
  | [] => Some n
  | (f, i) :: a' =>
      match get_ptr n f with
      | Some l => match nth_opt l i with Some c => deref c a' | None => None end
      | None => None
      end
  end.

(* ------------------------------------------------------------------------------------------------ the position *)
Record pentry := { pe_addr : addr; pe_label : string; pe_index : Z; pe_id : Z }.

(* posit (NULL = None, else the stack, TOP FIRST), posit_file, posit_base, posit_zone.  posit_depth is the length
   of the stack; it is meaningless while posit is NULL (every entry point that accepts a NULL posit resets it) *)
Record pstate := { ps_posit : option (list pentry); ps_file : Z; ps_base : Z; ps_zone : Z }.

Definition lenZ {A} (l : list A) : Z := Z.of_nat (List.length l).
Definition strlenZ (s : string) : Z := Z.of_nat (String.length s).
Definition mem (s : string) (l : list string) : bool := existsb (String.eqb s) l.

(* ------------------------------------------------------------------------------------------------ cgi_next_posit *)
Inductive nres := NPush (e : pentry) (zone : option Z) | NErr (code : Z).

(* for (n = 0; n < cnt; n++) if (0 == strcmp(arr[n].name, name)) { index = n; break; }
   k = remaining iterations, n = current index; None = the loop read past the end of the array *)
Fixpoint name_loop (l : list mnode) (k : nat) (n : Z) (name : string) {struct k} : option (option Z) :=
  match k with
  | O => Some None
  | S k' => match l with
            | [] => None
            | c :: l' => if String.eqb (m_name c) name then Some (Some n) else name_loop l' k' (n + 1) name
            end
  end.

Definition pushed_label (pl : option string) (label : string) : string :=
  match pl with Some l => l | None => label end.

(* inl r = the alternative returned r ; inr index' = control falls to the next statement with this value of index *)
Definition run_alt (p : mnode) (paddr : addr) (label name : string) (a : alt) (index : Z) : nres + Z :=
  match a with
  | AMulti cnt_loop arr_loop lo hi_incl cnt_bound arr_push arr_id idx_add setzone zone_add pl =>
      let i1 := index - 1 in                                            (* --index *)
      let after :=
        if i1 <? 0 then
          match get_int p cnt_loop, get_ptr p arr_loop with
          | Some c, Some l =>
              match name_loop l (Z.to_nat c) 0 name with
              | Some (Some n) => Some n
              | Some None => Some i1
              | None => None
              end
          | _, _ => None
          end
        else Some i1 in
      match after with
      | None => inl (NErr UB)
      | Some i2 =>
          match get_int p cnt_bound with
          | None => inl (NErr UB)
          | Some cb =>
              if (lo <=? i2) && (if hi_incl then i2 <=? cb else i2 <? cb) then
                match get_ptr p arr_id with
                | Some l =>
                    match nth_opt l i2 with
                    | Some c => inl (NPush {| pe_addr := paddr ++ [(arr_push, i2)]; pe_label := pushed_label pl label;
                                              pe_index := i2 + idx_add; pe_id := m_id c |}
                                           (if setzone then Some (i2 + zone_add) else None))
                    | None => inl (NErr UB)
                    end
                | None => inl (NErr UB)
                end
              else inr i2
          end
      end
  | ASingle p_test p_name p_push p_id idx_test idx_push pl =>
      let push :=
        match get_ptr p p_id with
        | Some (c :: _) => NPush {| pe_addr := paddr ++ [(p_push, 0)]; pe_label := pushed_label pl label;
                                    pe_index := idx_push; pe_id := m_id c |} None
        | _ => NErr UB
        end in
      match get_ptr p p_test with
      | None => inl (NErr UB)
      | Some [] => inr index
      | Some (_ :: _) =>
          if index =? idx_test then inl push
          else match get_ptr p p_name with
               | Some (c :: _) => if String.eqb (m_name c) name then inl push else inr index
               | _ => inl (NErr UB)
               end
      end
  end.

Fixpoint run_alts (p : mnode) (paddr : addr) (label name : string) (alts : list alt) (index : Z) : nres :=
  match alts with
  | [] => NErr CG_NODE_NOT_FOUND
  | a :: rest => match run_alt p paddr label name a index with
                 | inl r => r
                 | inr index' => run_alts p paddr label name rest index'
                 end
  end.

Definition block_matches (plabel : string) (b : brow) : bool :=
  match b with Block ps _ _ => mem plabel ps | UnparsedBlock _ => false end.
Definition arm_matches (label : string) (a : arm) : bool :=
  match a with Arm cs _ => mem label cs | UnparsedArm _ _ => false end.

Definition find_block (tbl : list brow) (plabel : string) : option brow := find (block_matches plabel) tbl.
Definition find_arm (arms : list arm) (label : string) : option arm := find (arm_matches label) arms.

(* posit->label selects the block, label the arm; the block casts posit->posit to its struct type *)
Definition next_posit (tbl : list brow) (root : mnode) (top : pentry) (label : string) (index : Z) (name : string)
  : nres :=
  match find_block tbl (pe_label top) with
  | Some (Block _ _ arms) =>
      match find_arm arms label with
      | Some (Arm _ alts) =>
          match deref root (pe_addr top) with
          | Some p => run_alts p (pe_addr top) label name alts index
          | None => NErr UB
          end
      | _ => NErr CG_INCORRECT_PATH
      end
  | _ => NErr CG_INCORRECT_PATH
  end.

(* ------------------------------------------------------------------------------------------------ cgi_update_posit *)
Definition fdb_t := Z -> string -> option (Z * string).

(* the for-loop of cgi_update_posit; posit != 0 on entry.  Result: status, posit, posit_zone *)
Fixpoint upd_loop (tbl : list brow) (root : mnode) (fdb : fdb_t) (items : list (string * Z))
                  (stack : list pentry) (zone : Z) : Z * option (list pentry) * Z :=
  match items with
  | [] => (CG_OK, Some stack, zone)
  | (lab, idx) :: rest =>
      let step (l : string) (nm : string) :=
        match stack with
        | [] => (UB, None, zone)
        | top :: _ =>
            match next_posit tbl root top l idx nm with
            | NPush e z =>
                let zone' := match z with Some v => v | None => zone end in
                if lenZ stack =? MAX_DEPTH then (CG_ERROR, None, zone')       (* cgi_add_posit: max goto depth *)
                else upd_loop tbl root fdb rest (e :: stack) zone'
            | NErr c => (c, None, zone)
            end
        end in
      if 32 <? strlenZ lab then (CG_ERROR, None, zone)
      else if 0 <? idx then step lab ""
      else if String.eqb lab "." then upd_loop tbl root fdb rest stack zone
      else if String.eqb lab ".." then
        match stack with
        | [] => (UB, None, zone)
        | [_] => (CG_ERROR, None, zone)                                       (* can't go up beyond CGNSBase_t *)
        | top :: below => upd_loop tbl root fdb rest below (if String.eqb (pe_label top) "Zone_t" then 0 else zone)
        end
      else
        match stack with
        | [] => (UB, None, zone)
        | top :: _ =>
            match fdb (pe_id top) lab with      (* cgio_get_node_id + cgio_get_label in the file of the position (cg = cgi_get_file(posit_file), /repo fix) *)
            | None => (CG_NODE_NOT_FOUND, None, zone)
            | Some (_, flabel) => step flabel lab
            end
        end
  end.

Definition update_posit tbl root fdb items (st : pstate) : Z * pstate :=
  match ps_posit st with
  | None => (CG_ERROR, st)
  | Some stack =>
      let '(c, p, z) := upd_loop tbl root fdb items stack (ps_zone st) in
      (c, {| ps_posit := p; ps_file := ps_file st; ps_base := ps_base st; ps_zone := z |})
  end.

(* ------------------------------------------------------------------------------------------------ cgi_set_posit *)
(* the open files: file number -> (mirror of the cgns_file structure, the file's database) *)
Definition world := list (Z * (mnode * fdb_t)).
Fixpoint get_file (w : world) (fn : Z) : option (mnode * fdb_t) :=
  match w with
  | [] => None
  | (k, v) :: t => if k =? fn then Some v else get_file t fn
  end.

Definition cleared : pstate := {| ps_posit := None; ps_file := 0; ps_base := 0; ps_zone := 0 |}.

Definition set_posit tbl (w : world) (fn B : Z) (items : list (string * Z)) : Z * pstate :=
  match get_file w fn with
  | None => (CG_ERROR, cleared)
  | Some (root, fdb) =>
      match get_int root "nbases", get_ptr root "base" with
      | Some nb, Some bases =>
          if (nb <? B) || (B <=? 0) then (CG_NODE_NOT_FOUND, cleared)           (* cgi_get_base *)
          else match nth_opt bases (B - 1) with
               | None => (UB, cleared)
               | Some b =>
                   let e := {| pe_addr := [("base", B - 1)]; pe_label := "CGNSBase_t"; pe_index := B; pe_id := m_id b |} in
                   update_posit tbl root fdb items {| ps_posit := Some [e]; ps_file := fn; ps_base := B; ps_zone := 0 |}
               end
      | _, _ => (UB, cleared)
      end
  end.

(* ------------------------------------------------------------------------------------------------ the entry points *)
(* the variadic argument list: (label, index) pairs up to the first NULL / "" / "end" / "END", at most 20 pairs *)
Fixpoint goto_args (k : nat) (items : list (string * Z)) {struct k} : list (string * Z) :=
  match k, items with
  | S k', (l, i) :: t => if String.eqb l "" || String.eqb l "end" || String.eqb l "END" then [] else (l, i) :: goto_args k' t
  | _, _ => []
  end.

Definition with_posit (st : pstate) (p : option (list pentry)) : pstate :=
  {| ps_posit := p; ps_file := ps_file st; ps_base := ps_base st; ps_zone := ps_zone st |}.

(* vcg_goto *)
Definition goto tbl (w : world) (fn B : Z) (items : list (string * Z)) (st : pstate) : Z * pstate :=
  match get_file w fn with
  | None => (CG_ERROR, with_posit st None)
  | Some _ => set_posit tbl w fn B (goto_args 20 items)
  end.

(* vcg_gorel *)
Definition gorel tbl (w : world) (fn : Z) (items : list (string * Z)) (st : pstate) : Z * pstate :=
  match ps_posit st with
  | None => (CG_ERROR, st)
  | Some _ =>
      if negb (fn =? ps_file st) then (CG_ERROR, st)
      else match get_file w (ps_file st) with
           | None => (UB, st)                                              (* cg dangling: file closed (C12/C16) *)
           | Some (root, fdb) => update_posit tbl root fdb (goto_args 20 items) st
           end
  end.

(* cg_golist: depth entries of the two arrays *)
Definition golist tbl (w : world) (fn B depth : Z) (items : list (string * Z)) (st : pstate) : Z * pstate :=
  if MAX_DEPTH <=? depth then (CG_ERROR, st)
  else if lenZ items <? depth then (UB, st)
  else set_posit tbl w fn B (firstn (Z.to_nat depth) items).

(* cg_gopath: the character loop *)
Definition slash : ascii := "/"%char.

Fixpoint skip_sl (s : string) : string :=
  match s with
  | String c s' => if Ascii.eqb c slash then skip_sl s' else s
  | EmptyString => s
  end.

(* strchr(p, '/'): the segment before the first '/', and the rest starting at that '/' ("" when there is none) *)
Fixpoint take_seg (s : string) : string * string :=
  match s with
  | EmptyString => (EmptyString, EmptyString)
  | String c s' => if Ascii.eqb c slash then (EmptyString, s)
                   else let '(a, r) := take_seg s' in (String c a, r)
  end.

(* while (p && *p) { skip '/'; if (!*p) break; segment; len > 32 -> error; n == 20 -> error; ... }
   inl = the error exits (posit = 0, CG_ERROR), inr = the collected (label, 0) pairs *)
Fixpoint path_loop (fuel : nat) (p : string) (n : Z) : unit + list (string * Z) :=
  match fuel with
  | O => inr []
  | S f =>
      let p1 := skip_sl p in
      match p1 with
      | EmptyString => inr []
      | _ =>
          let '(seg, rest) := take_seg p1 in
          if 32 <? strlenZ seg then inl tt
          else if n =? MAX_DEPTH then inl tt
          else match path_loop f rest (n + 1) with
               | inl e => inl e
               | inr l => inr ((seg, 0) :: l)
               end
      end
  end.

Fixpoint find_base (bases : list mnode) (k : nat) (n : Z) (name : string) {struct k} : option (option Z) :=
  match k with
  | O => Some None
  | S k' => match bases with
            | [] => None
            | b :: t => if String.eqb name (m_name b) then Some (Some (n + 1)) else find_base t k' (n + 1) name
            end
  end.

Definition gopath tbl (w : world) (fn : Z) (path : string) (st : pstate) : Z * pstate :=
  match path with
  | EmptyString => (CG_ERROR, st)                                           (* path not given (also NULL) *)
  | String c0 _ =>
      let fuel := S (String.length path) in
      let relative (p : string) (st1 : pstate) (root : mnode) (fdb : fdb_t) :=
        match path_loop fuel p 0 with
        | inl _ => (CG_ERROR, with_posit st1 None)
        | inr items => update_posit tbl root fdb items st1
        end in
      if Ascii.eqb c0 slash then
        let st0 := with_posit st None in                                    (* posit = 0 *)
        let p := skip_sl path in
        match p with
        | EmptyString => (CG_ERROR, st0)                                    (* base name not given *)
        | _ =>
            let '(seg, rest) := take_seg p in
            if 32 <? strlenZ seg then (CG_ERROR, st0)
            else match get_file w fn with
                 | None => (CG_ERROR, st0)
                 | Some (root, fdb) =>
                     match get_int root "nbases", get_ptr root "base" with
                     | Some nb, Some bases =>
                         match find_base bases (Z.to_nat nb) 0 seg with
                         | None => (UB, st0)
                         | Some None => (CG_ERROR, st0)                     (* base not found *)
                         | Some (Some B) =>
                             let '(c, st1) := set_posit tbl w fn B [] in
                             if negb (c =? CG_OK) then (c, st1)
                             else relative rest st1 root fdb
                         end
                     | _, _ => (UB, st0)
                     end
                 end
        end
      else
        match ps_posit st with
        | None => (CG_ERROR, st)
        | Some _ =>
            if negb (fn =? ps_file st) then (CG_ERROR, st)
            else match get_file w (ps_file st) with
                 | None => (UB, st)
                 | Some (root, fdb) => relative path st root fdb
                 end
        end
  end.

(* cg_where: file, base, then (label, index) of every entry above the base, bottom-up *)
Definition where_ (st : pstate) : option (Z * Z * list (string * Z)) :=
  match ps_posit st with
  | None => None
  | Some stack => Some (ps_file st, ps_base st,
                        map (fun e => (pe_label e, pe_index e)) (tl (rev stack)))
  end.

(* ------------------------------------------------------------------------------------------------ node-context resolvers *)
(* ADDRESS4MULTIPLE in read mode: given_no > parent->cnt || given_no <= 0 -> error2 (CG_NODE_NOT_FOUND), else
   &parent->arr[given_no-1].  The parent is posit->posit cast to the row's struct type. *)
Definition resolve_multiple (root : mnode) (top : pentry) (cnt arr : string) (given_no : Z) : Z + addr :=
  match deref root (pe_addr top) with
  | None => inl UB
  | Some p =>
      match get_int p cnt with
      | None => inl UB
      | Some c => if (c <? given_no) || (given_no <=? 0) then inl CG_NODE_NOT_FOUND
                  else inr (pe_addr top ++ [(arr, given_no - 1)])
      end
  end.

(* ADDRESS4SINGLE in read mode: parent->f *)
Definition resolve_single (top : pentry) (f : string) : addr := pe_addr top ++ [(f, 0)].

Definition find_arow (fn : string) (label : string) (t : list arow) : option arow :=
  find (fun r => match r with ARow f ls _ _ => String.eqb f fn && mem label ls | AUnparsed _ _ => false end) t.

(* ------------------------------------------------------------------------------------------------ decidable table checks *)
Definition struct_fields (ss : structs_t) (ty : string) : list (string * ftype) :=
  match assoc ty ss with Some l => l | None => [] end.

Definition ftype_eqb (a b : ftype) : bool :=
  match a, b with
  | FInt, FInt => true
  | FPtr x, FPtr y => String.eqb x y
  | FOther, FOther => true
  | _, _ => false
  end.

(* "cnt counts arr": the struct declares  int cnt;  immediately before the pointer field arr *)
Fixpoint adjacent (fl : list (string * ftype)) (cnt arr : string) : bool :=
  match fl with
  | (c, FInt) :: (((a, FPtr _) :: _) as t) => (String.eqb c cnt && String.eqb a arr) || adjacent t cnt arr
  | _ :: t => adjacent t cnt arr
  | [] => false
  end.

Definition ptr_type (ss : structs_t) (ty f : string) : option string :=
  match assoc f (struct_fields ss ty) with Some (FPtr t) => Some t | _ => None end.

Fixpoint nodupb (l : list string) : bool :=
  match l with
  | [] => true
  | x :: t => negb (mem x t) && nodupb t
  end.

(* the pushed label is the requested one (then the arm accepts a single label) or a literal the arm accepts *)
Definition plabel_ok (pl : option string) (children : list string) : bool :=
  match pl with
  | None => match children with [_] => true | _ => false end
  | Some l => mem l children && (strlenZ l <=? 32)
  end.

(* an alternative is right only if its columns agree *)
Definition alt_ok (ss : structs_t) (pty : string) (children : list string) (a : alt) : bool :=
  match a with
  | AMulti cl al lo hi cb ap ai k sz za pl =>
      String.eqb cl cb && String.eqb al ap && String.eqb al ai && (lo =? 0) && negb hi && (k =? 1)
      && (if sz then za =? 1 else true) && Bool.eqb sz (mem "Zone_t" children)
      && plabel_ok pl children && adjacent (struct_fields ss pty) cl al
      && match ptr_type ss pty al with Some _ => true | None => false end
  | ASingle pt pn pp pi it ip pl =>
      String.eqb pt pn && String.eqb pt pp && String.eqb pt pi && (it =? ip) && (1 <=? it)
      && plabel_ok pl children
      && match ptr_type ss pty pt with Some _ => true | None => false end
  end.

Definition alt_field (a : alt) : string :=
  match a with AMulti _ _ _ _ _ ap _ _ _ _ _ => ap | ASingle _ _ pp _ _ _ _ => pp end.
Definition alt_is_single (a : alt) : bool := match a with ASingle _ _ _ _ _ _ _ => true | _ => false end.
Definition alt_sel (a : alt) : Z := match a with ASingle _ _ _ _ it _ _ => it | _ => 0 end.
Definition alt_plabel (a : alt) : option string :=
  match a with AMulti _ _ _ _ _ _ _ _ _ _ pl => pl | ASingle _ _ _ _ _ _ pl => pl end.

Fixpoint nodupz (l : list Z) : bool :=
  match l with [] => true | x :: t => negb (existsb (Z.eqb x) t) && nodupz t end.

(* the body of an arm: one multiple alternative, or one or more single alternatives with distinct selecting
   indices and distinct fields *)
Definition alts_shape_ok (alts : list alt) : bool :=
  match alts with
  | [AMulti _ _ _ _ _ _ _ _ _ _ _] => true
  | [] => false
  | _ => forallb alt_is_single alts && nodupz (map alt_sel alts) && nodupb (map alt_field alts)
  end.

Definition arm_ok (ss : structs_t) (pty : string) (a : arm) : bool :=
  match a with
  | Arm children alts => negb (match children with [] => true | _ => false end)
                         && alts_shape_ok alts && forallb (alt_ok ss pty children) alts
  | UnparsedArm _ _ => false
  end.

Definition arm_children (a : arm) : list string := match a with Arm cs _ => cs | _ => [] end.
Definition block_parents (b : brow) : list string := match b with Block ps _ _ => ps | _ => [] end.

Definition block_ok (ss : structs_t) (b : brow) : bool :=
  match b with
  | Block ps pty arms => negb (match ps with [] => true | _ => false end)
                         && forallb (arm_ok ss pty) arms && nodupb (List.concat (map arm_children arms))
                         && match assoc pty ss with Some _ => true | None => false end
  | UnparsedBlock _ => false
  end.

(* the struct types an entry labelled L can point to: what every arm able to push L pushes, the cast of the block
   that handles L, and cgns_base for the entry cgi_set_posit pushes *)
Definition alt_pushes (ss : structs_t) (pty : string) (children : list string) (L : string) (a : alt) : list string :=
  let labels := match alt_plabel a with Some l => [l] | None => children end in
  if mem L labels then match ptr_type ss pty (alt_field a) with Some t => [t] | None => ["?"] end else [].

Definition arm_pushes ss pty L (a : arm) : list string :=
  match a with Arm cs alts => List.concat (map (alt_pushes ss pty cs L) alts) | _ => [] end.

Definition block_pushes ss L (b : brow) : list string :=
  match b with
  | Block ps pty arms => (if mem L ps then [pty] else []) ++ List.concat (map (arm_pushes ss pty L) arms)
  | _ => []
  end.

Definition label_types (ss : structs_t) (tbl : list brow) (L : string) : list string :=
  (if String.eqb L "CGNSBase_t" then ["cgns_base"] else []) ++ List.concat (map (block_pushes ss L) tbl).

Definition all_same (l : list string) : bool :=
  match l with [] => true | x :: t => forallb (String.eqb x) t end.

Definition all_labels (tbl : list brow) : list string :=
  "CGNSBase_t" :: List.concat (map (fun b => match b with
                                        | Block ps _ arms => ps ++ List.concat (map (fun a => match a with
                                              | Arm cs alts => cs ++ List.concat (map (fun x => match alt_plabel x with Some l => [l] | None => [] end) alts)
                                              | _ => [] end) arms)
                                        | _ => [] end) tbl).

Definition types_ok (ss : structs_t) (tbl : list brow) : bool :=
  forallb (fun L => all_same (label_types ss tbl L)) (all_labels tbl).

Definition table_ok (ss : structs_t) (tbl : list brow) : bool :=
  forallb (block_ok ss) tbl && nodupb (List.concat (map block_parents tbl)) && types_ok ss tbl
  && match ptr_type ss "cgns_file" "base" with Some t => String.eqb t "cgns_base" | None => false end
  && adjacent (struct_fields ss "cgns_file") "nbases" "base".

(* a label-dispatch arm is right if, for every label it handles, it casts posit->posit to the struct type the goto
   table pushes under that label, and every field it names exists in that struct with the stated role.  A row
   without a cast and without field uses (an error arm, a pure label test) is vacuously right; a label the goto
   table never pushes is unreachable. *)
Definition use_ok (ss : structs_t) (pty : string) (u : ause) : bool :=
  let fl := struct_fields ss pty in
  match u with
  | UMultiple cnt arr cty => adjacent fl cnt arr && match ptr_type ss pty arr with Some t => String.eqb t cty | None => false end
  | UField f => match assoc f fl with Some _ => true | None => false end
  | USingle f cty => match ptr_type ss pty f with Some t => String.eqb t cty | None => false end
  | UCount c => match assoc c fl with Some FInt => true | _ => false end
  | UShift cnt arr => adjacent fl cnt arr
  | UChild f => match ptr_type ss pty f with Some _ => true | None => false end
  end.

Definition arow_ok (ss : structs_t) (tbl : list brow) (r : arow) : bool :=
  match r with
  | ARow _ labels pty uses =>
      if String.eqb pty "" then match uses with [] => true | _ => false end
      else forallb (fun L => forallb (String.eqb pty) (label_types ss tbl L)) labels && forallb (use_ok ss pty) uses
  | AUnparsed _ _ => false
  end.

Definition addr_table_ok ss tbl (t : list arow) : bool := forallb (arow_ok ss tbl) t.

(* selector arms (Gen_C11.sel_table): inside the block of parent label P a resolver chooses, by comparing a LABEL PARAMETER
   with the literal L, the single child it addresses through field f (cgi_model_address, cgi_particle_model_address).
   The child labelled L under P is by definition the one the goto table pushes for (P, L): the fields must agree, so that
   "the model of label L" addressed by label from its parent and reached by navigation is one node. *)
Definition goto_field (tbl : list brow) (P L : string) : option string :=
  match find_block tbl P with
  | Some (Block _ _ arms) =>
      match find_arm arms L with
      | Some (Arm _ (a :: _)) => Some (alt_field a)
      | _ => None
      end
  | _ => None
  end.

Definition sel_row_ok (tbl : list brow) (r : string * string * string * string) : bool :=
  let '(_, P, L, f) := r in
  match goto_field tbl P L with Some g => String.eqb f g | None => false end.

Definition sel_table_ok (tbl : list brow) (t : list (string * string * string * string)) : bool :=
  negb (Nat.eqb (List.length t) 0) && forallb (sel_row_ok tbl) t.

(* diagnostics for the report: which rows fail *)
Definition bad_arms (ss : structs_t) (tbl : list brow) : list (string * string) :=
  List.concat (map (fun b => match b with
     | Block ps pty arms =>
         let p := match ps with x :: _ => x | [] => "?" end in
         map (fun a => (p, match arm_children a with c :: _ => c | [] => match a with UnparsedArm c _ => c | _ => "?" end end))
             (filter (fun a => negb (arm_ok ss pty a)) arms)
         ++ (if nodupb (List.concat (map arm_children arms)) then [] else [(p, "<duplicate child label>")])
     | UnparsedBlock w => [("<unparsed block>", w)]
     end) tbl).

Definition bad_labels (ss : structs_t) (tbl : list brow) : list string :=
  filter (fun L => negb (all_same (label_types ss tbl L))) (all_labels tbl).

Definition bad_arows ss tbl (t : list arow) : list (string * string) :=
  List.concat (map (fun r => if arow_ok ss tbl r then [] else
     match r with ARow f (l :: _) _ _ => [(f, l)] | ARow f [] _ _ => [(f, "?")] | AUnparsed w y => [(w, y)] end) t).

(* labels handled by some dispatcher but never pushed by the goto table (dead arms; reported, not an error) *)
Definition unreachable_labels ss tbl (t : list arow) : list (string * string) :=
  List.concat (map (fun r => match r with
     | ARow f ls _ _ => map (fun l => (f, l)) (filter (fun L => match label_types ss tbl L with [] => true | _ => false end) ls)
     | _ => [] end) t).

(* ------------------------------------------------------------------------------------------------ the file database of a mirror *)
(* used by the extracted engine (and the examples): the database that agrees with the mirror -- the children of the
   node with a given id are the elements of all its pointer fields *)
Fixpoint find_id (fuel : nat) (n : mnode) (id : Z) : option mnode :=
  match fuel with
  | O => None
  | S f =>
      if m_id n =? id then Some n
      else (fix inl (ps : list (string * list mnode)) : option mnode :=
              match ps with
              | [] => None
              | (_, l) :: t =>
                  match (fix inn (l : list mnode) : option mnode :=
                           match l with
                           | [] => None
                           | c :: l' => match find_id f c id with Some r => Some r | None => inn l' end
                           end) l with
                  | Some r => Some r
                  | None => inl t
                  end
              end) (m_ptrs n)
  end.

Definition child_named (n : mnode) (name : string) : option mnode :=
  find (fun c => String.eqb (m_name c) name) (List.concat (map snd (m_ptrs n))).

Definition fdb_of (root : mnode) : fdb_t :=
  fun id name =>
    match find_id 64 root id with
    | Some n => match child_named n name with Some c => Some (m_id c, m_label c) | None => None end
    | None => None
    end.

(* ------------------------------------------------------------------------------------------------ script interface for the extracted engine *)
Inductive op :=
| OGoto (fn B : Z) (items : list (string * Z))
| OGorel (fn : Z) (items : list (string * Z))
| OGolist (fn B depth : Z) (items : list (string * Z))
| OGopath (fn : Z) (path : string)
| OWhereReplay.                                  (* cg_where followed by cg_golist of its output *)

Definition run_op tbl (w : world) (o : op) (st : pstate) : Z * pstate :=
  match o with
  | OGoto fn B items => goto tbl w fn B items st
  | OGorel fn items => gorel tbl w fn items st
  | OGolist fn B depth items => golist tbl w fn B depth items st
  | OGopath fn path => gopath tbl w fn path st
  | OWhereReplay =>
      match where_ st with
      | None => (CG_ERROR, st)
      | Some (fn, B, items) => golist tbl w fn B (lenZ items) items st
      end
  end.

(* the entry conditions under which an entry point rejects the call before touching the position *)
Definition early_reject (o : op) (st : pstate) : bool :=
  match o with
  | OGoto _ _ _ => false
  | OGorel fn _ => match ps_posit st with None => true | Some _ => negb (fn =? ps_file st) end
  | OGolist _ _ depth _ => MAX_DEPTH <=? depth
  | OGopath fn path =>
      match path with
      | EmptyString => true
      | String c _ => if Ascii.eqb c slash then false
                      else match ps_posit st with None => true | Some _ => negb (fn =? ps_file st) end
      end
  | OWhereReplay => match where_ st with None => true | Some (_, _, items) => MAX_DEPTH <=? lenZ items end
  end.

(* ---- SHAPES ------------------------------------------------------------------------------------------------
   The functions transcribed BY HAND above, as normalised token streams of their bodies at the commit named in the
   header (comments, white space and the arguments of cgi_error dropped).  The translator re-extracts the streams
   from the current sources (Gen_C11.shapes); [shapes_ok] compares.  A changed statement makes the obligation
   C11_shapes false: the transcription has to be re-read against the new text (the correspondence run decides
   meanwhile whether behaviour changed). *)
Definition expected_shapes : list (string * string) := [
  ("cgi_add_posit", "{ if ( posit_depth == CG_MAX_GOTO_DEPTH ) { cgi_error(..) ; return CG_ERROR ; } posit_stack [ posit_depth ] . posit = pos ; strcpy ( posit_stack [ posit_depth ] . label , label ) ; posit_stack [ posit_depth ] . index = index ; posit_stack [ posit_depth ] . id = id ; posit = & posit_stack [ posit_depth ++ ] ; return CG_OK ; }");
  ("cgi_update_posit", "{ int n , ierr ; double pid , id ; char lab [ 33 ] , name [ 33 ] ; if ( posit == 0 ) { cgi_error(..) ; return CG_ERROR ; } cg = cgi_get_file ( posit_file ) ; if ( cg == 0 ) return CG_ERROR ; for ( n = 0 ; n < cnt ; n ++ ) { if ( strlen ( label [ n ] ) > 32 ) { posit = 0 ; cgi_error(..) ; return CG_ERROR ; } if ( index [ n ] > 0 ) { strcpy ( lab , label [ n ] ) ; * name = 0 ; } else if ( 0 == strcmp ( label [ n ] , ""."" ) ) { continue ; } else if ( 0 == strcmp ( label [ n ] , "".."" ) ) { if ( posit_depth == 1 ) { cgi_error(..) ; posit = 0 ; return CG_ERROR ; } if ( 0 == strcmp ( posit -> label , ""Zone_t"" ) ) posit_zone = 0 ; posit_depth -- ; posit = & posit_stack [ posit_depth - 1 ] ; continue ; } else { if ( cgi_posit_id ( & pid ) ) { posit = 0 ; return CG_ERROR ; } strcpy ( name , label [ n ] ) ; if ( cgio_get_node_id ( cg -> cgio , pid , name , & id ) ) { posit = 0 ; cgi_error(..) ; return CG_NODE_NOT_FOUND ; } if ( cgio_get_label ( cg -> cgio , id , lab ) ) { posit = 0 ; cg_io_error(..) ; return CG_ERROR ; } } ierr = cgi_next_posit ( lab , index [ n ] , name ) ; if ( ierr ) { if ( ierr == CG_INCORRECT_PATH ) { cgi_error(..) ; } if ( ierr == CG_NODE_NOT_FOUND ) { if ( index [ n ] > 0 ) cgi_error(..) ; else cgi_error(..) ; } posit = 0 ; return ierr ; } } return CG_OK ; }");
  ("cgi_set_posit", "{ cgns_base * base ; posit = 0 ; posit_file = posit_base = posit_zone = posit_depth = 0 ; cg = cgi_get_file ( fn ) ; if ( cg == 0 ) return CG_ERROR ; base = cgi_get_base ( cg , B ) ; if ( base == 0 ) return CG_NODE_NOT_FOUND ; posit_file = fn ; posit_base = B ; cgi_add_posit ( ( void * ) base , ""CGNSBase_t"" , B , base -> id ) ; return cgi_update_posit ( n , index , label ) ; }");
  ("cgi_posit_id", "{ if ( posit == 0 ) { cgi_error(..) ; return CG_ERROR ; } * posit_id = posit -> id ; return CG_OK ; }");
  ("vcg_goto", "{ int n ; int index [ CG_MAX_GOTO_DEPTH ] ; char * label [ CG_MAX_GOTO_DEPTH ] ; posit = 0 ; cg = cgi_get_file ( fn ) ; if ( cg == 0 ) return CG_ERROR ; for ( n = 0 ; n < CG_MAX_GOTO_DEPTH ; n ++ ) { label [ n ] = va_arg ( ap , char * ) ; if ( label [ n ] == NULL || label [ n ] [ 0 ] == 0 ) break ; if ( strcmp ( ""end"" , label [ n ] ) == 0 || strcmp ( ""END"" , label [ n ] ) == 0 ) break ; index [ n ] = va_arg ( ap , int ) ; } return cgi_set_posit ( fn , B , n , index , label ) ; }");
  ("vcg_gorel", "{ int n = 0 ; int index [ CG_MAX_GOTO_DEPTH ] ; char * label [ CG_MAX_GOTO_DEPTH ] ; if ( posit == 0 ) { cgi_error(..) ; return CG_ERROR ; } if ( fn != posit_file ) { cgi_error(..) ; return CG_ERROR ; } for ( n = 0 ; n < CG_MAX_GOTO_DEPTH ; n ++ ) { label [ n ] = va_arg ( ap , char * ) ; if ( label [ n ] == NULL || label [ n ] [ 0 ] == 0 ) break ; if ( strcmp ( ""end"" , label [ n ] ) == 0 || strcmp ( ""END"" , label [ n ] ) == 0 ) break ; index [ n ] = va_arg ( ap , int ) ; } return cgi_update_posit ( n , index , label ) ; }");
  ("cg_gopath", "{ int n , len ; const char * p = path , * s ; int index [ CG_MAX_GOTO_DEPTH ] ; char label [ CG_MAX_GOTO_DEPTH ] [ CGIO_MAX_NAME_LENGTH + 1 ] ; char * lab [ CG_MAX_GOTO_DEPTH ] ; if ( p == 0 || ! * p ) { cgi_error(..) ; return CG_ERROR ; } if ( * p == '/' ) { int ierr , B = 0 ; posit = 0 ; while ( * ++ p && * p == '/' ) ; if ( ! * p ) { cgi_error(..) ; return CG_ERROR ; } s = strchr ( p , '/' ) ; if ( s == 0 ) len = ( int ) strlen ( p ) ; else len = ( int ) ( s - p ) ; if ( len > 32 ) { cgi_error(..) ; return CG_ERROR ; } strncpy ( label [ 0 ] , p , len ) ; label [ 0 ] [ len ] = 0 ; cg = cgi_get_file ( fn ) ; if ( cg == 0 ) return CG_ERROR ; for ( n = 0 ; n < cg -> nbases ; n ++ ) { if ( 0 == strcmp ( label [ 0 ] , cg -> base [ n ] . name ) ) { B = n + 1 ; break ; } } if ( B == 0 ) { cgi_error(..) ; return CG_ERROR ; } ierr = cgi_set_posit ( fn , B , 0 , index , lab ) ; if ( ierr != CG_OK ) return ierr ; if ( s == 0 ) return CG_OK ; p = s ; } else { if ( posit == 0 ) { cgi_error(..) ; return CG_ERROR ; } if ( fn != posit_file ) { cgi_error(..) ; return CG_ERROR ; } } n = 0 ; while ( p && * p ) { while ( * p && * p == '/' ) p ++ ; if ( ! * p ) break ; s = strchr ( p , '/' ) ; if ( s == 0 ) len = ( int ) strlen ( p ) ; else len = ( int ) ( s - p ) ; if ( len > 32 ) { posit = 0 ; cgi_error(..) ; return CG_ERROR ; } if ( n == CG_MAX_GOTO_DEPTH ) { posit = 0 ; cgi_error(..) ; return CG_ERROR ; } strncpy ( label [ n ] , p , len ) ; label [ n ] [ len ] = 0 ; lab [ n ] = label [ n ] ; index [ n ++ ] = 0 ; p = s ; } return cgi_update_posit ( n , index , lab ) ; }");
  ("cg_golist", "{ if ( depth >= CG_MAX_GOTO_DEPTH ) { cgi_error(..) ; return CG_ERROR ; } return cgi_set_posit ( fn , B , depth , index , label ) ; }");
  ("cg_where", "{ int n ; if ( posit == 0 ) { cgi_error(..) ; return CG_ERROR ; } * fn = posit_file ; * B = posit_base ; * depth = posit_depth > 1 ? posit_depth - 1 : 0 ; if ( NULL != label ) { for ( n = 1 ; n < posit_depth ; n ++ ) strcpy ( label [ n - 1 ] , posit_stack [ n ] . label ) ; } if ( NULL != num ) { for ( n = 1 ; n < posit_depth ; n ++ ) num [ n - 1 ] = posit_stack [ n ] . index ; } return CG_OK ; }")
].

Fixpoint shapes_ok (expected actual : list (string * string)) : bool :=
  match expected, actual with
  | [], [] => true
  | (f, s) :: e', (g, t) :: a' => String.eqb f g && String.eqb s t && shapes_ok e' a'
  | _, _ => false
  end.

Definition changed_shapes (expected actual : list (string * string)) : list string :=
  map fst (filter (fun p => match assoc (fst p) actual with Some t => negb (String.eqb (snd p) t) | None => true end) expected).
