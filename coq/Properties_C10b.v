(* Properties_C10b.v -- C10, second part: VARIABLE-SIZE element sections (MIXED, NGON_n, NFACE_n: connectivity +
   ElementStartOffset).  Only statements, each closed by [exact] of a lemma of ElemSplicePolyProofs.v, each followed
   by Print Assumptions.  The model is ElemSplice.v (unchanged); the specification is the pointwise element-level
   [splice] / [slice_elems] of ElemSpliceProofs.v (shared with the fixed-size theorems of Properties_C10.v).

   Vocabulary.  An element is the list of its connectivity values (for MIXED: type, then nodes), of ANY size >= 1.
   [offs_from 0 E] = the start offsets of E (0, |e1|, |e1|+|e2|, ...).  [ph_of type] = the placeholder element the
   code writes into a gap: (NODE, 0) for MIXED, (0, 0) otherwise.  [rep_poly st f E slack]: the mirror + nodes [st]
   represent the section (first = f, elements = E): range, ElementConnectivity = concat E followed by [slack]
   (space reserved by cg_section_general_write or left by an in-place shrink), its dimension, ElementStartOffset =
   offs_from 0 E, its dimension, caches absent or equal to the nodes, connectivity never cached without offsets.
   [represents data offs S]: offs has |S|+1 entries, starts at 0, is strictly increasing, ends at |data|, and cuts
   data into exactly the elements of S. *)
From Coq Require Import ZArith List.
From CgnsV Require Import ListX ElemSplice ElemSpliceProofs ElemSplicePolyProofs Properties_C10.
Import ListNotations.
Local Open Scope Z_scope.

(* ---- 1. WRITE IS SPLICE ------------------------------------------------------------------------------------------ *)
(* memcpy level: the in-memory program of cg_poly_elements_general_write (sizes, malloc, memcpy of elements and
   offsets, gap fill, offset accumulation, "my counting is off" test) returns exactly the flattened pointwise splice
   and its start offsets -- for every stored section, every element sizes, every written range (before with/without
   gap, overlapping the front, inside, overlapping the back, after with/without gap, covering) and any reserved
   slack behind the stored connectivity; it never faults and never miscounts. *)
Theorem C10_poly_write_is_splice_memcpy : forall type f E s N slack,
  E <> [] -> N <> [] ->
  poly_splice type f (f + lenZ E - 1) s (s + lenZ N - 1) (concat E ++ slack) (offs_from 0 E) (concat N) (offs_from 0 N)
  = Some (Some (concat (splice (ph_of type) f E s N), offs_from 0 (splice (ph_of type) f E s N))).
Proof. exact poly_splice_is_splice. Qed.
Print Assumptions C10_poly_write_is_splice_memcpy.

(* ... and what that pair says: offsets strictly monotone, first 0, last = length of the connectivity, each
   element's slice of the connectivity is the element of the spec *)
Theorem C10_poly_write_represents : forall type f E s N slack,
  E <> [] -> N <> [] -> nonempty_all E -> nonempty_all N ->
  exists data offs,
    poly_splice type f (f + lenZ E - 1) s (s + lenZ N - 1) (concat E ++ slack) (offs_from 0 E) (concat N) (offs_from 0 N)
    = Some (Some (data, offs)) /\
    represents data offs (splice (ph_of type) f E s N).
Proof. exact poly_splice_represents. Qed.
Print Assumptions C10_poly_write_represents.

Theorem C10_poly_offsets_wf : forall S, nonempty_all S -> represents (concat S) (offs_from 0 S) S.
Proof. exact represents_canonical. Qed.
Print Assumptions C10_poly_offsets_wf.

(* the statement Properties_C10.v kept as an unproved Definition, now proved verbatim *)
Theorem C10_poly_write_is_splice_full_proved : C10_poly_write_is_splice_full.
Proof. exact poly_full_statement. Qed.
Print Assumptions C10_poly_write_is_splice_full_proved.

(* entry-point level (cg_poly_elements_partial_write / cg_poly_elements_general_write, any memory type, any parent
   variant, connectivity / offsets cached or not, with or without reserved space, whichever of the three paths the
   code takes): a state representing (f, E) becomes one representing (min f start, splice placeholder f E start N) *)
Theorem C10_poly_write_is_splice : forall pv st f E slack start N mt,
  rep_poly st f E slack -> s_par st = None -> N <> [] -> nonempty_all N ->
  exists st' slack', poly_elements_general_write pv st start (start + lenZ N - 1) mt (concat N) (offs_from 0 N) = ROk st'
     /\ rep_poly st' (Z.min f start) (splice (ph_of (s_type st)) f E start N) slack'
     /\ s_par st' = None /\ s_type st' = s_type st /\ s_dt st' = s_dt st.
Proof. exact poly_write_is_splice. Qed.
Print Assumptions C10_poly_write_is_splice.

(* what a represented state's nodes say (range / dimension / connectivity / offsets mutually consistent) *)
Theorem C10_poly_rep_consistent : forall st f E slack,
  rep_poly st f E slack ->
  represents (firstn (Z.to_nat (clen E)) (s_conn st)) (s_off st) E /\
  s_r1 st - s_r0 st + 1 = lenZ E /\ lenZ (s_conn st) = s_dim st /\ clen E <= s_dim st /\
  (slack = [] -> s_conn st = concat E /\ s_dim st = clen E).
Proof. exact rep_poly_represents. Qed.
Print Assumptions C10_poly_rep_consistent.

(* ---- the three paths, each with the exact condition under which the code takes it --------------------------------- *)
(* in memory: connectivity cached, or range not inside, or sizes differ and the result does not fit the node:
   the new node is exact (no slack) and cached *)
Theorem C10_poly_write_inmemory : forall pv st f E slack start N mt,
  rep_poly st f E slack -> s_par st = None -> N <> [] -> nonempty_all N ->
  (s_conn_mem st <> None \/ start < f \/ f + lenZ E - 1 < start + lenZ N - 1 \/
   (clen (slice_elems f E start (start + lenZ N - 1)) <> clen N /\
    s_dim st < clen E + clen N - clen (slice_elems f E start (start + lenZ N - 1)))) ->
  exists st', poly_elements_general_write pv st start (start + lenZ N - 1) mt (concat N) (offs_from 0 N) = ROk st'
     /\ rep_poly st' (Z.min f start) (splice (ph_of (s_type st)) f E start N) []
     /\ s_conn_mem st' <> None
     /\ s_par st' = None /\ s_type st' = s_type st /\ s_dt st' = s_dt st.
Proof. exact poly_write_inmemory. Qed.
Print Assumptions C10_poly_write_inmemory.

(* relocation inside the reserved size (range inside, not cached, different total size that still fits):
   trailing elements moved on file, trailing offsets shifted *)
Theorem C10_poly_write_relocate : forall pv st f E slack start N mt,
  rep_poly st f E slack -> s_par st = None -> N <> [] -> nonempty_all N ->
  s_conn_mem st = None -> f <= start -> start + lenZ N - 1 <= f + lenZ E - 1 ->
  clen (slice_elems f E start (start + lenZ N - 1)) <> clen N ->
  clen E + clen N - clen (slice_elems f E start (start + lenZ N - 1)) <= s_dim st ->
  exists st' slack', poly_elements_general_write pv st start (start + lenZ N - 1) mt (concat N) (offs_from 0 N) = ROk st'
     /\ rep_poly st' f (splice (ph_of (s_type st)) f E start N) slack'
     /\ s_conn_mem st' = None /\ s_dim st' = s_dim st
     /\ s_par st' = None /\ s_type st' = s_type st /\ s_dt st' = s_dt st.
Proof. exact poly_write_relocate. Qed.
Print Assumptions C10_poly_write_relocate.

(* ---- 4. THE IN-PLACE FAST PATH (same total size) ------------------------------------------------------------------- *)
Theorem C10_poly_write_inplace : forall pv st f E slack start N mt,
  rep_poly st f E slack -> s_par st = None -> N <> [] -> nonempty_all N ->
  s_conn_mem st = None -> f <= start -> start + lenZ N - 1 <= f + lenZ E - 1 ->
  clen (slice_elems f E start (start + lenZ N - 1)) = clen N ->
  exists st', poly_elements_general_write pv st start (start + lenZ N - 1) mt (concat N) (offs_from 0 N) = ROk st'
     /\ rep_poly st' f (splice (ph_of (s_type st)) f E start N) slack
     /\ s_conn_mem st' = None /\ s_dim st' = s_dim st
     /\ s_par st' = None /\ s_type st' = s_type st /\ s_dt st' = s_dt st.
Proof. exact poly_write_inplace. Qed.
Print Assumptions C10_poly_write_inplace.

(* it writes into the node exactly what the general (in-memory) path computes: connectivity AND recomputed offsets *)
Theorem C10_poly_inplace_eq_general : forall pv st f E slack start N mt,
  rep_poly st f E slack -> s_par st = None -> N <> [] -> nonempty_all N ->
  s_conn_mem st = None -> f <= start -> start + lenZ N - 1 <= f + lenZ E - 1 ->
  clen (slice_elems f E start (start + lenZ N - 1)) = clen N ->
  exists st' data offs,
    poly_elements_general_write pv st start (start + lenZ N - 1) mt (concat N) (offs_from 0 N) = ROk st' /\
    poly_splice (s_type st) f (f + lenZ E - 1) start (start + lenZ N - 1) (concat E ++ slack) (offs_from 0 E)
                (concat N) (offs_from 0 N) = Some (Some (data, offs)) /\
    s_conn st' = data ++ slack /\ s_off st' = offs /\
    (s_off_mem st' = None \/ s_off_mem st' = Some offs) /\
    s_conn_mem st' = None /\ s_dim st' = s_dim st /\ s_r0 st' = s_r0 st /\ s_r1 st' = s_r1 st /\
    lenZ data = clen E.
Proof. exact poly_inplace_eq_general. Qed.
Print Assumptions C10_poly_inplace_eq_general.

(* when it is taken: exactly when the range is inside, the connectivity is not cached and the replaced elements have
   the same total size as the new ones <-> the write leaves the node uncached with unchanged dimension and total size *)
Theorem C10_poly_inplace_iff : forall pv st f E slack start N mt st',
  rep_poly st f E slack -> s_par st = None -> N <> [] -> nonempty_all N ->
  poly_elements_general_write pv st start (start + lenZ N - 1) mt (concat N) (offs_from 0 N) = ROk st' ->
  (s_conn_mem st = None /\ f <= start /\ start + lenZ N - 1 <= f + lenZ E - 1 /\
   clen (slice_elems f E start (start + lenZ N - 1)) = clen N)
  <-> (s_conn_mem st' = None /\ s_dim st' = s_dim st /\ clen (splice (ph_of (s_type st)) f E start N) = clen E).
Proof. exact poly_inplace_iff. Qed.
Print Assumptions C10_poly_inplace_iff.

(* ---- 2. HISTORIES -------------------------------------------------------------------------------------------------- *)
(* by induction over ANY history of variable-size partial writes (any memory types, any positions, any element
   sizes): the final state represents the fold of [splice] *)
Theorem C10_poly_consistent : forall pv ws st f E slack,
  rep_poly st f E slack -> s_par st = None ->
  Forall (fun w : pwrite => snd w <> [] /\ nonempty_all (snd w)) ws ->
  exists st' slack', poly_impl_run pv st ws = ROk st' /\
     rep_poly st' (fst (poly_spec_run (ph_of (s_type st)) f E ws)) (snd (poly_spec_run (ph_of (s_type st)) f E ws)) slack' /\
     s_par st' = None /\ s_type st' = s_type st /\ s_dt st' = s_dt st.
Proof. exact poly_history_is_splice. Qed.
Print Assumptions C10_poly_consistent.

(* ---- 3. READS ARE SLICES, OFFSETS REBASED TO 0 -------------------------------------------------------------------- *)
(* cg_poly_elements_partial_read: file path (not cached, stored as cgsize_t) and cache path (cached, or stored I4),
   including the caching side effect *)
Theorem C10_poly_read_is_slice : forall st f E slack a b,
  rep_poly st f E slack -> f <= a -> a <= b -> b <= f + lenZ E - 1 ->
  exists st', poly_elements_partial_read st a b false
              = ROk (st', [concat (slice_elems f E a b); offs_from 0 (slice_elems f E a b)])
              /\ rep_poly st' f E slack /\ s_par st' = s_par st /\ s_type st' = s_type st /\ s_dt st' = s_dt st.
Proof. exact poly_partial_read_is_slice. Qed.
Print Assumptions C10_poly_read_is_slice.

(* cg_poly_elements_general_read: always from the nodes, state unchanged *)
Theorem C10_poly_general_read_is_slice : forall st f E slack a b mt,
  rep_poly st f E slack -> f <= a -> a <= b -> b <= f + lenZ E - 1 ->
  poly_elements_general_read st a b mt
  = ROk (st, [concat (slice_elems f E a b); offs_from 0 (slice_elems f E a b)]).
Proof. exact poly_general_read_is_slice. Qed.
Print Assumptions C10_poly_general_read_is_slice.

(* the returned offsets pointwise: off'[i] = off[first + i] - off[first] *)
Theorem C10_poly_read_offsets_rebased : forall f E a b i,
  f <= a -> a <= b -> b <= f + lenZ E - 1 -> 0 <= i <= b - a + 1 ->
  nthZ (offs_from 0 (slice_elems f E a b)) i 0
  = nthZ (offs_from 0 E) (a - f + i) 0 - nthZ (offs_from 0 E) (a - f) 0.
Proof. exact poly_read_offsets_rebased. Qed.
Print Assumptions C10_poly_read_offsets_rebased.

(* write, then read any range of the new section back: the slice of the splice, both readers *)
Theorem C10_poly_write_then_read : forall pv st f E slack start N mt a b,
  rep_poly st f E slack -> s_par st = None -> N <> [] -> nonempty_all N ->
  Z.min f start <= a -> a <= b -> b <= Z.max (f + lenZ E - 1) (start + lenZ N - 1) ->
  exists st' st'',
    poly_elements_general_write pv st start (start + lenZ N - 1) mt (concat N) (offs_from 0 N) = ROk st' /\
    let S := slice_elems (Z.min f start) (splice (ph_of (s_type st)) f E start N) a b in
    poly_elements_partial_read st' a b false = ROk (st'', [concat S; offs_from 0 S]) /\
    poly_elements_general_read st' a b mt = ROk (st', [concat S; offs_from 0 S]).
Proof. exact poly_write_then_read. Qed.
Print Assumptions C10_poly_write_then_read.

(* ---- 5. THE FULL READ and its "double check": hypothesis as a boolean, proved under it, refuted outside it --------- *)
(* full_read_pre RCurrent st = "connectivity not cached, or no reserved space behind the elements";
   full_read_pre RFixed st = true; elems_ok: for MIXED the elements are (type, cg_npe type nodes) *)
Theorem C10_poly_full_read : forall rv st f E slack,
  rep_poly st f E slack -> elems_ok (s_type st) E -> full_read_pre rv st = true ->
  poly_elements_read rv st false = ROk (st, [concat E ++ slack; offs_from 0 E]).
Proof. exact poly_full_read. Qed.
Print Assumptions C10_poly_full_read.

(* outside the hypothesis the call fails on EVERY represented state (finding poly-read-fails-reserved-slack-cached
   for RCurrent; poly-read-fails-i4-cached for ROld) *)
Theorem C10_poly_full_read_refuted_all : forall rv st f E slack,
  rep_poly st f E slack -> elems_ok (s_type st) E -> full_read_pre rv st = false ->
  poly_elements_read rv st false = RErr.
Proof. exact poly_full_read_refuted_all. Qed.
Print Assumptions C10_poly_full_read_refuted_all.

Theorem C10_poly_full_read_total_fixed : poly_full_read_total RFixed.
Proof. exact poly_full_read_total_fixed. Qed.
Print Assumptions C10_poly_full_read_total_fixed.

(* the code as it is: the witness is a reachable represented state (see slack_state_reachable below) *)
Theorem C10_poly_full_read_total_refuted : ~ poly_full_read_total RCurrent.
Proof. exact poly_full_read_total_current_refuted. Qed.
Print Assumptions C10_poly_full_read_total_refuted.

(* hypothesis "the caller's offsets start at 0" of the write theorems: outside it the stored offsets do not *)
Theorem C10_poly_write_nonzero_base_refuted :
  exists data offs, poly_splice 22 10 12 6 7 ngon3 ngon_off [21;22;23;24;25;26] [5;8;11] = Some (Some (data, offs)) /\
                    nthZ offs 0 0 <> 0 /\ nthZ offs 7 0 <> lenZ data.
Proof. exact nonzero_base_refuted. Qed.
Print Assumptions C10_poly_write_nonzero_base_refuted.

(* ---- non-vacuity ---------------------------------------------------------------------------------------------------- *)
Example rep_poly_inhabited : rep_poly ngon_state 10 [[1;2;3]; [4;5;6;7]; [8;9;10]] [].
Proof. exact ngon_state_rep. Qed.
Example rep_poly_slack_inhabited : rep_poly slack_state 1 [[0;0]; [0;0]] (repeat undef 10).
Proof. exact slack_state_rep. Qed.
Example slack_state_is_reachable :
  exists o, run PFixed RCurrent None [OSecGeneralWrite 22 I4 1 2 14; OPolyPartialRead 1 2 false] = ROk (Some slack_state, o).
Proof. exact slack_state_reachable. Qed.
Example slack_state_is_outside : full_read_pre RCurrent slack_state = false.
Proof. exact slack_state_outside. Qed.
(* the fast path on ngon_state: elements 10..11 (sizes 3,4) replaced by sizes 4,3: same total size, offsets move *)
Example inplace_moves_offsets :
  exists st', poly_elements_general_write PFixed ngon_state 10 11 I8 [21;22;23;24; 25;26;27] [0;4;7] = ROk st' /\
              s_conn st' = [21;22;23;24; 25;26;27; 8;9;10] /\ s_off st' = [0;4;7;10] /\ s_conn_mem st' = None.
Proof. eexists. vm_compute. repeat split; reflexivity. Qed.
Example inplace_offsets_must_change :
  let E := [[1;2;3]; [4;5;6;7]; [8;9;10]] in let N := [[21;22;23;24]; [25;26;27]] in
  clen (slice_elems 10 E 10 11) = clen N /\ offs_from 0 (splice [0;0] 10 E 10 N) <> offs_from 0 E.
Proof. exact inplace_offsets_change. Qed.
(* "before with a gap" on a MIXED section: placeholders are (NODE, 0) *)
Example mixed_before_gap :
  poly_splice 20 10 11 6 7 [5;1;2;3; 3;1;2] [0;4;7] [3;8;9; 3;7;8] [0;3;6]
  = Some (Some ([3;8;9; 3;7;8; 2;0; 2;0; 5;1;2;3; 3;1;2], [0;3;6;8;10;14;17])).
Proof. vm_compute. reflexivity. Qed.
