(* FtocAbiProofs.v -- lemmas about FtocAbi.abi_ok, proved for ANY table (the table itself is data regenerated from the
   sources; the kernel evaluates abi_table_ok on it in Properties_C20f.v). *)
From Coq Require Import ZArith List String Ascii Bool Lia.
From CgnsV Require Import ListX Ftoc FtocAbi.
Import ListNotations.
Local Open Scope Z_scope.

Lemma args_abi_length : forall b fa ca, args_abi b fa ca = true -> List.length fa = List.length ca.
Proof.
  induction fa as [|[f v] fr IH]; destruct ca as [|c cr]; simpl; intros H; try discriminate; auto.
  apply andb_true_iff in H. destruct H as [_ H]. f_equal. now apply IH.
Qed.

Lemma args_abi_nth : forall b fa ca, args_abi b fa ca = true ->
  forall k f v c, nth_error fa k = Some (f, v) -> nth_error ca k = Some c -> arg_compat b f v c = true.
Proof.
  induction fa as [|[f0 v0] fr IH]; destruct ca as [|c0 cr]; simpl; intros H k f v c Hf Hc; try discriminate.
  - destruct k; discriminate.
  - apply andb_true_iff in H. destruct H as [H0 H1].
    destruct k; simpl in *.
    + inversion Hf; inversion Hc; subst. exact H0.
    + eapply IH; eauto.
Qed.

(* a C string parameter in Fortran convention (blank padded, hidden length) only ever receives a CHARACTER actual, by
   reference, through an interface WITHOUT BIND(C) *)
Lemma compat_fstr : forall b f v, arg_compat b f v TFStr = true -> f = FChar /\ v = false /\ b = false.
Proof.
  intros b f v H. unfold arg_compat in H. destruct v.
  - destruct f; discriminate.
  - destruct f; try discriminate. destruct b; simpl in H; try discriminate. auto.
Qed.

(* a CHARACTER actual is received by a Fortran-convention string parameter (no BIND(C)), a NUL-terminated char*
   (BIND(C)) or an untyped data pointer -- never by an integer / real parameter *)
Lemma compat_char : forall b v c, arg_compat b FChar v c = true ->
  v = false /\ ((c = TFStr /\ b = false) \/ (c = TStr /\ b = true) \/ c = TVoidP).
Proof.
  intros b v c H. unfold arg_compat in H. destruct v.
  - destruct c; discriminate.
  - split; [reflexivity|]. destruct c; try discriminate; destruct b; simpl in H; try discriminate; auto.
Qed.

(* integer widths: an INTEGER(cgsize_t) actual is received by cgsize_t* (or void* ) only, a default INTEGER by cgint_f* (or
   void* ) only *)
Lemma compat_size : forall b c, arg_compat b FSize false c = true -> c = TSizeP \/ c = TVoidP.
Proof. intros b c H. unfold arg_compat in H. destruct c; try discriminate; auto. Qed.
Lemma compat_int : forall b c, arg_compat b FInt false c = true -> c = TFIntP \/ c = TVoidP.
Proof. intros b c H. unfold arg_compat in H. destruct c; try discriminate; auto. Qed.
Lemma compat_sizep : forall b f v, arg_compat b f v TSizeP = true -> (f = FSize /\ v = false) \/ (f = FCPtr /\ v = true).
Proof. intros b f v H. unfold arg_compat in H. destruct v; destruct f; try discriminate; auto. Qed.
Lemma compat_fintp : forall b f v, arg_compat b f v TFIntP = true -> f = FInt /\ v = false.
Proof. intros b f v H. unfold arg_compat in H. destruct v; destruct f; try discriminate; auto. Qed.

Lemma table_row : forall t r, abi_table_ok t = true -> In r t -> arow_known r = false -> abi_ok r = true.
Proof.
  intros t r H Hin Hk. unfold abi_table_ok in H. rewrite forallb_forall in H. specialize (H r Hin).
  rewrite Hk, orb_false_r in H. exact H.
Qed.

(* what iface_ok means for a non-variadic interface body *)
Definition iface_matches (i : iface) : Prop :=
  let cn := non_hidden (a_cptys i) in
  List.length (a_fargs i) = List.length cn /\
  (a_bindc i = false -> n_fchar (a_fargs i) = n_hidden (a_cptys i)) /\
  (a_bindc i = true -> n_hidden (a_cptys i) = 0) /\
  (forall k f v c, nth_error (a_fargs i) k = Some (f, v) -> nth_error cn k = Some c ->
     arg_compat (a_bindc i) f v c = true /\
     (c = TFStr -> f = FChar /\ v = false /\ a_bindc i = false) /\
     (f = FChar -> v = false /\ ((c = TFStr /\ a_bindc i = false) \/ (c = TStr /\ a_bindc i = true) \/ c = TVoidP)) /\
     (c = TSizeP -> (f = FSize /\ v = false) \/ (f = FCPtr /\ v = true)) /\
     (c = TFIntP -> f = FInt /\ v = false)).

Lemma iface_ok_matches : forall i, iface_ok i = true -> a_variadic i = false -> iface_matches i.
Proof.
  intros i Hok Hv. unfold iface_matches. set (cn := non_hidden (a_cptys i)).
  unfold iface_ok in Hok. rewrite Hv in Hok.
  apply andb_true_iff in Hok. destruct Hok as [Hok _]. apply andb_true_iff in Hok. destruct Hok as [Ha Hh].
  fold cn in Ha.
  split; [now apply (args_abi_length (a_bindc i))|].
  split; [intros Hb; rewrite Hb in Hh; now apply Z.eqb_eq in Hh|].
  split; [intros Hb; rewrite Hb in Hh; now apply Z.eqb_eq in Hh|].
  intros k f v c Hf Hc. pose proof (args_abi_nth _ _ _ Ha k f v c Hf Hc) as Hcomp.
  split; [exact Hcomp|].
  split; [intros ->; now apply compat_fstr in Hcomp|].
  split; [intros ->; now apply compat_char in Hcomp|].
  split; [intros ->; now apply compat_sizep in Hcomp|].
  intros ->; now apply compat_fintp in Hcomp.
Qed.

(* the generic statement behind C20f_interfaces_match *)
Lemma interfaces_match : forall t i, abi_table_ok t = true -> In (AIface i) t -> arow_known (AIface i) = false ->
  a_variadic i = false -> iface_matches i.
Proof.
  intros t i Ht Hin Hk Hv. pose proof (table_row t _ Ht Hin Hk) as Hok. simpl in Hok. now apply iface_ok_matches.
Qed.

(* ... and behind C20f_documented_kinds_match: a wrapper that is only DOCUMENTED (commented-out interface body) takes, position
   by position, what the documentation says a caller passes -- in particular cgsize_t* where it says INTEGER(cgsize_t) *)
Lemma documented_match : forall t i, abi_table_ok t = true -> In (ADoc i) t -> arow_known (ADoc i) = false ->
  iface_matches i /\ a_bindc i = false.
Proof.
  intros t i Ht Hin Hk. pose proof (table_row t _ Ht Hin Hk) as Hok. simpl in Hok.
  apply andb_true_iff in Hok. destruct Hok as [Hok Hv]. apply andb_true_iff in Hok. destruct Hok as [Hok Hb].
  apply negb_true_iff in Hv, Hb. split; [now apply iface_ok_matches | exact Hb].
Qed.

(* a wrapper without an interface body is reachable from gfortran only if its symbol is name_ *)
Lemma implicit_symbol : forall t n sym p, abi_table_ok t = true -> In (AImplicit n sym p) t ->
  arow_known (AImplicit n sym p) = false -> sym = (n ++ "_")%string.
Proof.
  intros t n sym p Ht Hin Hk. pose proof (table_row t _ Ht Hin Hk) as H. simpl in H. now apply String.eqb_eq in H.
Qed.

(* the full-strength statement (no exception list) is false of the current code: a literal copy of the excused row
   fails abi_ok; an interface body whose link name has no C definition fails abi_ok and is NOT excused *)
Lemma known_rows_refuted : abi_ok witness_bcdataset_info_abi = false /\ arow_known witness_bcdataset_info_abi = true /\
  abi_ok witness_field_id = false /\ arow_known witness_field_id = false /\ abi_table_ok [witness_field_id] = false.
Proof. vm_compute. repeat split; reflexivity. Qed.
