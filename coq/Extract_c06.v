(* Extract_c06.v -- extraction of the C06 model (Convert.v + the regenerated cast table) to OCaml.
   ExtrOcamlBasic only; Z / positive / nat stay extracted inductives (Flocq's binary_normalize, Btrunc and the
   bit codecs are extracted as they are, their proof arguments erased). *)
From Coq Require Import Extraction ExtrOcamlBasic.
From CgnsV Require Import Convert Gen_C06.
Extraction Language OCaml.
Set Extraction KeepSingleton.
Extraction "extracted/c06/model.ml" Convert.step Convert.c_cast Convert.representable Convert.convert_data
  Convert.lookup_arm Convert.int_write Convert.int_read Convert.read_int_data Convert.supported
  Gen_C06.cast_table.
