(* Mirror.v -- executable model behind property C04 ("in modify mode the session view, the file and the edits never
   diverge").  No proofs in this file (MirrorProofs.v).

   PART A -- one parent node of a CGNS file opened in CG_MODE_MODIFY.
   The library keeps two representations of the parent's children:
     * the FILE (ADF / HDF5 database): ONE ordered child list for all labels; cgio_create_node appends at the END and
       refuses a name that already exists under the parent (whatever its label); cgio_delete_node removes one node and
       closes the gap (ADF_internals.c ADFI_delete_from_sub_node_table, ADFH.c: creation-order index);
     * the session MIRROR (cgns_header.h structs): per child kind one array  parent->nX / parent->X[]  whose slots
       hold the name, the database id and everything else of the child (here an opaque payload).
   Transcribed:
     write      the explicit overwrite-by-name loop of every cg_*_write (cgnslib.c, e.g. cg_sol_write: "Overwrite a
                FlowSolution_t Node" ... "... or add a FlowSolution_t Node") and, for node-context writers, ADDRESS4MULTIPLE
                (cgns_header.h) + the `if (parent_id) { cgi_delete_node; cgi_free_X }` tail of cgi_*_address:
                  found at index  -> cgi_delete_node(parent->id, slot.id); free the slot; memset; refill THE SAME SLOT;
                                     cgi_new_node(parent->id, name, label, &slot.id ...)      (file: appended at the end)
                  not found       -> CGNS_RENEW(count+1); fill slot [count]; count++; cgi_new_node
                a failing cgi_new_node returns CG_ERROR AFTER the mirror was changed (the slot keeps id 0 from the memset)
     delete     cg_delete_node (cgnslib.c): cgio_get_node_id by NAME under the parent, cgio_get_label, the refusal
                list, cgi_delete_node, then the dispatcher arm selected by (node label, node name):
                CGNS_DELETE_SHIFT(count, array, free) = name loop over the array, "Can't find node" -> return 1 (the file
                node is already gone), free, shift the tail down by one, count--.  WHICH arm is selected is a parameter
                [disp] here; PART B computes it from the dispatcher table regenerated from the sources (Gen_C04.v).
     reopen     cg_close + cg_open: cgi_read_* rebuilds every array with cgi_get_nodes(parent id, label), i.e. the
                file's children carrying that label IN FILE ORDER (nothing is sorted: cgi_sort_names has no caller).
                cgio_compress_file (compress-on-close) copies the children in order, so it is the same operation here.
   The ideal tree the property speaks of is [ideal]: a finite map  name -> (kind, payload)  (sibling names are unique
   under a node), write = set, delete = remove.

   PART B -- the delete dispatcher as DATA (types of the rows Gen_C04.v contains), its interpretation [disp_of], and the
   decidable consistency checks against the goto table and the struct declarations of Gen_C11.v. *)
From Coq Require Import ZArith List String Bool.
From CgnsV Require Goto.
Import ListNotations.
Local Open Scope string_scope.
Local Open Scope Z_scope.
Local Open Scope list_scope.

(* ================================================================================================ PART A *)
Record fnode := mkF { f_id : Z; f_kind : string; f_name : string; f_pay : Z }.
Record slot := mkS { s_name : string; s_id : Z; s_pay : Z }.
Definition mirror := list (string * list slot).
Record parent := mkP { p_mir : mirror; p_file : list fnode; p_next : Z }.

Definition empty_parent : parent := mkP [] [] 1.

Fixpoint massoc (k : string) (m : mirror) : option (list slot) :=
  match m with
  | [] => None
  | (k', l) :: r => if String.eqb k k' then Some l else massoc k r
  end.
Definition mget (k : string) (m : mirror) : list slot :=
  match massoc k m with Some l => l | None => [] end.
Fixpoint mset (k : string) (l : list slot) (m : mirror) : mirror :=
  match m with
  | [] => [(k, l)]
  | (k', l') :: r => if String.eqb k k' then (k, l) :: r else (k', l') :: mset k l r
  end.

(* for (index = 0; index < parent->nX; index++) if (strcmp(name, parent->X[index].name) == 0) break; *)
Fixpoint find_slot (nm : string) (l : list slot) : option nat :=
  match l with
  | [] => None
  | s :: r => if String.eqb (s_name s) nm then Some O
              else match find_slot nm r with Some i => Some (S i) | None => None end
  end.

Fixpoint set_nth (l : list slot) (i : nat) (v : slot) : list slot :=
  match l, i with
  | [], _ => []
  | _ :: t, O => v :: t
  | h :: t, S j => h :: set_nth t j v
  end.

(* cgio_delete_node(parent id, node id): None = the database reports an error (no such child) *)
Fixpoint file_del (id : Z) (f : list fnode) : option (list fnode) :=
  match f with
  | [] => None
  | n :: r => if f_id n =? id then Some r
              else match file_del id r with Some r' => Some (n :: r') | None => None end
  end.

(* cgio_get_node_id(parent id, name) / the duplicate test of cgio_create_node *)
Definition file_find (nm : string) (f : list fnode) : option fnode :=
  find (fun n => String.eqb (f_name n) nm) f.
Definition file_has (nm : string) (f : list fnode) : bool :=
  match file_find nm f with Some _ => true | None => false end.

(* "... or add a Node": CGNS_RENEW(count + 1), fill slot [count], count++, cgi_new_node (appended in the file); a name
   that already exists under the parent makes cgi_new_node fail AFTER the array was extended (slot id 0 from the memset) *)
Definition append_new (s : parent) (k nm : string) (p : Z) : parent * Z * Z :=
  let l := mget k (p_mir s) in
  let i := List.length l in
  if file_has nm (p_file s) then
    (mkP (mset k (l ++ [mkS nm 0 p]) (p_mir s)) (p_file s) (p_next s), 1, Z.of_nat i + 1)
  else
    (mkP (mset k (l ++ [mkS nm (p_next s) p]) (p_mir s))
         (p_file s ++ [mkF (p_next s) k nm p]) (p_next s + 1), 0, Z.of_nat i + 1).

(* result of a write: new state, status (0 = CG_OK, 1 = CG_ERROR), 1-based index handed back ( *S = index + 1 ) *)
Definition write (s : parent) (k nm : string) (p : Z) : parent * Z * Z :=
  let l := mget k (p_mir s) in
  match find_slot nm l with
  | Some i =>
      match nth_error l i with
      | None => (s, 1, 0)
      | Some sl =>
          match file_del (s_id sl) (p_file s) with
          | None => (s, 1, 0)                                   (* cgi_delete_node failed: return before the slot is touched *)
          | Some f1 =>
              if file_has nm f1 then                             (* cgi_new_node fails: slot already cleared and renamed *)
                (mkP (mset k (set_nth l i (mkS nm 0 p)) (p_mir s)) f1 (p_next s), 1, Z.of_nat i + 1)
              else
                (mkP (mset k (set_nth l i (mkS nm (p_next s) p)) (p_mir s))
                     (f1 ++ [mkF (p_next s) k nm p]) (p_next s + 1), 0, Z.of_nat i + 1)
          end
      end
  | None => append_new s k nm p
  end.

(* cg_coord_write / cg_field_write / cg_particle_*_write and the other callers of cgi_array_general_write
   (cgns_internals.c): an existing DataArray_t of that name (same rank, dimensions and type) is REWRITTEN IN PLACE --
   same database node, same slot, cgio_write_data on the stored id; only a new name is appended *)
Definition updn (id p : Z) (n : fnode) : fnode :=
  if f_id n =? id then mkF (f_id n) (f_kind n) (f_name n) p else n.
Definition file_upd (id p : Z) (f : list fnode) : list fnode := map (updn id p) f.

Definition write_inplace (s : parent) (k nm : string) (p : Z) : parent * Z * Z :=
  let l := mget k (p_mir s) in
  match find_slot nm l with
  | Some i =>
      match nth_error l i with
      | None => (s, 1, 0)
      | Some sl =>
          (mkP (mset k (set_nth l i (mkS nm (s_id sl) p)) (p_mir s)) (file_upd (s_id sl) p (p_file s)) (p_next s),
           0, Z.of_nat i + 1)
      end
  | None => append_new s k nm p
  end.

(* ... the same call on an array whose data cgi_read_array loaded when the file was opened (array->data != NULL: every parent
   except GridCoordinates_t, FlowSolution_t, Elements_t, ZoneSubRegion_t, DiscreteData_t, Particle*, UserDefinedData_t) while
   cgi_array_general_write does not touch array->data (Gen_C04.general_write_mentions_cache = false): the node in the file
   gets the new data, cg_array_read keeps answering from the copy *)
Definition write_inplace_stale (s : parent) (k nm : string) (p : Z) : parent * Z * Z :=
  let l := mget k (p_mir s) in
  match find_slot nm l with
  | Some i =>
      match nth_error l i with
      | None => (s, 1, 0)
      | Some sl => (mkP (p_mir s) (file_upd (s_id sl) p (p_file s)) (p_next s), 0, Z.of_nat i + 1)
      end
  | None => append_new s k nm p
  end.

(* cg_link_write (cgnslib.c): cgio_create_link(posit_id, name, file, path) and (cg->added)++ -- NOTHING else: the link node is
   appended to the parent's child list in the file (the database refuses a name that exists), no array of the session mirror
   learns of it ("Need to fix this ... going to take a bit of work to keep the in-core information current").  The kind k
   of the new child is the label the link resolves to (cgio_get_label follows links); its payload p is the IDENTITY of the
   link -- the pair (file, path in file) cg_link_read reports, an opaque value here -- and never what lies behind it. *)
Definition link_new (s : parent) (k nm : string) (p : Z) : parent * Z :=
  if file_has nm (p_file s) then (s, 1)
  else (mkP (p_mir s) (p_file s ++ [mkF (p_next s) k nm p]) (p_next s + 1), 0).

(* CGNS_DELETE_SHIFT: name loop, free, shift down, count-- ; None = "Can't find node" *)
Fixpoint remove_slot (nm : string) (l : list slot) : option (list slot) :=
  match l with
  | [] => None
  | s :: r => if String.eqb (s_name s) nm then Some r
              else match remove_slot nm r with Some r' => Some (s :: r') | None => None end
  end.

(* what the dispatcher of cg_delete_node does for a node of kind (label) k called nm *)
Inductive daction :=
| DShift (g : string)        (* CGNS_DELETE_SHIFT on the array of kind g *)
| DRefuse                    (* "Node ... can not be deleted": CG_ERROR before anything is touched *)
| DOther (status : Z).       (* any other arm, or no arm at all: no array of siblings changes; returns status *)

Definition delete (disp : string -> string -> daction) (s : parent) (nm : string) : parent * Z :=
  match file_find nm (p_file s) with
  | None => (s, 1)                                              (* cgio_get_node_id fails *)
  | Some n =>
      match disp (f_kind n) nm with
      | DRefuse => (s, 1)
      | a =>
          match file_del (f_id n) (p_file s) with               (* cgi_delete_node(posit_id, node_id) *)
          | None => (s, 1)
          | Some f1 =>
              match a with
              | DShift g =>
                  match remove_slot nm (mget g (p_mir s)) with
                  | None => (mkP (p_mir s) f1 (p_next s), 1)     (* "Can't find node": the file node is already gone *)
                  | Some l' => (mkP (mset g l' (p_mir s)) f1 (p_next s), 0)
                  end
              | DOther st => (mkP (p_mir s) f1 (p_next s), st)
              | DRefuse => (s, 1)
              end
          end
      end
  end.

Definition slot_of (n : fnode) : slot := mkS (f_name n) (f_id n) (f_pay n).
Definition regroup (f : list fnode) : mirror :=
  fold_left (fun m n => mset (f_kind n) (mget (f_kind n) m ++ [slot_of n]) m) f [].

(* cgi_read_base (cgns_internals.c): the Zone_t and the ParticleZone_t children of a base are ordered with
   qsort(childlist, n, sizeof(_childnode_t), sort_childnode_names), i.e. strcmp on the node names (unsigned bytes);
   sibling names are distinct, so the result does not depend on the sorting algorithm.  [sk k] says whether the
   arrays of kind k are sorted on read under the parent at hand ([cgns_sorted] for the current sources). *)
Fixpoint str_leb (a b : string) : bool :=
  match a, b with
  | EmptyString, _ => true
  | String _ _, EmptyString => false
  | String x a', String y b' =>
      let nx := Ascii.N_of_ascii x in
      let ny := Ascii.N_of_ascii y in
      if N.ltb nx ny then true else if N.ltb ny nx then false else str_leb a' b'
  end.
Fixpoint insert_slot (x : slot) (l : list slot) : list slot :=
  match l with
  | [] => [x]
  | y :: r => if str_leb (s_name x) (s_name y) then x :: l else y :: insert_slot x r
  end.
Definition sort_slots (l : list slot) : list slot := fold_right insert_slot [] l.
Definition cgns_sorted (pl k : string) : bool :=
  String.eqb pl "CGNSBase_t" && (String.eqb k "Zone_t" || String.eqb k "ParticleZone_t").

Definition read_group (sk : string -> bool) (k : string) (f : list fnode) : list slot :=
  let l := map slot_of (filter (fun n => String.eqb (f_kind n) k) f) in
  if sk k then sort_slots l else l.
Definition resort (sk : string -> bool) (m : mirror) : mirror :=
  map (fun kl => (fst kl, if sk (fst kl) then sort_slots (snd kl) else snd kl)) m.
Definition reopen (sk : string -> bool) (s : parent) : parent :=
  mkP (resort sk (regroup (p_file s))) (p_file s) (p_next s).

(* ---- what the API reports: (name, payload) in index order *)
Definition view_session (s : parent) (k : string) : list (string * Z) :=
  map (fun sl => (s_name sl, s_pay sl)) (mget k (p_mir s)).
(* ... and what it reports after a fresh open of the file as it is now *)
Definition view_file (sk : string -> bool) (s : parent) (k : string) : list (string * Z) :=
  map (fun sl => (s_name sl, s_pay sl)) (read_group sk k (p_file s)).

Fixpoint vlookup (nm : string) (v : list (string * Z)) : option Z :=
  match v with
  | [] => None
  | (n, p) :: r => if String.eqb n nm then Some p else vlookup nm r
  end.
Fixpoint vindex (nm : string) (v : list (string * Z)) : option nat :=
  match v with
  | [] => None
  | (n, _) :: r => if String.eqb n nm then Some O else match vindex nm r with Some i => Some (S i) | None => None end
  end.

(* ---- histories *)
(* OLink = cg_link_write followed by cg_close + cg_open: the session shows a new link only after the file was read again
   ([link_new] alone leaves the mirror behind the file: MirrorProofs.link_invisible_in_session) *)
Inductive op := OWrite (k nm : string) (p : Z) | OUpdate (k nm : string) (p : Z) | ODelete (nm : string) | OReopen
              | OLink (k nm : string) (p : Z).

Definition step (sk : string -> bool) (disp : string -> string -> daction) (s : parent) (o : op) : parent * Z :=
  match o with
  | OWrite k nm p => let '(s', st, _) := write s k nm p in (s', st)
  | OUpdate k nm p => let '(s', st, _) := write_inplace s k nm p in (s', st)
  | ODelete nm => delete disp s nm
  | OReopen => (reopen sk s, 0)
  | OLink k nm p => let '(s', st) := link_new s k nm p in (reopen sk s', st)
  end.

Fixpoint run (sk : string -> bool) (disp : string -> string -> daction) (s : parent) (ops : list op) : parent * list Z :=
  match ops with
  | [] => (s, [])
  | o :: r => let '(s1, st) := step sk disp s o in
              let '(s2, sts) := run sk disp s1 r in (s2, st :: sts)
  end.

(* ---- the ideal tree: name -> (kind, payload) *)
Definition ideal := list (string * (string * Z)).
Fixpoint i_get (nm : string) (t : ideal) : option (string * Z) :=
  match t with
  | [] => None
  | (n, v) :: r => if String.eqb n nm then Some v else i_get nm r
  end.
Fixpoint i_remove (nm : string) (t : ideal) : ideal :=
  match t with
  | [] => []
  | (n, v) :: r => if String.eqb n nm then i_remove nm r else (n, v) :: i_remove nm r
  end.
Definition i_set (nm : string) (v : string * Z) (t : ideal) : ideal := (nm, v) :: i_remove nm t.

Definition i_step (t : ideal) (o : op) : ideal * Z :=
  match o with
  | OWrite k nm p | OUpdate k nm p =>
      match i_get nm t with
      | Some (k', _) => if String.eqb k' k then (i_set nm (k, p) t, 0) else (t, 1)   (* the name is taken by another kind *)
      | None => (i_set nm (k, p) t, 0)
      end
  | ODelete nm => match i_get nm t with Some _ => (i_remove nm t, 0) | None => (t, 1) end
  | OReopen => (t, 0)
  | OLink k nm p => match i_get nm t with Some _ => (t, 1) | None => (i_set nm (k, p) t, 0) end   (* never replaces a sibling *)
  end.
Fixpoint i_run (t : ideal) (ops : list op) : ideal * list Z :=
  match ops with
  | [] => (t, [])
  | o :: r => let '(t1, st) := i_step t o in
              let '(t2, sts) := i_run t1 r in (t2, st :: sts)
  end.
Definition i_view (t : ideal) (k nm : string) : option Z :=
  match i_get nm t with Some (k', p) => if String.eqb k' k then Some p else None | None => None end.

(* the index-preserving histories: an existing sibling is overwritten only when it is the LAST slot of its kind *)
Definition order_safe (s : parent) (o : op) : bool :=
  match o with
  | OWrite k nm _ => match find_slot nm (mget k (p_mir s)) with
                     | Some i => Nat.eqb (S i) (List.length (mget k (p_mir s)))
                     | None => true
                     end
  | _ => true
  end.
Fixpoint hist_order_safe (sk : string -> bool) (disp : string -> string -> daction) (s : parent) (ops : list op) : bool :=
  match ops with
  | [] => true
  | o :: r => order_safe s o && hist_order_safe sk disp (fst (step sk disp s o)) r
  end.

Definition op_names_ok (kok nok : string -> bool) (o : op) : bool :=
  match o with OWrite k nm _ | OUpdate k nm _ | OLink k nm _ => kok k && nok nm | ODelete nm => nok nm | OReopen => true end.

(* ================================================================================================ PART B *)
(* rows of the dispatcher of cg_delete_node as Gen_C04.v lists them *)
Inductive dtest := TLabel (l : string) | TName (n : string) | TNameIf (n field : string) | TPLabelName (pl n : string).
Inductive sact :=
| Shift (cnt arr free : string) (custom : bool)
| Child (ptr free : string) (custom : bool)
| Scalar (fields : list string)
| GuardedShift (cnt arr free : string)
| UnparsedAct (why : string).
Inductive drow := DRow (tests : list dtest) (acts : list sact) (extra : list string) | DUnparsedRow (why : string).
Inductive dblock := DBlock (parents : list string) (pty : string) (rows : list drow) | DUnparsedBlock (why : string).
Inductive ndrow := ND (parent : string) (t : dtest) | NDUnparsed (why : string).
Inductive wrow := WRow (fn pvar : string) (cnts arrs : list string) (free ty : string) (ret : bool) (made : string)
                | WOther (fn why : string).
Inductive atail := ATail (fn ty var free : string) | ATailOther (fn why : string).
Inductive nrow := NRow (fn resolver var how : string).

Definition smem := Goto.mem.

Definition test_matches (pl nl nn : string) (t : dtest) : bool :=
  match t with
  | TLabel l => String.eqb nl l
  | TName n => String.eqb nn n
  | TNameIf _ _ => false     (* "node_name == N && parent->field": fires only while the single child kept in `field` exists;
                                that child is then THE node called N (sibling names are unique), so for a node that is a
                                member of one of the arrays -- the only nodes [disp_of] is asked about -- the test is false *)
  | TPLabelName p n => String.eqb pl p && String.eqb nn n
  end.
Definition row_matches (pl nl nn : string) (r : drow) : bool :=
  match r with DRow ts _ _ => existsb (test_matches pl nl nn) ts | DUnparsedRow _ => false end.
Definition refused (nd : list ndrow) (pl nl nn : string) : bool :=
  existsb (fun r => match r with ND p t => String.eqb pl p && test_matches pl nl nn t | NDUnparsed _ => false end) nd.
Definition dblock_matches (pl : string) (b : dblock) : bool :=
  match b with DBlock ps _ _ => smem pl ps | DUnparsedBlock _ => false end.
Definition find_dblock (dt : list dblock) (pl : string) : option dblock := find (dblock_matches pl) dt.

(* the child label that owns array [arr] of parent [pl] on the READ side: first label of the goto arm that walks it *)
Definition alt_arr (a : Goto.alt) : option string :=
  match a with Goto.AMulti _ al _ _ _ _ _ _ _ _ _ => Some al | Goto.ASingle _ _ _ _ _ _ _ => None end.
Definition arm_owner (arr : string) (a : Goto.arm) : option string :=
  match a with
  | Goto.Arm (c :: _) [alt] => match alt_arr alt with
                               | Some al => if String.eqb al arr then Some c else None
                               | None => None
                               end
  | _ => None
  end.
Fixpoint first_some {A B} (f : A -> option B) (l : list A) : option B :=
  match l with [] => None | x :: r => match f x with Some y => Some y | None => first_some f r end end.
Definition owner_label (gt : list Goto.brow) (pl arr : string) : option string :=
  match Goto.find_block gt pl with
  | Some (Goto.Block _ _ arms) => first_some (arm_owner arr) arms
  | _ => None
  end.

Definition acts_action (gt : list Goto.brow) (pl nl : string) (acts : list sact) : daction :=
  match acts with
  | [Shift _ arr _ _] => match owner_label gt pl arr with Some l => DShift l | None => DShift nl end
  | [GuardedShift _ arr _] => DOther 0
  | _ => DOther 0
  end.

(* the arm cg_delete_node takes for a node labelled [nl] and called [nn] under a parent labelled [pl] *)
Definition disp_of (dt : list dblock) (nd : list ndrow) (gt : list Goto.brow) (pl nl nn : string) : daction :=
  if refused nd pl nl nn then DRefuse else
  match find_dblock dt pl with
  | Some (DBlock _ _ rows) =>
      match find (row_matches pl nl nn) rows with
      | Some (DRow _ acts _) => acts_action gt pl nl acts
      | _ => DOther 0                                           (* no arm: nothing happens in memory, CG_OK *)
      end
  | _ => DOther 1                                               (* "Unrecognized label": CG_ERROR, node already deleted *)
  end.

(* ---- the same with the name tests switched off: what happens to a node whose name is no reserved word *)
Definition test_is_label (nl : string) (t : dtest) : bool :=
  match t with TLabel l => String.eqb nl l | _ => false end.
Definition row_matches_lab (nl : string) (r : drow) : bool :=
  match r with DRow ts _ _ => existsb (test_is_label nl) ts | DUnparsedRow _ => false end.
Definition refused_lab (nd : list ndrow) (pl nl : string) : bool :=
  existsb (fun r => match r with ND p t => String.eqb pl p && test_is_label nl t | NDUnparsed _ => false end) nd.
Definition disp_lab (dt : list dblock) (nd : list ndrow) (gt : list Goto.brow) (pl nl : string) : daction :=
  if refused_lab nd pl nl then DRefuse else
  match find_dblock dt pl with
  | Some (DBlock _ _ rows) =>
      match find (row_matches_lab nl) rows with
      | Some (DRow _ acts _) => acts_action gt pl nl acts
      | _ => DOther 0
      end
  | _ => DOther 1
  end.

Definition test_names (t : dtest) : list string :=
  match t with TLabel _ => [] | TName n => [n] | TNameIf n _ => [n] | TPLabelName _ n => [n] end.
Definition row_names (r : drow) : list string :=
  match r with DRow ts _ _ => List.concat (map test_names ts) | DUnparsedRow _ => [] end.
(* the reserved names under a parent labelled [pl]: every name some arm or the refusal list compares with *)
Definition reserved_names (dt : list dblock) (nd : list ndrow) (pl : string) : list string :=
  match find_dblock dt pl with
  | Some (DBlock _ _ rows) => List.concat (map row_names rows)
  | _ => []
  end ++
  List.concat (map (fun r => match r with ND p t => if String.eqb pl p then test_names t else [] | NDUnparsed _ => [] end) nd).

Definition daction_eqb (a b : daction) : bool :=
  match a, b with
  | DShift x, DShift y => String.eqb x y
  | DRefuse, DRefuse => true
  | DOther x, DOther y => Z.eqb x y
  | _, _ => false
  end.

(* arrays the goto table walks with a name loop although they can hold one fixed-name element only (cgi_array_address
   refuses every DataArray_t name but GravityVector under Gravity_t, and the refusal list protects that one) *)
Definition fixed_name_arrays : list (string * string) := [("Gravity_t", "DataArray_t")].
Definition is_fixed_name (pl l : string) : bool :=
  existsb (fun x => String.eqb (fst x) pl && String.eqb (snd x) l) fixed_name_arrays.

(* the sibling kinds of a parent: the child labels the goto table walks with a name loop, and the labels with a
   label-selected shift arm *)
Definition arm_multi_labels (a : Goto.arm) : list string :=
  match a with
  | Goto.Arm cs [Goto.AMulti _ _ _ _ _ _ _ _ _ _ _] => cs
  | _ => []
  end.
Definition goto_multi_labels (gt : list Goto.brow) (pl : string) : list string :=
  match Goto.find_block gt pl with
  | Some (Goto.Block _ _ arms) => List.concat (map arm_multi_labels arms)
  | _ => []
  end.
Definition test_labels (t : dtest) : list string := match t with TLabel l => [l] | _ => [] end.
Definition row_shift_labels (r : drow) : list string :=
  match r with
  | DRow ts [Shift _ _ _ _] _ => List.concat (map test_labels ts)
  | _ => []
  end.
Definition delete_shift_labels (dt : list dblock) (pl : string) : list string :=
  match find_dblock dt pl with
  | Some (DBlock _ _ rows) => List.concat (map row_shift_labels rows)
  | _ => []
  end.
Fixpoint dedup (l : list string) : list string :=
  match l with [] => [] | x :: r => if smem x r then dedup r else x :: dedup r end.
Definition candidate_kinds (dt : list dblock) (gt : list Goto.brow) (pl : string) : list string :=
  dedup (goto_multi_labels gt pl ++ delete_shift_labels dt pl).
(* the kinds for which deleting a sibling with an unreserved name shifts the array of that very kind *)
Definition sound_kinds (dt : list dblock) (nd : list ndrow) (gt : list Goto.brow) (pl : string) : list string :=
  filter (fun l => daction_eqb (disp_lab dt nd gt pl l) (DShift l)) (candidate_kinds dt gt pl).
(* the kinds for which it does something else (refusal and arrays shared by two labels of one goto arm are fine) *)
Definition shares_arm (gt : list Goto.brow) (pl l : string) (a : daction) : bool :=
  match a, Goto.find_block gt pl with
  | DShift l', Some (Goto.Block _ _ arms) =>
      existsb (fun arm => match arm with Goto.Arm cs _ => smem l cs && smem l' cs | _ => false end) arms
  | _, _ => false
  end.
Definition unsound_kinds (dt : list dblock) (nd : list ndrow) (gt : list Goto.brow) (pl : string) : list string :=
  filter (fun l => negb (daction_eqb (disp_lab dt nd gt pl l) (DShift l) || daction_eqb (disp_lab dt nd gt pl l) DRefuse
                         || shares_arm gt pl l (disp_lab dt nd gt pl l) || is_fixed_name pl l))
         (candidate_kinds dt gt pl).

(* (parent, kind, reserved name) triples for which a sibling of a sound kind, when it carries that name, is NOT
   removed from its array although the file node is deleted: an earlier name-selected arm shadows the label arm *)
Definition shadowed_at (dt : list dblock) (nd : list ndrow) (gt : list Goto.brow) (pl : string)
  : list (string * string * string) :=
  List.concat (map (fun l =>
     List.concat (map (fun nm => if daction_eqb (disp_of dt nd gt pl l nm) (DShift l)
                                   || daction_eqb (disp_of dt nd gt pl l nm) DRefuse then [] else [(pl, l, nm)])
                      (dedup (reserved_names dt nd pl))))
     (sound_kinds dt nd gt pl)).

Definition all_positions (gt : list Goto.brow) : list string := dedup (Goto.all_labels gt).
Definition shadowed (dt : list dblock) (nd : list ndrow) (gt : list Goto.brow) : list (string * string * string) :=
  List.concat (map (shadowed_at dt nd gt) (all_positions gt)).
(* positions the goto machinery can reach (and cg_delete_node can therefore be called at) without a dispatcher block *)
Definition positions_without_block (dt : list dblock) (gt : list Goto.brow) : list string :=
  filter (fun l => match find_dblock dt l with Some _ => false | None => true end) (all_positions gt).
(* leaf positions: labels that have no goto block of their own have no children the API can create *)
Definition positions_with_children (gt : list Goto.brow) : list string :=
  dedup (List.concat (map Goto.block_parents gt)).
(* ... the ones that matter: a position that can hold children and has no block (the child is deleted from the file,
   "Unrecognized label" is returned, the session keeps it) *)
Definition parents_without_block (dt : list dblock) (gt : list Goto.brow) : list string :=
  filter (fun l => smem l (positions_with_children gt)) (positions_without_block dt gt).

(* ---- single children (CGNS_DELETE_CHILD arms): by what does the dispatcher select them?
   The mirror keeps a single child of kind (label) L in a pointer field; on read it is found BY LABEL (or, for a few, by a
   reserved name the reader itself compares with).  cg_delete_node has removed the node the user NAMED from the file; the
   arm that frees the pointer must fire for that node whatever it is called.  An arm that tests node_name is right only
   for a kind every writer creates under that literal name; a kind whose name the caller chooses (cg_biter_write,
   cg_ziter_write, cg_piter_write take the name) needs the arm that tests node_label. *)
Inductive cnames := CNames (parent label : string) (names : option (list string)) | CNamesUnparsed (why : string).

Definition names_of (cn : list cnames) (pl l : string) : option (option (list string)) :=
  first_some (fun r => match r with
                       | CNames p l' ns => if String.eqb p pl && String.eqb l' l then Some ns else None
                       | CNamesUnparsed _ => None
                       end) cn.

Definition act_children (acts : list sact) : list string :=
  List.concat (map (fun a => match a with Child p _ _ => [p] | _ => [] end) acts).
(* the pointer fields the dispatcher frees for a node labelled nl and called nn under a parent labelled pl *)
Definition disp_single (dt : list dblock) (nd : list ndrow) (pl nl nn : string) : list string :=
  if refused nd pl nl nn then [] else
  match find_dblock dt pl with
  | Some (DBlock _ _ rows) => match find (row_matches pl nl nn) rows with Some (DRow _ acts _) => act_children acts | _ => [] end
  | _ => []
  end.
Definition disp_single_lab (dt : list dblock) (nd : list ndrow) (pl nl : string) : list string :=
  if refused_lab nd pl nl then [] else
  match find_dblock dt pl with
  | Some (DBlock _ _ rows) => match find (row_matches_lab nl) rows with Some (DRow _ acts _) => act_children acts | _ => [] end
  | _ => []
  end.

(* the single children the goto table knows under pl: (label, pointer field) *)
Definition alt_single (a : Goto.alt) : option string :=
  match a with Goto.ASingle _ _ pp _ _ _ _ => Some pp | Goto.AMulti _ _ _ _ _ _ _ _ _ _ _ => None end.
Definition arm_singles (a : Goto.arm) : list (string * string) :=
  match a with
  | Goto.Arm cs alts => List.concat (map (fun c => List.concat (map (fun x => match alt_single x with Some p => [(c, p)] | None => [] end) alts)) cs)
  | _ => []
  end.
Definition goto_singles (gt : list Goto.brow) (pl : string) : list (string * string) :=
  match Goto.find_block gt pl with
  | Some (Goto.Block _ _ arms) => List.concat (map arm_singles arms)
  | _ => []
  end.

Definition rows_of (dt : list dblock) (pl : string) : list drow :=
  match find_dblock dt pl with Some (DBlock _ _ rows) => rows | _ => [] end.
Definition row_frees (ptr : string) (r : drow) : bool :=
  match r with DRow _ acts _ => smem ptr (act_children acts) | DUnparsedRow _ => false end.
Definition row_name_lits (r : drow) : list string := row_names r.
Definition row_has_label_test (r : drow) : bool :=
  match r with DRow ts _ _ => existsb (fun t => match t with TLabel _ => true | _ => false end) ts | _ => false end.

(* a single child (l, ptr) of pl that some arm frees is dispatched correctly when
     - its kind is created under fixed literal names only, and for each of them the arm taken frees ptr (or the name is refused);
     - or (name chosen by the caller, or no writer row) the arm selected by the LABEL alone frees ptr;
     - or the arm is by name and every name it tests is one the READER itself identifies the child by. *)
Definition single_ok (cn : list cnames) (rnt : list string) (dt : list dblock) (nd : list ndrow) (pl : string)
           (lp : string * string) : bool :=
  let '(l, ptr) := lp in
  let rows := filter (row_frees ptr) (rows_of dt pl) in
  match rows with
  | [] => true
  | _ =>
      match names_of cn pl l with
      | Some (Some ((_ :: _) as names)) =>
          (* (the writers' literals are per label, not per parent: GlobalConvergenceHistory / ZoneConvergenceHistory) some
             literal is dispatched to ptr, and none is dispatched to ANOTHER pointer *)
          existsb (fun n => refused nd pl l n || smem ptr (disp_single dt nd pl l n)) names
          && forallb (fun n => match disp_single dt nd pl l n with [] => true | ps => smem ptr ps end) names
      | _ =>
          smem ptr (disp_single_lab dt nd pl l)
          || forallb (fun r => negb (row_has_label_test r) && forallb (fun n => smem n rnt) (row_name_lits r)) rows
      end
  end.
Definition bad_singles (cn : list cnames) (rnt : list string) (dt : list dblock) (nd : list ndrow) (gt : list Goto.brow)
  : list (string * string * string) :=
  List.concat (map (fun pl => map (fun lp => (pl, fst lp, snd lp))
                                  (filter (fun lp => negb (single_ok cn rnt dt nd pl lp)) (goto_singles gt pl)))
                   (all_positions gt)).
(* the single children whose NAME the caller chooses and that some arm frees (not counting the children the READER tells
   by name): the histories must give them other names than the default ones.  Deliberately independent of HOW the arm
   selects them. *)
Definition user_named_singles (cn : list cnames) (rnt : list string) (dt : list dblock) (gt : list Goto.brow)
  : list (string * string * string) :=
  List.concat (map (fun pl => map (fun lp => (pl, fst lp, snd lp))
                                  (filter (fun lp => match names_of cn pl (fst lp) with
                                                     | Some (Some (_ :: _)) => false
                                                     | _ => let rows := filter (row_frees (snd lp)) (rows_of dt pl) in
                                                            negb (match rows with [] => true | _ => false end)
                                                            && negb (forallb (fun r => negb (row_has_label_test r)
                                                                                && negb (match row_name_lits r with [] => true | _ => false end)
                                                                                && forallb (fun n => smem n rnt) (row_name_lits r)) rows)
                                                     end) (goto_singles gt pl)))
                   (all_positions gt)).
(* ... those of them that the arm selected by the label alone frees *)
Definition label_freed_singles (cn : list cnames) (rnt : list string) (dt : list dblock) (nd : list ndrow) (gt : list Goto.brow)
  : list (string * string * string) :=
  filter (fun t => let '(pl, l, ptr) := t in smem ptr (disp_single_lab dt nd pl l)) (user_named_singles cn rnt dt gt).
(* ... and the reserved names under which such a child would NOT be freed although the label arm exists: a name arm
   precedes it (same family as [shadowed]) *)
Definition shadowed_singles (cn : list cnames) (rnt : list string) (dt : list dblock) (nd : list ndrow) (gt : list Goto.brow)
  : list (string * string * string) :=
  List.concat (map (fun t => let '(pl, l, ptr) := t in
                       List.concat (map (fun nm => if smem ptr (disp_single dt nd pl l nm) || refused nd pl l nm then [] else [(pl, l, nm)])
                                        (dedup (reserved_names dt nd pl))))
                   (label_freed_singles cn rnt dt nd gt)).
(* every NAME an arm of block pl compares with is the fixed name of some child kind of pl (all its writers use that
   literal), or a name the reader itself identifies a child by *)
Definition fixed_name_under (cn : list cnames) (pl n : string) : bool :=
  existsb (fun r => match r with CNames p _ (Some ns) => String.eqb p pl && smem n ns | _ => false end) cn.
Definition unjustified_names (cn : list cnames) (rnt : list string) (dt : list dblock) : list (string * string) :=
  List.concat (map (fun b => match b with
     | DBlock ps _ rows =>
         (* (a block shared by two parent labels -- BCDataSet_t / FamilyBCDataSet_t -- needs the justification under one) *)
         map (fun n => (match ps with p :: _ => p | [] => "?" end, n))
             (filter (fun n => negb (existsb (fun p => fixed_name_under cn p n) ps || smem n rnt))
                     (dedup (List.concat (map row_names rows))))
     | DUnparsedBlock _ => [] end) dt).
Definition cnames_parsed (cn : list cnames) : bool :=
  forallb (fun r => match r with CNames _ _ _ => true | CNamesUnparsed _ => false end) cn && Nat.leb 100 (List.length cn).
Definition singles_ok (cn : list cnames) (rnt : list string) (dt : list dblock) (nd : list ndrow) (gt : list Goto.brow) : bool :=
  cnames_parsed cn && match bad_singles cn rnt dt nd gt with [] => true | _ => false end
  && match unjustified_names cn rnt dt with [] => true | _ => false end.

(* ---- decidable consistency of the regenerated tables *)
Definition expected_preamble : list string :=
  ["CHECK_FILE_OPEN"; "mode_is_modify"; "cgi_posit_id"; "cgio_get_node_id(posit_id,node_name)"; "cgio_get_label(node_id)";
   "refuse"; "cgi_delete_node(posit_id,node_id)"; "dispatch"; "return CG_OK"].
Definition expected_macro_shift : string :=
  "(nchild,child,func_free) { for ( n = 0 ; n < parent -> nchild && strcmp ( parent -> child [ n ] . name , node_name ) ; n ++ ) ; if ( n == parent -> nchild ) { cgi_error ( ""Error in cg_delete: Can't find node '%s'"" , node_name ) ; return 1 ; } func_free ( & parent -> child [ n ] ) ; for ( m = n + 1 ; m < parent -> nchild ; m ++ ) parent -> child [ m - 1 ] = parent -> child [ m ] ; if ( -- parent -> nchild == 0 ) { free ( parent -> child ) ; parent -> child = 0 ; } }".
Definition expected_macro_child : string :=
  "(child,func_free) { if ( parent -> child ) { func_free ( parent -> child ) ; free ( parent -> child ) ; } parent -> child = 0 ; }".

Fixpoint list_eqb (a b : list string) : bool :=
  match a, b with
  | [], [] => true
  | x :: r, y :: t => String.eqb x y && list_eqb r t
  | _, _ => false
  end.

Definition sassoc := @Goto.assoc.

Definition frees_type (fs : list (string * string)) (free ty : string) : bool :=
  match sassoc string free fs with Some t => String.eqb t ty | None => false end.

Definition sact_ok (ss : Goto.structs_t) (fs : list (string * string)) (pty : string) (a : sact) : bool :=
  let fl := Goto.struct_fields ss pty in
  match a with
  | Shift cnt arr free _ | GuardedShift cnt arr free =>
      Goto.adjacent fl cnt arr &&
      match Goto.ptr_type ss pty arr with Some t => frees_type fs free t | None => false end
  | Child ptr free _ =>
      match Goto.ptr_type ss pty ptr with Some t => frees_type fs free t | None => false end
  | Scalar fields => forallb (fun f => match sassoc _ f fl with Some _ => true | None => false end) fields
  | UnparsedAct _ => false
  end.

(* the side tables that must follow a shift: the zone / particle-zone name maps, nothing anywhere else *)
Definition extra_ok (acts : list sact) (extra : list string) : bool :=
  match acts with
  | [Shift _ "zone" _ _] => list_eqb extra ["zonemap"]
  | [Shift _ "pzone" _ _] => list_eqb extra ["pzonemap"]
  | [Shift _ "dataset" _ true] => list_eqb extra ["unshare_ptset"]
  | [Shift _ "zconn" _ _] => list_eqb extra [] || list_eqb extra ["active_zconn"]   (* with / without the renumbering of the
                                                                                        current container (zone->active_zconn) *)
  | _ => list_eqb extra []
  end.
(* does the arm that deletes a ZoneGridConnectivity_t renumber zone->active_zconn? *)
Definition zconn_arm_keeps_current (dt : list dblock) : bool :=
  existsb (fun b => match b with
                    | DBlock _ _ rows => existsb (fun r => match r with
                                                           | DRow _ [Shift _ "zconn" _ _] extra => list_eqb extra ["active_zconn"]
                                                           | _ => false end) rows
                    | DUnparsedBlock _ => false end) dt.

Definition drow_ok (ss : Goto.structs_t) (fs : list (string * string)) (pty : string) (r : drow) : bool :=
  match r with
  | DRow ts acts extra => negb (match ts with [] => true | _ => false end)
                          && forallb (fun t => match t with
                                               | TNameIf _ f => match Goto.ptr_type ss pty f with Some _ => true | None => false end
                                               | _ => true end) ts
                          && negb (match acts with [] => true | _ => false end)
                          && forallb (sact_ok ss fs pty) acts && extra_ok acts extra
  | DUnparsedRow _ => false
  end.

(* every child label the goto table walks with a name loop under [pl] is shifted -- by its label arm -- in the very
   (count, array) pair the goto arm uses *)
Definition row_shift_of (nl : string) (rows : list drow) : option (string * string) :=
  match find (row_matches_lab nl) rows with
  | Some (DRow _ [Shift cnt arr _ _] _) => Some (cnt, arr)
  | _ => None
  end.
Definition arm_delete_ok (nd : list ndrow) (pl : string) (rows : list drow) (a : Goto.arm) : bool :=
  match a with
  | Goto.Arm cs [Goto.AMulti cl al _ _ _ _ _ _ _ _ _] =>
      forallb (fun l => refused_lab nd pl l || is_fixed_name pl l ||
                        match row_shift_of l rows with
                        | Some (cnt, arr) => String.eqb cnt cl && String.eqb arr al
                        | None => false
                        end) cs
  | _ => true
  end.

Definition dblock_ok (ss : Goto.structs_t) (fs : list (string * string)) (nd : list ndrow) (gt : list Goto.brow)
           (b : dblock) : bool :=
  match b with
  | DBlock ps pty rows =>
      negb (match ps with [] => true | _ => false end)
      && forallb (drow_ok ss fs pty) rows
      (* the cast is the struct type the goto table pushes under each of these labels *)
      && forallb (fun p => forallb (String.eqb pty) (Goto.label_types ss gt p)) ps
      && forallb (fun p => match Goto.find_block gt p with
                           | Some (Goto.Block _ gpty arms) => String.eqb gpty pty && forallb (arm_delete_ok nd p rows) arms
                           | _ => true
                           end) ps
  | DUnparsedBlock _ => false
  end.

Definition ndrow_ok (r : ndrow) : bool := match r with ND _ _ => true | NDUnparsed _ => false end.

Definition delete_table_ok (ss : Goto.structs_t) (gt : list Goto.brow) (fs : list (string * string))
           (pre : list string) (tail msh mch : string) (nd : list ndrow) (dt : list dblock) : bool :=
  list_eqb pre expected_preamble && String.eqb tail "error"
  && String.eqb msh expected_macro_shift && String.eqb mch expected_macro_child
  && forallb ndrow_ok nd && forallb (dblock_ok ss fs nd gt) dt
  && Goto.nodupb (List.concat (map (fun b => match b with DBlock ps _ _ => ps | _ => [] end) dt)).

(* the overwrite loops of the writers: every use of the count and of the array names the same pair, the pair is a
   (count, array) pair of some struct whose elements have the type the loop allocates, and the slot is freed with the
   free function of that type (no free function: the element owns no memory -- cgns_famname) *)
Definition all_eqb (l : list string) : bool :=
  match l with [] => false | x :: r => forallb (String.eqb x) r end.
Definition pair_of_struct (ss : Goto.structs_t) (cnt arr ty : string) : bool :=
  existsb (fun st => Goto.adjacent (snd st) cnt arr &&
                     match sassoc _ arr (snd st) with Some (Goto.FPtr t) => String.eqb t ty | _ => false end) ss.
Definition wrow_ok (ss : Goto.structs_t) (fs : list (string * string)) (r : wrow) : bool :=
  match r with
  | WRow fn _ cnts arrs free ty _ made =>
      (* the database id of the re-created / appended node is stored in the slot (cg_subreg_write leaves the creation
         to its three callers) *)
      (String.eqb made "slot" || String.eqb fn "cg_subreg_write") &&
      all_eqb cnts && all_eqb arrs && Nat.eqb (List.length cnts) 7 && Nat.eqb (List.length arrs) 7
      && match cnts, arrs with c :: _, a :: _ => pair_of_struct ss c a ty | _, _ => false end
      && (if String.eqb free "" then String.eqb ty "cgns_famname" else frees_type fs free ty)
  | WOther _ _ => true
  end.
Definition wother_names (t : list wrow) : list string :=
  List.concat (map (fun r => match r with WOther f _ => [f] | _ => [] end) t).
Definition expected_wother : list string := ["cg_base_write"; "cg_family_write"].
Definition write_table_ok (ss : Goto.structs_t) (fs : list (string * string)) (t : list wrow) : bool :=
  forallb (wrow_ok ss fs) t && list_eqb (wother_names t) expected_wother
  && Nat.leb 20 (List.length t).

Definition atail_ok (fs : list (string * string)) (r : atail) : bool :=
  match r with
  | ATail _ ty _ free => if String.eqb free "" then String.eqb ty "cgns_famname" else frees_type fs free ty
  | ATailOther _ _ => true
  end.
Definition atail_other_names (t : list atail) : list string :=
  List.concat (map (fun r => match r with ATailOther f _ => [f] | _ => [] end) t).
Definition expected_atail_other : list string := ["cgi_diffusion_address"].
Definition addr_tails_ok (fs : list (string * string)) (t : list atail) : bool :=
  forallb (atail_ok fs) t && list_eqb (atail_other_names t) expected_atail_other && Nat.leb 15 (List.length t).

(* Re-used slots.  On overwrite a cgi_*_address resolver hands back the OLD struct: cgi_delete_node on its id, cgi_free_X
   (which frees what the struct points to but clears nothing), and the writer fills it again.  Whatever field the writer
   does not set keeps the value of the entity that was replaced, in the session only.  A row is right when the writer
   memsets the struct, or every field of the struct type is
     - set by the writer, or
     - a pointer whose element count -- the int declared immediately before it -- is set (a pointer is only read under
       its count), or
     - in_link (meaningful only for structs read from a file; new nodes are never inside a link), or
     - one of the explicit exceptions below. *)
Inductive rrow := RRow (fn resolver ty : string) (memset : bool) (assigned : list string).
(* set by the resolver itself (cgi_converg_address copies the fixed name) / never filled by any writer (the point list and
   the element range are read from the file on demand) *)
Definition reinit_elsewhere : list (string * string) :=
  [("cg_convergence_write", "name"); ("cg_ptset_write", "data"); ("cg_array_write", "range")].
(* OPEN FINDING overwrite-keeps-attribute:DimensionalUnits_t:un -- cg_units_write sets five of the eight units; after a
   cg_unitsfull_write the other three survive in the session.  Harmless once repaired (the fields are then assigned). *)
Definition reinit_open_gaps : list (string * string) :=
  [("cg_units_write", "current"); ("cg_units_write", "amount"); ("cg_units_write", "intensity")].
Definition pair_mem (fn f : string) (l : list (string * string)) : bool :=
  existsb (fun x => String.eqb (fst x) fn && String.eqb (snd x) f) l.
Fixpoint counted_by (fl : list (string * Goto.ftype)) (assigned : list string) (f : string) : bool :=
  match fl with
  | (c, Goto.FInt) :: (((a, Goto.FPtr _) :: _) as t) => (String.eqb a f && smem c assigned) || counted_by t assigned f
  | _ :: t => counted_by t assigned f
  | [] => false
  end.
Definition unset_fields (ss : Goto.structs_t) (r : rrow) : list string :=
  match r with
  | RRow fn _ ty memset assigned =>
      if memset then [] else
      let fl := Goto.struct_fields ss ty in
      map fst (filter (fun ft => negb (smem (fst ft) assigned || String.eqb (fst ft) "in_link" || counted_by fl assigned (fst ft)
                                       || pair_mem fn (fst ft) reinit_elsewhere || pair_mem fn (fst ft) reinit_open_gaps)) fl)
  end.
Definition rrow_ok (ss : Goto.structs_t) (r : rrow) : bool := match unset_fields ss r with [] => true | _ => false end.
Definition reinit_ok (ss : Goto.structs_t) (t : list rrow) : bool := forallb (rrow_ok ss) t && Nat.leb 20 (List.length t).
Definition bad_rrows (ss : Goto.structs_t) (t : list rrow) : list (string * list string) :=
  List.concat (map (fun r => match unset_fields ss r, r with [], _ => [] | l, RRow fn _ _ _ _ => [(fn, l)] end) t).

(* what is ordered by name when a file is read: exactly the two arrays [cgns_sorted] says, with strcmp *)
Definition expected_sort_calls : list string :=
  ["cgi_read_base: base -> nzones / sort_childnode_names"; "cgi_read_base: base -> npzones / sort_childnode_names"].
Definition sorting_ok (calls : list string) (cmp : string) (callers : list string) : bool :=
  list_eqb calls expected_sort_calls && String.eqb cmp "return ( strcmp ( p1 -> name , p2 -> name ) )" && list_eqb callers [].

(* ---- links.  cg_link_write as data: the labels its white list accepts, the functions it calls, the lvalues it changes.
   [link_new] is its transcription only while it does what is listed here: create the link node, count it, touch no array. *)
Definition expected_link_calls : list string :=
  ["cgi_check_mode"; "cgi_posit_id"; "strcmp"; "cgi_error"; "printf"; "cgio_create_link"; "cg_io_error"].
Fixpoint nodup_strings (l : list string) : bool :=
  match l with [] => true | x :: r => negb (smem x r) && nodup_strings r end.
Definition link_writer_ok (gt : list Goto.brow) (parents calls assigns : list string) : bool :=
  list_eqb calls expected_link_calls && list_eqb assigns ["( cg -> added ) ++"] &&
  forallb (fun l => smem l (all_positions gt)) parents && nodup_strings parents && Nat.leb 40 (List.length parents).
(* the child labels cg_goto / cg_gorel accept below a position labelled pl (only there can cg_is_link be asked) *)
Definition goto_children (gt : list Goto.brow) (pl : string) : list string :=
  match Goto.find_block gt pl with
  | Some (Goto.Block _ _ arms) =>
      dedup (List.concat (map (fun a => match a with Goto.Arm cs _ => cs | Goto.UnparsedArm _ _ => [] end) arms))
  | _ => []
  end.
(* cg_link_write at a position labelled pl: "Links not supported under '%s' type node" unless pl is on the white list *)
Definition link_at (parents : list string) (pl : string) (s : parent) (k nm : string) (p : Z) : parent * Z :=
  if smem pl parents then link_new s k nm p else (s, 1).
Definition bad_link_parents (gt : list Goto.brow) (parents : list string) : list string :=
  filter (fun l => negb (smem l (all_positions gt))) parents.

(* the tree copy behind compress-on-close (cgns_io.c recurse_nodes, called by rewrite_file with follow_links = 0) and behind
   cgio_copy_file: the condition under which a child that is a link is created again AS A LINK, over the three C variables
   name_len (non-zero = the child is a link), file_len (zero = the link stays in this file) and follow_links *)
Inductive bexp := BNe0 (x : string) | BEq0 (x : string) | BAnd (a b : bexp) | BOr (a b : bexp) | BNot (a : bexp)
                | BUnparsed (why : string).
Fixpoint beval (zero : string -> bool) (e : bexp) : bool :=
  match e with
  | BNe0 x => negb (zero x)
  | BEq0 x => zero x
  | BAnd a b => beval zero a && beval zero b
  | BOr a b => beval zero a || beval zero b
  | BNot a => negb (beval zero a)
  | BUnparsed _ => false
  end.
Fixpoint bexp_vars (e : bexp) : list string :=
  match e with
  | BNe0 x | BEq0 x => [x]
  | BAnd a b | BOr a b => bexp_vars a ++ bexp_vars b
  | BNot a => bexp_vars a
  | BUnparsed w => ["UNPARSED"]
  end.
(* is the variable zero?  for a child that is / is not a link, into this / another file, with follow_links set or not *)
Definition copy_env (is_link same_file follow : bool) (x : string) : bool :=
  if String.eqb x "name_len" then negb is_link
  else if String.eqb x "file_len" then same_file
  else if String.eqb x "follow_links" then negb follow
  else false.
Definition expected_copy_callers : list string :=
  ["recurse_nodes: follow_links"; "rewrite_file: 0"; "cgio_copy_file: follow_links"].
Definition copy_keeps_links (g : bexp) (else_recurses : bool) (callers : list string) : bool :=
  forallb (fun x => smem x ["name_len"; "file_len"; "follow_links"]) (bexp_vars g) && else_recurses &&
  (* compress (follow_links = 0): EVERY link -- into this file or another -- is created again as a link *)
  beval (copy_env true true false) g && beval (copy_env true false false) g &&
  (* following links: a link inside the file stays a link, a link into another file is expanded *)
  beval (copy_env true true true) g && negb (beval (copy_env true false true) g) &&
  (* a child that is no link is never turned into one *)
  forallb (fun sf => forallb (fun fo => negb (beval (copy_env false sf fo) g)) [true; false]) [true; false] &&
  list_eqb callers expected_copy_callers.

(* cgio_compute_data_size (cgns_io.c): the bytes per element the node copy of compress-on-close (cgio_copy_node) allocates and
   moves, per data type: one byte for B1 / C1 (the function returns CG_ERROR, which is 1), 4 / 8 for I, U, R, twice that for X *)
Definition expected_data_size_rows : list string :=
  ["BC: CG_ERROR"; "IU4: sizeof ( int )"; "IU8: sizeof ( cglong_t )"; "R4: sizeof ( float )"; "R8: sizeof ( double )";
   "X4: ( 2 * sizeof ( float ) )"; "X8: ( 2 * sizeof ( double ) )"; "otherwise: CG_OK"].
Definition data_sizes_ok (rows : list string) : bool := list_eqb rows expected_data_size_rows.

(* diagnostics for the report *)
Definition bad_dblocks (ss : Goto.structs_t) (fs : list (string * string)) (nd : list ndrow) (gt : list Goto.brow)
           (dt : list dblock) : list string :=
  List.concat (map (fun b => if dblock_ok ss fs nd gt b then [] else
                             match b with DBlock (p :: _) _ _ => [p] | DBlock [] _ _ => ["?"] | DUnparsedBlock w => [w] end) dt).
Definition bad_wrows (ss : Goto.structs_t) (fs : list (string * string)) (t : list wrow) : list string :=
  List.concat (map (fun r => if wrow_ok ss fs r then [] else match r with WRow f _ _ _ _ _ _ _ => [f] | WOther f _ => [f] end) t).

(* node-context writers ( X = cgi_Y_address(CG_MODE_WRITE, ...) ): the id of the node they create must end up in X
   ("slot": cgi_new_node(..., &X->id ...); "helper": a cgi_write_* function that fills X->id); "none" is right only for
   the resolvers of plain values and single children that are found again by label, not by a stored id *)
Definition expected_none : list string :=
  ["cg_famname_write"; "cg_governing_write"; "cg_diffusion_write"; "cg_particle_governing_write"; "cg_conversion_write";
   "cg_dataclass_write"; "cg_gridlocation_write"; "cg_ordinal_write"; "cg_ptset_write"].
Definition nrow_ok (r : nrow) : bool :=
  match r with NRow fn _ _ how =>
    String.eqb how "slot" || String.eqb how "helper" || (String.eqb how "none" && smem fn expected_none)
  end.
Definition bad_nrows (t : list nrow) : list (string * string) :=
  List.concat (map (fun r => if nrow_ok r then [] else match r with NRow fn _ _ how => [(fn, how)] end) t).
