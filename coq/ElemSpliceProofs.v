(* ElemSpliceProofs.v -- lemmas and proofs about ElemSplice.v (C10).

   SPEC.  A section is (first, list of elements); an element is the list of its connectivity values.
   [splice ph f E s N] is defined POINTWISE: element i of the result is N[i-s] when i is addressed by the
   write, the old element E[i-f] when it existed, the placeholder [ph] otherwise; the result covers
   min(f,s) .. max(last, end).  It does not mention the three-way case split of the C code. *)
From Coq Require Import ZArith List Bool Lia.
From CgnsV Require Import ListX ElemSplice.
Import ListNotations.
Local Open Scope Z_scope.

(* ---- specification ------------------------------------------------------------------------------------ *)
Section Spec.
  Context {A : Type}.
  Definition elem_at (ph : A) (f : Z) (E : list A) (s : Z) (N : list A) (i : Z) : A :=
    if (s <=? i) && (i <? s + lenZ N) then nthZ N (i - s) ph
    else if (f <=? i) && (i <? f + lenZ E) then nthZ E (i - f) ph
    else ph.
  Definition splice_lo (f s : Z) : Z := Z.min f s.
  Definition splice_hi (f : Z) (E : list A) (s : Z) (N : list A) : Z := Z.max (f + lenZ E - 1) (s + lenZ N - 1).
  Definition splice (ph : A) (f : Z) (E : list A) (s : Z) (N : list A) : list A :=
    let lo := splice_lo f s in
    map (fun k => elem_at ph f E s N (lo + Z.of_nat k)) (seq 0 (Z.to_nat (splice_hi f E s N - lo + 1))).
  (* elements a .. b of a section starting at f *)
  Definition slice_elems (f : Z) (E : list A) (a b : Z) : list A :=
    firstn (Z.to_nat (b - a + 1)) (skipn (Z.to_nat (a - f)) E).

  (* the shape the C code builds *)
  Definition splice_struct (ph : A) (f : Z) (E : list A) (s : Z) (N : list A) : list A :=
    let l := f + lenZ E - 1 in
    let e := s + lenZ N - 1 in
    if e <? f then N ++ repeat ph (Z.to_nat (f - e - 1)) ++ E
    else if l <? s then E ++ repeat ph (Z.to_nat (s - l - 1)) ++ N
    else firstn (Z.to_nat (s - f)) E ++ N ++ skipn (Z.to_nat (e - f + 1)) E.
End Spec.

(* ---- generic list facts --------------------------------------------------------------------------------- *)
Lemma lenZ_app {A} (a b : list A) : lenZ (a ++ b) = lenZ a + lenZ b.
Proof. unfold lenZ. rewrite app_length. lia. Qed.
Lemma lenZ_nonneg {A} (a : list A) : 0 <= lenZ a.
Proof. unfold lenZ. lia. Qed.
Lemma lenZ_repeat {A} (x : A) n : lenZ (repeat x n) = Z.of_nat n.
Proof. unfold lenZ. now rewrite repeat_length. Qed.
Lemma lenZ_firstn {A} (l : list A) n : (n <= length l)%nat -> lenZ (firstn n l) = Z.of_nat n.
Proof. intros. unfold lenZ. rewrite firstn_length. lia. Qed.
Lemma lenZ_skipn {A} (l : list A) n : lenZ (skipn n l) = lenZ l - Z.of_nat (Nat.min n (length l)).
Proof. unfold lenZ. rewrite skipn_length. lia. Qed.

Lemma nth_map_seq {A} (g : nat -> A) n k d : (k < n)%nat -> nth k (map g (seq 0 n)) d = g k.
Proof.
  intros H. rewrite (nth_indep _ d (g 0%nat)) by (rewrite map_length, seq_length; lia).
  rewrite (map_nth g (seq 0 n) 0%nat k). now rewrite seq_nth.
Qed.

Lemma list_ext {A} (l1 l2 : list A) d :
  length l1 = length l2 -> (forall k, (k < length l1)%nat -> nth k l1 d = nth k l2 d) -> l1 = l2.
Proof.
  revert l2. induction l1 as [|x l1 IH]; intros [|y l2] HL HN; simpl in *; try lia; auto.
  f_equal. - apply (HN 0%nat). lia. - apply IH; [lia|]. intros k Hk. apply (HN (S k)). lia.
Qed.

Lemma nth_firstn {A} (l : list A) n k d : (k < n)%nat -> nth k (firstn n l) d = nth k l d.
Proof.
  revert n k. induction l as [|x l IH]; intros [|n] [|k] H; simpl; auto; try lia. apply IH. lia.
Qed.
Lemma nth_skipn {A} (l : list A) n k d : nth k (skipn n l) d = nth (n + k) l d.
Proof.
  revert n. induction l as [|x l IH]; intros [|n]; simpl; auto. destruct k; auto.
Qed.
Lemma nth_repeat {A} (x : A) n k : nth k (repeat x n) x = x.
Proof. revert k. induction n; intros [|k]; simpl; auto. Qed.

(* ---- spec = structure ------------------------------------------------------------------------------------ *)
Lemma splice_length {A} (ph : A) f E s N :
  length (splice ph f E s N) = Z.to_nat (splice_hi f E s N - splice_lo f s + 1).
Proof. unfold splice. now rewrite map_length, seq_length. Qed.

Lemma splice_is_struct {A} (ph : A) f E s N :
  E <> [] -> N <> [] -> splice ph f E s N = splice_struct ph f E s N.
Proof.
  intros HE HN.
  assert (LE : 0 < lenZ E) by (destruct E; [congruence|unfold lenZ; simpl; lia]).
  assert (LN : 0 < lenZ N) by (destruct N; [congruence|unfold lenZ; simpl; lia]).
  apply (list_ext _ _ ph).
  - rewrite splice_length. unfold splice_struct, splice_hi, splice_lo.
    destruct (Z.ltb_spec (s + lenZ N - 1) f); [|destruct (Z.ltb_spec (f + lenZ E - 1) s)];
      rewrite ?app_length, ?repeat_length, ?firstn_length, ?skipn_length; unfold lenZ in *; lia.
  - intros k Hk. rewrite splice_length in Hk. unfold splice.
    rewrite nth_map_seq by exact Hk.
    unfold elem_at, splice_struct, splice_hi, splice_lo in *. unfold nthZ.
    destruct (Z.ltb_spec (s + lenZ N - 1) f) as [C1|C1]; [|destruct (Z.ltb_spec (f + lenZ E - 1) s) as [C2|C2]].
    + (* before *)
      replace (Z.min f s) with s in * by lia.
      destruct (Nat.lt_ge_cases k (length N)) as [K|K].
      * rewrite app_nth1 by exact K.
        destruct (Z.leb_spec s (s + Z.of_nat k)); [|lia]. destruct (Z.ltb_spec (s + Z.of_nat k) (s + lenZ N)); [|unfold lenZ in *; lia].
        simpl. destruct (Z.ltb_spec (s + Z.of_nat k - s) 0); [lia|]. f_equal. lia.
      * rewrite app_nth2 by exact K.
        destruct (Z.ltb_spec (s + Z.of_nat k) (s + lenZ N)); [unfold lenZ in *; lia|]. rewrite andb_false_r.
        destruct (Nat.lt_ge_cases (k - length N) (Z.to_nat (f - (s + lenZ N - 1) - 1))) as [K2|K2].
        -- rewrite app_nth1 by (rewrite repeat_length; exact K2). rewrite nth_repeat.
           destruct (Z.leb_spec f (s + Z.of_nat k)); [unfold lenZ in *; lia|]. reflexivity.
        -- rewrite app_nth2 by (rewrite repeat_length; exact K2). rewrite repeat_length.
           destruct (Z.leb_spec f (s + Z.of_nat k)); [|unfold lenZ in *; lia].
           destruct (Z.ltb_spec (s + Z.of_nat k) (f + lenZ E)); [|unfold lenZ in *; lia]. simpl.
           destruct (Z.ltb_spec (s + Z.of_nat k - f) 0); [lia|]. f_equal. unfold lenZ in *. lia.
    + (* after *)
      replace (Z.min f s) with f in * by lia.
      destruct (Nat.lt_ge_cases k (length E)) as [K|K].
      * rewrite app_nth1 by exact K.
        destruct (Z.leb_spec s (f + Z.of_nat k)); [unfold lenZ in *; lia|]. simpl.
        destruct (Z.leb_spec f (f + Z.of_nat k)); [|lia]. destruct (Z.ltb_spec (f + Z.of_nat k) (f + lenZ E)); [|unfold lenZ in *; lia].
        simpl. destruct (Z.ltb_spec (f + Z.of_nat k - f) 0); [lia|]. f_equal. lia.
      * rewrite app_nth2 by exact K.
        destruct (Nat.lt_ge_cases (k - length E) (Z.to_nat (s - (f + lenZ E - 1) - 1))) as [K2|K2].
        -- rewrite app_nth1 by (rewrite repeat_length; exact K2). rewrite nth_repeat.
           destruct (Z.leb_spec s (f + Z.of_nat k)); [unfold lenZ in *; lia|]. simpl.
           destruct (Z.ltb_spec (f + Z.of_nat k) (f + lenZ E)); [unfold lenZ in *; lia|]. rewrite andb_false_r. reflexivity.
        -- rewrite app_nth2 by (rewrite repeat_length; exact K2). rewrite repeat_length.
           destruct (Z.leb_spec s (f + Z.of_nat k)); [|unfold lenZ in *; lia].
           destruct (Z.ltb_spec (f + Z.of_nat k) (s + lenZ N)); [|unfold lenZ in *; lia]. simpl.
           destruct (Z.ltb_spec (f + Z.of_nat k - s) 0); [lia|]. f_equal. unfold lenZ in *. lia.
    + (* overlap *)
      set (lo := Z.min f s) in *.
      destruct (Z.leb_spec s (lo + Z.of_nat k)) as [D1|D1]; [destruct (Z.ltb_spec (lo + Z.of_nat k) (s + lenZ N)) as [D2|D2]|]; simpl.
      * (* in N *)
        assert (K1 : (length (firstn (Z.to_nat (s - f)) E) <= k)%nat) by (rewrite firstn_length; unfold lenZ in *; lia).
        rewrite app_nth2 by exact K1. rewrite firstn_length.
        rewrite app_nth1 by (unfold lenZ in *; lia).
        destruct (Z.ltb_spec (lo + Z.of_nat k - s) 0); [lia|]. f_equal. unfold lenZ in *. lia.
      * (* after N, in the tail of E *)
        assert (K1 : (length (firstn (Z.to_nat (s - f)) E) <= k)%nat) by (rewrite firstn_length; unfold lenZ in *; lia).
        rewrite app_nth2 by exact K1. rewrite firstn_length.
        rewrite app_nth2 by (unfold lenZ in *; lia).
        rewrite nth_skipn.
        destruct (Z.leb_spec f (lo + Z.of_nat k)); [|lia].
        destruct (Z.ltb_spec (lo + Z.of_nat k) (f + lenZ E)); [|unfold lenZ in *; lia]. simpl.
        destruct (Z.ltb_spec (lo + Z.of_nat k - f) 0); [lia|]. f_equal. unfold lenZ in *. lia.
      * (* before N: in the head of E *)
        assert (K1 : (k < length (firstn (Z.to_nat (s - f)) E))%nat) by (rewrite firstn_length; unfold lenZ in *; lia).
        rewrite app_nth1 by exact K1. rewrite firstn_length in K1. rewrite nth_firstn by lia.
        destruct (Z.leb_spec f (lo + Z.of_nat k)); [|lia].
        destruct (Z.ltb_spec (lo + Z.of_nat k) (f + lenZ E)); [|unfold lenZ in *; lia]. simpl.
        destruct (Z.ltb_spec (lo + Z.of_nat k - f) 0); [lia|]. f_equal. lia.
Qed.

(* ---- memcpy / fill build a list piece by piece ------------------------------------------------------------- *)
Lemma skipn_repeat {A} (x : A) n m : skipn n (repeat x m) = repeat x (m - n).
Proof. revert m. induction n; intros [|m]; simpl; auto. Qed.

Lemma firstn_app_exact {A} (a b : list A) n : n = length a -> firstn n (a ++ b) = a.
Proof. intros ->. rewrite firstn_app, Nat.sub_diag, firstn_all. simpl. now rewrite app_nil_r. Qed.
Lemma skipn_app_exact {A} (a b : list A) n : n = length a -> skipn n (a ++ b) = b.
Proof. intros ->. rewrite skipn_app, Nat.sub_diag, skipn_all. reflexivity. Qed.

(* the buffer is [pre ++ malloc'ed rest]; copying n values at offset |pre| appends them *)
Lemma memcpy_append pre k src soff n :
  0 <= n -> 0 <= soff -> soff + n <= lenZ src -> n <= Z.of_nat k ->
  memcpy (pre ++ repeat undef k) (lenZ pre) src soff n
  = Some ((pre ++ slice src soff n) ++ repeat undef (k - Z.to_nat n)).
Proof.
  intros Hn Hs Hsrc Hk. unfold memcpy.
  pose proof (lenZ_nonneg pre) as Hp.
  rewrite lenZ_app, lenZ_repeat.
  destruct (Z.ltb_spec n 0); [lia|]. destruct (Z.ltb_spec (lenZ pre) 0); [lia|].
  destruct (Z.ltb_spec soff 0); [lia|]. destruct (Z.ltb_spec (lenZ pre + Z.of_nat k) (lenZ pre + n)); [lia|].
  destruct (Z.ltb_spec (lenZ src) (soff + n)); [lia|]. simpl.
  f_equal. rewrite firstn_app_exact by (unfold lenZ; lia).
  rewrite <- app_assoc. f_equal. f_equal.
  replace (Z.to_nat (lenZ pre + n)) with (length pre + Z.to_nat n)%nat by (unfold lenZ; lia).
  rewrite skipn_app. rewrite skipn_all2 by lia. simpl.
  replace (length pre + Z.to_nat n - length pre)%nat with (Z.to_nat n) by lia.
  apply skipn_repeat.
Qed.

Lemma fill_append pre k n v :
  0 <= n -> n <= Z.of_nat k ->
  fill (pre ++ repeat undef k) (lenZ pre) n v
  = Some ((pre ++ repeat v (Z.to_nat n)) ++ repeat undef (k - Z.to_nat n)).
Proof.
  intros Hn Hk. unfold fill. pose proof (lenZ_nonneg pre) as Hp.
  destruct (Z.leb_spec n 0).
  - replace n with 0 by lia. simpl. now rewrite app_nil_r, Nat.sub_0_r.
  - rewrite lenZ_app, lenZ_repeat.
    destruct (Z.ltb_spec (lenZ pre) 0); [lia|]. destruct (Z.ltb_spec (lenZ pre + Z.of_nat k) (lenZ pre + n)); [lia|]. simpl.
    f_equal. rewrite firstn_app_exact by (unfold lenZ; lia).
    rewrite <- app_assoc. f_equal. f_equal.
    replace (Z.to_nat (lenZ pre + n)) with (length pre + Z.to_nat n)%nat by (unfold lenZ; lia).
    rewrite skipn_app. rewrite skipn_all2 by lia. simpl.
    replace (length pre + Z.to_nat n - length pre)%nat with (Z.to_nat n) by lia.
    apply skipn_repeat.
Qed.

(* ---- concat of equal-sized elements ------------------------------------------------------------------------ *)
Definition all_len (n : Z) (E : list (list Z)) : Prop := Forall (fun e => lenZ e = n) E.

Lemma concat_len n E : all_len n E -> lenZ (concat E) = n * lenZ E.
Proof.
  induction 1 as [|e E He HE IH]; [unfold lenZ; simpl; lia|].
  simpl. rewrite lenZ_app, IH, He. unfold lenZ. simpl length. lia.
Qed.

Lemma firstn_concat n E k : all_len n E -> 0 <= n ->
  firstn (Z.to_nat n * k) (concat E) = concat (firstn k E).
Proof.
  intros H Hn. revert k. induction H as [|e E He HE IH]; intros k.
  - simpl. now rewrite !firstn_nil.
  - destruct k as [|k]; [now rewrite Nat.mul_0_r|]. simpl.
    replace (Z.to_nat n * S k)%nat with (length e + Z.to_nat n * k)%nat by (unfold lenZ in He; lia).
    rewrite firstn_app_2. now rewrite IH.
Qed.

Lemma skipn_concat n E k : all_len n E -> 0 <= n ->
  skipn (Z.to_nat n * k) (concat E) = concat (skipn k E).
Proof.
  intros H Hn. revert k. induction H as [|e E He HE IH]; intros k.
  - simpl. now rewrite !skipn_nil.
  - destruct k as [|k]; [now rewrite Nat.mul_0_r|]. simpl.
    replace (Z.to_nat n * S k)%nat with (length e + Z.to_nat n * k)%nat by (unfold lenZ in He; lia).
    rewrite skipn_app. rewrite skipn_all2 by lia. simpl.
    replace (length e + Z.to_nat n * k - length e)%nat with (Z.to_nat n * k)%nat by lia. apply IH.
Qed.

Lemma concat_repeat_zeros n g : 0 <= n -> concat (repeat (repeat 0 (Z.to_nat n)) g) = repeat 0 (Z.to_nat n * g).
Proof.
  intros Hn. induction g as [|g IH]; [now rewrite Nat.mul_0_r|]. simpl. rewrite IH.
  rewrite <- repeat_app. f_equal. lia.
Qed.

Lemma all_len_firstn n E k : all_len n E -> all_len n (firstn k E).
Proof.
  unfold all_len. revert k. induction E as [|e E IH]; intros [|k] H; simpl; auto.
  inversion H; subst. constructor; auto.
Qed.
Lemma all_len_skipn n E k : all_len n E -> all_len n (skipn k E).
Proof.
  unfold all_len. revert k. induction E as [|e E IH]; intros [|k] H; simpl; auto.
  inversion H; subst. auto.
Qed.
Lemma all_len_app n E F : all_len n E -> all_len n F -> all_len n (E ++ F).
Proof. intros. apply Forall_app. split; auto. Qed.
Lemma all_len_repeat n e g : lenZ e = n -> all_len n (repeat e g).
Proof. intros. induction g; simpl; constructor; auto. Qed.

Lemma slice_all l n : n = lenZ l -> slice l 0 n = l.
Proof. intros ->. unfold slice. simpl. unfold lenZ. rewrite Nat2Z.id. apply firstn_all. Qed.

Lemma slice_concat_tail n E k : all_len n E -> 0 <= n -> (k <= length E)%nat ->
  slice (concat E) (n * Z.of_nat k) (lenZ (concat E) - n * Z.of_nat k) = concat (skipn k E).
Proof.
  intros H Hn Hk. unfold slice.
  replace (Z.to_nat (n * Z.of_nat k)) with (Z.to_nat n * k)%nat by (rewrite Z2Nat.inj_mul by lia; lia).
  rewrite skipn_concat by assumption.
  apply firstn_all2.
  assert (L := concat_len n (skipn k E) (all_len_skipn n E k H)).
  assert (L2 := concat_len n E H).
  unfold lenZ in *. rewrite skipn_length in L. nia.
Qed.

Lemma slice_concat_head n E k : all_len n E -> 0 <= n -> (k <= length E)%nat ->
  slice (concat E) 0 (n * Z.of_nat k) = concat (firstn k E).
Proof.
  intros H Hn Hk. unfold slice. simpl.
  replace (Z.to_nat (n * Z.of_nat k)) with (Z.to_nat n * k)%nat by (rewrite Z2Nat.inj_mul by lia; lia).
  now apply firstn_concat.
Qed.

(* Z-indexed forms *)
Lemma memcpyZ pre K src soff n :
  0 <= n <= K -> 0 <= soff -> soff + n <= lenZ src ->
  memcpy (pre ++ malloc K) (lenZ pre) src soff n = Some ((pre ++ slice src soff n) ++ malloc (K - n)).
Proof.
  intros Hn Hs Hsrc. unfold malloc. rewrite memcpy_append by lia.
  do 2 f_equal. f_equal. lia.
Qed.
Lemma memcpyZ0 K src soff n :
  0 <= n <= K -> 0 <= soff -> soff + n <= lenZ src ->
  memcpy (malloc K) 0 src soff n = Some (slice src soff n ++ malloc (K - n)).
Proof. intros. exact (memcpyZ [] K src soff n H H0 H1). Qed.
Lemma fillZ pre K n v :
  0 <= n <= K -> fill (pre ++ malloc K) (lenZ pre) n v = Some ((pre ++ repeat v (Z.to_nat n)) ++ malloc (K - n)).
Proof.
  intros Hn. unfold malloc. rewrite fill_append by lia. do 2 f_equal. f_equal. lia.
Qed.
Lemma malloc_0 : malloc 0 = [].
Proof. reflexivity. Qed.

Lemma nonempty_len {A} (l : list A) : l <> [] -> 0 < lenZ l.
Proof. destruct l; [congruence|]. unfold lenZ. simpl. lia. Qed.

Lemma memcpyZ' pre K off src soff n :
  off = lenZ pre -> 0 <= n <= K -> 0 <= soff -> soff + n <= lenZ src ->
  memcpy (pre ++ malloc K) off src soff n = Some ((pre ++ slice src soff n) ++ malloc (K - n)).
Proof. intros ->. apply memcpyZ. Qed.
Lemma fillZ' pre K off n v :
  off = lenZ pre -> 0 <= n <= K ->
  fill (pre ++ malloc K) off n v = Some ((pre ++ repeat v (Z.to_nat n)) ++ malloc (K - n)).
Proof. intros ->. apply fillZ. Qed.

Ltac slen := rewrite ?lenZ_app, ?lenZ_repeat; lia.

(* ---- THE FIXED-SIZE SPLICE: the memcpy program of cg_elements_general_write computes [splice] ------------------ *)
Theorem fixed_splice_is_splice npe f E s N :
  0 < npe -> E <> [] -> N <> [] -> all_len npe E -> all_len npe N ->
  fixed_splice npe f (f + lenZ E - 1) s (s + lenZ N - 1) (lenZ (concat E)) (concat E) (concat N)
  = Some (Some (concat (splice (repeat 0 (Z.to_nat npe)) f E s N))).
Proof.
  intros Hnpe HE HN AE AN.
  rewrite splice_is_struct by assumption.
  pose proof (nonempty_len E HE) as LE. pose proof (nonempty_len N HN) as LN.
  pose proof (concat_len npe E AE) as CE. pose proof (concat_len npe N AN) as CN.
  unfold fixed_splice, splice_struct.
  set (nE := lenZ E) in *. set (nN := lenZ N) in *.
  replace (s + nN - 1 - s + 1) with nN by lia.
  set (eds := npe * nN). set (old := lenZ (concat E)) in *.
  assert (Heds : eds = lenZ (concat N)) by (subst eds; lia).
  assert (P1 : 0 <= npe * nE) by nia. assert (P2 : 0 <= eds) by (subst eds; nia).
  destruct (Z.ltb_spec (s + nN - 1) f) as [C1|C1].
  - (* before *)
    destruct (Z.leb_spec s f) as [_|]; [|lia].
    set (num := f - (s + nN - 1) - 1).
    assert (Hnum : 0 <= num) by (subst num; lia).
    assert (Hg : (if 0 <? num then npe * num else 0) = npe * num)
      by (destruct (Z.ltb_spec 0 num); [reflexivity|replace num with 0 by lia; lia]).
    rewrite Hg. assert (P3 : 0 <= npe * num) by nia.
    rewrite memcpyZ0 by lia. rewrite slice_all by exact Heds. simpl obind.
    rewrite fillZ' by lia. simpl obind.
    rewrite memcpyZ' by slen. simpl obind.
    rewrite slice_all by reflexivity.
    replace (eds + old + npe * num - eds - npe * num - old) with 0 by lia. rewrite malloc_0, app_nil_r.
    destruct (Z.eqb_spec (eds + npe * num + old) (eds + old + npe * num)); [|lia].
    do 2 f_equal. rewrite !concat_app. rewrite <- app_assoc. f_equal. f_equal.
    rewrite concat_repeat_zeros by lia. f_equal. rewrite Z2Nat.inj_mul by lia. reflexivity.
  - destruct (Z.ltb_spec (f + nE - 1) s) as [C2|C2].
    + (* after *)
      destruct (Z.leb_spec s f) as [|_]; [lia|].
      set (num := s - (f + nE - 1) - 1).
      assert (Hnum : 0 <= num) by (subst num; lia).
      assert (Hg : (if 0 <? num then npe * num else 0) = npe * num)
        by (destruct (Z.ltb_spec 0 num); [reflexivity|replace num with 0 by lia; lia]).
      rewrite Hg. assert (P3 : 0 <= npe * num) by nia.
      rewrite memcpyZ0 by lia. rewrite slice_all by reflexivity. simpl obind.
      rewrite fillZ' by (subst old; lia). simpl obind.
      rewrite memcpyZ' by (subst old; slen). simpl obind.
      rewrite slice_all by exact Heds.
      replace (eds + old + npe * num - old - npe * num - eds) with 0 by lia. rewrite malloc_0, app_nil_r.
      destruct (Z.eqb_spec (old + npe * num + eds) (eds + old + npe * num)); [|lia].
      do 2 f_equal. rewrite !concat_app. rewrite <- app_assoc. f_equal. f_equal.
      rewrite concat_repeat_zeros by lia. f_equal. rewrite Z2Nat.inj_mul by lia. reflexivity.
    + (* overlap *)
      set (e := s + nN - 1) in *. set (l := f + nE - 1) in *.
      assert (HL : Z.of_nat (length E) = nE) by reflexivity.
      (* the tail of the old elements after the written range *)
      assert (TAIL : e < l ->
                slice (concat E) ((e - f + 1) * npe) (old - (e - f + 1) * npe) = concat (skipn (Z.to_nat (e - f + 1)) E)).
      { intros. replace ((e - f + 1) * npe) with (npe * Z.of_nat (Z.to_nat (e - f + 1))) by lia.
        apply slice_concat_tail; [assumption|lia|lia]. }
      assert (NOTAIL : l <= e -> skipn (Z.to_nat (e - f + 1)) E = []) by (intros; apply skipn_all2; lia).
      destruct (Z.leb_spec s f) as [D|D].
      * (* the new range starts at or before the old one: front overlap / covering *)
        replace (Z.to_nat (s - f)) with 0%nat by lia. simpl firstn. simpl app.
        assert (Hh : (if f <=? s then (s - f) * npe else 0) = 0) by (destruct (Z.leb_spec f s); nia).
        rewrite Hh. destruct (Z.ltb_spec e f) as [|_]; [lia|].
        destruct (Z.ltb_spec e l) as [T|T].
        -- destruct (Z.leb_spec e l) as [_|]; [|lia].
           assert (0 <= old - (e - f + 1) * npe) by nia.
           rewrite memcpyZ0 by lia. rewrite slice_all by exact Heds. simpl obind.
           rewrite memcpyZ' by (try slen; nia). simpl obind.
           rewrite TAIL by exact T.
           replace (eds + 0 + (old - (e - f + 1) * npe) - eds - (old - (e - f + 1) * npe)) with 0 by lia.
           rewrite malloc_0, app_nil_r.
           destruct (Z.eqb_spec (eds + (old - (e - f + 1) * npe)) (eds + 0 + (old - (e - f + 1) * npe))); [|lia].
           do 2 f_equal. now rewrite concat_app.
        -- assert (Ht : (if e <=? l then old - (e - f + 1) * npe else 0) = 0) by (destruct (Z.leb_spec e l); nia).
           rewrite Ht. rewrite memcpyZ0 by lia. rewrite slice_all by exact Heds. simpl obind.
           replace (eds + 0 + 0 - eds) with 0 by lia. rewrite malloc_0, app_nil_r.
           destruct (Z.eqb_spec eds (eds + 0 + 0)); [|lia].
           do 2 f_equal. rewrite NOTAIL by lia. now rewrite app_nil_r.
      * (* the new range starts inside the old one: inside / back overlap *)
        destruct (Z.ltb_spec l s) as [|_]; [lia|].
        destruct (Z.leb_spec f s) as [_|]; [|lia].
        assert (HEAD : slice (concat E) 0 ((s - f) * npe) = concat (firstn (Z.to_nat (s - f)) E)).
        { replace ((s - f) * npe) with (npe * Z.of_nat (Z.to_nat (s - f))) by lia.
          apply slice_concat_head; [assumption|lia|lia]. }
        assert (0 <= (s - f) * npe) by nia. assert ((s - f) * npe <= old) by nia.
        assert (LH : lenZ (concat (firstn (Z.to_nat (s - f)) E)) = (s - f) * npe).
        { rewrite (concat_len npe) by (apply all_len_firstn; assumption).
          unfold lenZ. rewrite firstn_length. lia. }
        destruct (Z.ltb_spec e l) as [T|T].
        -- destruct (Z.leb_spec e l) as [_|]; [|lia].
           assert (0 <= old - (e - f + 1) * npe) by nia.
           rewrite memcpyZ0 by lia. rewrite HEAD. simpl obind.
           rewrite memcpyZ' by (try slen; lia). simpl obind. rewrite slice_all by exact Heds.
           rewrite memcpyZ' by (try slen; nia). simpl obind.
           rewrite TAIL by exact T.
           replace (eds + (s - f) * npe + (old - (e - f + 1) * npe) - (s - f) * npe - eds - (old - (e - f + 1) * npe)) with 0 by lia.
           rewrite malloc_0, app_nil_r.
           destruct (Z.eqb_spec ((s - f) * npe + eds + (old - (e - f + 1) * npe)) (eds + (s - f) * npe + (old - (e - f + 1) * npe))); [|lia].
           do 2 f_equal. rewrite !concat_app. now rewrite <- app_assoc.
        -- assert (Ht : (if e <=? l then old - (e - f + 1) * npe else 0) = 0) by (destruct (Z.leb_spec e l); nia).
           rewrite Ht. rewrite memcpyZ0 by lia. rewrite HEAD. simpl obind.
           rewrite memcpyZ' by (try slen; lia). simpl obind. rewrite slice_all by exact Heds.
           replace (eds + (s - f) * npe + 0 - (s - f) * npe - eds) with 0 by lia. rewrite malloc_0, app_nil_r.
           destruct (Z.eqb_spec ((s - f) * npe + eds) (eds + (s - f) * npe + 0)); [|lia].
           do 2 f_equal. rewrite NOTAIL by lia. rewrite app_nil_r. now rewrite concat_app.
Qed.

(* ---- the in-place path (write inside the stored range, connectivity not cached) ---------------------------- *)
Lemma file_write_is_splice npe f E s N :
  0 < npe -> E <> [] -> N <> [] -> all_len npe E -> all_len npe N ->
  f <= s -> s + lenZ N - 1 <= f + lenZ E - 1 ->
  file_write (concat E) (npe * (s - f) + 1) (npe * (s + lenZ N - 1 - f + 1)) (concat N)
  = Some (concat (splice (repeat 0 (Z.to_nat npe)) f E s N)).
Proof.
  intros Hnpe HE HN AE AN Hs He.
  rewrite splice_is_struct by assumption.
  pose proof (nonempty_len E HE) as LE. pose proof (nonempty_len N HN) as LN.
  pose proof (concat_len npe E AE) as CE. pose proof (concat_len npe N AN) as CN.
  unfold file_write, splice_struct.
  destruct (Z.ltb_spec (s + lenZ N - 1) f); [lia|]. destruct (Z.ltb_spec (f + lenZ E - 1) s); [lia|].
  destruct (Z.ltb_spec (npe * (s - f) + 1) 1); [nia|].
  destruct (Z.ltb_spec (npe * (s + lenZ N - 1 - f + 1)) (npe * (s - f) + 1)); [nia|].
  destruct (Z.ltb_spec (lenZ (concat E)) (npe * (s + lenZ N - 1 - f + 1))); [nia|]. simpl.
  f_equal. rewrite !concat_app. f_equal; [|f_equal].
  - replace (Z.to_nat (npe * (s - f) + 1 - 1)) with (Z.to_nat npe * Z.to_nat (s - f))%nat by (rewrite <- Z2Nat.inj_mul by lia; f_equal; lia).
    now apply firstn_concat; [|lia].
  - apply firstn_all2. unfold lenZ in *. nia.
  - replace (Z.to_nat (npe * (s + lenZ N - 1 - f + 1))) with (Z.to_nat npe * Z.to_nat (s + lenZ N - 1 - f + 1))%nat
      by (rewrite <- Z2Nat.inj_mul by lia; reflexivity).
    now apply skipn_concat; [|lia].
Qed.

(* ---- abstraction: a well-formed fixed-size section state represents (first, list of elements) ------------- *)
Record rep_fixed (npe : Z) (st : section) (f : Z) (E : list (list Z)) : Prop := mkRep {
  rf_type : is_fixed_size (s_type st) = true;
  rf_npe : cg_npe (s_type st) = Some npe;
  rf_pos : 0 < npe;
  rf_all : all_len npe E;
  rf_ne : E <> [];
  rf_r0 : s_r0 st = f;
  rf_r1 : s_r1 st = f + lenZ E - 1;
  rf_conn : s_conn st = concat E;
  rf_dim : s_dim st = lenZ (concat E);
  rf_mem : s_conn_mem st = None \/ s_conn_mem st = Some (concat E)     (* the cache agrees with the file *)
}.

Lemma all_len_splice npe f E s N :
  0 < npe -> E <> [] -> N <> [] -> all_len npe E -> all_len npe N ->
  all_len npe (splice (repeat 0 (Z.to_nat npe)) f E s N).
Proof.
  intros. rewrite splice_is_struct by assumption. unfold splice_struct.
  assert (lenZ (repeat 0 (Z.to_nat npe)) = npe) by (rewrite lenZ_repeat; lia).
  destruct (_ <? _); [|destruct (_ <? _)]; repeat apply all_len_app; auto using all_len_repeat, all_len_firstn, all_len_skipn.
Qed.

Lemma splice_nonempty {A} (ph : A) f E s N : N <> [] -> splice ph f E s N <> [].
Proof.
  intros HN Heq. apply (f_equal (@length A)) in Heq. rewrite splice_length in Heq. simpl in Heq.
  pose proof (nonempty_len N HN). pose proof (lenZ_nonneg E). unfold splice_hi, splice_lo in Heq. lia.
Qed.

Lemma splice_lenZ {A} (ph : A) f E s N : E <> [] -> N <> [] ->
  lenZ (splice ph f E s N) = splice_hi f E s N - splice_lo f s + 1.
Proof.
  intros HE HN. unfold lenZ. rewrite splice_length.
  pose proof (nonempty_len N HN). pose proof (nonempty_len E HE). unfold splice_hi, splice_lo. lia.
Qed.

(* THE WRITE THEOREM (fixed-size sections, any parent-data variant, any memory type): a partial / general write
   of the elements N at start..start+|N|-1 turns a state representing (f, E) into one representing
   (min f start, splice zeros f E start N) -- whatever the relative position of the two ranges. *)
Theorem elements_general_write_is_splice pv npe st f E start N mt :
  rep_fixed npe st f E -> s_par st = None -> N <> [] -> all_len npe N ->
  exists st', elements_general_write pv st start (start + lenZ N - 1) mt (concat N) = ROk st'
              /\ rep_fixed npe st' (Z.min f start) (splice (repeat 0 (Z.to_nat npe)) f E start N)
              /\ s_par st' = None /\ s_type st' = s_type st /\ s_dt st' = s_dt st.
Proof.
  intros [Ht Hn Hp AE HE Hr0 Hr1 Hc Hd Hm] Hpar HN AN.
  pose proof (nonempty_len E HE) as LE. pose proof (nonempty_len N HN) as LN.
  pose proof (concat_len npe E AE) as CE. pose proof (concat_len npe N AN) as CN.
  unfold elements_general_write. rewrite Ht, Hn. simpl negb.
  destruct (Z.leb_spec (start + lenZ N - 1 - start + 1) 0); [lia|].
  destruct (Z.leb_spec npe 0); [lia|].
  replace (start + lenZ N - 1 - start + 1) with (lenZ N) by lia.
  destruct (Z.ltb_spec (npe * lenZ N) 0); [nia|].
  set (zeros := repeat 0 (Z.to_nat npe)).
  assert (SL := splice_lenZ zeros f E start N HE HN).
  destruct ((s_r0 st <=? start) && (start + lenZ N - 1 <=? s_r1 st) && is_none (s_conn_mem st)) eqn:Hdirect.
  - (* in place *)
    apply andb_prop in Hdirect as [Hd1 Hnone]. apply andb_prop in Hd1 as [Hd1 Hd2].
    apply Z.leb_le in Hd1, Hd2. rewrite Hr0 in Hd1. rewrite Hr1 in Hd2.
    unfold user_take. destruct (Z.ltb_spec (lenZ (concat N)) (npe * lenZ N)); [lia|].
    rewrite firstn_all2 by (unfold lenZ in *; lia).
    rewrite Hc, Hr0.
    replace (npe * (start + lenZ N - 1 - f + 1)) with (npe * (start + lenZ N - 1 - f + 1)) by reflexivity.
    rewrite (file_write_is_splice npe f E start N) by assumption.
    unfold parent_resize. simpl. rewrite Hpar.
    eexists. split; [reflexivity|]. simpl. split; [|auto].
    apply mkRep; simpl; auto.
    + apply all_len_splice; assumption.
    + now apply splice_nonempty.
    + rewrite Hr0. lia.
    + rewrite Hr1, SL. unfold splice_hi, splice_lo. lia.
    + rewrite Hd. pose proof (concat_len npe _ (all_len_splice npe f E start N Hp HE HN AE AN)) as CS.
      fold zeros in CS. rewrite CS, SL, CE. unfold splice_hi, splice_lo. nia.
  - (* in memory *)
    assert (Hold : snd (read_element_data st) = concat E).
    { unfold read_element_data. destruct Hm as [-> | ->]; simpl; auto.
      rewrite Hc, Hd. unfold lenZ. rewrite Nat2Z.id. apply firstn_all. }
    destruct (read_element_data st) as [s1 oldelems] eqn:Hred. simpl in Hold. subst oldelems.
    assert (Hs1 : s_par s1 = None /\ s_type s1 = s_type st /\ s_dt s1 = s_dt st).
    { unfold read_element_data in Hred. destruct (s_conn_mem st); inversion Hred; subst; simpl; auto. }
    rewrite Hr0, Hr1, Hd.
    rewrite (fixed_splice_is_splice npe f E start N) by assumption.
    unfold parent_resize. simpl. destruct Hs1 as (Hs1 & Hs2 & Hs3). rewrite Hs1.
    eexists. split; [reflexivity|]. simpl. split; [|auto].
    apply mkRep; simpl; auto.
    + rewrite Hs2. exact Ht.
    + rewrite Hs2. exact Hn.
    + apply all_len_splice; assumption.
    + now apply splice_nonempty.
    + destruct (Z.ltb_spec start f); lia.
    + rewrite SL. unfold splice_hi, splice_lo.
      destruct (Z.ltb_spec start f); destruct (Z.ltb_spec (f + lenZ E - 1) (start + lenZ N - 1)); lia.
Qed.

(* ---- READS ARE SLICES (fixed-size) -------------------------------------------------------------------------- *)
Lemma slice_concat_mid npe E i k : all_len npe E -> 0 <= npe ->
  slice (concat E) (npe * Z.of_nat i) (npe * Z.of_nat k) = concat (firstn k (skipn i E)).
Proof.
  intros AE Hn. unfold slice.
  replace (Z.to_nat (npe * Z.of_nat i)) with (Z.to_nat npe * i)%nat by (rewrite Z2Nat.inj_mul by lia; lia).
  replace (Z.to_nat (npe * Z.of_nat k)) with (Z.to_nat npe * k)%nat by (rewrite Z2Nat.inj_mul by lia; lia).
  rewrite skipn_concat by assumption. apply firstn_concat; [|assumption]. now apply all_len_skipn.
Qed.

Theorem elements_partial_read_is_slice npe st f E a b :
  rep_fixed npe st f E -> f <= a -> a <= b -> b <= f + lenZ E - 1 ->
  exists st', elements_partial_read st a b false = ROk (st', [concat (slice_elems f E a b)])
              /\ rep_fixed npe st' f E /\ s_par st' = s_par st.
Proof.
  intros [Ht Hn Hp AE HE Hr0 Hr1 Hc Hd Hm] Ha Hab Hb.
  pose proof (concat_len npe E AE) as CE.
  unfold elements_partial_read. rewrite Ht, Hn, Hr0, Hr1. simpl negb.
  destruct (Z.ltb_spec b a); [lia|]. destruct (Z.ltb_spec a f); [lia|]. destruct (Z.ltb_spec (f + lenZ E - 1) b); [lia|].
  simpl orb. destruct (Z.leb_spec npe 0); [lia|].
  assert (SLICE : slice (concat E) (npe * (a - f)) (npe * (b - a + 1)) = concat (slice_elems f E a b)).
  { unfold slice_elems. replace (npe * (a - f)) with (npe * Z.of_nat (Z.to_nat (a - f))) by (rewrite Z2Nat.id by lia; ring).
    replace (npe * (b - a + 1)) with (npe * Z.of_nat (Z.to_nat (b - a + 1))) by (rewrite Z2Nat.id by lia; ring).
    apply slice_concat_mid; [assumption|lia]. }
  destruct (is_none (s_conn_mem st) && is_size_t (s_dt st)) eqn:Hdirect.
  - unfold file_read. rewrite Hc.
    destruct (Z.ltb_spec (npe * (a - f) + 1) 1); [nia|].
    destruct (Z.ltb_spec (npe * (b - f + 1)) (npe * (a - f) + 1)); [nia|].
    destruct (Z.ltb_spec (lenZ (concat E)) (npe * (b - f + 1))); [nia|]. simpl.
    replace (npe * (a - f) + 1 - 1) with (npe * (a - f)) by lia.
    replace (npe * (b - f + 1) - (npe * (a - f) + 1) + 1) with (npe * (b - a + 1)) by lia.
    rewrite SLICE. eexists. split; [reflexivity|]. split; [constructor; auto|reflexivity].
  - assert (Hold : snd (read_element_data st) = concat E).
    { unfold read_element_data. destruct Hm as [-> | ->]; simpl; auto.
      rewrite Hc, Hd. unfold lenZ. rewrite Nat2Z.id. apply firstn_all. }
    destruct (read_element_data st) as [s1 data] eqn:Hred. simpl in Hold. subst data.
    destruct (Z.ltb_spec (lenZ (concat E)) (npe * (a - f) + npe * (b - a + 1))); [nia|].
    rewrite SLICE. simpl. eexists. split; [reflexivity|].
    unfold read_element_data in Hred. destruct (s_conn_mem st) eqn:Hmem; inversion Hred; subst; simpl.
    + split; [constructor; auto|reflexivity].
    + split; [|reflexivity]. constructor; simpl; auto.
      right. rewrite Hc, Hd. unfold lenZ. rewrite Nat2Z.id. now rewrite firstn_all.
Qed.

Theorem elements_general_read_is_slice npe st f E a b mt :
  rep_fixed npe st f E -> f <= a -> a <= b -> b <= f + lenZ E - 1 ->
  elements_general_read st a b mt = ROk (st, [concat (slice_elems f E a b)]).
Proof.
  intros [Ht Hn Hp AE HE Hr0 Hr1 Hc Hd Hm] Ha Hab Hb.
  pose proof (concat_len npe E AE) as CE.
  unfold elements_general_read. rewrite Ht, Hn, Hr0, Hr1. simpl negb.
  destruct (Z.ltb_spec b a); [lia|]. destruct (Z.ltb_spec a f); [lia|]. destruct (Z.ltb_spec (f + lenZ E - 1) b); [lia|].
  simpl orb. destruct (Z.leb_spec npe 0); [lia|].
  unfold file_read. rewrite Hc.
  destruct (Z.ltb_spec (npe * (a - f) + 1) 1); [nia|].
  destruct (Z.ltb_spec (npe * (b - f + 1)) (npe * (a - f) + 1)); [nia|].
  destruct (Z.ltb_spec (lenZ (concat E)) (npe * (b - f + 1))); [nia|]. simpl.
  replace (npe * (a - f) + 1 - 1) with (npe * (a - f)) by lia.
  replace (npe * (b - f + 1) - (npe * (a - f) + 1) + 1) with (npe * (b - a + 1)) by lia.
  do 3 f_equal. unfold slice_elems. replace (npe * (a - f)) with (npe * Z.of_nat (Z.to_nat (a - f))) by (rewrite Z2Nat.id by lia; ring).
  replace (npe * (b - a + 1)) with (npe * Z.of_nat (Z.to_nat (b - a + 1))) by (rewrite Z2Nat.id by lia; ring).
  apply slice_concat_mid; [assumption|lia].
Qed.

(* a slice read back after a write is the slice of the splice: the two theorems compose *)
Corollary write_then_read npe pv st f E start N mt a b :
  rep_fixed npe st f E -> s_par st = None -> N <> [] -> all_len npe N ->
  Z.min f start <= a -> a <= b -> b <= Z.max (f + lenZ E - 1) (start + lenZ N - 1) ->
  exists st', elements_general_write pv st start (start + lenZ N - 1) mt (concat N) = ROk st' /\
              elements_general_read st' a b mt
              = ROk (st', [concat (slice_elems (Z.min f start) (splice (repeat 0 (Z.to_nat npe)) f E start N) a b)]).
Proof.
  intros R Hpar HN AN Ha Hab Hb.
  destruct (elements_general_write_is_splice pv npe st f E start N mt R Hpar HN AN) as (st' & Hw & R' & _).
  exists st'. split; [exact Hw|]. apply (elements_general_read_is_slice npe); auto.
  rewrite splice_lenZ by (auto; apply R). unfold splice_hi, splice_lo. lia.
Qed.

(* ---- HISTORIES of writes (fixed-size, no parent data): the state always represents the fold of splice ------ *)
Fixpoint spec_run (npe f : Z) (E : list (list Z)) (ws : list (Z * list (list Z))) : Z * list (list Z) :=
  match ws with
  | [] => (f, E)
  | (start, N) :: r => spec_run npe (Z.min f start) (splice (repeat 0 (Z.to_nat npe)) f E start N) r
  end.

Fixpoint impl_run (pv : pvariant) (st : section) (ws : list (Z * list (list Z))) : res section :=
  match ws with
  | [] => ROk st
  | (start, N) :: r =>
      match elements_general_write pv st start (start + lenZ N - 1) I8 (concat N) with
      | ROk st' => impl_run pv st' r
      | RErr => RErr | RFault => RFault
      end
  end.

Theorem write_history_is_splice pv npe ws : forall st f E,
  rep_fixed npe st f E -> s_par st = None ->
  Forall (fun w => snd w <> [] /\ all_len npe (snd w)) ws ->
  exists st', impl_run pv st ws = ROk st' /\
              rep_fixed npe st' (fst (spec_run npe f E ws)) (snd (spec_run npe f E ws)) /\ s_par st' = None.
Proof.
  induction ws as [|[start N] r IH]; intros st f E R Hpar HW.
  - exists st. simpl. auto.
  - inversion HW as [|? ? [HN AN] HR]; subst. simpl in HN, AN.
    destruct (elements_general_write_is_splice pv npe st f E start N I8 R Hpar HN AN) as (st' & Hw & R' & Hp' & _).
    simpl. rewrite Hw. apply IH; auto.
Qed.

(* ---- PARENT DATA ---------------------------------------------------------------------------------------------- *)
Lemma nthZ_app {A} (a b : list A) i d : 0 <= i ->
  nthZ (a ++ b) i d = if i <? lenZ a then nthZ a i d else nthZ b (i - lenZ a) d.
Proof.
  intros Hi. unfold nthZ, lenZ. destruct (Z.ltb_spec i 0); [lia|].
  destruct (Z.ltb_spec i (Z.of_nat (length a))).
  - apply app_nth1. lia.
  - destruct (Z.ltb_spec (i - Z.of_nat (length a)) 0); [lia|]. rewrite app_nth2 by lia. f_equal. lia.
Qed.
Lemma nthZ_firstn {A} (l : list A) n i d : 0 <= i < n -> nthZ (firstn (Z.to_nat n) l) i d = nthZ l i d.
Proof. intros. unfold nthZ. destruct (Z.ltb_spec i 0); [lia|]. apply nth_firstn. lia. Qed.
Lemma nthZ_skipn {A} (l : list A) n i d : 0 <= n -> 0 <= i -> nthZ (skipn (Z.to_nat n) l) i d = nthZ l (n + i) d.
Proof.
  intros. unfold nthZ. destruct (Z.ltb_spec i 0); [lia|]. destruct (Z.ltb_spec (n + i) 0); [lia|].
  rewrite nth_skipn. f_equal. lia.
Qed.
Lemma nthZ_repeatZ {A} (x d : A) n i : 0 <= i < n -> nthZ (repeat x (Z.to_nat n)) i d = x.
Proof. intros. apply nthZ_repeat. lia. Qed.

Lemma memcpy_spec dst off src soff n d :
  0 <= n -> 0 <= off -> 0 <= soff -> off + n <= lenZ dst -> soff + n <= lenZ src ->
  exists r, memcpy dst off src soff n = Some r /\ lenZ r = lenZ dst /\
            forall i, 0 <= i < lenZ dst ->
              nthZ r i d = if (off <=? i) && (i <? off + n) then nthZ src (soff + (i - off)) d else nthZ dst i d.
Proof.
  intros Hn Ho Hs Hd Hsrc. unfold memcpy.
  destruct (Z.ltb_spec n 0); [lia|]. destruct (Z.ltb_spec off 0); [lia|]. destruct (Z.ltb_spec soff 0); [lia|].
  destruct (Z.ltb_spec (lenZ dst) (off + n)); [lia|]. destruct (Z.ltb_spec (lenZ src) (soff + n)); [lia|]. simpl.
  eexists. split; [reflexivity|].
  assert (L1 : lenZ (firstn (Z.to_nat off) dst) = off) by (rewrite lenZ_firstn by (unfold lenZ in *; lia); lia).
  assert (L2 : lenZ (slice src soff n) = n).
  { unfold slice. rewrite lenZ_firstn; [lia|]. rewrite skipn_length. unfold lenZ in *. lia. }
  split.
  - rewrite !lenZ_app, L1, L2, lenZ_skipn. unfold lenZ in *. lia.
  - intros i Hi. rewrite nthZ_app by lia. rewrite L1.
    destruct (Z.ltb_spec i off).
    + destruct (Z.leb_spec off i); [lia|]. simpl. apply nthZ_firstn. lia.
    + destruct (Z.leb_spec off i); [|lia]. simpl. rewrite nthZ_app by lia. rewrite L2.
      destruct (Z.ltb_spec (i - off) n); destruct (Z.ltb_spec i (off + n)); try lia.
      * unfold slice. rewrite nthZ_firstn by lia. rewrite nthZ_skipn by lia. reflexivity.
      * rewrite nthZ_skipn by lia. f_equal. lia.
Qed.

Lemma fill_spec dst off n v d :
  0 <= off -> off + n <= lenZ dst ->
  exists r, fill dst off n v = Some r /\ lenZ r = lenZ dst /\
            forall i, 0 <= i < lenZ dst ->
              nthZ r i d = if (off <=? i) && (i <? off + n) then v else nthZ dst i d.
Proof.
  intros Ho Hd. unfold fill. destruct (Z.leb_spec n 0).
  - exists dst. split; [reflexivity|]. split; [reflexivity|]. intros i Hi.
    destruct (Z.leb_spec off i); destruct (Z.ltb_spec i (off + n)); simpl; auto; lia.
  - destruct (Z.ltb_spec off 0); [lia|]. destruct (Z.ltb_spec (lenZ dst) (off + n)); [lia|]. simpl.
    eexists. split; [reflexivity|].
    assert (L1 : lenZ (firstn (Z.to_nat off) dst) = off) by (rewrite lenZ_firstn by (unfold lenZ in *; lia); lia).
    split.
    + rewrite !lenZ_app, L1, lenZ_repeat, lenZ_skipn. unfold lenZ in *. lia.
    + intros i Hi. rewrite nthZ_app by lia. rewrite L1.
      destruct (Z.ltb_spec i off).
      * destruct (Z.leb_spec off i); [lia|]. simpl. apply nthZ_firstn. lia.
      * destruct (Z.leb_spec off i); [|lia]. simpl. rewrite nthZ_app by lia. rewrite lenZ_repeat.
        destruct (Z.ltb_spec (i - off) (Z.of_nat (Z.to_nat n))); destruct (Z.ltb_spec i (off + n)); try lia.
        -- apply nthZ_repeatZ. lia.
        -- rewrite nthZ_skipn by lia. f_equal. lia.
Qed.

(* what parent data must be after a write of s..e into a section f..l that had one row per element: the rows of
   untouched old elements stay with their element, every other row (gap, new or rewritten element) is zero *)
Definition parent_row_spec (old : list Z) (oldsize f l s e c i : Z) : Z :=
  if (s <=? i) && (i <=? e) then 0
  else if (f <=? i) && (i <=? l) then nthZ old (c * oldsize + (i - f)) 0
  else 0.

Theorem resize_one_fixed old f l s e :
  f <= l -> s <= e -> lenZ old = 2 * (l - f + 1) ->
  let lo := Z.min f s in let hi := Z.max l e in
  let newsize := hi - lo + 1 in let oldsize := l - f + 1 in
  exists r, resize_one PFixed old newsize oldsize (if s <? f then f - s else 0) (s - lo) (e - s + 1) = Some r /\
            lenZ r = 2 * newsize /\
            forall c i, (c = 0 \/ c = 1) -> lo <= i <= hi ->
              nthZ r (c * newsize + (i - lo)) 0 = parent_row_spec old oldsize f l s e c i.
Proof.
  intros Hfl Hse Hold lo hi newsize oldsize.
  assert (Hsaved : (if s <? f then f - s else 0) = f - lo) by (subst lo; destruct (Z.ltb_spec s f); lia).
  rewrite Hsaved. unfold resize_one.
  assert (LM : lenZ (malloc (2 * newsize)) = 2 * newsize) by (unfold malloc; rewrite lenZ_repeat; subst newsize lo hi; lia).
  destruct (fill_spec (malloc (2 * newsize)) 0 (2 * newsize) 0 0) as (z & -> & Lz & Pz); [lia|lia|].
  unfold place_rows.
  destruct (memcpy_spec z (f - lo) old 0 oldsize 0) as (a1 & -> & La1 & Pa1); try (subst oldsize newsize lo hi; lia).
  destruct (memcpy_spec a1 (newsize + (f - lo)) old oldsize oldsize 0) as (a2 & -> & La2 & Pa2); try (subst oldsize newsize lo hi; lia).
  unfold zero_rows.
  destruct (fill_spec a2 (s - lo) (e - s + 1) 0 0) as (b1 & -> & Lb1 & Pb1); try (subst oldsize newsize lo hi; lia).
  destruct (fill_spec b1 (newsize + (s - lo)) (e - s + 1) 0 0) as (b2 & -> & Lb2 & Pb2); try (subst oldsize newsize lo hi; lia).
  exists b2. split; [reflexivity|]. split; [lia|].
  intros c i Hc Hi. unfold parent_row_spec.
  assert (Hidx : 0 <= c * newsize + (i - lo) < 2 * newsize) by (subst newsize; destruct Hc; subst c; lia).
  rewrite Pb2 by lia. rewrite Pb1 by lia. rewrite Pa2 by lia. rewrite Pa1 by lia. rewrite Pz by lia.
  clear Pb2 Pb1 Pa2 Pa1 Pz Lb2 Lb1 La2 La1 Lz LM Hsaved.
  destruct Hc; subst c; rewrite ?Z.mul_0_l, ?Z.mul_1_l, ?Z.add_0_l; subst newsize oldsize lo hi;
    repeat match goal with
    | |- context [?a <=? ?b] => destruct (Z.leb_spec a b); cbn [andb]; try lia
    | |- context [?a <? ?b] => destruct (Z.ltb_spec a b); cbn [andb]; try lia
    end; auto; try (f_equal; lia).
Qed.

(* ---- witnesses: the historical parent-data code (PCurrent) and the current cg_poly_elements_read (RCurrent) ---- *)
Definition tri4 : list Z := [1;2;3; 4;5;6; 7;8;9; 10;11;12].
Definition par4 : list Z := [11;12;13;14; 21;22;23;24; 31;32;33;34; 41;42;43;44].

Fixpoint run (pv : pvariant) (rv : rvariant) (st : state) (ops : list op) : res (state * out) :=
  match ops with
  | [] => ROk (st, [])
  | [o] => step_gen pv rv st o
  | o :: r => match step_gen pv rv st o with
              | ROk (st', _) => run pv rv st' r
              | RErr => RErr | RFault => RFault
              end
  end.

(* TRI_3 section 1..4 with parent data, cg_elements_partial_write(5,6) *)
Definition hist_append : list op :=
  [OSecWrite 5 1 4 tri4; OParentWrite par4; OReopen; OElemWrite I8 5 6 [13;14;15;16;17;18]; OElemRead true].
(* TRI_3 section 3..6 with parent data, cg_elements_partial_write(1,2) *)
Definition hist_prepend : list op :=
  [OSecWrite 5 3 6 tri4; OParentWrite par4; OElemWrite I8 1 2 [13;14;15;16;17;18]; OElemRead true].

(* the code before /repo 4b28a57: appending runs off the end of the new parent array (ASan: heap-buffer-overflow
   WRITE), prepending silently moves the old rows under the wrong elements *)
Lemma parent_current_append_faults : run PCurrent RCurrent None hist_append = RFault.
Proof. vm_compute. reflexivity. Qed.
Lemma parent_current_prepend_clobbers :
  exists st conn, run PCurrent RCurrent None hist_prepend
    = ROk (st, [conn; [0;0;13;14;0;0; 0;0;23;24;0;0; 0;0;33;34;0;0; 0;0;43;44;0;0]]).
Proof. eexists. eexists. vm_compute. reflexivity. Qed.
(* the repaired code keeps every old row with its element and zeroes the new rows *)
Lemma parent_fixed_append_ok :
  exists st conn, run PFixed RCurrent None hist_append
    = ROk (st, [conn; [11;12;13;14;0;0; 21;22;23;24;0;0; 31;32;33;34;0;0; 41;42;43;44;0;0]]).
Proof. eexists. eexists. vm_compute. reflexivity. Qed.
Lemma parent_fixed_prepend_ok :
  exists st conn, run PFixed RCurrent None hist_prepend
    = ROk (st, [conn; [0;0;11;12;13;14; 0;0;21;22;23;24; 0;0;31;32;33;34; 0;0;41;42;43;44]]).
Proof. eexists. eexists. vm_compute. reflexivity. Qed.

(* the statement the historical code contradicts: an extending write never faults *)
Definition parent_extend_safe (pv : pvariant) : Prop :=
  forall conn par start N, run pv RCurrent None
     [OSecWrite 5 1 4 conn; OParentWrite par; OReopen; OElemWrite I8 start (start + lenZ N / 3 - 1) N; OElemRead true] <> RFault.
Lemma parent_refuted : ~ parent_extend_safe PCurrent.
Proof. intros H. apply (H tri4 par4 5 [13;14;15;16;17;18]). exact parent_current_append_faults. Qed.

(* cg_poly_elements_read: NGON_n stored as I4, partial write (connectivity cached), full read.
   Before /repo 98748ad (ROld) it failed; the code as it is (RCurrent) answers the section. *)
Definition hist_polyread : list op :=
  [OSecGeneralWrite 22 I4 1 3 6; OPolyWrite I8 2 2 [1;2;3] [0;3]; OPolyRead false].
Lemma polyread_old_fails : run PFixed ROld None hist_polyread = RErr.
Proof. vm_compute. reflexivity. Qed.
Lemma polyread_current_ok :
  exists st, run PFixed RCurrent None hist_polyread = ROk (st, [[0;0;1;2;3;0;0]; [0;2;5;7]]).
Proof. eexists. vm_compute. reflexivity. Qed.
(* still failing in the code as it is: space reserved by cg_section_general_write (14 values for 2 elements),
   a partial read caches the node, the full read then fails its count == ElementDataSize check *)
Definition hist_polyread_slack : list op :=
  [OSecGeneralWrite 22 I4 1 2 14; OPolyPartialRead 1 2 false; OPolyRead false].
Lemma polyread_slack_current_fails : run PFixed RCurrent None hist_polyread_slack = RErr.
Proof. vm_compute. reflexivity. Qed.
Lemma polyread_slack_fixed_ok :
  exists st tail, run PFixed RFixed None hist_polyread_slack = ROk (st, [[0;0;0;0] ++ tail; [0;2;4]]).
Proof. eexists. eexists. vm_compute. reflexivity. Qed.

(* ---- variable-size sections: rebased offsets ------------------------------------------------------------------ *)
Lemma rebase_nth l i : 0 <= i < lenZ l -> nthZ (rebase l) i 0 = nthZ l i 0 - nthZ l 0 0.
Proof.
  intros Hi. unfold rebase, nthZ. destruct (Z.ltb_spec i 0); [lia|]. simpl (0 <? 0). cbv iota.
  replace (nth (Z.to_nat 0) l 0) with (hd 0 l) by (destruct l; reflexivity).
  generalize (hd 0 l) as h. intros h.
  assert (Hk : (Z.to_nat i < length l)%nat) by (unfold lenZ in *; lia).
  revert Hk. generalize (Z.to_nat i) as k. clear Hi H. induction l as [|x l IH]; intros [|k] Hk; simpl in *; try lia.
  apply IH. lia.
Qed.
Lemma rebase_first l : l <> [] -> nthZ (rebase l) 0 0 = 0.
Proof. intros H. rewrite rebase_nth by (pose proof (nonempty_len l H); lia). lia. Qed.

(* the six relative positions on NGON_n and MIXED, computed by the model (checked by vm_compute: tests, not theorems;
   the general statement for variable-size sections is Properties_C10.C10_poly_write_is_splice_full) *)
Definition ngon3 : list Z := [1;2;3; 4;5;6;7; 8;9;10].       (* elements 10..12 : sizes 3 4 3 *)
Definition ngon_off : list Z := [0;3;7;10].
Definition poly_case (type start end_ : Z) (elems offs : list Z) : option (list Z * list Z) :=
  match poly_splice type 10 12 start end_ ngon3 ngon_off elems offs with
  | Some (Some r) => Some r | _ => None
  end.
Lemma poly_six_positions :
  poly_case 22 6 7 [21;22;23;24;25;26] [0;3;6]
    = Some ([21;22;23;24;25;26; 0;0; 0;0; 1;2;3;4;5;6;7;8;9;10], [0;3;6;8;10;13;17;20]) /\
  poly_case 22 9 10 [21;22;23;24;25;26] [0;3;6] = Some ([21;22;23;24;25;26; 4;5;6;7;8;9;10], [0;3;6;10;13]) /\
  poly_case 22 11 11 [21;22] [0;2] = Some ([1;2;3;21;22;8;9;10], [0;3;5;8]) /\
  poly_case 22 12 13 [21;22;23;24;25;26] [0;3;6] = Some ([1;2;3;4;5;6;7;21;22;23;24;25;26], [0;3;7;10;13]) /\
  poly_case 22 14 14 [21;22;23] [0;3] = Some ([1;2;3;4;5;6;7;8;9;10; 0;0; 21;22;23], [0;3;7;10;12;15]) /\
  poly_case 22 9 13 [1;1;2;2;3;3;4;4;5;5] [0;2;4;6;8;10] = Some ([1;1;2;2;3;3;4;4;5;5], [0;2;4;6;8;10]) /\
  poly_case 20 14 14 [5;21;22;23] [0;4] = Some ([1;2;3;4;5;6;7;8;9;10; 2;0; 5;21;22;23], [0;3;7;10;12;16]).
Proof. vm_compute. repeat split; reflexivity. Qed.
