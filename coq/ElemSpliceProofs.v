(* ElemSpliceProofs.v -- lemmas and proofs about ElemSplice.v (C10). *)
From Coq Require Import ZArith List Bool Lia.
From CgnsV Require Import ListX ElemSplice.
Import ListNotations.
Local Open Scope Z_scope.

(* ---- the witness of the parent-data defect ---------------------------------------------------------- *)
Definition tri4 : list Z := [1;2;3; 4;5;6; 7;8;9; 10;11;12].
Definition par4 : list Z := [11;12;13;14; 21;22;23;24; 31;32;33;34; 41;42;43;44].
