From Coq Require Import ZArith List.
From CgnsV Require Import AdfChunks AdfChunksProofs.
Theorem C02c_placeholder : True. Proof. exact placeholder. Qed.
Print Assumptions C02c_placeholder.
