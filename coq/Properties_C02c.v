(* Properties_C02c.v -- exported theorems of the third layer of C02: how ADF stores one node's data in data chunks and a
   data-chunk table (model: AdfChunks.v, a transcription of the data side of ADF_interface.c / ADF_internals.c at /repo
   5177c7b; proofs: AdfChunksProofs.v).  Only statements closed by [exact], each followed by Print Assumptions.

   Vocabulary.
   * A history is a list of (operation, allocator answers): PutDims / WriteAll / WriteBlock / WriteStrided / ReadAll /
     ReadBlock / ReadStrided, with the addresses ADFI_file_malloc returned during the call.  [run Cur fa st0 hist] is the
     store (node header + bytes on disk) after it.
   * [good_hist Cur fa st0 hist] is the boolean monitor of the hypotheses, evaluated along the run (ocaml/eng_c02c.ml
     evaluates the same monitors on every real trace):
       alloc_ok   the allocator's answers are normalised pointers below 2^31 blocks, as many as the call needs, and the
                  regions (of the sizes the call asks for) are disjoint from every live chunk, from the live table and from
                  each other -- THE hypothesis on the allocator;
       safe_step  set_dimensions: rank <= 12, extents >= 1, fewer than 2^36 elements (Z arithmetic = C arithmetic);
                  writes: fewer than 65535 chunks (the header field has 4 hex digits); write_block: not a block of zero
                  elements; (wall_safe / wblock_safe / zero_ok are identically true for [Cur]: they describe the three
                  situations the code got wrong before b21b08d / 3f8f7e0 / 5177c7b);
       buf_ok     the caller's buffer holds the bytes the call reads from it.
   * [irun i0 (map fst hist)] is the SPECIFICATION: a plain array of optional bytes computed from the operations alone
     ([istep]): a write overrides exactly the addressed bytes; set_dimensions with the same type and rank keeps the bytes below
     the new size and forgets the rest, any other set_dimensions forgets everything; a strided write into a node that has
     outgrown its storage first makes the new bytes zero.  [None] = never written since the data were last lost.
   * [refines fa I s]: the store has a well-formed chunk list cs ([Inv]: number_of_data_chunks = |cs|; one chunk <-> the header
     points at it, two or more <-> it points at a table that lists exactly cs; every chunk has both tags and its own end
     pointer equal to the table's, 0 < size < 2^40, size a multiple of the element size; chunks and table pairwise
     disjoint), type / dimensions / number of chunks / capacity are the specification's, and every byte the specification
     defines is the byte the chunk list places at that logical offset.
   * [iread I o = Some exp]: o is a read with a valid range of a node that was written after it last grew; [agrees exp l]:
     the answer l has the specified length and equals exp wherever exp is defined. *)
From Coq Require Import ZArith List.
From CgnsV Require Import AdfCodec AdfChunks AdfChunksProofs.
Import ListNotations.
Local Open Scope Z_scope.

(* READ AFTER WRITE, for EVERY history (any sizes, any sequence of growth and shrinking, full / block / strided writes, any
   allocator satisfying alloc_ok): the store refines the plain array, and every full / block / strided read with a valid
   range returns, for every byte written since the node last lost its data, the byte last written to it (frame included:
   the specification changes exactly the addressed bytes), zero for the bytes a strided write initialised, and succeeds. *)
Theorem C02_chunks_read_after_write : forall fa hist, fa_good fa -> good_hist Cur fa st0 hist = true ->
  refines fa (irun i0 (map fst hist)) (run Cur fa st0 hist) /\
  (forall o exp, iread (irun i0 (map fst hist)) o = Some exp ->
     exists l, step Cur fa (run Cur fa st0 hist) o [] = (Ok (ABytes l), run Cur fa st0 hist) /\ agrees exp l = true).
Proof. exact chunks_read_after_write. Qed.
Print Assumptions C02_chunks_read_after_write.

(* THE CHUNK-TABLE INVARIANT is preserved by every operation of every history; a write the specification accepts (valid
   arguments) is accepted by the code, and afterwards the chunks have room for all the node's bytes. *)
Theorem C02_chunks_invariant : forall fa hist, fa_good fa -> good_hist Cur fa st0 hist = true ->
  (exists cs, Inv fa (s_h (run Cur fa st0 hist)) (s_d (run Cur fa st0 hist)) cs) /\
  (forall o al, good_hist Cur fa st0 (hist ++ [(o, al)]) = true -> accepts (irun i0 (map fst hist)) o = true ->
     fst (step Cur fa (run Cur fa st0 hist) o al) = Ok AUnit /\
     exists cs, Inv fa (s_h (run Cur fa st0 (hist ++ [(o, al)]))) (s_d (run Cur fa st0 (hist ++ [(o, al)]))) cs /\
                total_bytes (s_h (run Cur fa st0 (hist ++ [(o, al)]))) <= cap_of cs).
Proof. exact chunks_invariant. Qed.
Print Assumptions C02_chunks_invariant.

(* THE PER-ELEMENT CHUNK LOOKUP of ADF_Write_Data / ADF_Read_Data (relative_offset, past_chunk_sizes, current_chunk_size):
   from any state that designates a chunk of the table ([lk_ok]) and any byte offset not before that chunk and inside the
   capacity, the loop ends on a chunk of the table, never runs past it (no INCOMPLETE_DATA), the offset lies inside that
   chunk, and the address it computes is THE address of that logical byte ([phys] is a function: chunk and offset are
   unique). *)
Theorem C02_chunk_lookup_total : forall cs lk rel, sizes_pos cs -> lk_ok cs lk -> l_past lk <= rel < cap_of cs ->
  exists lk', lookup (l_rest lk) (l_cur lk) (l_past lk) (l_size lk) rel = Ok lk' /\ lk_ok cs lk' /\
    l_past lk' <= rel < l_past lk' + l_size lk' /\
    phys cs rel = Some (cstart (l_cur lk') + HDR + (rel - l_past lk')).
Proof. exact chunk_lookup_total. Qed.
Print Assumptions C02_chunk_lookup_total.

(* ... hence, after every good history, a strided read with a valid selection of a node written after it last grew
   succeeds *)
Theorem C02_chunks_strided_read_never_incomplete : forall fa hist sel, fa_good fa -> good_hist Cur fa st0 hist = true ->
  i_ready (irun i0 (map fst hist)) = true ->
  (exists ps, sel_positions (i_hdr (irun i0 (map fst hist))) sel = Ok ps) ->
  exists l, step Cur fa (run Cur fa st0 hist) (ReadStrided sel) [] = (Ok (ABytes l), run Cur fa st0 hist).
Proof. exact strided_read_never_incomplete. Qed.
Print Assumptions C02_chunks_strided_read_never_incomplete.

(* HISTORICAL WITNESSES (kernel-evaluated; each variant = Cur with ONE commit reverted; the same histories are
   corpus/C02c/*.txt and run on the library first in every check). *)

(* d6f9e64 (unsigned byte count in ADF_Write_Data): 1024 x I4 written, grown to 1536 and block-written across the chunk
   boundary, shrunk to 9, strided write of element 9: refused before the commit (a chunk of about 2^64 bytes is
   requested), accepted now and read back *)
Theorem C02_chunks_shrink_old_refuted :
  good_hist Cur fa_native st0 (wit_shrink ++ [(wit_shrink_op, [])]) = true /\
  res_of Before_d6f9e64 wit_shrink wit_shrink_op [] = Err E_FWRITE /\
  res_of Cur wit_shrink wit_shrink_op [] = Ok AUnit /\
  res_of Cur (wit_shrink ++ [(wit_shrink_op, [])]) (ReadStrided [(9, 9, 1)]) [] = Ok (ABytes [Some 77; Some 0; Some 0; Some 0]).
Proof. exact shrink_old_refuted. Qed.
Print Assumptions C02_chunks_shrink_old_refuted.

(* b21b08d (FOUND BY THIS LAYER): ADF_Write_All_Data moved the end tag of a chunk it filled only partly; after growing back
   and rewriting every element with a strided write, read_all failed with ADF_DISK_TAG_ERROR *)
Theorem C02_chunks_wall_old_refuted :
  good_hist Cur fa_native st0 wit_wall = true /\
  res_of Before_b21b08d wit_wall ReadAll [] = Err E_TAG /\
  res_of Cur wit_wall ReadAll [] = Ok (ABytes (map Some (bseq 1200 4))).
Proof. exact wall_old_refuted. Qed.
Print Assumptions C02_chunks_wall_old_refuted.

(* 3f8f7e0 (FOUND BY THIS LAYER): ADF_Write_Block_Data placed a block inside a newly appended chunk at the wrong offset: the
   addressed elements 301..350 stayed unspecified and elements 201..250 received the data *)
Theorem C02_chunks_wblock_old_refuted :
  good_hist Cur fa_native st0 wit_wblk = true /\
  res_of Before_3f8f7e0 wit_wblk (ReadBlock 301 350) [] = Ok (ABytes (repeat None 200)) /\
  res_of Before_3f8f7e0 wit_wblk (ReadBlock 201 250) [] = Ok (ABytes (map Some (bseq 200 5))) /\
  res_of Cur wit_wblk (ReadBlock 301 350) [] = Ok (ABytes (map Some (bseq 200 5))).
Proof. exact wblock_old_refuted. Qed.
Print Assumptions C02_chunks_wblock_old_refuted.

(* 5177c7b (FOUND BY THIS LAYER): the zero fill of a new chunk of more than 4096 bytes read 4097 bytes from the 4096-byte
   block of zeros when the data area starts on a block boundary (OOBR = what ASan reports) and did not zero the chunk; now
   the whole chunk is zero *)
Theorem C02_chunks_zero_fill_old_refuted :
  good_hist Cur fa_native st0 [(PutDims C1 [5000], []); (wit_zero_op, [(1, 4080)])] = true /\
  res_of Before_5177c7b [(PutDims C1 [5000], [])] wit_zero_op [(1, 4080)] = OOBR 9 /\
  res_of Cur [(PutDims C1 [5000], [])] wit_zero_op [(1, 4080)] = Ok AUnit /\
  res_of Cur [(PutDims C1 [5000], []); (wit_zero_op, [(1, 4080)])] (ReadStrided [(4990, 4999, 1)]) [] = Ok (ABytes (repeat (Some 0) 10)) /\
  res_of Before_5177c7b [(PutDims C1 [5000], []); (wit_zero_op, [(1, 0)])] (ReadStrided [(4990, 4999, 1)]) [] = Ok (ABytes (repeat None 10)).
Proof. exact zero_old_refuted. Qed.
Print Assumptions C02_chunks_zero_fill_old_refuted.

(* 5c54229 (FOUND BY THIS LAYER): ADF_Read_Block_Data zeroed total_bytes - bytes_read bytes of the caller's block_bytes
   buffer on its INCOMPLETE_DATA path (OOBW = heap overflow); now it reports INCOMPLETE_DATA cleanly.  (The path is taken
   only by a node re-dimensioned beyond its capacity and not yet rewritten: outside [iread].) *)
Theorem C02_chunks_rblock_old_refuted :
  good_hist Cur fa_native st0 wit_rblk = true /\
  res_of Before_5c54229 wit_rblk (ReadBlock 11 11) [] = OOBW 7 /\
  res_of Cur wit_rblk (ReadBlock 11 11) [] = Err E_INCOMPLETE.
Proof. exact rblock_old_refuted. Qed.
Print Assumptions C02_chunks_rblock_old_refuted.

(* non-vacuity: the attributes of the files this library writes satisfy fa_good; a history that reaches three chunks,
   shrinks below the first one and grows again satisfies good_hist, and its final state is one [iread] speaks about *)
Example C02c_fa_native_good : fa_good fa_native.
Proof. exact fa_native_good. Qed.
Example C02c_hypotheses_satisfiable :
  good_hist Cur fa_native st0 ex_hist = true /\ i_ready (irun i0 (map fst ex_hist)) = true /\ i_n (irun i0 (map fst ex_hist)) = 3.
Proof. exact ex_hist_good. Qed.
