(* AdfChildTabProofs.v -- the sub-node table (AdfChildTab.v) denotes the ideal ordered child list for every
   add / delete / rename history; names stay unique under the name guard; count <= capacity. *)
From Coq Require Import ZArith List Bool Lia.
From CgnsV Require Import AdfChildTab.
Import ListNotations.
Local Open Scope Z_scope.

Ltac Zify.zify_post_hook ::= Z.div_mod_to_equations.

(* ------------------------------------------------------------------ names *)
Lemma cmp_prefix_spec : forall k nm new, (k <= length nm)%nat -> (k <= length new)%nat ->
  cmp_prefix nm new k = true <-> firstn k nm = firstn k new.
Proof.
  induction k; intros nm new H1 H2; simpl; [split; auto|].
  destruct nm as [|a nm]; [simpl in H1; lia|]. destruct new as [|b new]; [simpl in H2; lia|].
  simpl in *. rewrite andb_true_iff, Z.eqb_eq, IHk by lia. split.
  - intros [-> ->]. reflexivity.
  - intros H. inversion H. auto.
Qed.

Lemma forallb_blank l : forallb (fun c => c =? 32) l = true <-> l = repeat 32 (length l).
Proof.
  induction l as [|a l IH]; simpl; [split; auto|]. rewrite andb_true_iff, Z.eqb_eq, IH. split.
  - intros [-> H]. now rewrite <- H.
  - intros H. inversion H. split; auto. now rewrite <- H2.
Qed.

Lemma pad32_length nm : (length nm <= ADF_NAME_LENGTH)%nat -> length (pad32 nm) = ADF_NAME_LENGTH.
Proof. intros H. unfold pad32. rewrite app_length, firstn_length, repeat_length. lia. Qed.

Lemma names_match_pad32 nm new : length nm = ADF_NAME_LENGTH -> names_match nm new = true <-> nm = pad32 new.
Proof.
  intros Hl. unfold names_match, pad32.
  set (k := Nat.min (length new) ADF_NAME_LENGTH).
  rewrite andb_true_iff, cmp_prefix_spec by (unfold k; lia).
  rewrite forallb_blank.
  assert (Hlen : length (firstn (ADF_NAME_LENGTH - k) (skipn k nm)) = (ADF_NAME_LENGTH - k)%nat)
    by (rewrite firstn_length, skipn_length; lia).
  rewrite Hlen.
  assert (Hall : firstn (ADF_NAME_LENGTH - k) (skipn k nm) = skipn k nm)
    by (apply firstn_all2; rewrite skipn_length; lia).
  rewrite Hall.
  assert (Hk1 : firstn k new = firstn ADF_NAME_LENGTH new).
  { unfold k. destruct (Nat.le_ge_cases (length new) ADF_NAME_LENGTH).
    - rewrite Nat.min_l by auto. rewrite !firstn_all2; auto.
    - now rewrite Nat.min_r by auto. }
  assert (Hk2 : (ADF_NAME_LENGTH - k = ADF_NAME_LENGTH - length new)%nat) by (unfold k; lia).
  rewrite Hk1, Hk2. split.
  - intros [A B]. rewrite <- (firstn_skipn k nm) at 1. rewrite A, B. reflexivity.
  - intros H.
    assert (Hf : length (firstn ADF_NAME_LENGTH new) = k) by (rewrite firstn_length; unfold k; lia).
    split.
    + rewrite H at 1. rewrite firstn_app, Hf, Nat.sub_diag, firstn_O, app_nil_r.
      apply firstn_all2. rewrite Hf. apply le_n.
    + rewrite H at 1. rewrite skipn_app, Hf, Nat.sub_diag, skipn_O.
      rewrite skipn_all2 by (rewrite Hf; apply le_n). reflexivity.
Qed.

(* ------------------------------------------------------------------ searching the first n entries *)
Lemma find_name_spec : forall n l new,
  match find_name l n new with
  | Some i => (i < n)%nat /\ (i < length l)%nat /\ names_match (fst (nth i l (unused_name, (0, 0)))) new = true /\
              has_name (firstn i l) new = false
  | None => has_name (firstn n l) new = false
  end.
Proof.
  induction n; intros l new; simpl; [destruct l; reflexivity|].
  destruct l as [|e r]; [reflexivity|]. simpl.
  destruct (names_match (fst e) new) eqn:E.
  - repeat split; auto; lia.
  - specialize (IHn r new). destruct (find_name r n new) as [i|].
    + destruct IHn as (A & B & C & D). split; [lia|]. split; [lia|]. split; [exact C|].
      change (firstn (S i) (e :: r)) with (e :: firstn i r). unfold has_name in *. cbn [existsb]. apply orb_false_iff. split; [exact E|exact D].
    + unfold has_name in *. cbn [existsb firstn]. apply orb_false_iff. split; [exact E|exact IHn].
Qed.

Lemma find_ptr_spec : forall n l child,
  match find_ptr l n child with
  | Some i => (i < n)%nat /\ (i < length l)%nat /\
              remove_first (firstn n l) child = firstn i l ++ firstn (n - 1 - i) (skipn (S i) l)
  | None => remove_first (firstn n l) child = firstn n l
  end.
Proof.
  induction n; intros l child; simpl; [destruct l; reflexivity|].
  destruct l as [|e r]; [reflexivity|]. simpl.
  destruct (ptr_eqb (snd e) child) eqn:E.
  - repeat split; try lia. rewrite !Nat.sub_0_r. reflexivity.
  - specialize (IHn r child). destruct (find_ptr r n child) as [i|].
    + destruct IHn as (A & B & C). repeat split; try lia. rewrite C.
      change (skipn (S (S i)) (e :: r)) with (skipn (S i) r). change (firstn (S i) (e :: r)) with (e :: firstn i r).
      replace (n - 0 - S i)%nat with (n - 1 - i)%nat by lia. reflexivity.
    + now rewrite IHn.
Qed.

Lemma check_child_none t new : 0 <= num t -> header_bad t = false -> table_bad t = false ->
  check_child t new = None <-> has_name (children t) new = false.
Proof.
  intros Hn Hhb Htb. unfold check_child, children. rewrite Hhb, Htb, andb_false_r.
  destruct (Z.eqb_spec (num t) 0) as [E|E].
  - rewrite E. simpl. tauto.
  - pose proof (find_name_spec (Z.to_nat (num t)) (ents t) new) as H.
    destruct (find_name (ents t) (Z.to_nat (num t)) new) as [i|].
    + destruct H as (A & B & C & D). split; [discriminate|]. intros H.
      exfalso. unfold has_name in H.
      assert (Hex : existsb (fun e => names_match (fst e) new) (firstn (Z.to_nat (num t)) (ents t)) = true).
      { apply existsb_exists. exists (nth i (ents t) (unused_name, (0, 0))). split; auto.
        rewrite <- (firstn_skipn (Z.to_nat (num t)) (ents t)) at 1.
        rewrite app_nth1 by (rewrite firstn_length; lia). apply nth_In. rewrite firstn_length. lia. }
      congruence.
    + tauto.
Qed.

(* ------------------------------------------------------------------ well-formed tables *)
Record WFc (t : ctab) : Prop := mkWFc {
  wfc_num : 0 <= num t <= cap t;
  wfc_len : length (ents t) = Z.to_nat (cap t);
  wfc_cap : cap t = 0 \/ LIST_CHUNK <= cap t
}.

Lemma empty_WFc : WFc empty_tab.
Proof. constructor; simpl; auto; lia. Qed.

Lemma WFc_ok t : WFc t -> header_bad t = false /\ table_bad t = false.
Proof.
  intros [Hn Hl Hc]. unfold header_bad, table_bad. split.
  - destruct (Z.gtb_spec (num t) (cap t)); auto; lia.
  - rewrite Hl. destruct (Z.eqb_spec (Z.of_nat (Z.to_nat (cap t))) (cap t)); auto; lia.
Qed.

Lemma add_child_spec t nm child : WFc t -> cap t < FLOAT_EXACT ->
  exists t', add_child t nm child = Some (COk t') /\ WFc t' /\ children t' = children t ++ [(nm, child)] /\
             cap t <= cap t' /\ cap t' <= Z.max LIST_CHUNK (cap t * 3 / 2) /\ (cap t' = cap t \/ num t = cap t).
Proof.
  intros HW Hsmall. destruct (WFc_ok t HW) as [Hhb Htb]. destruct HW as [Hn Hl Hc].
  unfold add_child, children. rewrite Hhb, Htb, andb_false_r. unfold LIST_CHUNK, FLOAT_EXACT in *.
  destruct (Z.leb_spec (cap t) (num t)) as [Hfull|Hroom].
  - assert (Heq : num t = cap t) by lia.
    destruct (Z.leb_spec 16777216 (cap t)); [lia|].
    assert (Hg : num t < grow (cap t)).
    { unfold grow, LIST_CHUNK. destruct (Z.eqb_spec (cap t) 0); lia. }
    destruct (Z.leb_spec (grow (cap t)) (num t)); [lia|].
    eexists. split; [reflexivity|]. cbn [cap num ents].
    assert (Hk : firstn (Z.to_nat (num t)) (ents t) = ents t) by (apply firstn_all2; lia).
    split; [|split; [|split; [|split]]].
    + constructor; cbn [cap num ents]; try lia.
      * rewrite Hk, app_length. simpl. rewrite repeat_length. lia.
      * unfold grow, LIST_CHUNK in *. destruct (Z.eqb_spec (cap t) 0); lia.
    + rewrite Hk. replace (Z.to_nat (num t + 1)) with (length (ents t) + 1)%nat by lia.
      rewrite firstn_app, firstn_all2 by lia. replace (length (ents t) + 1 - length (ents t))%nat with 1%nat by lia.
      reflexivity.
    + unfold grow, LIST_CHUNK. destruct (Z.eqb_spec (cap t) 0); lia.
    + unfold grow, LIST_CHUNK. destruct (Z.eqb_spec (cap t) 0); lia.
    + right; auto.
  - eexists. split; [reflexivity|]. cbn [cap num ents].
    assert (Hfl : length (firstn (Z.to_nat (num t)) (ents t)) = Z.to_nat (num t)) by (rewrite firstn_length; lia).
    split; [|split; [|split; [|split]]]; try lia.
    + constructor; cbn [cap num ents]; try lia; auto.
      rewrite app_length. cbn [length]. rewrite Hfl, skipn_length. lia.
    + replace (Z.to_nat (num t + 1)) with (Z.to_nat (num t) + 1)%nat by lia.
      rewrite firstn_app, Hfl. rewrite firstn_all2 by lia.
      replace (Z.to_nat (num t) + 1 - Z.to_nat (num t))%nat with 1%nat by lia. reflexivity.
Qed.

Lemma del_child_spec t child : WFc t ->
  match del_child t child with
  | COk t' => WFc t' /\ children t' = remove_first (children t) child /\ cap t' = cap t
  | CErr _ => remove_first (children t) child = children t
  end.
Proof.
  intros HW. destruct (WFc_ok t HW) as [Hhb Htb]. destruct HW as [Hn Hl Hc]. unfold del_child, children.
  rewrite Hhb, Htb. cbn [orb].
  pose proof (find_ptr_spec (Z.to_nat (num t)) (ents t) child) as H.
  destruct (find_ptr (ents t) (Z.to_nat (num t)) child) as [i|]; auto.
  destruct H as (A & B & C). cbn [cap num ents].
  set (n := Z.to_nat (num t)) in *.
  assert (L1 : length (firstn i (ents t)) = i) by (rewrite firstn_length; lia).
  assert (L2 : length (firstn (n - 1 - i) (skipn (S i) (ents t))) = (n - 1 - i)%nat)
    by (rewrite firstn_length, skipn_length; lia).
  split; [|split; auto].
  - constructor; cbn [cap num ents]; try lia; auto.
    rewrite !app_length. cbn [length]. rewrite L1, L2, skipn_length. lia.
  - rewrite C. replace (Z.to_nat (num t - 1)) with (i + (n - 1 - i))%nat by lia.
    rewrite app_assoc. rewrite firstn_app. rewrite app_length, L1, L2.
    replace (i + (n - 1 - i) - (i + (n - 1 - i)))%nat with 0%nat by lia. rewrite firstn_O, app_nil_r.
    apply firstn_all2. rewrite app_length, L1, L2. lia.
Qed.

Lemma rename_first_spec : forall n l old new i,
  find_name l n old = Some i ->
  rename_first (firstn n l) old new =
  firstn n (firstn i l ++ (pad32 new, snd (nth i l (unused_name, (0, 0)))) :: skipn (S i) l).
Proof.
  induction n; intros l old new i H; [destruct l; discriminate|].
  destruct l as [|e r]; [discriminate|]. cbn [find_name] in H. cbn [firstn rename_first].
  destruct (names_match (fst e) old) eqn:E.
  - injection H as <-. reflexivity.
  - destruct (find_name r n old) as [j|] eqn:Ej; [|discriminate]. injection H as <-.
    change (firstn (S j) (e :: r)) with (e :: firstn j r). change (skipn (S (S j)) (e :: r)) with (skipn (S j) r).
    change (nth (S j) (e :: r) (unused_name, (0, 0))) with (nth j r (unused_name, (0, 0))).
    cbn [app firstn]. f_equal. now apply IHn.
Qed.

Lemma rename_child_spec t old new : WFc t ->
  match rename_child t old new with
  | COk t' => WFc t' /\ has_name (children t) new = false /\ children t' = rename_first (children t) old new /\ cap t' = cap t
  | CErr _ => has_name (children t) new = true \/ rename_first (children t) old new = children t
  end.
Proof.
  intros HW. destruct (WFc_ok t HW) as [Hhb Htb]. destruct HW as [Hn Hl Hc]. unfold rename_child.
  destruct (check_child t new) as [x|] eqn:En.
  - left. destruct (has_name (children t) new) eqn:E; auto. apply check_child_none in E; auto; [congruence|lia].
  - apply check_child_none in En; auto; [|lia].
    unfold check_child. rewrite Hhb, Htb, andb_false_r. destruct (Z.eqb_spec (num t) 0) as [E0|E0].
    + right. unfold children. rewrite E0. reflexivity.
    + pose proof (find_name_spec (Z.to_nat (num t)) (ents t) old) as H.
      destruct (find_name (ents t) (Z.to_nat (num t)) old) as [i|] eqn:Ei.
      * destruct H as (A & B & C & D).
        destruct (nth i (ents t) (unused_name, (0, 0))) as [nm p] eqn:Enth. cbn [cap num ents].
        assert (L1 : length (firstn i (ents t)) = i) by (rewrite firstn_length; lia).
        split; [|split; [auto|split; auto]].
        -- constructor; cbn [cap num ents]; try lia; auto.
           rewrite app_length. cbn [length]. rewrite L1, skipn_length. lia.
        -- unfold children. cbn [num ents]. rewrite (rename_first_spec _ _ _ _ _ Ei). rewrite Enth. reflexivity.
      * right. unfold children. clear -H.
        revert H. generalize (Z.to_nat (num t)) as n. generalize (ents t) as l.
        intros l n. revert l. induction n; intros [|e r] H; cbn [firstn rename_first] in *; auto.
        unfold has_name in H. cbn [existsb] in H. apply orb_false_iff in H. destruct H as [H1 H2].
        assert (E : names_match (fst e) old = false) by exact H1. rewrite E. f_equal. apply IHn. exact H2.
Qed.

(* ------------------------------------------------------------------ histories *)
Definition names_ok (l : list centry) : Prop := Forall (fun e => length (fst e) = ADF_NAME_LENGTH) l.

Lemma has_name_false_notin l nm : names_ok l -> has_name l nm = false -> ~ In (pad32 nm) (map fst l).
Proof.
  intros Hok Hn Hin. apply in_map_iff in Hin. destruct Hin as (e & He & Hin).
  unfold has_name in Hn. assert (Ht : existsb (fun e => names_match (fst e) nm) l = true).
  { apply existsb_exists. exists e. split; auto. apply names_match_pad32; auto.
    unfold names_ok in Hok. rewrite Forall_forall in Hok. auto. }
  congruence.
Qed.

Lemma remove_first_sub l c : forall e, In e (remove_first l c) -> In e l.
Proof.
  induction l as [|a r IH]; simpl; auto. intros e. destruct (ptr_eqb (snd a) c); simpl; auto.
  intros [->|H]; auto.
Qed.
Lemma remove_first_nodup l c : NoDup (map fst l) -> NoDup (map fst (remove_first l c)).
Proof.
  induction l as [|a r IH]; simpl; auto. intros H. inversion H; subst.
  destruct (ptr_eqb (snd a) c); auto. simpl. constructor; auto.
  intros Hin. apply H2. apply in_map_iff in Hin. destruct Hin as (e & He & Hin). apply in_map_iff. exists e.
  split; auto. eapply remove_first_sub; eauto.
Qed.
Lemma remove_first_names_ok l c : names_ok l -> names_ok (remove_first l c).
Proof.
  unfold names_ok. rewrite !Forall_forall. intros H e He. apply H. eapply remove_first_sub; eauto.
Qed.

Lemma rename_first_names l old new :
  forall x, In x (map fst (rename_first l old new)) -> x = pad32 new \/ In x (map fst l).
Proof.
  induction l as [|a r IH]; simpl; auto. intros x. destruct (names_match (fst a) old); simpl.
  - intros [<-|H]; auto.
  - intros [<-|H]; auto. apply IH in H. tauto.
Qed.
Lemma rename_first_nodup l old new : NoDup (map fst l) -> ~ In (pad32 new) (map fst l) ->
  NoDup (map fst (rename_first l old new)).
Proof.
  induction l as [|a r IH]; simpl; auto. intros H Hn. inversion H; subst.
  destruct (names_match (fst a) old); simpl.
  - constructor; auto.
  - constructor; [|apply IH; auto]. intros Hin. apply rename_first_names in Hin. destruct Hin as [E|Hin]; auto.
Qed.
Lemma rename_first_names_ok l old new : (length new <= ADF_NAME_LENGTH)%nat -> names_ok l -> names_ok (rename_first l old new).
Proof.
  intros Hl. unfold names_ok. induction l as [|a r IH]; simpl; auto. intros H. inversion H; subst.
  destruct (names_match (fst a) old); constructor; auto. simpl. now apply pad32_length.
Qed.

Lemma NoDup_snoc {A} (l : list A) a : NoDup l -> ~ In a l -> NoDup (l ++ [a]).
Proof.
  induction l as [|b l IH]; simpl; intros H Hn.
  - constructor; auto; constructor.
  - inversion H; subst. constructor.
    + intro Hin. apply in_app_or in Hin. destruct Hin as [Hin|[<-|[]]]; auto.
    + apply IH; auto.
Qed.

Record CInv (t : ctab) (K : Z) : Prop := mkCInv {
  ci_wf : WFc t;
  ci_names : names_ok (children t);
  ci_nodup : NoDup (map fst (children t));
  ci_num : num t <= K;
  ci_cap : cap t <= LIST_CHUNK + 2 * K
}.

Lemma good_name_len nm : good_name nm = true -> (length nm <= ADF_NAME_LENGTH)%nat.
Proof. unfold good_name. rewrite andb_true_iff. intros [_ H]. now apply Nat.leb_le in H. Qed.

Lemma cstep_inv t K p : CInv t K -> 0 <= K < 8000000 -> good_op p = true ->
  exists t', cstep t p = Some t' /\ CInv t' (K + 1) /\ children t' = ideal_cstep (children t) p.
Proof.
  intros [HW Hnm Hnd Hn Hc] HK Hg. pose proof (wfc_num _ HW) as Hnum. destruct (WFc_ok t HW) as [Hhb Htb]. pose proof (eq_refl : LIST_CHUNK = 8) as HLC.
  destruct p as [nm child|child|old new]; cbn [cstep ideal_cstep good_op] in *.
  - (* add *)
    destruct (check_child t nm) as [x|] eqn:Ech.
    + assert (Hh : has_name (children t) nm = true).
      { destruct (has_name (children t) nm) eqn:E; auto. apply check_child_none in E; auto; [congruence|lia]. }
      rewrite Hh. exists t. split; auto. split; auto. constructor; auto; lia.
    + apply check_child_none in Ech; auto; [|lia]. rewrite Ech.
      destruct (add_child_spec t (pad32 nm) child HW ltac:(unfold FLOAT_EXACT; lia)) as (t' & Ea & HW' & Hch & C1 & C2 & C3).
      rewrite Ea. exists t'. split; auto. split; auto.
      pose proof (wfc_num _ HW') as Hnum'.
      constructor; auto.
      * rewrite Hch. unfold names_ok. apply Forall_app. split; auto. constructor; auto. simpl.
        apply pad32_length. now apply good_name_len.
      * rewrite Hch, map_app. simpl. apply NoDup_snoc; auto. now apply has_name_false_notin.
      * (* num t' = num t + 1: from the children lists *)
        assert (Hlen : length (children t') = S (length (children t))) by (rewrite Hch, app_length; simpl; lia).
        unfold children in Hlen. rewrite !firstn_length in Hlen.
        pose proof (wfc_len _ HW) as L. pose proof (wfc_len _ HW') as L'. lia.
      * destruct C3 as [C3|C3]; lia.
  - (* delete *)
    pose proof (del_child_spec t child HW) as H. destruct (del_child t child) as [t'|e].
    + destruct H as (HW' & Hch & Hcap). exists t'. split; auto. split; auto.
      pose proof (wfc_num _ HW') as Hnum'.
      constructor; auto.
      * rewrite Hch. now apply remove_first_names_ok.
      * rewrite Hch. now apply remove_first_nodup.
      * assert (Hlen : (length (children t') <= length (children t))%nat).
        { rewrite Hch. clear. induction (children t) as [|a r IH]; simpl; auto. destruct (ptr_eqb (snd a) child); simpl; lia. }
        unfold children in Hlen. rewrite !firstn_length in Hlen.
        pose proof (wfc_len _ HW) as L. pose proof (wfc_len _ HW') as L'. lia.
      * lia.
    + exists t. split; auto. split; auto. constructor; auto; lia.
  - (* rename *)
    apply andb_true_iff in Hg. destruct Hg as [Hg1 Hg2].
    pose proof (rename_child_spec t old new HW) as H. destruct (rename_child t old new) as [t'|e].
    + destruct H as (HW' & Hh & Hch & Hcap). rewrite Hh. exists t'. split; auto. split; auto.
      pose proof (wfc_num _ HW') as Hnum'.
      constructor; auto.
      * rewrite Hch. apply rename_first_names_ok; auto. now apply good_name_len.
      * rewrite Hch. apply rename_first_nodup; auto. now apply has_name_false_notin.
      * assert (Hlen : length (children t') = length (children t)).
        { rewrite Hch. clear. induction (children t) as [|a r IH]; simpl; auto. destruct (names_match (fst a) old); simpl; lia. }
        unfold children in Hlen. rewrite !firstn_length in Hlen.
        pose proof (wfc_len _ HW) as L. pose proof (wfc_len _ HW') as L'. lia.
      * lia.
    + exists t. split; auto. split; [constructor; auto; lia|].
      destruct H as [H|H]; [now rewrite H|]. destruct (has_name (children t) new); auto.
Qed.

Lemma crun_inv : forall h t K, CInv t K -> 0 <= K -> K + Z.of_nat (length h) < 8000000 -> forallb good_op h = true ->
  exists t', crun t h = Some t' /\ CInv t' (K + Z.of_nat (length h)) /\ children t' = ideal_crun (children t) h.
Proof.
  induction h as [|p r IH]; intros t K HI HK Hlen Hg.
  - exists t. simpl. rewrite Z.add_0_r. auto.
  - simpl in Hg. apply andb_true_iff in Hg. destruct Hg as [Hg1 Hg2].
    simpl length in Hlen. destruct (cstep_inv t K p HI ltac:(lia) Hg1) as (t1 & E1 & HI1 & C1).
    destruct (IH t1 (K + 1) HI1 ltac:(lia) ltac:(lia) Hg2) as (t' & E' & HI' & C').
    exists t'. cbn [crun ideal_crun]. rewrite E1. split; auto. split.
    + replace (K + Z.of_nat (length (p :: r))) with (K + 1 + Z.of_nat (length r)) by (simpl length; lia). auto.
    + now rewrite <- C1.
Qed.

Lemma empty_CInv : CInv empty_tab 0.
Proof.
  constructor.
  - apply empty_WFc.
  - constructor.
  - constructor.
  - simpl. lia.
  - unfold LIST_CHUNK. simpl. lia.
Qed.

(* for EVERY add / delete / rename history (below 8 million calls: the (float) growth arithmetic is exact there)
   the table exists, its first num entries ARE the ideal ordered list -- append at the end, delete keeps the
   order of the others, rename in place --, names are unique, count <= capacity *)
Theorem children_refine_list : forall h,
  forallb good_op h = true -> Z.of_nat (length h) < 8000000 ->
  exists t, crun empty_tab h = Some t /\
            children t = ideal_crun [] h /\
            NoDup (map fst (children t)) /\
            0 <= num t <= cap t /\ length (ents t) = Z.to_nat (cap t) /\
            (cap t = 0 \/ LIST_CHUNK <= cap t).
Proof.
  intros h Hg Hl.
  destruct (crun_inv h empty_tab 0 empty_CInv ltac:(lia) ltac:(lia) Hg) as (t & E & [HW Hn Hd _ _] & C).
  exists t. split; auto. split; [exact C|]. split; auto. destruct HW; auto.
Qed.

(* the ideal list operations are what they should be *)
Lemma ideal_add_appends l nm child : has_name l nm = false -> ideal_cstep l (CAdd nm child) = l ++ [(pad32 nm, child)].
Proof. intros H. simpl. now rewrite H. Qed.
Lemma ideal_del_keeps_order l child :
  (has_ptr l child = false /\ ideal_cstep l (CDel child) = l) \/
  (exists a e b, l = a ++ e :: b /\ ptr_eqb (snd e) child = true /\ has_ptr a child = false /\
                 ideal_cstep l (CDel child) = a ++ b).
Proof.
  unfold has_ptr. cbn [ideal_cstep]. induction l as [|x r IH]; cbn [remove_first existsb].
  - left. auto.
  - destruct (ptr_eqb (snd x) child) eqn:E.
    + right. exists [], x, r. auto.
    + cbn [orb]. destruct IH as [[H1 H2]|(a & e & b & H1 & H2 & H3 & H4)].
      * left. split; auto. now rewrite H2.
      * right. exists (x :: a), e, b. subst r. cbn [existsb app]. rewrite E, H3, H4. auto.
Qed.
