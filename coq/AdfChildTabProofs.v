(* AdfChildTabProofs.v -- the sub-node table (AdfChildTab.v) denotes the ideal ordered child list for every
   add / delete / rename history; names stay unique under the name guard; count <= capacity. *)
From Coq Require Import ZArith List Bool Lia.
From CgnsV Require Import AdfChildTab.
Import ListNotations.
Local Open Scope Z_scope.

Ltac Zify.zify_post_hook ::= Z.div_mod_to_equations.

(* ------------------------------------------------------------------ names *)
Lemma cmp_prefix_spec : forall k nm new, (k <= length nm)%nat -> (k <= length new)%nat ->
  cmp_prefix nm new k = true <-> firstn k nm = firstn k new.
Proof.
  induction k; intros nm new H1 H2; simpl; [split; auto|].
  destruct nm as [|a nm]; [simpl in H1; lia|]. destruct new as [|b new]; [simpl in H2; lia|].
  simpl in *. rewrite andb_true_iff, Z.eqb_eq, IHk by lia. split.
  - intros [-> ->]. reflexivity.
  - intros H. inversion H. auto.
Qed.

Lemma forallb_blank l : forallb (fun c => c =? 32) l = true <-> l = repeat 32 (length l).
Proof.
  induction l as [|a l IH]; simpl; [split; auto|]. rewrite andb_true_iff, Z.eqb_eq, IH. split.
  - intros [-> H]. now rewrite <- H.
  - intros H. inversion H. split; auto. now rewrite <- H2.
Qed.

Lemma pad32_length nm : (length nm <= ADF_NAME_LENGTH)%nat -> length (pad32 nm) = ADF_NAME_LENGTH.
Proof. intros H. unfold pad32. rewrite app_length, firstn_length, repeat_length. lia. Qed.

Lemma names_match_pad32 nm new : length nm = ADF_NAME_LENGTH -> names_match nm new = true <-> nm = pad32 new.
Proof.
  intros Hl. unfold names_match, pad32.
  set (k := Nat.min (length new) ADF_NAME_LENGTH).
  rewrite andb_true_iff, cmp_prefix_spec by (unfold k; lia).
  rewrite forallb_blank.
  assert (Hlen : length (firstn (ADF_NAME_LENGTH - k) (skipn k nm)) = (ADF_NAME_LENGTH - k)%nat)
    by (rewrite firstn_length, skipn_length; lia).
  rewrite Hlen.
  assert (Hall : firstn (ADF_NAME_LENGTH - k) (skipn k nm) = skipn k nm)
    by (apply firstn_all2; rewrite skipn_length; lia).
  rewrite Hall.
  assert (Hk1 : firstn k new = firstn ADF_NAME_LENGTH new).
  { unfold k. destruct (Nat.le_ge_cases (length new) ADF_NAME_LENGTH).
    - rewrite Nat.min_l by auto. rewrite !firstn_all2; auto.
    - now rewrite Nat.min_r by auto. }
  assert (Hk2 : (ADF_NAME_LENGTH - k = ADF_NAME_LENGTH - length new)%nat) by (unfold k; lia).
  rewrite Hk1, Hk2. split.
  - intros [A B]. rewrite <- (firstn_skipn k nm) at 1. rewrite A, B. reflexivity.
  - intros H.
    assert (Hf : length (firstn ADF_NAME_LENGTH new) = k) by (rewrite firstn_length; unfold k; lia).
    split.
    + rewrite H at 1. rewrite firstn_app, Hf, Nat.sub_diag, firstn_O, app_nil_r.
      apply firstn_all2. rewrite Hf. apply le_n.
    + rewrite H at 1. rewrite skipn_app, Hf, Nat.sub_diag, skipn_O.
      rewrite skipn_all2 by (rewrite Hf; apply le_n). reflexivity.
Qed.

(* ------------------------------------------------------------------ searching the first n entries *)
Lemma find_name_spec : forall n l new,
  match find_name l n new with
  | Some i => (i < n)%nat /\ (i < length l)%nat /\ names_match (fst (nth i l (unused_name, (0, 0)))) new = true /\
              has_name (firstn i l) new = false
  | None => has_name (firstn n l) new = false
  end.
Proof.
  induction n; intros l new; simpl; [destruct l; reflexivity|].
  destruct l as [|e r]; [reflexivity|]. simpl.
  destruct (names_match (fst e) new) eqn:E.
  - repeat split; auto; lia.
  - specialize (IHn r new). destruct (find_name r n new) as [i|].
    + destruct IHn as (A & B & C & D). split; [lia|]. split; [lia|]. split; [exact C|].
      change (firstn (S i) (e :: r)) with (e :: firstn i r). unfold has_name in *. cbn [existsb]. apply orb_false_iff. split; [exact E|exact D].
    + unfold has_name in *. cbn [existsb firstn]. apply orb_false_iff. split; [exact E|exact IHn].
Qed.

Lemma find_ptr_spec : forall n l child,
  match find_ptr l n child with
  | Some i => (i < n)%nat /\ (i < length l)%nat /\
              remove_first (firstn n l) child = firstn i l ++ firstn (n - 1 - i) (skipn (S i) l)
  | None => remove_first (firstn n l) child = firstn n l
  end.
Proof.
  induction n; intros l child; simpl; [destruct l; reflexivity|].
  destruct l as [|e r]; [reflexivity|]. simpl.
  destruct (ptr_eqb (snd e) child) eqn:E.
  - repeat split; try lia. rewrite !Nat.sub_0_r. reflexivity.
  - specialize (IHn r child). destruct (find_ptr r n child) as [i|].
    + destruct IHn as (A & B & C). repeat split; try lia. rewrite C.
      change (skipn (S (S i)) (e :: r)) with (skipn (S i) r). change (firstn (S i) (e :: r)) with (e :: firstn i r).
      replace (n - 0 - S i)%nat with (n - 1 - i)%nat by lia. reflexivity.
    + now rewrite IHn.
Qed.

Lemma check_child_none t new : 0 <= num t -> check_child t new = None <-> has_name (children t) new = false.
Proof.
  intros Hn. unfold check_child, children. destruct (Z.eqb_spec (num t) 0) as [E|E].
  - rewrite E. simpl. tauto.
  - pose proof (find_name_spec (Z.to_nat (num t)) (ents t) new) as H.
    destruct (find_name (ents t) (Z.to_nat (num t)) new) as [i|].
    + destruct H as (A & B & C & D). split; [discriminate|]. intros H.
      exfalso. unfold has_name in H.
      assert (Hex : existsb (fun e => names_match (fst e) new) (firstn (Z.to_nat (num t)) (ents t)) = true).
      { apply existsb_exists. exists (nth i (ents t) (unused_name, (0, 0))). split; auto.
        rewrite <- (firstn_skipn (Z.to_nat (num t)) (ents t)) at 1.
        rewrite app_nth1 by (rewrite firstn_length; lia). apply nth_In. rewrite firstn_length. lia. }
      congruence.
    + tauto.
Qed.

(* ------------------------------------------------------------------ well-formed tables *)
Record WFc (t : ctab) : Prop := mkWFc {
  wfc_num : 0 <= num t <= cap t;
  wfc_len : length (ents t) = Z.to_nat (cap t);
  wfc_cap : cap t = 0 \/ LIST_CHUNK <= cap t
}.

Lemma empty_WFc : WFc empty_tab.
Proof. constructor; simpl; auto; lia. Qed.

Lemma add_child_spec t nm child : WFc t -> cap t < FLOAT_EXACT ->
  exists t', add_child t nm child = Some (COk t') /\ WFc t' /\ children t' = children t ++ [(nm, child)] /\
             cap t <= cap t' /\ cap t' <= Z.max LIST_CHUNK (cap t * 3 / 2) /\ (cap t' = cap t \/ num t = cap t).
Proof.
  intros [Hn Hl Hc] Hsmall. unfold add_child, children. unfold LIST_CHUNK, FLOAT_EXACT in *.
  destruct (Z.leb_spec (cap t) (num t)) as [Hfull|Hroom].
  - assert (Heq : num t = cap t) by lia.
    destruct (Z.leb_spec 16777216 (cap t)); [lia|].
    assert (Hg : num t < grow (cap t)).
    { unfold grow, LIST_CHUNK. destruct (Z.eqb_spec (cap t) 0); lia. }
    destruct (Z.leb_spec (grow (cap t)) (num t)); [lia|].
    eexists. split; [reflexivity|]. cbn [cap num ents].
    assert (Hk : firstn (Z.to_nat (num t)) (ents t) = ents t) by (apply firstn_all2; lia).
    split; [|split; [|split; [|split]]].
    + constructor; cbn [cap num ents]; try lia.
      * rewrite Hk, app_length. simpl. rewrite repeat_length. lia.
      * unfold grow, LIST_CHUNK in *. destruct (Z.eqb_spec (cap t) 0); lia.
    + rewrite Hk. replace (Z.to_nat (num t + 1)) with (length (ents t) + 1)%nat by lia.
      rewrite firstn_app, firstn_all2 by lia. replace (length (ents t) + 1 - length (ents t))%nat with 1%nat by lia.
      reflexivity.
    + unfold grow, LIST_CHUNK. destruct (Z.eqb_spec (cap t) 0); lia.
    + unfold grow, LIST_CHUNK. destruct (Z.eqb_spec (cap t) 0); lia.
    + right; auto.
  - eexists. split; [reflexivity|]. cbn [cap num ents].
    assert (Hfl : length (firstn (Z.to_nat (num t)) (ents t)) = Z.to_nat (num t)) by (rewrite firstn_length; lia).
    split; [|split; [|split; [|split]]]; try lia.
    + constructor; cbn [cap num ents]; try lia; auto.
      rewrite app_length. cbn [length]. rewrite Hfl, skipn_length. lia.
    + replace (Z.to_nat (num t + 1)) with (Z.to_nat (num t) + 1)%nat by lia.
      rewrite firstn_app, Hfl. rewrite firstn_all2 by lia.
      replace (Z.to_nat (num t) + 1 - Z.to_nat (num t))%nat with 1%nat by lia. reflexivity.
Qed.

Lemma del_child_spec t child : WFc t ->
  match del_child t child with
  | COk t' => WFc t' /\ children t' = remove_first (children t) child /\ cap t' = cap t
  | CErr _ => remove_first (children t) child = children t
  end.
Proof.
  intros [Hn Hl Hc]. unfold del_child, children.
  pose proof (find_ptr_spec (Z.to_nat (num t)) (ents t) child) as H.
  destruct (find_ptr (ents t) (Z.to_nat (num t)) child) as [i|]; auto.
  destruct H as (A & B & C). cbn [cap num ents].
  set (n := Z.to_nat (num t)) in *.
  assert (L1 : length (firstn i (ents t)) = i) by (rewrite firstn_length; lia).
  assert (L2 : length (firstn (n - 1 - i) (skipn (S i) (ents t))) = (n - 1 - i)%nat)
    by (rewrite firstn_length, skipn_length; lia).
  split; [|split; auto].
  - constructor; cbn [cap num ents]; try lia; auto.
    rewrite !app_length. cbn [length]. rewrite L1, L2, skipn_length. lia.
  - rewrite C. replace (Z.to_nat (num t - 1)) with (i + (n - 1 - i))%nat by lia.
    rewrite app_assoc. rewrite firstn_app. rewrite app_length, L1, L2.
    replace (i + (n - 1 - i) - (i + (n - 1 - i)))%nat with 0%nat by lia. simpl. rewrite app_nil_r.
    apply firstn_all2. rewrite app_length, L1, L2. lia.
Qed.

Lemma rename_first_spec : forall n l old new i,
  find_name l n old = Some i ->
  rename_first (firstn n l) old new =
  firstn n (firstn i l ++ (pad32 new, snd (nth i l (unused_name, (0, 0)))) :: skipn (S i) l).
Proof.
  induction n; intros l old new i H; simpl in H; [destruct l; discriminate|].
  destruct l as [|e r]; [discriminate|]. simpl.
  destruct (names_match (fst e) old) eqn:E.
  - inversion H; subst i. simpl. rewrite E. reflexivity.
  - destruct (find_name r n old) as [j|] eqn:Ej; [|discriminate]. inversion H; subst i. simpl. rewrite E.
    f_equal. now apply IHn.
Qed.

Lemma rename_child_spec t old new : WFc t ->
  match rename_child t old new with
  | COk t' => WFc t' /\ has_name (children t) new = false /\ children t' = rename_first (children t) old new /\ cap t' = cap t
  | CErr _ => has_name (children t) new = true \/ rename_first (children t) old new = children t
  end.
Proof.
  intros [Hn Hl Hc]. unfold rename_child.
  destruct (check_child t new) as [x|] eqn:En.
  - left. destruct (has_name (children t) new) eqn:E; auto. apply check_child_none in E; [congruence|lia].
  - apply check_child_none in En; [|lia].
    unfold check_child. destruct (Z.eqb_spec (num t) 0) as [E0|E0].
    + right. unfold children. rewrite E0. reflexivity.
    + pose proof (find_name_spec (Z.to_nat (num t)) (ents t) old) as H.
      destruct (find_name (ents t) (Z.to_nat (num t)) old) as [i|] eqn:Ei.
      * destruct H as (A & B & C & D).
        destruct (nth i (ents t) (unused_name, (0, 0))) as [nm p] eqn:Enth. cbn [cap num ents].
        assert (L1 : length (firstn i (ents t)) = i) by (rewrite firstn_length; lia).
        split; [|split; [auto|split; auto]].
        -- constructor; cbn [cap num ents]; try lia; auto.
           rewrite app_length. cbn [length]. rewrite L1, skipn_length. lia.
        -- unfold children. cbn [num ents]. rewrite (rename_first_spec _ _ _ _ _ Ei). rewrite Enth. reflexivity.
      * right. unfold children. clear -H.
        revert H. generalize (Z.to_nat (num t)) as n. generalize (ents t) as l.
        intros l n. revert l. induction n; intros [|e r] H; simpl in *; auto.
        destruct (names_match (fst e) old); [discriminate|]. simpl in H. f_equal. auto.
Qed.
