(* ConvertProofs.v -- lemmas for property C06 (model: Convert.v; regenerated table: Gen_C06.v is only used in
   Properties_C06.v -- everything here is generic in the table). *)
From Coq Require Import ZArith List Bool Lia.
From Flocq Require Import Core.Zaux Core.Raux IEEE754.BinarySingleNaN IEEE754.Binary IEEE754.Bits.
From CgnsV Require Import Convert.
Import ListNotations.
Local Open Scope Z_scope.

(* ------------------------------------------------------------------ the decidable check on a regenerated table *)
Definition canonical_arm (f t : dtype) : arm :=
  let s := ctype_of f in
  let d := ctype_of t in
  match f, t with
  | X4, X8 => ArmLoop s true d true [mkAssign PRe [CDouble] PRe; mkAssign PIm [CDouble] PIm]
  | X8, X4 => ArmLoop s true d true [mkAssign PRe [CFloat] PRe; mkAssign PIm [CFloat] PIm]
  | X4, X4 | X8, X8 => ArmLoop s true d true [mkAssign PWhole [] PWhole]
  | _, _ => ArmLoop s true d true [mkAssign PWhole [d] PWhole]
  end.

Definition ctype_eq_dec (a b : ctype) : {a = b} + {a <> b}. Proof. decide equality. Defined.
Definition part_eq_dec (a b : part) : {a = b} + {a <> b}. Proof. decide equality. Defined.
Definition assign_eq_dec (a b : assign) : {a = b} + {a <> b}.
Proof. decide equality; [apply part_eq_dec | apply (list_eq_dec ctype_eq_dec) | apply part_eq_dec]. Defined.
Definition arm_eq_dec (a b : arm) : {a = b} + {a <> b}.
Proof. decide equality; [apply (list_eq_dec assign_eq_dec) | apply bool_dec | apply ctype_eq_dec | apply bool_dec
                         | apply ctype_eq_dec]. Defined.

Definition is_err (a : arm) : bool := match a with ArmErr => true | _ => false end.

(* a (from, to) cell of the table is the C cast of the pair, or -- for an unsupported pair -- the error arm *)
Definition pair_ok (tb : cast_tab) (f t : dtype) : bool :=
  if supported f t then (if arm_eq_dec (lookup_arm tb f t) (canonical_arm f t) then true else false)
  else is_err (lookup_arm tb f t).
Definition row_is_c_cast (tb : cast_tab) (p : dtype * dtype) : bool := pair_ok tb (fst p) (snd p).

Definition all_pairs : list (dtype * dtype) :=
  flat_map (fun f => map (fun t => (f, t)) all_dtypes) all_dtypes.
Definition both_cplx (p : dtype * dtype) : bool := is_cplx (fst p) && is_cplx (snd p).
Definition complex_pairs : list (dtype * dtype) := filter both_cplx all_pairs.
Definition real_pairs : list (dtype * dtype) := filter (fun p => negb (both_cplx p)) all_pairs.
Definition complex_all_err (tb : cast_tab) : bool :=
  forallb (fun p => is_err (lookup_arm tb (fst p) (snd p))) complex_pairs.

Lemma in_all_pairs : forall f t, In (f, t) all_pairs.
Proof. intros f t; destruct f, t; vm_compute; tauto. Qed.
Lemma in_real_pairs : forall f t, is_cplx f && is_cplx t = false -> In (f, t) real_pairs.
Proof. intros f t H. apply filter_In. split; [apply in_all_pairs|]. unfold both_cplx; simpl. now rewrite H. Qed.
Lemma in_complex_pairs : forall f t, is_cplx f && is_cplx t = true -> In (f, t) complex_pairs.
Proof. intros f t H. apply filter_In. split; [apply in_all_pairs|]. exact H. Qed.

(* ------------------------------------------------------------------ meaning of the canonical arm *)
Lemma conv_same : forall c u, conv c c u = u.
Proof. intros c u. unfold conv. destruct c; reflexivity. Qed.

Lemma conv_x4_x8 : forall u,
  conv CFloatCx CDoubleCx u = conv CFloat CDouble (u mod 2 ^ 32) + 2 ^ 64 * conv CFloat CDouble (u / 2 ^ 32).
Proof. reflexivity. Qed.
Lemma conv_x8_x4 : forall u,
  conv CDoubleCx CFloatCx u = conv CDouble CFloat (u mod 2 ^ 64) + 2 ^ 32 * conv CDouble CFloat (u / 2 ^ 64).
Proof. reflexivity. Qed.

Lemma canonical_action : forall f t u, supported f t = true ->
  arm_action (canonical_arm f t) f t u = CVal (c_cast f t u).
Proof.
  intros f t u H. unfold c_cast.
  destruct f, t; try discriminate H; rewrite ?conv_x4_x8, ?conv_x8_x4;
    cbn -[conv Z.pow Z.mul Z.add Z.modulo Z.div]; rewrite ?conv_same, ?Z.mul_0_r, ?Z.add_0_r; reflexivity.
Qed.

Lemma all_vals_map_CVal : forall (g : Z -> Z) l, all_vals (map (fun u => CVal (g u)) l) = Some (map g l).
Proof. induction l as [|x r IH]; simpl; [reflexivity|]. now rewrite IH. Qed.

(* a table that passes the check converts every supported pair like C and rejects every other pair *)
Section TableOk.
  Variable tb : cast_tab.
  Variable pairs : list (dtype * dtype).
  Hypothesis Hok : forallb (row_is_c_cast tb) pairs = true.

  Lemma pair_ok_of_table : forall f t, In (f, t) pairs -> pair_ok tb f t = true.
  Proof. intros f t Hin. rewrite forallb_forall in Hok. exact (Hok (f, t) Hin). Qed.

  Lemma table_action : forall f t u, In (f, t) pairs -> supported f t = true ->
    arm_action (lookup_arm tb f t) f t u = CVal (c_cast f t u).
  Proof.
    intros f t u Hin Hs. pose proof (pair_ok_of_table f t Hin) as H. unfold pair_ok in H. rewrite Hs in H.
    destruct (arm_eq_dec (lookup_arm tb f t) (canonical_arm f t)) as [E|]; [|discriminate].
    rewrite E. now apply canonical_action.
  Qed.

  Lemma table_error_iff : forall f t, In (f, t) pairs -> (supported f t = false <-> lookup_arm tb f t = ArmErr).
  Proof.
    intros f t Hin. pose proof (pair_ok_of_table f t Hin) as H. unfold pair_ok in H.
    destruct (supported f t) eqn:Hs.
    - split; [discriminate|]. intros E.
      destruct (arm_eq_dec (lookup_arm tb f t) (canonical_arm f t)) as [E'|]; [|discriminate].
      rewrite E in E'. destruct f, t; discriminate.
    - split; [|reflexivity]. intros _. destruct (lookup_arm tb f t); try discriminate; reflexivity.
  Qed.

  Lemma table_convert_data : forall f t data, In (f, t) pairs -> supported f t = true ->
    convert_data tb f t data = Some (map (c_cast f t) data).
  Proof.
    intros f t data Hin Hs. unfold convert_data.
    assert (Hne : lookup_arm tb f t <> ArmErr).
    { intro E. apply (table_error_iff f t Hin) in E. congruence. }
    assert (Hm : map (arm_action (lookup_arm tb f t) f t) data = map (fun u => CVal (c_cast f t u)) data).
    { apply map_ext. intros u. now apply table_action. }
    destruct (lookup_arm tb f t) eqn:E; try congruence; rewrite Hm; apply all_vals_map_CVal.
  Qed.

  Lemma table_convert_data_err : forall f t data, In (f, t) pairs -> supported f t = false ->
    convert_data tb f t data = None.
  Proof.
    intros f t data Hin Hs. unfold convert_data. apply (table_error_iff f t Hin) in Hs. now rewrite Hs.
  Qed.
End TableOk.

(* ------------------------------------------------------------------ list facts *)
Lemma c_cast_same : forall d u, c_cast d d u = u.
Proof. intros. unfold c_cast. apply conv_same. Qed.
Lemma map_c_cast_same : forall d l, map (c_cast d d) l = l.
Proof. intros. rewrite (map_ext _ (fun x => x)); [apply map_id | apply c_cast_same]. Qed.

Lemma dtype_eqb_eq : forall a b, dtype_eqb a b = true <-> a = b.
Proof. intros a b; split; [destruct a, b; vm_compute; congruence | intros ->; destruct b; reflexivity]. Qed.
Lemma dtype_eqb_refl : forall a, dtype_eqb a a = true.
Proof. intros; now apply dtype_eqb_eq. Qed.

Lemma slice_map : forall (g : Z -> Z) lo hi l, slice lo hi (map g l) = map g (slice lo hi l).
Proof. intros. unfold slice. now rewrite skipn_map, firstn_map. Qed.
Lemma slice_all : forall (l : list Z) n, Z.of_nat (length l) = n -> slice 1 n l = l.
Proof. intros l n H. unfold slice. simpl. replace (Z.to_nat (n - 1 + 1)) with (length l) by lia. apply firstn_all. Qed.
Lemma splice_all : forall (new old : list Z), length new = length old -> splice 1 new old = new.
Proof.
  intros new old H. unfold splice. simpl. rewrite H, skipn_all. apply app_nil_r.
Qed.
(* two adjacent partial writes compose to the write of the concatenation *)
Lemma splice_splice_adjacent : forall (a b old : list Z),
  length old = (length a + length b)%nat ->
  splice (Z.of_nat (length a) + 1) b (splice 1 a old) = a ++ b.
Proof.
  intros a b old H. unfold splice. simpl.
  replace (Z.to_nat (Z.of_nat (length a) + 1 - 1)) with (length a) by lia.
  rewrite firstn_app, firstn_all, Nat.sub_diag. simpl. rewrite app_nil_r.
  f_equal.
  rewrite skipn_all2; [apply app_nil_r|]. rewrite app_length, skipn_length. lia.
Qed.

Lemma in_firstn : forall (n : nat) (l : list Z) x, In x (firstn n l) -> In x l.
Proof. induction n as [|n IH]; intros [|h t] x H; simpl in *; try tauto. destruct H; [now left | right; now apply IH]. Qed.
Lemma in_skipn : forall (n : nat) (l : list Z) x, In x (skipn n l) -> In x l.
Proof. induction n as [|n IH]; intros [|h t] x H; simpl in *; try tauto. right; now apply IH. Qed.
Lemma in_slice : forall lo hi (l : list Z) x, In x (slice lo hi l) -> In x l.
Proof. intros lo hi l x H. unfold slice in H. apply in_firstn in H. now apply in_skipn in H. Qed.

Lemma find_put_same : forall a l, find_arr (a_name a) (put_arr a l) = Some a.
Proof.
  intros a l. induction l as [|b r IH]; simpl.
  - now rewrite Z.eqb_refl.
  - destruct (a_name b =? a_name a) eqn:E; simpl.
    + now rewrite Z.eqb_refl.
    + now rewrite E.
Qed.
Lemma find_put_other : forall a l n, n <> a_name a -> find_arr n (put_arr a l) = find_arr n l.
Proof.
  intros a l n Hn. induction l as [|b r IH]; simpl.
  - destruct (a_name a =? n) eqn:E; [apply Z.eqb_eq in E; congruence | reflexivity].
  - destruct (a_name b =? a_name a) eqn:E; simpl.
    + apply Z.eqb_eq in E. destruct (a_name a =? n) eqn:E1; [apply Z.eqb_eq in E1; congruence|].
      destruct (a_name b =? n) eqn:E2; [apply Z.eqb_eq in E2; congruence | reflexivity].
    + destruct (a_name b =? n); [reflexivity | exact IH].
Qed.

(* ------------------------------------------------------------------ array read / write *)
Section RWProofs.
  Variable hconv : dtype -> dtype -> Z -> Z.
  Variable tb : cast_tab.
  (* the two ties: the table converts like C (from C06_table_is_C), libhdf5 converts like C on representable
     values (assumption about a library that is not modelled; exercised by the correspondence run) *)
  Hypothesis Htb : forall f t data, supported f t = true -> convert_data tb f t data = Some (map (c_cast f t) data).
  Hypothesis Hh : forall f t u, representable f t u = true -> hconv f t u = c_cast f t u.

  Definition all_repr (f t : dtype) (l : list Z) : Prop := forall u, In u l -> representable f t u = true.

  Lemma hconv_map : forall f t l, all_repr f t l -> map (hconv f t) l = map (c_cast f t) l.
  Proof. intros f t l H. apply map_ext_in. intros u Hu. apply Hh. now apply H. Qed.

  (* every route stores / returns the C conversion *)
  Lemma to_file_c_cast : forall be s m vals, supported m s = true -> all_repr m s vals ->
    to_file hconv tb be s m true vals = (Ok, map (c_cast m s) vals).
  Proof.
    intros be s m vals Hs Hr. unfold to_file, route_of.
    destruct (dtype_eqb s m) eqn:E.
    - apply dtype_eqb_eq in E. subst. now rewrite map_c_cast_same.
    - destruct be; simpl.
      + now rewrite Htb.
      + rewrite Hs. now rewrite hconv_map.
  Qed.

  Lemma verify_write_ok : forall s_dim rmin rmax n,
    1 <= rmin -> rmin <= rmax -> rmax <= s_dim -> n = rmax - rmin + 1 ->
    verify_range true s_dim rmin rmax n 1 n = (Ok, (rmin, rmax, rmax - rmin + 1 =? s_dim, true, n)).
  Proof.
    intros. unfold verify_range. subst n.
    replace (rmin >? rmax) with false by lia. replace (rmax >? s_dim) with false by lia.
    replace (rmin <? 1) with false by lia.
    replace (rmax - rmin + 1 <? 1) with false by lia.
    replace (1 >? rmax - rmin + 1) with false by lia.
    replace (rmax - rmin + 1 >? rmax - rmin + 1) with false by lia.
    replace (1 <? 1) with false by lia.
    replace (rmax - rmin + 1 - 1 + 1) with (rmax - rmin + 1) by lia.
    rewrite !Z.eqb_refl. simpl negb. rewrite !andb_false_r. simpl. reflexivity.
  Qed.

  Lemma verify_read_ok : forall s_dim rmin rmax n,
    1 <= rmin -> rmin <= rmax -> rmax <= s_dim -> n = rmax - rmin + 1 ->
    exists sf, verify_range false s_dim rmin rmax n 1 n = (Ok, (rmin, rmax, sf, true, n)).
  Proof.
    intros. unfold verify_range. subst n.
    replace (rmin >? rmax) with false by lia. replace (rmax >? s_dim) with false by lia.
    replace (rmin <? 1) with false by lia.
    replace (rmax - rmin + 1 <? 1) with false by lia.
    replace (1 >? rmax - rmin + 1) with false by lia.
    replace (rmax - rmin + 1 >? rmax - rmin + 1) with false by lia.
    replace (1 <? 1) with false by lia.
    replace (rmax - rmin + 1 - 1 + 1) with (rmax - rmin + 1) by lia.
    rewrite !Z.eqb_refl. rewrite !orb_false_r, !andb_false_r. simpl.
    destruct (rmax - rmin + 1 =? s_dim) eqn:E; simpl.
    - apply Z.eqb_eq in E. assert (Hr : rmin = 1) by lia. assert (Hs : s_dim = rmax) by lia. rewrite Hr, Hs. eexists; reflexivity.
    - eexists; reflexivity.
  Qed.

  (* --- a NEW array: created with the requested FILE type and holding the converted values *)
  Theorem write_new_stored : forall be arrays name s s_dim m mem,
    find_arr name arrays = None -> supported m s = true -> 1 <= s_dim -> Z.of_nat (length mem) = s_dim ->
    all_repr m s mem ->
    exists arrays',
      general_write hconv tb be arrays name s s_dim 1 s_dim m s_dim 1 s_dim mem = (Ok, arrays') /\
      find_arr name arrays' = Some (mkArr name s s_dim (map (c_cast m s) mem)).
  Proof.
    intros be arrays name s s_dim m mem Hnew Hs Hd Hl Hr.
    unfold general_write. rewrite (verify_write_ok s_dim 1 s_dim s_dim) by lia.
    rewrite Hnew. simpl a_type; simpl a_dim; simpl a_data.
    rewrite slice_all by exact Hl.
    rewrite to_file_c_cast by assumption.
    eexists. split; [reflexivity|].
    rewrite splice_all by (rewrite map_length, repeat_length; lia).
    exact (find_put_same (mkArr name s s_dim (map (c_cast m s) mem)) _).
  Qed.

  (* --- an EXISTING array: the declared type never changes; a request with another file type is refused and
         changes nothing; a (partial) write replaces exactly the addressed elements by the converted values *)
  Theorem write_existing_type_mismatch : forall be arrays name a s rmin rmax m m_dim m_rmin m_rmax mem,
    find_arr name arrays = Some a -> a_type a <> s ->
    exists e, e <> Ok /\
      general_write hconv tb be arrays name s (a_dim a) rmin rmax m m_dim m_rmin m_rmax mem = (e, arrays).
  Proof.
    intros be arrays name a s rmin rmax m m_dim m_rmin m_rmax mem Hf Ht. unfold general_write.
    destruct (verify_range true (a_dim a) rmin rmax m_dim m_rmin m_rmax) as [st [[[[lo hi] sf] mf] np]].
    destruct st; try (eexists; split; [|reflexivity]; discriminate).
    rewrite Hf. rewrite Z.eqb_refl. simpl negb.
    destruct (dtype_eqb (a_type a) s) eqn:E; [apply dtype_eqb_eq in E; congruence|].
    simpl. eexists; split; [|reflexivity]; discriminate.
  Qed.

  Theorem write_existing_stored : forall be arrays name a s rmin rmax m mem,
    find_arr name arrays = Some a -> a_type a = s -> a_name a = name ->
    supported m s = true -> 1 <= rmin -> rmin <= rmax -> rmax <= a_dim a ->
    Z.of_nat (length mem) = rmax - rmin + 1 -> all_repr m s mem ->
    exists arrays',
      general_write hconv tb be arrays name s (a_dim a) rmin rmax m (rmax - rmin + 1) 1 (rmax - rmin + 1) mem
        = (Ok, arrays') /\
      find_arr name arrays' = Some (mkArr name s (a_dim a) (splice rmin (map (c_cast m s) mem) (a_data a))).
  Proof.
    intros be arrays name a s rmin rmax m mem Hf Ht Hn Hs H1 H2 H3 Hl Hr.
    unfold general_write. rewrite (verify_write_ok (a_dim a) rmin rmax (rmax - rmin + 1)) by lia.
    rewrite Hf. rewrite Z.eqb_refl. simpl negb. rewrite Ht, dtype_eqb_refl. simpl negb. cbv iota.
    rewrite slice_all by exact Hl.
    rewrite to_file_c_cast by assumption.
    eexists. split; [reflexivity|]. rewrite ?Ht.
    exact (find_put_same (mkArr name s (a_dim a) (splice rmin (map (c_cast m s) mem) (a_data a))) _).
  Qed.

  (* --- reading: the C conversion of the stored values, on all three routes *)
  Theorem read_converted : forall be a rmin rmax m mem,
    supported (a_type a) m = true -> 1 <= rmin -> rmin <= rmax -> rmax <= a_dim a ->
    Z.of_nat (length (a_data a)) = a_dim a ->
    Z.of_nat (length mem) = rmax - rmin + 1 -> all_repr (a_type a) m (slice rmin rmax (a_data a)) ->
    general_read hconv tb be a rmin rmax m (rmax - rmin + 1) 1 (rmax - rmin + 1) mem
      = (Ok, map (c_cast (a_type a) m) (slice rmin rmax (a_data a))).
  Proof.
    intros be a rmin rmax m mem Hs H1 H2 H3 Hd Hl Hr. unfold general_read.
    destruct (verify_read_ok (a_dim a) rmin rmax (rmax - rmin + 1) H1 H2 H3 eq_refl) as [sf Hv]. rewrite Hv.
    assert (Hlen : length (slice rmin rmax (a_data a)) = length mem).
    { unfold slice. rewrite firstn_length, skipn_length. lia. }
    unfold route_of. destruct (dtype_eqb (a_type a) m) eqn:E.
    - apply dtype_eqb_eq in E. rewrite <- E, map_c_cast_same. now rewrite splice_all.
    - destruct be; simpl.
      + now rewrite Htb.
      + rewrite Hs. rewrite hconv_map by assumption. rewrite splice_all; [reflexivity|]. now rewrite map_length.
  Qed.

  (* --- full and partial transfers agree *)
  Corollary read_partial_is_slice_of_full : forall be a rmin rmax m mem memf,
    supported (a_type a) m = true -> 1 <= rmin -> rmin <= rmax -> rmax <= a_dim a ->
    Z.of_nat (length (a_data a)) = a_dim a ->
    Z.of_nat (length mem) = rmax - rmin + 1 -> Z.of_nat (length memf) = a_dim a ->
    all_repr (a_type a) m (a_data a) ->
    exists full, general_read hconv tb be a 1 (a_dim a) m (a_dim a) 1 (a_dim a) memf = (Ok, full) /\
      general_read hconv tb be a rmin rmax m (rmax - rmin + 1) 1 (rmax - rmin + 1) mem = (Ok, slice rmin rmax full).
  Proof.
    intros be a rmin rmax m mem memf Hs H1 H2 H3 Hd Hl Hlf Hr.
    assert (Hsub : forall lo hi, all_repr (a_type a) m (slice lo hi (a_data a))).
    { intros lo hi u Hu. apply Hr. now apply in_slice in Hu. }
    exists (map (c_cast (a_type a) m) (a_data a)). split.
    - assert (Hdim : 1 <= a_dim a) by lia.
      pose proof (read_converted be a 1 (a_dim a) m memf Hs (Z.le_refl 1) Hdim (Z.le_refl _) Hd) as Hfull.
      replace (a_dim a - 1 + 1) with (a_dim a) in Hfull by lia.
      rewrite Hfull; auto. now rewrite slice_all.
    - rewrite read_converted; auto. now rewrite slice_map.
  Qed.

  Corollary write_in_two_parts : forall be arrays name s m mem1 mem2,
    find_arr name arrays = None -> supported m s = true ->
    mem1 <> [] -> mem2 <> [] -> all_repr m s mem1 -> all_repr m s mem2 ->
    let n1 := Z.of_nat (length mem1) in
    let n2 := Z.of_nat (length mem2) in
    exists st1 st2,
      general_write hconv tb be arrays name s (n1 + n2) 1 n1 m n1 1 n1 mem1 = (Ok, st1) /\
      general_write hconv tb be st1 name s (n1 + n2) (n1 + 1) (n1 + n2) m n2 1 n2 mem2 = (Ok, st2) /\
      find_arr name st2 = Some (mkArr name s (n1 + n2) (map (c_cast m s) (mem1 ++ mem2))).
  Proof.
    intros be arrays name s m mem1 mem2 Hnew Hs Hne1 Hne2 Hr1 Hr2 n1 n2.
    assert (Hn1 : 1 <= n1) by (subst n1; destruct mem1; [congruence | simpl length; lia]).
    assert (Hn2 : 1 <= n2) by (subst n2; destruct mem2; [congruence | simpl length; lia]).
    (* first part: creates the node *)
    unfold general_write at 1.
    rewrite (verify_write_ok (n1 + n2) 1 n1 n1) by lia.
    rewrite Hnew. simpl a_type; simpl a_dim; simpl a_data.
    rewrite slice_all by reflexivity.
    rewrite to_file_c_cast by assumption.
    set (a1 := mkArr name s (n1 + n2) (splice 1 (map (c_cast m s) mem1) (repeat 0 (Z.to_nat (n1 + n2))))).
    set (st1 := put_arr a1 (put_arr _ arrays)).
    exists st1.
    assert (Hf1 : find_arr name st1 = Some a1) by (exact (find_put_same a1 _)).
    destruct (write_existing_stored be st1 name a1 s (n1 + 1) (n1 + n2) m mem2) as [st2 [Hw Hf2]];
      try reflexivity; try assumption; try (simpl; lia).
    exists st2. split; [reflexivity|]. split.
    - replace (n1 + n2 - (n1 + 1) + 1) with n2 in Hw by lia. exact Hw.
    - rewrite Hf2. f_equal. simpl a_dim. f_equal. simpl a_data. rewrite map_app.
      replace (n1 + 1) with (Z.of_nat (length (map (c_cast m s) mem1)) + 1) by (rewrite map_length; reflexivity).
      apply splice_splice_adjacent. rewrite !map_length, repeat_length. lia.
  Qed.

  (* --- cg_array_read_as and the integer helpers *)
  Theorem read_as_converted : forall a m, supported (a_type a) m = true ->
    (m = C1 <-> a_type a = C1) ->
    array_read_as tb a m = (Ok, map (c_cast (a_type a) m) (a_data a)).
  Proof.
    intros a m Hs Hc. unfold array_read_as.
    destruct (dtype_eqb m C1) eqn:E1; destruct (dtype_eqb (a_type a) C1) eqn:E2; simpl.
    - apply dtype_eqb_eq in E1, E2. rewrite E1, E2. now rewrite map_c_cast_same.
    - apply dtype_eqb_eq in E1. apply Hc in E1. apply dtype_eqb_eq in E1. congruence.
    - apply dtype_eqb_eq in E2. apply Hc in E2. apply dtype_eqb_eq in E2. congruence.
    - now rewrite Htb.
  Qed.

  Theorem int_helpers_converted : forall be s m vals, supported m s = true -> supported s m = true ->
    all_repr m s vals -> all_repr s m vals ->
    int_write hconv tb be s m vals = (Ok, map (c_cast m s) vals) /\
    int_read hconv tb be s m vals = (Ok, map (c_cast s m) vals).
  Proof.
    intros be s m vals H1 H2 R1 R2. unfold int_write, int_read, route_of.
    destruct (dtype_eqb s m) eqn:E.
    - apply dtype_eqb_eq in E. subst. now rewrite map_c_cast_same.
    - destruct be; simpl.
      + now rewrite !Htb.
      + now rewrite !hconv_map.
  Qed.

  Theorem read_int_data_is_cast : forall s stored, s = I4 \/ s = I8 ->
    read_int_data s stored = map (c_cast s I8) stored.
  Proof.
    intros s stored [-> | ->]; unfold read_int_data.
    - reflexivity.
    - now rewrite map_c_cast_same.
  Qed.
End RWProofs.

(* ------------------------------------------------------------------ the statements exported by Properties_C06.v,
   for any table that passes the check on all 49 ordered pairs *)
Section Exported.
  Variable tb : cast_tab.
  Hypothesis Hok : forallb (row_is_c_cast tb) all_pairs = true.

  Lemma tb_converts : forall f t data, supported f t = true -> convert_data tb f t data = Some (map (c_cast f t) data).
  Proof. intros. apply (table_convert_data tb all_pairs Hok); [apply in_all_pairs | assumption]. Qed.

  Lemma table_is_C : forall f t,
    (supported f t = true ->
       (forall u, arm_action (lookup_arm tb f t) f t u = CVal (c_cast f t u)) /\
       (forall data, convert_data tb f t data = Some (map (c_cast f t) data))) /\
    (supported f t = false <-> lookup_arm tb f t = ArmErr) /\
    (supported f t = false -> forall data, convert_data tb f t data = None).
  Proof.
    intros f t. pose proof (in_all_pairs f t) as Hin. split; [|split].
    - intros Hs. split; intros.
      + now apply (table_action tb all_pairs Hok).
      + now apply tb_converts.
    - now apply (table_error_iff tb all_pairs Hok).
    - intros Hs data. now apply (table_convert_data_err tb all_pairs Hok).
  Qed.

  Section WithH.
    Variable hconv : dtype -> dtype -> Z -> Z.
    Hypothesis Hh : forall f t u, representable f t u = true -> hconv f t u = c_cast f t u.
    Definition stored_type_new_h := write_new_stored hconv tb tb_converts Hh.
    Definition stored_existing_h := write_existing_stored hconv tb tb_converts Hh.
    Definition read_is_converted_h := read_converted hconv tb tb_converts Hh.
    Definition partial_read_agrees_h := read_partial_is_slice_of_full hconv tb tb_converts Hh.
    Definition partial_write_agrees_h := write_in_two_parts hconv tb tb_converts Hh.
    Definition int_helpers_are_casts_h := int_helpers_converted hconv tb tb_converts Hh.
  End WithH.
  Definition stored_type_new := stored_type_new_h.
  Definition stored_existing := stored_existing_h.
  Definition read_is_converted := read_is_converted_h.
  Definition partial_read_agrees := partial_read_agrees_h.
  Definition partial_write_agrees := partial_write_agrees_h.
  Definition int_helpers_are_casts := int_helpers_are_casts_h.
  Definition read_as_is_converted := read_as_converted tb tb_converts.
End Exported.

(* ------------------------------------------------------------------ round trips *)
Lemma cast_I4_I8 : forall u, c_cast I4 I8 u = wrapu 64 (sgn 32 u).
Proof. reflexivity. Qed.
Lemma cast_I8_I4 : forall u, c_cast I8 I4 u = wrapu 32 (sgn 64 u).
Proof. reflexivity. Qed.

Lemma sgn_range : forall b u, 1 <= b -> 0 <= u < 2 ^ b -> - 2 ^ (b - 1) <= sgn b u < 2 ^ (b - 1).
Proof.
  intros b u Hb Hu. unfold sgn.
  assert (E : 2 ^ b = 2 * 2 ^ (b - 1)) by (rewrite <- Z.pow_succ_r by lia; f_equal; lia).
  destruct (Z.ltb_spec u (2 ^ (b - 1))); lia.
Qed.
Lemma wrapu_sgn : forall b u, 1 <= b -> 0 <= u < 2 ^ b -> wrapu b (sgn b u) = u.
Proof.
  intros b u Hb Hu. unfold wrapu, sgn.
  destruct (Z.ltb_spec u (2 ^ (b - 1))).
  - apply Z.mod_small; lia.
  - rewrite <- (Z.mod_small u (2 ^ b)) at 2 by lia.
    replace (u - 2 ^ b) with (u + (-1) * 2 ^ b) by ring. apply Z.mod_add. lia.
Qed.
Lemma sgn_wrapu : forall b v, 1 <= b -> - 2 ^ (b - 1) <= v < 2 ^ (b - 1) -> sgn b (wrapu b v) = v.
Proof.
  intros b v Hb Hv. unfold wrapu, sgn.
  assert (E : 2 ^ b = 2 * 2 ^ (b - 1)) by (rewrite <- Z.pow_succ_r by lia; f_equal; lia).
  destruct (Z_lt_le_dec v 0).
  - replace (v mod 2 ^ b) with (v + 2 ^ b).
    2:{ rewrite <- (Z.mod_small (v + 2 ^ b) (2 ^ b)) at 1 by lia.
        replace (v + 2 ^ b) with (v + 1 * 2 ^ b) by ring. apply Z.mod_add. lia. }
    destruct (Z.ltb_spec (v + 2 ^ b) (2 ^ (b - 1))); lia.
  - rewrite Z.mod_small by lia. destruct (Z.ltb_spec v (2 ^ (b - 1))); lia.
Qed.

Lemma roundtrip_I4_I8 : forall u, 0 <= u < 2 ^ 32 -> c_cast I8 I4 (c_cast I4 I8 u) = u.
Proof.
  intros u Hu. rewrite cast_I4_I8, cast_I8_I4.
  pose proof (sgn_range 32 u ltac:(lia) Hu) as Hr.
  rewrite sgn_wrapu; [apply wrapu_sgn; lia | lia |].
  assert (2 ^ (32 - 1) <= 2 ^ (64 - 1)) by (apply Z.pow_le_mono_r; lia). lia.
Qed.

(* ------------------------------------------------------------------ round trips through binary64 (Flocq) *)
From Coq Require Import Reals.
From Flocq Require Import Core.
Local Open Scope Z_scope.
#[local] Existing Instance Hp32.
#[local] Existing Instance Hp64.
#[local] Existing Instance Hm32.
#[local] Existing Instance Hm64.


Lemma IZR_F2R0 : forall z, F2R (Float radix2 z 0) = IZR z.
Proof. intros. unfold F2R. simpl. ring. Qed.

Lemma f64_of_Z_exact : forall z, Z.abs z < 2 ^ 53 ->
  B2R 53 1024 (f64_of_Z z) = IZR z /\ is_finite 53 1024 (f64_of_Z z) = true.
Proof.
  intros z Hz. unfold f64_of_Z.
  pose proof (binary_normalize_correct 53 1024 Hp64 Hm64 mode_NE z 0 false) as H.
  rewrite IZR_F2R0 in H.
  assert (Hg : generic_format radix2 (SpecFloat.fexp 53 1024) (IZR z)).
  { apply (generic_format_FLT radix2 (3 - 1024 - 53) 53).
    apply FLT_spec with (Float radix2 z 0); simpl.
    - symmetry. apply IZR_F2R0.
    - exact Hz.
    - lia. }
  rewrite round_generic in H; auto with typeclass_instances.
  rewrite Rlt_bool_true in H.
  - destruct H as (H1 & H2 & _). split; assumption.
  - rewrite <- abs_IZR. apply Rlt_trans with (IZR (2 ^ 53)).
    + apply IZR_lt. exact Hz.
    + change (2 ^ 53) with (Zpower radix2 53). rewrite IZR_Zpower by lia. apply bpow_lt. lia.
Qed.

Lemma Btrunc_exact64 : forall (x : binary64) z, B2R 53 1024 x = IZR z -> Btrunc 53 1024 x = z.
Proof.
  intros x z H. apply eq_IZR. rewrite (Btrunc_correct 53 1024 Hm64 x). rewrite H.
  apply round_generic; auto with typeclass_instances.
  apply generic_format_FIX. apply FIX_spec with (Float radix2 z 0); simpl; [symmetry; apply IZR_F2R0 | reflexivity].
Qed.

Lemma b64_bits_roundtrip : forall x : binary64, b64_of_bits (bits_of_b64 x) = x.
Proof. intros x. exact (binary_float_of_bits_of_binary_float 52 11 eq_refl eq_refl eq_refl x). Qed.

Lemma cast_I4_R8 : forall u, c_cast I4 R8 u = bits_of_b64 (f64_of_Z (sgn 32 u)).
Proof. reflexivity. Qed.
Lemma cast_R8_I4 : forall u, c_cast R8 I4 u = r8_to_int 32 u.
Proof. reflexivity. Qed.
Lemma cast_I8_R8 : forall u, c_cast I8 R8 u = bits_of_b64 (f64_of_Z (sgn 64 u)).
Proof. reflexivity. Qed.
Lemma cast_R8_I8 : forall u, c_cast R8 I8 u = r8_to_int 64 u.
Proof. reflexivity. Qed.

Lemma r8_to_int_of_Z : forall b z, (b = 32 \/ b = 64) -> Z.abs z < 2 ^ 53 -> in_srange b z = true ->
  r8_to_int b (bits_of_b64 (f64_of_Z z)) = wrapu b z.
Proof.
  intros b z Hb Hz Hr. unfold r8_to_int. rewrite b64_bits_roundtrip.
  destruct (f64_of_Z_exact z Hz) as [HR HF]. rewrite HF. rewrite (Btrunc_exact64 _ z HR).
  unfold f2i_bits. destruct Hb as [-> | ->];
    [change (32 <=? 32) with true | change (64 <=? 32) with false]; cbv beta iota zeta; rewrite Hr; reflexivity.
Qed.

Lemma roundtrip_I4_R8 : forall u, 0 <= u < 2 ^ 32 -> c_cast R8 I4 (c_cast I4 R8 u) = u.
Proof.
  intros u Hu. rewrite cast_I4_R8, cast_R8_I4.
  pose proof (sgn_range 32 u ltac:(lia) Hu) as Hr. change (2 ^ (32 - 1)) with 2147483648 in Hr.
  rewrite r8_to_int_of_Z.
  - apply wrapu_sgn; lia.
  - now left.
  - change (2 ^ 53) with 9007199254740992. lia.
  - unfold in_srange. change (2 ^ (32 - 1)) with 2147483648. apply andb_true_intro. split; [apply Z.leb_le | apply Z.ltb_lt]; lia.
Qed.

Lemma roundtrip_I8_R8 : forall u, 0 <= u < 2 ^ 64 -> Z.abs (sgn 64 u) <=? 2 ^ 53 = true ->
  c_cast R8 I8 (c_cast I8 R8 u) = u.
Proof.
  intros u Hu Hg. apply Z.leb_le in Hg.
  pose proof (sgn_range 64 u ltac:(lia) Hu) as Hr.
  destruct (Z_lt_le_dec (Z.abs (sgn 64 u)) (2 ^ 53)) as [Hlt | Hge].
  - rewrite cast_I8_R8, cast_R8_I8. rewrite r8_to_int_of_Z.
    + apply wrapu_sgn; lia.
    + now right.
    + exact Hlt.
    + unfold in_srange. apply andb_true_intro. split; [apply Z.leb_le | apply Z.ltb_lt]; lia.
  - assert (He : Z.abs (sgn 64 u) = 2 ^ 53) by lia.
    assert (Hu2 : u = 2 ^ 53 \/ u = 2 ^ 64 - 2 ^ 53).
    { unfold sgn in He. change (2 ^ 64) with 18446744073709551616 in *. change (2 ^ 53) with 9007199254740992 in *.
      change (2 ^ (64 - 1)) with 9223372036854775808 in *.
      destruct (u <? 9223372036854775808); lia. }
    destruct Hu2 as [-> | ->]; vm_compute; reflexivity.
Qed.

(* binary32 -> binary64 -> binary32 *)



Lemma finite_sign : forall prec emax s m e H,
  Rcompare (B2R prec emax (B754_finite prec emax s m e H)) 0 = if s then Lt else Gt.
Proof.
  intros. unfold B2R. destruct s; simpl cond_Zopp.
  - apply Rcompare_Lt. apply F2R_lt_0. simpl. lia.
  - apply Rcompare_Gt. apply F2R_gt_0. simpl. lia.
Qed.

Lemma fmt32_in_fmt64 : forall r, generic_format radix2 (SpecFloat.fexp 24 128) r ->
  generic_format radix2 (SpecFloat.fexp 53 1024) r.
Proof.
  intros r H. apply (FLT_format_generic radix2 (3 - 128 - 24) 24) in H.
  destruct H as [f Hf1 Hf2 Hf3].
  apply (generic_format_FLT radix2 (3 - 1024 - 53) 53).
  apply FLT_spec with f; [exact Hf1 | | lia].
  apply Z.lt_trans with (1 := Hf2). apply (Zpower_lt radix2); lia.
Qed.

Lemma widen_finite : forall s m e H, let x := B754_finite 24 128 s m e H in
  B2R 53 1024 (widen x) = B2R 24 128 x /\ is_finite 53 1024 (widen x) = true /\ Bsign 53 1024 (widen x) = s.
Proof.
  intros s m e H x. unfold widen, x.
  pose proof (binary_normalize_correct 53 1024 Hp64 Hm64 mode_NE (cond_Zopp s (Zpos m)) e s) as C.
  change (F2R (Float radix2 (cond_Zopp s (Zpos m)) e)) with (B2R 24 128 x) in C.
  rewrite round_generic in C; auto with typeclass_instances.
  2:{ apply fmt32_in_fmt64. apply generic_format_B2R. }
  rewrite Rlt_bool_true in C.
  2:{ apply Rlt_trans with (bpow radix2 128); [apply abs_B2R_lt_emax | apply bpow_lt; lia]. }
  destruct C as (C1 & C2 & C3). split; [exact C1 | split; [exact C2 |]].
  rewrite C3. unfold x. rewrite finite_sign. now destruct s.
Qed.

Lemma narrow_of : forall (y : binary64) (x : binary32),
  is_finite 24 128 x = true -> is_finite 53 1024 y = true ->
  B2R 53 1024 y = B2R 24 128 x -> Bsign 53 1024 y = Bsign 24 128 x -> B2R 24 128 x <> 0%R -> narrow y = x.
Proof.
  intros y x Fx Fy HR HS Hnz.
  destruct y as [sy | sy | sy ply Hy | sy my ey Hy]; try discriminate Fy.
  - simpl in HR. congruence.
  - unfold narrow.
    pose proof (binary_normalize_correct 24 128 Hp32 Hm32 mode_NE (cond_Zopp sy (Zpos my)) ey sy) as C.
    change (F2R (Float radix2 (cond_Zopp sy (Zpos my)) ey)) with (B2R 53 1024 (B754_finite 53 1024 sy my ey Hy)) in C.
    rewrite HR in C.
    rewrite round_generic in C; auto with typeclass_instances; [| apply generic_format_B2R].
    rewrite Rlt_bool_true in C; [| apply abs_B2R_lt_emax].
    destruct C as (C1 & C2 & C3).
    apply B2R_Bsign_inj; auto.
    rewrite C3. rewrite <- HS. rewrite <- HR. rewrite finite_sign. simpl. now destruct sy.
Qed.

Lemma narrow_widen : forall x : binary32, is_nan 24 128 x = false ->
  narrow (widen x) = x /\ is_nan 53 1024 (widen x) = false.
Proof.
  intros x Hn. destruct x as [s | s | s pl Hpl | s m e H]; try discriminate Hn; try (split; reflexivity).
  destruct (widen_finite s m e H) as (W1 & W2 & W3). cbv zeta in *.
  split.
  - apply narrow_of; auto.
    + pose proof (finite_sign 24 128 s m e H) as Hs. intro Z0. rewrite Z0 in Hs. rewrite Rcompare_Eq in Hs by reflexivity. destruct s; discriminate.
  - destruct (widen (B754_finite 24 128 s m e H)); try reflexivity; discriminate W2.
Qed.

Lemma roundtrip_R4_R8 : forall u, 0 <= u < 2 ^ 32 -> is_nan32 u = false -> c_cast R8 R4 (c_cast R4 R8 u) = u.
Proof.
  intros u Hu Hn. change (c_cast R4 R8 u) with (r4_to_r8 u). change (c_cast R8 R4 (r4_to_r8 u)) with (r8_to_r4 (r4_to_r8 u)).
  unfold r4_to_r8. rewrite Hn. unfold r8_to_r4, is_nan64. rewrite b64_bits_roundtrip.
  destruct (narrow_widen (b32_of_bits u) Hn) as [E N]. rewrite N, E.
  exact (bits_of_binary_float_of_bits 23 8 eq_refl eq_refl eq_refl u Hu).
Qed.
