(* AdfStackProofs.v -- proofs about the priority stack (AdfStack.v): it refines an association map from addresses
   to (type, data) for every history, a GET answers from the latest SET, and under the caller discipline a GET hit
   is never stale. *)
From Coq Require Import ZArith List Bool Lia FMapPositive.
From CgnsV Require Import AdfCache AdfCacheProofs AdfStack.
Import ListNotations.
Local Open Scope Z_scope.

(* ------------------------------------------------------------------ entries and keys *)
Lemma addr_match_key e f b o : addr_match e f b o = true <-> entry_key e = (f, b, o).
Proof.
  unfold addr_match, entry_key. rewrite !andb_true_iff, !Z.eqb_eq. split.
  - intros [[-> ->] ->]. reflexivity.
  - intros H. inversion H. auto.
Qed.
Lemma addr_match_false_key e f b o : addr_match e f b o = false <-> entry_key e <> (f, b, o).
Proof.
  rewrite <- addr_match_key. destruct (addr_match e f b o); split; intros; try congruence; try tauto.
Qed.
Lemma empty_no_match f b o : 0 <= f -> addr_match empty_entry f b o = false.
Proof. intros. unfold addr_match. cbn [e_file empty_entry]. destruct (Z.eqb_spec (-1) f); [lia|reflexivity]. Qed.

Definition wf_entry (e : entry) : Prop := e = empty_entry \/ (0 <= e_file e /\ 0 <= e_type e /\ 1 <= e_prio e).

Fixpoint uniq (l : list entry) : Prop :=
  match l with
  | [] => True
  | e :: r => (0 <= e_file e -> forall x, In x r -> entry_key x <> entry_key e) /\ uniq r
  end.

Record WF (l : list entry) : Prop := mkWF {
  wf_len : length l = MAX_STACK;
  wf_ent : Forall wf_entry l;
  wf_uniq : uniq l
}.

Lemma wf_entry_live e : wf_entry e -> (0 <= e_type e <-> 0 <= e_file e).
Proof. intros [->|(A & B & C)]; simpl; lia. Qed.

Lemma find_none_forall (l : list entry) f b o :
  find (fun e => addr_match e f b o) l = None <-> forall x, In x l -> entry_key x <> (f, b, o).
Proof.
  induction l as [|e r IH]; simpl.
  - split; auto.
  - destruct (addr_match e f b o) eqn:E.
    + split; [discriminate|]. intros H. apply addr_match_key in E. exfalso. apply (H e); auto.
    + rewrite IH. apply addr_match_false_key in E. split.
      * intros H x [<-|Hx]; auto.
      * intros H x Hx. apply H. auto.
Qed.

Lemma find_some_in (l : list entry) f b o e :
  find (fun e => addr_match e f b o) l = Some e -> In e l /\ entry_key e = (f, b, o).
Proof. intros H. apply find_some in H. destruct H as [A B]. split; auto. now apply addr_match_key. Qed.

(* ------------------------------------------------------------------ per-entry maps *)
(* g keeps an entry's address and type, or empties it *)
Definition keeps (g : entry -> entry) : Prop :=
  forall e, g e = empty_entry \/ (entry_key (g e) = entry_key e /\ e_type (g e) = e_type e).

Lemma uniq_map g l : keeps g -> uniq l -> uniq (map g l).
Proof.
  intros Hg. induction l as [|e r IH]; simpl; auto. intros [H1 H2]. split; auto.
  intros Hf x Hx. apply in_map_iff in Hx. destruct Hx as (y & <- & Hy).
  destruct (Hg e) as [Ee|[Ek _]].
  - rewrite Ee in Hf. simpl in Hf. lia.
  - assert (Hfe : 0 <= e_file e) by (unfold entry_key in Ek; inversion Ek; lia).
    destruct (Hg y) as [Ey|[Eky _]].
    + rewrite Ey, Ek. unfold entry_key at 1; simpl. intro X. unfold entry_key in X. inversion X. lia.
    + rewrite Eky, Ek. auto.
Qed.

Lemma find_map g l f b o : keeps g -> uniq l -> 0 <= f ->
  find (fun e => addr_match e f b o) (map g l) =
  match find (fun e => addr_match e f b o) l with
  | Some e => if addr_match (g e) f b o then Some (g e) else None
  | None => None
  end.
Proof.
  intros Hg Hu Hf. induction l as [|e r IH]; simpl; auto. destruct Hu as [H1 H2].
  destruct (addr_match e f b o) eqn:E.
  - destruct (addr_match (g e) f b o) eqn:E'; auto.
    rewrite IH by auto.
    apply addr_match_key in E.
    assert (Hn : find (fun e0 => addr_match e0 f b o) r = None).
    { apply find_none_forall. intros x Hx. rewrite <- E. apply H1; auto. unfold entry_key in E. inversion E. lia. }
    now rewrite Hn.
  - destruct (addr_match (g e) f b o) eqn:E'.
    + exfalso. destruct (Hg e) as [Ee|[Ek _]].
      * rewrite Ee, empty_no_match in E' by auto. discriminate.
      * apply addr_match_key in E'. rewrite Ek in E'. apply addr_match_key in E'. congruence.
    + apply IH; auto.
Qed.

Lemma Forall_map_wf g l : (forall e, wf_entry e -> wf_entry (g e)) -> Forall wf_entry l -> Forall wf_entry (map g l).
Proof. intros Hg H. induction H; simpl; constructor; auto. Qed.

(* ------------------------------------------------------------------ the clear modes *)
Lemma clear_keeps mode f ty : keeps (clear_entry mode f ty).
Proof.
  intros e. unfold clear_entry. destruct mode; auto.
  - destruct (_ && _); auto.
  - destruct (_ && _); auto. destruct (negb _); auto.
Qed.
Lemma clear_wf mode f ty e : wf_entry e -> wf_entry (clear_entry mode f ty e).
Proof.
  intros H. unfold clear_entry. destruct mode; try (left; reflexivity).
  - destruct (_ && _); auto. left; reflexivity.
  - destruct (_ && _); auto. destruct (negb _); auto. left; reflexivity.
Qed.

(* ------------------------------------------------------------------ DEL and GET as per-entry maps *)
Definition del_entry (f b o : Z) (e : entry) : entry := if addr_match e f b o then empty_entry else e.
Lemma del_keeps f b o : keeps (del_entry f b o).
Proof. intros e. unfold del_entry. destruct (addr_match e f b o); auto. Qed.

Lemma map_no_match (g : entry -> entry) f b o l :
  (forall e, addr_match e f b o = false -> g e = e) ->
  (forall x, In x l -> entry_key x <> (f, b, o)) -> map g l = l.
Proof.
  intros Hg. induction l as [|e r IH]; simpl; auto. intros H. f_equal.
  - apply Hg. apply addr_match_false_key. apply H. auto.
  - apply IH. intros x Hx. apply H. auto.
Qed.

Lemma del_loop_map l f b o : uniq l -> 0 <= f -> del_loop l f b o = map (del_entry f b o) l.
Proof.
  intros Hu Hf. induction l as [|e r IH]; simpl; auto. destruct Hu as [H1 H2].
  unfold del_entry at 1. destruct (addr_match e f b o) eqn:E.
  - f_equal. symmetry. apply (map_no_match _ f b o).
    + intros x Hx. unfold del_entry. now rewrite Hx.
    + apply addr_match_key in E. intros x Hx. rewrite <- E. apply H1; auto. unfold entry_key in E. inversion E. lia.
  - f_equal. auto.
Qed.

Definition get_entry (f b o ty : Z) (e : entry) : entry :=
  if addr_match e f b o then (if e_type e =? ty then set_prio e 1 else empty_entry) else e.
Lemma get_keeps f b o ty : keeps (get_entry f b o ty).
Proof. intros e. unfold get_entry. destruct (addr_match e f b o); auto. destruct (e_type e =? ty); auto. Qed.

Lemma get_loop_map l f b o ty len : uniq l -> 0 <= f ->
  get_loop l f b o ty len =
  (match find (fun e => addr_match e f b o) l with
   | Some e => if e_type e =? ty then Some (firstn (Z.to_nat len) (e_data e)) else None
   | None => None
   end, map (get_entry f b o ty) l).
Proof.
  intros Hu Hf. induction l as [|e r IH]; simpl; auto. destruct Hu as [H1 H2].
  unfold get_entry at 1. destruct (addr_match e f b o) eqn:E.
  - assert (Hr : forall x, In x r -> entry_key x <> (f, b, o)).
    { apply addr_match_key in E. intros x Hx. rewrite <- E. apply H1; auto. unfold entry_key in E. inversion E. lia. }
    assert (Hm : map (get_entry f b o ty) r = r).
    { apply (map_no_match _ f b o); auto. intros x Hx. unfold get_entry. now rewrite Hx. }
    destruct (e_type e =? ty).
    + now rewrite Hm.
    + rewrite IH by auto. rewrite Hm.
      assert (Hn : find (fun e0 => addr_match e0 f b o) r = None) by (now apply find_none_forall).
      now rewrite Hn.
  - rewrite IH by auto. reflexivity.
Qed.

(* ------------------------------------------------------------------ SET *)
Lemma set_keeps f b o data : keeps (set_entry f b o data).
Proof.
  intros e. unfold set_entry. destruct (addr_match e f b o); [right; auto|].
  destruct (e_type e >=? 0); right; auto.
Qed.
Lemma set_entry_wf f b o data e : 0 <= f -> wf_entry e -> wf_entry (set_entry f b o data e).
Proof.
  intros Hf H. unfold set_entry. destruct (addr_match e f b o) eqn:E.
  - destruct H as [->|(A & B & C)].
    + rewrite empty_no_match in E by auto. discriminate.
    + right. simpl. lia.
  - destruct (Z.geb_spec (e_type e) 0); auto. destruct H as [->|(A & B & C)]; [simpl in *; lia|].
    right. simpl. lia.
Qed.

Lemma acc_found2 f b o : forall l i a,
  a_found (acc_fold f b o l i a) = 2 <-> a_found a = 2 \/ exists x, In x l /\ entry_key x = (f, b, o).
Proof.
  induction l as [|e r IH]; intros i a; simpl.
  - split; auto. intros [H|(x & [] & _)]; auto.
  - rewrite IH. unfold acc_entry. destruct (addr_match e f b o) eqn:E.
    + simpl. apply addr_match_key in E. split; intros _; [right; exists e; auto|left; auto].
    + apply addr_match_false_key in E.
      assert (Hsame : a_found (if e_type e >=? 0 then if e_prio e >? a_low a then mkA (a_found a) (e_prio e) i else a
                               else if a_found a =? 0 then mkA 1 (Z.of_nat (MAX_STACK * MAX_STACK)) i else a) = 2
                      <-> a_found a = 2).
      { destruct (e_type e >=? 0).
        - destruct (e_prio e >? a_low a); simpl; tauto.
        - destruct (Z.eqb_spec (a_found a) 0); simpl; [lia|tauto]. }
      rewrite Hsame. split.
      * intros [H|(x & Hx & Hk)]; auto. right. exists x. auto.
      * intros [H|(x & [<-|Hx] & Hk)]; auto; [congruence|]. right. exists x. auto.
Qed.

Lemma acc_ins_range f b o : forall l i a,
  a_ins (acc_fold f b o l i a) = a_ins a \/ (i <= a_ins (acc_fold f b o l i a) < i + length l)%nat.
Proof.
  induction l as [|e r IH]; intros i a; simpl; auto.
  destruct (IH (S i) (acc_entry f b o i a e)) as [H|H].
  - rewrite H. unfold acc_entry. destruct (addr_match e f b o); auto.
    destruct (e_type e >=? 0).
    + destruct (e_prio e >? a_low a); simpl; auto. right. lia.
    + destruct (a_found a =? 0); simpl; auto. right. lia.
  - right. lia.
Qed.

Lemma upd_nth_length {A} (l : list A) n v : length (upd_nth l n v) = length l.
Proof. revert n. induction l; intros [|n]; simpl; auto. Qed.

Lemma uniq_upd l n x : uniq l -> (forall y, In y l -> entry_key y <> entry_key x) -> uniq (upd_nth l n x).
Proof.
  revert n. induction l as [|e r IH]; intros n Hu Hx; simpl; auto.
  destruct Hu as [H1 H2]. destruct n as [|n]; simpl.
  - split; auto. intros _ y Hy. apply Hx. right; auto.
  - split.
    + intros Hf y Hy.
      assert (Hin : y = x \/ In y r).
      { clear -Hy. revert n Hy. induction r as [|a r IH]; intros [|n] Hy; simpl in *; auto; destruct Hy; auto.
        apply IH in H. tauto. }
      destruct Hin as [->|Hin]; auto. intro E. apply (Hx e); auto. left; auto.
    + apply IH; auto. intros y Hy. apply Hx. right; auto.
Qed.

Lemma Forall_upd l n x : Forall wf_entry l -> wf_entry x -> Forall wf_entry (upd_nth l n x).
Proof.
  intros H Hx. revert n. induction H; intros [|n]; simpl; constructor; auto.
Qed.

Lemma find_upd l n x f b o : uniq l -> (n < length l)%nat -> 0 <= f ->
  (forall y, In y l -> entry_key y <> entry_key x) ->
  find (fun e => addr_match e f b o) (upd_nth l n x) =
  if addr_match x f b o then Some x
  else if addr_match (nth n l empty_entry) f b o then None
  else find (fun e => addr_match e f b o) l.
Proof.
  intros Hu Hn Hf. revert n Hn. induction l as [|e r IH]; intros n Hn Hx; simpl in *; [lia|].
  destruct Hu as [H1 H2]. destruct n as [|n]; simpl.
  - destruct (addr_match x f b o); auto.
    destruct (addr_match e f b o) eqn:E; auto.
    apply find_none_forall. apply addr_match_key in E. intros y Hy. rewrite <- E. apply H1; auto.
    unfold entry_key in E. inversion E. lia.
  - destruct (addr_match e f b o) eqn:E.
    + apply addr_match_key in E.
      destruct (addr_match x f b o) eqn:Ex.
      * apply addr_match_key in Ex. exfalso. apply (Hx e); auto. congruence.
      * destruct (addr_match (nth n r empty_entry) f b o) eqn:En; auto.
        apply addr_match_key in En. exfalso. apply (H1 ltac:(unfold entry_key in E; inversion E; lia) (nth n r empty_entry)).
        -- apply nth_In. lia.
        -- congruence.
    + apply IH; auto. lia.
Qed.

Lemma set_entry_key f b o data e : entry_key (set_entry f b o data e) = entry_key e.
Proof. unfold set_entry. destruct (addr_match e f b o); auto. destruct (e_type e >=? 0); auto. Qed.
Lemma set_entry_type f b o data e : e_type (set_entry f b o data e) = e_type e.
Proof. unfold set_entry. destruct (addr_match e f b o); auto. destruct (e_type e >=? 0); auto. Qed.
Lemma set_entry_data_other f b o data e : addr_match e f b o = false -> e_data (set_entry f b o data e) = e_data e.
Proof. unfold set_entry. intros ->. destruct (e_type e >=? 0); auto. Qed.

(* ------------------------------------------------------------------ one call refines the abstract cache *)
Definition agree (m m' : amap) : Prop := forall f b o, 0 <= f -> m f b o = m' f b o.

Lemma abs_map g l f b o : keeps g -> uniq l -> 0 <= f ->
  abs (map g l) f b o =
  match find (fun e => addr_match e f b o) l with
  | Some e => if addr_match (g e) f b o then Some (e_type (g e), e_data (g e)) else None
  | None => None
  end.
Proof.
  intros. unfold abs. rewrite find_map by auto. destruct (find _ l); auto. destruct (addr_match (g e) f b o); auto.
Qed.

Lemma key_eqb_match e f b o kf kb ko : entry_key e = (f, b, o) ->
  (f =? kf) && (b =? kb) && (o =? ko) = addr_match e kf kb ko.
Proof. unfold entry_key, addr_match. intros H. inversion H. reflexivity. Qed.

Lemma WF_map g l : keeps g -> (forall e, wf_entry e -> wf_entry (g e)) -> WF l -> WF (map g l).
Proof.
  intros Hk Hw [H1 H2 H3]. constructor.
  - now rewrite map_length.
  - now apply Forall_map_wf.
  - now apply uniq_map.
Qed.

Lemma del_entry_wf f b o e : wf_entry e -> wf_entry (del_entry f b o e).
Proof. unfold del_entry. destruct (addr_match e f b o); auto. left; reflexivity. Qed.
Lemma get_entry_wf f b o ty e : 0 <= f -> wf_entry e -> wf_entry (get_entry f b o ty e).
Proof.
  intros Hf. unfold get_entry. destruct (addr_match e f b o) eqn:E; auto. destruct (e_type e =? ty); [|left; reflexivity].
  intros [->|(A & B & C)]; [rewrite empty_no_match in E by auto; discriminate|right]. simpl. lia.
Qed.

Lemma abs_upd l n x f b o : uniq l -> (n < length l)%nat -> 0 <= f ->
  (forall y, In y l -> entry_key y <> entry_key x) ->
  abs (upd_nth l n x) f b o =
  if addr_match x f b o then Some (e_type x, e_data x)
  else if addr_match (nth n l empty_entry) f b o then None
  else abs l f b o.
Proof.
  intros. unfold abs. rewrite find_upd by auto. destruct (addr_match x f b o); auto.
  destruct (addr_match (nth n l empty_entry) f b o); auto.
Qed.

Lemma sstep_refines u s p : WF (stk s) -> valid_sop p = true ->
  WF (stk (snd (fst (sstep u s p)))) /\
  agree (abs (stk (snd (fst (sstep u s p))))) (ideal_sstep u (abs (stk s)) p (snd (sstep u s p))) /\
  fst (fst (sstep u s p)) = ideal_result u (abs (stk s)) p.
Proof.
  intros HW Hv. pose proof (wf_uniq _ HW) as Hu.
  destruct p as [|f|f ty|f b o|f b o ty len|f b o ty data|id]; cbn [sstep ideal_sstep ideal_result].
  - (* INIT *)
    cbn [fst snd stk]. split; [apply WF_map; auto using clear_keeps, clear_wf|]. split; auto.
    intros f b o Hf. rewrite abs_map by auto using clear_keeps. destruct (find _ (stk s)); auto.
    cbn [clear_entry]. now rewrite empty_no_match.
  - (* CLEAR *)
    destruct ((f <? 0) || negb u) eqn:Ec; cbn [fst snd stk].
    { split; auto. split; auto. intros ? ? ? ?; auto. }
    split; [apply WF_map; auto using clear_keeps, clear_wf|]. split; auto.
    intros f' b o Hf. rewrite abs_map by auto using clear_keeps. unfold abs.
    destruct (find (fun e => addr_match e f' b o) (stk s)) as [e|] eqn:Ef.
    2: { destruct (negb (f =? f') && negb (f =? 0)); auto. }
    destruct (find_some_in _ _ _ _ _ Ef) as [_ Hk]. assert (Hfe : e_file e = f') by (unfold entry_key in Hk; inversion Hk; auto).
    cbn [clear_entry]. rewrite Hfe. destruct (negb (f =? f') && negb (f =? 0)).
    + apply addr_match_key in Hk. now rewrite Hk.
    + now rewrite empty_no_match.
  - (* CLEAR_TYPE *)
    destruct ((f <? 0) || negb u) eqn:Ec; cbn [fst snd stk].
    { split; auto. split; auto. intros ? ? ? ?; auto. }
    split; [apply WF_map; auto using clear_keeps, clear_wf|]. split; auto.
    intros f' b o Hf. rewrite abs_map by auto using clear_keeps. unfold abs.
    destruct (find (fun e => addr_match e f' b o) (stk s)) as [e|] eqn:Ef; auto.
    destruct (find_some_in _ _ _ _ _ Ef) as [_ Hk]. assert (Hfe : e_file e = f') by (unfold entry_key in Hk; inversion Hk; auto).
    cbn [clear_entry]. rewrite Hfe. apply addr_match_key in Hk. destruct (negb (f =? f') && negb (f =? 0)).
    + now rewrite Hk.
    + destruct (negb (ty =? e_type e)); [now rewrite Hk|now rewrite empty_no_match].
  - (* DEL *)
    destruct ((f <? 0) || negb u) eqn:Ec; cbn [fst snd stk].
    { split; auto. split; auto. intros ? ? ? ?; auto. }
    apply orb_false_iff in Ec. destruct Ec as [Ec _]. apply Z.ltb_ge in Ec.
    rewrite del_loop_map by auto.
    split; [apply WF_map; auto using del_keeps, del_entry_wf|]. split; auto.
    intros f' b' o' Hf. rewrite abs_map by auto using del_keeps. unfold abs, aupd.
    destruct (find (fun e => addr_match e f' b' o') (stk s)) as [e|] eqn:Ef.
    2: { destruct ((f' =? f) && (b' =? b) && (o' =? o)); auto. }
    destruct (find_some_in _ _ _ _ _ Ef) as [_ Hk]. rewrite (key_eqb_match e _ _ _ f b o Hk).
    unfold del_entry. apply addr_match_key in Hk. destruct (addr_match e f b o).
    + now rewrite empty_no_match.
    + now rewrite Hk.
  - (* GET *)
    destruct ((f <? 0) || negb u) eqn:Ec; cbn [fst snd stk].
    { split; auto. split; auto. intros ? ? ? ?; auto. }
    apply orb_false_iff in Ec. destruct Ec as [Ec _]. apply Z.ltb_ge in Ec.
    rewrite get_loop_map by auto. cbn [fst snd stk].
    split; [apply WF_map; auto using get_keeps, get_entry_wf|].
    assert (Habs : abs (stk s) f b o = match find (fun e => addr_match e f b o) (stk s) with
                                         | Some e => Some (e_type e, e_data e) | None => None end) by reflexivity.
    destruct (find (fun e => addr_match e f b o) (stk s)) as [e0|] eqn:Ef0; rewrite Habs.
    + destruct (find_some_in _ _ _ _ _ Ef0) as [_ Hk0].
      split; [|destruct (e_type e0 =? ty); reflexivity].
      intros f' b' o' Hf. rewrite abs_map by auto using get_keeps.
      assert (Hsame : forall e, find (fun e => addr_match e f' b' o') (stk s) = Some e ->
                                addr_match e f b o = true -> e = e0).
      { intros e Ef Em. destruct (find_some_in _ _ _ _ _ Ef) as [_ Hk]. apply addr_match_key in Em.
        rewrite Em in Hk. inversion Hk; subst. rewrite Ef0 in Ef. congruence. }
      destruct (Z.eqb_spec (e_type e0) ty) as [Et|Et].
      * unfold abs. destruct (find (fun e => addr_match e f' b' o') (stk s)) as [e|] eqn:Ef; auto.
        destruct (find_some_in _ _ _ _ _ Ef) as [_ Hk]. apply addr_match_key in Hk.
        unfold get_entry. destruct (addr_match e f b o) eqn:Em.
        -- rewrite (Hsame e eq_refl Em) in *. destruct (Z.eqb_spec (e_type e0) ty); [|congruence].
           change (addr_match (set_prio e0 1) f' b' o') with (addr_match e0 f' b' o'). rewrite Hk. reflexivity.
        -- now rewrite Hk.
      * unfold aupd, abs. destruct (find (fun e => addr_match e f' b' o') (stk s)) as [e|] eqn:Ef.
        2: { destruct ((f' =? f) && (b' =? b) && (o' =? o)); auto. }
        destruct (find_some_in _ _ _ _ _ Ef) as [_ Hk]. rewrite (key_eqb_match e _ _ _ f b o Hk).
        apply addr_match_key in Hk. unfold get_entry. destruct (addr_match e f b o) eqn:Em.
        -- rewrite (Hsame e eq_refl Em) in *. destruct (Z.eqb_spec (e_type e0) ty); [congruence|].
           now rewrite empty_no_match.
        -- now rewrite Hk.
    + split; [|reflexivity].
      intros f' b' o' Hf. rewrite abs_map by auto using get_keeps.
      unfold abs. destruct (find (fun e => addr_match e f' b' o') (stk s)) as [e|] eqn:Ef; auto.
      destruct (find_some_in _ _ _ _ _ Ef) as [Hin Hk]. apply addr_match_key in Hk.
      unfold get_entry. destruct (addr_match e f b o) eqn:Em.
      * exfalso. apply addr_match_key in Em. apply (proj1 (find_none_forall _ _ _ _) Ef0 e Hin Em).
      * now rewrite Hk.
  - (* SET *)
    destruct ((f <? 0) || negb u) eqn:Ec; cbn [fst snd stk].
    { split; auto. split; auto. intros ? ? ? ?; auto. }
    apply orb_false_iff in Ec. destruct Ec as [Ec _]. apply Z.ltb_ge in Ec.
    cbn [valid_sop] in Hv. apply Z.leb_le in Hv.
    unfold set_stk.
    set (l1 := map (set_entry f b o data) (stk s)).
    set (a := acc_fold f b o (stk s) 0%nat (mkA 0 (-1) 0%nat)).
    assert (HW1 : WF l1) by (apply WF_map; auto using set_keeps, set_entry_wf).
    assert (Habs1 : forall f' b' o', 0 <= f' -> abs l1 f' b' o' =
              match find (fun e => addr_match e f' b' o') (stk s) with
              | Some e => Some (e_type e, if addr_match e f b o then overlay data (e_data e) else e_data e)
              | None => None end).
    { intros f' b' o' Hf. unfold l1. rewrite abs_map by auto using set_keeps.
      destruct (find (fun e => addr_match e f' b' o') (stk s)) as [e|] eqn:Ef; auto.
      destruct (find_some_in _ _ _ _ _ Ef) as [_ Hk].
      assert (Hm : addr_match (set_entry f b o data e) f' b' o' = true)
        by (apply addr_match_key; now rewrite set_entry_key).
      rewrite Hm, set_entry_type. f_equal. f_equal. unfold set_entry.
      destruct (addr_match e f b o); auto. destruct (e_type e >=? 0); auto. }
    destruct (Z.eqb_spec (a_found a) 2) as [E2|E2]; cbn [fst snd stk].
    + (* the address is cached: refreshed in place *)
      split; auto. split; auto.
      apply acc_found2 in E2. destruct E2 as [E2|(x & Hx & Hkx)]; [simpl in E2; lia|].
      intros f' b' o' Hf. rewrite Habs1 by auto. unfold aupd, abs.
      destruct (find (fun e => addr_match e f b o) (stk s)) as [e0|] eqn:Ef0.
      2: { exfalso. apply (proj1 (find_none_forall _ _ _ _) Ef0 x Hx Hkx). }
      destruct (find (fun e => addr_match e f' b' o') (stk s)) as [e|] eqn:Ef.
      * destruct (find_some_in _ _ _ _ _ Ef) as [_ Hk]. rewrite (key_eqb_match e _ _ _ f b o Hk).
        destruct (addr_match e f b o) eqn:Em; auto.
        assert (e = e0) as ->; auto.
        apply addr_match_key in Em. rewrite Em in Hk. inversion Hk; subst. rewrite Ef0 in Ef. congruence.
      * destruct ((f' =? f) && (b' =? b) && (o' =? o)) eqn:Ek; auto.
        exfalso. apply andb_true_iff in Ek. destruct Ek as [Ek E3]. apply andb_true_iff in Ek. destruct Ek as [E1 E2'].
        apply Z.eqb_eq in E1, E2', E3. subst. rewrite Ef0 in Ef. discriminate.
    + (* not cached: takes the slot the scan chose *)
      assert (Hnone : forall y, In y (stk s) -> entry_key y <> (f, b, o)).
      { intros y Hy Hk. apply E2. apply acc_found2. right. exists y. auto. }
      assert (Hnone1 : forall y, In y l1 -> entry_key y <> entry_key (mkE f b o ty 1 data)).
      { intros y Hy. unfold l1 in Hy. apply in_map_iff in Hy. destruct Hy as (z & <- & Hz).
        rewrite set_entry_key. unfold entry_key at 2; simpl. auto. }
      assert (Hins : (a_ins a < length l1)%nat).
      { unfold l1. rewrite map_length. pose proof (wf_len _ HW) as Hl. rewrite Hl.
        destruct (acc_ins_range f b o (stk s) 0%nat (mkA 0 (-1) 0%nat)) as [H|H]; fold a in H.
        - rewrite H. simpl. unfold MAX_STACK. lia.
        - rewrite Hl in H. lia. }
      split.
      { constructor.
        - rewrite upd_nth_length. apply (wf_len _ HW1).
        - apply Forall_upd; [apply (wf_ent _ HW1)|]. right. simpl. lia.
        - apply uniq_upd; [apply (wf_uniq _ HW1)|auto]. }
      split; auto.
      intros f' b' o' Hf. rewrite abs_upd; auto; [|apply (wf_uniq _ HW1)].
      assert (Hm0 : abs (stk s) f b o = None).
      { unfold abs. destruct (find (fun e => addr_match e f b o) (stk s)) as [e|] eqn:Ef; auto.
        destruct (find_some_in _ _ _ _ _ Ef) as [Hin Hk]. exfalso. apply (Hnone e Hin Hk). }
      rewrite Hm0.
      set (old := nth (a_ins a) l1 empty_entry).
      assert (Hold : wf_entry old).
      { pose proof (wf_ent _ HW1) as Hall. rewrite Forall_forall in Hall. apply Hall. apply nth_In. auto. }
      unfold aupd at 1.
      change (addr_match (mkE f b o ty 1 data) f' b' o') with ((f =? f') && (b =? b') && (o =? o')).
      rewrite (Z.eqb_sym f f'), (Z.eqb_sym b b'), (Z.eqb_sym o o').
      destruct ((f' =? f) && (b' =? b) && (o' =? o)) eqn:Ek; auto.
      rewrite Habs1 by auto.
      assert (Hrest : match find (fun e => addr_match e f' b' o') (stk s) with
                      | Some e => Some (e_type e, if addr_match e f b o then overlay data (e_data e) else e_data e)
                      | None => None end = abs (stk s) f' b' o').
      { unfold abs. destruct (find (fun e => addr_match e f' b' o') (stk s)) as [e|] eqn:Ef; auto.
        destruct (find_some_in _ _ _ _ _ Ef) as [Hin Hk].
        destruct (addr_match e f b o) eqn:Em; auto. apply addr_match_key in Em. exfalso. apply (Hnone e Hin Em). }
      rewrite Hrest.
      destruct (Z.geb_spec (e_type old) 0) as [Hlive|Hdead].
      * unfold aupd. destruct (entry_key old) as [[kf kb] ko] eqn:Eko.
        assert (Hmk : addr_match old f' b' o' = (f' =? kf) && (b' =? kb) && (o' =? ko)).
        { unfold addr_match, entry_key in *. inversion Eko. subst.
          now rewrite (Z.eqb_sym (e_file old)), (Z.eqb_sym (e_block old)), (Z.eqb_sym (e_off old)). }
        rewrite Hmk. destruct ((f' =? kf) && (b' =? kb) && (o' =? ko)); auto.
      * destruct Hold as [->|(A & B & C)]; [|lia]. now rewrite empty_no_match.
  - (* link cache *)
    cbn [fst snd stk]. split; auto. split; auto. intros ? ? ? ?; auto.
Qed.

(* ------------------------------------------------------------------ histories *)
Lemma repeat_empty_find n f b o : 0 <= f -> find (fun e => addr_match e f b o) (repeat empty_entry n) = None.
Proof. intros Hf. induction n; simpl; auto. now rewrite empty_no_match. Qed.

Lemma init_WF : WF (stk init_sst).
Proof.
  constructor; cbn [stk init_sst].
  - apply repeat_length.
  - apply Forall_forall. intros x Hx. apply repeat_spec in Hx. left; auto.
  - generalize MAX_STACK. induction n; simpl; auto; split; auto; intros H; lia.
Qed.
Lemma init_agree : agree (abs (stk init_sst)) amap0.
Proof. intros f b o Hf. unfold abs. cbn [stk init_sst]. now rewrite repeat_empty_find. Qed.

Lemma aupd_agree m m' k v : agree m m' -> agree (aupd m k v) (aupd m' k v).
Proof. intros H f b o Hf. unfold aupd. destruct k as [[kf kb] ko]. destruct (_ && _); auto. Qed.

Lemma ideal_sstep_agree u m m' p ev : agree m m' -> agree (ideal_sstep u m p ev) (ideal_sstep u m' p ev).
Proof.
  intros H. destruct p as [|f|f ty|f b o|f b o ty len|f b o ty data|id]; cbn [ideal_sstep]; auto.
  - intros ? ? ? ?; auto.
  - destruct ((f <? 0) || negb u); auto. intros f' b o Hf. destruct (_ && _); auto.
  - destruct ((f <? 0) || negb u); auto. intros f' b o Hf. rewrite (H f' b o Hf). reflexivity.
  - destruct ((f <? 0) || negb u); auto. now apply aupd_agree.
  - destruct ((f <? 0) || negb u) eqn:Ec; auto. apply orb_false_iff in Ec. destruct Ec as [Ec _]. apply Z.ltb_ge in Ec.
    rewrite (H f b o Ec). destruct (m' f b o) as [[t d]|]; auto. destruct (t =? ty); auto. now apply aupd_agree.
  - destruct ((f <? 0) || negb u) eqn:Ec; auto. apply orb_false_iff in Ec. destruct Ec as [Ec _]. apply Z.ltb_ge in Ec.
    rewrite (H f b o Ec). apply aupd_agree. destruct ev; auto. now apply aupd_agree.
Qed.
Lemma ideal_result_agree u m m' p : agree m m' -> ideal_result u m p = ideal_result u m' p.
Proof.
  intros H. destruct p as [|f|f ty|f b o|f b o ty len|f b o ty data|id]; cbn [ideal_result]; auto.
  destruct ((f <? 0) || negb u) eqn:Ec; auto. apply orb_false_iff in Ec. destruct Ec as [Ec _]. apply Z.ltb_ge in Ec.
  now rewrite (H f b o Ec).
Qed.
Lemma agree_trans a b c : agree a b -> agree b c -> agree a c.
Proof. intros H1 H2 f x o Hf. rewrite H1, H2; auto. Qed.

Definition valid_hist (h : list scall) : bool := forallb (fun c => valid_sop (snd c)) h.

Lemma srun_refines : forall h s m, WF (stk s) -> agree (abs (stk s)) m -> valid_hist h = true ->
  WF (stk (srun s h)) /\ agree (abs (stk (srun s h))) (ideal_srun s m h).
Proof.
  induction h as [|[u p] r IH]; intros s m HW HA Hv; simpl; auto.
  simpl in Hv. apply andb_true_iff in Hv. destruct Hv as [Hv1 Hv2].
  destruct (sstep_refines u s p HW Hv1) as (W' & A' & _).
  destruct (sstep u s p) as [[res s'] ev] eqn:E. cbn [fst snd] in *.
  apply IH; auto. eapply agree_trans; [exact A'|]. now apply ideal_sstep_agree.
Qed.

Lemma live_count_le l : (live_count l <= length l)%nat.
Proof. unfold live_count. induction l as [|e r IH]; simpl; auto. destruct (e_type e >=? 0); simpl; lia. Qed.

(* for EVERY history of well-formed calls: the 50 slots hold at most one entry per address, the table denotes the
   abstract cache obtained from the same calls and the evictions made, and every further call -- in particular
   every GET -- answers exactly as that abstract cache does *)
Theorem stack_lookup : forall h u p,
  valid_hist h = true -> valid_sop p = true ->
  let s := srun init_sst h in
  let m := ideal_srun init_sst amap0 h in
  WF (stk s) /\ length (stk s) = MAX_STACK /\ (live_count (stk s) <= MAX_STACK)%nat /\
  agree (abs (stk s)) m /\
  fst (fst (sstep u s p)) = ideal_result u m p.
Proof.
  intros h u p Hv Hp s m.
  destruct (srun_refines h init_sst amap0 init_WF init_agree Hv) as [HW HA]. fold s m in HW, HA.
  split; auto. split; [apply (wf_len _ HW)|]. split; [rewrite <- (wf_len _ HW); apply live_count_le|].
  split; auto.
  destruct (sstep_refines u s p HW Hp) as (_ & _ & R). rewrite R. now apply ideal_result_agree.
Qed.

(* the clear modes reset the link cache *)
Lemma clear_resets_link u s p : (p = SInit \/ (exists f, p = SClear f) \/ (exists f ty, p = SClearType f ty)) ->
  fst (fst (sstep u s p)) = SOk -> last_link (snd (fst (sstep u s p))) = 0.
Proof.
  intros [->|[(f & ->)|(f & ty & ->)]]; cbn [sstep]; auto.
  - destruct ((f <? 0) || negb u); simpl; auto; discriminate.
  - destruct ((f <? 0) || negb u); simpl; auto; discriminate.
Qed.

(* ------------------------------------------------------------------ never stale *)
Lemma key_eqb_eq a b : key_eqb a b = true <-> a = b.
Proof.
  destruct a as [[a1 a2] a3], b as [[b1 b2] b3]. unfold key_eqb. rewrite !andb_true_iff, !Z.eqb_eq.
  split; [intros [[-> ->] ->]; auto|intros H; inversion H; auto].
Qed.
Lemma tainted_app a t k : tainted (a ++ t) k = tainted a k || tainted t k.
Proof. unfold tainted. apply existsb_app. Qed.
Lemma tainted_in t k : tainted t k = true <-> In k t.
Proof.
  unfold tainted. rewrite existsb_exists. split.
  - intros (x & Hx & E). apply key_eqb_eq in E. now subst.
  - intros H. exists k. split; auto. now apply key_eqb_eq.
Qed.
Lemma tainted_untaint_other t k k' : k' <> k -> tainted (untaint t k) k' = tainted t k'.
Proof.
  intros Hn. destruct (tainted t k') eqn:E.
  - apply tainted_in. apply tainted_in in E. unfold untaint. apply filter_In. split; auto.
    destruct (key_eqb k' k) eqn:E'; auto. apply key_eqb_eq in E'. congruence.
  - destruct (tainted (untaint t k) k') eqn:E'; auto. apply tainted_in in E'. unfold untaint in E'.
    apply filter_In in E'. destruct E' as [E' _]. apply tainted_in in E'. congruence.
Qed.

Lemma mget_ext m m' : forall n q, (forall i, (i < n)%nat -> mfind m (q + Z.of_nat i) = mfind m' (q + Z.of_nat i)) ->
  mget m q n = mget m' q n.
Proof.
  induction n; intros q H; simpl; auto. f_equal.
  - specialize (H 0%nat ltac:(lia)). now rewrite Z.add_0_r in H.
  - apply IHn. intros i Hi. specialize (H (S i) ltac:(lia)).
    replace (q + 1 + Z.of_nat i) with (q + Z.of_nat (S i)) by lia. auto.
Qed.

Lemma bs_get_put_other st f p data g q n : 0 <= f -> 0 <= g -> g <> f ->
  bs_get (bs_put st f p data) g q n = bs_get st g q n.
Proof.
  intros Hf Hg Hn. unfold bs_get, bs_put.
  assert (Hk : AdfCache.key g <> AdfCache.key f) by (intro E; apply key_inj in E; auto).
  destruct (PositiveMap.find (AdfCache.key f) st); now rewrite PositiveMap.gso.
Qed.
Lemma bs_get_put_disjoint st f p data q n : 0 <= p -> 0 <= q ->
  (q + Z.of_nat n <= p \/ p + lenZ data <= q) ->
  bs_get (bs_put st f p data) f q n = bs_get st f q n.
Proof.
  intros Hp Hq Hd. unfold bs_get, bs_put.
  destruct (PositiveMap.find (AdfCache.key f) st) as [m|] eqn:E; rewrite PositiveMap.gss.
  - apply mget_ext. intros i Hi. rewrite mfind_mput by lia.
    destruct (Z.leb_spec p (q + Z.of_nat i)), (Z.ltb_spec (q + Z.of_nat i) (p + lenZ data)); simpl; auto; lia.
  - transitivity (mget (PositiveMap.empty Z) q n).
    + apply mget_ext. intros i Hi. rewrite mfind_mput by lia.
      destruct (Z.leb_spec p (q + Z.of_nat i)), (Z.ltb_spec (q + Z.of_nat i) (p + lenZ data)); simpl; auto; lia.
    + clear. revert q. induction n; intros q; simpl; auto. f_equal; auto.
      unfold mfind. now rewrite PositiveMap.gempty.
Qed.

Definition entry_ok (t : tst) (e : entry) : Prop :=
  0 <= e_type e -> tainted (t_taint t) (entry_key e) = false ->
  0 <= e_block e /\ 0 <= e_off e /\
  e_data e = bs_get (t_store t) (e_file e) (e_block e * BLK + e_off e) (length (e_data e)).
Definition TInv (t : tst) : Prop := WF (stk (t_stk t)) /\ forall e, In e (stk (t_stk t)) -> entry_ok t e.

Lemma init_TInv : TInv init_tst.
Proof.
  split; [apply init_WF|]. intros e He. change (stk (t_stk init_tst)) with (repeat empty_entry MAX_STACK) in He.
  apply repeat_spec in He. subst. intros H. simpl in H. lia.
Qed.

Lemma in_upd_nth {A} (l : list A) n x y : In y (upd_nth l n x) -> y = x \/ In y l.
Proof.
  revert n. induction l as [|a r IH]; intros [|n] H; simpl in *; auto.
  - destruct H; auto.
  - destruct H; auto. apply IH in H. tauto.
Qed.

(* what a call other than SET leaves in the table was there before, with the same bytes *)
Lemma sstep_entries_sub u s p : WF (stk s) -> (forall f b o ty data, p <> SSet f b o ty data) ->
  forall y, In y (stk (snd (fst (sstep u s p)))) -> 0 <= e_type y ->
  exists z, In z (stk s) /\ entry_key y = entry_key z /\ e_data y = e_data z /\ 0 <= e_type z.
Proof.
  intros HW Hns y Hy Hlive. pose proof (wf_uniq _ HW) as Hu.
  assert (Hmap : forall g, (forall z, g z = empty_entry \/ g z = z \/ g z = set_prio z 1) ->
                 In y (map g (stk s)) -> exists z, In z (stk s) /\ entry_key y = entry_key z /\ e_data y = e_data z /\ 0 <= e_type z).
  { intros g Hg Hin. apply in_map_iff in Hin. destruct Hin as (z & <- & Hz). exists z. split; auto.
    destruct (Hg z) as [E|[E|E]]; rewrite E in *; auto. simpl in Hlive. lia. }
  destruct p as [|f|f ty|f b o|f b o ty len|f b o ty data|id]; cbn [sstep] in Hy.
  - cbn [fst snd stk] in Hy. apply (Hmap _ ltac:(intros; left; reflexivity) Hy).
  - destruct ((f <? 0) || negb u); cbn [fst snd stk] in Hy.
    + exists y; auto.
    + apply (Hmap (clear_entry MClear f 0)); auto. intros z. cbn [clear_entry]. destruct (_ && _); auto.
  - destruct ((f <? 0) || negb u); cbn [fst snd stk] in Hy.
    + exists y; auto.
    + apply (Hmap (clear_entry MClearType f ty)); auto. intros z. cbn [clear_entry]. destruct (_ && _); auto.
      destruct (negb _); auto.
  - destruct ((f <? 0) || negb u) eqn:Ec; cbn [fst snd stk] in Hy.
    + exists y; auto.
    + apply orb_false_iff in Ec. destruct Ec as [Ec _]. apply Z.ltb_ge in Ec. rewrite del_loop_map in Hy by auto.
      apply (Hmap (del_entry f b o)); auto. intros z. unfold del_entry. destruct (addr_match z f b o); auto.
  - destruct ((f <? 0) || negb u) eqn:Ec; cbn [fst snd stk] in Hy.
    + exists y; auto.
    + apply orb_false_iff in Ec. destruct Ec as [Ec _]. apply Z.ltb_ge in Ec. rewrite get_loop_map in Hy by auto.
      cbn [fst snd stk] in Hy.
      apply (Hmap (get_entry f b o ty)); auto. intros z. unfold get_entry. destruct (addr_match z f b o); auto.
      destruct (e_type z =? ty); auto.
  - exfalso. eapply Hns; eauto.
  - cbn [fst snd stk] in Hy. exists y; auto.
Qed.

Lemma bytes_eqb_eq a b : bytes_eqb a b = true -> a = b.
Proof. unfold bytes_eqb. destruct (list_eq_dec Z.eq_dec a b); auto; discriminate. Qed.

Lemma overlay_same_len data old : length old = length data -> overlay data old = data.
Proof. intros H. unfold overlay. rewrite skipn_all2 by lia. apply app_nil_r. Qed.

Lemma tstep_inv t e : TInv t -> snd (tstep t e) = true -> TInv (fst (tstep t e)).
Proof.
  intros [HW HE] Hok. pose proof BLK_val as HB.
  destruct e as [f d|f p data|u q]; cbn [tstep] in *.
  - (* a file slot is taken: no entry of that slot exists *)
    cbn [fst snd] in *. apply andb_true_iff in Hok. destruct Hok as [Hf Hno]. apply Z.leb_le in Hf.
    rewrite forallb_forall in Hno.
    split; auto. intros x Hx Hlive Hnt. cbn [t_stk t_store t_taint] in *.
    destruct (HE x Hx Hlive Hnt) as (A & B & C). split; auto. split; auto.
    rewrite C at 1. unfold bs_get. rewrite PositiveMap.gso; auto.
    intro E. apply key_inj in E; auto.
    + specialize (Hno x Hx). apply negb_true_iff in Hno. apply Z.eqb_neq in Hno. congruence.
    + pose proof (wf_ent _ HW) as Hall. rewrite Forall_forall in Hall. apply (wf_entry_live _ (Hall x Hx)). auto.
  - (* bytes reach the store: the entries they touch become suspect *)
    cbn [fst snd] in *. apply andb_true_iff in Hok. destruct Hok as [Hf Hp]. apply Z.leb_le in Hf, Hp.
    split; auto. intros x Hx Hlive Hnt. cbn [t_stk t_store t_taint] in *.
    rewrite tainted_app in Hnt. apply orb_false_iff in Hnt. destruct Hnt as [Hnh Hnt].
    destruct (HE x Hx Hlive Hnt) as (A & B & C). split; auto. split; auto.
    assert (Hxf : 0 <= e_file x).
    { pose proof (wf_ent _ HW) as Hall. rewrite Forall_forall in Hall. apply (wf_entry_live _ (Hall x Hx)). auto. }
    destruct (Z.eq_dec (e_file x) f) as [Ef|Ef].
    + (* same file: not touched means disjoint *)
      assert (Hnt' : touches f p (lenZ data) x = false).
      { destruct (touches f p (lenZ data) x) eqn:Et; auto. exfalso.
        assert (Hin : In (entry_key x) (hit_keys (stk (t_stk t)) f p (lenZ data))).
        { unfold hit_keys. apply in_map. apply filter_In. auto. }
        apply tainted_in in Hin. congruence. }
      unfold touches in Hnt'. rewrite Ef, Z.eqb_refl in Hnt'.
      destruct (Z.geb_spec (e_type x) 0); [|lia]. cbn [andb] in Hnt'.
      rewrite Ef. rewrite bs_get_put_disjoint; [rewrite <- Ef; exact C|auto|lia|].
      unfold lenZ in *.
      destruct (Z.ltb_spec (e_block x * BLK + e_off x) (p + Z.of_nat (length data))),
               (Z.ltb_spec p (e_block x * BLK + e_off x + Z.of_nat (length (e_data x)))); simpl in Hnt'; try discriminate; lia.
    + rewrite bs_get_put_other; auto.
  - (* a stack call *)
    destruct (sstep u (t_stk t) q) as [[r s'] ev] eqn:Es.
    assert (Hs' : s' = snd (fst (sstep u (t_stk t) q))) by (now rewrite Es).
    assert (Hr : r = fst (fst (sstep u (t_stk t) q))) by (now rewrite Es).
    assert (Hsub : (forall f b o ty data, q <> SSet f b o ty data) -> snd (tstep t (TStack u q)) = true ->
                   TInv (mkT s' (t_store t) (t_taint t))).
    { intros Hns _. split.
      - rewrite Hs'. apply sstep_refines; auto. destruct q; auto. exfalso. eapply Hns; eauto.
      - intros y Hy Hlive Hnt. cbn [t_stk t_store t_taint] in *. rewrite Hs' in Hy.
        destruct (sstep_entries_sub u (t_stk t) q HW Hns y Hy Hlive) as (z & Hz & K1 & K2 & K3).
        rewrite K1 in Hnt. destruct (HE z Hz K3 Hnt) as (A & B & C).
        unfold entry_key in K1. inversion K1. rewrite H0, H1, H2, K2. auto. }
    destruct q as [|f|f ty|f b o|f b o ty len|f b o ty data|id]; cbn [fst snd] in *;
      try (apply Hsub; [intros; discriminate|cbn [tstep]; rewrite Es; auto]).
    (* SET *)
    clear Hsub. apply andb_true_iff in Hok. destruct Hok as [Hok Hlen].
    apply andb_true_iff in Hok. destruct Hok as [Hok Hbytes]. apply bytes_eqb_eq in Hbytes.
    apply andb_true_iff in Hok. destruct Hok as [Hok Ho]. apply andb_true_iff in Hok. destruct Hok as [Hok Hb].
    apply andb_true_iff in Hok. destruct Hok as [Hok Hf]. apply andb_true_iff in Hok. destruct Hok as [Hu Hv].
    apply Z.leb_le in Hf, Hb, Ho. subst u.
    split.
    { rewrite Hs'. apply sstep_refines; auto. }
    clear Hs' Hr.
    intros y Hy Hlive Hnt. cbn [t_stk t_store t_taint] in *.
    cbn [sstep] in Es. destruct (Z.ltb_spec f 0); [lia|]. cbn [negb orb] in Es.
    destruct (set_stk (stk (t_stk t)) f b o ty data) as [l' ev'] eqn:Eset. inversion Es; subst s' ev'. clear Es.
    cbn [stk] in Hy.
    (* every entry of the new table is the new one, or a former one passed through set_entry *)
    assert (Hfrom : y = mkE f b o ty 1 data \/ exists z, In z (stk (t_stk t)) /\ y = set_entry f b o data z).
    { unfold set_stk in Eset. destruct (a_found _ =? 2); inversion Eset; subst l'.
      - right. apply in_map_iff in Hy. destruct Hy as (z & <- & Hz). eauto.
      - apply in_upd_nth in Hy. destruct Hy as [->|Hy]; auto.
        right. apply in_map_iff in Hy. destruct Hy as (z & <- & Hz). eauto. }
    destruct Hfrom as [->|(z & Hz & ->)].
    + cbn [e_file e_block e_off e_data e_type]. split; auto.
    + rewrite set_entry_key in Hnt. rewrite set_entry_type in Hlive.
      destruct (addr_match z f b o) eqn:Em.
      * (* refreshed in place: same length, the bytes just passed *)
        assert (Hcl : cached_len (stk (t_stk t)) f b o = Some (length (e_data z))).
        { unfold cached_len.
          destruct (find (fun e => addr_match e f b o) (stk (t_stk t))) as [w|] eqn:Ew.
          - destruct (find_some_in _ _ _ _ _ Ew) as [Hw Kw]. apply addr_match_key in Em.
            assert (w = z) as ->; auto.
            pose proof (wf_uniq _ HW) as Hu. clear -Hu Hz Hw Kw Em H.
            induction (stk (t_stk t)) as [|a r IH]; simpl in *; [tauto|]. destruct Hu as [U1 U2].
            assert (Hfa : forall v, entry_key v = (f, b, o) -> 0 <= e_file v)
              by (intros v Hv; unfold entry_key in Hv; inversion Hv; lia).
            destruct Hz as [->|Hz], Hw as [->|Hw]; auto.
            + exfalso. apply (U1 (Hfa _ Em) w Hw). congruence.
            + exfalso. apply (U1 (Hfa _ Kw) z Hz). congruence.
          - exfalso. apply addr_match_key in Em. apply (proj1 (find_none_forall _ _ _ _) Ew z Hz Em). }
        rewrite Hcl in Hlen. apply Nat.eqb_eq in Hlen.
        unfold set_entry. rewrite Em. cbn [e_file e_block e_off e_data].
        rewrite overlay_same_len by auto. apply addr_match_key in Em. unfold entry_key in Em.
        injection Em as M1 M2 M3. split; [lia|]. split; [lia|]. rewrite M1, M2, M3. exact Hbytes.
      * (* another address: only its priority moved *)
        rewrite tainted_untaint_other in Hnt by (apply addr_match_false_key in Em; auto).
        destruct (HE z Hz Hlive Hnt) as (A & B & C).
        assert (K : entry_key (set_entry f b o data z) = entry_key z) by apply set_entry_key.
        unfold entry_key in K. injection K as K1 K2 K3. rewrite K1, K2, K3, set_entry_data_other; auto.
Qed.

Lemma trun_inv : forall h t, TInv t -> disciplined t h = true -> TInv (trun t h).
Proof.
  induction h as [|e r IH]; intros t HT Hd; simpl; auto.
  simpl in Hd. apply andb_true_iff in Hd. destruct Hd as [H1 H2]. apply IH; auto. now apply tstep_inv.
Qed.
Lemma disciplined_app : forall a t b, disciplined t (a ++ b) = disciplined t a && disciplined (trun t a) b.
Proof. induction a; intros; simpl; auto. rewrite IHa. now rewrite andb_assoc. Qed.

(* under the caller discipline a GET hit returns the bytes the ideal store holds NOW at that address *)
Theorem stack_never_stale : forall pre u f b o ty len d,
  disciplined init_tst (pre ++ [TStack u (SGet f b o ty len)]) = true ->
  fst (fst (sstep u (t_stk (trun init_tst pre)) (SGet f b o ty len))) = SFound d ->
  d = bs_get (t_store (trun init_tst pre)) f (b * BLK + o) (Z.to_nat len).
Proof.
  intros pre u f b o ty len d Hd Hr.
  rewrite disciplined_app in Hd. apply andb_true_iff in Hd. destruct Hd as [Hpre Hlast].
  pose proof (trun_inv pre init_tst init_TInv Hpre) as [HW HE].
  set (t := trun init_tst pre) in *.
  cbn [disciplined] in Hlast. rewrite andb_true_r in Hlast. cbn [tstep] in Hlast.
  destruct (sstep u (t_stk t) (SGet f b o ty len)) as [[r s'] ev] eqn:Es. cbn [fst snd] in *. subst r.
  apply andb_true_iff in Hlast. destruct Hlast as [Hnt Hlen]. apply negb_true_iff in Hnt.
  pose proof (sstep_refines u (t_stk t) (SGet f b o ty len) HW eq_refl) as (_ & _ & R).
  rewrite Es in R. cbn [fst snd ideal_result] in R.
  destruct ((f <? 0) || negb u) eqn:Ec; [discriminate|].
  apply orb_false_iff in Ec. destruct Ec as [Ec _]. apply Z.ltb_ge in Ec.
  unfold abs in R. unfold cached_len in Hlen.
  destruct (find (fun e => addr_match e f b o) (stk (t_stk t))) as [e|] eqn:Ef; [|discriminate].
  destruct (find_some_in _ _ _ _ _ Ef) as [He Hk].
  destruct (e_type e =? ty) eqn:Et; [|discriminate]. inversion R; subst d. apply Z.eqb_eq in Hlen.
  assert (Hlive : 0 <= e_type e).
  { pose proof (wf_ent _ HW) as Hall. rewrite Forall_forall in Hall. apply (wf_entry_live _ (Hall e He)).
    unfold entry_key in Hk. inversion Hk. lia. }
  rewrite <- Hk in Hnt. destruct (HE e He Hlive Hnt) as (A & B & C).
  unfold entry_key in Hk. inversion Hk. subst.
  rewrite Nat2Z.id. rewrite firstn_all. exact C.
Qed.
