(* Extract_c09.v -- extraction of the copy / cgnsdiff model (Copy.v) to OCaml; ExtrOcamlBasic only. *)
From Coq Require Import Extraction ExtrOcamlBasic.
From CgnsV Require Import Copy.
Extraction Language OCaml.
Set Extraction KeepSingleton.
Extraction "extracted/c09/model.ml" Copy.do_copy_file Copy.rewrite_file Copy.cgnsdiff Copy.cgnsdiff_ds Copy.full_view Copy.canon
  Copy.get_file Copy.set_file Copy.new_root Copy.kids_of Copy.node_name Copy.bytes_ltb.
