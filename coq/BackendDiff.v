(* BackendDiff.v -- the places where the ADF and the HDF5 back end implement the same contract with different
   code: node-name validation at creation and at rename.  Executable definitions only.
   Transcribed from
     src/adf/ADF_internals.c  ADFI_check_string_length (1703-1734)
     src/adf/ADF_interface.c  ADF_Create (485-533), ADF_Put_Name (2489-2546): leading blanks skipped, length test,
                              isprint / '/' loop; the name is stored blank-padded in char[32] and read back with
                              trailing blanks removed (ADFI_string_2_C_string)
     src/adfh/ADFH.c          check_name (1303-1347): leading isspace skipped, length test AFTER the skip, trailing
                              isspace removed, '/' and "." refused, no printability test
   A C string is a list of bytes 1..255 (no NUL).  isspace / isprint are those of the "C" locale. *)
From Coq Require Import ZArith List Bool Lia.
Import ListNotations.
Local Open Scope Z_scope.

Definition STRING_LENGTH_ZERO : Z := 3.
Definition STRING_LENGTH_TOO_BIG : Z := 4.
Definition INVALID_NODE_NAME : Z := 56.
Definition ADF_NAME_LENGTH : Z := 32.

Definition is_space (c : Z) : bool := (c =? 32) || ((9 <=? c) && (c <=? 13)).
Definition is_print (c : Z) : bool := (32 <=? c) && (c <=? 126).
Definition is_blank (c : Z) : bool := c =? 32.
Definition SLASH : Z := 47.
Definition DOT : Z := 46.

Inductive nres := NOk (stored : list Z) | NErr (e : Z).

Definition lenZ (l : list Z) : Z := Z.of_nat (length l).

Fixpoint drop_while (f : Z -> bool) (l : list Z) : list Z :=
  match l with
  | [] => []
  | c :: r => if f c then drop_while f r else l
  end.

(* remove the trailing characters satisfying f *)
Definition rtrim (f : Z -> bool) (l : list Z) : list Z := rev (drop_while f (rev l)).

Fixpoint list_eqb (a b : list Z) : bool :=
  match a, b with
  | [], [] => true
  | x :: a', y :: b' => (x =? y) && list_eqb a' b'
  | _, _ => false
  end.

(* ---------------------------------------------------------------- ADF *)
(* ADFI_check_string_length(str, 32): empty -> ZERO; longer than 32 -> TOO_BIG; only blanks and TABs -> ZERO *)
Definition adf_check_string_length (s : list Z) : option Z :=
  if lenZ s =? 0 then Some STRING_LENGTH_ZERO
  else if lenZ s >? ADF_NAME_LENGTH then Some STRING_LENGTH_TOO_BIG
  else if forallb (fun c => (c =? 32) || (c =? 9)) s then Some STRING_LENGTH_ZERO
  else None.

(* ADF_Create / ADF_Put_Name on a parent without a child of that name.  [put] = ADF_Put_Name, which has the extra
   "name_length == 0" test (unreachable after the blank test, kept as in the code) and which VALIDATES the name
   without its leading blanks but STORES it with them ("Copy the name": name[i], not name[name_start + i]);
   ADF_Create stores &name[name_start]. *)
Definition adf_name (put : bool) (s : list Z) : nres :=
  match adf_check_string_length s with
  | Some e => NErr e
  | None =>
      let n := drop_while is_blank s in
      if lenZ n >? ADF_NAME_LENGTH then NErr STRING_LENGTH_TOO_BIG
      else if put && (lenZ n =? 0) then NErr STRING_LENGTH_ZERO
      else if forallb (fun c => is_print c && negb (c =? SLASH)) n
           then NOk (rtrim is_blank (if put then s else n))   (* char[32] blank-padded; trailing blanks vanish on read *)
           else NErr INVALID_NODE_NAME
  end.

(* ---------------------------------------------------------------- ADFH *)
Definition adfh_name (s : list Z) : nres :=
  let p := drop_while is_space s in
  if lenZ p =? 0 then NErr STRING_LENGTH_ZERO
  else if lenZ p >? ADF_NAME_LENGTH then NErr STRING_LENGTH_TOO_BIG
  else
    let n := rtrim is_space p in
    if lenZ n =? 0 then NErr STRING_LENGTH_ZERO
    else if existsb (fun c => c =? SLASH) n || list_eqb n [DOT] then NErr INVALID_NODE_NAME
    else NOk n.

(* ---------------------------------------------------------------- the documented common subset *)
(* 1..32 printable characters, no '/', no blank at either end, not "." *)
Definition common_name (s : list Z) : bool :=
  (1 <=? lenZ s) && (lenZ s <=? ADF_NAME_LENGTH) &&
  forallb (fun c => is_print c && negb (c =? SLASH)) s &&
  negb (is_blank (hd 0 s)) && negb (is_blank (last s 0)) && negb (list_eqb s [DOT]).

(* a C string: no NUL, bytes *)
Definition cstring (s : list Z) : Prop := Forall (fun c => 1 <= c <= 255) s.
