(* TreeDB.v -- the ideal node database: what the cgio layer (ADF and HDF5 back ends alike) is supposed to be.

   A file is a TABLE of node records in creation order; the children of a node are the records naming it as
   parent, in table order (a moved node goes to the end of the table, i.e. becomes the last child of its new
   parent, as both back ends do).  Node identity is the uid chosen by the caller (the script handle); the root
   of a file has uid 0.  Data is a list of bytes where None = never written since the node was (re)dimensioned
   (the property leaves those unspecified).  No proofs here; laws in TreeDBProofs.v.

   This is deliberately the simplest thing that could be right: no blocks, no caches, no chunk tables, no
   free lists, no hash tables. *)
From Coq Require Import ZArith List Bool Lia.
From CgnsV Require Import ListX.
Import ListNotations.
Local Open Scope Z_scope.

Definition bytes := list Z.

Record nrec := mkN {
  n_uid : Z; n_parent : Z; n_name : bytes; n_label : bytes;
  n_dt : bytes; n_dims : list Z; n_data : list (option Z);
  n_link : option (bytes * bytes)            (* Some (file, path) for a link node *)
}.
Definition table := list nrec.

Fixpoint bytes_eqb (a b : bytes) : bool :=
  match a, b with
  | [], [] => true
  | x :: a', y :: b' => (x =? y) && bytes_eqb a' b'
  | _, _ => false
  end.

(* ---- data types ---------------------------------------------------------------------------------- *)
Definition s_MT : bytes := [77; 84].
Definition s_LK : bytes := [76; 75].
Definition dt_size (dt : bytes) : Z :=
  match dt with
  | [67; 49] => 1 | [66; 49] => 1                       (* C1 B1 *)
  | [73; 52] => 4 | [85; 52] => 4 | [82; 52] => 4       (* I4 U4 R4 *)
  | [73; 56] => 8 | [85; 56] => 8 | [82; 56] => 8       (* I8 U8 R8 *)
  | [88; 52] => 8 | [88; 56] => 16                      (* X4 X8 *)
  | _ => 0
  end.
Definition dt_known (dt : bytes) : bool := (0 <? dt_size dt) || bytes_eqb dt s_MT.

Definition prodZ (l : list Z) : Z := fold_right Z.mul 1 l.
Definition node_elems (r : nrec) : Z := if bytes_eqb (n_dt r) s_MT then 0 else prodZ (n_dims r).
Definition node_bytes (r : nrec) : Z := node_elems r * dt_size (n_dt r).

(* ---- names ------------------------------------------------------------------------------------------ *)
(* the subset on which both back ends agree: 1..32 printable characters, no '/', no leading blank, not "." *)
Definition printable (c : Z) : bool := (32 <=? c) && (c <=? 126).
Definition name_ok (nm : bytes) : bool :=
  (1 <=? lenZ nm) && (lenZ nm <=? 32) && forallb (fun c => printable c && negb (c =? 47)) nm
  && negb (hd 0 nm =? 32) && negb (bytes_eqb nm [46]).
Definition label_ok (l : bytes) : bool := (lenZ l <=? 32) && forallb printable l.

(* ---- table access ------------------------------------------------------------------------------------ *)
Fixpoint find_node (t : table) (u : Z) : option nrec :=
  match t with [] => None | r :: rest => if n_uid r =? u then Some r else find_node rest u end.

Definition children (t : table) (p : Z) : list nrec := filter (fun r => n_parent r =? p) t.

Fixpoint find_child (kids : list nrec) (nm : bytes) : option nrec :=
  match kids with [] => None | r :: rest => if bytes_eqb (n_name r) nm then Some r else find_child rest nm end.

Fixpoint replace_node (t : table) (r' : nrec) : table :=
  match t with
  | [] => []
  | r :: rest => if n_uid r =? n_uid r' then r' :: rest else r :: replace_node rest r'
  end.

(* all descendants of u (u included): repeated sweep, fuel = table length *)
Fixpoint subtree_uids (fuel : nat) (t : table) (acc : list Z) : list Z :=
  match fuel with
  | O => acc
  | S f =>
      let acc' := fold_left (fun a r => if existsb (Z.eqb (n_parent r)) a && negb (existsb (Z.eqb (n_uid r)) a)
                                        then a ++ [n_uid r] else a) t acc in
      subtree_uids f t acc'
  end.
Definition descendants (t : table) (u : Z) : list Z := subtree_uids (length t) t [u].

Definition root_uid : Z := 0.
Definition root_rec : nrec := mkN root_uid (-1) [] [] s_MT [] [] None.
Definition empty_table : table := [root_rec].

(* ---- results ------------------------------------------------------------------------------------------- *)
Inductive result :=
| RErr
| ROk
| RInt (v : Z)
| RBytes (b : bytes)
| RData (d : list (option Z))
| RInts (l : list Z)
| RNames (l : list bytes)
| RNode (name label : bytes)
| RLink (file path : bytes).

(* ---- selections (Fortran order, first index fastest) ---------------------------------------------------- *)
Fixpoint range_from (fuel : nat) (s e st : Z) : list Z :=
  match fuel with
  | O => []
  | S f => if s <=? e then s :: range_from f (s + st) e st else []
  end.
Definition range1 (sel : Z * Z * Z) : list Z :=
  let '(s, e, st) := sel in
  if (1 <=? st) && (s <=? e) then range_from (Z.to_nat ((e - s) / st + 1)) s e st else [].

Fixpoint box (sel : list (Z * Z * Z)) : list (list Z) :=
  match sel with
  | [] => [[]]
  | s1 :: rest => flat_map (fun tail => map (fun i => i :: tail) (range1 s1)) (box rest)
  end.

Fixpoint lin (dims idx : list Z) : Z :=
  match dims, idx with
  | d :: dr, i :: ir => (i - 1) + d * lin dr ir
  | _, _ => 0
  end.

Definition sel_ok (dims : list Z) (sel : list (Z * Z * Z)) : bool :=
  (length dims =? length sel)%nat && (1 <=? length dims)%nat && (length dims <=? 12)%nat &&
  forallb (fun ds => let '(d, (s, e, st)) := ds in (1 <=? s) && (s <=? e) && (e <=? d) && (1 <=? st))
          (combine dims sel).

Definition positions (dims : list Z) (sel : list (Z * Z * Z)) : list Z := map (lin dims) (box sel).

(* ---- byte-level element access ---------------------------------------------------------------------------- *)
Definition slice {A} (l : list A) (off len : Z) : list A := firstn (Z.to_nat len) (skipn (Z.to_nat off) l).
Definition splice {A} (l : list A) (off : Z) (new : list A) : list A :=
  firstn (Z.to_nat off) l ++ new ++ skipn (Z.to_nat off + length new) l.

(* copy element k of [src] (element size sz) to element position p of [dst] for every pair (p, k) *)
Fixpoint scatter {A} (sz : Z) (dst src : list A) (pairs : list (Z * Z)) : list A :=
  match pairs with
  | [] => dst
  | (p, k) :: rest => scatter sz (splice dst (p * sz) (slice src (k * sz) sz)) src rest
  end.

(* ---- operations --------------------------------------------------------------------------------------------- *)
Definition is_link (r : nrec) : bool := match n_link r with Some _ => true | None => false end.

Definition op_create (t : table) (p u : Z) (nm : bytes) : table * result :=
  match find_node t p, find_node t u with
  | Some pr, None =>
      if name_ok nm && negb (is_link pr) then
        match find_child (children t p) nm with
        | Some _ => (t, RErr)
        | None => (t ++ [mkN u p nm [] s_MT [] [] None], ROk)
        end
      else (t, RErr)
  | _, _ => (t, RErr)
  end.

Definition op_link (t : table) (p u : Z) (nm file path : bytes) : table * result :=
  match find_node t p, find_node t u with
  | Some pr, None =>
      if name_ok nm && negb (is_link pr) && (1 <=? lenZ path) then
        match find_child (children t p) nm with
        | Some _ => (t, RErr)
        | None => (t ++ [mkN u p nm [] s_LK [] [] (Some (file, path))], ROk)
        end
      else (t, RErr)
  | _, _ => (t, RErr)
  end.

Definition op_delete (t : table) (p u : Z) : table * result :=
  match find_node t u with
  | Some r =>
      if (n_parent r =? p) && negb (u =? root_uid) then
        let dead := descendants t u in
        (filter (fun x => negb (existsb (Z.eqb (n_uid x)) dead)) t, ROk)
      else (t, RErr)
  | None => (t, RErr)
  end.

(* [to_end]: the HDF5 back end renames by re-linking, which makes the node the LAST child of its parent;
   ADF renames in place.  Child order is the one thing the two back ends define differently (C03 compares
   child SETS); TreeDB takes the policy as a parameter of the file. *)
Definition op_rename (to_end : bool) (t : table) (p u : Z) (nm : bytes) : table * result :=
  match find_node t u with
  | Some r =>
      if (n_parent r =? p) && negb (u =? root_uid) && name_ok nm then
        match find_child (children t p) nm with
        | Some _ => (t, RErr)            (* also when it is the node's own current name *)
        | None =>
            let r' := mkN u p nm (n_label r) (n_dt r) (n_dims r) (n_data r) (n_link r) in
            if to_end then (filter (fun x => negb (n_uid x =? u)) t ++ [r'], ROk)
            else (replace_node t r', ROk)
        end
      else (t, RErr)
  | None => (t, RErr)
  end.

Definition op_move (t : table) (p u np : Z) : table * result :=
  match find_node t u, find_node t np with
  | Some r, Some npr =>
      if (n_parent r =? p) && negb (u =? root_uid) && negb (is_link npr)
         && negb (existsb (Z.eqb np) (descendants t u)) && negb (np =? p) then
        match find_child (children t np) (n_name r) with
        | Some _ => (t, RErr)
        | None =>
            let t' := filter (fun x => negb (n_uid x =? u)) t in
            (t' ++ [mkN u np (n_name r) (n_label r) (n_dt r) (n_dims r) (n_data r) (n_link r)], ROk)
        end
      else (t, RErr)
  | _, _ => (t, RErr)
  end.

Definition op_label (t : table) (u : Z) (l : bytes) : table * result :=
  match find_node t u with
  | Some r =>
      if label_ok l && negb (is_link r) then
        (replace_node t (mkN u (n_parent r) (n_name r) l (n_dt r) (n_dims r) (n_data r) (n_link r)), ROk)
      else (t, RErr)
  | None => (t, RErr)
  end.

Definition dims_ok (dt : bytes) (dims : list Z) : bool :=
  if bytes_eqb dt s_MT then true
  else (0 <? dt_size dt) && (1 <=? length dims)%nat && (length dims <=? 12)%nat && forallb (Z.leb 1) dims.

Definition op_dims (t : table) (u : Z) (dt : bytes) (dims : list Z) : table * result :=
  match find_node t u with
  | Some r =>
      if dims_ok dt dims && negb (is_link r) then
        let dims' := if bytes_eqb dt s_MT then [] else dims in
        let r' := mkN u (n_parent r) (n_name r) (n_label r) dt dims' [] None in
        let r'' := mkN u (n_parent r) (n_name r) (n_label r) dt dims'
                       (repeat None (Z.to_nat (node_bytes r'))) None in
        (replace_node t r'', ROk)
      else (t, RErr)
  | None => (t, RErr)
  end.

Definition set_data (r : nrec) (d : list (option Z)) : nrec :=
  mkN (n_uid r) (n_parent r) (n_name r) (n_label r) (n_dt r) (n_dims r) d (n_link r).

Definition op_write_all (t : table) (u : Z) (d : bytes) : table * result :=
  match find_node t u with
  | Some r =>
      if (0 <? node_bytes r) && (lenZ d =? node_bytes r) && negb (is_link r) then
        (replace_node t (set_data r (map Some d)), ROk)
      else (t, RErr)
  | None => (t, RErr)
  end.

Definition op_write_block (t : table) (u b e : Z) (d : bytes) : table * result :=
  match find_node t u with
  | Some r =>
      let sz := dt_size (n_dt r) in
      if (0 <? node_bytes r) && (1 <=? b) && (b <=? e) && (e <=? node_elems r)
         && (lenZ d =? (e - b + 1) * sz) && negb (is_link r) then
        (replace_node t (set_data r (splice (n_data r) ((b - 1) * sz) (map Some d))), ROk)
      else (t, RErr)
  | None => (t, RErr)
  end.

Definition op_write_sel (t : table) (u : Z) (sel : list (Z * Z * Z)) (mdims : list Z)
                        (msel : list (Z * Z * Z)) (mem : bytes) : table * result :=
  match find_node t u with
  | Some r =>
      let sz := dt_size (n_dt r) in
      if (0 <? node_bytes r) && sel_ok (n_dims r) sel && sel_ok mdims msel && negb (is_link r)
         && (lenZ mem =? prodZ mdims * sz) then
        let fp := positions (n_dims r) sel in
        let mp := positions mdims msel in
        if (length fp =? length mp)%nat then
          (replace_node t (set_data r (scatter sz (n_data r) (map Some mem) (combine fp mp))), ROk)
        else (t, RErr)
      else (t, RErr)
  | None => (t, RErr)
  end.

Definition op_read_all (t : table) (u : Z) : result :=
  match find_node t u with
  | Some r => if (0 <? node_bytes r) && negb (is_link r) then RData (n_data r) else RErr
  | None => RErr
  end.

Definition op_read_block (t : table) (u b e : Z) : result :=
  match find_node t u with
  | Some r =>
      let sz := dt_size (n_dt r) in
      if (0 <? node_bytes r) && (1 <=? b) && (b <=? e) && (e <=? node_elems r) && negb (is_link r) then
        RData (slice (n_data r) ((b - 1) * sz) ((e - b + 1) * sz))
      else RErr
  | None => RErr
  end.

(* read into a memory buffer [mem] (its previous content, so that "and nothing else" is visible) *)
Definition op_read_sel (t : table) (u : Z) (sel : list (Z * Z * Z)) (mdims : list Z)
                       (msel : list (Z * Z * Z)) (mem : bytes) : result :=
  match find_node t u with
  | Some r =>
      let sz := dt_size (n_dt r) in
      if (0 <? node_bytes r) && sel_ok (n_dims r) sel && sel_ok mdims msel && negb (is_link r)
         && (lenZ mem =? prodZ mdims * sz) then
        let fp := positions (n_dims r) sel in
        let mp := positions mdims msel in
        if (length fp =? length mp)%nat then
          RData (scatter sz (map Some mem) (n_data r) (combine mp fp))
        else RErr
      else RErr
  | None => RErr
  end.

Definition op_nchildren (t : table) (u : Z) : result :=
  match find_node t u with Some _ => RInt (lenZ (children t u)) | None => RErr end.

(* cgio_children_names(start, max): names of children start .. start+max-1 (1-based) *)
Definition op_child_names (t : table) (u start n : Z) : result :=
  match find_node t u with
  | Some _ =>
      if (1 <=? start) && (0 <=? n) then
        RNames (map n_name (firstn (Z.to_nat n) (skipn (Z.to_nat (start - 1)) (children t u))))
      else RErr
  | None => RErr
  end.

(* path lookup relative to u: segments separated by '/', a leading '/' restarts at the root *)
Fixpoint split_path (p : bytes) (cur : bytes) : list bytes :=
  match p with
  | [] => [cur]
  | c :: rest => if c =? 47 then cur :: split_path rest [] else split_path rest (cur ++ [c])
  end.
Fixpoint walk (t : table) (u : Z) (segs : list bytes) : option nrec :=
  match segs with
  | [] => find_node t u
  | s :: rest =>
      if (lenZ s =? 0) then walk t u rest
      else match find_child (children t u) s with
           | Some r => walk t (n_uid r) rest
           | None => None
           end
  end.
Definition op_lookup (t : table) (u : Z) (path : bytes) : result :=
  match find_node t u with
  | Some _ =>
      let start := if hd 0 path =? 47 then root_uid else u in
      match walk t start (split_path path []) with
      | Some r => RNode (n_name r) (n_label r)
      | None => RErr
      end
  | None => RErr
  end.

Definition op_info (t : table) (u : Z) (what : Z) : result :=
  match find_node t u with
  | Some r =>
      match what with
      | 0 => RBytes (n_name r)
      | 1 => RBytes (n_label r)
      | 2 => RBytes (n_dt r)
      | 3 => RInts (n_dims r)
      | 4 => RInt (if is_link r then 1 else 0)
      | _ => match n_link r with Some (f, p) => RLink f p | None => RErr end
      end
  | None => RErr
  end.

(* ---- several files ---------------------------------------------------------------------------------------------- *)
Definition world := list (Z * table).      (* open or closed files by file number *)

Fixpoint get_file (w : world) (f : Z) : option table :=
  match w with [] => None | (g, t) :: rest => if g =? f then Some t else get_file rest f end.
Fixpoint set_file (w : world) (f : Z) (t : table) : world :=
  match w with
  | [] => [(f, t)]
  | (g, t0) :: rest => if g =? f then (f, t) :: rest else (g, t0) :: set_file rest f t
  end.

Inductive op :=
| OCreate (p u : Z) (nm : bytes) | OLink (p u : Z) (nm file path : bytes)
| ODelete (p u : Z) | ORename (p u : Z) (nm : bytes) | OMove (p u np : Z)
| OLabel (u : Z) (l : bytes) | ODims (u : Z) (dt : bytes) (dims : list Z)
| OWriteAll (u : Z) (d : bytes) | OWriteBlock (u b e : Z) (d : bytes)
| OWriteSel (u : Z) (sel : list (Z * Z * Z)) (mdims : list Z) (msel : list (Z * Z * Z)) (mem : bytes)
| OReadAll (u : Z) | OReadBlock (u b e : Z)
| OReadSel (u : Z) (sel : list (Z * Z * Z)) (mdims : list Z) (msel : list (Z * Z * Z)) (mem : bytes)
| ONChildren (u : Z) | OChildNames (u start n : Z) | OLookup (u : Z) (path : bytes) | OInfo (u what : Z).

Definition step_table (to_end : bool) (t : table) (o : op) : table * result :=
  match o with
  | OCreate p u nm => op_create t p u nm
  | OLink p u nm f pa => op_link t p u nm f pa
  | ODelete p u => op_delete t p u
  | ORename p u nm => op_rename to_end t p u nm
  | OMove p u np => op_move t p u np
  | OLabel u l => op_label t u l
  | ODims u dt dims => op_dims t u dt dims
  | OWriteAll u d => op_write_all t u d
  | OWriteBlock u b e d => op_write_block t u b e d
  | OWriteSel u sel md msel mem => op_write_sel t u sel md msel mem
  | OReadAll u => (t, op_read_all t u)
  | OReadBlock u b e => (t, op_read_block t u b e)
  | OReadSel u sel md msel mem => (t, op_read_sel t u sel md msel mem)
  | ONChildren u => (t, op_nchildren t u)
  | OChildNames u s n => (t, op_child_names t u s n)
  | OLookup u p => (t, op_lookup t u p)
  | OInfo u w => (t, op_info t u w)
  end.

Definition is_mutator (o : op) : bool :=
  match o with
  | OCreate _ _ _ | OLink _ _ _ _ _ | ODelete _ _ | ORename _ _ _ | OMove _ _ _ | OLabel _ _ | ODims _ _ _
  | OWriteAll _ _ | OWriteBlock _ _ _ _ | OWriteSel _ _ _ _ _ => true
  | _ => false
  end.

(* open modes: 0 = closed, 1 = read-only, 2 = read/write *)
Fixpoint get_mode (m : list (Z * Z)) (f : Z) : Z :=
  match m with [] => 0 | (g, x) :: rest => if g =? f then x else get_mode rest f end.
Fixpoint set_mode (m : list (Z * Z)) (f x : Z) : list (Z * Z) :=
  match m with
  | [] => [(f, x)]
  | (g, y) :: rest => if g =? f then (f, x) :: rest else (g, y) :: set_mode rest f x
  end.

(* s_pol f = 1 when file f is on the HDF5 back end (rename re-links), 0 for ADF *)
Record session := mkS { s_world : world; s_modes : list (Z * Z); s_pol : list (Z * Z) }.
Definition empty_session : session := mkS [] [] [].

(* cgio_open_file: 'w' (2, creates/truncates), 'm' (2, must exist), 'r' (1, must exist) *)
Definition open_file (s : session) (f : Z) (create : bool) (mode : Z) (pol : Z) : session * result :=
  if negb (get_mode (s_modes s) f =? 0) then (s, RErr) else
  if create then (mkS (set_file (s_world s) f empty_table) (set_mode (s_modes s) f 2) (set_mode (s_pol s) f pol), ROk)
  else match get_file (s_world s) f with
       | Some _ => (mkS (s_world s) (set_mode (s_modes s) f mode) (s_pol s), ROk)
       | None => (s, RErr)
       end.
Definition close_file (s : session) (f : Z) : session * result :=
  if get_mode (s_modes s) f =? 0 then (s, RErr) else (mkS (s_world s) (set_mode (s_modes s) f 0) (s_pol s), ROk).

(* an operation on open file f; a closed handle, or a mutator on a read-only file, is an error and changes nothing *)
Definition step (s : session) (f : Z) (o : op) : session * result :=
  let md := get_mode (s_modes s) f in
  if (md =? 0) || ((md =? 1) && is_mutator o) then (s, RErr) else
  match get_file (s_world s) f with
  | Some t => let '(t', r) := step_table (get_mode (s_pol s) f =? 1) t o in
              (mkS (set_file (s_world s) f t') (s_modes s) (s_pol s), r)
  | None => (s, RErr)
  end.
