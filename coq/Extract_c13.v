(* Extract_c13.v -- extraction of the C13 models (AdfCodec, AdfWalk) to OCaml.  ExtrOcamlBasic only; Z, N,
   positive, nat stay extracted inductives.  No Extract Constant / Extract Inductive directives of our own. *)
From Coq Require Import Extraction ExtrOcamlBasic.
From CgnsV Require Import AdfCodec AdfWalk.
Extraction Language OCaml.
Set Extraction KeepSingleton.
Extraction "extracted/c13/model.ml"
  AdfCodec.hex2uint AdfCodec.hexenc AdfCodec.dp_from_hex AdfCodec.dp_to_hex AdfCodec.dp_dec AdfCodec.dp_enc
  AdfCodec.dec_file_header AdfCodec.enc_file_header AdfCodec.dec_fct AdfCodec.enc_fct
  AdfCodec.dec_node_header AdfCodec.enc_node_header AdfCodec.dec_snt_entry AdfCodec.enc_snt_entry
  AdfCodec.enc_snt AdfCodec.enc_dct AdfCodec.enc_data_chunk AdfCodec.conv_int AdfCodec.conv_int_enc
  AdfCodec.file_header_fields AdfCodec.node_header_fields AdfCodec.adjust AdfCodec.tagscan
  AdfWalk.mkfile AdfWalk.read_file AdfWalk.check_file AdfWalk.database_open AdfWalk.read_file_header
  AdfWalk.read_node_header AdfWalk.read_chunk_length AdfWalk.read_sub_node_table AdfWalk.read_dct
  AdfWalk.check_4_child_name AdfWalk.get_node_id AdfWalk.chase_link AdfWalk.read_all_data AdfWalk.get_link_path
  AdfWalk.walk AdfWalk.cksum AdfWalk.LINK_FUEL AdfWalk.snt_count AdfWalk.dct_count
  AdfWalk.wit_valid AdfWalk.wit_oobw AdfWalk.wit_oobr AdfWalk.wit_cycle AdfWalk.wit_linkrec AdfWalk.wit_biglink
  AdfWalk.wit_abort AdfWalk.wit_tagscan AdfWalk.wit_stale AdfWalk.wit_dct AdfWalk.wit_neglink AdfWalk.wit_hugelink
  AdfWalk.wit_toklink AdfWalk.wit_longfile AdfWalk.wit_longpath AdfWalk.wit_nosep AdfWalk.wit_ver AdfWalk.database_version AdfWalk.wit_fmtneg AdfWalk.wit_dtov AdfWalk.wit_rtype AdfWalk.wit_dim AdfWalk.wit_sizes AdfWalk.wit_radset AdfWalk.wit_radneg
  AdfCodec.legacy AdfCodec.repaired AdfWalk.get_node_id_top.
