(* Properties_C19.v -- exported theorems for C19 (ADF files in any supported numeric format read back the
   same values).  Only statements, each closed by [exact] of a lemma of AdfFormatProofs.v, each followed by
   Print Assumptions.  Vocabulary (AdfFormatProofs.v): enc f n v = the n-byte encoding of v in byte order f
   ('B' big / 'L' little endian); is_fmt c = c is 'B' or 'L'; std_sizes h = the header sizes this library writes
   (long = 8); long4_sizes h = a foreign 32-bit writer's header (long = 4); xlate a b x = x if a = b, else rev x. *)
From Coq Require Import ZArith List Bool.
From CgnsV Require Import ListX AdfFormat AdfFormatProofs.
Import ListNotations.
Local Open Scope Z_scope.

(* 1. semantic: what ADFI_convert_number_format stores for one scalar of any type, for every machine format and
      every file format, is the file-byte-order encoding of the same value at the same width *)
Theorem C19_to_file_is_encoding : forall m mf mo h t v temp,
  machine_format_of m = (mf, mo) -> is_fmt mf -> is_fmt mo -> is_fmt (h_format h) -> is_fmt (h_os h) ->
  formats_equal mf (h_format h) mo (h_os h) = false -> std_sizes h -> scalar t = true ->
  to_file1 m h t (enc mf (width t) v) temp = Ok (enc (h_format h) (width t) v).
Proof. exact to_file_is_encoding. Qed.
Print Assumptions C19_to_file_is_encoding.

(* 1b. layout documentation (NOT part of C19's claim): X4 / X8 are reversed as one 8 / 16-byte unit, so across
      byte orders the file holds (imaginary, real) *)
Theorem C19_complex_layout_is_reversed_unit : forall m mf mo h t (n : nat) re im temp,
  machine_format_of m = (mf, mo) -> is_fmt mf -> is_fmt mo -> is_fmt (h_format h) -> is_fmt (h_os h) ->
  formats_equal mf (h_format h) mo (h_os h) = false -> std_sizes h ->
  (t = X4 /\ n = 4%nat) \/ (t = X8 /\ n = 8%nat) -> mf <> h_format h ->
  to_file1 m h t (enc mf n re ++ enc mf n im) temp = Ok (enc (h_format h) n im ++ enc (h_format h) n re).
Proof. exact complex_layout. Qed.
Print Assumptions C19_complex_layout_is_reversed_unit.

(* 2. round trip of one element of every type (C1 B1 I4 U4 I8 U8 R4 R8 X4 X8), every machine / file format pair *)
Theorem C19_roundtrip_element : forall m mf mo h t x temp temp',
  machine_format_of m = (mf, mo) -> is_fmt mf -> is_fmt mo -> is_fmt (h_format h) -> is_fmt (h_os h) ->
  formats_equal mf (h_format h) mo (h_os h) = false -> std_sizes h -> t <> MT -> lenZ x = wz t ->
  bindr (to_file1 m h t x temp) (fun y => from_file1 m h t y temp') = Ok x.
Proof. exact roundtrip1. Qed.
Print Assumptions C19_roundtrip_element.

(* 2b. arrays of any length through ADFI_write_data_translated and back through ADFI_read_data_translated:
      writes are contiguous from offset 0, none exceeds the 100000-byte buffer, together they are the
      element-wise translation, and reading them back (whatever follows in the file) returns the data *)
Theorem C19_roundtrip_array : forall mf mo hf ho t es tail temp temp',
  is_fmt mf -> is_fmt mo -> is_fmt hf -> is_fmt ho -> formats_equal mf hf mo ho = false ->
  t <> MT -> Forall (fun e => lenZ e = wz t) es ->
  let total := lenZ es * wz t in
  exists ws,
    write_data_translated mf mo hf ho (std_tt t) (wz t) total (concat es) temp = (ws, NO_ERROR)
    /\ contiguous 0 ws /\ Forall (fun w => lenZ (snd w) <= CONVERSION_BUFF_SIZE) ws
    /\ concat (map snd ws) = concat (map (xlate mf hf) es)
    /\ read_data_translated hf ho mf mo (std_tt t) (wz t) total (concat (map snd ws) ++ tail) temp'
       = (concat es, NO_ERROR).
Proof. exact array_roundtrip. Qed.
Print Assumptions C19_roundtrip_array.

(* 3. chunking, for ANY element-wise converter and any element sizes: every element exactly once, in order *)
Theorem C19_chunking_write : forall conv f isz osz total es,
  (forall es rest, es <> [] -> Forall (fun e => lenZ e = isz) es ->
      conv (lenZ es) (concat es ++ rest) = Ok (concat (map f es))) ->
  (forall x, lenZ x = isz -> lenZ (f x) = osz) ->
  0 < osz <= CONVERSION_BUFF_SIZE -> Forall (fun e => lenZ e = isz) es -> total / osz = lenZ es ->
  exists ws, write_translated_gen conv isz osz total (concat es) = (ws, NO_ERROR)
    /\ concat (map snd ws) = concat (map f es) /\ contiguous 0 ws
    /\ Forall (fun w => lenZ (snd w) <= CONVERSION_BUFF_SIZE) ws.
Proof. exact write_translated_gen_spec. Qed.
Print Assumptions C19_chunking_write.

Theorem C19_chunking_read : forall conv f isz osz total es tail,
  (forall es rest, es <> [] -> Forall (fun e => lenZ e = isz) es ->
      conv (lenZ es) (concat es ++ rest) = Ok (concat (map f es))) ->
  (forall x, lenZ x = isz -> lenZ (f x) = osz) ->
  0 < isz <= CONVERSION_BUFF_SIZE -> Forall (fun e => lenZ e = isz) es -> total / isz = lenZ es ->
  read_translated_gen conv osz isz total (concat es ++ tail) = (concat (map f es), NO_ERROR).
Proof. exact read_translated_gen_spec. Qed.
Print Assumptions C19_chunking_read.

(* 4. foreign headers with sizeof(long) = 4 (32-bit files of either byte order), on this host *)
Theorem C19_long4_I8_stores_low_4_bytes : forall h b0 b1 b2 b3 b4 b5 b6 b7 temp,
  long4_sizes h -> h_os h = chL -> is_fmt (h_format h) ->
  to_file1 this_host h I8 [b0; b1; b2; b3; b4; b5; b6; b7] temp = Ok (xlate chL (h_format h) [b0; b1; b2; b3]).
Proof. exact i8_long4_to_file. Qed.
Print Assumptions C19_long4_I8_stores_low_4_bytes.

Theorem C19_long4_I8_roundtrip_iff_fits_32_bits : forall h v temp temp',
  long4_sizes h -> h_os h = chL -> is_fmt (h_format h) -> - 2 ^ 63 <= v < 2 ^ 63 ->
  (bindr (to_file1 this_host h I8 (enc_le 8 v) temp) (fun y => from_file1 this_host h I8 y temp')
   = Ok (enc_le 8 v)) <-> - 2 ^ 31 <= v < 2 ^ 31.
Proof. exact i8_long4_iff. Qed.
Print Assumptions C19_long4_I8_roundtrip_iff_fits_32_bits.

(* 5. refusals *)
Theorem C19_refused_U8_long4 : forall hf (dir : bool) k d temp,
  is_fmt hf -> 0 < k ->
  (if dir then convert_number_format hf chL chL chB true (tt_long4 U8) k d temp
   else convert_number_format chL chB hf chL false (tt_long4 U8) k d temp) = Err INVALID_DATA_TYPE.
Proof. exact u8_long4_refused. Qed.
Print Assumptions C19_refused_U8_long4.

Theorem C19_refused_long4_in_64bit_big_endian_file : forall t (dir : bool) k d temp,
  t = I8 \/ t = U8 -> 0 < k ->
  (if dir then convert_number_format chB chB chL chB true (tt_long4 t) k d temp
   else convert_number_format chL chB chB chB false (tt_long4 t) k d temp) = Err DATA_TYPE_NOT_SUPPORTED.
Proof. exact long4_big64_refused. Qed.
Print Assumptions C19_refused_long4_in_64bit_big_endian_file.

Theorem C19_refused_native : forall ff fos tf tos dir tt k d temp,
  k <> 0 -> ff = chN \/ tf = chN ->
  convert_number_format ff fos tf tos dir tt k d temp = Err CANNOT_CONVERT_NATIVE_FORMAT.
Proof. exact native_refused. Qed.
Print Assumptions C19_refused_native.

Theorem C19_refused_unknown_letters : forall ff fos tf tos dir t k d temp,
  0 < k -> t <> MT -> (ff =? chN) || (tf =? chN) = false -> formats_equal ff tf fos tos = false ->
  classify ff tf fos tos = CNone ->
  convert_number_format ff fos tf tos dir (std_tt t) k d temp = Err MACHINE_FORMAT_NOT_RECOGNIZED.
Proof. exact unknown_letters_refused. Qed.
Print Assumptions C19_refused_unknown_letters.

Theorem C19_refused_writes_nothing : forall mf mo ff fo tt e total data temp,
  (forall k d, 0 < k -> convert_number_format mf mo ff fo false tt k d temp = Err e) -> e <> NO_ERROR ->
  fst (write_data_translated mf mo ff fo tt (tt_fbytes tt) total data temp) = []
  /\ (0 < tt_fbytes tt <= CONVERSION_BUFF_SIZE -> 0 < total / tt_fbytes tt ->
      snd (write_data_translated mf mo ff fo tt (tt_fbytes tt) total data temp) <> NO_ERROR).
Proof. exact refused_no_write. Qed.
Print Assumptions C19_refused_writes_nothing.

Theorem C19_refused_native_header_with_other_sizes : forall h tt,
  h_format h = chN -> h_long h <> 8 ->
  file_and_machine_compare this_host false h tt = Err MACHINE_FILE_INCOMPATABLE.
Proof. exact native_size_mismatch_refused. Qed.
Print Assumptions C19_refused_native_header_with_other_sizes.

(* the defect repaired by /repo commit e4e8197, kept as a witness about the old two-step arms: U8 data went
   through with NO_ERROR as stale bytes (two different inputs, same file bytes); the current code refuses *)
Theorem C19_masked_resize_error_refuted :
  exists x1 x2 temp,
    x1 <> x2 /\
    convert_number_format_old chL chB chB chL false (tt_long4 U8) 1 x1 temp = Ok [0; 0; 0; 0] /\
    convert_number_format_old chL chB chB chL false (tt_long4 U8) 1 x2 temp = Ok [0; 0; 0; 0] /\
    convert_number_format chL chB chB chL false (tt_long4 U8) 1 x1 temp = Err INVALID_DATA_TYPE.
Proof. exact masked_error_refuted. Qed.
Print Assumptions C19_masked_resize_error_refuted.

(* 6. the reported format *)
Theorem C19_format_reported : forall garb, forallb (reported_ok garb) six_formats = true.
Proof. exact format_reported. Qed.
Print Assumptions C19_format_reported.

Theorem C19_created_headers_have_long8 : forall garb,
  forallb (fun s => match database_open_new this_host (Some s) garb with Ok h => std_sizes_b h | Err _ => false end)
          six_formats = true.
Proof. exact created_headers_std. Qed.
Print Assumptions C19_created_headers_have_long8.

Theorem C19_reported_letters_are_the_written_ones : forall h h',
  parse_header_bytes (header_bytes h) = Ok h' -> get_format h' = get_format h.
Proof. exact reported_is_written. Qed.
Print Assumptions C19_reported_letters_are_the_written_ones.

Theorem C19_get_format_never_guesses : forall h,
  get_format h = Err ADF_FILE_FORMAT_NOT_RECOGNIZED \/
  exists s, get_format h = Ok s /\ In s [S_IEEE_BIG_32; S_IEEE_LITTLE_32; S_IEEE_BIG_64; S_IEEE_LITTLE_64; S_CRAY; S_NATIVE].
Proof. exact get_format_unknown. Qed.
Print Assumptions C19_get_format_never_guesses.

(* an unrecognised format NAME is refused only as long as the uninitialised locals of ADF_Database_Open do not
   happen to hold a format letter *)
Theorem C19_bogus_name_refused_unless_garbage_is_a_letter : forall g1 g2 g3,
  (g2 =? chB) || (g2 =? chL) || (g2 =? chC) || (g2 =? chN) = false ->
  database_open_new this_host (Some [66; 79; 71; 85; 83]) (g1, g2, g3) = Err ADF_FILE_FORMAT_NOT_RECOGNIZED.
Proof. exact bogus_name_refused_if_garbage_is_not_a_letter. Qed.
Print Assumptions C19_bogus_name_refused_unless_garbage_is_a_letter.

Theorem C19_bogus_name_always_refused_refuted :
  exists g h, database_open_new this_host (Some [66; 79; 71; 85; 83]) g = Ok h.
Proof. exact bogus_name_accepted_refuted. Qed.
Print Assumptions C19_bogus_name_always_refused_refuted.

(* ---- non-vacuity of the hypotheses *)
Example ex_host : machine_format_of this_host = (chL, chB) /\ is_fmt chL /\ is_fmt chB.
Proof. repeat split; [right|left]; reflexivity. Qed.
Example ex_std_header : exists h, database_open_new this_host (Some S_IEEE_BIG_32) (0, 0, 0) = Ok h /\ std_sizes h
                                  /\ formats_equal chL (h_format h) chB (h_os h) = false.
Proof. eexists. split; [vm_compute; reflexivity|]. repeat split. Qed.
Example ex_long4_header : long4_sizes {| h_format := chB; h_os := chL; h_char := 1; h_short := 2; h_int := 4; h_long := 4;
    h_float := 4; h_double := 8; h_char_p := 4; h_short_p := 4; h_int_p := 4; h_long_p := 4; h_float_p := 4; h_double_p := 4 |}.
Proof. repeat split. Qed.
Example ex_roundtrip_array_instance :
  fst (write_data_translated chL chB chB chL (std_tt R8) 8 16 [1;2;3;4;5;6;7;8; 9;10;11;12;13;14;15;16] [])
  = [(0, [8;7;6;5;4;3;2;1; 16;15;14;13;12;11;10;9])].
Proof. vm_compute. reflexivity. Qed.
Example ex_unknown_letters : classify 81 chL chB chB = CNone.
Proof. reflexivity. Qed.
