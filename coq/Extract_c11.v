(* Extract_c11.v -- extraction of the C11 model (Goto + the regenerated tables) to OCaml.  ExtrOcamlBasic only;
   Z, N, positive, nat, ascii, string stay extracted inductives.  No Extract Constant / Extract Inductive of our own. *)
From Coq Require Import Extraction ExtrOcamlBasic.
From CgnsV Require Import Goto Gen_C11.
Extraction Language OCaml.
Set Extraction KeepSingleton.
Extraction "extracted/c11/model.ml" Goto.run_op Goto.where_ Goto.fdb_of Goto.cleared Goto.deref Goto.resolve_multiple
  Goto.table_ok Goto.bad_arms Goto.bad_labels Goto.bad_arows Goto.unreachable_labels Goto.changed_shapes
  Goto.expected_shapes Gen_C11.goto_table Gen_C11.structs Gen_C11.addr_table Gen_C11.shapes.
