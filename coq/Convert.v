(* Convert.v -- executable model for property C06 (no proofs in this file).

   Part 1: C conversion semantics on BIT PATTERNS (values are the unsigned integer read from the little-endian
           bytes of one array element): integers with two's-complement wrap / sign extension (char is signed 8-bit
           on this target), binary32/binary64 through Flocq 4.1 (round-to-nearest-even for int->float and
           double->float, truncation for float->int, exact widening), NaNs on the bit level (x86-64 SSE: sign and
           payload kept, quiet bit set), complex = (re, im) packed as re + 2^w * im.
   Part 2: the shape of one arm of the cast table cgi_convert_data (regenerated into Gen_C06.v by
           translators/c06_casts.py) and its meaning.
   Part 3: transcription of the decisions of cgi_array_general_write / cgi_array_general_read
           (cgns_internals.c) for rank-1 transfers, of cg_array_read_as, and of the integer helpers. *)
From Coq Require Import ZArith List Bool.
From Flocq Require Import Core.Zaux Core.Raux IEEE754.BinarySingleNaN IEEE754.Binary IEEE754.Bits.
Import ListNotations.
Local Open Scope Z_scope.

(* ------------------------------------------------------------------ types *)
Inductive dtype := C1 | I4 | I8 | R4 | R8 | X4 | X8.
Inductive ctype := CChar | CInt | CLong | CFloat | CDouble | CFloatCx | CDoubleCx | COther.

Definition dtype_code (d : dtype) : Z :=
  match d with C1 => 0 | I4 => 1 | I8 => 2 | R4 => 3 | R8 => 4 | X4 => 5 | X8 => 6 end.
Definition dtype_eqb (a b : dtype) : bool := dtype_code a =? dtype_code b.
Definition ctype_code (c : ctype) : Z :=
  match c with CChar => 0 | CInt => 1 | CLong => 2 | CFloat => 3 | CDouble => 4 | CFloatCx => 5 | CDoubleCx => 6
             | COther => 7 end.
Definition ctype_eqb (a b : ctype) : bool := ctype_code a =? ctype_code b.

(* the C type through which an array of CGNS type d is accessed (cgns_internals.c, 64-bit Linux) *)
Definition ctype_of (d : dtype) : ctype :=
  match d with C1 => CChar | I4 => CInt | I8 => CLong | R4 => CFloat | R8 => CDouble | X4 => CFloatCx
             | X8 => CDoubleCx end.
Definition cbits (c : ctype) : Z :=
  match c with CChar => 8 | CInt => 32 | CLong => 64 | CFloat => 32 | CDouble => 64 | CFloatCx => 64
             | CDoubleCx => 128 | COther => 0 end.
Definition dbits (d : dtype) : Z := cbits (ctype_of d).
Definition all_dtypes : list dtype := [C1; I4; I8; R4; R8; X4; X8].

(* the conversions the property calls supported: the five scalar types among themselves, X4/X8 among themselves *)
Definition is_cplx (d : dtype) : bool := match d with X4 | X8 => true | _ => false end.
Definition supported (f t : dtype) : bool := Bool.eqb (is_cplx f) (is_cplx t).

(* ------------------------------------------------------------------ integers *)
Definition wrapu (b v : Z) : Z := v mod 2 ^ b.                    (* store a mathematical integer in b bits *)
Definition sgn (b u : Z) : Z := if u <? 2 ^ (b - 1) then u else u - 2 ^ b.   (* signed value of a b-bit pattern *)
Definition in_srange (b v : Z) : bool := (- 2 ^ (b - 1) <=? v) && (v <? 2 ^ (b - 1)).

(* ------------------------------------------------------------------ floats (Flocq) *)
Definition Hp32 : FLX.Prec_gt_0 24 := eq_refl.
Definition Hm32 : Prec_lt_emax 24 128 := eq_refl.
Definition Hp64 : FLX.Prec_gt_0 53 := eq_refl.
Definition Hm64 : Prec_lt_emax 53 1024 := eq_refl.

Definition f32_of_Z (z : Z) : binary32 := binary_normalize 24 128 Hp32 Hm32 mode_NE z 0 false.
Definition f64_of_Z (z : Z) : binary64 := binary_normalize 53 1024 Hp64 Hm64 mode_NE z 0 false.

(* is the bit pattern a NaN (exponent all ones, fraction non-zero)?  decided by Flocq's decoder *)
Definition is_nan32 (u : Z) : bool := Binary.is_nan 24 128 (b32_of_bits u).
Definition is_nan64 (u : Z) : bool := Binary.is_nan 53 1024 (b64_of_bits u).
Definition is_inf32 (u : Z) : bool := u mod 2 ^ 31 =? 255 * 2 ^ 23.
Definition is_inf64 (u : Z) : bool := u mod 2 ^ 63 =? 2047 * 2 ^ 52.

(* binary32 -> binary64, exact; binary64 -> binary32, round to nearest even (overflow gives infinity).
   NaNs never reach these two functions (handled on the bits below); the B754_nan arm only makes them total. *)
Definition widen (x : binary32) : binary64 :=
  match x with
  | B754_zero _ _ s => B754_zero 53 1024 s
  | B754_infinity _ _ s => B754_infinity 53 1024 s
  | B754_nan _ _ s _ _ => B754_zero 53 1024 s
  | B754_finite _ _ s m e _ => binary_normalize 53 1024 Hp64 Hm64 mode_NE (cond_Zopp s (Zpos m)) e s
  end.
Definition narrow (x : binary64) : binary32 :=
  match x with
  | B754_zero _ _ s => B754_zero 24 128 s
  | B754_infinity _ _ s => B754_infinity 24 128 s
  | B754_nan _ _ s _ _ => B754_zero 24 128 s
  | B754_finite _ _ s m e _ => binary_normalize 24 128 Hp32 Hm32 mode_NE (cond_Zopp s (Zpos m)) e s
  end.

(* cvtss2sd / cvtsd2ss on a NaN: sign kept, fraction shifted, quiet bit set *)
Definition r4_to_r8 (u : Z) : Z :=
  if is_nan32 u then (u / 2 ^ 31) * 2 ^ 63 + 2047 * 2 ^ 52 + Z.lor ((u mod 2 ^ 23) * 2 ^ 29) (2 ^ 51)
  else bits_of_b64 (widen (b32_of_bits u)).
Definition r8_to_r4 (u : Z) : Z :=
  if is_nan64 u then (u / 2 ^ 63) * 2 ^ 31 + 255 * 2 ^ 23 + Z.lor ((u mod 2 ^ 52) / 2 ^ 29) (2 ^ 22)
  else bits_of_b32 (narrow (b64_of_bits u)).

(* float -> signed integer of b bits.  In range: truncation toward zero (the only case C defines).  Out of
   range, infinite or NaN: undefined in C; the value below is what cvttss2si/cvttsd2si deliver on x86-64
   ("integer indefinite": conversion to 32 bits for char and int, to 64 bits for long, then the low b bits). *)
Definition f2i_bits (b : Z) (finite : bool) (t : Z) : Z :=
  let w := if b <=? 32 then 32 else 64 in
  wrapu b (if finite && in_srange w t then t else - 2 ^ (w - 1)).
Definition r4_to_int (b : Z) (u : Z) : Z :=
  let x := b32_of_bits u in f2i_bits b (Binary.is_finite 24 128 x) (Binary.Btrunc 24 128 x).
Definition r8_to_int (b : Z) (u : Z) : Z :=
  let x := b64_of_bits u in f2i_bits b (Binary.is_finite 53 1024 x) (Binary.Btrunc 53 1024 x).

(* ------------------------------------------------------------------ conversion between C types *)
Definition is_intc (c : ctype) : bool := match c with CChar | CInt | CLong => true | _ => false end.

Definition conv_scalar (a b : ctype) (u : Z) : Z :=
  if ctype_eqb a b then u else
  match a, b with
  | (CChar | CInt | CLong), (CChar | CInt | CLong) => wrapu (cbits b) (sgn (cbits a) u)
  | (CChar | CInt | CLong), CFloat => bits_of_b32 (f32_of_Z (sgn (cbits a) u))
  | (CChar | CInt | CLong), CDouble => bits_of_b64 (f64_of_Z (sgn (cbits a) u))
  | CFloat, (CChar | CInt | CLong) => r4_to_int (cbits b) u
  | CDouble, (CChar | CInt | CLong) => r8_to_int (cbits b) u
  | CFloat, CDouble => r4_to_r8 u
  | CDouble, CFloat => r8_to_r4 u
  | _, _ => 0
  end.

(* complex values: re + 2^w * im  (re first in memory, little endian) *)
Definition conv (a b : ctype) (u : Z) : Z :=
  if ctype_eqb a b then u else
  match a, b with
  | CFloatCx, CDoubleCx => r4_to_r8 (u mod 2 ^ 32) + 2 ^ 64 * r4_to_r8 (u / 2 ^ 32)
  | CDoubleCx, CFloatCx => r8_to_r4 (u mod 2 ^ 64) + 2 ^ 32 * r8_to_r4 (u / 2 ^ 64)
  | _, _ => conv_scalar a b u
  end.

(* THE SPECIFICATION: what "the C conversion of v from CGNS type f to CGNS type t" is *)
Definition c_cast (f t : dtype) (u : Z) : Z := conv (ctype_of f) (ctype_of t) u.

(* "representable in the destination type" (the property's guard; outside it C leaves the result undefined or
   implementation-defined and the two back ends legitimately differ: ADF wraps, HDF5 saturates) *)
Definition flt_max32 : Z := 2139095039.          (* 0x7f7fffff *)
Definition repr_scalar (a b : ctype) (u : Z) : bool :=
  if ctype_eqb a b then true else
  match a, b with
  | (CChar | CInt | CLong), (CChar | CInt | CLong) => in_srange (cbits b) (sgn (cbits a) u)
  | (CChar | CInt | CLong), (CFloat | CDouble) => true
  | CFloat, (CChar | CInt | CLong) =>
      let x := b32_of_bits u in Binary.is_finite 24 128 x && in_srange (cbits b) (Binary.Btrunc 24 128 x)
  | CDouble, (CChar | CInt | CLong) =>
      let x := b64_of_bits u in Binary.is_finite 53 1024 x && in_srange (cbits b) (Binary.Btrunc 53 1024 x)
  | CFloat, CDouble => true
  | CDouble, CFloat =>
      is_nan64 u || is_inf64 u || (r8_to_r4 u mod 2 ^ 31 <=? flt_max32) && negb (is_inf32 (r8_to_r4 u))
  | _, _ => false
  end.
Definition representable (f t : dtype) (u : Z) : bool :=
  match f, t with
  | X4, X8 => true
  | X8, X4 => repr_scalar CDouble CFloat (u mod 2 ^ 64) && repr_scalar CDouble CFloat (u / 2 ^ 64)
  | _, _ => if dtype_eqb f t then true else repr_scalar (ctype_of f) (ctype_of t) u
  end.

(* ------------------------------------------------------------------ Part 2: the cast table *)
Inductive part := PWhole | PRe | PIm.
Record assign := mkAssign { as_dst : part; as_casts : list ctype; as_src : part }.
Inductive arm :=
| ArmLoop (src : ctype) (src_is_from_data : bool) (dst : ctype) (dst_is_to_data : bool) (body : list assign)
| ArmErr                (* ierr = 1 *)
| ArmFallThrough        (* no else: nothing is written and no error is raised *)
| ArmUnparsed.          (* the translator did not recognise the code *)
Record from_row := mkFrom { fr_from : dtype; fr_cells : list (dtype * arm); fr_else : arm }.
Record cast_tab := mkTab { ct_rows : list from_row; ct_default : arm }.

Fixpoint find_cell (t : dtype) (l : list (dtype * arm)) : option arm :=
  match l with
  | [] => None
  | (t', a) :: r => if dtype_eqb t t' then Some a else find_cell t r
  end.
Fixpoint find_row (f : dtype) (l : list from_row) : option from_row :=
  match l with
  | [] => None
  | r :: rest => if dtype_eqb f (fr_from r) then Some r else find_row f rest
  end.
(* the arm an if / else-if chain selects: first match, else the else-arm *)
Definition lookup_arm (tb : cast_tab) (f t : dtype) : arm :=
  match find_row f (ct_rows tb) with
  | None => ct_default tb
  | Some r => match find_cell t (fr_cells r) with None => fr_else r | Some a => a end
  end.

Definition get_part (c : ctype) (p : part) (u : Z) : option (ctype * Z) :=
  match p, c with
  | PWhole, _ => Some (c, u)
  | PRe, CFloatCx => Some (CFloat, u mod 2 ^ 32)
  | PIm, CFloatCx => Some (CFloat, u / 2 ^ 32)
  | PRe, CDoubleCx => Some (CDouble, u mod 2 ^ 64)
  | PIm, CDoubleCx => Some (CDouble, u / 2 ^ 64)
  | _, _ => None
  end.
(* acc = (re, im) or (whole, 0) of the destination element *)
Definition set_part (c : ctype) (p : part) (acc : Z * Z) (tv : ctype * Z) : option (Z * Z) :=
  let (t, v) := tv in
  match p, c with
  | PWhole, _ => if ctype_eqb t c then Some (v, 0) else None
  | PRe, CFloatCx => if ctype_eqb t CFloat then Some (v, snd acc) else None
  | PIm, CFloatCx => if ctype_eqb t CFloat then Some (fst acc, v) else None
  | PRe, CDoubleCx => if ctype_eqb t CDouble then Some (v, snd acc) else None
  | PIm, CDoubleCx => if ctype_eqb t CDouble then Some (fst acc, v) else None
  | _, _ => None
  end.
Definition apply_casts (tv : ctype * Z) (casts : list ctype) : ctype * Z :=
  fold_left (fun (x : ctype * Z) (t : ctype) => (t, conv (fst x) t (snd x))) casts tv.
Definition final_conv (dst : ctype) (p : part) (tv : ctype * Z) : ctype * Z :=
  (* the implicit conversion of an assignment to the type of the destination lvalue *)
  let target := match p, dst with
                | PWhole, _ => dst | _, CFloatCx => CFloat | _, CDoubleCx => CDouble | _, _ => COther end in
  (target, conv (fst tv) target (snd tv)).
Fixpoint run_assigns (src dst : ctype) (u : Z) (body : list assign) (acc : Z * Z) : option (Z * Z) :=
  match body with
  | [] => Some acc
  | a :: r =>
      match get_part src (as_src a) u with
      | None => None
      | Some tv =>
          match set_part dst (as_dst a) acc (final_conv dst (as_dst a) (apply_casts tv (as_casts a))) with
          | None => None
          | Some acc' => run_assigns src dst u r acc'
          end
      end
  end.
Definition pack (dst : ctype) (acc : Z * Z) : Z :=
  match dst with
  | CFloatCx => fst acc + 2 ^ 32 * snd acc
  | CDoubleCx => fst acc + 2 ^ 64 * snd acc
  | _ => fst acc
  end.

Inductive cres := CVal (v : Z) | CError | CNoWrite | CUnknown.
(* what an arm does to ONE element of an array of CGNS type f being converted to CGNS type t.  An arm reading
   the input through a pointer of another width, or reading/writing the wrong buffer, is not element-wise:
   CUnknown. *)
Definition arm_action (a : arm) (f t : dtype) (u : Z) : cres :=
  match a with
  | ArmErr => CError
  | ArmFallThrough => CNoWrite
  | ArmUnparsed => CUnknown
  | ArmLoop src sfrom dst dto body =>
      if sfrom && dto && (cbits src =? dbits f) && (cbits dst =? dbits t) && negb (cbits src =? 0) then
        match body with
        | [] => CNoWrite
        | _ => match run_assigns src dst u body (0, 0) with
               | None => CUnknown
               | Some acc => CVal (pack dst acc)
               end
        end
      else CUnknown
  end.

(* cgi_convert_data(cnt, f, data, t, out) for this table: None = returns an error / not element-wise *)
Fixpoint all_vals (l : list cres) : option (list Z) :=
  match l with
  | [] => Some []
  | CVal v :: r => match all_vals r with Some r' => Some (v :: r') | None => None end
  | _ :: _ => None
  end.
Definition convert_data (tb : cast_tab) (f t : dtype) (data : list Z) : option (list Z) :=
  match lookup_arm tb f t with
  | ArmErr => None
  | a => all_vals (map (arm_action a f t) data)
  end.

(* ------------------------------------------------------------------ Part 3: array read / write decisions *)
Inductive backend := ADF | HDF5.
Inductive route := Direct | AdfTemp | Hdf5InSitu.
(* cgns_internals.c cgi_array_general_write / _read:  if (s_type == m_type) ... else if (ADF) ... else ... *)
Definition route_of (be : backend) (s m : dtype) : route :=
  if dtype_eqb s m then Direct else match be with ADF => AdfTemp | HDF5 => Hdf5InSitu end.

Record arr := mkArr { a_name : Z; a_type : dtype; a_dim : Z; a_data : list Z }.
Inductive status := Ok | ErrRange | ErrMemRange | ErrNpt | ErrRank | ErrTypeMismatch | ErrDimMismatch
                  | ErrAdfPartialMem | ErrConvert | ErrNotFound | ErrCharOnly.

Fixpoint find_arr (n : Z) (l : list arr) : option arr :=
  match l with
  | [] => None
  | a :: r => if a_name a =? n then Some a else find_arr n r
  end.
Fixpoint put_arr (a : arr) (l : list arr) : list arr :=
  match l with
  | [] => [a]
  | b :: r => if a_name b =? a_name a then a :: r else b :: put_arr a r
  end.

(* cgi_array_general_verify_range for rank 1 in file and memory, no rind planes.
   returns (status, s_lo, s_hi, s_full, m_full, numpt) *)
Definition verify_range (is_write : bool) (s_dim rmin rmax m_dim m_rmin m_rmax : Z)
  : status * (Z * Z * bool * bool * Z) :=
  let npt := rmax - rmin + 1 in
  let s_full := npt =? s_dim in
  let s_reset := s_full && negb is_write in
  if negb s_reset && ((rmin >? rmax) || (rmax >? s_dim) || (rmin <? 1)) then (ErrRange, (0, 0, false, false, 0))
  else if m_dim <? 1 then (ErrMemRange, (0, 0, false, false, 0))
  else if (m_rmin >? m_rmax) || (m_rmax >? m_dim) || (m_rmin <? 1) then (ErrMemRange, (0, 0, false, false, 0))
  else
    let mnpt := m_rmax - m_rmin + 1 in
    let m_full := mnpt =? m_dim in
    if negb (npt =? mnpt) then (ErrNpt, (0, 0, false, false, 0))
    else if s_reset then (Ok, (1, s_dim, s_full, m_full, npt))
    else (Ok, (rmin, rmax, s_full, m_full, npt)).

Definition slice (lo hi : Z) (l : list Z) : list Z :=       (* 1-based inclusive *)
  firstn (Z.to_nat (hi - lo + 1)) (skipn (Z.to_nat (lo - 1)) l).
Definition splice (lo : Z) (new old : list Z) : list Z :=   (* overwrite old[lo .. lo+|new|-1] *)
  firstn (Z.to_nat (lo - 1)) old ++ new ++ skipn (Z.to_nat (lo - 1) + length new) old.

Section RW.
  (* what libhdf5's H5Dread/H5Dwrite do to one element when memory and file types differ: not modelled, a
     parameter of the model (instantiated by c_cast in the extracted model; the correspondence run tests that
     instantiation on every value class) *)
  Variable hconv : dtype -> dtype -> Z -> Z.
  Variable tb : cast_tab.

  (* convert the memory elements m_lo..m_hi of `mem` (type m) to the file type s along the route *)
  Definition to_file (be : backend) (s m : dtype) (m_full : bool) (vals : list Z) : status * list Z :=
    match route_of be s m with
    | Direct => (Ok, vals)
    | AdfTemp =>
        if negb m_full then (ErrAdfPartialMem, [])
        else match convert_data tb m s vals with None => (ErrConvert, []) | Some l => (Ok, l) end
    | Hdf5InSitu => if supported m s then (Ok, map (hconv m s) vals) else (ErrConvert, [])   (* H5Dwrite cannot convert compound <-> atomic *)
    end.

  (* cgi_array_general_write (rank 1): arrays = the parent's DataArray_t children *)
  Definition general_write (be : backend) (arrays : list arr) (name : Z) (s : dtype) (s_dim rmin rmax : Z)
             (m : dtype) (m_dim m_rmin m_rmax : Z) (mem : list Z) : status * list arr :=
    match verify_range true s_dim rmin rmax m_dim m_rmin m_rmax with
    | (Ok, (s_lo, s_hi, s_full, m_full, numpt)) =>
        let existing := find_arr name arrays in
        let chk := match existing with
                   | Some a => if negb (a_dim a =? s_dim) then ErrDimMismatch
                               else if negb (dtype_eqb (a_type a) s) then ErrTypeMismatch else Ok
                   | None => Ok
                   end in
        match chk with
        | Ok =>
            (* a new node is created with the FILE type s (cgns_internals.c:10621), zero-filled *)
            let a0 := match existing with Some a => a | None => mkArr name s s_dim (repeat 0 (Z.to_nat s_dim)) end in
            let arrays0 := put_arr a0 arrays in
            match to_file be s m m_full (slice m_rmin m_rmax mem) with
            | (Ok, vals) => (Ok, put_arr (mkArr name (a_type a0) (a_dim a0) (splice s_lo vals (a_data a0))) arrays0)
            | (e, _) => (e, arrays0)      (* the node stays created when the conversion fails afterwards *)
            end
        | e => (e, arrays)
        end
    | (e, _) => (e, arrays)
    end.

  (* cgi_array_general_read (rank 1): returns the new contents of the memory array *)
  Definition general_read (be : backend) (a : arr) (rmin rmax : Z) (m : dtype) (m_dim m_rmin m_rmax : Z)
             (mem : list Z) : status * list Z :=
    match verify_range false (a_dim a) rmin rmax m_dim m_rmin m_rmax with
    | (Ok, (s_lo, s_hi, s_full, m_full, numpt)) =>
        let s := a_type a in
        let stored := slice s_lo s_hi (a_data a) in
        match route_of be s m with
        | Direct => (Ok, splice m_rmin stored mem)
        | AdfTemp =>
            if negb m_full then (ErrAdfPartialMem, mem)
            else match convert_data tb s m stored with
                 | None => (ErrConvert, mem)
                 | Some l => (Ok, l)
                 end
        | Hdf5InSitu => if supported s m then (Ok, splice m_rmin (map (hconv s m) stored) mem) else (ErrConvert, mem)
        end
    | (e, _) => (e, mem)
    end.

  (* cg_array_read_as: always through cgi_convert_data, on both back ends; Character only as Character *)
  Definition array_read_as (a : arr) (m : dtype) : status * list Z :=
    let s := a_type a in
    if negb (Bool.eqb (dtype_eqb m C1) (dtype_eqb s C1)) then (ErrCharOnly, [])
    else if dtype_eqb m C1 then (Ok, a_data a)
    else match convert_data tb s m (a_data a) with None => (ErrConvert, []) | Some l => (Ok, l) end.

  (* integer helpers (element connectivity, offsets, parent data, ranges): the in-memory type is m (always I8 =
     cgsize_t for the WRITE_*_INT_DATA macros and cgi_read_int_data), the node has type s in {I4, I8}.
     WRITE_PART_1D_DATA / WRITE_1D/2D/ALL_INT_DATA / cgi_read_offset_data_type / cg_elements_general_read
     all take the same three-way decision. *)
  Definition int_write (be : backend) (s m : dtype) (vals : list Z) : status * list Z :=
    match route_of be s m with
    | Direct => (Ok, vals)
    | AdfTemp => match convert_data tb m s vals with None => (ErrConvert, []) | Some l => (Ok, l) end
    | Hdf5InSitu => (Ok, map (hconv m s) vals)
    end.
  Definition int_read (be : backend) (s m : dtype) (stored : list Z) : status * list Z :=
    match route_of be s m with
    | Direct => (Ok, stored)
    | AdfTemp => match convert_data tb s m stored with None => (ErrConvert, []) | Some l => (Ok, l) end
    | Hdf5InSitu => (Ok, map (hconv s m) stored)
    end.
  (* cgi_read_int_data: an I4 node is widened element by element with (cgsize_t)pnts[n], anything else is read as is *)
  Definition read_int_data (s : dtype) (stored : list Z) : list Z :=
    match s with I4 => map (fun u => wrapu 64 (sgn 32 u)) stored | _ => stored end.
End RW.

(* ------------------------------------------------------------------ extraction entry points *)
Inductive op :=
| OpWrite (name : Z) (s : dtype) (s_dim rmin rmax : Z) (m : dtype) (m_dim m_rmin m_rmax : Z) (mem : list Z)
| OpRead (chk_char : bool) (name : Z) (rmin rmax : Z) (m : dtype) (m_dim m_rmin m_rmax : Z) (mem : list Z)
| OpReadAs (name : Z) (m : dtype)
| OpInfo (name : Z).
Inductive ores := RStatus (s : status) | RData (s : status) (d : list Z) | RInfo (t : dtype) (dim : Z) | RNone.

Definition step (tb : cast_tab) (be : backend) (st : list arr) (o : op) : list arr * ores :=
  match o with
  | OpWrite n s sd lo hi m md mlo mhi mem =>
      let (e, st') := general_write c_cast tb be st n s sd lo hi m md mlo mhi mem in (st', RStatus e)
  | OpRead chk n lo hi m md mlo mhi mem =>
      match find_arr n st with
      | None => (st, RStatus ErrNotFound)
      | Some a =>
          (* cg_array_general_read: "Character array can only be read as character" (cgnslib.c) *)
          if chk && negb (dtype_eqb m C1) && dtype_eqb (a_type a) C1 then (st, RData ErrCharOnly mem)
          else let (e, d) := general_read c_cast tb be a lo hi m md mlo mhi mem in (st, RData e d)
      end
  | OpReadAs n m =>
      match find_arr n st with
      | None => (st, RStatus ErrNotFound)
      | Some a => let (e, d) := array_read_as tb a m in (st, RData e d)
      end
  | OpInfo n => match find_arr n st with None => (st, RNone) | Some a => (st, RInfo (a_type a) (a_dim a)) end
  end.
