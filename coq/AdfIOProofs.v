(* AdfIOProofs.v -- proofs about AdfIO.v (C14). *)
From Coq Require Import ZArith List Bool Arith Lia.
From CgnsV Require Import AdfIO.
Import ListNotations.
Local Open Scope Z_scope.

(* ------------------------------------------------------------------ lists *)
Lemma firstn_plus {A} (a b : nat) (l : list A) : firstn (a + b) l = firstn a l ++ firstn b (skipn a l).
Proof.
  revert l; induction a as [|a IH]; intros l; simpl; [reflexivity|].
  destruct l; simpl; [now rewrite firstn_nil|]. now rewrite IH.
Qed.

Lemma skipn_plus {A} (a b : nat) (l : list A) : skipn (a + b) l = skipn b (skipn a l).
Proof.
  revert l; induction a as [|a IH]; intros l; simpl; [reflexivity|].
  destruct l; simpl; [now rewrite skipn_nil|]. apply IH.
Qed.

Lemma pad_length p d : length (pad p d) = p.
Proof.
  unfold pad. rewrite app_length, firstn_length, repeat_length. lia.
Qed.

Lemma firstn_app_exact {A} (l1 l2 : list A) n : n = length l1 -> firstn n (l1 ++ l2) = l1.
Proof. intros ->. rewrite firstn_app, Nat.sub_diag, firstn_all. simpl. apply app_nil_r. Qed.

Lemma skipn_app_exact {A} (l1 l2 : list A) n : n = length l1 -> skipn n (l1 ++ l2) = l2.
Proof. intros ->. rewrite skipn_app, Nat.sub_diag, skipn_all. reflexivity. Qed.

(* two adjacent writes are one write of the concatenation: the heart of "short writes are transparent" *)
Lemma wsplice_compose d p x1 x2 :
  wsplice (wsplice d p x1) (p + length x1) x2 = wsplice d p (x1 ++ x2).
Proof.
  destruct x1 as [|a x1].
  - simpl. now rewrite Nat.add_0_r.
  - destruct x2 as [|b x2].
    + simpl. now rewrite app_nil_r.
    + set (X1 := a :: x1). set (X2 := b :: x2).
      assert (E1 : wsplice d p X1 = pad p d ++ X1 ++ skipn (p + length X1) d) by reflexivity.
      assert (E2 : forall D, wsplice D (p + length X1) X2 =
                             pad (p + length X1) D ++ X2 ++ skipn (p + length X1 + length X2) D) by reflexivity.
      assert (E3 : wsplice d p (X1 ++ X2) = pad p d ++ (X1 ++ X2) ++ skipn (p + length (X1 ++ X2)) d) by reflexivity.
      rewrite E3, E2, E1.
      set (D := pad p d ++ X1 ++ skipn (p + length X1) d).
      assert (HD : D = (pad p d ++ X1) ++ skipn (p + length X1) d) by (unfold D; now rewrite app_assoc).
      assert (Hlen : length (pad p d ++ X1) = (p + length X1)%nat) by (rewrite app_length, pad_length; reflexivity).
      assert (Hpad : pad (p + length X1) D = pad p d ++ X1).
      { unfold pad at 1. rewrite HD. rewrite firstn_app_exact by (symmetry; exact Hlen).
        replace (p + length X1 - length ((pad p d ++ X1) ++ skipn (p + length X1) d))%nat with 0%nat
          by (rewrite app_length, Hlen; lia).
        simpl. apply app_nil_r. }
      assert (Hskip : skipn (p + length X1 + length X2) D = skipn (p + length (X1 ++ X2)) d).
      { rewrite HD, skipn_plus. rewrite skipn_app_exact by (symmetry; exact Hlen).
        rewrite <- skipn_plus. f_equal. rewrite app_length. lia. }
      rewrite Hpad, Hskip. now rewrite <- !app_assoc.
Qed.

Lemma clamp_bounds n req : (1 <= req)%nat -> (1 <= clamp n req <= req)%nat.
Proof. unfold clamp. lia. Qed.

(* ------------------------------------------------------------------ ADFI_write *)
Definition chunk_of (left : list Z) : nat := Z.to_nat (Z.min (Z.of_nat (length left)) CG_MAX_INT32).

Lemma chunk_bounds left : left <> [] -> (1 <= chunk_of left <= length left)%nat.
Proof.
  intros H. unfold chunk_of, CG_MAX_INT32. destruct left; [congruence|]. simpl length. lia.
Qed.

Lemma cg_max_ge1 : 1 <= CG_MAX_INT32.
Proof. unfold CG_MAX_INT32. lia. Qed.

Global Opaque CG_MAX_INT32.

Lemma accepted_0 rs : accepted rs 0 = (0%nat, false).
Proof. destruct rs; reflexivity. Qed.

Lemma write_loop_spec : forall fuel o lft out,
  (length (resps o) + length lft < fuel)%nat -> 0 <= out ->
  exists r o' newl,
    adfi_write_loop fuel o lft out = Some (r, o') /\
    let '(k, e) := accepted (resps o) (length lft) in
    (k <= length lft)%nat /\
    disk o' = wsplice (disk o) (pos o) (firstn k lft) /\ pos o' = (pos o + k)%nat /\
    rderr o' = rderr o /\ (resps o = [] -> resps o' = []) /\
    log o' = newl ++ log o /\ contig (pos o) (rev newl) = Some (pos o') /\
    ((e = false /\ r = out + Z.of_nat (length lft) /\ k = length lft) \/
     (e = true /\ r = -1 /\ (k < length lft)%nat)).
Proof.
  induction fuel as [|f IH]; intros o lft out Hf Hout; [lia|].
  destruct lft as [|x l].
  - exists out, o, []. simpl. rewrite accepted_0. repeat split; auto; try lia.
  - set (lft := x :: l) in *.
    assert (Hne : lft <> []) by discriminate.
    pose proof (chunk_bounds lft Hne) as Hc.
    change (adfi_write_loop (S f) o lft out) with
      (let '(n, errno, o') := sys_write o (firstn (chunk_of lft) lft) in
       if n =? -1 then if errno =? EINTR then adfi_write_loop f o' lft out else Some (-1, set_sys_err o' errno)
       else adfi_write_loop f o' (skipn (Z.to_nat n) lft) (out + n)).
    assert (Hfl : length (firstn (chunk_of lft) lft) = chunk_of lft) by (rewrite firstn_length; lia).
    unfold sys_write. rewrite Hfl.
    assert (Hlen : length lft = S (length l)) by reflexivity.
    destruct (resps o) as [|[n| |e] rs] eqn:Hr;
      [ replace (accepted [] (length lft)) with (length lft, false) by (rewrite Hlen; reflexivity)
      | replace (accepted (Ok n :: rs) (length lft)) with
          (let m := clamp n (chunk_of lft) in let '(a, e) := accepted rs (length lft - m) in ((m + a)%nat, e))
          by (unfold chunk_of; rewrite Hlen; reflexivity)
      | replace (accepted (Eintr :: rs) (length lft)) with (accepted rs (length lft)) by (rewrite Hlen; reflexivity)
      | replace (accepted (Err e :: rs) (length lft)) with
          (if e =? EINTR then accepted rs (length lft) else (0%nat, true)) by (rewrite Hlen; reflexivity) ].
    + (* exhausted stream: the OS takes the whole chunk *)
      set (m := chunk_of lft) in *.
      set (o1 := mkOs (wsplice (disk o) (pos o) (firstn m lft)) (pos o + m) [] (sys_err o)
                      (LWrite (pos o) m (Z.of_nat m) :: log o) (rderr o)).
      assert (En : (Z.of_nat m =? -1) = false) by (apply Z.eqb_neq; lia).
      cbv zeta. rewrite En, Nat2Z.id.
      destruct (IH o1 (skipn m lft) (out + Z.of_nat m)) as (r & o' & nl & Hrun & Hspec).
      { simpl. rewrite skipn_length. simpl in Hf. lia. }
      { lia. }
      exists r, o', (nl ++ [LWrite (pos o) m (Z.of_nat m)]). split; [exact Hrun|].
      simpl resps in Hspec.
      assert (Hacc : accepted [] (length (skipn m lft)) = (length (skipn m lft), false)).
      { destruct (length (skipn m lft)); reflexivity. }
      rewrite Hacc in Hspec. destruct Hspec as (H1 & H2 & H3 & H4 & H5 & H6 & H7 & H8).
      simpl disk in H2. simpl pos in H2, H3, H7.
      repeat split.
      * lia.
      * rewrite H2. rewrite firstn_all.
        replace (firstn (length lft) lft) with (firstn m lft ++ skipn m lft) by (rewrite firstn_all; apply firstn_skipn).
        rewrite <- wsplice_compose. rewrite firstn_length. replace (Nat.min m (length lft)) with m by lia. reflexivity.
      * rewrite H3, skipn_length. lia.
      * rewrite H4. reflexivity.
      * intros _. apply H5. reflexivity.
      * rewrite H6. simpl. now rewrite <- app_assoc.
      * rewrite rev_app_distr. simpl. rewrite Nat.eqb_refl.
        replace (Z.to_nat (Z.max 0 (Z.of_nat m))) with m by lia. exact H7.
      * destruct H8 as [(E1 & E2 & E3)|(E1 & _)]; [|discriminate]. left. repeat split.
        rewrite E2, skipn_length. lia.
    + (* Ok n: a (possibly short) count *)
      set (c := chunk_of lft) in *.
      set (m := clamp n c).
      pose proof (clamp_bounds n c ltac:(lia)) as Hm. fold m in Hm.
      assert (Efn : firstn m (firstn c lft) = firstn m lft).
      { rewrite firstn_firstn. f_equal. lia. }
      rewrite Efn.
      set (o1 := mkOs (wsplice (disk o) (pos o) (firstn m lft)) (pos o + m) rs (sys_err o)
                      (LWrite (pos o) c (Z.of_nat m) :: log o) (rderr o)).
      assert (En : (Z.of_nat m =? -1) = false) by (apply Z.eqb_neq; lia).
      cbv zeta. rewrite En, Nat2Z.id.
      destruct (IH o1 (skipn m lft) (out + Z.of_nat m)) as (r & o' & nl & Hrun & Hspec).
      { simpl. rewrite skipn_length. simpl in Hf. lia. }
      { lia. }
      exists r, o', (nl ++ [LWrite (pos o) c (Z.of_nat m)]). split; [exact Hrun|].
      simpl resps in Hspec. rewrite skipn_length in Hspec.
      destruct (accepted rs (length lft - m)) as [a e] eqn:Hacc.
      destruct Hspec as (H1 & H2 & H3 & H4 & H5 & H6 & H7 & H8).
      simpl disk in H2. simpl pos in H2, H3, H7.
      repeat split.
      * lia.
      * rewrite H2, firstn_plus.
        rewrite <- wsplice_compose. rewrite firstn_length. replace (Nat.min m (length lft)) with m by lia. reflexivity.
      * rewrite H3. lia.
      * rewrite H4. reflexivity.
      * intros Hnil. discriminate.
      * rewrite H6. simpl. now rewrite <- app_assoc.
      * rewrite rev_app_distr. simpl. rewrite Nat.eqb_refl.
        replace (Z.to_nat (Z.max 0 (Z.of_nat m))) with m by lia. exact H7.
      * destruct H8 as [(E1 & E2 & E3)|(E1 & E2 & E3)]; [left|right]; repeat split; auto; try lia.
    + (* EINTR: retried, nothing transferred *)
      set (c := chunk_of lft) in *.
      set (o1 := mkOs (disk o) (pos o) rs (sys_err o) (LWrite (pos o) c (-1) :: log o) (rderr o)).
      cbv zeta. change (-1 =? -1) with true. change (EINTR =? EINTR) with true. cbv iota.
      destruct (IH o1 lft out) as (r & o' & nl & Hrun & Hspec).
      { simpl. simpl in Hf. lia. }
      { lia. }
      exists r, o', (nl ++ [LWrite (pos o) c (-1)]). split; [exact Hrun|].
      simpl resps in Hspec.
      destruct (accepted rs (length lft)) as [a e] eqn:Hacc.
      destruct Hspec as (H1 & H2 & H3 & H4 & H5 & H6 & H7 & H8).
      simpl disk in H2. simpl pos in H2, H3, H7.
      repeat split; auto.
      * intros Hnil; discriminate.
      * rewrite H6. simpl. now rewrite <- app_assoc.
      * rewrite rev_app_distr. simpl. rewrite Nat.eqb_refl. simpl. rewrite Nat.add_0_r. exact H7.
    + (* Err e: the C code looks at errno only, so e = EINTR is retried like an interruption *)
      set (c := chunk_of lft) in *.
      cbv zeta. change (-1 =? -1) with true. cbv iota.
      destruct (e =? EINTR) eqn:Ee.
      * set (o1 := mkOs (disk o) (pos o) rs (sys_err o) (LWrite (pos o) c (-1) :: log o) (rderr o)).
        destruct (IH o1 lft out) as (r & o' & nl & Hrun & Hspec).
        { simpl. simpl in Hf. lia. }
        { lia. }
        exists r, o', (nl ++ [LWrite (pos o) c (-1)]). split; [exact Hrun|].
        simpl resps in Hspec.
        destruct (accepted rs (length lft)) as [a e'] eqn:Hacc.
        destruct Hspec as (H1 & H2 & H3 & H4 & H5 & H6 & H7 & H8).
        simpl disk in H2. simpl pos in H2, H3, H7.
        repeat split; auto.
        -- intros Hnil; discriminate.
        -- rewrite H6. simpl. now rewrite <- app_assoc.
        -- rewrite rev_app_distr. simpl. rewrite Nat.eqb_refl. simpl. rewrite Nat.add_0_r. exact H7.
      * exists (-1), (set_sys_err (mkOs (disk o) (pos o) rs (sys_err o) (LWrite (pos o) c (-1) :: log o) (rderr o)) e),
               [LWrite (pos o) c (-1)].
        split; [reflexivity|]. simpl. repeat split; auto; try lia.
        -- intros Hnil; discriminate.
        -- rewrite Nat.eqb_refl. simpl. now rewrite Nat.add_0_r.
Qed.


(* C14_retry: ADFI_write returns the full length iff the stream lets every byte through (short counts and EINTR
   retried), -1 iff a hard error comes first; the bytes that reached the disk are a prefix of the data, laid
   contiguously from the seek position; the write calls are contiguous (no byte twice, none skipped). *)
Theorem adfi_write_retry : forall o data,
  exists r o' newl,
    adfi_write o data = Some (r, o') /\
    let '(k, e) := accepted (resps o) (length data) in
    disk o' = wsplice (disk o) (pos o) (firstn k data) /\ pos o' = (pos o + k)%nat /\
    rderr o' = rderr o /\ (resps o = [] -> resps o' = []) /\
    log o' = newl ++ log o /\ contig (pos o) (rev newl) = Some (pos o') /\
    ((e = false /\ r = Z.of_nat (length data) /\ k = length data) \/
     (e = true /\ r = -1 /\ (k < length data)%nat)).
Proof.
  intros o data. unfold adfi_write, write_fuel.
  destruct (write_loop_spec (S (length (resps o) + length data)) (set_sys_err o 0) data 0) as (r & o' & nl & H & S).
  { simpl. lia. } { lia. }
  exists r, o', nl. split; [exact H|]. simpl in S.
  destruct (accepted (resps o) (length data)) as [k e].
  destruct S as (H1 & H2 & H3 & H4 & H5 & H6 & H7 & H8). repeat split; auto.
Qed.

Corollary adfi_write_full : forall o data r o',
  adfi_write o data = Some (r, o') -> r = Z.of_nat (length data) ->
  disk o' = wsplice (disk o) (pos o) data /\ pos o' = (pos o + length data)%nat /\ rderr o' = rderr o /\
  (resps o = [] -> resps o' = []).
Proof.
  intros o data r o' H Hr. destruct (adfi_write_retry o data) as (r1 & o1 & nl & H1 & S).
  rewrite H in H1. inversion H1; subst r1 o1. clear H1.
  destruct (accepted (resps o) (length data)) as [k e].
  destruct S as (H2 & H3 & H4 & H5 & _ & _ & [(E1 & E2 & E3)|(E1 & E2 & E3)]).
  - subst k. rewrite firstn_all in H2. auto.
  - lia.
Qed.

Lemma adfi_write_ideal : forall o data, resps o = [] ->
  exists o', adfi_write o data = Some (Z.of_nat (length data), o').
Proof.
  intros o data Hr. destruct (adfi_write_retry o data) as (r1 & o1 & nl & H1 & S).
  rewrite Hr in S.
  assert (A : accepted [] (length data) = (length data, false)) by (destruct (length data); reflexivity).
  rewrite A in S. destruct S as (_ & _ & _ & _ & _ & _ & [(E1 & E2 & E3)|(E1 & _)]); [|discriminate].
  subst r1. eauto.
Qed.

(* ------------------------------------------------------------------ ADFI_read *)
Lemma skipn_firstn_nil {A} (l : list A) p : (length l <= p)%nat -> skipn p l = [].
Proof. intros H. apply skipn_all2. exact H. Qed.

Lemma read_loop_spec : forall fuel o lft acc,
  (length (resps o) + lft < fuel)%nat ->
  exists r bytes o',
    adfi_read_loop fuel o lft acc = Some (r, bytes, o') /\ disk o' = disk o /\
    (resps o = [] -> resps o' = []) /\
    ((r = -1 /\ rderr o' = true /\ resps o <> []) \/
     (bytes = acc ++ firstn lft (skipn (pos o) (disk o)) /\ r = Z.of_nat (length bytes) /\
      pos o' = (pos o + length (firstn lft (skipn (pos o) (disk o))))%nat /\ rderr o' = rderr o)).
Proof.
  induction fuel as [|f IH]; intros o lft acc Hf; [lia|].
  destruct lft as [|n0].
  - exists (Z.of_nat (length acc)), acc, o. simpl. repeat split; auto. right.
    rewrite app_nil_r. repeat split; auto.
  - set (lft := S n0) in *.
    set (c := Z.to_nat (Z.min (Z.of_nat lft) CG_MAX_INT32)).
    assert (Hc : (1 <= c <= lft)%nat).
    { unfold c. pose proof cg_max_ge1. unfold lft. lia. }
    change (adfi_read_loop (S f) o lft acc) with
      (let '(n, errno, bytes, o') := sys_read o c in
       if n =? 0 then Some (Z.of_nat (length acc), acc, o')
       else if n =? -1 then
         if errno =? EINTR then adfi_read_loop f o' lft acc else Some (-1, acc, set_sys_err o' errno)
       else adfi_read_loop f o' (lft - length bytes) (acc ++ bytes)).
    set (avail := (length (disk o) - pos o)%nat).
    assert (Hav : length (skipn (pos o) (disk o)) = avail) by (rewrite skipn_length; reflexivity).
    (* the successful-delivery case, shared by "exhausted stream" and "Ok n" *)
    assert (deliver : forall want rs', (1 <= want <= lft)%nat -> (length rs' + lft <= length (resps o) + lft)%nat ->
              (resps o = [] -> rs' = []) ->
              let m := Nat.min want avail in
              let o1 := mkOs (disk o) (pos o + m) rs' (sys_err o) (LRead (pos o) c (Z.of_nat m) :: log o) (rderr o) in
              exists r bytes o',
                (if Z.of_nat m =? 0 then Some (Z.of_nat (length acc), acc, o1)
                 else if Z.of_nat m =? -1 then
                   if 0 =? EINTR then adfi_read_loop f o1 lft acc else Some (-1, acc, set_sys_err o1 0)
                 else adfi_read_loop f o1 (lft - length (firstn m (skipn (pos o) (disk o))))
                        (acc ++ firstn m (skipn (pos o) (disk o)))) = Some (r, bytes, o') /\
                disk o' = disk o /\ (resps o = [] -> resps o' = []) /\
                ((r = -1 /\ rderr o' = true /\ resps o <> []) \/
                 (bytes = acc ++ firstn lft (skipn (pos o) (disk o)) /\ r = Z.of_nat (length bytes) /\
                  pos o' = (pos o + length (firstn lft (skipn (pos o) (disk o))))%nat /\ rderr o' = rderr o))).
    { intros want rs' Hw Hlen Hnil m o1.
      destruct (Nat.eq_dec m 0) as [Hm0|Hm0].
      - (* end of file *)
        rewrite Hm0. change (Z.of_nat 0 =? 0) with true. cbv iota.
        exists (Z.of_nat (length acc)), acc, o1. repeat split; auto.
        right. assert (avail = 0%nat) by (unfold m in Hm0; lia).
        assert (E : skipn (pos o) (disk o) = []) by (apply length_zero_iff_nil; lia).
        rewrite E, firstn_nil, app_nil_r. simpl. repeat split; auto; subst o1; simpl; lia.
      - assert (E0 : (Z.of_nat m =? 0) = false) by (apply Z.eqb_neq; lia).
        assert (E1 : (Z.of_nat m =? -1) = false) by (apply Z.eqb_neq; lia).
        rewrite E0, E1.
        assert (Hfl : length (firstn m (skipn (pos o) (disk o))) = m).
        { rewrite firstn_length, Hav. unfold m. lia. }
        rewrite Hfl.
        destruct (IH o1 (lft - m)%nat (acc ++ firstn m (skipn (pos o) (disk o)))) as (r & bytes & o' & Hrun & Hd & Hn & Hres).
        { subst o1; cbn [resps]. assert (1 <= m)%nat by lia. assert (m <= lft)%nat by (unfold m; lia). lia. }
        exists r, bytes, o'. split; [exact Hrun|]. split; [rewrite Hd; reflexivity|].
        split; [intros Hx; apply Hn; subst o1; simpl; auto|].
        destruct Hres as [(A1 & A2 & A3)|(B1 & B2 & B3 & B4)];
          [left; repeat split; auto; intros Hx; apply A3; subst o1; cbn [resps]; auto|right].
        subst o1; cbn [disk pos rderr resps] in *.
        assert (Esplit : firstn lft (skipn (pos o) (disk o)) =
                         firstn m (skipn (pos o) (disk o)) ++ firstn (lft - m) (skipn (pos o + m) (disk o))).
        { replace lft with (m + (lft - m))%nat at 1 by (unfold m; lia).
          rewrite firstn_plus. f_equal. f_equal. rewrite skipn_plus. reflexivity. }
        repeat split; auto.
        + rewrite B1, Esplit. now rewrite app_assoc.
        + rewrite B3, Esplit, app_length, Hfl. lia. }
    unfold sys_read. fold avail.
    destruct (resps o) as [|[n| |e] rs] eqn:Hr.
    + destruct (deliver c [] Hc ltac:(simpl; lia) ltac:(auto)) as (r & bytes & o' & H & R). 
      exists r, bytes, o'. split; [|exact R]. cbv zeta in H |- *. simpl tl. exact H.
    + pose proof (clamp_bounds n c ltac:(lia)) as Hm.
      destruct (deliver (clamp n c) rs ltac:(lia) ltac:(simpl; lia) ltac:(discriminate)) as (r & bytes & o' & H & R).
      exists r, bytes, o'. split; [|exact R]. cbv zeta in H |- *. simpl tl. exact H.
    + (* EINTR *)
      cbv zeta. change (-1 =? 0) with false. change (-1 =? -1) with true. change (EINTR =? EINTR) with true. cbv iota.
      set (o1 := mkOs (disk o) (pos o) rs (sys_err o) (LRead (pos o) c (-1) :: log o) (rderr o)).
      destruct (IH o1 lft acc) as (r & bytes & o' & Hrun & Hd & Hn & Hres).
      { subst o1; simpl. simpl in Hf. lia. }
      exists r, bytes, o'. split; [exact Hrun|]. split; [rewrite Hd; reflexivity|].
      split; [discriminate|].
      destruct Hres as [(A1 & A2 & A3)|Hres]; [left; repeat split; auto; discriminate|right; exact Hres].
    + (* hard error: rderr is set; if errno happens to be EINTR's number the C code retries *)
      cbv zeta. change (-1 =? 0) with false. change (-1 =? -1) with true. cbv iota.
      destruct (e =? EINTR) eqn:Ee.
      * set (o1 := mkOs (disk o) (pos o) rs (sys_err o) (LRead (pos o) c (-1) :: log o) (rderr o)).
        destruct (IH o1 lft acc) as (r & bytes & o' & Hrun & Hd & Hn & Hres).
        { subst o1; simpl. simpl in Hf. lia. }
        exists r, bytes, o'. split; [exact Hrun|]. split; [rewrite Hd; reflexivity|].
        split; [discriminate|].
        destruct Hres as [(A1 & A2 & A3)|Hres]; [left; repeat split; auto; discriminate|right; exact Hres].
      * exists (-1), acc, (set_sys_err (mkOs (disk o) (pos o) rs (sys_err o) (LRead (pos o) c (-1) :: log o) true) e).
        split; [reflexivity|]. split; [reflexivity|]. split; [discriminate|]. left. repeat split; auto; discriminate.
Qed.

(* ------------------------------------------------------------------ fault transparency (lock-step simulation) *)
(* faulty OS state f and fault-free OS state i agree on everything the program can observe *)
Definition Ro (f i : os) : Prop := disk f = disk i /\ pos f = pos i /\ resps i = [] /\ rderr f = false.
Definition R (sf si : st) : Prop := c_ sf = c_ si /\ in_use sf = in_use si /\ Ro (o_ sf) (o_ si).

Lemma Ro_sys_err f i a b : Ro f i -> Ro (set_sys_err f a) (set_sys_err i b).
Proof. unfold Ro; simpl; auto. Qed.

Lemma sim_write f i data r f' :
  Ro f i -> adfi_write f data = Some (r, f') -> r = Z.of_nat (length data) ->
  exists i', adfi_write i data = Some (r, i') /\ Ro f' i'.
Proof.
  intros (Hd & Hp & Hn & He) H Hr.
  destruct (adfi_write_full f data r f' H Hr) as (F1 & F2 & F3 & _).
  destruct (adfi_write_ideal i data Hn) as (i' & Hi).
  destruct (adfi_write_full i data _ i' Hi eq_refl) as (I1 & I2 & I3 & I4).
  exists i'. subst r. split; [exact Hi|]. unfold Ro. rewrite F1, F2, F3, I1, I2, Hd, Hp. auto.
Qed.

Lemma write_total o data : adfi_write o data <> None.
Proof. destruct (adfi_write_retry o data) as (r & o' & nl & H & _). congruence. Qed.

Lemma sim_read f i n r bytes f' :
  Ro f i -> adfi_read f n = Some (r, bytes, f') -> rderr f' = false ->
  exists i', adfi_read i n = Some (r, bytes, i') /\ Ro f' i'.
Proof.
  intros (Hd & Hp & Hn & He) H Hf'. unfold adfi_read in *.
  destruct (read_loop_spec (S (length (resps f) + n)) (set_sys_err f 0) n []) as (r1 & b1 & f1 & H1 & D1 & _ & C1).
  { simpl. lia. }
  rewrite H in H1. inversion H1; subst r1 b1 f1. clear H1.
  destruct (read_loop_spec (S (length (resps i) + n)) (set_sys_err i 0) n []) as (r2 & b2 & i2 & H2 & D2 & N2 & C2).
  { simpl. lia. }
  exists i2. simpl in *.
  destruct C1 as [(A1 & A2 & _)|(B1 & B2 & B3 & B4)]; [congruence|].
  destruct C2 as [(A1 & A2 & A3)|(E1 & E2 & E3 & E4)]; [congruence|].
  rewrite Hd, Hp in *. split.
  - rewrite H2. subst. reflexivity.
  - unfold Ro. rewrite D1, D2, B3, E3. repeat split; auto.
Qed.

(* ADFI_read for EVERY response stream: it terminates; a hard error gives -1 (and only a non-empty stream can do that);
   otherwise it delivers everything there is between the file position and min(position + n, end of file) -- short
   counts and EINTR are retried, only a read() that returns 0 (end of file) ends the loop early -- and returns that count *)
Theorem adfi_read_retry : forall o n,
  exists r bytes o',
    adfi_read o n = Some (r, bytes, o') /\ disk o' = disk o /\ (resps o = [] -> resps o' = []) /\
    ((r = -1 /\ rderr o' = true /\ resps o <> []) \/
     (bytes = firstn n (skipn (pos o) (disk o)) /\ r = Z.of_nat (length bytes) /\
      pos o' = (pos o + length bytes)%nat /\ rderr o' = rderr o)).
Proof.
  intros o n. unfold adfi_read.
  destruct (read_loop_spec (S (length (resps o) + n)) (set_sys_err o 0) n []) as (r & b & o' & H & D & N & C).
  { simpl. lia. }
  exists r, b, o'. simpl in *. split; [exact H|]. split; [exact D|]. split; [exact N|].
  destruct C as [C|(C1 & C2 & C3 & C4)]; [left; exact C|right].
  subst b. simpl. repeat split; auto.
Qed.

Lemma read_total o n : adfi_read o n <> None.
Proof.
  unfold adfi_read. destruct (read_loop_spec (S (length (resps o) + n)) (set_sys_err o 0) n []) as (r & b & o' & H & _).
  { simpl. lia. } congruence.
Qed.

Lemma sim_lseek f i off r e f' :
  Ro f i -> sys_lseek f off = (r, e, f') -> (r <? 0) = false -> 0 <= off ->
  exists i', sys_lseek i off = (r, 0, i') /\ Ro f' i'.
Proof.
  intros (Hd & Hp & Hn & He) H Hr Hoff. unfold sys_lseek in *. rewrite Hn.
  destruct (resps f) as [|[n| |x] rs]; inversion H; subst; clear H; try discriminate; simpl;
    (eexists; split; [reflexivity|]; unfold Ro; simpl; auto).
Qed.

Lemma sim_fseek sf si b off sf' :
  R sf si -> fseek_file sf b off = Done tt sf' -> exists si', fseek_file si b off = Done tt si' /\ R sf' si'.
Proof.
  intros (Hc & Hu & Ho) H. unfold fseek_file in *. rewrite <- Hu.
  destruct (negb (in_use sf)); [discriminate|].
  destruct (seek_offset b off <? 0) eqn:Hneg; [discriminate|].
  destruct (sys_lseek (set_sys_err (o_ sf) 0) (seek_offset b off)) as [[r e] f'] eqn:Hs.
  destruct (r <? 0) eqn:Hr; [discriminate|]. inversion H; subst sf'. clear H.
  destruct (sim_lseek _ (set_sys_err (o_ si) 0) _ _ _ _ (Ro_sys_err _ _ 0 0 Ho) Hs Hr) as (i' & Hi & Hro).
  { apply Z.ltb_ge. exact Hneg. }
  rewrite Hi, Hr. eexists. split; [reflexivity|]. unfold R, with_os; simpl. auto.
Qed.

Lemma write_ret_cases o d r o' : adfi_write o d = Some (r, o') -> r = Z.of_nat (length d) \/ r = -1.
Proof.
  intros H. destruct (adfi_write_retry o d) as (r1 & o1 & nl & H1 & S). rewrite H in H1. inversion H1; subst.
  destruct (accepted (resps o) (length d)) as [k e].
  destruct S as (_ & _ & _ & _ & _ & _ & [(E1 & E2 & E3)|(E1 & E2 & E3)]); auto.
Qed.

Lemma sim_fsync_prim f i r e f' :
  Ro f i -> sys_fsync f = (r, e, f') -> (r <? 0) = false -> exists i', sys_fsync i = (r, 0, i') /\ Ro f' i'.
Proof.
  intros (Hd & Hp & Hn & He) H Hr. unfold sys_fsync in *. rewrite Hn.
  destruct (resps f) as [|[n| |x] rs]; inversion H; subst; clear H; try discriminate; simpl;
    (eexists; split; [reflexivity|]; unfold Ro; simpl; auto).
Qed.

Lemma sim_close_prim f i r e f' :
  Ro f i -> sys_close f = (r, e, f') -> (r <? 0) = false -> exists i', sys_close i = (r, 0, i') /\ Ro f' i'.
Proof.
  intros (Hd & Hp & Hn & He) H Hr. unfold sys_close in *. rewrite Hn.
  destruct (resps f) as [|[n| |x] rs]; inversion H; subst; clear H; try discriminate; simpl;
    (eexists; split; [reflexivity|]; unfold Ro; simpl; auto).
Qed.

Lemma sim_fsync sf si sf' :
  R sf si -> fflush_file sf = Done tt sf' -> exists si', fflush_file si = Done tt si' /\ R sf' si'.
Proof.
  intros (Hc & Hu & Ho) H. unfold fflush_file in *. rewrite <- Hu.
  destruct (negb (in_use sf)); [discriminate|].
  destruct (sys_fsync (set_sys_err (o_ sf) 0)) as [[r e] f'] eqn:Hs.
  destruct (r <? 0) eqn:Hr; [discriminate|]. inversion H; subst sf'. clear H.
  destruct (sim_fsync_prim _ (set_sys_err (o_ si) 0) _ _ _ (Ro_sys_err _ _ 0 0 Ho) Hs Hr) as (i' & Hi & Hro).
  rewrite Hi, Hr. eexists. split; [reflexivity|]. unfold R, with_os; simpl. auto.
Qed.

Ltac inv H := injection H; clear H; intros; subst.
Global Opaque BLK.

(* ADFI_write_file *)
Lemma sim_write_file sf si fi b off data sf' :
  R sf si -> write_file sf fi b off data = Done tt sf' -> rderr (o_ sf') = false ->
  exists si', write_file si fi b off data = Done tt si' /\ R sf' si'.
Proof.
  intros HR H Hfin. destruct sf as [fo c u], si as [io c' u']. destruct HR as (Hc & Hu & Ho). simpl in Hc, Hu, Ho. subst c' u'.
  unfold write_file in *. cbn [in_use c_ with_cache o_] in *.
  destruct (negb u) eqn:Hin; [discriminate|].
  set (len := Z.of_nat (length data)) in *.
  set (end_block := b + (off + len) / DISK_BLOCK_SIZE + 1) in *.
  set (c1 := if (last_rd_file c =? fi) && (last_rd_block c >=? b) && (last_rd_block c <=? end_block) then reset_rd c else c) in *.
  match type of H with
  | match ?FL with _ => _ end = _ => set (flushF := FL) in *
  end.
  match goal with
  | |- exists si', match ?FL with _ => _ end = _ /\ _ => set (flushI := FL)
  end.
  assert (P1 : forall s1, flushF = Done tt s1 -> exists s1', flushI = Done tt s1' /\ R s1 s1').
  { intros s1 E. subst flushF flushI.
    change (with_cache {| o_ := io; c_ := c; in_use := u |} c1) with (mkSt io c1 u).
    change (with_cache {| o_ := fo; c_ := c; in_use := u |} c1) with (mkSt fo c1 u) in E.
    destruct (((len + off >? DISK_BLOCK_SIZE) || negb (last_wr_block c1 =? b) || negb (last_wr_file c1 =? fi) || (len =? 0)) &&
              (flush_wr c1 >? 0)).
    - destruct (fseek_file (mkSt fo c1 u) (last_wr_block c1) 0) as [[] s2| |] eqn:Hs; try discriminate.
      destruct (sim_fseek (mkSt fo c1 u) (mkSt io c1 u) _ _ _ ltac:(unfold R; simpl; auto) Hs) as (s2' & Hs' & (Rc & Ru & Rro)).
      rewrite Hs'.
      destruct (adfi_write (o_ s2) (wr_buf c1)) as [[iret o2]|] eqn:Hw; [|discriminate].
      destruct (negb (iret =? DISK_BLOCK_SIZE)) eqn:Hi; [discriminate|].
      apply negb_false_iff, Z.eqb_eq in Hi.
      assert (Hfull : iret = Z.of_nat (length (wr_buf c1))).
      { destruct (write_ret_cases _ _ _ _ Hw) as [X|X]; [exact X|]. rewrite X in Hi. discriminate. }
      destruct (sim_write _ _ _ _ _ Rro Hw Hfull) as (i2 & Hw' & Rro2).
      rewrite Hw'. rewrite Hi. rewrite Z.eqb_refl. cbv [negb].
      rewrite <- Ru. cbn [c_ last_wr_file last_wr_block set_flush] in E |- *.
      destruct ((last_wr_file c1 =? fi) && (last_wr_block c1 >=? b) && (last_wr_block c1 <=? end_block));
        inv E; (eexists; split; [reflexivity|]; unfold R, with_cache; simpl; auto).
    - inv E. eexists. split; [reflexivity|]. unfold R; simpl; auto. }
  destruct flushF as [[] s1| |] eqn:EF; try discriminate.
  destruct (P1 s1 eq_refl) as (s1' & EI & (Rc1 & Ru1 & Rro1)). rewrite EI. clear P1.
  destruct (len =? 0) eqn:Hl0.
  { inv H. eexists. split; [reflexivity|]. unfold R; auto. }
  destruct (len + off >? DISK_BLOCK_SIZE) eqn:Hbig.
  - (* large piece *)
    destruct (fseek_file s1 b off) as [[] s2| |] eqn:Hs; try discriminate.
    destruct (sim_fseek s1 s1' _ _ _ ltac:(unfold R; auto) Hs) as (s2' & Hs' & (Rc & Ru & Rro)).
    rewrite Hs'.
    destruct (adfi_write (o_ s2) data) as [[iret o2]|] eqn:Hw; [|discriminate].
    destruct (negb (iret =? len)) eqn:Hi; [discriminate|].
    apply negb_false_iff, Z.eqb_eq in Hi.
    destruct (sim_write _ _ _ _ _ Rro Hw Hi) as (i2 & Hw' & Rro2).
    rewrite Hw'. rewrite Hi. rewrite Z.eqb_refl. cbv [negb]. inv H.
    eexists. split; [reflexivity|]. unfold R, with_os; simpl; auto.
  - (* small piece: through the block buffer *)
    rewrite <- Rc1.
    match type of H with
    | match ?LD with _ => _ end = _ => set (loadF := LD) in *
    end.
    match goal with
    | |- exists si', match ?LD with _ => _ end = _ /\ _ => set (loadI := LD)
    end.
    assert (P2 : forall s2, loadF = Done tt s2 -> rderr (o_ s2) = false -> exists s2', loadI = Done tt s2' /\ R s2 s2').
    { intros s2 E Hrd. subst loadF loadI. cbn [with_cache o_ in_use c_] in *.
      destruct (negb (b =? last_wr_block (c_ s1)) || negb (fi =? last_wr_file (c_ s1))).
      - destruct ((b =? last_rd_block (c_ s1)) && (fi =? last_rd_file (c_ s1))).
        + inv E. eexists. split; [reflexivity|]. unfold R, with_cache; simpl; auto.
        + destruct (fseek_file s1 b 0) as [[] s3| |] eqn:Hs; try discriminate.
          destruct (sim_fseek s1 s1' _ _ _ ltac:(unfold R; auto) Hs) as (s3' & Hs' & (Rc & Ru & Rro)).
          rewrite Hs'.
          destruct (adfi_read (o_ s3) BLK) as [[[iret bytes] o2]|] eqn:Hr; [|discriminate].
          inv E. cbn [o_] in Hrd.
          destruct (sim_read _ _ _ _ _ _ Rro Hr Hrd) as (i2 & Hr' & Rro2).
          rewrite Hr'. rewrite <- Ru. eexists. split; [reflexivity|]. unfold R; simpl; auto.
      - inv E. eexists. split; [reflexivity|]. unfold R; auto. }
    destruct loadF as [[] s2| |] eqn:EL; try discriminate.
    inv H. cbn [o_ with_cache] in Hfin.
    destruct (P2 s2 eq_refl Hfin) as (s2' & EI2 & (Rc2 & Ru2 & Rro2)). rewrite EI2.
    eexists. split; [reflexivity|]. unfold R, with_cache; simpl. rewrite Rc2. auto.
Qed.

(* ADFI_read_file *)
Lemma sim_read_file sf si fi b off n bytes sf' :
  R sf si -> read_file sf fi b off n = Done bytes sf' -> rderr (o_ sf') = false ->
  exists si', read_file si fi b off n = Done bytes si' /\ R sf' si'.
Proof.
  intros HR H Hfin. destruct sf as [fo c u], si as [io c' u']. destruct HR as (Hc & Hu & Ho). simpl in Hc, Hu, Ho. subst c' u'.
  unfold read_file in *. cbn [in_use c_ o_] in *.
  destruct (negb u) eqn:Hin; [discriminate|].
  destruct (Z.of_nat n + off >? DISK_BLOCK_SIZE).
  - destruct (fseek_file (mkSt fo c u) b off) as [[] s2| |] eqn:Hs; try discriminate.
    destruct (sim_fseek (mkSt fo c u) (mkSt io c u) _ _ _ ltac:(unfold R; simpl; auto) Hs) as (s2' & Hs' & (Rc & Ru & Rro)).
    rewrite Hs'.
    destruct (adfi_read (o_ s2) n) as [[[iret bs] o2]|] eqn:Hr; [|discriminate].
    destruct (negb (iret =? Z.of_nat n)) eqn:Hi; [discriminate|]. inv H. cbn [o_ with_os] in Hfin.
    destruct (sim_read _ _ _ _ _ _ Rro Hr Hfin) as (i2 & Hr' & Rro2).
    rewrite Hr', Hi. eexists. split; [reflexivity|]. unfold R, with_os; simpl; auto.
  - match type of H with
    | match ?LD with _ => _ end = _ => set (loadF := LD) in *
    end.
    match goal with
    | |- exists si', match ?LD with _ => _ end = _ /\ _ => set (loadI := LD)
    end.
    assert (P2 : forall s2, loadF = Done tt s2 -> rderr (o_ s2) = false -> exists s2', loadI = Done tt s2' /\ R s2 s2').
    { intros s2 E Hrd. subst loadF loadI.
      destruct ((num_in_rd c <? DISK_BLOCK_SIZE) || negb (b =? last_rd_block c) || negb (fi =? last_rd_file c)).
      - destruct ((b =? last_wr_block c) && (fi =? last_wr_file c)).
        + inv E. eexists. split; [reflexivity|]. unfold R, with_cache; simpl; auto.
        + destruct (fseek_file (mkSt fo c u) b 0) as [[] s3| |] eqn:Hs; try discriminate.
          destruct (sim_fseek (mkSt fo c u) (mkSt io c u) _ _ _ ltac:(unfold R; simpl; auto) Hs) as (s3' & Hs' & (Rc & Ru & Rro)).
          rewrite Hs'.
          destruct (adfi_read (o_ s3) BLK) as [[[iret bs] o2]|] eqn:Hr; [|discriminate].
          destruct (iret <=? 0) eqn:Hi; [discriminate|]. inv E. cbn [o_ with_cache] in Hrd.
          destruct (sim_read _ _ _ _ _ _ Rro Hr Hrd) as (i2 & Hr' & Rro2).
          rewrite Hr', Hi, <- Ru. eexists. split; [reflexivity|]. unfold R, with_cache; simpl; auto.
      - inv E. eexists. split; [reflexivity|]. unfold R; simpl; auto. }
    destruct loadF as [[] s2| |] eqn:EL; try discriminate.
    (* /repo 82c39a0: the bytes requested lie beyond what the block read obtained -> FREAD_ERROR.  The test looks at the
       cache only, which both runs share: with and without faults the same call fails *)
    destruct (off + Z.of_nat n >? num_in_rd (c_ s2) mod 2 ^ 64) eqn:Hshort; [discriminate|].
    inv H.
    destruct (P2 sf' eq_refl Hfin) as (s2' & EI2 & (Rc2 & Ru2 & Rro2)). rewrite EI2.
    rewrite <- Rc2, Hshort. eexists. split; [reflexivity|]. unfold R; auto.
Qed.

(* ADFI_flush_buffers *)
Lemma sim_flush sf si fi cl sf' :
  R sf si -> flush_buffers sf fi cl = Done tt sf' -> rderr (o_ sf') = false ->
  exists si', flush_buffers si fi cl = Done tt si' /\ R sf' si'.
Proof.
  intros HR H Hfin. pose proof HR as (Hc & Hu & Ho).
  unfold flush_buffers in *. rewrite <- Hu, <- Hc.
  destruct (negb (in_use sf)); [discriminate|].
  destruct (fi =? last_wr_file (c_ sf)).
  - destruct (write_file sf fi MAXIMUM_32_BITS 0 []) as [[] s1| |] eqn:Hw.
    + assert (Hrd1 : rderr (o_ s1) = false).
      { destruct cl; cbn [with_cache o_ c_] in H;
          destruct (_ && _) in H; inv H; cbn [o_ with_cache] in Hfin; exact Hfin. }
      destruct (sim_write_file _ _ _ _ _ _ _ HR Hw Hrd1) as (s1' & Hw' & (Rc & Ru & Rro)).
      rewrite Hw'.
      destruct cl; cbn [with_cache c_ o_ in_use] in *; rewrite <- ?Rc.
      * destruct ((fi =? last_rd_file (set_flush (set_wr_id (c_ s1) (-2) (-2)) (-2))) && true); inv H;
          (eexists; split; [reflexivity|]; unfold R, with_cache; simpl; rewrite <- ?Rc; auto).
      * destruct ((fi =? last_rd_file (c_ s1)) && false); inv H;
          (eexists; split; [reflexivity|]; unfold R, with_cache; simpl; rewrite <- ?Rc; auto).
    + destruct (_ && _) in H; discriminate.
    + discriminate.
  - cbn [with_cache c_ o_ in_use] in *. rewrite <- ?Hc.
    destruct ((fi =? last_rd_file (c_ sf)) && cl); inv H;
      (eexists; split; [reflexivity|]; unfold R, with_cache; simpl; rewrite <- ?Hc; auto).
Qed.

(* ADFI_close_file *)
Lemma sim_close sf si fi sf' :
  R sf si -> close_file sf fi = Done tt sf' -> rderr (o_ sf') = false ->
  exists si', close_file si fi = Done tt si' /\ R sf' si'.
Proof.
  intros HR H Hfin. pose proof HR as (Hc & Hu & Ho).
  unfold close_file in *. rewrite <- Hu.
  destruct (negb (in_use sf)); [discriminate|].
  assert (HR0 : R (with_os sf (set_sys_err (o_ sf) 0)) (with_os si (set_sys_err (o_ si) 0))).
  { unfold R, with_os; simpl. split; [exact Hc|]. split; [exact Hu|]. apply Ro_sys_err; exact Ho. }
  destruct (flush_buffers (with_os sf (set_sys_err (o_ sf) 0)) fi true) as [[] s1| |] eqn:Hf.
  - destruct (sys_close (o_ s1)) as [[cr e] o2] eqn:Hcl.
    destruct (cr <? 0) eqn:Hcr; [discriminate|].
    inv H. cbn [o_] in Hfin.
    assert (Hrd1 : rderr (o_ s1) = false).
    { unfold sys_close in Hcl. destruct (resps (o_ s1)) as [|[n| |x] rs]; inv Hcl; simpl in *; try discriminate; auto. }
    destruct (sim_flush _ _ _ _ _ HR0 Hf Hrd1) as (s1' & Hf' & (Rc & Ru & Rro)).
    rewrite Hf'.
    destruct (sim_close_prim _ _ _ _ _ Rro Hcl Hcr) as (i2 & Hi & Rro2).
    rewrite Hi, Hcr.
    eexists. split; [reflexivity|]. unfold R; simpl. rewrite Rc. auto.
  - destruct (sys_close (o_ s)) as [[cr e0] o2].
    destruct (cr <? 0); discriminate.
  - discriminate.
Qed.

(* one operation *)
Lemma sim_step fi sf si p d sf' :
  R sf si -> step fi sf p = Some (None, d, sf') -> rderr (o_ sf') = false ->
  exists si', step fi si p = Some (None, d, si') /\ R sf' si'.
Proof.
  intros HR H Hfin. destruct p as [b off data|b off n| | |]; simpl in *.
  - destruct (write_file sf fi b off data) as [[] s1| |] eqn:E; try discriminate; inv H.
    destruct (sim_write_file _ _ _ _ _ _ _ HR E Hfin) as (si' & E' & HR'). rewrite E'. eauto.
  - destruct (read_file sf fi b off n) as [bs s1| |] eqn:E; try discriminate; inv H.
    destruct (sim_read_file _ _ _ _ _ _ _ _ HR E Hfin) as (si' & E' & HR'). rewrite E'. eauto.
  - destruct (flush_buffers sf fi false) as [[] s1| |] eqn:E; try discriminate; inv H.
    destruct (sim_flush _ _ _ _ _ HR E Hfin) as (si' & E' & HR'). rewrite E'. eauto.
  - destruct (fflush_file sf) as [[] s1| |] eqn:E; try discriminate; inv H.
    destruct (sim_fsync _ _ _ HR E) as (si' & E' & HR'). rewrite E'. eauto.
  - destruct (close_file sf fi) as [[] s1| |] eqn:E; try discriminate; inv H.
    destruct (sim_close _ _ _ _ HR E Hfin) as (si' & E' & HR'). rewrite E'. eauto.
Qed.

(* C14_success_means_on_disk: a whole history.  If every operation including the close reported NO_ERROR on the
   faulty OS, and no read() failed hard, then the fault-free OS runs the same history to the same statuses, the
   same bytes read, and the SAME DISK. *)
Theorem success_means_on_disk : forall fi ops sf si l sfe,
  R sf si -> run fi sf ops = Some (l, sfe) -> all_ok l = true -> no_read_error l = true ->
  exists li sie, run fi si ops = Some (li, sie) /\
                 map fst li = map fst l /\ all_ok li = true /\
                 disk (o_ sfe) = disk (o_ sie) /\ c_ sfe = c_ sie.
Proof.
  intros fi ops. induction ops as [|p rest IH]; intros sf si l sfe HR H Hok Hnr.
  - simpl in *. inv H. exists [], si. destruct HR as (Hc & Hu & (Hd & _)). repeat split; auto.
  - simpl in H. destruct (step fi sf p) as [[[e d] s1]|] eqn:Es; [|discriminate].
    destruct (run fi s1 rest) as [[l1 s2]|] eqn:Er; [|discriminate]. inv H.
    simpl in Hok, Hnr. apply andb_true_iff in Hok as [Hok1 Hok2]. apply andb_true_iff in Hnr as [Hnr1 Hnr2].
    destruct e as [e|]; [discriminate|]. apply negb_true_iff in Hnr1.
    destruct (sim_step _ _ _ _ _ _ HR Es Hnr1) as (si1 & Es' & HR1).
    destruct (IH _ _ _ _ HR1 Er Hok2 Hnr2) as (li & sie & Er' & M & Ok' & D & C).
    exists ((None, d, rderr (o_ si1)) :: li), sie. simpl. rewrite Es', Er'. repeat split; auto.
    simpl. now rewrite M.
Qed.

Lemma R_init d rs : R (mk_state d rs) (mk_state d []).
Proof. unfold R, Ro, mk_state; simpl. repeat split; reflexivity. Qed.


(* ------------------------------------------------------------------ witnesses *)
(* (1) the hypothesis "no read() failed hard" is necessary: ADFI_write_file treats a failed read of the block it
   is about to modify like "block does not exist yet" (iret < 0 -> iret = 0, blank fill).  File [1;2;3;4];
   write one byte 65 at block 0 offset 0; close.  System calls: lseek#0, read#1 <- EIO.  Every operation reports
   NO_ERROR, yet byte 1 of the file is a blank instead of 2. *)
Definition wit_ops1 : list op := [OWrite 0 0 [65]; OClose].
Definition wit_rs1 : list resp := [Ok 4096; Err 5].
Lemma read_error_swallowed :
  exists l s li si,
    run 0 (mk_state [1;2;3;4] wit_rs1) wit_ops1 = Some (l, s) /\ all_ok l = true /\ no_read_error l = false /\
    run 0 (mk_state [1;2;3;4] []) wit_ops1 = Some (li, si) /\ all_ok li = true /\
    firstn 4 (disk (o_ s)) = [65;32;32;32] /\ firstn 4 (disk (o_ si)) = [65;2;3;4].
Proof.
  destruct (run 0 (mk_state [1;2;3;4] wit_rs1) wit_ops1) as [[l s]|] eqn:E1; [|vm_compute in E1; discriminate].
  destruct (run 0 (mk_state [1;2;3;4] []) wit_ops1) as [[li si]|] eqn:E2; [|vm_compute in E2; discriminate].
  exists l, s, li, si. vm_compute in E1. vm_compute in E2. inversion E1; subst. inversion E2; subst.
  vm_compute. repeat split; reflexivity.
Qed.

(* (2) the deferred block flush: flush_wr_block is cleared BEFORE the status of the write is known.  The error
   is still returned by that very call (FWRITE_ERROR = 14); afterwards the buffered block is never written and
   the close reports NO_ERROR -- "an error no later than the close" holds, "every later success means the data is
   on disk" would not.  Calls: OWrite#1 = lseek0 read1; OWrite#2 (other block) = flush: lseek2 write3 <- ENOSPC. *)
Definition wit_ops2 : list op := [OWrite 0 0 [1]; OWrite 1 0 [2]; OClose].
Definition wit_rs2 : list resp := [Ok 4096; Ok 4096; Ok 4096; Err 28].
Lemma deferred_flush_error_reported :
  exists l s, run 0 (mk_state [] wit_rs2) wit_ops2 = Some (l, s) /\
              map (fun x => fst (fst x)) l = [None; Some FWRITE_ERROR; None] /\ disk (o_ s) = [].
Proof.
  destruct (run 0 (mk_state [] wit_rs2) wit_ops2) as [[l s]|] eqn:E1; [|vm_compute in E1; discriminate].
  exists l, s. vm_compute in E1. inversion E1; subst. vm_compute. repeat split; reflexivity.
Qed.

(* (3) why the theorem compares with the fault-free RUN and not with a plain byte store: without any fault the
   block buffers are not coherent for every history of ADFI_write_file calls (a clean, still identified write
   buffer is not invalidated by a large direct write that covers it).  buffer block 1; flush; large write
   4000..4199 (covers block 1 offsets 0..103) with 7s; small write into block 1 -> the stale buffer is reused and
   flushed at close: address 4096+50 holds a blank, not 7.  (C02's business; believed unreachable through the
   public API because node data and node headers never share a block in that order.) *)
Definition wit_ops3 : list op :=
  [OWrite 1 0 [1]; OFlush; OWrite 0 4000 (repeat 7 200); OWrite 1 200 [9]; OClose].
Lemma cache_hole_without_any_fault :
  exists l s, run 0 (mk_state [] []) wit_ops3 = Some (l, s) /\ all_ok l = true /\
              nth (4096 + 50) (disk (o_ s)) 0 = 32 /\ nth (4096 + 200) (disk (o_ s)) 0 = 9.
Proof.
  destruct (run 0 (mk_state [] []) wit_ops3) as [[l s]|] eqn:E1; [|vm_compute in E1; discriminate].
  exists l, s. vm_compute in E1. inversion E1; subst. vm_compute. repeat split; reflexivity.
Qed.
