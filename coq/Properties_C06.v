(* Properties_C06.v -- exported theorems for C06 (the stored type is the requested type and conversions equal
   C conversion).  Only statements, each closed by [exact] of a lemma proved in ConvertProofs.v, each followed by
   Print Assumptions.  Gen_C06.cast_table is regenerated from /repo/src/cgns_internals.c on every run. *)
From Coq Require Import ZArith List Bool.
From CgnsV Require Import Convert ConvertProofs Gen_C06.
Import ListNotations.
Local Open Scope Z_scope.

(* (T) the regenerated cast table: every one of the 49 ordered pairs is checked by the kernel *)
Theorem C06_table_rows_ok : forallb (row_is_c_cast cast_table) all_pairs = true.
Proof. vm_compute. reflexivity. Qed.
Print Assumptions C06_table_rows_ok.

(* ... hence, for EVERY value, the table's action on a supported pair is the C conversion, an array is converted
   element by element, and the pairs that return an error are exactly the unsupported ones *)
Theorem C06_table_is_C : forall f t,
  (supported f t = true ->
     (forall u, arm_action (lookup_arm cast_table f t) f t u = CVal (c_cast f t u)) /\
     (forall data, convert_data cast_table f t data = Some (map (c_cast f t) data))) /\
  (supported f t = false <-> lookup_arm cast_table f t = ArmErr) /\
  (supported f t = false -> forall data, convert_data cast_table f t data = None).
Proof. exact (table_is_C cast_table C06_table_rows_ok). Qed.
Print Assumptions C06_table_is_C.

(* (b) a general write creates a NEW node with the requested file type s and it holds the C conversion of the
   user's values -- on the direct route, the ADF temporary-buffer route and the HDF5 in-situ route.  hconv is what
   libhdf5 does to one element; the only thing assumed about it is agreement with C on representable values. *)
Theorem C06_stored_type : forall hconv,
  (forall f t u, representable f t u = true -> hconv f t u = c_cast f t u) ->
  forall be arrays name s s_dim m mem,
    find_arr name arrays = None -> supported m s = true -> 1 <= s_dim -> Z.of_nat (length mem) = s_dim ->
    all_repr m s mem ->
    exists arrays',
      general_write hconv cast_table be arrays name s s_dim 1 s_dim m s_dim 1 s_dim mem = (Ok, arrays') /\
      find_arr name arrays' = Some (mkArr name s s_dim (map (c_cast m s) mem)).
Proof. exact (stored_type_new cast_table C06_table_rows_ok). Qed.
Print Assumptions C06_stored_type.

(* an existing node never changes its declared type: a request with another file type is refused, nothing changes *)
Theorem C06_existing_type_kept : forall hconv be arrays name a s rmin rmax m m_dim m_rmin m_rmax mem,
  find_arr name arrays = Some a -> a_type a <> s ->
  exists e, e <> Ok /\
    general_write hconv cast_table be arrays name s (a_dim a) rmin rmax m m_dim m_rmin m_rmax mem = (e, arrays).
Proof. exact (fun hconv => write_existing_type_mismatch hconv cast_table). Qed.
Print Assumptions C06_existing_type_kept.

(* a (partial) write into an existing node replaces exactly the addressed elements by the converted values *)
Theorem C06_stored_existing : forall hconv,
  (forall f t u, representable f t u = true -> hconv f t u = c_cast f t u) ->
  forall be arrays name a s rmin rmax m mem,
    find_arr name arrays = Some a -> a_type a = s -> a_name a = name ->
    supported m s = true -> 1 <= rmin -> rmin <= rmax -> rmax <= a_dim a ->
    Z.of_nat (length mem) = rmax - rmin + 1 -> all_repr m s mem ->
    exists arrays',
      general_write hconv cast_table be arrays name s (a_dim a) rmin rmax m (rmax - rmin + 1) 1 (rmax - rmin + 1) mem
        = (Ok, arrays') /\
      find_arr name arrays' = Some (mkArr name s (a_dim a) (splice rmin (map (c_cast m s) mem) (a_data a))).
Proof. exact (stored_existing cast_table C06_table_rows_ok). Qed.
Print Assumptions C06_stored_existing.

(* a read returns the C conversion of the stored values (all three routes, whole array or sub-range) *)
Theorem C06_read_converted : forall hconv,
  (forall f t u, representable f t u = true -> hconv f t u = c_cast f t u) ->
  forall be a rmin rmax m mem,
    supported (a_type a) m = true -> 1 <= rmin -> rmin <= rmax -> rmax <= a_dim a ->
    Z.of_nat (length (a_data a)) = a_dim a ->
    Z.of_nat (length mem) = rmax - rmin + 1 -> all_repr (a_type a) m (slice rmin rmax (a_data a)) ->
    general_read hconv cast_table be a rmin rmax m (rmax - rmin + 1) 1 (rmax - rmin + 1) mem
      = (Ok, map (c_cast (a_type a) m) (slice rmin rmax (a_data a))).
Proof. exact (read_is_converted cast_table C06_table_rows_ok). Qed.
Print Assumptions C06_read_converted.

(* full and partial transfers agree: a partial read is the slice of the full read ... *)
Theorem C06_partial_read_agrees : forall hconv,
  (forall f t u, representable f t u = true -> hconv f t u = c_cast f t u) ->
  forall be a rmin rmax m mem memf,
    supported (a_type a) m = true -> 1 <= rmin -> rmin <= rmax -> rmax <= a_dim a ->
    Z.of_nat (length (a_data a)) = a_dim a ->
    Z.of_nat (length mem) = rmax - rmin + 1 -> Z.of_nat (length memf) = a_dim a ->
    all_repr (a_type a) m (a_data a) ->
    exists full, general_read hconv cast_table be a 1 (a_dim a) m (a_dim a) 1 (a_dim a) memf = (Ok, full) /\
      general_read hconv cast_table be a rmin rmax m (rmax - rmin + 1) 1 (rmax - rmin + 1) mem
        = (Ok, slice rmin rmax full).
Proof. exact (partial_read_agrees cast_table C06_table_rows_ok). Qed.
Print Assumptions C06_partial_read_agrees.

(* ... and creating an array by two adjacent partial writes stores what one full write of the concatenation stores *)
Theorem C06_partial_write_agrees : forall hconv,
  (forall f t u, representable f t u = true -> hconv f t u = c_cast f t u) ->
  forall be arrays name s m mem1 mem2,
    find_arr name arrays = None -> supported m s = true ->
    mem1 <> [] -> mem2 <> [] -> all_repr m s mem1 -> all_repr m s mem2 ->
    let n1 := Z.of_nat (length mem1) in
    let n2 := Z.of_nat (length mem2) in
    exists st1 st2,
      general_write hconv cast_table be arrays name s (n1 + n2) 1 n1 m n1 1 n1 mem1 = (Ok, st1) /\
      general_write hconv cast_table be st1 name s (n1 + n2) (n1 + 1) (n1 + n2) m n2 1 n2 mem2 = (Ok, st2) /\
      find_arr name st2 = Some (mkArr name s (n1 + n2) (map (c_cast m s) (mem1 ++ mem2))).
Proof. exact (partial_write_agrees cast_table C06_table_rows_ok). Qed.
Print Assumptions C06_partial_write_agrees.

(* cg_array_read_as and the integer helpers (connectivity, offsets, parent data, ranges) convert like C *)
Theorem C06_read_as_converted : forall a m, supported (a_type a) m = true -> (m = C1 <-> a_type a = C1) ->
  array_read_as cast_table a m = (Ok, map (c_cast (a_type a) m) (a_data a)).
Proof. exact (read_as_is_converted cast_table C06_table_rows_ok). Qed.
Print Assumptions C06_read_as_converted.

Theorem C06_int_helpers : forall hconv,
  (forall f t u, representable f t u = true -> hconv f t u = c_cast f t u) ->
  forall be s m vals, supported m s = true -> supported s m = true -> all_repr m s vals -> all_repr s m vals ->
    int_write hconv cast_table be s m vals = (Ok, map (c_cast m s) vals) /\
    int_read hconv cast_table be s m vals = (Ok, map (c_cast s m) vals).
Proof. exact (int_helpers_are_casts cast_table C06_table_rows_ok). Qed.
Print Assumptions C06_int_helpers.

Theorem C06_read_int_data : forall s stored, s = I4 \/ s = I8 -> read_int_data s stored = map (c_cast s I8) stored.
Proof. exact read_int_data_is_cast. Qed.
Print Assumptions C06_read_int_data.

(* round trips, each with its representability guard as a boolean *)
Theorem C06_roundtrip_I4_I8 : forall u, 0 <= u < 2 ^ 32 -> c_cast I8 I4 (c_cast I4 I8 u) = u.
Proof. exact roundtrip_I4_I8. Qed.
Print Assumptions C06_roundtrip_I4_I8.

Theorem C06_roundtrip_I4_R8 : forall u, 0 <= u < 2 ^ 32 -> c_cast R8 I4 (c_cast I4 R8 u) = u.
Proof. exact roundtrip_I4_R8. Qed.
Print Assumptions C06_roundtrip_I4_R8.

Theorem C06_roundtrip_I8_R8 : forall u, 0 <= u < 2 ^ 64 -> Z.abs (sgn 64 u) <=? 2 ^ 53 = true ->
  c_cast R8 I8 (c_cast I8 R8 u) = u.
Proof. exact roundtrip_I8_R8. Qed.
Print Assumptions C06_roundtrip_I8_R8.

Theorem C06_roundtrip_R4_R8 : forall u, 0 <= u < 2 ^ 32 -> is_nan32 u = false ->
  c_cast R8 R4 (c_cast R4 R8 u) = u.
Proof. exact roundtrip_R4_R8. Qed.
Print Assumptions C06_roundtrip_R4_R8.

(* the hypotheses are satisfiable and the conversions are the expected ones on concrete values *)
Example C06_ex_halfway_even : c_cast I4 R4 16777217 = 1266679808 /\ c_cast I4 R4 16777219 = 1266679810.
Proof. vm_compute. split; reflexivity. Qed.
Example C06_ex_denormal_narrowing : c_cast R8 R4 3936146074321813504 = 1.      (* 2^-149 as double -> min denormal *)
Proof. vm_compute. reflexivity. Qed.
Example C06_ex_neg_trunc : c_cast R8 I4 13836183955189006336 = 2 ^ 32 - 2.     (* -2.5 -> -2 *)
Proof. vm_compute. reflexivity. Qed.
Example C06_ex_write_new :
  exists st, general_write c_cast cast_table ADF [] 7 R4 3 1 3 R8 3 1 3
               [4609434218613702656; 4613374868287651840; 13836183955189006336] = (Ok, st) /\
             find_arr 7 st = Some (mkArr 7 R4 3 [1069547520; 1076887552; 3223322624]).
Proof. eexists. vm_compute. split; reflexivity. Qed.
