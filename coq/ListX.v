(* ListX.v -- list access / update by Z index, used by all array models. *)
From Coq Require Import ZArith List Lia.
Import ListNotations.
Local Open Scope Z_scope.

Fixpoint upd {A} (l : list A) (n : nat) (v : A) : list A :=
  match l, n with
  | [], _ => []
  | _ :: t, O => v :: t
  | h :: t, S n' => h :: upd t n' v
  end.

Definition nthZ {A} (l : list A) (i : Z) (d : A) : A :=
  if i <? 0 then d else nth (Z.to_nat i) l d.
Definition updZ {A} (l : list A) (i : Z) (v : A) : list A :=
  if i <? 0 then l else upd l (Z.to_nat i) v.
Definition lenZ {A} (l : list A) : Z := Z.of_nat (length l).

Lemma upd_length {A} (l : list A) n v : length (upd l n v) = length l.
Proof. revert n; induction l as [|h t IH]; intros [|n]; simpl; auto. Qed.

Lemma nth_upd_eq {A} (l : list A) n v d : (n < length l)%nat -> nth n (upd l n v) d = v.
Proof. revert n; induction l as [|h t IH]; intros [|n] H; simpl in *; try lia; auto. apply IH; lia. Qed.

Lemma nth_upd_neq {A} (l : list A) n m v d : n <> m -> nth m (upd l n v) d = nth m l d.
Proof.
  revert n m; induction l as [|h t IH]; intros [|n] [|m] H; simpl; auto; try congruence.
Qed.

Lemma updZ_length {A} (l : list A) i v : length (updZ l i v) = length l.
Proof. unfold updZ. destruct (i <? 0); auto using upd_length. Qed.

Lemma lenZ_updZ {A} (l : list A) i v : lenZ (updZ l i v) = lenZ l.
Proof. unfold lenZ. now rewrite updZ_length. Qed.

Lemma nthZ_updZ_eq {A} (l : list A) i v d : 0 <= i < lenZ l -> nthZ (updZ l i v) i d = v.
Proof.
  unfold nthZ, updZ, lenZ. intros H. destruct (Z.ltb_spec i 0); [lia|].
  apply nth_upd_eq. lia.
Qed.

Lemma nthZ_updZ_neq {A} (l : list A) i j v d : i <> j -> nthZ (updZ l i v) j d = nthZ l j d.
Proof.
  unfold nthZ, updZ. intros H. destruct (Z.ltb_spec j 0); auto.
  destruct (Z.ltb_spec i 0); auto. apply nth_upd_neq. lia.
Qed.

Lemma nthZ_repeat {A} (x d : A) n i : 0 <= i < Z.of_nat n -> nthZ (repeat x n) i d = x.
Proof.
  unfold nthZ. intros H. destruct (Z.ltb_spec i 0); [lia|].
  assert (Hk : (Z.to_nat i < n)%nat) by lia. clear H. revert Hk.
  generalize (Z.to_nat i) as k. induction n as [|n IH]; intros [|k] Hk; simpl; auto; try lia.
  apply IH; lia.
Qed.
