(* Properties_C16b.v -- second layer of C16 (open files are independent and handles stay valid): the three REAL handle
   tables.  Only statements, each closed by [exact] of a lemma of HandlesProofs.v.

   The first layer (Properties_C16.v) is about the ideal node database.  This layer is about the tables the library
   really keeps, as transcribed in Refcount.v (current code: variants Cur / MCur) with the getters of Handles.v:
     MLL   cgns_files[] / n_open / file_number_offset, getter cgi_get_file
     cgio  iolist[] / num_open, getter get_cgnsio (range test + the slot is not closed) and the slot's content (cgio_resolve)
     ADF   ADF_file[], getter = the file index inside a node ID + the in_use test (adf_resolve)
   A session is ANY list of opens (succeeding, failing early, failing late), closes of any number (valid, stale, never
   issued) and -- cgio/ADF -- link traversals; [mh_run] / [hrun] carry, next to the state, the list of (handle, slot the
   open filled, what it put there) of the opens not closed since.  So "for every session, for every entry of that list"
   is "for every handle returned by an open and not yet closed, whatever opens and closes happened in between" (table
   growth / realloc, slot reuse, table reset when the last file closes, file_number_offset). *)
From Coq Require Import Arith List Bool Lia Sorted.
From CgnsV Require Import Refcount RefcountProofs Handles HandlesProofs.
Import ListNotations.

(* ---- (1) a live handle resolves to the slot its open filled ------------------------------------------------------ *)
Theorem C16_handle_resolves_to_own_slot_mll : forall ops m live, mh_run MCur mll_init [] ops = (m, live) ->
  forall e, In e live -> cgi_get_file m (l_h e) = Some (l_slot e) /\ nth (l_slot e) (files m) None = Some (l_tag e).
Proof. exact mll_handle_resolves. Qed.
Print Assumptions C16_handle_resolves_to_own_slot_mll.

Theorem C16_handle_resolves_to_own_slot_cgio : forall w fuel ops s live, hrun fuel w io_init [] ops = Some (s, live) ->
  forall e, In e live -> get_cgnsio s (l_h e) = true /\ cgio_resolve s (l_h e) = Some (l_slot e).
Proof. exact cgio_handle_resolves. Qed.
Print Assumptions C16_handle_resolves_to_own_slot_cgio.

(* the ADF file index stored in the cgio slot still designates a slot in use holding the file that was opened *)
Theorem C16_handle_resolves_to_own_slot_adf : forall w fuel ops s live, hrun fuel w io_init [] ops = Some (s, live) ->
  forall e, In e live -> adf_resolve (io_adf s) (l_slot e) = Some (l_slot e) /\
                         fname (slot_at (io_adf s) (l_slot e)) = Some (l_tag e).
Proof. exact adf_handle_resolves. Qed.
Print Assumptions C16_handle_resolves_to_own_slot_adf.

(* ---- (2) handles of simultaneously open files are pairwise distinct and denote distinct slots ------------------- *)
Theorem C16_open_handles_distinct_mll : forall ops m live, mh_run MCur mll_init [] ops = (m, live) ->
  NoDup (map l_h live) /\ NoDup (map l_slot live).
Proof. exact mll_handles_distinct. Qed.
Print Assumptions C16_open_handles_distinct_mll.

(* cgio numbers distinct (hence distinct iolist slots: slot = number - 1) and the ADF file indices distinct *)
Theorem C16_open_handles_distinct_cgio_adf : forall w fuel ops s live, hrun fuel w io_init [] ops = Some (s, live) ->
  NoDup (map l_h live) /\ NoDup (map l_slot live).
Proof. exact io_handles_distinct. Qed.
Print Assumptions C16_open_handles_distinct_cgio_adf.

(* ---- (3) numbers that are not the handle of a file open now ------------------------------------------------------ *)
(* MLL: exactly the numbers of the files open NOW are accepted; every other number is rejected by cgi_get_file and
   cg_close of it changes nothing ... *)
Theorem C16_closed_handle_rejected_mll : forall ops m live, mh_run MCur mll_init [] ops = (m, live) ->
  forall fn, ~ In fn (map l_h live) -> cgi_get_file m fn = None /\ forall ok, cg_close MCur m fn ok = (m, false).
Proof. exact mll_closed_handle_rejected. Qed.
Print Assumptions C16_closed_handle_rejected_mll.

(* ... and a number, once closed, stays rejected for ever: every number cg_open returns is greater than every number it
   returned before in this process (file_number_offset += n_cgns_files since /repo ecfdd66), so a stale number is never
   live again and can never come to designate a later file *)
Theorem C16_mll_numbers_never_reissued : forall ops, StronglySorted lt (somes (mh_numbers MCur mll_init [] ops)).
Proof. exact mll_numbers_never_reissued. Qed.
Print Assumptions C16_mll_numbers_never_reissued.

(* the OLD arithmetic (MOld: cg_close ASSIGNED file_number_offset = n_cgns_files): numbers were issued again from the third
   generation of opens on.  Witness: open (1), close; open (2), open (3), close both; open -> 3 again; the stale 3 then
   resolved to the entry of the new file.  The witness session is a regression input (corpus/C16b). *)
Theorem C16_mll_number_reissued_old_refuted :
  mh_numbers MOld mll_init [] reissue_ops = [Some 1; Some 2; Some 3; Some 3] /\
  exists m live, mh_run MOld mll_init [] reissue_ops = (m, live) /\ live = [(3, 0, 3)] /\ cgi_get_file m 3 = Some 0 /\
                 nth 0 (files m) None = Some 3.
Proof. exact mll_number_reissued_old. Qed.
Print Assumptions C16_mll_number_reissued_old_refuted.

(* cgio: the getter itself refuses such a number (out of range or a closed slot; /repo 137980e), so EVERY cgio function
   does; cgio_close_file answers CGIO_ERR_BAD_CGIO and a traversal fails, nothing changes *)
Theorem C16_closed_handle_rejected_cgio : forall w fuel ops s live, hrun fuel w io_init [] ops = Some (s, live) ->
  forall c, ~ In c (map l_h live) ->
    get_cgnsio s c = false /\ cgio_resolve s c = None /\
    cgio_close_file Cur fuel s c = Some (s, RBadCgio) /\
    forall ch, cgio_walk Cur fuel w s c ch = Some (s, false).
Proof. exact io_closed_handle_rejected. Qed.
Print Assumptions C16_closed_handle_rejected_cgio.

(* the OLD getter (before 137980e) tested the range only: a closed number was accepted while another file kept the table
   alive, so cgio_get_file_type / cgio_get_root_id / cgio_release_id answered status 0 for it.  The witness session is a
   regression input (corpus/C16b). *)
Theorem C16_cgio_closed_slot_accepted_old_refuted :
  exists s live, hrun 100 w1 io_init [] [OOpen 0 false; OOpen 1 false; OClose 2] = Some (s, live) /\
                 ~ In 2 (map l_h live) /\ cgio_resolve s 2 = None /\ get_cgnsio_old s 2 = true /\ get_cgnsio s 2 = false.
Proof. exact io_closed_slot_accepted_old. Qed.
Print Assumptions C16_cgio_closed_slot_accepted_old_refuted.

(* ADF: a file index whose slot is not in use is refused with ADF_FILE_NOT_OPENED and nothing changes (both variants) *)
Theorem C16_closed_handle_rejected_adf : forall v fuel a i, adf_resolve a i = None ->
  adfi_close_file v (S (S fuel)) a i = Some (a, ADF_FILE_NOT_OPENED).
Proof. exact adf_closed_index_rejected. Qed.
Print Assumptions C16_closed_handle_rejected_adf.

(* ---- (4) closing one file changes no other file's slot ------------------------------------------------------------ *)
Theorem C16_close_touches_one_slot_mll : forall ops m live fn ok m' live' x,
  mh_run MCur mll_init [] ops = (m, live) -> mh_step MCur m live (MClose fn ok) = (m', live', x) ->
  forall e, In e live -> l_h e <> fn ->
    In e live' /\ cgi_get_file m' (l_h e) = Some (l_slot e) /\ nth (l_slot e) (files m') None = Some (l_tag e).
Proof. exact mll_close_touches_one_slot. Qed.
Print Assumptions C16_close_touches_one_slot_mll.

(* cgio + ADF: every other handle selects the same iolist slot with the same ADF index; that ADF slot keeps its file,
   its links[] and its descriptor and stays in use (its count can only have lost references of link entries of the
   closed file: C17_close_drops_one_reference) *)
Theorem C16_close_touches_one_slot_cgio_adf : forall w fuel ops s live c s' live' r,
  hrun fuel w io_init [] ops = Some (s, live) -> hstep fuel w s live (OClose c) = Some (s', live', r) ->
  forall e, In e live -> l_h e <> c ->
    In e live' /\ cgio_resolve s' (l_h e) = Some (l_slot e) /\
    fname (slot_at (io_adf s') (l_slot e)) = fname (slot_at (io_adf s) (l_slot e)) /\
    links (slot_at (io_adf s') (l_slot e)) = links (slot_at (io_adf s) (l_slot e)) /\
    fd_open (slot_at (io_adf s') (l_slot e)) = fd_open (slot_at (io_adf s) (l_slot e)) /\
    in_use (slot_at (io_adf s') (l_slot e)) <> 0.
Proof. exact io_close_touches_one_slot. Qed.
Print Assumptions C16_close_touches_one_slot_cgio_adf.

(* ---- (5) a file's slot does not depend on the slot's previous occupant ---------------------------------------------- *)
(* ADF_file[i] also keeps attributes of the file (old_version = legacy on-disk layout, format / os_size letters, link
   separator, pending version update).  A close leaves them in the entry.  ADFI_open_file: whatever the table and the
   attribute memory were, the attributes of the entry it hands out are those of a reset entry updated from the header of the
   file being opened -- nothing of the previous occupant survives *)
Theorem C16_open_slot_fields_initialised : forall a n hdr a1 i,
  length (amem a) = length (tab a) -> adfi_open_file a n hdr true = (a1, Some i) ->
  attr_at a1 i = read_header hdr init_attr.
Proof. exact open_slot_fields_initialised. Qed.
Print Assumptions C16_open_slot_fields_initialised.

(* EVERY session, BOTH variants: an entry of ADF_file[] in use that holds a valid file has exactly the attributes that
   file's OWN header determines, whatever files (of whatever layout) were opened and closed before in the process *)
Theorem C16_slot_fields_own : forall v w fuel ops s pend rs, run v fuel w io_init [] ops = Some (s, pend, rs) ->
  forall j n, in_use (slot_at (io_adf s) j) <> 0 -> fname (slot_at (io_adf s) j) = Some n -> kind_of w n = KOk ->
              attr_at (io_adf s) j = file_attr w n.
Proof. exact slot_fields_own. Qed.
Print Assumptions C16_slot_fields_own.

(* the number a REFUSED cg_open leaves in the caller's variable (cgi_open_body stores n_cgns_files + file_number_offset through fn
   as soon as cgio_open_file has succeeded; a refusal behind that -- wrong version, broken tree -- returns CG_ERROR with the
   number still there): from ANY table it resolves to nothing and cg_close refuses it without touching the table ... *)
Theorem C16_failed_open_number_dead : forall m oc m' fn,
  cg_open MCur m oc = (m', None) -> fn_left m oc = Some fn ->
  cgi_get_file m' fn = None /\ forall ok, cg_close MCur m' fn ok = (m', false).
Proof. exact failed_open_number_dead. Qed.
Print Assumptions C16_failed_open_number_dead.

(* ... and after any further opens and closes it still resolves to nothing *)
Theorem C16_failed_open_number_never_resolves : forall m oc m' fn live ops m'' live'',
  cg_open MCur m oc = (m', None) -> fn_left m oc = Some fn ->
  mh_run MCur m' live ops = (m'', live'') -> cgi_get_file m'' fn = None.
Proof. exact failed_open_number_never_resolves. Qed.
Print Assumptions C16_failed_open_number_never_resolves.

(* before def473d a refused open returned with the entry in place: its number resolved *)
Theorem C16_failed_open_number_alive_old_refuted :
  exists m', cg_open MOld mll_init OLateFail = (m', None) /\ fn_left mll_init OLateFail = Some 1 /\ cgi_get_file m' 1 = Some 0.
Proof. exact failed_open_number_alive_old. Qed.
Print Assumptions C16_failed_open_number_alive_old_refuted.

(* ---- non-vacuity: eight files open at once (slot reuse, growth of all three tables, a failing and a late-failing open) *)
Example C16b_example_cgio_adf :
  exists s live, hrun 1000 w8 io_init [] ops8 = Some (s, live) /\ length live = 8 /\ length (iol s) = 8 /\
                 map l_h live = [1; 8; 7; 6; 5; 4; 2; 3].
Proof. exact io_example8. Qed.

Example C16b_reissue_witness_now : mh_numbers MCur mll_init [] reissue_ops = [Some 1; Some 2; Some 3; Some 4].
Proof. exact mll_reissue_witness_now. Qed.

(* K (current layout) stays open; X (LEGACY layout) is opened into entry 1 and closed: the closed entry keeps old_version = 1;
   Z (IEEE_BIG, current layout) is then opened into the same entry and has old_version = 0 and its own letters *)
Example C16b_layout_example :
  exists s1 s2 p1 p2 r1 r2,
    run Cur 100 w4 io_init [] [OOpen 0 false; OOpen 1 false; OClose 2] = Some (s1, p1, r1) /\
    in_use (slot_at (io_adf s1) 1) = 0 /\ a_old (attr_at (io_adf s1) 1) = true /\
    run Cur 100 w4 io_init [] [OOpen 0 false; OOpen 1 false; OClose 2; OOpen 2 true] = Some (s2, p2, r2) /\
    fname (slot_at (io_adf s2) 1) = Some 2 /\ attr_at (io_adf s2) 1 = layout_attr LBig /\ a_old (attr_at (io_adf s2) 1) = false.
Proof. exact layout_example. Qed.

Example C16b_example_mll :
  exists m live, mh_run MCur mll_init [] mops8 = (m, live) /\ length live = 7 /\ n_open m = 7 /\ fsize m = 16 /\
                 map l_h live = [10; 9; 8; 7; 6; 5; 4].
Proof. exact mll_example8. Qed.
