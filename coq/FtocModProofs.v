(* FtocModProofs.v -- lemmas about FtocMod.mp_ok, for ANY table *)
From Coq Require Import ZArith List String Bool Lia.
From CgnsV Require Import ListX Ftoc FtocMod.
Import ListNotations.
Local Open Scope Z_scope.

(* the generic statement behind C20f_modproc_outputs_reach_caller *)
Lemma mp_row_sound : forall t r, mp_table_ok t = true -> In r t -> mp_row_known r = false ->
  (m_ncparams r <> -1 -> m_ndummies r = m_ncparams r + 1) /\
  m_unassigned r = [] /\
  (forall pos k size, In (pos, k, size) (m_outs r) ->
     (k = OutDirect \/ k = OutCopied) /\
     (k = OutCopied -> size = -1 \/ size = 0 \/ mp_out_max (m_cfunc r) pos <= size)).
Proof.
  intros t r Ht Hin Hk. unfold mp_table_ok in Ht. rewrite forallb_forall in Ht. specialize (Ht r Hin).
  rewrite Hk, orb_false_r in Ht. unfold mp_ok in Ht.
  apply andb_true_iff in Ht. destruct Ht as [Ht Hu]. apply andb_true_iff in Ht. destruct Ht as [Ha Ho].
  split.
  - intros Hn. unfold arity_ok in Ha. apply orb_true_iff in Ha. destruct Ha as [Ha | Ha]; apply Z.eqb_eq in Ha; [contradiction | exact Ha].
  - split.
    + destruct (m_unassigned r); [reflexivity | discriminate].
    + intros pos k size Hi. rewrite forallb_forall in Ho. specialize (Ho _ Hi). simpl in Ho.
      destruct k; try discriminate.
      * split; [now left | intros H; discriminate].
      * split; [now right | intros _].
        apply orb_true_iff in Ho. destruct Ho as [Ho | Ho].
        { apply orb_true_iff in Ho. destruct Ho as [Ho | Ho]; apply Z.eqb_eq in Ho; auto. }
        { apply Z.leb_le in Ho. auto. }
Qed.

Lemma mp_known_refuted : mp_ok w_coord_id = false /\ mp_ok w_discrete_ptset_write = false /\ mp_ok w_family_name_read = false /\
  arity_ok w_coord_id = false /\ mp_row_known w_coord_id = false /\ mp_row_known w_discrete_ptset_write = false /\
  mp_row_known w_family_name_read = false /\ mp_table_ok [w_coord_id] = false /\ mp_table_ok [w_discrete_ptset_write] = false /\
  mp_table_ok [w_family_name_read] = false.
Proof. vm_compute. repeat split; reflexivity. Qed.
