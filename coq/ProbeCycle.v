(* ProbeCycle.v -- the recurrence i <- (5 i + 1) mod 2^p visits every residue within 2^p steps,
   for EVERY p (Hull-Dobell for a = 5, c = 1, proved directly).  This is what makes every probe loop
   of cg_hashmap.c terminate once the perturbation has been shifted out, for every table size --
   not a sweep up to some size. *)
From Coq Require Import ZArith List Lia Znumtheory Zpow_facts.
Import ListNotations.
Local Open Scope Z_scope.

(* S k = 1 + 5 + ... + 5^(k-1) = (5^k - 1)/4 *)
Fixpoint geo (k : nat) : Z := match k with O => 0 | S k' => 5 * geo k' + 1 end.

Lemma geo_closed k : 4 * geo k = 5 ^ Z.of_nat k - 1.
Proof.
  induction k as [|k IH]; [reflexivity|].
  rewrite Nat2Z.inj_succ, Z.pow_succ_r by lia. cbn [geo]. lia.
Qed.

Lemma geo_double e : geo (e + e) = geo e * (2 * (2 * geo e + 1)).
Proof.
  assert (H := geo_closed (e + e)). assert (He := geo_closed e).
  rewrite Nat2Z.inj_add, Z.pow_add_r in H by lia. nia.
Qed.

Lemma geo_parity k : (geo k) mod 2 = (Z.of_nat k) mod 2.
Proof.
  induction k as [|k IH]; [reflexivity|].
  rewrite Nat2Z.inj_succ. cbn [geo].
  replace (5 * geo k + 1) with (geo k + 1 + 2 * (2 * geo k)) by ring.
  rewrite Z.add_mod, Z.mul_comm, Z.mod_mul, Z.add_0_r, Z.mod_mod by lia.
  unfold Z.succ. rewrite Z.add_mod, IH by lia. rewrite <- Z.add_mod by lia. reflexivity.
Qed.

Lemma odd_rel_prime_pow2 p q : 0 <= p -> q mod 2 = 1 -> rel_prime (2 ^ p) q.
Proof.
  intros Hp Hq. apply rel_prime_sym. apply rel_prime_Zpower_r; [assumption|].
  apply rel_prime_sym. apply prime_rel_prime; [apply prime_2|].
  intros [c Hc]. rewrite Hc, Z.mod_mul in Hq by lia. discriminate.
Qed.

(* v2 (geo d) = v2 d, in the form needed *)
Lemma geo_div_pow2 : forall (p : nat) (d : nat), (2 ^ Z.of_nat p | geo d) -> (2 ^ Z.of_nat p | Z.of_nat d).
Proof.
  induction p as [|p IH]; intros d H.
  - simpl. apply Z.divide_1_l.
  - rewrite Nat2Z.inj_succ, Z.pow_succ_r in * by lia.
    assert (Heven : Z.of_nat d mod 2 = 0).
    { rewrite <- geo_parity. destruct H as [c Hc]. rewrite Hc.
      replace (c * (2 * 2 ^ Z.of_nat p)) with ((c * 2 ^ Z.of_nat p) * 2) by ring. apply Z.mod_mul. lia. }
    assert (Hd : exists e, d = (e + e)%nat).
    { exists (Z.to_nat (Z.of_nat d / 2)).
      pose proof (Z.div_mod (Z.of_nat d) 2 ltac:(lia)) as Hdm. rewrite Heven in Hdm.
      assert (0 <= Z.of_nat d / 2) by (apply Z.div_pos; lia). lia. }
    destruct Hd as [e ->]. rewrite geo_double in H.
    assert (H2 : (2 ^ Z.of_nat p | geo e * (2 * geo e + 1))).
    { destruct H as [c Hc]. exists c. nia. }
    assert (H3 : (2 ^ Z.of_nat p | geo e)).
    { rewrite Z.mul_comm in H2. apply Gauss with (b := 2 * geo e + 1); [assumption|].
      apply odd_rel_prime_pow2; [lia|].
      rewrite Z.add_comm, Z.mul_comm, Z.mod_add by lia. reflexivity. }
    apply IH in H3. destruct H3 as [c Hc]. exists c. rewrite Nat2Z.inj_add. lia.
Qed.

(* the recurrence, on Z *)
Definition lcg (size i : Z) : Z := (5 * i + 1) mod size.

Fixpoint lcg_iter (size : Z) (k : nat) (x : Z) : Z :=
  match k with O => x | S k' => lcg size (lcg_iter size k' x) end.

Lemma lcg_iter_closed size k x : 0 < size ->
  lcg_iter size k (x mod size) = (5 ^ Z.of_nat k * x + geo k) mod size.
Proof.
  intros Hs. induction k as [|k IH].
  - cbn [lcg_iter geo]. change (Z.of_nat 0) with 0. rewrite Z.pow_0_r. f_equal. ring.
  - cbn [lcg_iter geo]. rewrite IH. unfold lcg.
    rewrite Nat2Z.inj_succ, Z.pow_succ_r by lia.
    rewrite Z.add_mod, Z.mul_mod_idemp_r, <- Z.add_mod by lia.
    f_equal. ring.
Qed.

Lemma lcg_iter_range size k x : 0 < size -> 0 <= x < size -> 0 <= lcg_iter size k x < size.
Proof.
  intros Hs Hx. destruct k; cbn [lcg_iter]; [assumption|]. unfold lcg. apply Z.mod_pos_bound. lia.
Qed.

Lemma lcg_iter_inj (p : nat) x m n :
  0 <= x < 2 ^ Z.of_nat p -> (m < n)%nat -> Z.of_nat n - Z.of_nat m < 2 ^ Z.of_nat p ->
  lcg_iter (2 ^ Z.of_nat p) m x <> lcg_iter (2 ^ Z.of_nat p) n x.
Proof.
  intros Hx Hmn Hlt Heq.
  set (size := 2 ^ Z.of_nat p) in *.
  assert (Hs : 0 < size) by (apply Z.pow_pos_nonneg; lia).
  rewrite <- (Z.mod_small x size) in Heq by assumption.
  rewrite !lcg_iter_closed in Heq by assumption.
  (* difference = 5^m * geo d * (4x+1) *)
  destruct (Nat.le_exists_sub m n) as [d [Hd _]]; [lia|]. rewrite Nat.add_comm in Hd. subst n.
  assert (Hdiff : (5 ^ Z.of_nat (m + d) * x + geo (m + d)) - (5 ^ Z.of_nat m * x + geo m)
                  = 5 ^ Z.of_nat m * (geo d * (4 * x + 1))).
  { assert (A := geo_closed (m + d)). assert (B := geo_closed m). assert (C := geo_closed d).
    rewrite Nat2Z.inj_add, Z.pow_add_r in * by lia.
    set (a := 5 ^ Z.of_nat m) in *. set (b := 5 ^ Z.of_nat d) in *. nia. }
  assert (Hdiv : (size | 5 ^ Z.of_nat m * (geo d * (4 * x + 1)))).
  { rewrite <- Hdiff. apply Z.mod_divide; [lia|].
    rewrite Zminus_mod, <- Heq, Z.sub_diag. apply Z.mod_0_l. lia. }
  assert (H5 : forall k : nat, (5 ^ Z.of_nat k) mod 2 = 1).
  { intros k. induction k as [|k IHk]; [reflexivity|].
    rewrite Nat2Z.inj_succ, Z.pow_succ_r by lia.
    rewrite Z.mul_mod, IHk by lia. reflexivity. }
  apply Gauss in Hdiv; [|apply odd_rel_prime_pow2; [lia|apply H5]].
  rewrite Z.mul_comm in Hdiv.
  apply Gauss in Hdiv; [|apply odd_rel_prime_pow2; [lia|]].
  2:{ replace (4 * x + 1) with (1 + (2 * x) * 2) by ring. rewrite Z.mod_add by lia. reflexivity. }
  apply geo_div_pow2 in Hdiv. destruct Hdiv as [c Hc].
  assert (Hd0 : 0 < Z.of_nat d) by lia. fold size in Hc.
  assert (Hd1 : Z.of_nat d < size) by lia.
  assert (c <= 0 \/ 1 <= c) as [Hc0|Hc1] by lia; nia.
Qed.

(* every residue is met within 2^p steps *)
Theorem lcg_full_cycle (p : nat) x t :
  0 <= x < 2 ^ Z.of_nat p -> 0 <= t < 2 ^ Z.of_nat p ->
  exists k : nat, Z.of_nat k < 2 ^ Z.of_nat p /\ lcg_iter (2 ^ Z.of_nat p) k x = t.
Proof.
  intros Hx Ht. set (size := 2 ^ Z.of_nat p) in *.
  assert (Hs : 0 < size) by (apply Z.pow_pos_nonneg; lia).
  set (N := Z.to_nat size).
  set (orbit := map (fun k => lcg_iter size k x) (seq 0 N)).
  set (all := map Z.of_nat (seq 0 N)).
  assert (Hnd : NoDup orbit).
  { unfold orbit. apply NoDup_nth with (d := 0). rewrite map_length, seq_length. intros i j Hi Hj Hij.
    rewrite !(nth_indep _ 0 (lcg_iter size 0%nat x)) in Hij by (rewrite map_length, seq_length; lia).
    rewrite !map_nth with (d := 0%nat) in Hij. rewrite !seq_nth in Hij by lia. cbn [plus] in Hij.
    destruct (Nat.lt_trichotomy i j) as [Hlt|[Heq|Hgt]]; [|assumption|].
    - exfalso. eapply (lcg_iter_inj p x i j); try eassumption. unfold N in *. fold size. lia.
    - exfalso. eapply (lcg_iter_inj p x j i); try eassumption; [|symmetry; exact Hij]. unfold N in *. fold size. lia. }
  assert (Hincl : incl orbit all).
  { intros y Hy. unfold orbit in Hy. apply in_map_iff in Hy. destruct Hy as [k [<- Hk]].
    pose proof (lcg_iter_range size k x Hs Hx) as Hr.
    unfold all. apply in_map_iff. exists (Z.to_nat (lcg_iter size k x)). split; [lia|].
    apply in_seq. unfold N. lia. }
  assert (Hlen : (length all <= length orbit)%nat).
  { unfold all, orbit. rewrite !map_length, !seq_length. lia. }
  pose proof (NoDup_length_incl Hnd Hlen Hincl) as Hback.
  assert (Hin : In t all).
  { unfold all. apply in_map_iff. exists (Z.to_nat t). split; [lia|]. apply in_seq. unfold N. lia. }
  apply Hback in Hin. unfold orbit in Hin. apply in_map_iff in Hin. destruct Hin as [k [Hk Hks]].
  apply in_seq in Hks. exists k. split; [unfold N in Hks; lia|assumption].
Qed.
