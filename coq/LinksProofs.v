(* LinksProofs.v -- proofs about coq/Links.v (C08). *)
From Coq Require Import ZArith List Bool Lia.
From CgnsV Require Import ListX TreeDB TreeDBProofs Links.
Import ListNotations.
Local Open Scope Z_scope.

(* ===================================================================================================================
   1. cgio_find_file: the first existing candidate in the documented order
   =================================================================================================================== *)
Definition missing (d : disk) (ft : Z) (c : cand) : Prop := exists q, c = CPath q /\ exists_as d q ft = false.

Lemma first_hit_ok d ft cs p : first_hit d ft cs = FOk p ->
  exists pre post, cs = pre ++ CPath p :: post /\ exists_as d p ft = true /\ forall c, In c pre -> missing d ft c.
Proof.
  induction cs as [|c r IH]; cbn [first_hit]; [discriminate|].
  destruct c as [q|]; [|discriminate]. destruct (exists_as d q ft) eqn:E.
  - intros H. inversion H; subst q. exists [], r. repeat split; [assumption|intros c []].
  - intros H. destruct (IH H) as [pre [post [-> [He Hm]]]]. exists (CPath q :: pre), post. repeat split; [assumption|].
    intros c [<-|Hc]; [exists q; split; [reflexivity|assumption]|now apply Hm].
Qed.

Lemma first_hit_notfound d ft cs : first_hit d ft cs = FNotFound <-> forall c, In c cs -> missing d ft c.
Proof.
  induction cs as [|c r IH]; cbn [first_hit].
  - split; [intros _ c []|reflexivity].
  - destruct c as [q|].
    + destruct (exists_as d q ft) eqn:E.
      * split; [discriminate|]. intros H. destruct (H (CPath q) (or_introl eq_refl)) as [q' [Hq Hf]].
        inversion Hq; subst q'. congruence.
      * rewrite IH. split.
        -- intros H c [<-|Hc]; [exists q; split; [reflexivity|assumption]|now apply H].
        -- intros H c Hc. apply H. now right.
    + split; [discriminate|]. intros H. destruct (H CTooSmall (or_introl eq_refl)) as [q [Hq _]]. discriminate.
Qed.

Lemma first_hit_toosmall d ft cs : first_hit d ft cs = FTooSmall ->
  exists pre post, cs = pre ++ CTooSmall :: post /\ forall c, In c pre -> missing d ft c.
Proof.
  induction cs as [|c r IH]; cbn [first_hit]; [discriminate|].
  destruct c as [q|].
  - destruct (exists_as d q ft) eqn:E; [discriminate|]. intros H. destruct (IH H) as [pre [post [-> Hm]]].
    exists (CPath q :: pre), post. split; [reflexivity|].
    intros c [<-|Hc]; [exists q; split; [reflexivity|assumption]|now apply Hm].
  - intros _. exists [], r. split; [reflexivity|intros c []].
Qed.

Theorem search_order d e parent fn ft maxlen p : find_file d e parent fn ft maxlen = FOk p ->
  exists pre post, candidates e parent fn ft maxlen = pre ++ CPath p :: post /\ exists_as d p ft = true /\
                   forall c, In c pre -> missing d ft c.
Proof.
  unfold find_file. destruct (lenZ fn =? 0); [discriminate|]. destruct (maxlen - 1 - lenZ fn <? 0); [discriminate|].
  apply first_hit_ok.
Qed.

Theorem search_not_found d e parent fn ft maxlen : lenZ fn <> 0 -> lenZ fn <= maxlen - 1 ->
  (find_file d e parent fn ft maxlen = FNotFound <->
   forall c, In c (candidates e parent fn ft maxlen) -> missing d ft c).
Proof.
  intros H1 H2. unfold find_file. destruct (Z.eqb_spec (lenZ fn) 0); [contradiction|].
  destruct (Z.ltb_spec (maxlen - 1 - lenZ fn) 0); [lia|]. apply first_hit_notfound.
Qed.

(* the order itself, spelled out: an absolute name is tried alone; otherwise parent's directory, current directory,
   the type's environment variable, CGNS_LINK_PATH, then the cgio_path_add entries in order of addition *)
Theorem candidates_absolute e parent fn ft maxlen : hd 0 fn = 47 -> candidates e parent fn ft maxlen = [CPath fn].
Proof. intros H. unfold candidates. now rewrite H. Qed.

Theorem candidates_relative e parent fn ft maxlen : hd 0 fn <> 47 ->
  exists c1, (c1 = [] \/ exists dir, dir_of parent = Some dir /\ c1 = [CPath (dir ++ fn)]) /\
  candidates e parent fn ft maxlen =
    c1 ++ [CPath fn] ++ dir_cands (maxlen - 1 - lenZ fn - 1) fn (if ft =? 1 then e_adf e else if ft =? 2 then e_hdf e else [])
       ++ dir_cands (maxlen - 1 - lenZ fn - 1) fn (e_cgns e)
       ++ flat_map (dir_cands (maxlen - 1 - lenZ fn - 1) fn) (e_list e).
Proof.
  intros H. unfold candidates. destruct (Z.eqb_spec (hd 0 fn) 47); [contradiction|].
  eexists. split; [|reflexivity].
  destruct (nonempty parent && (lenZ parent <? maxlen - 1)); [|now left].
  destruct (dir_of parent) as [dir|] eqn:D; [|now left].
  destruct (lenZ dir <=? maxlen - 1 - lenZ fn); [|now left]. right. exists dir. split; reflexivity.
Qed.

(* ===================================================================================================================
   2. the chase loop: at most 101 turns, LINKS_TOO_DEEP exactly when the chain is longer than the limit
   =================================================================================================================== *)
Lemma chase_loop_S ch d e n depth s lk :
  chase_loop ch d e (S n) depth s lk =
  let '(s1, h) := hop ch d e s lk in
  match h with
  | Err x => (s1, Err x)
  | Ok None => (s1, Ok lk)
  | Ok (Some t) => if depth + 1 >? ADF_MAXIMUM_LINK_DEPTH then (s1, Err ETooDeep) else chase_loop ch d e n (depth + 1) s1 t
  end.
Proof. reflexivity. Qed.

(* more Coq fuel than 101 - link_depth is never used: the C counter alone stops the loop *)
Lemma loop_fuel_irrelevant ch d e : forall n m depth s lk,
  0 <= depth <= 100 -> (Z.to_nat (101 - depth) <= n)%nat -> (Z.to_nat (101 - depth) <= m)%nat ->
  chase_loop ch d e n depth s lk = chase_loop ch d e m depth s lk.
Proof.
  induction n as [|n IH]; intros m depth s lk Hd Hn Hm; [lia|]. destruct m as [|m]; [lia|].
  rewrite !chase_loop_S. destruct (hop ch d e s lk) as [s1 [[t|]|x]]; try reflexivity.
  unfold ADF_MAXIMUM_LINK_DEPTH. destruct (Z.gtb_spec (depth + 1) 100); [reflexivity|]. apply IH; lia.
Qed.

Definition no_stack (ch : chaser) : Prop := forall s i, snd (ch s i) <> Err EStack.

Lemma gni_walk_no_stack ch d : no_stack ch -> forall toks s cur, snd (gni_walk ch d s cur toks) <> Err EStack.
Proof.
  intros Hch. induction toks as [|t rest IH]; intros s cur; cbn [gni_walk]; [discriminate|].
  destruct (child_named d cur t) as [k|]; [|discriminate]. destruct rest as [|t2 rest]; [discriminate|].
  specialize (Hch s k). destruct (ch s k) as [s' [l|x]]; cbn [snd] in *; [apply IH|congruence].
Qed.

Lemma get_node_id_no_stack ch d s pid name : no_stack ch -> snd (get_node_id ch d s pid name) <> Err EStack.
Proof.
  intros Hch. unfold get_node_id. destruct (lenZ name =? 0); [discriminate|].
  destruct ((hd 0 name =? 47) && (lenZ name =? 1)); [discriminate|].
  destruct (tokens name) as [|t toks]; [discriminate|].
  set (start := if hd 0 name =? 47 then root_of pid else pid).
  pose proof (Hch s start) as H. destruct (ch s start) as [s1 [l|x]]; cbn [snd] in *; [now apply gni_walk_no_stack|congruence].
Qed.

Lemma hop_no_stack ch d e s lk : no_stack ch -> snd (hop ch d e s lk) <> Err EStack.
Proof.
  intros Hch. unfold hop. destruct (node_at d lk) as [r|]; [|discriminate].
  destruct (adf_link_of r) as [[file path]|]; [|discriminate].
  destruct (nonempty file).
  - destruct (find_file d e (fst lk) file 1 (ADF_FILENAME_LENGTH + 1)); try discriminate.
    pose proof (get_node_id_no_stack ch d (log_add s (fst lk) p) (p, root_uid) path Hch) as H.
    destruct (get_node_id ch d (log_add s (fst lk) p) (p, root_uid) path) as [s1 [t|x]]; cbn [snd] in *; [discriminate|].
    destruct x; cbn [snd]; congruence.
  - pose proof (get_node_id_no_stack ch d s (root_of lk) path Hch) as H.
    destruct (get_node_id ch d s (root_of lk) path) as [s1 [t|x]]; cbn [snd] in *; [discriminate|].
    destruct x; cbn [snd]; congruence.
Qed.

(* if the nested resolutions return, the loop returns: it cannot run out of its 101 turns *)
Lemma chase_loop_no_stack ch d e : no_stack ch -> forall n depth s lk,
  0 <= depth <= 100 -> (Z.to_nat (101 - depth) <= n)%nat -> snd (chase_loop ch d e n depth s lk) <> Err EStack.
Proof.
  intros Hch. induction n as [|n IH]; intros depth s lk Hd Hn; [lia|]. rewrite chase_loop_S.
  pose proof (hop_no_stack ch d e s lk Hch) as Hh.
  destruct (hop ch d e s lk) as [s1 [[t|]|x]]; cbn [snd] in *; [|discriminate|congruence].
  unfold ADF_MAXIMUM_LINK_DEPTH. destruct (Z.gtb_spec (depth + 1) 100); [discriminate|]. apply IH; lia.
Qed.

Theorem chase_returns v uc f d e : no_stack (chase v uc f d e) -> no_stack (chase v uc (S f) d e).
Proof.
  intros Hch s i. cbn [chase].
  assert (Hb : snd (let '(s', r) := chase_loop (chase v uc f d e) d e LOOP_FUEL 0 s i in
                    match r with
                    | Ok l => ((if uc && negb (nid_eqb l i) then mkRs (Some (i, l)) (r_log s') else s'), Ok l)
                    | Err x => (s', Err x)
                    end) <> Err EStack).
  { pose proof (chase_loop_no_stack _ d e Hch LOOP_FUEL 0 s i) as H.
    destruct (chase_loop (chase v uc f d e) d e LOOP_FUEL 0 s i) as [s' [l|x]]; cbn [snd] in *; [discriminate|].
    apply H; [lia|unfold LOOP_FUEL; lia]. }
  destruct (r_cache s) as [[k l]|]; [|exact Hb].
  destruct (uc && nid_eqb k i); [|exact Hb]. cbn [snd]. destruct (node_at d l); discriminate.
Qed.

(* following exactly k links from lk, each of which resolves *)
Fixpoint hops (ch : chaser) (d : disk) (e : env) (k : nat) (s : rs) (lk : nid) : option (rs * nid) :=
  match k with
  | O => Some (s, lk)
  | S k' => match hop ch d e s lk with (s', Ok (Some t)) => hops ch d e k' s' t | _ => None end
  end.

Lemma chase_loop_hops ch d e : forall k n depth s lk s' t,
  hops ch d e k s lk = Some (s', t) -> 0 <= depth -> depth + Z.of_nat k <= 100 ->
  chase_loop ch d e (k + n) depth s lk = chase_loop ch d e n (depth + Z.of_nat k) s' t.
Proof.
  induction k as [|k IH]; intros n depth s lk s' t Hh Hd Hk.
  - cbn in Hh. inversion Hh; subst. cbn [plus]. now rewrite Z.add_0_r.
  - cbn [hops] in Hh. cbn [plus]. rewrite chase_loop_S.
    destruct (hop ch d e s lk) as [s1 [[t1|]|x]]; try discriminate.
    unfold ADF_MAXIMUM_LINK_DEPTH. destruct (Z.gtb_spec (depth + 1) 100); [lia|].
    rewrite (IH n (depth + 1) s1 t1 s' t Hh); [f_equal; lia|lia|lia].
Qed.

(* a chain of k <= 100 links ending in a node that is not a link resolves to that node ... *)
Theorem chain_resolves ch d e k s i s' t s'' :
  hops ch d e k s i = Some (s', t) -> (k <= 100)%nat -> hop ch d e s' t = (s'', Ok None) ->
  chase_loop ch d e LOOP_FUEL 0 s i = (s'', Ok t).
Proof.
  intros Hh Hk Ht. replace LOOP_FUEL with (k + (101 - k))%nat by (unfold LOOP_FUEL; lia).
  rewrite (chase_loop_hops ch d e k _ 0 s i s' t Hh); [|lia|lia].
  destruct (101 - k)%nat as [|m] eqn:E; [lia|]. rewrite chase_loop_S, Ht. reflexivity.
Qed.

(* ... and 101 links that all resolve (a longer chain, or a cycle) give LINKS_TOO_DEEP, after exactly 101 turns *)
Theorem chain_too_deep ch d e s i s' t :
  hops ch d e 101 s i = Some (s', t) -> chase_loop ch d e LOOP_FUEL 0 s i = (s', Err ETooDeep).
Proof.
  intros Hh. change 101%nat with (100 + 1)%nat in Hh.
  assert (Hsplit : exists s1 t1, hops ch d e 100 s i = Some (s1, t1) /\ hop ch d e s1 t1 = (s', Ok (Some t))).
  { clear -Hh. revert s i Hh. generalize 100%nat as k. induction k as [|k IH]; intros s i Hh.
    - cbn in Hh. destruct (hop ch d e s i) as [s1 [[t1|]|x]] eqn:E; try discriminate. inversion Hh; subst.
      exists s, i. split; [reflexivity|assumption].
    - cbn [plus hops] in Hh. destruct (hop ch d e s i) as [s1 [[t1|]|x]] eqn:E; try discriminate.
      destruct (IH _ _ Hh) as [s2 [t2 [H1 H2]]]. exists s2, t2. split; [|assumption]. cbn [hops]. now rewrite E. }
  destruct Hsplit as [s1 [t1 [H1 H2]]].
  change LOOP_FUEL with (100 + 1)%nat. rewrite (chase_loop_hops ch d e 100 1 0 s i s1 t1 H1); [|lia|lia].
  rewrite chase_loop_S, H2. reflexivity.
Qed.

(* conversely LINKS_TOO_DEEP is reported only when the counter passed the limit -- 101 links were followed from the
   node asked for -- or when a nested resolution (a link met inside a stored path) reported it *)
Theorem too_deep_exact ch d e : forall n depth s lk s',
  chase_loop ch d e n depth s lk = (s', Err ETooDeep) -> 0 <= depth <= 100 ->
  (exists k t, hops ch d e (S k) s lk = Some (s', t) /\ depth + Z.of_nat (S k) = 101) \/
  (exists k sk tk, hops ch d e k s lk = Some (sk, tk) /\ hop ch d e sk tk = (s', Err ETooDeep)).
Proof.
  induction n as [|n IH]; intros depth s lk s' H Hd; [cbn in H; congruence|].
  rewrite chase_loop_S in H. destruct (hop ch d e s lk) as [s1 [[t|]|x]] eqn:E.
  - unfold ADF_MAXIMUM_LINK_DEPTH in H. destruct (Z.gtb_spec (depth + 1) 100).
    + inversion H; subst s1. left. exists 0%nat, t. split; [cbn [hops]; now rewrite E|lia].
    + destruct (IH _ _ _ _ H) as [[k [t' [Hh Hk]]]|[k [sk [tk [Hh Hk]]]]]; [lia| |].
      * left. exists (S k), t'. split; [cbn [hops] in *; now rewrite E|lia].
      * right. exists (S k), sk, tk. split; [cbn [hops]; now rewrite E|assumption].
  - congruence.
  - inversion H; subst. right. exists 0%nat, s, lk. split; [reflexivity|assumption].
Qed.

(* ===================================================================================================================
   3. chase and path walking call each other.  Old had NO counter for that recursion: a link whose stored path passes
      through the link itself exhausted every budget ("out of stack").  Cur counts the nested activations: the same
      link now fails with LINKS_TOO_DEEP, and NO world can make a resolution run out of stack.
   =================================================================================================================== *)
Definition fA : bytes := [97].                                  (* file "a" *)
Definition w_nest : disk :=                                     (* /L  ->  (same file) "/L/x" *)
  [mkD fA 1 (adf_root_table ++ [mkN 1 0 [76] [] s_LK [] [] (Some ([], [47; 76; 47; 120]))])].

Lemma oob_not_notfound v : oob v <> ENotFound.
Proof. destruct v; discriminate. Qed.

Lemma nest_hop_a ch s x : x <> ENotFound -> ch s (fA, 0) = (s, Err x) -> hop ch w_nest empty_env s (fA, 1) = (s, Err x).
Proof. intros Hx H. unfold fA in *. unfold hop. cbn. unfold root_of, root_uid. cbn. rewrite H. destruct x; try reflexivity. contradiction. Qed.

Lemma nest_hop_b ch s x : x <> ENotFound -> ch s (fA, 0) = (s, Ok (fA, 0)) -> ch s (fA, 1) = (s, Err x) ->
  hop ch w_nest empty_env s (fA, 1) = (s, Err x).
Proof.
  intros Hx H1 H2. unfold fA in *. unfold hop. cbn. unfold root_of, root_uid. cbn. rewrite H1. cbn. rewrite H2.
  destruct x; try reflexivity. contradiction.
Qed.

Lemma nest_root v uc f s : r_cache s = None -> chase v uc (S f) w_nest empty_env s (fA, 0) = (s, Ok (fA, 0)).
Proof.
  intros Hc. cbn [chase]. rewrite Hc. unfold LOOP_FUEL. rewrite chase_loop_S. unfold hop. cbn.
  rewrite andb_false_r. reflexivity.
Qed.

(* whatever the budget, the answer is "out of budget": a stack overflow for Old, LINKS_TOO_DEEP for Cur *)
Theorem nested_cycle_out_of_budget v uc : forall f s, r_cache s = None ->
  chase v uc f w_nest empty_env s (fA, 1) = (s, Err (oob v)).
Proof.
  induction f as [|f IH]; intros s Hc; [reflexivity|].
  cbn [chase]. rewrite Hc. unfold LOOP_FUEL. rewrite chase_loop_S.
  destruct f as [|f].
  - rewrite (nest_hop_a _ s (oob v)); [reflexivity|apply oob_not_notfound|reflexivity].
  - rewrite (nest_hop_b _ s (oob v)); [reflexivity|apply oob_not_notfound|now apply nest_root|now apply IH].
Qed.

(* TERMINATION for the current code: no world, no link graph, no state makes a resolution run out of stack *)
Theorem cur_never_out_of_stack uc d e : forall f, no_stack (chase Cur uc f d e).
Proof.
  induction f as [|f IH]; [intros s i; cbn; discriminate|]. now apply chase_returns.
Qed.

(* ===================================================================================================================
   4. what every resolution preserves; transparency
   =================================================================================================================== *)
Lemma lk_bytes_eqb_eq : forall a b, bytes_eqb a b = true <-> a = b.
Proof.
  induction a as [|x a IH]; destruct b as [|y b]; cbn; split; intros H; try reflexivity; try discriminate.
  - apply andb_true_iff in H. destruct H as [H1 H2]. apply Z.eqb_eq in H1. apply IH in H2. now subst.
  - inversion H; subst. rewrite Z.eqb_refl. cbn. now apply IH.
Qed.
Lemma nid_eqb_eq a b : nid_eqb a b = true <-> a = b.
Proof.
  destruct a as [fa ua], b as [fb ub]. unfold nid_eqb. cbn [fst snd]. rewrite andb_true_iff, lk_bytes_eqb_eq, Z.eqb_eq.
  split; [intros [-> ->]; reflexivity|intros H; inversion H; auto].
Qed.
Lemma nid_eqb_refl a : nid_eqb a a = true.
Proof. now apply nid_eqb_eq. Qed.

Definition nonlink (d : disk) (l : nid) : Prop := exists r, node_at d l = Some r /\ n_link r = None.
Definition islink (d : disk) (k : nid) : Prop := exists r fp, node_at d k = Some r /\ n_link r = Some fp.
(* the cache maps a link node to a node that is not a link *)
Definition cache_sane (d : disk) (s : rs) : Prop :=
  match r_cache s with Some (k, l) => islink d k /\ nonlink d l | None => True end.

Lemma adf_link_of_none r : adf_link_of r = None <-> n_link r = None.
Proof. unfold adf_link_of. destruct (n_link r) as [[f p]|]; split; intros H; try discriminate; reflexivity. Qed.

Definition pres (P : rs -> Prop) (Q : nid -> Prop) (ch : chaser) : Prop :=
  forall s i, P s -> P (fst (ch s i)) /\ forall l, snd (ch s i) = Ok l -> Q l.
Definition log_stable (P : rs -> Prop) : Prop := forall s a b, P s -> P (log_add s a b).

Lemma gni_walk_pres P Q ch d : pres P Q ch -> forall toks s cur, P s -> P (fst (gni_walk ch d s cur toks)).
Proof.
  intros Hch. induction toks as [|t rest IH]; intros s cur Hs; cbn [gni_walk]; [assumption|].
  destruct (child_named d cur t) as [k|]; [|assumption]. destruct rest as [|t2 rest]; [assumption|].
  destruct (Hch s k Hs) as [H1 _]. destruct (ch s k) as [s' [l|x]]; cbn [fst] in *; [now apply IH|assumption].
Qed.

Lemma get_node_id_pres P Q ch d s pid name : pres P Q ch -> P s -> P (fst (get_node_id ch d s pid name)).
Proof.
  intros Hch Hs. unfold get_node_id. destruct (lenZ name =? 0); [assumption|].
  destruct ((hd 0 name =? 47) && (lenZ name =? 1)); [assumption|].
  destruct (tokens name) as [|t toks]; [assumption|].
  set (start := if hd 0 name =? 47 then root_of pid else pid).
  destruct (Hch s start Hs) as [H1 _]. destruct (ch s start) as [s1 [l|x]]; cbn [fst] in *; [|assumption].
  now apply (gni_walk_pres P Q).
Qed.

Lemma hop_pres P Q ch d e s lk : pres P Q ch -> log_stable P -> P s ->
  P (fst (hop ch d e s lk)) /\ (snd (hop ch d e s lk) = Ok None -> nonlink d lk) /\
  (forall t, snd (hop ch d e s lk) = Ok (Some t) -> islink d lk).
Proof.
  intros Hch Hlog Hs. unfold hop. destruct (node_at d lk) as [r|] eqn:En; [|cbn; repeat split; [assumption|discriminate|discriminate]].
  destruct (adf_link_of r) as [[file path]|] eqn:El.
  - assert (Hil : islink d lk).
    { unfold adf_link_of in El. destruct (n_link r) as [fp|] eqn:E; [|discriminate]. exists r, fp. split; assumption. }
    destruct (nonempty file).
    + destruct (find_file d e (fst lk) file 1 (ADF_FILENAME_LENGTH + 1)); try (cbn; repeat split; [assumption|discriminate|discriminate]).
      pose proof (get_node_id_pres P Q ch d (log_add s (fst lk) p) (p, root_uid) path Hch (Hlog _ _ _ Hs)) as H.
      destruct (get_node_id ch d (log_add s (fst lk) p) (p, root_uid) path) as [s1 [t|x]]; cbn [fst snd] in *.
      * repeat split; [assumption|discriminate|intros; assumption].
      * destruct x; cbn; repeat split; try assumption; discriminate.
    + pose proof (get_node_id_pres P Q ch d s (root_of lk) path Hch Hs) as H.
      destruct (get_node_id ch d s (root_of lk) path) as [s1 [t|x]]; cbn [fst snd] in *.
      * repeat split; [assumption|discriminate|intros; assumption].
      * destruct x; cbn; repeat split; try assumption; discriminate.
  - cbn. repeat split; [assumption| |discriminate]. intros _. exists r. split; [assumption|now apply adf_link_of_none].
Qed.

Lemma chase_loop_pres P Q ch d e : pres P Q ch -> log_stable P -> forall n depth s lk, P s ->
  P (fst (chase_loop ch d e n depth s lk)) /\
  forall l, snd (chase_loop ch d e n depth s lk) = Ok l -> nonlink d l /\ (l <> lk -> islink d lk).
Proof.
  intros Hch Hlog. induction n as [|n IH]; intros depth s lk Hs; [cbn; split; [assumption|discriminate]|].
  rewrite chase_loop_S. destruct (hop_pres P Q ch d e s lk Hch Hlog Hs) as [H1 [H2 H3]].
  destruct (hop ch d e s lk) as [s1 [[t|]|x]]; cbn [fst snd] in *.
  - destruct (depth + 1 >? ADF_MAXIMUM_LINK_DEPTH); [cbn; split; [assumption|discriminate]|].
    destruct (IH (depth + 1) s1 t H1) as [I1 I2]. split; [assumption|]. intros l Hl. destruct (I2 l Hl) as [J1 _].
    split; [assumption|]. intros _. now apply (H3 t).
  - split; [assumption|]. intros l Hl. inversion Hl; subst l. split; [now apply H2|congruence].
  - split; [assumption|discriminate].
Qed.

Lemma cache_sane_initially d : cache_sane d rs0.
Proof. exact I. Qed.

Lemma cache_sane_log d : log_stable (cache_sane d).
Proof. intros s a b H. exact H. Qed.

Theorem chase_pres v uc d e : forall f, pres (cache_sane d) (nonlink d) (chase v uc f d e).
Proof.
  induction f as [|f IH]; intros s i Hs; [cbn; split; [assumption|discriminate]|].
  cbn [chase].
  assert (Hb : let x := (let '(s', r) := chase_loop (chase v uc f d e) d e LOOP_FUEL 0 s i in
                    match r with
                    | Ok l => ((if uc && negb (nid_eqb l i) then mkRs (Some (i, l)) (r_log s') else s'), Ok l)
                    | Err x => (s', Err x)
                    end) in cache_sane d (fst x) /\ forall l, snd x = Ok l -> nonlink d l).
  { destruct (chase_loop_pres _ _ _ d e IH (cache_sane_log d) LOOP_FUEL 0 s i Hs) as [H1 H2].
    destruct (chase_loop (chase v uc f d e) d e LOOP_FUEL 0 s i) as [s' [l|x]]; cbn [fst snd] in *; [|split; [assumption|discriminate]].
    destruct (H2 l eq_refl) as [Hn Hi]. split; [|intros l0 H0; inversion H0; now subst].
    destruct (uc && negb (nid_eqb l i)) eqn:E; [|assumption].
    apply andb_true_iff in E. destruct E as [_ E]. unfold cache_sane. cbn [r_cache]. split; [|assumption].
    apply Hi. intros ->. now rewrite nid_eqb_refl in E. }
  cbv zeta in Hb. destruct (r_cache s) as [[k l]|] eqn:Ec; [|exact Hb].
  destruct (uc && nid_eqb k i); [|exact Hb]. cbn [fst snd]. split; [assumption|].
  intros l0 H0. unfold cache_sane in Hs. rewrite Ec in Hs. destruct Hs as [_ [r [Hr Hl]]].
  rewrite Hr in H0. inversion H0; subst l0. exists r. split; assumption.
Qed.

(* TRANSPARENT: whatever is read through a node that resolves is read from a node that is not a link -- the target --
   and equals that node's own attribute *)
Theorem adf_transparent v uc fuel d e s i what s' val :
  cache_sane d s -> adf_get v uc fuel d e s i what = (s', AVal val) -> what <> 0 -> what <> 4 -> what <> 5 ->
  exists l, chase v uc fuel d e s i = (s', Ok l) /\ nonlink d l /\ val = node_attr d l what /\ cache_sane d s'.
Proof.
  intros Hs H H0 H4 H5. unfold adf_get in H. destruct (node_at d i) as [r|]; [|discriminate].
  destruct (Z.eqb_spec what 0); [contradiction|]. destruct (Z.eqb_spec what 4); [contradiction|].
  destruct (Z.eqb_spec what 5); [contradiction|].
  destruct (chase_pres v uc d e fuel s i Hs) as [P1 P2].
  destruct (chase v uc fuel d e s i) as [s1 [l|x]]; [|discriminate]. inversion H; subst. exists l.
  repeat split; [now apply P2|assumption].
Qed.

(* a direct read of a node that is not a link never goes anywhere else (so "the target's own attribute" above is
   what a direct read of the target returns in the same session) *)
Theorem adf_direct v uc f d e s l what : cache_sane d s -> nonlink d l -> what <> 0 -> what <> 4 -> what <> 5 ->
  adf_get v uc (S f) d e s l what = (s, AVal (node_attr d l what)).
Proof.
  intros Hs [r [Hr Hl]] H0 H4 H5. unfold adf_get. rewrite Hr.
  destruct (Z.eqb_spec what 0); [contradiction|]. destruct (Z.eqb_spec what 4); [contradiction|].
  destruct (Z.eqb_spec what 5); [contradiction|].
  assert (Hc : chase v uc (S f) d e s l = (s, Ok l)).
  { cbn [chase].
    assert (Hb : (let '(s', r0) := chase_loop (chase v uc f d e) d e LOOP_FUEL 0 s l in
                  match r0 with
                  | Ok l0 => ((if uc && negb (nid_eqb l0 l) then mkRs (Some (l, l0)) (r_log s') else s'), Ok l0)
                  | Err x => (s', Err x)
                  end) = (s, Ok l)).
    { unfold LOOP_FUEL. rewrite chase_loop_S. unfold hop. rewrite Hr.
      replace (adf_link_of r) with (@None (bytes * bytes)) by (symmetry; now apply adf_link_of_none).
      rewrite nid_eqb_refl, andb_false_r. reflexivity. }
    destruct (r_cache s) as [[k l0]|] eqn:Ec; [|exact Hb].
    destruct (nid_eqb k l) eqn:Ek; [|rewrite andb_false_r; exact Hb].
    apply nid_eqb_eq in Ek. subst k. unfold cache_sane in Hs. rewrite Ec in Hs.
    destruct Hs as [[r1 [fp [Hr1 Hfp]]] _]. congruence. }
  rewrite Hc. reflexivity.
Qed.

(* link queries: the stored pair comes back when the file name does not contain the separator '>' *)
Lemma split_first_notin sep s : forall acc, ~ In sep s -> split_first sep s acc = None.
Proof.
  induction s as [|c r IH]; intros acc H; cbn [split_first]; [reflexivity|].
  destruct (Z.eqb_spec c sep); [exfalso; apply H; now left|]. apply IH. intros Hi. apply H. now right.
Qed.
Lemma split_first_app sep a b : forall acc, ~ In sep a -> split_first sep (a ++ sep :: b) acc = Some (acc ++ a, b).
Proof.
  induction a as [|c r IH]; intros acc H; cbn [app split_first].
  - rewrite Z.eqb_refl, app_nil_r. reflexivity.
  - destruct (Z.eqb_spec c sep); [exfalso; apply H; now left|]. rewrite IH; [|intros Hi; apply H; now right].
    rewrite <- app_assoc. reflexivity.
Qed.

Theorem link_query_roundtrip file path : adf_file_ok file = true -> ~ In 62 file ->
  adf_get_link (adf_link_data file path) = (file, path).
Proof.
  intros Hok Hn. unfold adf_link_data. rewrite Hok. unfold adf_get_link. cbn [app].
  rewrite (split_first_app 62 file path [] Hn). cbn [app].
  unfold adf_file_ok in Hok. apply andb_true_iff in Hok. destruct Hok as [Hok _]. apply andb_true_iff in Hok.
  destruct Hok as [Hok _]. destruct (Z.eqb_spec (lenZ file) 0); [apply Z.leb_le in Hok; lia|reflexivity].
Qed.

Theorem link_query_same_file path : adf_get_link (adf_link_data [] path) = ([], path).
Proof.
  reflexivity.
Qed.

(* ... and does not when it does: "a>b.cgns" + "/T" is stored as "a>b.cgns>/T" and read back as ("a", "b.cgns>/T") *)
Theorem link_query_separator_refuted : exists file path,
  adf_file_ok file = true /\ adf_get_link (adf_link_data file path) <> (file, path).
Proof. exists [97; 62; 98], [47; 84]. split; [reflexivity|vm_compute; discriminate]. Qed.

(* ===================================================================================================================
   5. non-owning: deleting / re-creating a link touches one record of one file
   =================================================================================================================== *)
Lemma disk_get_set_same d f : disk_get (disk_set d f) (d_path f) = Some f.
Proof.
  induction d as [|g r IH]; cbn [disk_set disk_get].
  - replace (bytes_eqb (d_path f) (d_path f)) with true by (symmetry; now apply lk_bytes_eqb_eq). reflexivity.
  - destruct (bytes_eqb (d_path g) (d_path f)) eqn:E; cbn [disk_get].
    + replace (bytes_eqb (d_path f) (d_path f)) with true by (symmetry; now apply lk_bytes_eqb_eq). reflexivity.
    + rewrite E. exact IH.
Qed.
Lemma disk_get_set_other d f g : g <> d_path f -> disk_get (disk_set d f) g = disk_get d g.
Proof.
  intros H. induction d as [|x r IH]; cbn [disk_set disk_get].
  - destruct (bytes_eqb (d_path f) g) eqn:E; [apply lk_bytes_eqb_eq in E; congruence|reflexivity].
  - destruct (bytes_eqb (d_path x) (d_path f)) eqn:E; cbn [disk_get].
    + apply lk_bytes_eqb_eq in E. destruct (bytes_eqb (d_path f) g) eqn:E1; [apply lk_bytes_eqb_eq in E1; congruence|].
      destruct (bytes_eqb (d_path x) g) eqn:E2; [apply lk_bytes_eqb_eq in E2; congruence|reflexivity].
    + destruct (bytes_eqb (d_path x) g); [reflexivity|exact IH].
Qed.

(* whatever the operation and its outcome, a mutation of file f leaves every other file of the world alone; and a
   failed one changes nothing at all *)
Theorem mutate_other_files v s f o s' r : adf_mutate v s f o = (s', r) ->
  forall g, g <> f -> disk_get (a_disk s') g = disk_get (a_disk s) g.
Proof.
  unfold adf_mutate. destruct (negb (file_open s f)); [intros H; inversion H; reflexivity|].
  destruct (disk_get (a_disk s) f) as [df|]; [|intros H; inversion H; reflexivity].
  destruct (step_table false (d_tab df) o) as [t' r0]. intros H g Hg.
  assert (Hd : forall d', d' = disk_set (a_disk s) (mkD f (d_type df) t') -> disk_get d' g = disk_get (a_disk s) g).
  { intros d' ->. apply disk_get_set_other. exact Hg. }
  destruct r0; try (inversion H; reflexivity);
    destruct o; cbn in H;
    repeat match type of H with
           | context [add_child_effect ?a ?b ?c] => destruct (add_child_effect a b c)
           | context [find_node ?a ?b] => destruct (find_node a b)
           | context [if ?c then _ else _] => destruct c
           | context [match v with Old => _ | Cur => _ end] => destruct v
           end; inversion H; cbn [a_disk with_disk]; now apply Hd.
Qed.

Theorem mutate_failure_changes_nothing v s f o s' : adf_mutate v s f o = (s', RErr) -> s' = s.
Proof.
  unfold adf_mutate. destruct (negb (file_open s f)); [intros H; now inversion H|].
  destruct (disk_get (a_disk s) f) as [df|]; [|intros H; now inversion H].
  destruct (step_table false (d_tab df) o) as [t' r0]. intros H.
  destruct r0; try (now inversion H);
    destruct o; cbn in H;
    repeat match type of H with
           | context [add_child_effect ?a ?b ?c] => destruct (add_child_effect a b c)
           | context [find_node ?a ?b] => destruct (find_node a b)
           | context [if ?c then _ else _] => destruct c
           | context [match v with Old => _ | Cur => _ end] => destruct v
           end; inversion H.
Qed.

Lemma leaf_fold t u : (forall r, In r t -> n_parent r <> u) ->
  fold_left (fun a r => if existsb (Z.eqb (n_parent r)) a && negb (existsb (Z.eqb (n_uid r)) a) then a ++ [n_uid r] else a) t [u] = [u].
Proof.
  intros H. induction t as [|x r IH]; cbn [fold_left]; [reflexivity|].
  cbn [existsb]. destruct (Z.eqb_spec (n_parent x) u) as [E|E]; [exfalso; apply (H x); [now left|assumption]|].
  cbn [orb andb]. apply IH. intros y Hy. apply H. now right.
Qed.

Lemma descendants_leaf t u : children t u = [] -> descendants t u = [u].
Proof.
  intros Hc. unfold descendants.
  assert (Hp : forall r, In r t -> n_parent r <> u).
  { intros r Hr E. assert (In r (children t u)) by (unfold children; apply filter_In; split; [assumption|now apply Z.eqb_eq]).
    rewrite Hc in H. contradiction. }
  generalize (length t) as fuel. induction fuel as [|fuel IH]; cbn [subtree_uids]; [reflexivity|].
  rewrite leaf_fold; [exact IH|exact Hp].
Qed.

(* deleting a link node (a leaf of its own table: nothing can be created below a link) removes exactly that record:
   every other node of every file -- the target and everything under it included -- is the record it was, child
   lists lose the link and nothing else, and the resolution cache is cleared *)
Theorem delete_link_non_owning v s f p u s' df r :
  disk_get (a_disk s) f = Some df -> find_node (d_tab df) u = Some r -> is_link r = true -> children (d_tab df) u = [] ->
  adf_mutate v s f (ODelete p u) = (s', ROk) ->
  a_cache s' = None /\
  (forall g, g <> f -> disk_get (a_disk s') g = disk_get (a_disk s) g) /\
  (exists df', disk_get (a_disk s') f = Some df' /\
     (forall v r0, v <> u -> find_node (d_tab df) v = Some r0 -> find_node (d_tab df') v = Some r0) /\
     find_node (d_tab df') u = None /\
     (forall q, children (d_tab df') q = filter (fun x => negb (n_uid x =? u)) (children (d_tab df) q))).
Proof.
  intros Hg Hf Hl Hc H. pose proof (mutate_other_files _ _ _ _ _ _ H) as Hother.
  unfold adf_mutate in H. destruct (negb (file_open s f)); [discriminate|].
  rewrite Hg in H. destruct (step_table false (d_tab df) (ODelete p u)) as [t' r0] eqn:Es.
  destruct r0; try discriminate; inversion H; subst s'; clear H. cbn [a_cache a_disk].
  split; [reflexivity|]. split; [exact Hother|].
  exists (mkD f (d_type df) t'). split; [apply (disk_get_set_same (a_disk s) (mkD f (d_type df) t'))|]. cbn [d_tab].
  destruct (delete_frame false _ _ _ _ Es) as [D1 [D2 D3]]. rewrite (descendants_leaf _ _ Hc) in *.
  split; [|split].
  - intros w r1 Hv Hr1. apply D1; [assumption|]. intros [E|[]]. congruence.
  - apply D2. now left.
  - intros q. rewrite D3. apply filter_ext. intros x. cbn [existsb]. now rewrite orb_false_r.
Qed.

(* creating a link appends one record; nothing else -- in this file or any other -- changes *)
Theorem link_frame pol t p u nm file path t' : step_table pol t (OLink p u nm file path) = (t', ROk) ->
  (forall v, v <> u -> find_node t' v = find_node t v) /\
  find_node t' u = Some (mkN u p nm [] s_LK [] [] (Some (file, path))) /\
  children t' p = children t p ++ [mkN u p nm [] s_LK [] [] (Some (file, path))] /\
  (forall q, q <> p -> children t' q = children t q).
Proof.
  cbn [step_table]. unfold op_link. destruct (find_node t p) as [pr|]; [|discriminate].
  destruct (find_node t u) eqn:Eu; [discriminate|].
  destruct (name_ok nm && negb (is_link pr) && (1 <=? lenZ path)); [|discriminate].
  destruct (find_child (children t p) nm); [discriminate|]. intros H. inversion H; subst t'. clear H.
  split; [|split; [|split]].
  - intros v Hv. rewrite find_app. destruct (find_node t v); [reflexivity|]. cbn [find_node n_uid].
    destruct (Z.eqb_spec u v); [congruence|reflexivity].
  - rewrite find_app, Eu. cbn [find_node n_uid]. now rewrite Z.eqb_refl.
  - rewrite children_app. f_equal. unfold children. cbn [filter n_parent]. now rewrite Z.eqb_refl.
  - intros q Hq. rewrite children_app. unfold children at 2. cbn [filter n_parent].
    destruct (Z.eqb_spec p q); [congruence|]. apply app_nil_r.
Qed.

(* ===================================================================================================================
   6. dangling links fail cleanly; reads never change the world
   =================================================================================================================== *)
Definition cache_misses (s : rs) (i : nid) : Prop :=
  match r_cache s with Some (k, _) => nid_eqb k i = false | None => True end.

Lemma chase_miss v uc f d e s i : cache_misses s i ->
  chase v uc (S f) d e s i =
  let '(s', r) := chase_loop (chase v uc f d e) d e LOOP_FUEL 0 s i in
  match r with
  | Ok l => ((if uc && negb (nid_eqb l i) then mkRs (Some (i, l)) (r_log s') else s'), Ok l)
  | Err x => (s', Err x)
  end.
Proof.
  intros H. cbn [chase]. unfold cache_misses in H. destruct (r_cache s) as [[k l]|]; [|reflexivity].
  rewrite H, andb_false_r. reflexivity.
Qed.

(* the file named by the link is nowhere on the search path: LINKED_TO_FILE_NOT_THERE, state untouched *)
Theorem dangling_file v uc f d e s i r file path :
  node_at d i = Some r -> adf_link_of r = Some (file, path) -> nonempty file = true ->
  (forall p, find_file d e (fst i) file 1 (ADF_FILENAME_LENGTH + 1) <> FOk p) -> cache_misses s i ->
  chase v uc (S f) d e s i = (s, Err ELinkFile).
Proof.
  intros Hn Hl Hf Hff Hm. rewrite chase_miss by assumption. unfold LOOP_FUEL. rewrite chase_loop_S. unfold hop.
  rewrite Hn, Hl, Hf. destruct (find_file d e (fst i) file 1 (ADF_FILENAME_LENGTH + 1)) eqn:E; try reflexivity.
  exfalso. now apply (Hff p).
Qed.

(* the file is there (or the link is local) but the path names no node: LINK_TARGET_NOT_THERE *)
Theorem dangling_path v uc f d e s i r file path s0 root s1 :
  node_at d i = Some r -> adf_link_of r = Some (file, path) ->
  (if nonempty file then exists p, find_file d e (fst i) file 1 (ADF_FILENAME_LENGTH + 1) = FOk p /\
                                  s0 = log_add s (fst i) p /\ root = (p, root_uid)
   else s0 = s /\ root = root_of i) ->
  get_node_id (chase v uc f d e) d s0 root path = (s1, Err ENotFound) -> cache_misses s i ->
  chase v uc (S f) d e s i = (s1, Err ELinkTarget).
Proof.
  intros Hn Hl Hr Hg Hm. rewrite chase_miss by assumption. unfold LOOP_FUEL. rewrite chase_loop_S. unfold hop.
  rewrite Hn, Hl. destruct (nonempty file).
  - destruct Hr as [p [Hp [-> ->]]]. rewrite Hp, Hg. reflexivity.
  - destruct Hr as [-> ->]. rewrite Hg. reflexivity.
Qed.

Theorem read_changes_no_file v fuel s i what : a_disk (fst (adf_read v fuel s i what)) = a_disk s.
Proof. unfold adf_read. destruct (negb (file_open s (fst i))); [reflexivity|]. destruct (adf_get v true fuel (a_disk s) (a_env s) (mkRs (a_cache s) []) i what). reflexivity. Qed.
Theorem lookup_changes_no_file v fuel s i name : a_disk (fst (adf_lookup v fuel s i name)) = a_disk s.
Proof. unfold adf_lookup. destruct (negb (file_open s (fst i))); [reflexivity|]. destruct (lookup v true fuel (a_disk s) (a_env s) (mkRs (a_cache s) []) i name). reflexivity. Qed.

(* a failing read through a link answers with an error value, never with data *)
Theorem dangling_read_is_error v uc fuel d e s i what s' x : what <> 0 -> what <> 4 -> what <> 5 ->
  chase v uc fuel d e s i = (s', Err x) -> node_at d i <> None -> adf_get v uc fuel d e s i what = (s', AErr x).
Proof.
  intros H0 H4 H5 Hc Hn. unfold adf_get. destruct (node_at d i); [|contradiction].
  destruct (Z.eqb_spec what 0); [contradiction|]. destruct (Z.eqb_spec what 4); [contradiction|].
  destruct (Z.eqb_spec what 5); [contradiction|]. rewrite Hc. reflexivity.
Qed.

(* ===================================================================================================================
   7. the one-entry cache and the rename: Old kept the cached answer (stale), Cur clears the cache
   =================================================================================================================== *)
Definition s_of (r : ast * result) : ast := fst r.
Definition bA : bytes := [65].  Definition bB : bytes := [66].  Definition bC : bytes := [67].
Definition stale_session (v : ver) : ast :=
  let s1 := s_of (adf_open ast0 fA true) in
  let s2 := s_of (adf_mutate v s1 fA (OCreate 0 1 bA)) in
  let s3 := s_of (adf_mutate v s2 fA (OCreate 1 2 bB)) in
  let s4 := s_of (adf_mutate v s3 fA (OLabel 2 [76; 98])) in
  let s5 := s_of (adf_mutate v s4 fA (OLink 0 3 [76] [] [47; 65; 47; 66])) in   (* /L -> /A/B *)
  let s6 := fst (adf_read v 8 s5 (fA, 3) 1) in                                   (* read the label through L *)
  s_of (adf_mutate v s6 fA (ORename 1 2 bC)).                                    (* rename B to C *)

Theorem cache_old_refuted :
  snd (adf_read Old 8 (stale_session Old) (fA, 3) 1) = AVal (RBytes [76; 98]) /\       (* the cached answer: B's label *)
  resolve Old 8 (a_disk (stale_session Old)) (a_env (stale_session Old)) (fA, 3) = Err ELinkTarget.
Proof. split; vm_compute; reflexivity. Qed.

(* the same history on the current code: the rename cleared the cache, the link is reported dangling *)
Example cache_cleared_by_rename :
  a_cache (stale_session Cur) = None /\ snd (adf_read Cur 100 (stale_session Cur) (fA, 3) 1) = AErr ELinkTarget.
Proof. split; vm_compute; reflexivity. Qed.

(* the same history with a delete + re-create of the target instead of the rename: the cache was always cleared *)
Example cache_cleared_by_delete : forall v,
  let s1 := s_of (adf_open ast0 fA true) in
  let s2 := s_of (adf_mutate v s1 fA (OCreate 0 1 bA)) in
  let s3 := s_of (adf_mutate v s2 fA (OCreate 1 2 bB)) in
  let s5 := s_of (adf_mutate v s3 fA (OLink 0 3 [76] [] [47; 65; 47; 66])) in
  let s6 := fst (adf_read v 8 s5 (fA, 3) 1) in
  let s7 := s_of (adf_mutate v s6 fA (ODelete 1 2)) in
  a_cache s6 = Some ((fA, 3), (fA, 2)) /\ a_cache s7 = None /\ snd (adf_read v 8 s7 (fA, 3) 1) = AErr ELinkTarget.
Proof. intros [|]; vm_compute; repeat split. Qed.

(* ===================================================================================================================
   8. implicitly opened files: ADFI_close_file
   =================================================================================================================== *)
(* finding #9: B holds the target, A links to B, C links to A.  A and C are opened by the caller and read through;
   with Old, closing C closed B although A -- still open -- links to it *)
Definition fB : bytes := [98].  Definition fC : bytes := [99].
Definition three_files : slots :=
  let '(s1, _) := slot_open [] fA in
  let '(s2, _) := slot_open s1 fC in
  let s3 := slots_apply s2 [(fA, fB)] in                     (* read through A's link: opens B *)
  slots_apply s3 [(fC, fA); (fA, fB)].                       (* read through C's link: A found, then B found *)

Theorem close_old_refuted :
  exists sl', slot_close Old 8 three_files 1 = Some (sl', true) /\         (* closing C ... *)
    sl_use (nthZ sl' 0 free_slot) = 1 /\ In 2 (sl_links (nthZ sl' 0 free_slot)) /\   (* ... A is open and lists B ... *)
    sl_use (nthZ three_files 2 free_slot) = 1 /\ sl_use (nthZ sl' 2 free_slot) = 0.  (* ... B has been closed *)
Proof. eexists. vm_compute. repeat split; try reflexivity. now left. Qed.

(* the current code on the same state: closing C releases C's reference on A and nothing else; B goes only with A *)
Example close_cur_three_files :
  exists sl' sl'', slot_close Cur 8 three_files 1 = Some (sl', true) /\
    sl_use (nthZ sl' 0 free_slot) = 1 /\ sl_use (nthZ sl' 2 free_slot) = 1 /\
    slot_close Cur 8 sl' 0 = Some (sl'', true) /\ sl_use (nthZ sl'' 2 free_slot) = 0.
Proof. eexists. eexists. vm_compute. repeat split; reflexivity. Qed.

(* THE REPAIR, for every state: while a file has another reference, closing it only drops that one reference -- no
   file it links to is touched, nothing is closed, the cache is kept *)
Theorem close_keeps_linked_files : forall fuel sl k x,
  0 <= k < lenZ sl -> x = nthZ sl k free_slot -> 1 < sl_use x ->
  slot_close Cur (S fuel) sl k = Some (updZ sl k (mkSl (sl_name x) (sl_use x - 1) (sl_links x)), false).
Proof.
  intros fuel sl k x Hk -> Hu. cbn [slot_close].
  destruct (Z.ltb_spec k 0); [lia|]. destruct (Z.leb_spec (lenZ sl) k); [lia|].
  destruct (Z.eqb_spec (sl_use (nthZ sl k free_slot)) 0); [lia|]. cbn [orb].
  destruct (Z.eqb_spec (sl_use (nthZ sl k free_slot) - 1) 0); [lia|reflexivity].
Qed.

(* two files that link to each other: Old's close recursion had no base case *)
Definition mutual_files : slots :=
  let '(s1, _) := slot_open [] fA in
  slots_apply s1 [(fA, fB); (fB, fA)].                       (* A:/LA -> B:/LB -> A:/T, read once *)

Theorem close_recursion_old_refuted : forall fuel,
  slot_close Old fuel mutual_files 0 = None /\ slot_close Old fuel mutual_files 1 = None.
Proof.
  induction fuel as [|fuel [IH0 IH1]]; [split; reflexivity|].
  split.
  - change (slot_close Old (S fuel) mutual_files 0 = None). cbn [slot_close].
    replace (nthZ mutual_files 0 free_slot) with (mkSl fA 2 [1]) by (vm_compute; reflexivity).
    replace ((0 <? 0) || (lenZ mutual_files <=? 0) || (sl_use (mkSl fA 2 [1]) =? 0)) with false by (vm_compute; reflexivity).
    cbn [sl_links fold_left]. rewrite IH1. reflexivity.
  - change (slot_close Old (S fuel) mutual_files 1 = None). cbn [slot_close].
    replace (nthZ mutual_files 1 free_slot) with (mkSl fB 1 [0]) by (vm_compute; reflexivity).
    replace ((1 <? 0) || (lenZ mutual_files <=? 1) || (sl_use (mkSl fB 1 [0]) =? 0)) with false by (vm_compute; reflexivity).
    cbn [sl_links fold_left]. rewrite IH0. reflexivity.
Qed.

(* the current code returns at once: the caller's reference goes, the two files keep each other open (a leak, C17) *)
Example close_cur_mutual :
  exists sl', slot_close Cur 1 mutual_files 0 = Some (sl', false) /\
    sl_use (nthZ sl' 0 free_slot) = 1 /\ sl_use (nthZ sl' 1 free_slot) = 1.
Proof. eexists. vm_compute. repeat split; reflexivity. Qed.

(* ===================================================================================================================
   9. ADFH: Old followed one hop only; Cur repeats the hop up to the depth limit.  Stored paths through links and the
      search path are still not handled (known findings).
   =================================================================================================================== *)
Lemma is_link_false r : n_link r = None -> is_link r = false.
Proof. unfold is_link. now intros ->. Qed.
Lemma is_link_false_inv r : is_link r = false -> n_link r = None.
Proof. unfold is_link. destruct (n_link r); [discriminate|reflexivity]. Qed.

Lemma child_named_exists d i nm k : child_named d i nm = Some k -> exists r, node_at d k = Some r.
Proof.
  unfold child_named, kids_at, node_at. destruct (disk_get d (fst i)) as [f|] eqn:E; [|cbn; discriminate].
  destruct (find_child (children (d_tab f) (snd i)) nm) as [r|] eqn:Ef; [|discriminate]. intros H. inversion H; subst k. cbn [fst snd].
  rewrite E. clear H. unfold children in Ef.
  assert (Hin : In r (d_tab f)).
  { clear E. induction (d_tab f) as [|x t IH]; cbn [filter find_child] in Ef; [discriminate|].
    destruct (n_parent x =? snd i); [|right; now apply IH]. cbn [find_child] in Ef.
    destruct (bytes_eqb (n_name x) nm); [inversion Ef; now left|right; now apply IH]. }
  clear Ef. induction (d_tab f) as [|x t IH]; [contradiction|]. cbn [find_node].
  destruct (Z.eqb_spec (n_uid x) (n_uid r)) as [E1|E1]; [eauto|]. destruct Hin as [->|Hin]; [contradiction|now apply IH].
Qed.

Lemma raw_walk_exists d : forall toks cur t, raw_walk d cur toks = Some t -> exists r, node_at d t = Some r.
Proof.
  induction toks as [|x rest IH]; intros cur t; cbn [raw_walk].
  - destruct (node_at d cur) as [r|] eqn:E; [|discriminate]. intros H. inversion H; subst. eauto.
  - destruct (child_named d cur x) as [k|]; [apply IH|discriminate].
Qed.

Lemma open_link_1_exists d i l : h5_open_link_1 d i = Ok l -> exists r, node_at d l = Some r.
Proof.
  unfold h5_open_link_1. destruct (node_at d i) as [r|] eqn:E; [|discriminate].
  destruct (n_link r) as [[file path]|]; [|intros H; inversion H; subst; eauto].
  destruct (if nonempty file then match h5_first d (h5_cands (fst i) file) with Some p => Some (p, root_uid) | None => None end
            else Some (root_of i)) as [rt|]; [|discriminate].
  destruct (raw_walk d rt (tokens path)) as [t|] eqn:Ew; [|discriminate]. intros H. inversion H; subst.
  now apply (raw_walk_exists d _ _ _ Ew).
Qed.

Lemma h5_follow_nonlink d : forall n depth l t, (exists r, node_at d l = Some r) -> h5_follow n depth d l = Ok t -> nonlink d t.
Proof.
  induction n as [|n IH]; intros depth l t Hl; cbn [h5_follow]; [discriminate|].
  destruct (h5_is_link d l) eqn:E.
  - destruct (depth + 1 >=? ADF_MAXIMUM_LINK_DEPTH); [discriminate|].
    destruct (h5_open_link_1 d l) as [l'|x] eqn:Eo; [|discriminate]. apply IH. now apply (open_link_1_exists d l).
  - intros H. inversion H; subst t. destruct Hl as [r Hr]. exists r. split; [assumption|].
    unfold h5_is_link in E. rewrite Hr in E. now apply is_link_false_inv.
Qed.

(* the loop of open_link is bounded by its own counter: Coq fuel beyond 100 - depth is never used *)
Lemma h5_follow_fuel_irrelevant d : forall n m depth l, 0 <= depth <= 99 ->
  (Z.to_nat (100 - depth) <= n)%nat -> (Z.to_nat (100 - depth) <= m)%nat -> h5_follow n depth d l = h5_follow m depth d l.
Proof.
  induction n as [|n IH]; intros m depth l Hd Hn Hm; [lia|]. destruct m as [|m]; [lia|]. cbn [h5_follow].
  destruct (h5_is_link d l); [|reflexivity]. unfold ADF_MAXIMUM_LINK_DEPTH.
  destruct (Z.geb_spec (depth + 1) 100); [reflexivity|]. destruct (h5_open_link_1 d l); [|reflexivity]. apply IH; lia.
Qed.

Lemma h5_follow_no_stack d : forall n depth l, 0 <= depth <= 99 -> (Z.to_nat (100 - depth) <= n)%nat ->
  h5_follow n depth d l <> Err EStack.
Proof.
  induction n as [|n IH]; intros depth l Hd Hn; [lia|]. cbn [h5_follow].
  destruct (h5_is_link d l); [|discriminate]. unfold ADF_MAXIMUM_LINK_DEPTH.
  destruct (Z.geb_spec (depth + 1) 100); [discriminate|].
  assert (H1 : forall x, h5_open_link_1 d l = Err x -> x <> EStack).
  { unfold h5_open_link_1. intros x. destruct (node_at d l) as [n0|]; [|intros HH; inversion HH; discriminate].
    destruct (n_link n0) as [[file path]|]; [|discriminate].
    destruct (if nonempty file then match h5_first d (h5_cands (fst l) file) with Some p => Some (p, root_uid) | None => None end
              else Some (root_of l)) as [rt|]; [|intros HH; inversion HH; discriminate].
    destruct (raw_walk d rt (tokens path)); [discriminate|intros HH; inversion HH; discriminate]. }
  destruct (h5_open_link_1 d l) as [l'|x] eqn:E; [apply IH; lia|]. intros HH. inversion HH. now apply (H1 x).
Qed.

(* TRANSPARENT (current ADFH): whatever is read through a node that resolves is the attribute of a node that is not a link *)
Theorem h5_transparent d i what val : what <> 0 -> what <> 4 -> what <> 5 ->
  h5_get Cur d i what = AVal val ->
  exists l, h5_open_link Cur d i = Ok l /\ nonlink d l /\ val = node_attr d l what.
Proof.
  intros H0 H4 H5. unfold h5_get. destruct (node_at d i) as [r|] eqn:En; [|discriminate].
  destruct (Z.eqb_spec what 0); [contradiction|]. destruct (Z.eqb_spec what 4); [contradiction|].
  destruct (Z.eqb_spec what 5); [contradiction|].
  destruct (h5_open_link Cur d i) as [l|x] eqn:Eo; [|discriminate]. intros H. inversion H; subst val. exists l.
  assert (Hn : nonlink d l).
  { cbn [h5_open_link] in Eo. destruct (h5_open_link_1 d i) as [l1|x] eqn:E1; [|discriminate].
    apply (h5_follow_nonlink d 100 0 l1 l); [now apply (open_link_1_exists d i)|assumption]. }
  split; [reflexivity|]. split; [assumption|]. destruct Hn as [r' [Hr' Hl']]. unfold h5_raw_attr. rewrite Hr', (is_link_false _ Hl').
  reflexivity.
Qed.

(* and the resolution never runs out of anything: it answers, or fails with an error of the library *)
Theorem h5_open_link_returns d i : h5_open_link Cur d i <> Err EStack.
Proof.
  cbn [h5_open_link]. destruct (h5_open_link_1 d i) as [l|x] eqn:E.
  - apply h5_follow_no_stack; [lia|cbn; lia].
  - intros H. inversion H; subst x. revert E. unfold h5_open_link_1. destruct (node_at d i); [|discriminate].
    destruct (n_link n) as [[file path]|]; [|discriminate].
    destruct (if nonempty file then match h5_first d (h5_cands (fst i) file) with Some p => Some (p, root_uid) | None => None end
              else Some (root_of i)) as [rt|]; [|discriminate].
    destruct (raw_walk d rt (tokens path)); discriminate.
Qed.

(* /L1 -> /L2 -> /T in one HDF5 file: Old answered with L2's own (empty) label and the type "LK", status ok *)
Definition fH : bytes := [104].
Definition w_chain : disk :=
  [mkD fH 2 (h5_root_table ++ [mkN 1 0 [84] [76; 98] s_MT [] [] None;
                               mkN 2 0 [76; 50] [] s_LK [] [] (Some ([], [47; 84]));
                               mkN 3 0 [76; 49] [] s_LK [] [] (Some ([], [47; 76; 50]))])].
Theorem h5_chain_old_refuted :
  h5_get Old w_chain (fH, 3) 1 = AVal (RBytes []) /\ h5_get Old w_chain (fH, 3) 2 = AVal (RBytes s_LK) /\
  h5_get Old w_chain (fH, 3) 7 = AVal (RInt 0) /\
  resolve Cur 100 w_chain empty_env (fH, 3) = Ok (fH, 1) /\ node_attr w_chain (fH, 1) 1 = RBytes [76; 98].
Proof. repeat split; vm_compute; reflexivity. Qed.
Example h5_chain_cur : h5_get Cur w_chain (fH, 3) 1 = AVal (RBytes [76; 98]) /\ h5_open_link Cur w_chain (fH, 3) = Ok (fH, 1).
Proof. split; vm_compute; reflexivity. Qed.

(* a link that names itself: Old said ok, Cur says LINKS_TOO_DEEP like ADF *)
Definition w_self : disk := [mkD fH 2 (h5_root_table ++ [mkN 1 0 [83] [] s_LK [] [] (Some ([], [47; 83]))])].
Theorem h5_cycle_old_refuted :
  h5_get Old w_self (fH, 1) 1 = AVal (RBytes []) /\ resolve Cur 100 w_self empty_env (fH, 1) = Err ETooDeep.
Proof. split; vm_compute; reflexivity. Qed.
Example h5_cycle_cur : h5_get Cur w_self (fH, 1) 1 = AErr ETooDeep.
Proof. vm_compute. reflexivity. Qed.

(* STILL WRONG: a stored path that passes through a link: libhdf5 walks raw groups and finds nothing below the link *)
Definition w_via : disk :=
  [mkD fH 2 (h5_root_table ++ [mkN 1 0 [84] [] s_MT [] [] None; mkN 2 1 [75] [107] s_MT [] [] None;
                               mkN 3 0 [76; 50] [] s_LK [] [] (Some ([], [47; 84]));
                               mkN 4 0 [76; 49] [] s_LK [] [] (Some ([], [47; 76; 50; 47; 75]))])].
Theorem h5_via_refuted :
  h5_get Cur w_via (fH, 4) 1 = AErr ELinkTarget /\ resolve Cur 100 w_via empty_env (fH, 4) = Ok (fH, 2).
Proof. split; vm_compute; reflexivity. Qed.

(* STILL WRONG: the link search path is not consulted: found by cgio_find_file (HDF5_LINK_PATH), not by ADFH *)
Definition w_path : disk :=
  [mkD [47; 109; 47; 97] 2 (h5_root_table ++ [mkN 1 0 [76] [] s_LK [] [] (Some ([98], [47; 84]))]);        (* /m/a: L -> b:/T *)
   mkD [47; 112; 47; 98] 2 (h5_root_table ++ [mkN 1 0 [84] [120] s_MT [] [] None])].                       (* /p/b *)
Definition e_path : env := mkE [] [47; 112] [] [].                                                          (* HDF5_LINK_PATH=/p *)
Theorem h5_search_refuted :
  find_file w_path e_path [47; 109; 47; 97] [98] 2 1025 = FOk [47; 112; 47; 98] /\
  h5_get Cur w_path ([47; 109; 47; 97], 1) 1 = AErr ELinkTarget.
Proof. split; vm_compute; reflexivity. Qed.

(* ===================================================================================================================
   10. non-vacuity: chains of exactly 100 and 101 links, a two-cycle
   =================================================================================================================== *)
Definition dig3 (k : Z) : bytes := [76; 48 + k / 100; 48 + (k / 10) mod 10; 48 + k mod 10].      (* "L" ++ 3 digits *)
Fixpoint chain_nodes (n : nat) : table :=                      (* L_k (uid k+1) -> L_(k-1), L_1 -> /T (uid 1) *)
  match n with
  | O => []
  | S m => chain_nodes m ++
           [mkN (Z.of_nat n + 1) 0 (dig3 (Z.of_nat n)) [] s_LK [] []
                (Some ([], 47 :: (if (Z.of_nat n =? 1) then [84] else dig3 (Z.of_nat n - 1))))]
  end.
Definition chain_world (n : nat) : disk :=
  [mkD fA 1 (adf_root_table ++ [mkN 1 0 [84] [116] s_MT [] [] None] ++ chain_nodes n)].

Example chain_100_resolves : snd (chase Cur true 100 (chain_world 100) empty_env rs0 (fA, 101)) = Ok (fA, 1).
Proof. vm_compute. reflexivity. Qed.
Example chain_101_too_deep : snd (chase Cur true 100 (chain_world 101) empty_env rs0 (fA, 102)) = Err ETooDeep.
Proof. vm_compute. reflexivity. Qed.
Example chain_101_hops : exists s' t, hops (chase Cur true 99 (chain_world 101) empty_env) (chain_world 101) empty_env 101 rs0 (fA, 102) = Some (s', t).
Proof. eexists. eexists. vm_compute. reflexivity. Qed.
Definition w_cycle2 : disk :=
  [mkD fA 1 (adf_root_table ++ [mkN 1 0 [80] [] s_LK [] [] (Some ([], [47; 81])); mkN 2 0 [81] [] s_LK [] [] (Some ([], [47; 80]))])].
(* the same boundary through ADFH's open_link loop *)
Definition h5_chain_world (n : nat) : disk :=
  [mkD fH 2 (h5_root_table ++ [mkN 1 0 [84] [116] s_MT [] [] None] ++ chain_nodes n)].
Example h5_chain_100_resolves : h5_open_link Cur (h5_chain_world 100) (fH, 101) = Ok (fH, 1).
Proof. vm_compute. reflexivity. Qed.
Example h5_chain_101_too_deep : h5_open_link Cur (h5_chain_world 101) (fH, 102) = Err ETooDeep.
Proof. vm_compute. reflexivity. Qed.
Example cycle_too_deep : snd (chase Cur true 100 w_cycle2 empty_env rs0 (fA, 1)) = Err ETooDeep.
Proof. vm_compute. reflexivity. Qed.

(* ===================================================================================================================
   11. the cache, when it holds what full resolution returns, changes no answer -- and is filled only with such pairs
   =================================================================================================================== *)
(* full resolution with recursion budget F, from any state *)
Definition U v (d : disk) (e : env) (F : nat) : chaser := chase v false F d e.

(* r1 "is refined by" r2: equal, or (when b) r1 ran out of budget *)
Definition Rb v (b : bool) (r1 r2 : res nid) : Prop := r1 = r2 \/ (b = true /\ r1 = Err (oob v)).
Definition obl v (b : bool) (ch1 ch2 : chaser) : Prop := forall s1 s2 i, Rb v b (snd (ch1 s1 i)) (snd (ch2 s2 i)).

Lemma Rb_refl v b r : Rb v b r r.
Proof. now left. Qed.

Lemma gni_walk_obl v b ch1 ch2 d : obl v b ch1 ch2 -> forall toks s1 s2 cur,
  Rb v b (snd (gni_walk ch1 d s1 cur toks)) (snd (gni_walk ch2 d s2 cur toks)).
Proof.
  intros H. induction toks as [|t rest IH]; intros s1 s2 cur; cbn [gni_walk]; [apply (Rb_refl v)|].
  destruct (child_named d cur t) as [k|]; [|apply (Rb_refl v)]. destruct rest as [|t2 rest]; [apply (Rb_refl v)|].
  specialize (H s1 s2 k). destruct (ch1 s1 k) as [a1 r1], (ch2 s2 k) as [a2 r2]. cbn [snd] in H.
  destruct H as [<-|[Hb ->]].
  - destruct r1 as [l|x]; [apply IH|apply (Rb_refl v)].
  - right. split; [assumption|reflexivity].
Qed.

Lemma get_node_id_obl v b ch1 ch2 d s1 s2 pid name : obl v b ch1 ch2 ->
  Rb v b (snd (get_node_id ch1 d s1 pid name)) (snd (get_node_id ch2 d s2 pid name)).
Proof.
  intros H. unfold get_node_id. destruct (lenZ name =? 0); [apply (Rb_refl v)|].
  destruct ((hd 0 name =? 47) && (lenZ name =? 1)); [apply (Rb_refl v)|].
  destruct (tokens name) as [|t toks]; [apply (Rb_refl v)|].
  set (start := if hd 0 name =? 47 then root_of pid else pid).
  pose proof (H s1 s2 start) as Hs. destruct (ch1 s1 start) as [a1 r1], (ch2 s2 start) as [a2 r2]. cbn [snd] in Hs.
  destruct Hs as [<-|[Hb ->]].
  - destruct r1 as [l|x]; [now apply (gni_walk_obl v)|apply (Rb_refl v)].
  - right. split; [assumption|reflexivity].
Qed.

(* the same on the result of a hop *)
Definition Rh v (b : bool) (r1 r2 : res (option nid)) : Prop := r1 = r2 \/ (b = true /\ r1 = Err (oob v)).

Lemma hop_obl v b ch1 ch2 d e s1 s2 lk : obl v b ch1 ch2 -> Rh v b (snd (hop ch1 d e s1 lk)) (snd (hop ch2 d e s2 lk)).
Proof.
  intros H. unfold hop. destruct (node_at d lk) as [r|]; [|now left].
  destruct (adf_link_of r) as [[file path]|]; [|now left].
  assert (G : forall a1 a2 root, Rh v b
            (snd (let '(s1', r1) := get_node_id ch1 d a1 root path in
                  match r1 with Err ENotFound => (s1', Err ELinkTarget) | Err x => (s1', Err x) | Ok t => (s1', Ok (Some t)) end))
            (snd (let '(s2', r2) := get_node_id ch2 d a2 root path in
                  match r2 with Err ENotFound => (s2', Err ELinkTarget) | Err x => (s2', Err x) | Ok t => (s2', Ok (Some t)) end))).
  { intros a1 a2 root. pose proof (get_node_id_obl v b ch1 ch2 d a1 a2 root path H) as Hg.
    destruct (get_node_id ch1 d a1 root path) as [x1 r1], (get_node_id ch2 d a2 root path) as [x2 r2]. cbn [snd] in Hg.
    destruct Hg as [<-|[Hb ->]]; [left; destruct r1 as [t|[]]; reflexivity|right; split; [assumption|destruct v; reflexivity]]. }
  destruct (nonempty file); [|apply G].
  destruct (find_file d e (fst lk) file 1 (ADF_FILENAME_LENGTH + 1)); try (now left). apply G.
Qed.

Lemma chase_loop_obl v b ch1 ch2 d e : obl v b ch1 ch2 -> forall n depth s1 s2 lk,
  Rb v b (snd (chase_loop ch1 d e n depth s1 lk)) (snd (chase_loop ch2 d e n depth s2 lk)).
Proof.
  intros H. induction n as [|n IH]; intros depth s1 s2 lk; [apply (Rb_refl v)|]. rewrite !chase_loop_S.
  pose proof (hop_obl v b ch1 ch2 d e s1 s2 lk H) as Hh.
  destruct (hop ch1 d e s1 lk) as [a1 h1], (hop ch2 d e s2 lk) as [a2 h2]. cbn [snd] in Hh.
  destruct Hh as [<-|[Hb ->]].
  - destruct h1 as [[t|]|x]; try apply (Rb_refl v). destruct (depth + 1 >? ADF_MAXIMUM_LINK_DEPTH); [apply (Rb_refl v)|apply IH].
  - right. split; [assumption|reflexivity].
Qed.

Lemma chase_false_S v f d e s i :
  snd (chase v false (S f) d e s i) = snd (chase_loop (chase v false f d e) d e LOOP_FUEL 0 s i).
Proof.
  cbn [chase]. assert (Hb : snd (let '(s', r) := chase_loop (chase v false f d e) d e LOOP_FUEL 0 s i in
                    match r with
                    | Ok l => ((if false && negb (nid_eqb l i) then mkRs (Some (i, l)) (r_log s') else s'), Ok l)
                    | Err x => (s', Err x)
                    end) = snd (chase_loop (chase v false f d e) d e LOOP_FUEL 0 s i)).
  { destruct (chase_loop (chase v false f d e) d e LOOP_FUEL 0 s i) as [s' [l|x]]; reflexivity. }
  destruct (r_cache s) as [[k l]|]; exact Hb.
Qed.

(* full resolution does not depend on the state it starts from ... *)
Theorem resolve_state_independent v d e : forall F, obl v false (U v d e F) (U v d e F).
Proof.
  induction F as [|F IH]; intros s1 s2 i; [now left|]. unfold U in *. rewrite !(chase_false_S v). now apply (chase_loop_obl v).
Qed.

(* ... and a larger recursion budget only turns "out of budget" into an answer *)
Theorem resolve_budget_monotone v d e : forall F, obl v true (U v d e F) (U v d e (S F)).
Proof.
  induction F as [|F IH]; intros s1 s2 i; [right; split; reflexivity|]. unfold U in *. rewrite !(chase_false_S v).
  now apply (chase_loop_obl v).
Qed.

Lemma U_mono v d e F G s1 s2 i r : snd (U v d e F s1 i) = r -> r <> Err (oob v) -> (F <= G)%nat -> snd (U v d e G s2 i) = r.
Proof.
  intros H Hr Hle. induction Hle as [|G Hle IH].
  - destruct (resolve_state_independent v d e F s1 s2 i) as [E|[E _]]; [congruence|discriminate].
  - destruct (resolve_budget_monotone v d e G s2 s2 i) as [E|[_ E]]; [congruence|congruence].
Qed.

(* the limit: what full resolution answers once the budget is large enough *)
Definition resolves_to v (d : disk) (e : env) (i : nid) (r : res nid) : Prop :=
  exists F0, forall F s0, (F0 <= F)%nat -> snd (U v d e F s0 i) = r.

Lemma resolves_to_from v d e F s i r : snd (U v d e F s i) = r -> r <> Err (oob v) -> resolves_to v d e i r.
Proof. intros H Hr. exists F. intros G s0 Hle. now apply (U_mono v d e F G s s0 i). Qed.

Definition coherent v (d : disk) (e : env) (s : rs) : Prop :=
  match r_cache s with Some (k, l) => resolves_to v d e k (Ok l) | None => True end.

(* a cached chaser that (1) keeps the cache coherent v and (2) answers what full resolution answers in the limit *)
Definition sim v (d : disk) (e : env) (ch : chaser) : Prop :=
  forall s i, coherent v d e s ->
    coherent v d e (fst (ch s i)) /\ (snd (ch s i) <> Err (oob v) -> resolves_to v d e i (snd (ch s i))).

Definition walks_to v (d : disk) (e : env) (cur : nid) (toks : list bytes) (r : res nid) : Prop :=
  exists F0, forall F s0, (F0 <= F)%nat -> snd (gni_walk (U v d e F) d s0 cur toks) = r.

Lemma gni_walk_sim v d e ch : sim v d e ch -> forall toks s cur, coherent v d e s ->
  coherent v d e (fst (gni_walk ch d s cur toks)) /\
  (snd (gni_walk ch d s cur toks) <> Err (oob v) -> walks_to v d e cur toks (snd (gni_walk ch d s cur toks))).
Proof.
  intros H. induction toks as [|t rest IH]; intros s cur Hs; cbn [gni_walk].
  - split; [assumption|]. intros _. exists 0%nat. reflexivity.
  - destruct (child_named d cur t) as [k|] eqn:Ek.
    + destruct rest as [|t2 rest].
      * split; [assumption|]. intros _. exists 0%nat. intros F s0 _. cbn [gni_walk]. now rewrite Ek.
      * destruct (H s k Hs) as [H1 H2]. destruct (ch s k) as [s' [l|x]] eqn:Ec; cbn [fst snd] in *.
        -- destruct (IH s' l H1) as [I1 I2]. split; [assumption|]. intros Hne.
           destruct (H2 ltac:(discriminate)) as [F1 HF1]. destruct (I2 Hne) as [F2 HF2].
           exists (Nat.max F1 F2). intros F s0 Hle. cbn [gni_walk]. rewrite Ek.
           pose proof (HF1 F s0 ltac:(lia)) as E1. destruct (U v d e F s0 k) as [s1 r1]. cbn [snd] in E1. subst r1.
           apply HF2. lia.
        -- split; [assumption|]. intros Hne. destruct (H2 Hne) as [F1 HF1]. exists F1. intros F s0 Hle.
           cbn [gni_walk]. rewrite Ek. pose proof (HF1 F s0 Hle) as E1. destruct (U v d e F s0 k) as [s1 r1].
           cbn [snd] in E1. now subst r1.
    + split; [assumption|]. intros _. exists 0%nat. intros F s0 _. cbn [gni_walk]. now rewrite Ek.
Qed.

Definition gni_to v (d : disk) (e : env) (pid : nid) (name : bytes) (r : res nid) : Prop :=
  exists F0, forall F s0, (F0 <= F)%nat -> snd (get_node_id (U v d e F) d s0 pid name) = r.

Lemma get_node_id_sim v d e ch s pid name : sim v d e ch -> coherent v d e s ->
  coherent v d e (fst (get_node_id ch d s pid name)) /\
  (snd (get_node_id ch d s pid name) <> Err (oob v) -> gni_to v d e pid name (snd (get_node_id ch d s pid name))).
Proof.
  intros H Hs. unfold gni_to, get_node_id. destruct (lenZ name =? 0); [split; [assumption|intros _; exists 0%nat; reflexivity]|].
  destruct ((hd 0 name =? 47) && (lenZ name =? 1)); [split; [assumption|intros _; exists 0%nat; reflexivity]|].
  destruct (tokens name) as [|t toks]; [split; [assumption|intros _; exists 0%nat; reflexivity]|].
  set (start := if hd 0 name =? 47 then root_of pid else pid).
  destruct (H s start Hs) as [H1 H2]. destruct (ch s start) as [s1 [l|x]] eqn:Ec; cbn [fst snd] in *.
  - destruct (gni_walk_sim v d e ch H (t :: toks) s1 l H1) as [I1 I2]. split; [assumption|]. intros Hne.
    destruct (H2 ltac:(discriminate)) as [F1 HF1]. destruct (I2 Hne) as [F2 HF2].
    exists (Nat.max F1 F2). intros F s0 Hle.
    pose proof (HF1 F s0 ltac:(lia)) as E1. destruct (U v d e F s0 start) as [a1 r1]. cbn [snd] in E1. subst r1.
    apply HF2. lia.
  - split; [assumption|]. intros Hne. destruct (H2 Hne) as [F1 HF1]. exists F1. intros F s0 Hle.
    pose proof (HF1 F s0 Hle) as E1. destruct (U v d e F s0 start) as [a1 r1]. cbn [snd] in E1. now subst r1.
Qed.

Definition hop_to v (d : disk) (e : env) (lk : nid) (h : res (option nid)) : Prop :=
  exists F0, forall F s0, (F0 <= F)%nat -> snd (hop (U v d e F) d e s0 lk) = h.

Lemma coherent_log v d e s a b : coherent v d e s -> coherent v d e (log_add s a b).
Proof. intros H. exact H. Qed.

Lemma hop_sim v d e ch s lk : sim v d e ch -> coherent v d e s ->
  coherent v d e (fst (hop ch d e s lk)) /\ (snd (hop ch d e s lk) <> Err (oob v) -> hop_to v d e lk (snd (hop ch d e s lk))).
Proof.
  intros H Hs. unfold hop_to, hop. destruct (node_at d lk) as [r|]; [|split; [assumption|intros _; exists 0%nat; reflexivity]].
  destruct (adf_link_of r) as [[file path]|]; [|split; [assumption|intros _; exists 0%nat; reflexivity]].
  assert (G : forall a root, coherent v d e a ->
     coherent v d e (fst (let '(s1, r1) := get_node_id ch d a root path in
                  match r1 with Err ENotFound => (s1, Err ELinkTarget) | Err x => (s1, Err x) | Ok t => (s1, Ok (Some t)) end)) /\
     (snd (let '(s1, r1) := get_node_id ch d a root path in
                  match r1 with Err ENotFound => (s1, Err ELinkTarget) | Err x => (s1, Err x) | Ok t => (s1, Ok (Some t)) end) <> Err (oob v) ->
      exists F0, forall F a0, (F0 <= F)%nat ->
        snd (let '(s1, r1) := get_node_id (U v d e F) d a0 root path in
             match r1 with Err ENotFound => (s1, Err ELinkTarget) | Err x => (s1, Err x) | Ok t => (s1, Ok (Some t)) end) =
        snd (let '(s1, r1) := get_node_id ch d a root path in
             match r1 with Err ENotFound => (s1, Err ELinkTarget) | Err x => (s1, Err x) | Ok t => (s1, Ok (Some t)) end))).
  { intros a root Ha. destruct (get_node_id_sim v d e ch a root path H Ha) as [G1 G2].
    destruct (get_node_id ch d a root path) as [s1 r1] eqn:Eg; cbn [fst snd] in *.
    split; [destruct r1 as [t|[]]; assumption|]. intros Hne.
    assert (Hr1 : r1 <> Err (oob v)) by (intros ->; apply Hne; destruct v; reflexivity).
    destruct (G2 Hr1) as [F1 HF1]. exists F1. intros F a0 Hle. pose proof (HF1 F a0 Hle) as E1.
    destruct (get_node_id (U v d e F) d a0 root path) as [x1 y1]. cbn [snd] in E1. subst y1. destruct r1 as [t|[]]; reflexivity. }
  destruct (nonempty file).
  - destruct (find_file d e (fst lk) file 1 (ADF_FILENAME_LENGTH + 1)); try (split; [assumption|intros _; exists 0%nat; reflexivity]).
    destruct (G (log_add s (fst lk) p) (p, root_uid) (coherent_log v d e s _ _ Hs)) as [G1 G2]. split; [assumption|].
    intros Hne. destruct (G2 Hne) as [F1 HF1]. exists F1. intros F s0 Hle. apply HF1. assumption.
  - destruct (G s (root_of lk) Hs) as [G1 G2]. split; [assumption|].
    intros Hne. destruct (G2 Hne) as [F1 HF1]. exists F1. intros F s0 Hle. apply HF1. assumption.
Qed.

Definition loop_to v (d : disk) (e : env) (n : nat) (depth : Z) (lk : nid) (r : res nid) : Prop :=
  exists F0, forall F s0, (F0 <= F)%nat -> snd (chase_loop (U v d e F) d e n depth s0 lk) = r.

Lemma chase_loop_sim v d e ch : sim v d e ch -> forall n depth s lk, coherent v d e s ->
  coherent v d e (fst (chase_loop ch d e n depth s lk)) /\
  (snd (chase_loop ch d e n depth s lk) <> Err (oob v) -> loop_to v d e n depth lk (snd (chase_loop ch d e n depth s lk))).
Proof.
  intros H. induction n as [|n IH]; intros depth s lk Hs; [split; [assumption|intros _; exists 0%nat; reflexivity]|].
  unfold loop_to. rewrite chase_loop_S. destruct (hop_sim v d e ch s lk H Hs) as [H1 H2].
  destruct (hop ch d e s lk) as [s1 h] eqn:Eh; cbn [fst snd] in *.
  destruct h as [[t|]|x].
  - destruct (H2 ltac:(discriminate)) as [F1 HF1].
    destruct (depth + 1 >? ADF_MAXIMUM_LINK_DEPTH) eqn:Ed.
    + split; [assumption|]. intros _. exists F1. intros F s0 Hle. rewrite chase_loop_S.
      pose proof (HF1 F s0 Hle) as E1. destruct (hop (U v d e F) d e s0 lk) as [a1 h1]. cbn [snd] in E1. subst h1. now rewrite Ed.
    + destruct (IH (depth + 1) s1 t H1) as [I1 I2]. split; [assumption|]. intros Hne. destruct (I2 Hne) as [F2 HF2].
      exists (Nat.max F1 F2). intros F s0 Hle. rewrite chase_loop_S.
      pose proof (HF1 F s0 ltac:(lia)) as E1. destruct (hop (U v d e F) d e s0 lk) as [a1 h1]. cbn [snd] in E1. subst h1.
      rewrite Ed. apply HF2. lia.
  - destruct (H2 ltac:(discriminate)) as [F1 HF1]. split; [assumption|]. intros _. exists F1. intros F s0 Hle.
    rewrite chase_loop_S. pose proof (HF1 F s0 Hle) as E1. destruct (hop (U v d e F) d e s0 lk) as [a1 h1]. cbn [snd] in E1.
    now subst h1.
  - split; [assumption|]. intros Hne.
    assert (Hx : @Err (option nid) x <> Err (oob v)) by (intros E; inversion E; subst x; now apply Hne).
    destruct (H2 Hx) as [F1 HF1]. exists F1. intros F s0 Hle.
    rewrite chase_loop_S. pose proof (HF1 F s0 Hle) as E1. destruct (hop (U v d e F) d e s0 lk) as [a1 h1]. cbn [snd] in E1.
    now subst h1.
Qed.

Lemma resolves_ok_node v d e k l : resolves_to v d e k (Ok l) -> nonlink d l.
Proof.
  intros [F0 HF]. pose proof (HF F0 rs0 (le_n _)) as E. unfold U in E.
  destruct (chase_pres v false d e F0 rs0 k I) as [_ P2]. now apply P2.
Qed.

(* CACHE SOUNDNESS: for every world, from a coherent v state the cached resolution keeps the state coherent v and, unless it
   runs out of recursion budget, answers exactly what full (cache-free) resolution answers once its budget suffices *)
Theorem chase_sim v d e : forall f, sim v d e (chase v true f d e).
Proof.
  induction f as [|f IH]; intros s i Hs; [split; [assumption|intros Hne; now contradiction Hne]|].
  cbn [chase].
  assert (Hb : let x := (let '(s', r) := chase_loop (chase v true f d e) d e LOOP_FUEL 0 s i in
                    match r with
                    | Ok l => ((if true && negb (nid_eqb l i) then mkRs (Some (i, l)) (r_log s') else s'), Ok l)
                    | Err x => (s', Err x)
                    end) in coherent v d e (fst x) /\ (snd x <> Err (oob v) -> resolves_to v d e i (snd x))).
  { destruct (chase_loop_sim v d e _ IH LOOP_FUEL 0 s i Hs) as [H1 H2].
    destruct (chase_loop (chase v true f d e) d e LOOP_FUEL 0 s i) as [s' r] eqn:El; cbn [fst snd] in *.
    assert (Hlim : r <> Err (oob v) -> resolves_to v d e i r).
    { intros Hne. destruct (H2 Hne) as [F1 HF1]. exists (S F1). intros F s0 Hle. destruct F as [|F]; [lia|].
      unfold U. rewrite (chase_false_S v). apply HF1. lia. }
    destruct r as [l|x]; cbn [fst snd]; [|split; assumption].
    split; [|assumption]. cbn [andb]. destruct (negb (nid_eqb l i)); [|assumption].
    unfold coherent. cbn [r_cache]. apply Hlim. discriminate. }
  cbv zeta in Hb. destruct (r_cache s) as [[k l]|] eqn:Ec; [|exact Hb].
  cbn [andb]. destruct (nid_eqb k i) eqn:Ek; [|exact Hb]. apply nid_eqb_eq in Ek. subst k. cbn [fst snd].
  split; [assumption|]. unfold coherent in Hs. rewrite Ec in Hs.
  destruct (resolves_ok_node v d e i l Hs) as [r [Hr _]]. rewrite Hr. intros _. exact Hs.
Qed.

(* reading through a link from a coherent v state returns an attribute of THE target: the node full resolution reaches *)
Theorem cached_read_is_full_resolution v fuel d e s i what s' val :
  cache_sane d s -> coherent v d e s -> adf_get v true fuel d e s i what = (s', AVal val) -> what <> 0 -> what <> 4 -> what <> 5 ->
  exists l, resolves_to v d e i (Ok l) /\ nonlink d l /\ val = node_attr d l what /\ cache_sane d s' /\ coherent v d e s'.
Proof.
  intros Hs Hc H H0 H4 H5. destruct (adf_transparent v true fuel d e s i what s' val Hs H H0 H4 H5) as [l [E [Hn [Hv Hs']]]].
  destruct (chase_sim v d e fuel s i Hc) as [C1 C2]. rewrite E in C1, C2. cbn [fst snd] in *.
  exists l. repeat split; try assumption. apply C2. discriminate.
Qed.

(* ===================================================================================================================
   12. which mutations keep the cache coherent v: all of them except the rename
   =================================================================================================================== *)
(* d' extends d: same files of the same types, every node still there with the same link payload, every name that was
   found under a node still names the same child *)
Definition ext (d d' : disk) : Prop :=
  (forall p ft, exists_as d' p ft = exists_as d p ft) /\
  (forall i r, node_at d i = Some r -> exists r', node_at d' i = Some r' /\ n_link r' = n_link r) /\
  (forall i nm k, child_named d i nm = Some k -> child_named d' i nm = Some k).

Lemma first_hit_ext d d' ft cs : (forall p, exists_as d' p ft = exists_as d p ft) -> first_hit d' ft cs = first_hit d ft cs.
Proof. intros H. induction cs as [|[q|] r IH]; cbn [first_hit]; [reflexivity| |reflexivity]. now rewrite H, IH. Qed.
Lemma find_file_ext d d' e parent fn ft maxlen : (forall p ft, exists_as d' p ft = exists_as d p ft) ->
  find_file d' e parent fn ft maxlen = find_file d e parent fn ft maxlen.
Proof. intros H. unfold find_file. destruct (lenZ fn =? 0); [reflexivity|]. destruct (maxlen - 1 - lenZ fn <? 0); [reflexivity|]. now apply first_hit_ext. Qed.

Definition okp (ch ch' : chaser) : Prop := forall s s' i l, snd (ch s i) = Ok l -> snd (ch' s' i) = Ok l.

Lemma gni_walk_ext d d' ch ch' : ext d d' -> okp ch ch' -> forall toks s s' cur l,
  snd (gni_walk ch d s cur toks) = Ok l -> snd (gni_walk ch' d' s' cur toks) = Ok l.
Proof.
  intros [_ [_ Hc]] H. induction toks as [|t rest IH]; intros s s' cur l; cbn [gni_walk]; [auto|].
  destruct (child_named d cur t) as [k|] eqn:Ek; [|discriminate]. rewrite (Hc _ _ _ Ek).
  destruct rest as [|t2 rest]; [auto|].
  pose proof (H s s' k) as Hk. destruct (ch s k) as [a1 [l1|x]]; [|discriminate]. cbn [snd] in Hk.
  specialize (Hk l1 eq_refl). destruct (ch' s' k) as [a2 r2]. cbn [snd] in Hk. subst r2. apply IH.
Qed.

Lemma get_node_id_ext d d' ch ch' s s' pid name l : ext d d' -> okp ch ch' ->
  snd (get_node_id ch d s pid name) = Ok l -> snd (get_node_id ch' d' s' pid name) = Ok l.
Proof.
  intros He H. unfold get_node_id. destruct (lenZ name =? 0); [discriminate|].
  destruct ((hd 0 name =? 47) && (lenZ name =? 1)); [auto|].
  destruct (tokens name) as [|t toks]; [discriminate|].
  set (start := if hd 0 name =? 47 then root_of pid else pid).
  pose proof (H s s' start) as Hk. destruct (ch s start) as [a1 [l1|x]]; [|discriminate]. cbn [snd] in Hk.
  specialize (Hk l1 eq_refl). destruct (ch' s' start) as [a2 r2]. cbn [snd] in Hk. subst r2.
  now apply (gni_walk_ext d d' ch ch' He H).
Qed.

Lemma hop_ext d d' e ch ch' s s' lk h : ext d d' -> okp ch ch' ->
  snd (hop ch d e s lk) = Ok h -> snd (hop ch' d' e s' lk) = Ok h.
Proof.
  intros He H. pose proof He as [Hx [Hn _]]. unfold hop. destruct (node_at d lk) as [r|] eqn:En; [|discriminate].
  destruct (Hn _ _ En) as [r' [En' Hl]]. rewrite En'.
  replace (adf_link_of r') with (adf_link_of r) by (unfold adf_link_of; now rewrite Hl).
  destruct (adf_link_of r) as [[file path]|]; [|auto].
  assert (G : forall a a' root, snd (let '(s1, r1) := get_node_id ch d a root path in
                  match r1 with Err ENotFound => (s1, Err ELinkTarget) | Err x => (s1, Err x) | Ok t => (s1, Ok (Some t)) end) = Ok h ->
              snd (let '(s1, r1) := get_node_id ch' d' a' root path in
                  match r1 with Err ENotFound => (s1, Err ELinkTarget) | Err x => (s1, Err x) | Ok t => (s1, Ok (Some t)) end) = Ok h).
  { intros a a' root. pose proof (get_node_id_ext d d' ch ch' a a' root path) as Hg.
    destruct (get_node_id ch d a root path) as [x1 [t|y]]; [|destruct y; discriminate]. cbn [snd] in *.
    specialize (Hg t He H eq_refl). destruct (get_node_id ch' d' a' root path) as [x2 r2]. cbn [snd] in Hg. subst r2. auto. }
  destruct (nonempty file); [|apply G]. rewrite (find_file_ext d d') by exact Hx.
  destruct (find_file d e (fst lk) file 1 (ADF_FILENAME_LENGTH + 1)); try discriminate. apply G.
Qed.

Lemma chase_loop_ext d d' e ch ch' : ext d d' -> okp ch ch' -> forall n depth s s' lk l,
  snd (chase_loop ch d e n depth s lk) = Ok l -> snd (chase_loop ch' d' e n depth s' lk) = Ok l.
Proof.
  intros He H. induction n as [|n IH]; intros depth s s' lk l; [discriminate|]. rewrite !chase_loop_S.
  pose proof (hop_ext d d' e ch ch' s s' lk) as Hh.
  destruct (hop ch d e s lk) as [a1 [h|x]]; [|discriminate]. cbn [snd] in Hh. specialize (Hh h He H eq_refl).
  destruct (hop ch' d' e s' lk) as [a2 h2]. cbn [snd] in Hh. subst h2.
  destruct h as [t|]; [|auto]. destruct (depth + 1 >? ADF_MAXIMUM_LINK_DEPTH); [discriminate|apply IH].
Qed.

Lemma U_ext v d d' e : ext d d' -> forall F, okp (U v d e F) (U v d' e F).
Proof.
  intros He. induction F as [|F IH]; intros s s' i l; [discriminate|]. unfold U in *. rewrite !(chase_false_S v).
  now apply (chase_loop_ext d d' e _ _ He IH).
Qed.

Theorem resolves_to_ext v d d' e k l : ext d d' -> resolves_to v d e k (Ok l) -> resolves_to v d' e k (Ok l).
Proof. intros He [F0 HF]. exists F0. intros F s0 Hle. apply (U_ext v d d' e He F s0 s0). now apply HF. Qed.

(* table-level extension *)
Definition text (t t' : table) : Prop :=
  (forall v r, find_node t v = Some r -> exists r', find_node t' v = Some r' /\ n_link r' = n_link r) /\
  (forall p nm r, find_child (children t p) nm = Some r ->
                  exists r', find_child (children t' p) nm = Some r' /\ n_uid r' = n_uid r).

Lemma text_refl t : text t t.
Proof. split; [intros v r H; exists r; auto|intros p nm r H; exists r; auto]. Qed.

Lemma find_child_app_found l l2 nm r : find_child l nm = Some r -> find_child (l ++ l2) nm = Some r.
Proof.
  induction l as [|x rest IH]; cbn [find_child app]; [discriminate|]. destruct (bytes_eqb (n_name x) nm); [auto|exact IH].
Qed.

Lemma text_append t x : find_node t (n_uid x) = None -> text t (t ++ [x]).
Proof.
  intros Hn. split.
  - intros v r H. exists r. split; [|reflexivity]. rewrite find_app, H. reflexivity.
  - intros p nm r H. exists r. split; [|reflexivity]. rewrite children_app. now apply find_child_app_found.
Qed.

Definition key (x : nrec) : Z * bytes := (n_uid x, n_name x).

Lemma children_replace_keys t r' :
  (forall r, find_node t (n_uid r') = Some r -> n_parent r = n_parent r' /\ n_name r = n_name r') ->
  forall p, map key (children (replace_node t r') p) = map key (children t p).
Proof.
  intros H p. unfold children. induction t as [|x rest IH]; cbn [replace_node filter map]; [reflexivity|].
  destruct (Z.eqb_spec (n_uid x) (n_uid r')) as [E|E].
  - destruct (H x) as [Hp Hn]; [cbn [find_node]; destruct (Z.eqb_spec (n_uid x) (n_uid r')); [reflexivity|contradiction]|].
    cbn [filter]. rewrite Hp. destruct (n_parent r' =? p); cbn [map]; [|reflexivity]. f_equal. unfold key. now rewrite E, Hn.
  - cbn [filter]. assert (IH' : map key (filter (fun r => n_parent r =? p) (replace_node rest r')) =
                               map key (filter (fun r => n_parent r =? p) rest)).
    { apply IH. intros r Hr. apply H. cbn [find_node]. destruct (Z.eqb_spec (n_uid x) (n_uid r')); [contradiction|exact Hr]. }
    destruct (n_parent x =? p); cbn [map]; now rewrite IH'.
Qed.

Lemma find_child_keys l l' nm r : map key l = map key l' -> find_child l nm = Some r ->
  exists r', find_child l' nm = Some r' /\ n_uid r' = n_uid r.
Proof.
  revert l'. induction l as [|x rest IH]; intros l' Hk; destruct l' as [|y rest']; cbn [map] in Hk; try discriminate Hk.
  - cbn. discriminate.
  - unfold key at 1 3 in Hk. inversion Hk as [[Hu Hn Hr]]. cbn [find_child]. rewrite <- Hn.
    destruct (bytes_eqb (n_name x) nm).
    + intros H. inversion H; subst. exists y. split; [reflexivity|now symmetry].
    + now apply IH.
Qed.

Lemma text_replace t r r' : find_node t (n_uid r') = Some r ->
  n_parent r' = n_parent r -> n_name r' = n_name r -> n_link r' = n_link r -> text t (replace_node t r').
Proof.
  intros Hf Hp Hn Hl. split.
  - intros v r0 H. destruct (Z.eq_dec v (n_uid r')) as [->|Hv].
    + exists r'. split; [apply find_replace_same; congruence|]. congruence.
    + exists r0. split; [|reflexivity]. rewrite find_replace_other; [exact H|congruence].
  - intros p nm r0 H. apply (find_child_keys (children t p)); [|exact H]. symmetry. apply children_replace_keys.
    intros r1 Hr1. rewrite Hf in Hr1. inversion Hr1; subst r1. split; congruence.
Qed.

Definition keeps_structure (o : op) : bool :=
  match o with ORename _ _ _ | ODelete _ _ | OMove _ _ _ => false | _ => true end.

Lemma text_step t o t' r0 : keeps_structure o = true -> step_table false t o = (t', r0) -> text t t'.
Proof.
  intros Hk Hs. destruct o; try discriminate; cbn [step_table] in Hs.
  - unfold op_create in Hs. destruct (find_node t p); [|inversion Hs; apply text_refl].
    destruct (find_node t u) eqn:Eu; [inversion Hs; apply text_refl|].
    destruct (name_ok nm && negb (is_link n)); [|inversion Hs; apply text_refl].
    destruct (find_child (children t p) nm); inversion Hs; [apply text_refl|]. now apply text_append.
  - unfold op_link in Hs. destruct (find_node t p); [|inversion Hs; apply text_refl].
    destruct (find_node t u) eqn:Eu; [inversion Hs; apply text_refl|].
    destruct (name_ok nm && negb (is_link n) && (1 <=? lenZ path)); [|inversion Hs; apply text_refl].
    destruct (find_child (children t p) nm); inversion Hs; [apply text_refl|]. now apply text_append.
  - destruct (local_step_shape t (OLabel u l) u t' r0 eq_refl Hs) as [->|[r [r' [E [-> [Hu [Hp [Hn Hl]]]]]]]]; [apply text_refl|].
    apply (text_replace t r r'); congruence.
  - destruct (local_step_shape t (ODims u dt dims) u t' r0 eq_refl Hs) as [->|[r [r' [E [-> [Hu [Hp [Hn Hl]]]]]]]]; [apply text_refl|].
    apply (text_replace t r r'); congruence.
  - destruct (local_step_shape t (OWriteAll u d) u t' r0 eq_refl Hs) as [->|[r [r' [E [-> [Hu [Hp [Hn Hl]]]]]]]]; [apply text_refl|].
    apply (text_replace t r r'); congruence.
  - destruct (local_step_shape t (OWriteBlock u b e d) u t' r0 eq_refl Hs) as [->|[r [r' [E [-> [Hu [Hp [Hn Hl]]]]]]]]; [apply text_refl|].
    apply (text_replace t r r'); congruence.
  - destruct (local_step_shape t (OWriteSel u sel mdims msel mem) u t' r0 eq_refl Hs) as [->|[r [r' [E [-> [Hu [Hp [Hn Hl]]]]]]]]; [apply text_refl|].
    apply (text_replace t r r'); congruence.
  - inversion Hs; apply text_refl.
  - inversion Hs; apply text_refl.
  - inversion Hs; apply text_refl.
  - inversion Hs; apply text_refl.
  - inversion Hs; apply text_refl.
  - inversion Hs; apply text_refl.
  - inversion Hs; apply text_refl.
Qed.

Lemma lk_bytes_eqb_false a b : bytes_eqb a b = false -> a <> b.
Proof. intros E H. subst b. assert (X : bytes_eqb a a = true) by now apply lk_bytes_eqb_eq. congruence. Qed.

Lemma disk_get_path d f df : disk_get d f = Some df -> d_path df = f.
Proof.
  induction d as [|g r IH]; cbn [disk_get]; [discriminate|]. destruct (bytes_eqb (d_path g) f) eqn:E; [|exact IH].
  intros H. inversion H; subst. now apply lk_bytes_eqb_eq.
Qed.

Lemma ext_of_text d f df t' : disk_get d f = Some df -> text (d_tab df) t' -> ext d (disk_set d (mkD f (d_type df) t')).
Proof.
  intros Hg [T1 T2]. set (nf := mkD f (d_type df) t').
  assert (Hsame : disk_get (disk_set d nf) f = Some nf) by apply (disk_get_set_same d nf).
  assert (Hoth : forall g, g <> f -> disk_get (disk_set d nf) g = disk_get d g) by (intros g Hne; now apply disk_get_set_other).
  split; [|split].
  - intros p ft. unfold exists_as. destruct (bytes_eqb p f) eqn:E.
    + apply lk_bytes_eqb_eq in E. subst p. rewrite Hsame, Hg. reflexivity.
    + rewrite Hoth; [reflexivity|]. now apply lk_bytes_eqb_false.
  - intros [g u] r. unfold node_at. cbn [fst snd]. destruct (bytes_eqb g f) eqn:E.
    + apply lk_bytes_eqb_eq in E. subst g. rewrite Hsame, Hg. cbn [d_tab]. apply T1.
    + rewrite Hoth; [intros H; exists r; auto|]. now apply lk_bytes_eqb_false.
  - intros [g u] nm k. unfold child_named, kids_at. cbn [fst snd]. destruct (bytes_eqb g f) eqn:E.
    + apply lk_bytes_eqb_eq in E. subst g. rewrite Hsame, Hg. cbn [d_tab].
      destruct (find_child (children (d_tab df) u) nm) as [r|] eqn:Ef; [|discriminate].
      destruct (T2 _ _ _ Ef) as [r' [Ef' Hu]]. subst nf. cbn [d_tab]. rewrite Ef'. intros H. inversion H; subst. now rewrite Hu.
    + rewrite Hoth; [auto|]. now apply lk_bytes_eqb_false.
Qed.

(* Old: every mutation but the rename; Cur: every mutation *)
Definition ren_ok (v : ver) (o : op) : Prop :=
  match v with Cur => True | Old => forall p u nm, o <> ORename p u nm end.

Definition acoherent v (s : ast) : Prop := coherent v (a_disk s) (a_env s) (mkRs (a_cache s) []).

(* CACHE COHERENCE UNDER MUTATION: whatever the state, whatever the operation -- create, link, delete, move, relabel,
   re-dimension, any write, any query, accepted or refused -- a coherent v cache stays coherent v.  The only modelled
   mutation missing from this list is the rename (C08_cache_refuted shows why). *)
Theorem mutate_keeps_coherent v s f o s' r : ren_ok v o ->
  acoherent v s -> adf_mutate v s f o = (s', r) -> acoherent v s'.
Proof.
  intros Hnr Hc H.
  assert (Hren : forall p u nm, o = ORename p u nm -> v = Cur)
    by (intros p u nm ->; destruct v; [exfalso; now apply (Hnr p u nm)|reflexivity]).
  clear Hnr. unfold adf_mutate in H. destruct (negb (file_open s f)); [inversion H; subst; exact Hc|].
  destruct (disk_get (a_disk s) f) as [df|] eqn:Eg; [|inversion H; subst; exact Hc].
  destruct (step_table false (d_tab df) o) as [t' r0] eqn:Es.
  assert (Hkeep : forall c caps chunks, (c = None \/ (c = a_cache s /\ keeps_structure o = true)) ->
            acoherent v (mkAst (disk_set (a_disk s) (mkD f (d_type df) t')) c (a_slots s) caps chunks (a_env s))).
  { intros c caps chunks [->|[-> Hk]]; unfold acoherent, coherent; cbn [a_disk a_env a_cache r_cache]; [exact I|].
    unfold acoherent, coherent in Hc. cbn [r_cache] in Hc. destruct (a_cache s) as [[k l]|]; [|exact I].
    apply (resolves_to_ext v (a_disk s)); [|exact Hc]. apply ext_of_text; [exact Eg|]. now apply (text_step _ o _ r0). }
  assert (Hci : forall b c, c = a_cache s -> keeps_structure o = true ->
            clear_if b c = None \/ (clear_if b c = a_cache s /\ keeps_structure o = true)).
  { intros b c -> Hk. destruct b; [now left|right; split; [reflexivity|assumption]]. }
  destruct r0; try (inversion H; subst; exact Hc);
    destruct o; cbn in H;
    repeat match type of H with
           | context [add_child_effect ?a ?b ?c] => destruct (add_child_effect a b c)
           | context [find_node ?a ?b] => destruct (find_node a b)
           | context [if ?c then _ else _] => destruct c
           | context [match v with Old => _ | Cur => _ end] => destruct v
           end; inversion H; subst s'; unfold with_disk;
    try (apply Hkeep; first [now left | right; split; reflexivity | apply Hci; reflexivity]);
    try (exfalso; discriminate (Hren _ _ _ eq_refl)).
Qed.

(* reads and look-ups keep it too (cache soundness), so: along EVERY history of reads, look-ups and mutations other than
   the rename, in a fixed search environment, every answer read through a link is the answer of full resolution *)
Theorem read_keeps_coherent v fuel s i what : acoherent v s -> acoherent v (fst (adf_read v fuel s i what)).
Proof.
  intros Hc. unfold adf_read. destruct (negb (file_open s (fst i))); [exact Hc|].
  unfold adf_get. destruct (node_at (a_disk s) i); [|exact Hc].
  destruct (what =? 0); [exact Hc|]. destruct (what =? 4); [exact Hc|]. destruct (what =? 5); [exact Hc|].
  destruct (chase_sim v (a_disk s) (a_env s) fuel (mkRs (a_cache s) []) i Hc) as [C1 _].
  destruct (chase v true fuel (a_disk s) (a_env s) (mkRs (a_cache s) []) i) as [x [l|e]]; cbn [fst] in *;
    unfold acoherent, commit; cbn [a_disk a_env a_cache]; unfold coherent in *; cbn [r_cache] in *; exact C1.
Qed.

Theorem lookup_keeps_coherent v fuel s i name : acoherent v s -> acoherent v (fst (adf_lookup v fuel s i name)).
Proof.
  intros Hc. unfold adf_lookup. destruct (negb (file_open s (fst i))); [exact Hc|]. unfold lookup.
  destruct (get_node_id_sim v (a_disk s) (a_env s) _ (mkRs (a_cache s) []) i name (chase_sim v (a_disk s) (a_env s) fuel) Hc) as [C1 _].
  destruct (get_node_id (chase v true fuel (a_disk s) (a_env s)) (a_disk s) (mkRs (a_cache s) []) i name) as [x r]; cbn [fst] in *.
  unfold acoherent, commit; cbn [a_disk a_env a_cache]; unfold coherent in *; cbn [r_cache] in *; exact C1.
Qed.

Lemma cache_sane_ext d d' s : ext d d' -> cache_sane d s -> cache_sane d' s.
Proof.
  intros [_ [Hn _]] H. unfold cache_sane in *. destruct (r_cache s) as [[k l]|]; [|exact I].
  destruct H as [[r [fp [Hr Hfp]]] [r2 [Hr2 Hl2]]]. split.
  - destruct (Hn _ _ Hr) as [r' [Hr' Hl']]. exists r', fp. split; [assumption|congruence].
  - destruct (Hn _ _ Hr2) as [r' [Hr' Hl']]. exists r'. split; [assumption|congruence].
Qed.

Definition asane (s : ast) : Prop := cache_sane (a_disk s) (mkRs (a_cache s) []).

Theorem mutate_keeps_sane v s f o s' r : ren_ok v o ->
  asane s -> adf_mutate v s f o = (s', r) -> asane s'.
Proof.
  intros Hnr Hc H.
  assert (Hren : forall p u nm, o = ORename p u nm -> v = Cur)
    by (intros p u nm ->; destruct v; [exfalso; now apply (Hnr p u nm)|reflexivity]).
  clear Hnr. unfold adf_mutate in H. destruct (negb (file_open s f)); [inversion H; subst; exact Hc|].
  destruct (disk_get (a_disk s) f) as [df|] eqn:Eg; [|inversion H; subst; exact Hc].
  destruct (step_table false (d_tab df) o) as [t' r0] eqn:Es.
  assert (Hkeep : forall c caps chunks, (c = None \/ (c = a_cache s /\ keeps_structure o = true)) ->
            asane (mkAst (disk_set (a_disk s) (mkD f (d_type df) t')) c (a_slots s) caps chunks (a_env s))).
  { intros c caps chunks [->|[-> Hk]]; unfold asane; cbn [a_disk a_env a_cache]; [exact I|].
    apply (cache_sane_ext (a_disk s)); [|exact Hc]. apply ext_of_text; [exact Eg|]. now apply (text_step _ o _ r0). }
  assert (Hci : forall b c, c = a_cache s -> keeps_structure o = true ->
            clear_if b c = None \/ (clear_if b c = a_cache s /\ keeps_structure o = true)).
  { intros b c -> Hk. destruct b; [now left|right; split; [reflexivity|assumption]]. }
  destruct r0; try (inversion H; subst; exact Hc);
    destruct o; cbn in H;
    repeat match type of H with
           | context [add_child_effect ?a ?b ?c] => destruct (add_child_effect a b c)
           | context [find_node ?a ?b] => destruct (find_node a b)
           | context [if ?c then _ else _] => destruct c
           | context [match v with Old => _ | Cur => _ end] => destruct v
           end; inversion H; subst s'; unfold with_disk;
    try (apply Hkeep; first [now left | right; split; reflexivity | apply Hci; reflexivity]);
    try (exfalso; discriminate (Hren _ _ _ eq_refl)).
Qed.

Theorem read_keeps_sane v fuel s i what : asane s -> asane (fst (adf_read v fuel s i what)).
Proof.
  intros Hc. unfold adf_read. destruct (negb (file_open s (fst i))); [exact Hc|].
  unfold adf_get. destruct (node_at (a_disk s) i); [|exact Hc].
  destruct (what =? 0); [exact Hc|]. destruct (what =? 4); [exact Hc|]. destruct (what =? 5); [exact Hc|].
  destruct (chase_pres v true (a_disk s) (a_env s) fuel (mkRs (a_cache s) []) i Hc) as [C1 _].
  destruct (chase v true fuel (a_disk s) (a_env s) (mkRs (a_cache s) []) i) as [x [l|e]]; cbn [fst] in *;
    unfold asane, commit; cbn [a_disk a_env a_cache]; unfold cache_sane in *; cbn [r_cache] in *; exact C1.
Qed.

Theorem lookup_keeps_sane v fuel s i name : asane s -> asane (fst (adf_lookup v fuel s i name)).
Proof.
  intros Hc. unfold adf_lookup. destruct (negb (file_open s (fst i))); [exact Hc|]. unfold lookup.
  pose proof (get_node_id_pres (cache_sane (a_disk s)) (nonlink (a_disk s)) _ (a_disk s) (mkRs (a_cache s) []) i name
                (chase_pres v true (a_disk s) (a_env s) fuel) Hc) as C1.
  destruct (get_node_id (chase v true fuel (a_disk s) (a_env s)) (a_disk s) (mkRs (a_cache s) []) i name) as [x r]; cbn [fst] in *.
  unfold asane, commit; cbn [a_disk a_env a_cache]; unfold cache_sane in *; cbn [r_cache] in *; exact C1.
Qed.

(* ---- histories --------------------------------------------------------------------------------------------------- *)
Inductive ev := ERead (i : nid) (what : Z) | ELookup (i : nid) (name : bytes) | EMut (f : bytes) (o : op).
Definition ev_ok (v : ver) (x : ev) : Prop := match x with EMut _ o => ren_ok v o | _ => True end.
Definition ev_step v (fuel : nat) (s : ast) (x : ev) : ast :=
  match x with
  | ERead i w => fst (adf_read v fuel s i w)
  | ELookup i n => fst (adf_lookup v fuel s i n)
  | EMut f o => fst (adf_mutate v s f o)
  end.
Definition run_evs v (fuel : nat) (s : ast) (l : list ev) : ast := fold_left (ev_step v fuel) l s.

Lemma run_keeps v fuel : forall l s, Forall (ev_ok v) l -> asane s /\ acoherent v s -> asane (run_evs v fuel s l) /\ acoherent v (run_evs v fuel s l).
Proof.
  induction l as [|x l IH]; intros s Hf Hs; [exact Hs|]. inversion Hf as [|? ? Hx Hl]; subst. cbn [run_evs fold_left].
  apply IH; [assumption|]. destruct Hs as [Hs Hc]. destruct x as [i w|i n|f o]; cbn [ev_step].
  - split; [now apply (read_keeps_sane v)|now apply (read_keeps_coherent v)].
  - split; [now apply (lookup_keeps_sane v)|now apply (lookup_keeps_coherent v)].
  - cbn in Hx. destruct (adf_mutate v s f o) as [s' r] eqn:E. cbn [fst].
    split; [now apply (mutate_keeps_sane v s f o s' r)|now apply (mutate_keeps_coherent v s f o s' r)].
Qed.

(* CACHE COHERENT: start from an empty cache and run ANY history of reads, look-ups and mutations -- for the current
   code every history, for Old every history without a rename -- in a fixed search environment; then whatever is read
   through any link afterwards is an attribute of the node that full, cache-free resolution reaches from that link *)
Theorem cache_coherent_gen v fuel s0 l i what val :
  a_cache s0 = None -> Forall (ev_ok v) l ->
  let s := run_evs v fuel s0 l in
  file_open s (fst i) = true -> snd (adf_read v fuel s i what) = AVal val -> what <> 0 -> what <> 4 -> what <> 5 ->
  exists t, resolves_to v (a_disk s) (a_env s) i (Ok t) /\ nonlink (a_disk s) t /\ val = node_attr (a_disk s) t what.
Proof.
  intros H0 Hf s Ho Hr W0 W4 W5.
  assert (Hinit : asane s0 /\ acoherent v s0) by (unfold asane, acoherent, cache_sane, coherent; cbn [r_cache]; rewrite H0; split; exact I).
  destruct (run_keeps v fuel l s0 Hf Hinit) as [Hs Hc]. fold s in Hs, Hc.
  unfold adf_read in Hr. rewrite Ho in Hr. cbn [negb] in Hr.
  destruct (adf_get v true fuel (a_disk s) (a_env s) (mkRs (a_cache s) []) i what) as [x a] eqn:E. cbn [snd] in Hr. subst a.
  destruct (cached_read_is_full_resolution v fuel _ _ _ i what x val Hs Hc E W0 W4 W5) as [t [R [N [V _]]]].
  exists t. auto.
Qed.

(* the current code: no hypothesis on the history at all *)
Theorem cache_coherent fuel s0 l i what val :
  a_cache s0 = None ->
  let s := run_evs Cur fuel s0 l in
  file_open s (fst i) = true -> snd (adf_read Cur fuel s i what) = AVal val -> what <> 0 -> what <> 4 -> what <> 5 ->
  exists t, resolves_to Cur (a_disk s) (a_env s) i (Ok t) /\ nonlink (a_disk s) t /\ val = node_attr (a_disk s) t what.
Proof.
  intros H0. apply cache_coherent_gen; [assumption|]. clear. induction l as [|x l IH]; constructor; [|assumption].
  destruct x; exact I.
Qed.

Theorem mutations_keep_cache_coherent s f o s' r : acoherent Cur s -> adf_mutate Cur s f o = (s', r) -> acoherent Cur s'.
Proof. apply mutate_keeps_coherent. exact I. Qed.

(* non-vacuity: a history WITH a rename between two reads through the link (Cur): the second read is the full resolution's *)
Example history_with_rename :
  let h := [EMut fA (OCreate 0 1 bA); EMut fA (OCreate 1 2 bB); EMut fA (OLabel 2 [76; 98]);
            EMut fA (OLink 0 3 [76] [] [47; 65; 47; 66]); ERead (fA, 3) 1; EMut fA (ORename 1 2 bC);
            EMut fA (OCreate 1 4 bB); EMut fA (OLabel 4 [120])] in
  snd (adf_read Cur 100 (run_evs Cur 100 (s_of (adf_open ast0 fA true)) h) (fA, 3) 1) = AVal (RBytes [120]).
Proof. vm_compute. reflexivity. Qed.

(* ===================================================================================================================
   13. the search-path list as state; creating under a link node
   =================================================================================================================== *)
(* cg_set_path with NULL or "" empties the list -- whatever it held *)
Theorem set_path_empty_clears e a : arg_empty a = true -> mll_set_path e a = (env_path_delete_all e, true).
Proof. intros H. unfold mll_set_path. now rewrite H. Qed.
(* cg_set_path(p) replaces the list by [p] *)
Theorem set_path_replaces e p : lenZ p <> 0 -> e_list (fst (mll_set_path e (Some p))) = [p] /\ snd (mll_set_path e (Some p)) = true.
Proof.
  intros H. unfold mll_set_path, arg_empty, env_path_add. destruct (Z.eqb_spec (lenZ p) 0); [contradiction|]. split; reflexivity.
Qed.
(* cg_add_path(p) appends, cg_add_path(NULL / "") fails and changes nothing; neither touches the environment variables *)
Theorem add_path_appends e p : lenZ p <> 0 -> mll_add_path e (Some p) = (mkE (e_adf e) (e_hdf e) (e_cgns e) (e_list e ++ [p]), true).
Proof. intros H. unfold mll_add_path, env_path_add. destruct (Z.eqb_spec (lenZ p) 0); [contradiction|reflexivity]. Qed.
Theorem add_path_empty_refused e a : arg_empty a = true -> mll_add_path e a = (e, false).
Proof. unfold mll_add_path, env_path_add, arg_empty. destruct a as [p|]; [|reflexivity]. now intros ->. Qed.
(* after an emptying set, a relative name is looked for in the parent's directory, the current directory and the
   environment variables only *)
Theorem search_after_empty_set e a parent fn ft maxlen : arg_empty a = true -> hd 0 fn <> 47 ->
  exists c1, candidates (fst (mll_set_path e a)) parent fn ft maxlen =
    c1 ++ [CPath fn] ++ dir_cands (maxlen - 1 - lenZ fn - 1) fn (if ft =? 1 then e_adf e else if ft =? 2 then e_hdf e else [])
       ++ dir_cands (maxlen - 1 - lenZ fn - 1) fn (e_cgns e).
Proof.
  intros Ha Hf. rewrite (set_path_empty_clears e a Ha). cbn [fst].
  destruct (candidates_relative (env_path_delete_all e) parent fn ft maxlen Hf) as [c1 [_ E]]. exists c1. rewrite E.
  cbn [env_path_delete_all e_adf e_hdf e_cgns e_list flat_map]. now rewrite app_nil_r.
Qed.

(* ADF refuses a child (or a link) under a link node it cannot put anywhere: in the model every create / link whose
   parent is a link node fails and changes nothing (the generator never creates under a RESOLVING link, which ADF
   redirects into the target) *)
Theorem adf_create_under_link_refused v s f df p u nm pr : disk_get (a_disk s) f = Some df ->
  find_node (d_tab df) p = Some pr -> is_link pr = true -> adf_mutate v s f (OCreate p u nm) = (s, RErr).
Proof.
  intros Hg Hp Hl. unfold adf_mutate. destruct (negb (file_open s f)); [reflexivity|]. rewrite Hg.
  cbn [step_table]. unfold op_create. rewrite Hp. destruct (find_node (d_tab df) u); [reflexivity|].
  rewrite Hl. cbn [negb]. rewrite andb_false_r. reflexivity.
Qed.

(* current ADFH refuses it as well, whatever the world: nothing changes *)
Theorem h5_create_under_link_refused d f df o : disk_get d f = Some df -> h5_parent_is_link (d_tab df) o = true ->
  h5_mutate Cur d f o = (d, RErr).
Proof. intros Hg Hp. unfold h5_mutate. now rewrite Hg, Hp. Qed.

(* history: before 66db802 ADFH accepted it -- under a DANGLING link too -- and the child was nowhere *)
Definition w_dangling : disk := [mkD fH 2 (h5_root_table ++ [mkN 1 0 [76] [] s_LK [] [] (Some ([], [47; 78]))])].
Theorem h5_create_under_dangling_link_old_refuted :
  h5_get Cur w_dangling (fH, 1) 1 = AErr ELinkTarget /\ h5_mutate Old w_dangling fH (OCreate 1 2 [99]) = (w_dangling, ROk).
Proof. split; vm_compute; reflexivity. Qed.
Example h5_create_under_dangling_link_cur : h5_mutate Cur w_dangling fH (OCreate 1 2 [99]) = (w_dangling, RErr).
Proof. vm_compute. reflexivity. Qed.
