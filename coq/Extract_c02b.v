(* Extract_c02b.v -- extraction of the C02b models (AdfCache, AdfStack, AdfChildTab) to OCaml. ExtrOcamlBasic only. *)
From Coq Require Import Extraction ExtrOcamlBasic.
From CgnsV Require Import AdfCache AdfStack AdfChildTab.
Extraction Language OCaml.
Set Extraction KeepSingleton.
Extraction "extracted/c02b/model.ml"
  AdfCache.step AdfCache.safe_step AdfCache.in_c_range AdfCache.init_st AdfCache.disk_of_list AdfCache.disk_to_list
  AdfCache.auth_byte AdfCache.fget AdfCache.dnth AdfCache.pread
  AdfStack.sstep AdfStack.init_sst AdfStack.tstep AdfStack.init_tst AdfStack.live_count AdfStack.valid_sop
  AdfChildTab.add_child AdfChildTab.del_child AdfChildTab.check_child AdfChildTab.rename_child AdfChildTab.empty_tab
  AdfChildTab.children AdfChildTab.pad32 AdfChildTab.cstep.
