(* Extract.v -- extraction of the executable models to OCaml.
   ExtrOcamlBasic only: bool, option, list, prod, unit, sumbool map to OCaml's
   own; Z, N, positive, nat, ascii stay extracted inductives.  No Extract
   Constant / Extract Inductive directives of our own. *)
From Coq Require Import Extraction ExtrOcamlBasic.
From CgnsV Require Import HashMap ZoneMirror.
Extraction Language OCaml.
Set Extraction KeepSingleton.
Extraction "extracted/model.ml" HashMap.mstep HashMap.empty_map HashMap.hash_cstr
  ZoneMirror.zstep ZoneMirror.empty_base.
