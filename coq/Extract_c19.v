(* Extract_c19.v -- extraction of the C19 model (AdfFormat) to OCaml.  ExtrOcamlBasic only. *)
From Coq Require Import Extraction ExtrOcamlBasic.
From CgnsV Require Import AdfFormat.
Extraction Language OCaml.
Set Extraction KeepSingleton.
Extraction "extracted/c19/model.ml" AdfFormat.convert_number_format AdfFormat.convert_number_format_old
  AdfFormat.write_data_translated AdfFormat.read_data_translated AdfFormat.apply_writes
  AdfFormat.chunk_write AdfFormat.chunk_read AdfFormat.evaluate_datatype AdfFormat.dtype_of_chars
  AdfFormat.figure_machine_format AdfFormat.fill_initial_file_header AdfFormat.header_bytes
  AdfFormat.parse_header_bytes AdfFormat.get_format AdfFormat.file_and_machine_compare
  AdfFormat.database_open_new AdfFormat.database_open_old AdfFormat.this_host AdfFormat.machine_sizes
  AdfFormat.to_file1 AdfFormat.from_file1 AdfFormat.machine_format_of AdfFormat.stridx0
  AdfFormat.S_LEGACY AdfFormat.NO_ERROR.
