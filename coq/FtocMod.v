(* FtocMod.v -- C20f: the Fortran-IMPLEMENTED wrappers (module procedures of cgns_f.F90 that call a C API function through a
   nested BIND(C) interface).  Definitions only.

   A row of Gen_C20f.mp_rows (translators/c20f_iface.py: modproc_rows) describes one such procedure:
     m_ndummies / m_ncparams : number of dummy arguments of the procedure / number of parameters of the C function
                               (-1: prototype not in the headers, e.g. cg_goto_fc1).  The Fortran API adds exactly `ier`.
     m_outs : for every actual argument of the C call that receives an OUTPUT of the C function (passed by reference, not
              INTENT(IN), not set before the call):  (position, how it reaches the caller, size of a CHARACTER temporary)
                OutDirect    the procedure's own dummy is passed
                OutCopied    a local temporary, copied to a dummy after the call (dummy = INT(temp), C_F_string_chars ...)
                OutNotCopied a local temporary that is never copied to a dummy: the caller never sees the output
                OutUnknown   neither a dummy nor a declared local
              size: -1 not a CHARACTER temporary, 0 TYPE(C_PTR) (the C function allocates), -2 not understood, else bytes
     m_unassigned : INTENT(OUT) dummies that are never assigned nor passed on. *)
From Coq Require Import ZArith List String Bool.
From CgnsV Require Import ListX Ftoc.
Import ListNotations.
Local Open Scope string_scope.
Local Open Scope Z_scope.

Inductive outk := OutDirect | OutCopied | OutNotCopied | OutUnknown.
Record mprow := { m_proc : string; m_cfunc : string; m_ndummies : Z; m_ncparams : Z;
                  m_outs : list (Z * outk * Z); m_unassigned : list string }.

(* bytes the C function may write into a caller-supplied string buffer (position = 0-based C argument): 33 (32 + NUL) unless
   listed.  cg_family_name_read / cg_node_family_name_read copy a family PATH (char_md = 20 x 33 + 1, as cg_famname_read and
   cg_multifam_read in Ftoc.out_max) *)
Definition mp_out_max (cfunc : string) (pos : Z) : Z :=
  if String.eqb cfunc "cg_family_name_read" && (pos =? 5) then 661
  else if String.eqb cfunc "cg_node_family_name_read" && (pos =? 2) then 661
  else 33.

Definition out_ok (cfunc : string) (o : Z * outk * Z) : bool :=
  let '(pos, k, size) := o in
  match k with
  | OutDirect => true
  | OutCopied => (size =? -1) || (size =? 0) || (mp_out_max cfunc pos <=? size)
  | OutNotCopied | OutUnknown => false
  end.
Definition arity_ok (r : mprow) : bool := (m_ncparams r =? -1) || (m_ndummies r =? m_ncparams r + 1).
Definition mp_ok (r : mprow) : bool :=
  arity_ok r && forallb (out_ok (m_cfunc r)) (m_outs r) && match m_unassigned r with [] => true | _ => false end.

(* rows of the CURRENT code known to violate mp_ok.  Empty since 9418046, 26cde09, f901b55, 763a68d (notes/C20-fixes/02, 03, 04, 06
   are in /repo).  The eleven procedures that were listed here: cg_coord_id_f (coord_id was a local variable, not a dummy),
   cg_discrete_ptset_write_f (D never assigned from i_D), cg_family_name_read_f / cg_node_family_name_read_f (33-byte c_family for a
   family path of up to 661 bytes), cg_particle_read_f, cg_particle_coord_node_read_f, cg_particle_coord_info_f,
   cg_particle_sol_info_f, cg_particle_field_info_f, cg_piter_read_f (C buffer of LEN_TRIM(<caller's variable>)+1 bytes) and
   cg_particle_model_read_f (same, and the label never passed to C): if any of these shapes comes back,
   C20f_modproc_table_checked fails.  The literal witness rows below stay as the refuted model of the old code. *)
Definition mp_known : list string := [ ].
Definition mp_row_known (r : mprow) : bool := mem (m_proc r) mp_known.
Definition mp_bad_rows (t : list mprow) : list string := map m_proc (filter (fun r => negb (mp_ok r)) t).
Definition mp_table_ok (t : list mprow) : bool := forallb (fun r => mp_ok r || mp_row_known r) t.

(* literal copies of three offending rows of the current code *)
Definition w_coord_id : mprow :=
  {| m_proc := "cg_coord_id_f"; m_cfunc := "cg_coord_id"; m_ndummies := 5; m_ncparams := 5;
     m_outs := [(4, OutNotCopied, -1)]; m_unassigned := [] |}.
Definition w_discrete_ptset_write : mprow :=
  {| m_proc := "cg_discrete_ptset_write_f"; m_cfunc := "cg_discrete_ptset_write"; m_ndummies := 10; m_ncparams := 9;
     m_outs := [(8, OutNotCopied, -1)]; m_unassigned := [] |}.
Definition w_family_name_read : mprow :=
  {| m_proc := "cg_family_name_read_f"; m_cfunc := "cg_family_name_read"; m_ndummies := 7; m_ncparams := 6;
     m_outs := [(4, OutCopied, 33); (5, OutCopied, 33)]; m_unassigned := [] |}.
