(* Extract_c02d.v -- extraction of the C02d model (AdfAlloc: the ADF free-space manager) to OCaml. ExtrOcamlBasic only. *)
From Coq Require Import Extraction ExtrOcamlBasic.
From CgnsV Require Import AdfAlloc.
Extraction Language OCaml.
Set Extraction KeepSingleton.
Extraction "extracted/c02d/model.ml"
  AdfAlloc.init_st AdfAlloc.in_c_range AdfAlloc.classify AdfAlloc.free AdfAlloc.free_raw AdfAlloc.malloc
  AdfAlloc.malloc_arm AdfAlloc.malloc_gap AdfAlloc.step AdfAlloc.ok_step AdfAlloc.exact_step AdfAlloc.take_live AdfAlloc.run AdfAlloc.ok_hist
  AdfAlloc.positions AdfAlloc.regions AdfAlloc.free_regions AdfAlloc.total AdfAlloc.last_start
  AdfAlloc.malloc_search AdfAlloc.step_search AdfAlloc.blk AdfAlloc.off AdfAlloc.HDR AdfAlloc.n_entries.
