(* AdfMoveProofs.v -- ADF_Move_Child (AdfMove.v) either moves exactly one entry or changes nothing. *)
From Coq Require Import ZArith List Bool Lia.
From CgnsV Require Import AdfChildTab AdfChildTabProofs AdfMove.
Import ListNotations.
Local Open Scope Z_scope.

Lemma find_ptr_none : forall n l child, find_ptr l n child = None -> has_ptr (firstn n l) child = false.
Proof.
  induction n as [|n IH]; intros l child H; [destruct l; reflexivity|].
  destruct l as [|e r]; [reflexivity|]. cbn [find_ptr] in H. cbn [firstn]. unfold has_ptr. cbn [existsb].
  destruct (ptr_eqb (snd e) child) eqn:E; [discriminate|]. cbn [orb].
  destruct (find_ptr r n child) eqn:F; [discriminate|]. apply (IH r child F).
Qed.

(* the entry check_child finds lies among the children *)
Lemma check_child_in t nm i e : WFc t -> check_child t nm = Some (i, e) -> In e (children t).
Proof.
  intros HW H. destruct (WFc_ok t HW) as [Hhb Htb]. destruct HW as [Hn Hl Hc].
  unfold check_child in H. rewrite Hhb, Htb, andb_false_r in H.
  destruct (num t =? 0); [discriminate|].
  pose proof (find_name_spec (Z.to_nat (num t)) (ents t) nm) as S.
  destruct (find_name (ents t) (Z.to_nat (num t)) nm) as [j|]; [|discriminate].
  destruct S as (A & B & _). inversion H; subst i e. unfold children.
  rewrite <- (firstn_skipn (Z.to_nat (num t)) (ents t)) at 1.
  rewrite app_nth1 by (rewrite firstn_length; lia). apply nth_In. rewrite firstn_length. lia.
Qed.

Lemma del_child_finds t child e : WFc t -> In e (children t) -> ptr_eqb (snd e) child = true ->
  exists t', del_child t child = COk t'.
Proof.
  intros HW Hin Hp. destruct (WFc_ok t HW) as [Hhb Htb].
  unfold del_child. rewrite Hhb, Htb. cbn [orb].
  destruct (find_ptr (ents t) (Z.to_nat (num t)) child) as [i|] eqn:F; [eexists; reflexivity|].
  apply find_ptr_none in F. exfalso.
  assert (X : has_ptr (children t) child = true).
  { unfold has_ptr. apply existsb_exists. exists e. split; assumption. }
  unfold children in X. congruence.
Qed.

(* ---- the call is atomic: whatever it returns other than NO_ERROR, both tables are what they were *)
Theorem move_cur_error_changes_nothing : forall src dst nm hdr child r src' dst',
  WFc src -> WFc dst ->
  move_child MvCur src dst nm hdr child = (r, src', dst') -> r <> MOk -> src' = src /\ dst' = dst.
Proof.
  intros src dst nm hdr child r src' dst' HWs HWd H Hr. unfold move_child in H.
  destruct (check_child src nm) as [[i e]|] eqn:C1; [|inversion H; auto].
  destruct (ptr_eqb (snd e) child) eqn:P; [|inversion H; auto].
  destruct (check_child dst nm) eqn:C2; [inversion H; auto|].
  destruct (add_child dst hdr child) as [[dst1|err]|] eqn:A; [|inversion H; auto|inversion H; auto].
  destruct (del_child_finds src child e HWs (check_child_in src nm i e HWs C1) P) as [s1 D].
  rewrite D in H. inversion H; subst. congruence.
Qed.

(* ---- a successful call: the child's entry leaves the parent's list and is appended to the new parent's *)
Theorem move_ok_spec : forall v src dst nm hdr child src' dst',
  WFc src -> WFc dst -> cap dst < FLOAT_EXACT ->
  move_child v src dst nm hdr child = (MOk, src', dst') ->
  WFc src' /\ WFc dst' /\
  children src' = remove_first (children src) child /\
  children dst' = children dst ++ [(hdr, child)] /\
  has_name (children dst) nm = false.
Proof.
  intros v src dst nm hdr child src' dst' HWs HWd Hsmall H. unfold move_child in H.
  destruct (check_child src nm) as [[i e]|] eqn:C1; [|discriminate].
  destruct (match v with MvOld => true | MvCur => ptr_eqb (snd e) child end); [|discriminate].
  destruct (check_child dst nm) eqn:C2; [discriminate|].
  destruct (add_child dst hdr child) as [[dst1|err]|] eqn:A; [|discriminate|discriminate].
  pose proof (del_child_spec src child HWs) as D.
  destruct (del_child src child) as [s1|err]; [|discriminate].
  inversion H; subst s1 dst1. destruct D as (W1 & K1 & _).
  destruct (WFc_ok dst HWd) as [Hhb Htb].
  assert (Hn : 0 <= num dst) by (destruct HWd; lia).
  assert (HN : has_name (children dst) nm = false) by (apply (check_child_none dst nm Hn Hhb Htb); exact C2).
  destruct (add_child_spec dst hdr child HWd Hsmall) as (t' & E & W2 & K2 & _).
  rewrite E in A. inversion A; subst t'. exact (conj W1 (conj W2 (conj K1 (conj K2 HN)))).
Qed.

(* ---- before 730e850 the name alone decided: a parent that is not the child's parent but has a child of its name
        let the call add the child to the new parent and fail afterwards *)
Definition w_name : list Z := [120].                                   (* "x" *)
Definition w_hdr : name := pad32 w_name.
Definition w_src : ctab :=                                            (* the WRONG parent: its own child "x" at (7,0) *)
  mkC 8 1 ((w_hdr, (7, 0)) :: repeat (unused_name, (0, 4096)) 7).
Definition w_dst : ctab := empty_tab.
Definition w_child : ptr := (5, 64).                                   (* the node being moved: another "x" *)

Theorem move_old_not_atomic_refuted :
  WFc w_src /\ WFc w_dst /\
  (exists e d', move_child MvOld w_src w_dst w_name w_hdr w_child = (MErr e, w_src, d') /\
                children d' = [(w_hdr, w_child)]) /\
  move_child MvCur w_src w_dst w_name w_hdr w_child = (MErr CHILD_NOT_OF_GIVEN_PARENT, w_src, w_dst).
Proof.
  split.
  { constructor; [vm_compute; split; discriminate | vm_compute; reflexivity | right; vm_compute; discriminate]. }
  split; [apply empty_WFc|].
  split; [eexists; eexists; split; vm_compute; reflexivity|vm_compute; reflexivity].
Qed.

(* non-vacuity of move_ok_spec: the right parent *)
Example move_ok_example :
  let src := mkC 8 2 ((w_hdr, (5, 64)) :: (pad32 [121], (6, 0)) :: repeat (unused_name, (0, 4096)) 6) in
  exists s' d', move_child MvCur src empty_tab w_name w_hdr w_child = (MOk, s', d') /\
                children s' = [(pad32 [121], (6, 0))] /\ children d' = [(w_hdr, w_child)].
Proof. eexists; eexists; vm_compute; repeat split; reflexivity. Qed.
