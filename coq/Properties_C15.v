(* Properties_C15.v -- exported theorems for C15 (compaction never loses the data, whenever it is interrupted).
   Only statements, each closed by [exact] of a lemma proved in CompactProofs.v, each followed by
   Print Assumptions. *)
From Coq Require Import ZArith List Bool.
From CgnsV Require Import Compact CompactProofs Gen_C15.
Import ListNotations.

(* Generic: for ANY step list accepted by the decidable predicate [safe_order], for every copy (any list of
   writes ws during recurse_nodes, any list wc flushed by the close of the temporary) whose result is logically
   equal to the source, and for EVERY crash point n (prefix of the atomic steps, including any number of the
   copy's writes): the original path or its temporary sibling opens to a complete file logically equal to the
   source, and no other path has changed.  After the whole list the original path holds the copy and the
   temporary is absent. *)
Theorem C15_crash_safe :
  forall (F T L : path) (ws wc : list wr) (src : content) (leq : content -> content -> Prop),
    (forall c, leq c c) -> F <> T -> leq (apply_writes (ws ++ wc) []) src ->
  forall (prog : list stmt) (s0 : fs),
    safe_order prog = true -> s0 F = Some (File src) ->
    (forall n, let s := exec (firstn n (trace F T L ws wc prog)) s0 in
        ((exists c, resolve 8 s F = Some c /\ leq c src) \/ (exists c, resolve 8 s T = Some c /\ leq c src)) /\
        (forall q, q <> F -> q <> T -> s q = s0 q)) /\
    (let s := exec (trace F T L ws wc prog) s0 in
        resolve 8 s F = Some (apply_writes (ws ++ wc) []) /\ s T = None /\
        (forall q, q <> F -> q <> T -> s q = s0 q)).
Proof. exact crash_safe. Qed.
Print Assumptions C15_crash_safe.

(* Symbolic-link variant: the file is named through a link L -> F.  The link itself is never replaced (its
   target is), and at every crash point the data is reachable through the link or at the temporary. *)
Theorem C15_crash_safe_symlink :
  forall (F T L : path) (ws wc : list wr) (src : content) (leq : content -> content -> Prop),
    (forall c, leq c c) -> F <> T -> leq (apply_writes (ws ++ wc) []) src ->
  forall (prog : list stmt) (s0 : fs),
    safe_order prog = true -> s0 F = Some (File src) -> L <> F -> L <> T -> s0 L = Some (Symlink F) ->
    (forall n, let s := exec (firstn n (trace F T L ws wc prog)) s0 in
        s L = Some (Symlink F) /\
        ((exists c, resolve 8 s L = Some c /\ leq c src) \/ (exists c, resolve 8 s T = Some c /\ leq c src))) /\
    (let s := exec (trace F T L ws wc prog) s0 in
        s L = Some (Symlink F) /\ resolve 8 s L = Some (apply_writes (ws ++ wc) []) /\ s T = None).
Proof. exact crash_safe_symlink. Qed.
Print Assumptions C15_crash_safe_symlink.

(* The CURRENT code (table regenerated from /repo on every run): both paths of rewrite_file are in a safe
   order, the temporary is the sibling "<replaced file>.temp", the callers add no file-level effects. *)
Theorem C15_code_is_safe : code_ok = true.
Proof. exact code_is_safe. Qed.
Print Assumptions C15_code_is_safe.

(* What holds exactly: between Unlink orig and Rename tmp orig the original path is ABSENT while the temporary
   is complete -- "at least one of the two" holds, "the original path always" does not. *)
Theorem C15_window_orig_absent :
  states_after code_plain (FO, TJ) =
    [Some (FO, TJ); Some (FO, TJ); Some (FO, TA); Some (FO, TA); Some (FO, TE); Some (FO, TC); Some (FO, TF);
     Some (FO, TF); Some (FG, TF); Some (FN, TA)].
Proof. exact window_orig_absent. Qed.
Print Assumptions C15_window_orig_absent.

(* Not covered by the kill-only property, recorded for C14: rewrite_file ignores the status of
   cgio_close_file(cgout); under I/O failures the order is not safe, with a concrete losing run. *)
Theorem C15_code_not_fault_safe : fault_safe code_plain = false /\ fault_safe code_symlink = false.
Proof. exact code_not_fault_safe. Qed.
Print Assumptions C15_code_not_fault_safe.

Theorem C15_ignored_close_status_refuted :
  nth_error code_plain 6 = Some {| s_act := CloseOut; s_onfail := None |} /\
  wit_final 0 = Some (File [1;2]%Z) /\ wit_final 1 = None.
Proof. exact ignored_close_status_loses_data. Qed.
Print Assumptions C15_ignored_close_status_refuted.

(* the hypotheses of C15_crash_safe are satisfiable: the generated plain table on a three-byte file *)
Example C15_hypotheses_satisfiable :
  safe_order code_plain = true /\ wit_fs0 0 = Some (File [1;2;3]%Z) /\
  apply_writes ([(0, [1;2]%Z)] ++ [(2, [3]%Z)]) [] = [1;2;3]%Z.
Proof. vm_compute. repeat split; reflexivity. Qed.
