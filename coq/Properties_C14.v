(* Properties_C14.v -- exported theorems for C14 (an I/O failure is always reported; success means the data is in
   the file).  Only statements, each closed by [exact] of a lemma proved in AdfIOProofs.v. *)
From Coq Require Import ZArith List Bool.
From CgnsV Require Import AdfIO AdfIOProofs.
Import ListNotations.
Local Open Scope Z_scope.

(* For EVERY response stream: ADFI_write terminates; it returns the full length iff the stream lets every byte
   through -- short counts and EINTR retried -- and -1 iff a hard error comes first ([accepted] is the stream-only
   specification); the bytes that reached the disk are a prefix of the data laid contiguously from the seek
   position; the write calls themselves are contiguous from that position: no byte twice, none skipped. *)
Theorem C14_retry : forall o data,
  exists r o' newl,
    adfi_write o data = Some (r, o') /\
    let '(k, e) := accepted (resps o) (length data) in
    disk o' = wsplice (disk o) (pos o) (firstn k data) /\ pos o' = (pos o + k)%nat /\
    rderr o' = rderr o /\ (resps o = [] -> resps o' = []) /\
    log o' = newl ++ log o /\ contig (pos o) (rev newl) = Some (pos o') /\
    ((e = false /\ r = Z.of_nat (length data) /\ k = length data) \/
     (e = true /\ r = -1 /\ (k < length data)%nat)).
Proof. exact adfi_write_retry. Qed.
Print Assumptions C14_retry.

(* The read side of the same loop, for EVERY response stream: ADFI_read terminates; -1 iff a hard error came first;
   otherwise it returns every byte between the file position and min(position + n, end of file): short counts and
   EINTR are retried, only end of file (read() = 0) ends the loop early.  (Read-side faults are OUTSIDE the property's
   quantifier "fails, shortens or interrupts any write, seek or close"; the theorem is what the call-by-call
   correspondence holds the library's ADFI_read to.) *)
Theorem C14_read_retry : forall o n,
  exists r bytes o',
    adfi_read o n = Some (r, bytes, o') /\ disk o' = disk o /\ (resps o = [] -> resps o' = []) /\
    ((r = -1 /\ rderr o' = true /\ resps o <> []) \/
     (bytes = firstn n (skipn (pos o) (disk o)) /\ r = Z.of_nat (length bytes) /\
      pos o' = (pos o + length bytes)%nat /\ rderr o' = rderr o)).
Proof. exact adfi_read_retry. Qed.
Print Assumptions C14_read_retry.

(* For EVERY history of ADFI_write_file / ADFI_read_file / ADFI_flush_buffers / fsync / ADFI_close_file calls,
   every initial file and EVERY response stream: if every operation INCLUDING the close reported NO_ERROR (and no
   read() failed hard -- reads are outside the property; see C14_read_error_swallowed_refuted), the fault-free
   OS runs the same history to the same statuses, returns the same bytes to every read, and ends with the SAME
   DISK: an injected write/seek/fsync/close failure surfaces no later than the close, short counts and EINTR
   are transparent. *)
Theorem C14_success_means_on_disk : forall fi ops d rs l sfe,
  run fi (mk_state d rs) ops = Some (l, sfe) -> all_ok l = true -> no_read_error l = true ->
  exists li sie, run fi (mk_state d []) ops = Some (li, sie) /\
                 map fst li = map fst l /\ all_ok li = true /\
                 disk (o_ sfe) = disk (o_ sie) /\ c_ sfe = c_ sie.
Proof. intros fi ops d rs l sfe. exact (success_means_on_disk fi ops _ _ l sfe (R_init d rs)). Qed.
Print Assumptions C14_success_means_on_disk.

Theorem C14_read_error_swallowed_refuted :
  exists l s li si,
    run 0 (mk_state [1;2;3;4] wit_rs1) wit_ops1 = Some (l, s) /\ all_ok l = true /\ no_read_error l = false /\
    run 0 (mk_state [1;2;3;4] []) wit_ops1 = Some (li, si) /\ all_ok li = true /\
    firstn 4 (disk (o_ s)) = [65;32;32;32] /\ firstn 4 (disk (o_ si)) = [65;2;3;4].
Proof. exact read_error_swallowed. Qed.
Print Assumptions C14_read_error_swallowed_refuted.

Theorem C14_deferred_flush_error_reported :
  exists l s, run 0 (mk_state [] wit_rs2) wit_ops2 = Some (l, s) /\
              map (fun x => fst (fst x)) l = [None; Some FWRITE_ERROR; None] /\ disk (o_ s) = [].
Proof. exact deferred_flush_error_reported. Qed.
Print Assumptions C14_deferred_flush_error_reported.

Theorem C14_ideal_store_refuted_without_fault :
  exists l s, run 0 (mk_state [] []) wit_ops3 = Some (l, s) /\ all_ok l = true /\
              nth (4096 + 50) (disk (o_ s)) 0 = 32 /\ nth (4096 + 200) (disk (o_ s)) 0 = 9.
Proof. exact cache_hole_without_any_fault. Qed.
Print Assumptions C14_ideal_store_refuted_without_fault.
